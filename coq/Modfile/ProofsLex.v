(* Proofs about the lexer (Lex.v): the position invariant, totality (no panic, fuel
   suffices), and what every delivered token looks like. *)
From Verif.Base Require Import Bytes Utf8.
From Verif.Modfile Require Import Syntax Lex.

(* ---------------------------------------------------------------- lists *)

Lemma frev_rev {A} (l : list A) : frev l = rev l.
Proof. unfold frev. rewrite rev_append_rev. apply app_nil_r. Qed.

Lemma has_prefix_firstn (s : str) n : has_prefix s (firstn n s) = true.
Proof.
  revert n; induction s as [|c s IH]; intros [|n]; cbn; auto.
  rewrite Z.eqb_refl. cbn. apply IH.
Qed.

Lemma has_prefix_app (s p q : str) : has_prefix s (p ++ q) = true -> has_prefix s p = true.
Proof.
  revert s; induction p as [|x p IH]; intros [|y s]; cbn; auto; try discriminate.
  intros H. apply andb_true_iff in H as [H1 H2]. rewrite H1. cbn. eauto.
Qed.

Lemma has_prefix_true (s p : str) : has_prefix s p = true <-> exists t, s = p ++ t.
Proof.
  split.
  - revert s; induction p as [|x p IH]; intros s H; [exists s; reflexivity|].
    destruct s as [|y s]; [discriminate|]. cbn [has_prefix] in H. apply andb_true_iff in H as [H1 H2].
    apply Z.eqb_eq in H1. subst y. destruct (IH _ H2) as (t & ->). exists t. reflexivity.
  - intros (t & ->). induction p as [|x p IH]; [cbn [app]; destruct t; reflexivity|]. cbn [has_prefix app]. rewrite Z.eqb_refl. exact IH.
Qed.

(* ---------------------------------------------------------------- decode *)

Lemma decode_width s r w : s <> [] -> Utf8.decode s = (r, w) -> (1 <= w <= length s)%nat.
Proof.
  destruct s as [|b0 s]; [congruence|]. intros _. unfold Utf8.decode.
  destruct (b0 <? 128); [intros [= <- <-]; cbn; lia|].
  destruct ((194 <=? b0) && (b0 <=? 223)).
  { destruct s as [|b1 s]; [intros [= <- <-]; cbn; lia|].
    destruct (cont b1); intros [= <- <-]; cbn; lia. }
  destruct ((224 <=? b0) && (b0 <=? 239)).
  { destruct s as [|b1 [|b2 s]]; try (intros [= <- <-]; cbn; lia).
    destruct (_ && _); intros [= <- <-]; cbn; lia. }
  destruct ((240 <=? b0) && (b0 <=? 244)).
  { destruct s as [|b1 [|b2 [|b3 s]]]; try (intros [= <- <-]; cbn; lia).
    destruct (_ && _); intros [= <- <-]; cbn; lia. }
  intros [= <- <-]; cbn; lia.
Qed.

(* a rune below 128 is the first byte itself *)
Lemma decode_small s r w : s <> [] -> Utf8.decode s = (r, w) -> r < 128 ->
  w = 1%nat /\ exists t, s = r :: t.
Proof.
  destruct s as [|b0 s]; [congruence|]. intros _. unfold Utf8.decode, Utf8.rune_error, cont.
  destruct (Z.ltb_spec b0 128) as [Hb|Hb]; [intros [= <- <-] _; eauto|].
  destruct ((194 <=? b0) && (b0 <=? 223)) eqn:E2.
  { destruct s as [|b1 s]; [intros [= <- <-]; lia|].
    destruct ((128 <=? b1) && (b1 <=? 191)) eqn:C1; intros [= <- <-]; lia. }
  destruct ((224 <=? b0) && (b0 <=? 239)) eqn:E3.
  { destruct s as [|b1 [|b2 s]]; try (intros [= <- <-]; lia).
    match goal with |- context[if ?c then _ else _] => destruct c eqn:C end; intros [= <- <-]; try lia.
    destruct (Z.eqb_spec b0 224), (Z.eqb_spec b0 237); lia. }
  destruct ((240 <=? b0) && (b0 <=? 244)) eqn:E4.
  { destruct s as [|b1 [|b2 [|b3 s]]]; try (intros [= <- <-]; lia).
    match goal with |- context[if ?c then _ else _] => destruct c eqn:C end; intros [= <- <-]; try lia.
    destruct (Z.eqb_spec b0 240), (Z.eqb_spec b0 244); lia. }
  intros [= <- <-]; lia.
Qed.

Lemma decode_ascii_head b t : b < 128 -> Utf8.decode (b :: t) = (b, 1%nat).
Proof. intros H. unfold Utf8.decode. apply Z.ltb_lt in H. rewrite H. reflexivity. Qed.

(* ---------------------------------------------------------------- positions *)

(* the effect of readRune on in.pos *)
Definition step_pos (p : position) (r : Z) (w : nat) : position :=
  if r =? 10 then mkPos (p_line p + 1) 1 (p_byte p + Z.of_nat w)
  else mkPos (p_line p) (p_col p + 1) (p_byte p + Z.of_nat w).

(* [at_pos data rest p]: reading [data] rune by rune from the start (utf8.DecodeRune,
   invalid bytes count as one rune), the suffix [rest] is reached at position [p]: p's
   line is 1 + the number of LF read, its column 1 + the number of runes read since the
   last LF, its byte offset the number of bytes read. *)
Inductive at_pos (data : str) : str -> position -> Prop :=
| at_start : at_pos data data (mkPos 1 1 0)
| at_next rest p r w :
    at_pos data rest p -> rest <> [] -> Utf8.decode rest = (r, w) ->
    at_pos data (skipn w rest) (step_pos p r w).

Definition valid_pos (data : str) (p : position) : Prop := exists rest, at_pos data rest p.

Lemma step_pos_byte p r w : p_byte (step_pos p r w) = p_byte p + Z.of_nat w.
Proof. unfold step_pos. destruct (r =? 10); reflexivity. Qed.

(* the offset is the number of bytes before [rest] *)
Lemma at_pos_split data rest p :
  at_pos data rest p ->
  exists pre, data = pre ++ rest /\ p_byte p = Z.of_nat (length pre).
Proof.
  induction 1 as [|rest p r w H (pre & -> & Hb) Hne Hd].
  - exists []. split; reflexivity.
  - pose proof (decode_width _ _ _ Hne Hd) as Hw.
    exists (pre ++ firstn w rest). split.
    + rewrite <- app_assoc. rewrite firstn_skipn. reflexivity.
    + rewrite step_pos_byte, Hb, app_length, firstn_length. lia.
Qed.

Lemma at_pos_byte_nonneg data rest p : at_pos data rest p -> 0 <= p_byte p.
Proof. intros H. destruct (at_pos_split _ _ _ H) as (pre & _ & ->). lia. Qed.

Lemma at_pos_rest data rest p :
  at_pos data rest p -> rest = skipn (Z.to_nat (p_byte p)) data.
Proof.
  intros H. destruct (at_pos_split _ _ _ H) as (pre & -> & ->).
  rewrite Nat2Z.id. rewrite skipn_app, skipn_all, Nat.sub_diag. reflexivity.
Qed.

(* the k-th state of that walk *)
Definition step_state (s : str * position) : option (str * position) :=
  match fst s with
  | [] => None
  | _ => let (r, w) := Utf8.decode (fst s) in Some (skipn w (fst s), step_pos (snd s) r w)
  end.

Fixpoint iter (data : str) (k : nat) : option (str * position) :=
  match k with
  | O => Some (data, mkPos 1 1 0)
  | S k' => match iter data k' with Some s => step_state s | None => None end
  end.

Lemma step_state_spec rest p s' : step_state (rest, p) = Some s' ->
  rest <> [] /\ exists r w, Utf8.decode rest = (r, w) /\ s' = (skipn w rest, step_pos p r w).
Proof.
  unfold step_state. cbn [fst snd]. destruct rest as [|c t]; [discriminate|].
  destruct (Utf8.decode (c :: t)) as [r w] eqn:Hd. intros [= <-].
  split; [discriminate|]. eauto.
Qed.

Lemma at_pos_iter data rest p : at_pos data rest p <-> exists k, iter data k = Some (rest, p).
Proof.
  split.
  - induction 1 as [|rest p r w H (k & IH) Hne Hd].
    + exists O. reflexivity.
    + exists (S k). cbn. rewrite IH. unfold step_state. cbn [fst snd].
      destruct rest; [congruence|]. rewrite Hd. reflexivity.
  - intros (k & H). revert rest p H. induction k as [|k IH]; intros rest p H.
    + cbn in H. injection H as <- <-. constructor.
    + cbn in H. destruct (iter data k) as [[rest0 p0]|] eqn:E; [|discriminate].
      apply step_state_spec in H as (Hne & r & w & Hd & [= -> ->]).
      eapply at_next; eauto.
Qed.

Lemma iter_byte_mono data k s : iter data (S k) = Some s ->
  exists s0, iter data k = Some s0 /\ p_byte (snd s0) < p_byte (snd s).
Proof.
  cbn. destruct (iter data k) as [[rest0 p0]|]; [|discriminate].
  intros H. eexists; split; [reflexivity|].
  apply step_state_spec in H as (Hne & r & w & Hd & ->).
  pose proof (decode_width _ _ _ Hne Hd). cbn [snd]. rewrite step_pos_byte. lia.
Qed.

Lemma iter_byte_lt data k k' s s' : (k < k')%nat -> iter data k = Some s -> iter data k' = Some s' ->
  p_byte (snd s) < p_byte (snd s').
Proof.
  intros Hlt. revert s'. induction Hlt as [|k' Hle IH]; intros s' Hs Hs'.
  - destruct (iter_byte_mono _ _ _ Hs') as (s0 & E & Hb). rewrite Hs in E. injection E as <-. exact Hb.
  - destruct (iter_byte_mono _ _ _ Hs') as (s0 & E & Hb). specialize (IH _ Hs E). lia.
Qed.

(* the position is a function of the byte offset *)
Lemma at_pos_fun data rest p rest' p' :
  at_pos data rest p -> at_pos data rest' p' -> p_byte p = p_byte p' -> rest = rest' /\ p = p'.
Proof.
  intros H H' Hb. apply at_pos_iter in H as (k & H). apply at_pos_iter in H' as (k' & H').
  destruct (Nat.lt_trichotomy k k') as [L|[->|L]].
  - pose proof (iter_byte_lt _ _ _ _ _ L H H'). cbn in *. lia.
  - rewrite H in H'. injection H' as -> ->. auto.
  - pose proof (iter_byte_lt _ _ _ _ _ L H' H). cbn in *. lia.
Qed.

Lemma valid_pos_unique data p p' :
  valid_pos data p -> valid_pos data p' -> p_byte p = p_byte p' -> p = p'.
Proof. intros (r & H) (r' & H') Hb. eapply at_pos_fun; eauto. Qed.

(* line = 1 + the number of LF bytes before the offset *)
Definition count_lf (s : str) : Z := Z.of_nat (length (filter (fun c => c =? 10) s)).

Lemma count_lf_app a b : count_lf (a ++ b) = count_lf a + count_lf b.
Proof. unfold count_lf. rewrite filter_app, app_length. lia. Qed.

Lemma neq10 x : x <> 10 -> (x =? 10) = false.
Proof. intros H. apply Z.eqb_neq. exact H. Qed.

Lemma decode_lf s r w : s <> [] -> Utf8.decode s = (r, w) ->
  count_lf (firstn w s) = if r =? 10 then 1 else 0.
Proof.
  destruct s as [|b0 s]; [congruence|]. intros _. unfold Utf8.decode, Utf8.rune_error, cont, count_lf.
  destruct (Z.ltb_spec b0 128) as [Hb|Hb]; [intros [= <- <-]; cbn; destruct (b0 =? 10); reflexivity|].
  assert (H0 : (b0 =? 10) = false) by (apply neq10; lia).
  destruct ((194 <=? b0) && (b0 <=? 223)) eqn:E2.
  { destruct s as [|b1 s]; [intros [= <- <-]; cbn; rewrite H0; reflexivity|].
    destruct ((128 <=? b1) && (b1 <=? 191)) eqn:C1; intros [= <- <-]; cbn; rewrite H0; cbn; try reflexivity.
    rewrite (neq10 b1) by lia. rewrite neq10 by lia. reflexivity. }
  destruct ((224 <=? b0) && (b0 <=? 239)) eqn:E3.
  { destruct s as [|b1 [|b2 s]]; try (intros [= <- <-]; cbn; rewrite H0; reflexivity).
    match goal with |- context[if ?c then _ else _] => destruct c eqn:C end; intros [= <- <-]; cbn; rewrite H0; cbn; try reflexivity.
    destruct (Z.eqb_spec b0 224), (Z.eqb_spec b0 237);
      (rewrite (neq10 b1), (neq10 b2) by lia; rewrite neq10 by lia; reflexivity). }
  destruct ((240 <=? b0) && (b0 <=? 244)) eqn:E4.
  { destruct s as [|b1 [|b2 [|b3 s]]]; try (intros [= <- <-]; cbn; rewrite H0; reflexivity).
    match goal with |- context[if ?c then _ else _] => destruct c eqn:C end; intros [= <- <-]; cbn; rewrite H0; cbn; try reflexivity.
    destruct (Z.eqb_spec b0 240), (Z.eqb_spec b0 244);
      (rewrite (neq10 b1), (neq10 b2), (neq10 b3) by lia; rewrite neq10 by lia; reflexivity). }
  intros [= <- <-]; cbn; rewrite H0; reflexivity.
Qed.

Lemma at_pos_line data rest p : at_pos data rest p ->
  p_line p = 1 + count_lf (firstn (Z.to_nat (p_byte p)) data).
Proof.
  induction 1 as [|rest p r w H IH Hne Hd].
  - reflexivity.
  - destruct (at_pos_split _ _ _ H) as (pre & -> & Hb).
    pose proof (decode_width _ _ _ Hne Hd) as Hw. pose proof (decode_lf _ _ _ Hne Hd) as Hlf.
    rewrite step_pos_byte, Hb. rewrite Hb, Nat2Z.id in IH.
    rewrite firstn_app, firstn_all, Nat.sub_diag, app_nil_r in IH.
    replace (Z.to_nat (Z.of_nat (length pre) + Z.of_nat w)) with (length pre + w)%nat by lia.
    rewrite firstn_app_2, count_lf_app, Hlf.
    unfold step_pos. destruct (r =? 10); cbn [p_line]; lia.
Qed.

(* ---------------------------------------------------------------- the lexer state invariant *)

(* positions_consistent, lexer part: in.pos is the position of in.remaining in the input,
   and the consumed bytes followed by the remaining bytes are the input *)
Definition linv (data : str) (st : lstate) : Prop :=
  at_pos data (ls_rem st) (ls_pos st) /\ rev (ls_done st) ++ ls_rem st = data.

Lemma linv_init data : linv data (init_state data).
Proof. split; [constructor | reflexivity]. Qed.

Definition rem_len (st : lstate) : nat := length (ls_rem st).

Lemma read_rune_some st : ls_rem st <> [] -> exists r st', read_rune st = Some (r, st').
Proof.
  unfold read_rune. destruct (ls_rem st) as [|c t]; [congruence|]. intros _.
  destruct (Utf8.decode (c :: t)). eauto.
Qed.

Lemma read_rune_none st : read_rune st = None -> ls_rem st = [].
Proof.
  unfold read_rune. destruct (ls_rem st) as [|c t]; [reflexivity|].
  destruct (Utf8.decode (c :: t)). discriminate.
Qed.

Lemma read_rune_spec data st r st' : linv data st -> read_rune st = Some (r, st') ->
  linv data st' /\ (rem_len st' < rem_len st)%nat /\
  exists w, Utf8.decode (ls_rem st) = (r, w) /\ ls_rem st' = skipn w (ls_rem st) /\ ls_rem st <> [] /\
            p_byte (ls_pos st') = p_byte (ls_pos st) + Z.of_nat w.
Proof.
  intros [Hp Hd]. unfold read_rune, rem_len.
  destruct (ls_rem st) as [|c t] eqn:E; [discriminate|]. rewrite <- E in *.
  assert (Hne : ls_rem st <> []) by (rewrite E; discriminate).
  destruct (Utf8.decode (ls_rem st)) as [r0 w] eqn:Hdec.
  destruct (ls_rem st) as [|c' t'] eqn:E'; [congruence|]. rewrite <- E' in *.
  intros [= <- <-]. cbn [ls_rem ls_pos ls_done].
  pose proof (decode_width _ _ _ Hne Hdec) as Hw.
  split; [split|split].
  - cbn [ls_rem ls_pos ls_done]. apply (at_next data _ _ _ _ Hp Hne Hdec).
  - cbn [ls_rem ls_pos ls_done]. rewrite rev_append_rev, rev_app_distr, rev_involutive, <- app_assoc, firstn_skipn. exact Hd.
  - cbn [ls_rem]. rewrite skipn_length. lia.
  - exists w. cbn [ls_rem ls_pos]. repeat split; auto. destruct (r0 =? 10); reflexivity.
Qed.

Lemma peek_rune_decode st : ls_rem st <> [] -> peek_rune st = fst (Utf8.decode (ls_rem st)).
Proof. unfold peek_rune. destruct (ls_rem st); [congruence|reflexivity]. Qed.

Lemma eof_true st : eof st = true <-> ls_rem st = [].
Proof. unfold eof. destruct (ls_rem st); split; congruence. Qed.

Lemma eof_false st : eof st = false <-> ls_rem st <> [].
Proof. unfold eof. destruct (ls_rem st); split; congruence. Qed.

(* ---------------------------------------------------------------- tokens *)

Lemma strip_eol_prefix (s : str) : exists t, s = strip_eol s ++ t.
Proof.
  unfold strip_eol. rewrite frev_rev. destruct (rev s) as [|a r] eqn:E; [exists []; symmetry; apply app_nil_r|].
  assert (Hs : s = rev r ++ [a]) by (rewrite <- (rev_involutive s), E; reflexivity).
  destruct (Z.eqb_spec a 10) as [->|Ha]; [|exists []; symmetry; apply app_nil_r].
  destruct r as [|b r']; [rewrite frev_rev; exists [10]; exact Hs|].
  destruct (Z.eqb_spec b 13) as [->|Hb]; rewrite frev_rev.
  - exists [13; 10]. rewrite Hs. cbn [rev]. rewrite <- app_assoc. reflexivity.
  - exists [10]. exact Hs.
Qed.

Lemma has_prefix_strip (rest s : str) : has_prefix rest s = true -> has_prefix rest (strip_eol s) = true.
Proof.
  intros H. destruct (strip_eol_prefix s) as (t & E). rewrite E in H. eapply has_prefix_app; eauto.
Qed.

(* what is known of every token the lexer delivers *)
Record tok_ok (data : str) (t : token) : Prop := mkTokOk {
  tk_pos : exists rest, at_pos data rest (t_pos t) /\ has_prefix rest (t_text t) = true;
  tk_end : valid_pos data (t_end t);
  tk_le : p_byte (t_pos t) <= p_byte (t_end t);
  tk_punct : forall c, t_kind t = KPunct c -> t_text t = [c]
}.

Lemma linv_byte data st : linv data st -> p_byte (ls_pos st) = Z.of_nat (length data) - Z.of_nat (rem_len st).
Proof.
  intros [Hp _]. destruct (at_pos_split _ _ _ Hp) as (pre & E & Hb).
  rewrite Hb. unfold rem_len. rewrite E at 1. rewrite app_length. lia.
Qed.

Lemma end_token_ok data k st0 st :
  linv data st0 -> linv data st -> (rem_len st <= rem_len st0)%nat ->
  (forall c, k = KPunct c -> exists t, ls_rem st0 = c :: t /\ p_byte (ls_pos st) = p_byte (ls_pos st0) + 1) ->
  tok_ok data (end_token k st0 st).
Proof.
  intros H0 H1 Hle Hpu. pose proof (linv_byte _ _ H0). pose proof (linv_byte _ _ H1).
  destruct H0 as [Hp0 _], H1 as [Hp1 _]. constructor; cbn [end_token t_pos t_end t_text t_kind].
  - exists (ls_rem st0). split; [exact Hp0|].
    destruct (is_comment_kind k); [apply has_prefix_strip|]; apply has_prefix_firstn.
  - exists (ls_rem st). exact Hp1.
  - lia.
  - intros c ->. destruct (Hpu c eq_refl) as (t & E & Hb). rewrite E, Hb.
    replace (p_byte (ls_pos st0) + 1 - p_byte (ls_pos st0)) with 1 by lia. reflexivity.
Qed.

Lemma not_punct_kind k : (forall c, k <> KPunct c) ->
  forall (st0 st : lstate) c, k = KPunct c -> exists t, ls_rem st0 = c :: t /\ p_byte (ls_pos st) = p_byte (ls_pos st0) + 1.
Proof. intros H st0 st c E. destruct (H c E). Qed.

(* the outcome of reading one token from a state with at most [n] remaining bytes *)
Definition good (data : str) (n : nat) (res : tok_result) : Prop :=
  match res with
  | TTok t st' => linv data st' /\ (rem_len st' <= n)%nat /\ tok_ok data t /\ t_end t = ls_pos st' /\
                  is_eof (t_kind t) = false
  | TErr p _ => valid_pos data p
  | TPanic | TFuel => False
  end.

Lemma good_weaken data n m res : (n <= m)%nat -> good data n res -> good data m res.
Proof. destruct res; cbn; intuition lia. Qed.

Lemma linv_valid data st : linv data st -> valid_pos data (ls_pos st).
Proof. intros [H _]. eexists; eauto. Qed.

Lemma comment_body_good data : forall f st, linv data st -> (rem_len st + 1 <= f)%nat ->
  exists st', comment_body f st = Some (Some st') /\ linv data st' /\ (rem_len st' <= rem_len st)%nat.
Proof.
  induction f as [|f IH]; intros st Hi Hf; [lia|]. cbn [comment_body].
  destruct (ls_rem st) as [|c t] eqn:E.
  - exists st. auto.
  - destruct (read_rune_some st) as (r & st1 & Hr); [rewrite E; discriminate|]. rewrite Hr.
    destruct (read_rune_spec _ _ _ _ Hi Hr) as (Hi1 & Hlt & _).
    destruct (r =? 10).
    + exists st1. split; [reflexivity|split; [exact Hi1|lia]].
    + destruct (IH st1 Hi1) as (st' & E' & Hi' & Hle); [lia|]. exists st'. split; [exact E'|split; [exact Hi'|lia]].
Qed.

Lemma string_body_good data q st0 : linv data st0 -> forall f st, linv data st ->
  (rem_len st <= rem_len st0)%nat -> (rem_len st + 1 <= f)%nat ->
  good data (rem_len st) (string_body f q st0 st).
Proof.
  intros H0. induction f as [|f IH]; intros st Hi Hle Hf; [lia|]. cbn [string_body].
  destruct (eof st) eqn:Ee; [cbn; apply linv_valid; exact H0|].
  destruct (peek_rune st =? 10); [cbn; apply linv_valid; exact Hi|].
  apply eof_false in Ee. destruct (read_rune_some st Ee) as (c & st1 & Hr). rewrite Hr.
  destruct (read_rune_spec _ _ _ _ Hi Hr) as (Hi1 & Hlt & _).
  destruct (c =? q).
  { cbn. split; [exact Hi1|split; [lia|split; [apply end_token_ok; auto; [lia|apply not_punct_kind; discriminate]|split; reflexivity]]]. }
  destruct ((c =? 92) && negb (q =? 96)).
  - destruct (eof st1) eqn:Ee1; [cbn; apply linv_valid; exact H0|].
    destruct (peek_rune st1 =? 10); [cbn; apply linv_valid; exact Hi1|].
    apply eof_false in Ee1. destruct (read_rune_some st1 Ee1) as (c2 & st2 & Hr2). rewrite Hr2.
    destruct (read_rune_spec _ _ _ _ Hi1 Hr2) as (Hi2 & Hlt2 & _).
    eapply good_weaken; [|apply IH; auto; lia]. lia.
  - eapply good_weaken; [|apply IH; auto; lia]. lia.
Qed.

Lemma is_ident_0 : is_ident 0 = false.
Proof. vm_compute. reflexivity. Qed.

Lemma ident_body_good data st0 : linv data st0 -> forall f st, linv data st ->
  (rem_len st <= rem_len st0)%nat -> (rem_len st + 1 <= f)%nat ->
  good data (rem_len st) (ident_body f st0 st).
Proof.
  intros H0. induction f as [|f IH]; intros st Hi Hle Hf; [lia|]. cbn [ident_body].
  assert (Hdone : good data (rem_len st) (TTok (end_token KIdent st0 st) st)).
  { cbn. split; [exact Hi|split; [lia|split; [apply end_token_ok; auto; apply not_punct_kind; discriminate|split; reflexivity]]]. }
  destruct (is_ident (peek_rune st)) eqn:Eid; [|exact Hdone].
  destruct (peek_prefix st [47; 47]); [exact Hdone|].
  destruct (peek_prefix st [47; 42]); [cbn; apply linv_valid; exact Hi|].
  destruct (read_rune st) as [[c st1]|] eqn:Hr.
  - destruct (read_rune_spec _ _ _ _ Hi Hr) as (Hi1 & Hlt & _).
    eapply good_weaken; [|apply IH; auto; lia]. lia.
  - apply read_rune_none in Hr. unfold peek_rune in Eid. rewrite Hr in Eid.
    rewrite is_ident_0 in Eid. discriminate.
Qed.

Lemma is_punct_small c : is_punct c = true -> c < 128.
Proof. unfold is_punct. lia. Qed.

(* the outcome of readToken: as [good], and a token other than EOF consumes input *)
Definition goodp (data : str) (st : lstate) (res : tok_result) : Prop :=
  match res with
  | TTok t st' => linv data st' /\ tok_ok data t /\ t_end t = ls_pos st' /\
                  (is_eof (t_kind t) = true -> ls_rem st' = [] /\ (rem_len st' <= rem_len st)%nat) /\
                  (is_eof (t_kind t) = false -> (rem_len st' < rem_len st)%nat)
  | TErr p _ => valid_pos data p
  | TPanic | TFuel => False
  end.

Lemma good_goodp data st n res : (n < rem_len st)%nat -> good data n res -> goodp data st res.
Proof.
  destruct res; cbn; auto. intros Hn (Hi & Hle & Hok & He & Hk).
  split; [exact Hi|]. split; [exact Hok|]. split; [exact He|].
  split; [intros E; congruence | intros _; lia].
Qed.

Lemma read_main_good data f st : linv data st -> peek_prefix st [47; 47] = false ->
  (rem_len st + 1 <= f)%nat -> goodp data st (read_main f st).
Proof.
  intros Hi Hss Hf. unfold read_main.
  destruct (eof st) eqn:Ee.
  { apply eof_true in Ee. cbn. split; [exact Hi|]. split.
    - apply end_token_ok; auto. apply not_punct_kind; discriminate.
    - split; [reflexivity|]. split; [auto|discriminate]. }
  apply eof_false in Ee. destruct (read_rune_some st Ee) as (c0 & st1 & Hr).
  destruct (read_rune_spec _ _ _ _ Hi Hr) as (Hi1 & Hlt & w & Hdec & Hrem & _ & Hb).
  assert (Hpk : peek_rune st = c0) by (rewrite peek_rune_decode, Hdec; auto).
  rewrite Hpk, Hr.
  destruct (is_punct c0) eqn:Ep.
  { cbn. split; [exact Hi1|]. split.
    - apply end_token_ok; auto; [lia|]. intros c [= <-].
      destruct (decode_small _ _ _ Ee Hdec (is_punct_small _ Ep)) as (-> & t & E).
      exists t. split; [exact E|]. rewrite Hb. reflexivity.
    - split; [reflexivity|]. split; [discriminate|]. intros _. exact Hlt. }
  destruct ((c0 =? 34) || (c0 =? 96)).
  { eapply good_goodp; [|apply string_body_good; auto; lia]. exact Hlt. }
  destruct (is_ident c0) eqn:Eid; cbn [negb]; [|cbn; apply linv_valid; exact Hi].
  (* the first round of the identifier loop consumes a rune *)
  destruct f as [|f]; [lia|]. cbn [ident_body]. rewrite Hpk, Eid, Hss.
  destruct (peek_prefix st [47; 42]); [cbn; apply linv_valid; exact Hi|].
  rewrite Hr. eapply good_goodp; [|apply ident_body_good; auto; lia]. exact Hlt.
Qed.

Lemma read_comment_good data f st : linv data st -> peek_prefix st [47; 47] = true ->
  (rem_len st + 1 <= f)%nat -> goodp data st (read_comment f st).
Proof.
  intros Hi Hss Hf. unfold read_comment.
  unfold peek_prefix in Hss. apply has_prefix_true in Hss as (t0 & E0). cbn [app] in E0.
  assert (Ee : ls_rem st <> []) by (rewrite E0; discriminate).
  destruct (read_rune_some st Ee) as (c0 & st1 & Hr). rewrite Hr.
  destruct (read_rune_spec _ _ _ _ Hi Hr) as (Hi1 & Hlt & w & Hdec & Hrem & _).
  (* the second slash *)
  assert (Ee1 : ls_rem st1 <> []).
  { rewrite E0 in Hdec. rewrite decode_ascii_head in Hdec by lia. injection Hdec as <- <-.
    rewrite Hrem, E0. cbn. discriminate. }
  destruct (read_rune_some st1 Ee1) as (c1 & st2 & Hr2). rewrite Hr2.
  destruct (read_rune_spec _ _ _ _ Hi1 Hr2) as (Hi2 & Hlt2 & _).
  destruct (comment_body_good data f st2 Hi2) as (st3 & E3 & Hi3 & Hle3); [lia|]. rewrite E3.
  cbn. split; [exact Hi3|]. split.
  - apply end_token_ok; auto; [lia|]. apply not_punct_kind. destruct (has_non_space _); discriminate.
  - split; [reflexivity|]. split.
    + destruct (has_non_space _); discriminate.
    + intros _. lia.
Qed.

Lemma goodp_weaken data st st1 res : (rem_len st1 < rem_len st)%nat -> goodp data st1 res -> goodp data st res.
Proof.
  destruct res; cbn; auto. intros Hlt (Hi & Hok & He & H1 & H2).
  split; [exact Hi|]. split; [exact Hok|]. split; [exact He|]. split.
  - intros E. destruct (H1 E). split; [auto|lia].
  - intros E. specialize (H2 E). lia.
Qed.

Lemma read_token_good data : forall f st, linv data st -> (rem_len st + 2 <= f)%nat ->
  goodp data st (read_token f st).
Proof.
  induction f as [|f IH]; intros st Hi Hf; [lia|]. cbn [read_token].
  destruct (eof st) eqn:Ee.
  { apply read_main_good; auto; [|lia]. apply eof_true in Ee. unfold peek_prefix. rewrite Ee. reflexivity. }
  destruct ((peek_rune st =? 32) || (peek_rune st =? 9) || (peek_rune st =? 13)).
  { apply eof_false in Ee. destruct (read_rune_some st Ee) as (c0 & st1 & Hr). rewrite Hr.
    destruct (read_rune_spec _ _ _ _ Hi Hr) as (Hi1 & Hlt & _).
    eapply goodp_weaken; [exact Hlt|]. apply IH; auto. lia. }
  destruct (peek_prefix st [47; 47]) eqn:Ess.
  { apply read_comment_good; auto. lia. }
  destruct (peek_prefix st [47; 42]); [cbn; apply linv_valid; exact Hi|].
  apply read_main_good; auto. lia.
Qed.

(* how a token list and its end fit together *)
Definition ends_ok (ts : list token) (e : lex_end) : Prop :=
  match e with
  | LEnd => exists ts' t, ts = ts' ++ [t] /\ is_eof (t_kind t) = true
  | LErr _ _ => True
  | LPanic | LFuel => False
  end.

Definition lex_ok (data : str) (ts : list token) (e : lex_end) : Prop :=
  Forall (tok_ok data) ts /\ ends_ok ts e /\
  match e with LErr p _ => valid_pos data p | _ => True end.

Lemma lex_all_good data : forall f st acc, linv data st -> (rem_len st + 3 <= f)%nat ->
  Forall (tok_ok data) acc ->
  lex_ok data (fst (lex_all f st acc)) (snd (lex_all f st acc)).
Proof.
  induction f as [|f IH]; intros st acc Hi Hf Hacc; [lia|]. cbn [lex_all].
  pose proof (read_token_good data f st Hi) as Hg. specialize (Hg ltac:(lia)).
  destruct (read_token f st) as [t st'|p e| |]; cbn in Hg; try contradiction.
  - destruct Hg as (Hi' & Hok & He & H1 & H2).
    destruct (is_eof (t_kind t)) eqn:Ek.
    + cbn [fst snd]. rewrite frev_rev. cbn [rev]. split; [|split; [|exact I]].
      * apply Forall_app. split; [apply Forall_rev; exact Hacc | constructor; [exact Hok|constructor]].
      * exists (rev acc), t. auto.
    + apply IH; auto. specialize (H2 eq_refl). lia.
  - cbn [fst snd]. rewrite frev_rev. split; [apply Forall_rev; exact Hacc|]. split; [exact I|exact Hg].
Qed.

Theorem lex_good data : lex_ok data (fst (lex data)) (snd (lex data)).
Proof.
  unfold lex. apply lex_all_good; [apply linv_init | unfold rem_len, lex_fuel, init_state; cbn; lia | constructor].
Qed.

(* the lexer never faults and never runs out of fuel *)
Corollary lex_total data : snd (lex data) <> LPanic /\ snd (lex data) <> LFuel.
Proof.
  destruct (lex_good data) as (_ & He & _). destruct (snd (lex data)); cbn in He; try contradiction; split; discriminate.
Qed.
