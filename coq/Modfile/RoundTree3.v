(* Round trip, part 8c: the printed lines of a lean tree ([file_pls]) and the theorem
   [regroup]: grouping the rows of the printed lines of a well-formed tree gives its
   normal form. *)
From Verif.Base Require Import Bytes Utf8.
From Verif.Modfile Require Import Syntax Lex Parse Print ProofsLex RoundRows RoundParse
  RoundLexPure RoundLexPure3 RoundLexPure4 RoundLexB2 RoundTrim RoundTree RoundTree2.

(* a printed line: a row at a margin, or the header line of a block *)
Inductive pl := PLRow (m : nat) (r : arow) | PLHdr (bt : list str) (sfx : list str).

Definition pl_row (p : pl) : arow :=
  match p with PLRow _ r => r | PLHdr bt sfx => RToks (bt ++ [[40]]) sfx end.

Definition tcoms (cs : list str) : list str := map trim_space cs.

(* a comment of a block: the empty comment stands for a blank line *)
Definition brow (c : str) : arow := if snil c then RBlank else RCom (trim_space c).

Definition com_pl (m : nat) (c : str) : pl := PLRow m (RCom (trim_space c)).

Definition line_pls (l : aline) : list pl :=
  map (fun c => PLRow 1 (brow c)) (al_before l) ++ [PLRow 1 (RToks (al_toks l) (tcoms (al_suffix l)))].

Definition stmt_pls (x : astmt) : list pl :=
  match x with
  | ALine l => map (com_pl 0) (al_before l) ++ [PLRow 0 (RToks (al_toks l) (tcoms (al_suffix l)))]
  | ABlock b =>
      map (com_pl 0) (ab_before b) ++ [PLHdr (ab_toks b) (tcoms (ab_lsfx b))] ++
      flat_map line_pls (ab_lines b) ++ map (fun c => PLRow 0 (brow c)) (ab_rbefore b) ++
      [PLRow 0 (RToks [[41]] (tcoms (ab_rsfx b ++ ab_sfx b)))]
  | ACB cs => map (com_pl 0) cs
  end.

Fixpoint file_pls (a : list astmt) : list pl :=
  match a with
  | [] => []
  | x :: r => match r with [] => stmt_pls x | _ => stmt_pls x ++ PLRow 0 RBlank :: file_pls r end
  end.

(* ---------------------------------------------------------------- trimmed comments *)

Lemma trim_bcom c : bcom_ok c -> bcom_ok (trim_space c) /\ trim_space (trim_space c) = trim_space c /\
  snil (trim_space c) = snil c.
Proof.
  intros [->|H]; [split; [left; reflexivity|split; reflexivity]|].
  destruct (trim_space_comment c H) as (A & _ & B & _). split; [right; exact A|]. split; [exact B|].
  pose proof (comment_text_nonnil _ A). pose proof (comment_text_nonnil _ H).
  destruct (trim_space c), c; try congruence; reflexivity.
Qed.

Lemma comment_bcom c : comment_text c -> bcom_ok c.
Proof. intros H. right. exact H. Qed.

Lemma tcoms_idem cs : Forall bcom_ok cs -> tcoms (tcoms cs) = tcoms cs.
Proof.
  induction 1 as [|c cs Hc Hcs IH]; [reflexivity|]. cbn [tcoms map]. f_equal; [apply trim_bcom; exact Hc|exact IH].
Qed.

(* ---------------------------------------------------------------- comments before a statement *)

Definition addall (cs : list str) (cb : option (list str)) : option (list str) :=
  fold_left (fun cb c => cb_add c cb) cs cb.

Lemma group_coms_top : forall cs cb acc rest,
  group (GTop cb acc) (map RCom cs ++ rest) = group (GTop (addall cs cb) acc) rest.
Proof. induction cs as [|c cs IH]; intros cb acc rest; [reflexivity|]. cbn [map app group addall fold_left]. apply IH. Qed.

Lemma addall_some : forall cs b, addall cs (Some b) = Some (rev cs ++ b).
Proof.
  unfold addall. induction cs as [|c cs IH]; intros b; [reflexivity|]. cbn [fold_left].
  change (cb_add c (Some b)) with (Some (c :: b)). rewrite IH. cbn [rev]. rewrite <- app_assoc. reflexivity.
Qed.

Lemma addall_cons c cs : addall (c :: cs) None = addall cs (Some [c]).
Proof. reflexivity. Qed.

Lemma cb_list_addall cs : cb_list (addall cs None) = cs.
Proof.
  destruct cs as [|c cs]; [reflexivity|]. rewrite addall_cons, addall_some. cbn [cb_list].
  rewrite rev_app_distr, rev_involutive. reflexivity.
Qed.

Lemma push_addall cs acc : cs <> [] -> push_acb (addall cs None) acc = ACB cs :: acc.
Proof.
  destruct cs as [|c cs]; [congruence|]. intros _. rewrite addall_cons, addall_some. cbn [push_acb].
  rewrite rev_app_distr, rev_involutive. reflexivity.
Qed.

(* ---------------------------------------------------------------- comments inside a block *)

Section InBlock.
Variables (bf bt lsfx : list str) (acc : list astmt).

Definition blank_next (coms_r : list str) (lines_r : list aline) (cs : list str) : Prop :=
  match cs with c :: _ => c = [] -> blank_cond coms_r lines_r = true | [] => True end.

Lemma regroup_bcoms : forall cs coms_r lines_r rest,
  Forall bcom_ok cs -> no_adj_blank cs -> blank_next coms_r lines_r cs ->
  group (GBlk bf bt lsfx coms_r lines_r acc) (map brow cs ++ rest) =
  group (GBlk bf bt lsfx (rev (tcoms cs) ++ coms_r) lines_r acc) rest.
Proof.
  induction cs as [|c cs IH]; intros coms_r lines_r rest Hok Hn Hb; [reflexivity|].
  inversion Hok as [|? ? Hc Hok']; subst. cbn [no_adj_blank] in Hn. destruct Hn as (Hadj & Hn).
  cbn [map app tcoms rev]. rewrite <- app_assoc. cbn [app].
  destruct Hc as [->|Hc].
  - (* a blank line *)
    cbn [brow snil group]. rewrite (Hb eq_refl). change (trim_space []) with (@nil Z).
    apply IH; auto. destruct cs as [|c' cs']; [exact I|]. cbn [blank_next]. intros E. exfalso. apply (Hadj eq_refl). exact E.
  - pose proof (comment_text_nonnil _ Hc) as Hne. unfold brow. destruct c as [|b0 c0]; [congruence|]. cbn [snil group].
    apply IH; auto. destruct cs as [|c' cs']; [exact I|]. cbn [blank_next]. intros _.
    destruct (trim_space_comment _ Hc) as (A & _). pose proof (comment_text_nonnil _ A) as Hy.
    set (y := trim_space (b0 :: c0)) in *. unfold blank_cond. cbn [is_nil negb andb orb].
    destruct y; [congruence|reflexivity].
Qed.

Lemma bcoms_blank_next first cs lines_r : bcoms_ok first cs -> (first = false -> lines_r <> []) ->
  blank_next [] lines_r cs.
Proof.
  intros (_ & _ & Hf) Hl. destruct cs as [|c cs]; [exact I|]. cbn. intros ->. unfold blank_cond. cbn [is_nil andb orb].
  destruct first; [specialize (Hf eq_refl); cbn in Hf; congruence|].
  specialize (Hl eq_refl). destruct lines_r; [congruence|reflexivity].
Qed.

Lemma regroup_lines : forall ls lines_r rest,
  alines_ok (is_nil lines_r) ls ->
  group (GBlk bf bt lsfx [] lines_r acc) (map pl_row (flat_map line_pls ls) ++ rest) =
  group (GBlk bf bt lsfx [] (rev (map norm_line ls) ++ lines_r) acc) rest.
Proof.
  induction ls as [|l ls IH]; intros lines_r rest Hl; [reflexivity|].
  cbn [alines_ok] in Hl. destruct Hl as ((Hb & (t0 & more & Et & Hrp) & Hlt & Hs) & Hl).
  cbn [flat_map]. unfold line_pls at 1. rewrite !map_app, <- !app_assoc. rewrite map_map. cbn [pl_row].
  rewrite (regroup_bcoms (al_before l) [] lines_r); [|apply Hb|apply Hb|].
  2:{ eapply bcoms_blank_next; [exact Hb|]. destruct lines_r; [discriminate|discriminate]. }
  rewrite app_nil_r. cbn [map app pl_row]. rewrite Et. cbn [group]. rewrite Hrp. rewrite rev_involutive.
  rewrite (IH (_ :: lines_r)); [|exact Hl]. cbn [map rev]. rewrite <- app_assoc. cbn [app].
  unfold norm_line. rewrite Et. reflexivity.
Qed.
End InBlock.

(* ---------------------------------------------------------------- statements *)

Lemma map_com_pl cs : map pl_row (map (com_pl 0) cs) = map RCom (tcoms cs).
Proof. unfold tcoms. rewrite !map_map. reflexivity. Qed.

Lemma regroup_stmt x acc rest : astmt_ok x -> (forall cs, x <> ACB cs) ->
  group (GTop None acc) (map pl_row (stmt_pls x) ++ rest) = group (GTop None (norm x :: acc)) rest.
Proof.
  intros Hx Hn. destruct x as [l|b|cs]; [| |exfalso; eapply Hn; reflexivity].
  - destruct Hx as (Hb & (t0 & more & Et & Hsc) & Hlt & Hs).
    cbn [stmt_pls]. rewrite map_app, map_com_pl, <- app_assoc, group_coms_top.
    cbn [map app pl_row group]. rewrite Et, Hsc. rewrite cb_list_addall. cbn [norm]. unfold norm_line. rewrite Et. reflexivity.
  - destruct Hx as (Hb & Hlt & (t0 & more & Et & Hsc) & Hls & Hl & Hrb & Hs).
    cbn [stmt_pls]. rewrite !map_app, map_com_pl, <- !app_assoc, group_coms_top.
    cbn [map app pl_row group]. rewrite Et, Hsc. rewrite cb_list_addall.
    rewrite (regroup_lines _ _ _ _ (ab_lines b) []); [|exact Hl]. rewrite app_nil_r.
    rewrite map_map. cbn [pl_row].
    rewrite (regroup_bcoms _ _ _ _ (ab_rbefore b) []); [|apply Hrb|apply Hrb|].
    2:{ eapply bcoms_blank_next; [exact Hrb|]. intros E. destruct (ab_lines b); [discriminate|]. cbn [map rev].
        destruct (rev (map norm_line l)); discriminate. }
    rewrite app_nil_r. cbn [app group]. change (is_rp [41]) with true. cbn iota.
    rewrite !rev_involutive. cbn [norm]. unfold norm_block. reflexivity.
Qed.

Theorem regroup : forall a acc, Forall astmt_ok a ->
  group (GTop None acc) (map pl_row (file_pls a)) = Some (rev acc ++ map norm a).
Proof.
  induction a as [|x r IH]; intros acc Ha; [cbn; rewrite app_nil_r; reflexivity|].
  inversion Ha as [|? ? Hx Hr]; subst. cbn [file_pls].
  assert (Hcb : forall cs rest, x = ACB cs -> astmt_ok x ->
            group (GTop None acc) (map pl_row (stmt_pls x) ++ rest) = group (GTop (addall (tcoms cs) None) acc) rest).
  { intros cs rest -> _. cbn [stmt_pls]. rewrite map_com_pl. apply group_coms_top. }
  assert (Hne : forall cs, x = ACB cs -> astmt_ok x -> tcoms cs <> []).
  { intros cs -> (Hc & _). destruct cs; [congruence|discriminate]. }
  destruct r as [|y r'].
  - rewrite <- (app_nil_r (map pl_row (stmt_pls x))).
    destruct x as [l|b|cs].
    + rewrite regroup_stmt; [|exact Hx|discriminate]. cbn [group push_acb rev map]. rewrite <- ?app_assoc. reflexivity.
    + rewrite regroup_stmt; [|exact Hx|discriminate]. cbn [group push_acb rev map]. rewrite <- ?app_assoc. reflexivity.
    + rewrite (Hcb cs [] eq_refl Hx). cbn [group]. rewrite (push_addall _ _ (Hne cs eq_refl Hx)).
      cbn [rev map norm]. rewrite <- ?app_assoc. reflexivity.
  - rewrite map_app. cbn [map pl_row].
    destruct x as [l|b|cs].
    + rewrite regroup_stmt; [|exact Hx|discriminate]. cbn [group push_acb]. rewrite (IH _ Hr). cbn [rev map]. rewrite <- ?app_assoc. reflexivity.
    + rewrite regroup_stmt; [|exact Hx|discriminate]. cbn [group push_acb]. rewrite (IH _ Hr). cbn [rev map]. rewrite <- ?app_assoc. reflexivity.
    + rewrite (Hcb cs _ eq_refl Hx). cbn [group]. rewrite (push_addall _ _ (Hne cs eq_refl Hx)).
      rewrite (IH _ Hr). cbn [rev map norm]. rewrite <- ?app_assoc. reflexivity.
Qed.

(* ---------------------------------------------------------------- the printed lines of the normal form *)

Lemma brow_trim c : bcom_ok c -> brow (trim_space c) = brow c.
Proof. intros H. unfold brow. destruct (trim_bcom c H) as (_ & B & C). rewrite B, C. reflexivity. Qed.

Lemma map_brow_trim m cs : Forall bcom_ok cs ->
  map (fun c => PLRow m (brow c)) (tcoms cs) = map (fun c => PLRow m (brow c)) cs.
Proof. induction 1 as [|c cs Hc Hcs IH]; [reflexivity|]. cbn [tcoms map]. rewrite (brow_trim c Hc). f_equal. exact IH. Qed.

Lemma map_com_pl_trim m cs : Forall bcom_ok cs -> map (com_pl m) (tcoms cs) = map (com_pl m) cs.
Proof.
  induction 1 as [|c cs Hc Hcs IH]; [reflexivity|]. cbn [tcoms map]. unfold com_pl at 1 3.
  destruct (trim_bcom c Hc) as (_ & B & _). rewrite B. f_equal. exact IH.
Qed.

Lemma Forall_comment_bcom cs : Forall comment_text cs -> Forall bcom_ok cs.
Proof. apply Forall_impl. intros c. apply comment_bcom. Qed.

Lemma sfx_bcom s : sfx_ok s -> Forall bcom_ok s.
Proof. intros (H & _). apply Forall_comment_bcom. exact H. Qed.

Lemma line_pls_norm first l : aline_ok first l -> line_pls (norm_line l) = line_pls l.
Proof.
  intros ((Hb & _) & _ & _ & Hs). unfold line_pls, norm_line. cbn [al_before al_toks al_suffix].
  change (map trim_space (al_before l)) with (tcoms (al_before l)). rewrite (map_brow_trim 1 _ Hb).
  change (map trim_space (al_suffix l)) with (tcoms (al_suffix l)). rewrite (tcoms_idem _ (sfx_bcom _ Hs)). reflexivity.
Qed.

Lemma lines_pls_norm : forall ls first, alines_ok first ls -> flat_map line_pls (map norm_line ls) = flat_map line_pls ls.
Proof.
  induction ls as [|l ls IH]; intros first H; [reflexivity|]. destruct H as (Hl & Hls).
  cbn [map flat_map]. rewrite (line_pls_norm _ _ Hl), (IH _ Hls). reflexivity.
Qed.

Lemma stmt_pls_norm x : astmt_ok x -> stmt_pls (norm x) = stmt_pls x.
Proof.
  destruct x as [l|b|cs]; cbn [astmt_ok norm stmt_pls].
  - intros (Hb & _ & _ & Hs). unfold norm_line. cbn [al_before al_toks al_suffix].
    change (map trim_space (al_before l)) with (tcoms (al_before l)). rewrite (map_com_pl_trim 0 _ (Forall_comment_bcom _ Hb)).
    change (map trim_space (al_suffix l)) with (tcoms (al_suffix l)). rewrite (tcoms_idem _ (sfx_bcom _ Hs)). reflexivity.
  - intros (Hb & _ & _ & Hls & Hl & (Hrb & _) & Hs). unfold norm_block.
    cbn [ab_before ab_toks ab_lsfx ab_lines ab_rbefore ab_rsfx ab_sfx].
    change (map trim_space (ab_before b)) with (tcoms (ab_before b)). rewrite (map_com_pl_trim 0 _ (Forall_comment_bcom _ Hb)).
    change (map trim_space (ab_lsfx b)) with (tcoms (ab_lsfx b)). rewrite (tcoms_idem _ (sfx_bcom _ Hls)).
    rewrite (lines_pls_norm _ _ Hl).
    change (map trim_space (ab_rbefore b)) with (tcoms (ab_rbefore b)). rewrite (map_brow_trim 0 _ Hrb).
    rewrite app_nil_r. change (map trim_space (ab_rsfx b ++ ab_sfx b)) with (tcoms (ab_rsfx b ++ ab_sfx b)).
    rewrite (tcoms_idem _ (sfx_bcom _ Hs)). reflexivity.
  - intros (_ & Hc). change (map trim_space cs) with (tcoms cs). apply map_com_pl_trim. apply Forall_comment_bcom. exact Hc.
Qed.

Theorem file_pls_norm a : Forall astmt_ok a -> file_pls (map norm a) = file_pls a.
Proof.
  induction 1 as [|x r Hx Hr IH]; [reflexivity|]. cbn [map file_pls]. rewrite (stmt_pls_norm x Hx).
  destruct r as [|y r']; [reflexivity|]. cbn [map] in *. rewrite IH. reflexivity.
Qed.
