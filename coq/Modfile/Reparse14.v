(* Reparse, part 14: concrete states.  The hypotheses of typed_equals_reparse are satisfiable,
   and the clause about the comment-derived texts is false without [TextOk]: the two
   witnesses of finding K6 (notes/replays/K6.json), evaluated in the model. *)
From Coq Require Import Permutation.
From Verif.Base Require Import Bytes.
From Verif.Modfile Require Import Syntax Lex Parse Print Directives Reparse5 Reparse7 Reparse9 Reparse12 Reparse13
  EditModel EditOps EditSpec EditProofs2Check.

(* module example.com/m
   // c2
   retract (
   	v1.0.0 // c3
   	v1.2.3 // c4
   )                          as the strict parser delivers it *)
Definition k6a_file : file :=
  mkEFile (mkSyn [mkHL no_coms [B "module"; B "example.com/m"] false;
                  mkHL (mkComs [] [B "// c3"] []) [B "v1.0.0"] true;
                  mkHL (mkComs [] [B "// c4"] []) [B "v1.2.3"] true] 1 no_coms
                 [SLine 0%nat; SBlock (mkHB 0 (mkComs [B "// c2"] [] []) no_coms [B "retract"] [1%nat; 2%nat] no_coms)])
          (Some (mkModule (B "example.com/m") [] [] (Some 0%nat))) None None [] [] [] []
          [mkRetract (B "v1.0.0") (B "v1.0.0") (B "c3") (Some 1%nat); mkRetract (B "v1.2.3") (B "v1.2.3") (B "c4") (Some 2%nat)]
          [] [].

Definition k6a_ops : list op := [AddRetract (B "v1.9.0") (B "v1.9.0") []; Cleanup].

Definition k6a_final : file :=
  match run_ops k6a_ops k6a_file with RunOk _ f => f | RunPanic _ => k6a_file end.

(* non-vacuity of typed_equals_reparse: the starting state and the state after the two operations
   satisfy every hypothesis *)
Lemma k6a_hyps :
  Coherent k6a_file /\ Printable known_mod_block (fsyn k6a_file) /\ tis_ok (typed_items k6a_file) /\
  Coherent k6a_final /\ Printable known_mod_block (fsyn k6a_final) /\ tis_ok (typed_items k6a_final).
Proof.
  split; [apply coherentb_sound; vm_compute; reflexivity|]. split; [apply printableb_ok; vm_compute; reflexivity|].
  split; [apply tis_okb_ok; vm_compute; reflexivity|].
  split; [apply coherentb_sound; vm_compute; reflexivity|]. split; [apply printableb_ok; vm_compute; reflexivity|].
  apply tis_okb_ok; vm_compute; reflexivity.
Qed.

Lemma k6a_start_text : TextOk k6a_file.
Proof.
  intros x it Hx Hit. vm_compute in Hx.
  destruct Hx as [<-|[<-|[<-|[]]]]; vm_compute in Hit;
    destruct Hit as [E|[E|[E|[]]]]; try discriminate; injection E as <-; vm_compute; reflexivity.
Qed.

(* K6 (a): AddRetract with an empty rationale into a retract block that has leading comments: the
   typed Rationale is "", the strict re-parse of the formatted file reads the block comment *)
Theorem typed_equals_reparse_rationale_refuted :
  exists errs, run_ops k6a_ops k6a_file = RunOk errs k6a_final /\
  k_retract (abs k6a_final) =
    [(B "v1.0.0", B "v1.0.0", B "c3"); (B "v1.2.3", B "v1.2.3", B "c4"); (B "v1.9.0", B "v1.9.0", [])] /\
  exists parsed, parse_to_file true None (format (to_syntax [] (fsyn k6a_final))) = DOk parsed /\
    map (fun r => (rt_low r, rt_high r, rt_rationale r)) (fd_retract parsed) =
    [(B "v1.0.0", B "v1.0.0", B "c3"); (B "v1.2.3", B "v1.2.3", B "c4"); (B "v1.9.0", B "v1.9.0", B "c2")].
Proof.
  eexists. split; [vm_compute; reflexivity|]. split; [vm_compute; reflexivity|].
  eexists. split; [vm_compute; reflexivity|]. vm_compute. reflexivity.
Qed.

(* module example.com/m
   // c5
   retract (
   	// c6
   	[v1.0.0, v1.2.3] // c7
   ) *)
Definition k6b_file : file :=
  mkEFile (mkSyn [mkHL no_coms [B "module"; B "example.com/m"] false;
                  mkHL (mkComs [B "// c6"] [B "// c7"] []) [B "["; B "v1.0.0"; B ","; B "v1.2.3"; B "]"] true] 1 no_coms
                 [SLine 0%nat; SBlock (mkHB 0 (mkComs [B "// c5"] [] []) no_coms [B "retract"] [1%nat] no_coms)])
          (Some (mkModule (B "example.com/m") [] [] (Some 0%nat))) None None [] [] [] []
          [mkRetract (B "v1.0.0") (B "v1.2.3") (B "c6" ++ [10] ++ B "c7") (Some 1%nat)]
          [] [].

(* K6 (b): Cleanup collapses the one-line block and merges the block comments into the line *)
Theorem typed_equals_reparse_rationale_refuted_collapse :
  coherentb k6b_file = true /\ printableb known_mod_block (fsyn k6b_file) = true /\ tis_okb (typed_items k6b_file) = true /\
  coherentb (cleanup k6b_file) = true /\ printableb known_mod_block (fsyn (cleanup k6b_file)) = true /\
  k_retract (abs (cleanup k6b_file)) = [(B "v1.0.0", B "v1.2.3", B "c6" ++ [10] ++ B "c7")] /\
  exists parsed, parse_to_file true None (format (to_syntax [] (fsyn (cleanup k6b_file)))) = DOk parsed /\
    map (fun r => (rt_low r, rt_high r, rt_rationale r)) (fd_retract parsed) =
    [(B "v1.0.0", B "v1.2.3", B "c5" ++ [10] ++ B "c6" ++ [10] ++ B "c7")].
Proof.
  repeat split; try (vm_compute; reflexivity). eexists. split; vm_compute; reflexivity.
Qed.
