(* Round trip, part 12k: fixRetract as a function of the rebuilt statements.  When the
   Syntax pointers of f.Retract are the retract lines of the tree in order, the loop of
   fixRetract rewrites exactly those lines, one after the other ([frl_fun]). *)
From Verif.Base Require Import Bytes Utf8 Strconv QuoteProofs.
From Verif.Semver Require Import Spec Model.
From Verif.Module Require Import Path.
From Verif.Modfile Require Import Syntax Lex Parse Print Directives ProofsLex ProofsDirectives LaxRetract RoundRows
  RoundTree RoundDir1 RoundDir2 RoundDir3 RoundDir4 RoundDir5 RoundDir8.

Lemma update_nth_app_r {A} (h : A -> A) : forall a x b, update_nth (length a) h (a ++ x :: b) = a ++ h x :: b.
Proof. induction a as [|y a IH]; intros x b; cbn; [reflexivity|]. rewrite IH. reflexivity. Qed.

Definition reblock (b : line_block) (ls : list line) : line_block :=
  mkBlock (b_comments b) (b_start b) (b_lparen b) (b_token b) ls (b_rparen b).

Section Fun.
Variable g : str -> str -> option str.
Variable p : str.

Definition is_rline (l : line) : bool :=
  match l_token l with t0 :: _ => str_eqb t0 retract_s | [] => false end.

Definition is_rblock (b : line_block) : bool :=
  match b_token b with [verb] => is_verb verb "retract" | _ => false end.

(* the retract lines of a statement, and their Syntax pointers *)
Definition rlines_stmt (y : expr) : list line :=
  match y with
  | ELine l => if is_rline l then [l] else []
  | EBlock b => if is_rblock b then b_line b else []
  | ECommentBlock _ => []
  end.

Definition refs_stmt (i : nat) (y : expr) : list line_ref :=
  match y with
  | ELine l => if is_rline l then [(i, None)] else []
  | EBlock b => if is_rblock b then map (fun j => (i, Some j)) (seq 0 (length (b_line b))) else []
  | ECommentBlock _ => []
  end.

Fixpoint refs_from (i : nat) (ys : list expr) : list line_ref :=
  match ys with
  | [] => []
  | y :: r => refs_stmt i y ++ refs_from (S i) r
  end.

Definition fix_line (l : line) : line := line_set_token l (fst (fix_toks g p (l_token l))).

Definition fix_stmt (y : expr) : expr :=
  match y with
  | ELine l => if is_rline l then ELine (fix_line l) else y
  | EBlock b => if is_rblock b then EBlock (reblock b (map fix_line (b_line b))) else y
  | ECommentBlock _ => y
  end.

Definition fix_ent (r : retract_d) (l : line) : retract_d :=
  match snd (fix_toks g p (l_token l)) with
  | Some (lo, hi, _) => mkRetractD lo hi (rt_rationale r) (rt_syntax r)
  | None => mkRetractD [] [] (rt_rationale r) (rt_syntax r)
  end.

Definition fix_err (l : line) : list position :=
  match snd (fix_toks g p (l_token l)) with Some _ => [] | None => [l_start l] end.

Fixpoint fix_ents (rs : list retract_d) (ls : list line) : list retract_d :=
  match rs, ls with
  | r :: rs', l :: ls' => fix_ent r l :: fix_ents rs' ls'
  | _, _ => []
  end.

Lemma rev_fix_err l : rev (fix_err l) = fix_err l.
Proof. unfold fix_err. destruct (snd _); reflexivity. Qed.

(* one round of the loop *)
Lemma frl_step r rest syn acc errs panic l : get_line syn (rt_syntax r) = Some l -> l_token l <> [] ->
  fix_retract_loop (Some g) p (r :: rest) syn acc errs panic =
  fix_retract_loop (Some g) p rest (set_line syn (rt_syntax r) (fix_line l)) (fix_ent r l :: acc) (fix_err l ++ errs) panic.
Proof.
  intros Hl Ht. cbn [fix_retract_loop]. rewrite Hl. unfold fix_line, fix_ent, fix_err, fix_toks.
  destruct (l_token l) as [|t0 targs]; [congruence|]. fold retract_s.
  destruct (parse_version_interval (Some g) p (if str_eqb t0 retract_s then targs else t0 :: targs)) as [args' res].
  cbn [fst snd]. destruct res as [[[lo hi] r2]|]; reflexivity.
Qed.

(* the lines of a retract block *)
Lemma frl_block n c a b ys : forall todo done ents rest acc errs panic,
  map rt_syntax ents = map (fun j => (length a, Some j)) (seq (length done) (length todo)) ->
  Forall (fun l => l_token l <> []) todo ->
  fix_retract_loop (Some g) p (ents ++ rest) (mkFile n c (a ++ EBlock (reblock b (done ++ todo)) :: ys)) acc errs panic =
  fix_retract_loop (Some g) p rest (mkFile n c (a ++ EBlock (reblock b (done ++ map fix_line todo)) :: ys))
    (rev (fix_ents ents todo) ++ acc) (rev (flat_map fix_err todo) ++ errs) panic.
Proof.
  induction todo as [|l todo IH]; intros done ents rest acc errs panic Hr Ht.
  - destruct ents; [|discriminate]. reflexivity.
  - destruct ents as [|r ents]; [discriminate|]. cbn [length seq map] in Hr. injection Hr as Hr1 Hr.
    inversion Ht as [|? ? Hl Ht']; subst. cbn [app].
    rewrite (frl_step r (ents ++ rest) _ acc errs panic l).
    2:{ rewrite Hr1. unfold get_line. cbn [fst snd f_stmt]. rewrite nth_expr_app_r. cbn [reblock b_line]. apply nth_line_app_r. }
    2:{ exact Hl. }
    assert (Es : set_line (mkFile n c (a ++ EBlock (reblock b (done ++ l :: todo)) :: ys)) (rt_syntax r) (fix_line l) =
                 mkFile n c (a ++ EBlock (reblock b ((done ++ [fix_line l]) ++ todo)) :: ys)).
    { rewrite Hr1. unfold set_line. cbn [fst snd f_stmt f_name f_comments]. rewrite update_nth_app_r.
      cbn [reblock b_comments b_start b_lparen b_token b_line b_rparen]. rewrite update_nth_app_r.
      rewrite <- app_assoc. reflexivity. }
    rewrite Es. rewrite (IH (done ++ [fix_line l]) ents rest).
    2:{ rewrite Hr. rewrite app_length. cbn [length]. rewrite Nat.add_1_r. reflexivity. }
    2:{ exact Ht'. }
    cbn [map fix_ents flat_map rev]. rewrite <- !app_assoc. cbn [app].
    rewrite rev_app_distr, rev_fix_err, <- app_assoc. reflexivity.
Qed.

Theorem frl_fun n c : forall ys a ents acc errs panic,
  map rt_syntax ents = refs_from (length a) ys ->
  Forall (fun l => l_token l <> []) (flat_map rlines_stmt ys) ->
  fix_retract_loop (Some g) p ents (mkFile n c (a ++ ys)) acc errs panic =
  (frev acc ++ fix_ents ents (flat_map rlines_stmt ys), mkFile n c (a ++ map fix_stmt ys),
   rev (flat_map fix_err (flat_map rlines_stmt ys)) ++ errs, panic).
Proof.
  induction ys as [|y ys IH]; intros a ents acc errs panic Hr Ht.
  - destruct ents; [|discriminate]. cbn. rewrite ?app_nil_r. reflexivity.
  - cbn [refs_from flat_map map] in *.
    assert (Hnext : forall y', length (a ++ [y']) = S (length a)) by (intros; rewrite app_length; cbn; lia).
    destruct y as [l|b|cb]; cbn [refs_stmt rlines_stmt fix_stmt] in *.
    + destruct (is_rline l) eqn:El.
      * destruct ents as [|r ents]; [discriminate|]. cbn [app map] in Hr. injection Hr as Hr1 Hr.
        cbn [app] in Ht. inversion Ht as [|? ? Hl Ht']; subst.
        rewrite (frl_step r ents _ acc errs panic l).
        2:{ rewrite Hr1. unfold get_line. cbn [fst snd f_stmt]. rewrite nth_expr_app_r. reflexivity. }
        2:{ exact Hl. }
        assert (Es : set_line (mkFile n c (a ++ ELine l :: ys)) (rt_syntax r) (fix_line l) =
                     mkFile n c ((a ++ [ELine (fix_line l)]) ++ ys)).
        { rewrite Hr1. unfold set_line. cbn [fst snd f_stmt f_name f_comments]. rewrite update_nth_app_r, <- app_assoc. reflexivity. }
        rewrite Es, (IH (a ++ [ELine (fix_line l)]) ents); [|rewrite Hnext; exact Hr|exact Ht'].
        rewrite <- app_assoc. cbn [app fix_ents flat_map]. rewrite !frev_rev. cbn [rev].
        rewrite rev_app_distr, rev_fix_err, <- !app_assoc. reflexivity.
      * change (a ++ ELine l :: ys) with (a ++ [ELine l] ++ ys). rewrite app_assoc.
        rewrite (IH (a ++ [ELine l]) ents); [|rewrite Hnext; exact Hr|exact Ht].
        rewrite <- app_assoc. reflexivity.
    + destruct (is_rblock b) eqn:Eb.
      * set (k := length (b_line b)) in *.
        assert (Hsplit : exists eb er, ents = eb ++ er /\
                   map rt_syntax eb = map (fun j => (length a, Some j)) (seq 0 k) /\
                   map rt_syntax er = refs_from (S (length a)) ys).
        { exists (firstn k ents), (skipn k ents). split; [symmetry; apply firstn_skipn|].
          assert (Hlen : length (map (fun j : nat => (length a, Some j)) (seq 0 k)) = k) by (rewrite map_length, seq_length; reflexivity).
          split.
          - rewrite <- firstn_map, Hr. rewrite <- Hlen at 1. rewrite firstn_app, Nat.sub_diag, firstn_all. cbn [firstn]. apply app_nil_r.
          - rewrite <- skipn_map, Hr. rewrite <- Hlen at 1. rewrite skipn_app, Nat.sub_diag, skipn_all. reflexivity. }
        destruct Hsplit as (eb & er & -> & Hb & Her).
        apply Forall_app in Ht as (Htb & Ht').
        assert (Eblk : EBlock b = EBlock (reblock b ([] ++ b_line b))) by (destruct b; reflexivity).
        rewrite Eblk.
        rewrite (frl_block n c a b ys (b_line b) [] eb er acc errs panic Hb Htb).
        change (a ++ EBlock (reblock b ([] ++ map fix_line (b_line b))) :: ys)
          with (a ++ [EBlock (reblock b (map fix_line (b_line b)))] ++ ys).
        rewrite app_assoc.
        rewrite (IH (a ++ [EBlock (reblock b (map fix_line (b_line b)))]) er); [|rewrite Hnext; exact Her|exact Ht'].
        rewrite <- app_assoc. cbn [app].
        assert (Hfe : forall todo ents1 ents2, length ents1 = length todo ->
                   fix_ents (ents1 ++ ents2) (todo ++ flat_map rlines_stmt ys) =
                   fix_ents ents1 todo ++ fix_ents ents2 (flat_map rlines_stmt ys)).
        { induction todo as [|l todo IHt]; intros [|r1 e1] e2 Hl; cbn in Hl; try lia; [reflexivity|].
          cbn [app fix_ents]. rewrite IHt by lia. reflexivity. }
        rewrite Hfe.
        2:{ apply (f_equal (@length line_ref)) in Hb. rewrite !map_length, seq_length in Hb. exact Hb. }
        rewrite !frev_rev, rev_app_distr, rev_involutive, flat_map_app, rev_app_distr, <- !app_assoc. reflexivity.
      * change (a ++ EBlock b :: ys) with (a ++ [EBlock b] ++ ys). rewrite app_assoc.
        rewrite (IH (a ++ [EBlock b]) ents); [|rewrite Hnext; exact Hr|exact Ht].
        rewrite <- app_assoc. reflexivity.
    + change (a ++ ECommentBlock cb :: ys) with (a ++ [ECommentBlock cb] ++ ys). rewrite app_assoc.
      rewrite (IH (a ++ [ECommentBlock cb]) ents); [|rewrite Hnext; exact Hr|exact Ht].
      rewrite <- app_assoc. reflexivity.
Qed.
End Fun.
