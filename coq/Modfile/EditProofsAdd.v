(* C15: coherence is preserved by the operations that add a line. *)
From Coq Require Import Permutation.
From Verif.Base Require Import Bytes.
From Verif.Modfile Require Import EditModel EditOps EditSpec EditProofsTyped EditProofsHeap EditProofsCoherent EditProofsCleanup EditProofsAddLine.

Lemma coherent_add (f f' : file) A B es (e : ent) hint verb args :
  Coherent f ->
  entries f = A ++ es ++ B ->
  entries f' = A ++ (es ++ [e]) ++ B ->
  fsyn f' = fst (add_line (fsyn f) hint verb args) ->
  args <> [] ->
  ent_view e = [(heap_len (fsyn f), verb, norm_args verb args dead_line)] ->
  ent_ok e ->
  Coherent f'.
Proof.
  intros [Hs He Hp] E1 E2 Hsyn Ha Hv Hok.
  destruct (add_line_syntax (fsyn f) hint verb args Hs Ha) as [Hs' Hp'].
  split.
  - rewrite Hsyn. exact Hs'.
  - unfold EntriesOk in *. rewrite E1 in He. rewrite E2.
    apply Forall_app in He. destruct He as [HA He]. apply Forall_app in He. destruct He as [HM HB].
    repeat (apply Forall_app; split); try assumption. constructor; [exact Hok | constructor].
  - rewrite Hsyn. etransitivity; [exact Hp'|].
    unfold typed_view in *. rewrite E1 in Hp. rewrite E2. rewrite !flat_map_app in *. cbn [flat_map]. rewrite Hv, app_nil_r.
    etransitivity; [apply perm_skip; exact Hp|].
    rewrite <- !app_assoc. etransitivity; [apply Permutation_middle|]. apply Permutation_app_head.
    cbn [app]. apply Permutation_middle.
Qed.

Lemma nonempty_args1 (a : str) : [a] <> [].
Proof. discriminate. Qed.

(* AddExclude *)
Lemma add_exclude_coherent f (p v : str) f' :
  p <> [] -> Coherent f -> add_exclude f p v = ROk f' -> Coherent f'.
Proof.
  intros Hp Hc H. unfold add_exclude in H.
  destruct (check_canonical_version p v); cbn [negb] in H; [|discriminate].
  destruct (exclude_scan p v (f_exclude f) None) as [h|]; [|injection H as <-; exact Hc].
  destruct (add_line (fsyn f) (typed_hint h) v_exclude [auto_quote p; v]) as [s n] eqn:Ea.
  injection H as <-.
  pose proof (add_line_heap (fsyn f) (typed_hint h) v_exclude [auto_quote p; v]) as [Hn _]. rewrite Ea in Hn. cbn in Hn.
  eapply (coherent_add f _ _ _ (map ent_exclude (f_exclude f)) (ent_exclude (mkExclude p v (Some n)))
            (typed_hint h) v_exclude [auto_quote p; v] Hc (entries_exclude f)).
  - rewrite entries_exclude. cbn. rewrite map_app. reflexivity.
  - cbn [fsyn with_exclude with_syn]. rewrite Ea. reflexivity.
  - discriminate.
  - unfold ent_view; cbn. assert (nonempty p = true) as -> by (apply nonempty_true; exact Hp).
    rewrite Hn. reflexivity.
  - unfold ent_ok; cbn. assert (nonempty p = true) as -> by (apply nonempty_true; exact Hp). discriminate.
Qed.

(* AddNewUse *)
Lemma add_new_use_coherent f (p m : str) : p <> [] -> Coherent f -> Coherent (add_new_use f p m).
Proof.
  intros Hp Hc. unfold add_new_use.
  destruct (add_line (fsyn f) None v_use [auto_quote p]) as [s n] eqn:Ea.
  pose proof (add_line_heap (fsyn f) None v_use [auto_quote p]) as [Hn _]. rewrite Ea in Hn. cbn in Hn.
  eapply (coherent_add f _ _ _ (map ent_use (f_use f)) (ent_use (mkUse p m (Some n)))
            None v_use [auto_quote p] Hc (entries_use f)).
  - rewrite entries_use. cbn. rewrite map_app. reflexivity.
  - cbn [fsyn with_use with_syn]. rewrite Ea. reflexivity.
  - discriminate.
  - unfold ent_view; cbn. assert (nonempty p = true) as -> by (apply nonempty_true; exact Hp).
    rewrite Hn. reflexivity.
  - unfold ent_ok; cbn. assert (nonempty p = true) as -> by (apply nonempty_true; exact Hp). discriminate.
Qed.

(* ---------------------------------------------------------------- rewriting one line *)

(* a heap write that keeps tokens, position flag and the indirect marking is invisible *)
Lemma tree_view_sset_same s i l' :
  hl_tok l' = hl_tok (sget s i) -> hl_inb l' = hl_inb (sget s i) -> is_indirect l' = is_indirect (sget s i) ->
  SyntaxOk s -> SyntaxOk (sset s i l') /\ tree_view (sset s i l') = tree_view s.
Proof.
  intros Ht Hb Hi [H1 H2 H3].
  assert (Hl : forall j, hl_tok (sget (sset s i l') j) = hl_tok (sget s j)).
  { intros j. unfold sget, sset; cbn. apply hget_hset_proj. exact Ht. }
  assert (Hb' : forall j, hl_inb (sget (sset s i l') j) = hl_inb (sget s j)).
  { intros j. unfold sget, sset; cbn. apply hget_hset_proj. exact Hb. }
  assert (Hi' : forall j, is_indirect (sget (sset s i l') j) = is_indirect (sget s j)).
  { intros j. unfold sget, sset; cbn. apply hget_hset_proj. exact Hi. }
  split.
  - split; [exact H1 | | exact H3].
    change (tree_lines (sset s i l')) with (tree_lines s).
    eapply Forall_impl; [|exact H2]. intros x [A [B C]]. split; [|split].
    + change (length (heap (sset s i l'))) with (heap_len (sset s i l')). rewrite sset_len. exact A.
    + rewrite Hb'. exact B.
    + rewrite Hl. exact C.
  - unfold tree_view. change (tree_lines (sset s i l')) with (tree_lines s).
    apply flat_map_ext. intros x. unfold line_view. rewrite Hl.
    destruct (hl_tok (sget s (fst x))) as [|t ts]; [reflexivity|].
    unfold norm_args. rewrite Hi'. reflexivity.
Qed.

(* AddRetract *)
Lemma add_retract_coherent f (lo hi rat : str) f' :
  Coherent f -> add_retract f lo hi rat = ROk f' -> Coherent f'.
Proof.
  intros Hc H. unfold add_retract in H.
  destruct (check_canonical_version _ hi) eqn:Ehi; cbn [negb] in H; [|discriminate].
  destruct (check_canonical_version _ lo) eqn:Elo; cbn [negb] in H; [|discriminate].
  set (args := if str_eqb lo hi then [auto_quote lo] else [B "["; auto_quote lo; B ","; auto_quote hi; B "]"]) in *.
  destruct (add_line (fsyn f) None v_retract args) as [s n] eqn:Ea.
  pose proof (add_line_heap (fsyn f) None v_retract args) as [Hn [Hlen [_ [inb Hnew]]]]. rewrite Ea in Hn, Hlen, Hnew. cbn [fst snd] in *.
  assert (Hargs : args <> []) by (unfold args; destruct (str_eqb lo hi); discriminate).
  assert (Hlive : (nonempty lo || nonempty hi)%bool = true).
  { unfold check_canonical_version in Ehi. destruct hi; [discriminate|]. cbn. apply Bool.orb_true_r. }
  assert (Hnorm : norm_args v_retract args dead_line = [auto_quote lo; auto_quote hi]).
  { unfold args. destruct (str_eqb lo hi) eqn:E; [apply str_eqb_eq in E; subst; reflexivity|].
    unfold norm_args. cbn. reflexivity. }
  (* the state before the rationale comments are attached *)
  set (f1 := with_retract (with_syn f s) (f_retract f ++ [mkRetract lo hi rat (Some n)])).
  assert (Hc1 : Coherent f1).
  { eapply (coherent_add f f1 _ _ (map ent_retract (f_retract f)) (ent_retract (mkRetract lo hi rat (Some n)))
              None v_retract args Hc (entries_retract f)).
    - unfold f1. rewrite entries_retract. cbn. rewrite map_app. reflexivity.
    - unfold f1. cbn [fsyn with_retract with_syn]. rewrite Ea. reflexivity.
    - exact Hargs.
    - unfold ent_view, ent_retract; cbn [en_syn en_live en_verb en_args rt_lo rt_hi rt_syn].
      rewrite Hlive, Hn, Hnorm. reflexivity.
    - unfold ent_ok, ent_retract; cbn [en_syn en_live rt_lo rt_hi rt_syn]. rewrite Hlive. discriminate. }
  destruct rat as [|c rat'].
  - injection H as <-. exact Hc1.
  - injection H as <-. destruct Hc1 as [Hs1 He1 Hp1].
    set (l := sget s n) in *.
    destruct (tree_view_sset_same s n (set_com l (set_before (hl_com l)
                (c_before (hl_com l) ++ map (fun t => B "// " ++ t) (split_lines (c :: rat'))))) eq_refl eq_refl eq_refl Hs1) as [Hs2 Hv2].
    split.
    + exact Hs2.
    + exact He1.
    + change (Permutation (tree_view (sset s n (set_com l (set_before (hl_com l)
                (c_before (hl_com l) ++ map (fun t => B "// " ++ t) (split_lines (c :: rat')))))))
              (typed_view f1)).
      rewrite Hv2. exact Hp1.
Qed.

(* ---------------------------------------------------------------- updateLine *)
Definition repl (i : lid) (v : str) (a : list str) (x : dview) : dview :=
  if Nat.eqb (vid x) i then (i, v, a) else x.

Lemma in_tree_lines_unique s i w w' :
  NoDup (map fst (tree_lines s)) -> In (i, w) (tree_lines s) -> In (i, w') (tree_lines s) -> w = w'.
Proof.
  generalize (tree_lines s) as l. induction l as [|[j u] r IH]; cbn; intros Hnd H1 H2; [destruct H1|].
  inversion Hnd as [|? ? Hni Hr]; subst.
  destruct H1 as [E1|H1], H2 as [E2|H2].
  - congruence.
  - injection E1 as -> ->. exfalso. apply Hni. apply in_map_iff. exists (i, w'). auto.
  - injection E2 as -> ->. exfalso. apply Hni. apply in_map_iff. exists (i, w). auto.
  - eauto.
Qed.

Lemma flat_map_map_in {A B C} (g : B -> C) (f : A -> list B) (f' : A -> list C) l :
  (forall x, In x l -> f' x = map g (f x)) -> flat_map f' l = map g (flat_map f l).
Proof.
  induction l as [|x r IH]; cbn; intros H; [reflexivity|].
  rewrite map_app, (H x) by (left; reflexivity). f_equal. apply IH. intros y Hy. apply H. right. exact Hy.
Qed.

Lemma tree_view_update_line s i w verb args :
  SyntaxOk s -> In (i, w) (tree_lines s) -> hl_tok (sget s i) <> [] -> args <> [] ->
  let v := match w with None => verb | Some bv => bv end in
  SyntaxOk (update_line s i verb args) /\
  tree_view (update_line s i verb args) = map (repl i v (norm_args v args (sget s i))) (tree_view s).
Proof.
  intros [H1 H2 H3] Hin Hlive Ha v.
  pose proof H2 as H2'. rewrite Forall_forall in H2'. destruct (H2' _ Hin) as [Hlen [Hinb Htok]]. cbn [fst snd] in *.
  set (l := sget s i) in *.
  assert (Hnew : sget (update_line s i verb args) i = set_tok l (if hl_inb l then args else verb :: args)).
  { unfold update_line. apply sget_sset_same. exact Hlen. }
  split.
  - split; [exact H1 | | exact H3].
    change (tree_lines (update_line s i verb args)) with (tree_lines s).
    apply Forall_forall. intros [j u] Hx. destruct (H2' _ Hx) as [A [Bq C]]. cbn [fst snd] in *.
    destruct (Nat.eq_dec j i) as [->|Hn].
    + assert (u = w) by (eapply in_tree_lines_unique; eauto). subst u.
      split; [|split]; cbn [fst snd].
      * change (length (heap (update_line s i verb args))) with (heap_len (update_line s i verb args)).
        rewrite update_line_len. exact A.
      * rewrite Hnew. cbn. exact Bq.
      * destruct w; [exact I|]. rewrite Hnew. fold l in Bq. rewrite Bq. cbn.
        destruct args; [congruence | cbn; lia].
    + split; [|split]; cbn [fst snd].
      * change (length (heap (update_line s i verb args))) with (heap_len (update_line s i verb args)).
        rewrite update_line_len. exact A.
      * rewrite update_line_other by congruence. exact Bq.
      * rewrite update_line_other by congruence. exact C.
  - unfold tree_view. change (tree_lines (update_line s i verb args)) with (tree_lines s).
    apply flat_map_map_in. intros [j u] Hx. destruct (Nat.eq_dec j i) as [->|Hn].
    + assert (u = w) by (eapply in_tree_lines_unique; eauto). subst u.
      unfold line_view; cbn [fst snd]. rewrite Hnew. fold l.
      destruct (hl_tok l) as [|t ts] eqn:Et; [congruence|]. cbn [set_tok hl_tok].
      fold l in Hinb. rewrite Hinb.
      destruct w as [bv|]; cbn [map]; unfold repl; cbn [vid fst]; rewrite Nat.eqb_refl.
      * destruct args as [|a ar]; [congruence|]. unfold v. reflexivity.
      * unfold v. reflexivity.
    + unfold line_view; cbn [fst snd]. rewrite update_line_other by congruence.
      destruct (hl_tok (sget s j)) as [|t ts]; [reflexivity|].
      destruct u; cbn [map]; unfold repl; cbn [vid fst]; (destruct (Nat.eqb_spec j i); [congruence | reflexivity]).
Qed.

Lemma in_tree_view_inv s i v a :
  In (i, v, a) (tree_view s) ->
  exists w, In (i, w) (tree_lines s) /\ hl_tok (sget s i) <> [] /\ match w with None => True | Some bv => bv = v end.
Proof.
  unfold tree_view. rewrite in_flat_map. intros [[j w] [Hin Hv]]. unfold line_view in Hv. cbn [fst snd] in Hv.
  destruct (hl_tok (sget s j)) as [|t ts] eqn:Et; [destruct Hv|].
  destruct w as [bv|]; destruct Hv as [Hv|[]]; injection Hv as -> -> _.
  - exists (Some v). rewrite Et. repeat split; [exact Hin | discriminate].
  - exists None. rewrite Et. repeat split; [exact Hin | discriminate].
Qed.

Lemma map_repl_other i v a l : (forall x, In x l -> vid x <> i) -> map (repl i v a) l = l.
Proof.
  intros H. induction l as [|x r IH]; cbn; [reflexivity|].
  unfold repl at 1. destruct (Nat.eqb_spec (vid x) i) as [E|E]; [exfalso; apply (H x); [left; reflexivity | exact E]|].
  f_equal. apply IH. intros y Hy. apply H. right. exact Hy.
Qed.

Lemma coherent_update (f f' : file) A B (e e' : ent) i verb args :
  Coherent f ->
  entries f = A ++ e :: B -> entries f' = A ++ e' :: B ->
  en_syn e = Some i -> en_live e = true -> en_verb e = verb ->
  en_syn e' = Some i -> en_live e' = true -> en_verb e' = verb ->
  fsyn f' = update_line (fsyn f) i verb args -> args <> [] ->
  en_args e' = norm_args verb args (sget (fsyn f) i) ->
  Coherent f'.
Proof.
  intros Hc E1 E2 Hs Hl Hv Hs' Hl' Hv' Hsyn Ha Hargs.
  pose proof (typed_ids_nodup f Hc) as Hnd. destruct Hc as [Hsy Hent Hperm].
  unfold typed_view in Hnd, Hperm. rewrite E1 in Hnd, Hperm. unfold EntriesOk in Hent. rewrite E1 in Hent.
  assert (Hview_e : ent_view e = [(i, verb, en_args e)]) by (unfold ent_view; rewrite Hs, Hl, Hv; reflexivity).
  assert (Hview_e' : ent_view e' = [(i, verb, en_args e')]) by (unfold ent_view; rewrite Hs', Hl', Hv'; reflexivity).
  assert (Hin : In (i, verb, en_args e) (tree_view (fsyn f))).
  { eapply Permutation_in; [symmetry; exact Hperm|]. rewrite flat_map_app. apply in_app_iff. right.
    cbn [flat_map]. rewrite Hview_e. left. reflexivity. }
  destruct (in_tree_view_inv _ _ _ _ Hin) as [w [Hw [Hlive Hwv]]].
  destruct (tree_view_update_line (fsyn f) i w verb args Hsy Hw Hlive Ha) as [Hsy' Htv].
  assert (Hvw : match w with None => verb | Some bv => bv end = verb) by (destruct w; [exact Hwv | reflexivity]).
  rewrite Hvw in Htv.
  rewrite flat_map_app in Hnd. cbn [flat_map] in Hnd. rewrite Hview_e in Hnd. unfold ids in Hnd. rewrite !map_app in Hnd. cbn [map vid fst] in Hnd.
  split.
  - rewrite Hsyn. exact Hsy'.
  - unfold EntriesOk. rewrite E2. apply Forall_app in Hent. destruct Hent as [HA HB]. inversion HB; subst.
    apply Forall_app. split; [exact HA|]. constructor; [|assumption]. unfold ent_ok. rewrite Hl', Hs'. discriminate.
  - rewrite Hsyn, Htv. unfold typed_view. rewrite E2.
    etransitivity; [apply Permutation_map; exact Hperm|].
    rewrite !flat_map_app, map_app. cbn [flat_map]. rewrite Hview_e, Hview_e', map_app. cbn [map app].
    unfold repl at 2. cbn [vid fst]. rewrite Nat.eqb_refl, <- Hargs.
    rewrite (map_repl_other i _ _ (flat_map ent_view A)), (map_repl_other i _ _ (flat_map ent_view B)); [reflexivity| |].
    + intros x Hx Heq. apply NoDup_remove_2 in Hnd. apply Hnd. apply in_app_iff. right.
      rewrite <- Heq. apply in_map. exact Hx.
    + intros x Hx Heq. apply NoDup_remove_2 in Hnd. apply Hnd. apply in_app_iff. left.
      rewrite <- Heq. apply in_map. exact Hx.
Qed.

(* ---------------------------------------------------------------- go / toolchain / module *)
Lemma add_go_stmt_coherent f (v : str) f' : Coherent f -> add_go_stmt f v = ROk f' -> Coherent f'.
Proof.
  intros Hc H. unfold add_go_stmt in H. destruct (go_version_ok v); cbn [negb] in H; [|discriminate].
  destruct (f_go f) as [g|] eqn:Hg.
  - destruct (go_syn g) as [i|] eqn:Hs; [|discriminate]. injection H as <-.
    eapply (coherent_update f _ _ _ (ent_go g) (ent_go (mkGo v (Some i))) i v_go [v] Hc).
    + rewrite entries_go, Hg. reflexivity.
    + rewrite entries_go. reflexivity.
    + exact Hs.
    + reflexivity.
    + reflexivity.
    + reflexivity.
    + reflexivity.
    + reflexivity.
    + reflexivity.
    + discriminate.
    + reflexivity.
  - destruct (add_line (fsyn f) (module_hint f) v_go [v]) as [s n] eqn:Ea. injection H as <-.
    pose proof (add_line_heap (fsyn f) (module_hint f) v_go [v]) as [Hn _]. rewrite Ea in Hn. cbn in Hn.
    eapply (coherent_add f _ _ _ [] (ent_go (mkGo v (Some n))) (module_hint f) v_go [v] Hc).
    + rewrite entries_go, Hg. reflexivity.
    + rewrite entries_go. reflexivity.
    + cbn [fsyn with_go with_syn]. rewrite Ea. reflexivity.
    + discriminate.
    + unfold ent_view; cbn. rewrite Hn. reflexivity.
    + unfold ent_ok; cbn. discriminate.
Qed.

Lemma add_toolchain_stmt_coherent f (v : str) f' : Coherent f -> add_toolchain_stmt f v = ROk f' -> Coherent f'.
Proof.
  intros Hc H. unfold add_toolchain_stmt in H. destruct (toolchain_ok v); cbn [negb] in H; [|discriminate].
  destruct (f_toolchain f) as [g|] eqn:Hg.
  - destruct (go_syn g) as [i|] eqn:Hs; [|discriminate]. injection H as <-.
    eapply (coherent_update f _ _ _ (ent_toolchain g) (ent_toolchain (mkGo v (Some i))) i v_toolchain [v] Hc).
    + rewrite entries_toolchain, Hg. reflexivity.
    + rewrite entries_toolchain. reflexivity.
    + exact Hs.
    + reflexivity.
    + reflexivity.
    + reflexivity.
    + reflexivity.
    + reflexivity.
    + reflexivity.
    + discriminate.
    + reflexivity.
  - match type of H with context [add_line ?a ?b ?c ?d] =>
      destruct (add_line a b c d) as [s n] eqn:Ea;
      pose proof (add_line_heap a b c d) as [Hn _]; rewrite Ea in Hn; cbn in Hn;
      injection H as <-;
      eapply (coherent_add f _ _ _ [] (ent_toolchain (mkGo v (Some n))) b v_toolchain [v] Hc)
    end.
    + rewrite entries_toolchain, Hg. reflexivity.
    + rewrite entries_toolchain. reflexivity.
    + cbn [fsyn with_toolchain with_syn]. rewrite Ea. reflexivity.
    + discriminate.
    + unfold ent_view; cbn. rewrite Hn. reflexivity.
    + unfold ent_ok; cbn. discriminate.
Qed.

Lemma entries_module f : entries f = [] ++ map ent_module (opt_list (f_module f))
                                     ++ (map ent_go (opt_list (f_go f)) ++ map ent_toolchain (opt_list (f_toolchain f))
                                         ++ map ent_godebug (f_godebug f) ++ post_godebug f).
Proof. split_entries. Qed.

Lemma add_module_stmt_coherent f (p : str) f' : Coherent f -> add_module_stmt f p = Some f' -> Coherent f'.
Proof.
  intros Hc H. unfold add_module_stmt in H.
  destruct (f_module f) as [m|] eqn:Hm.
  - destruct (mo_syn m) as [i|] eqn:Hs; [|discriminate]. injection H as <-.
    eapply (coherent_update f _ [] _ (ent_module m) (ent_module (mkModule p (mo_vers m) (mo_depr m) (Some i))) i v_module [auto_quote p] Hc).
    + rewrite entries_module, Hm. reflexivity.
    + rewrite entries_module. reflexivity.
    + exact Hs.
    + reflexivity.
    + reflexivity.
    + reflexivity.
    + reflexivity.
    + reflexivity.
    + reflexivity.
    + discriminate.
    + reflexivity.
  - destruct (add_line (fsyn f) None v_module [auto_quote p]) as [s n] eqn:Ea. injection H as <-.
    pose proof (add_line_heap (fsyn f) None v_module [auto_quote p]) as [Hn _]. rewrite Ea in Hn. cbn in Hn.
    eapply (coherent_add f _ [] _ [] (ent_module (mkModule p [] [] (Some n))) None v_module [auto_quote p] Hc).
    + rewrite entries_module, Hm. reflexivity.
    + rewrite entries_module. reflexivity.
    + cbn [fsyn with_module with_syn]. rewrite Ea. reflexivity.
    + discriminate.
    + unfold ent_view; cbn. rewrite Hn. reflexivity.
    + unfold ent_ok; cbn. discriminate.
Qed.
