(* Round trip, part 3b: positions along a row, and parseLineBlock in lockstep with [group]. *)
From Verif.Base Require Import Bytes.
From Verif.Modfile Require Import Syntax Lex Parse ProofsLex RoundRows RoundAssign RoundParse.

(* ---------------------------------------------------------------- ordered streams *)

Lemma ordered_tail t r : ordered (t :: r) -> ordered r.
Proof. cbn. intuition. Qed.

Lemma ordered_app_tail a r : ordered (a ++ r) -> ordered r.
Proof. induction a as [|t a IH]; [auto|]. cbn [app]. intros H. apply IH. eapply ordered_tail; eauto. Qed.

Lemma ordered_next t u r : ordered (t :: u :: r) ->
  bpos t <= bend t /\ bend t <= bpos u /\ lpos u = lnend t /\ lpos t <= lnend t.
Proof.
  cbn. intros (A & _ & C & _ & _ & _ & F & G & _). inversion F as [|? ? (F1 & F2) _]; subst. auto.
Qed.

Lemma ordered_strict t r : ordered (t :: r) -> is_eof (t_kind t) = false -> bpos t < bend t.
Proof. cbn. intuition. Qed.

Lemma ordered_in t r u : ordered (t :: r) -> In u r -> bend t <= bpos u /\ lnend t <= lpos u.
Proof. cbn. intros (_ & _ & _ & _ & _ & _ & F & _) Hin. rewrite Forall_forall in F. apply F. exact Hin. Qed.

Lemma ordered_nb_mono t r : ordered (t :: r) -> r <> [] -> bpos t <= nb r /\ bend t <= nb r /\ lpos t <= nl r /\ lnend t = nl r.
Proof.
  destruct r as [|u r]; [congruence|]. intros H _. destruct (ordered_next _ _ _ H) as (A & B & C & D).
  cbn [nb nl]. repeat split; lia.
Qed.

(* the tokens of a row lie on one line, between the start of the row and its end-of-line token *)
Definition in_row (L B : Z) (e : token) (t : token) : Prop :=
  lpos t = L /\ lnend t = L /\ B <= bpos t /\ bpos t < bend t /\ bend t <= bpos e.

Lemma ordered_row : forall lt e rest0, Forall ltokP lt -> ordered (lt ++ e :: rest0) ->
  Forall (in_row (nl (lt ++ [e])) (nb (lt ++ [e])) e) lt /\ lpos e = nl (lt ++ [e]) /\ nb (lt ++ [e]) <= bpos e /\
  ordered (e :: rest0).
Proof.
  induction lt as [|t lt IH]; intros e rest0 Hlt Ho.
  - cbn [app nl nb] in *. split; [constructor|]. split; [reflexivity|]. split; [lia|exact Ho].
  - inversion Hlt as [|? ? Ht Hlt']; subst. cbn [app] in Ho.
    destruct (IH e rest0 Hlt' (ordered_tail _ _ Ho)) as (A & B & C & D).
    assert (Hn : lt ++ e :: rest0 <> []) by (destruct lt; discriminate).
    destruct (ordered_nb_mono _ _ Ho Hn) as (N1 & N2 & N3 & N4).
    assert (Hl : lnend t = lpos t) by (cbn in Ho; apply Ho; exact Ht).
    assert (Hs : bpos t < bend t) by (apply (ordered_strict _ _ Ho); apply ltok_not_eof; exact Ht).
    assert (E1 : nl (lt ++ e :: rest0) = nl (lt ++ [e])) by (destruct lt; reflexivity).
    assert (E2 : nb (lt ++ e :: rest0) = nb (lt ++ [e])) by (destruct lt; reflexivity).
    cbn [app nl nb]. split; [|split; [|split; [|exact D]]].
    + constructor.
      * unfold in_row. split; [reflexivity|]. split; [exact Hl|]. split; [lia|]. split; [exact Hs|].
        apply (ordered_in _ _ e Ho). apply in_or_app. right. left. reflexivity.
      * eapply Forall_impl; [|exact A]. intros u (U1 & U2 & U3 & U4 & U5). unfold in_row.
        rewrite U1, U2. repeat split; try lia.
    + lia.
    + lia.
Qed.

Lemma after_facts e rest0 : ordered (e :: rest0) -> tail_ok e rest0 ->
  bpos e <= nb (after e rest0) /\ (is_eof (t_kind e) = false -> bend e <= nb (after e rest0)) /\
  lpos e <= nl (after e rest0) /\ ordered (after e rest0) /\ after e rest0 <> [] /\
  (length (after e rest0) <= length (e :: rest0))%nat.
Proof.
  unfold tail_ok, after. intros Ho Ht. destruct (is_eof (t_kind e)) eqn:E.
  - subst rest0. cbn [nb nl]. split; [lia|]. split; [discriminate|]. split; [lia|]. split; [exact Ho|]. split; [discriminate|cbn; lia].
  - destruct (ordered_nb_mono _ _ Ho Ht) as (N1 & N2 & N3 & N4).
    split; [exact N1|]. split; [intros _; exact N2|]. split; [exact N3|]. split; [eapply ordered_tail; eauto|].
    split; [exact Ht|cbn; lia].
Qed.

(* the line of the token after an end-of-line token that is not the last *)
Lemma after_line e rest0 : ordered (e :: rest0) -> is_eol (t_kind e) = true -> is_eof (t_kind e) = false ->
  rest0 <> [] -> is_eof (peek rest0) = false -> nl rest0 = lpos e + 1.
Proof.
  intros Ho He Hne Hr Hpk. destruct (ordered_nb_mono _ _ Ho Hr) as (_ & _ & _ & N4). rewrite <- N4.
  cbn in Ho. destruct Ho as (_ & _ & _ & _ & Hlf & Hcm & _).
  destruct (t_kind e) as [| | | | |c] eqn:Ek; cbn in He, Hne, Hlf, Hcm; try discriminate.
  - destruct (Hcm eq_refl) as [H|H]; [exact H|]. destruct rest0 as [|u r]; [congruence|].
    inversion H; subst. cbn in Hpk. congruence.
  - apply Hlf. exact He.
Qed.

(* the end-of-line comment of a row *)
Lemma csfx_after X e : X <= bpos e -> cafter X (csfx_of e).
Proof. intros H. unfold csfx_of. destruct (t_kind e); constructor; [exact H|constructor]. Qed.

Lemma csfx_before e rest0 : ordered (e :: rest0) -> tail_ok e rest0 -> cbefore (nb (after e rest0)) (csfx_of e).
Proof.
  intros Ho Ht. unfold csfx_of. destruct (t_kind e) eqn:Ek; try constructor; [|constructor].
  destruct (after_facts _ _ Ho Ht) as (_ & A & _). unfold cstart. cbn [c_start].
  pose proof (ordered_strict _ _ Ho) as Hs. rewrite Ek in *. cbn in A, Hs. specialize (A eq_refl). specialize (Hs eq_refl).
  unfold bpos in *. lia.
Qed.

Lemma csfx_zc e : map zc (csfx_of e) = map ec (sfx_of e).
Proof. unfold csfx_of, sfx_of. destruct (t_kind e); reflexivity. Qed.

Lemma comsr_ltoks lt : Forall ltokP lt -> forall acc r, comsr acc (lt ++ r) = comsr acc r.
Proof.
  induction 1 as [|t lt Ht Hlt IH]; intros acc r; [reflexivity|]. cbn [app comsr fold_left].
  unfold cstep at 2. unfold ltokP in Ht. destruct (t_kind t); cbn in Ht; try discriminate; apply IH.
Qed.

Lemma comsr_row lt e rest0 acc : Forall ltokP lt -> is_eol (t_kind e) = true -> tail_ok e rest0 ->
  comsr acc (lt ++ e :: rest0) = comsr (csfx_of e ++ acc) (after e rest0).
Proof.
  intros Hlt He Ht. rewrite (comsr_ltoks lt Hlt). unfold tail_ok, after, csfx_of, comsr in *. cbn [fold_left].
  unfold cstep at 2. destruct (t_kind e) eqn:Ek; cbn in He; try discriminate; cbn [is_eof] in *.
  - subst rest0. cbn. unfold cstep. rewrite Ek. reflexivity.
  - reflexivity.
  - reflexivity.
Qed.

Lemma comsr_skip t r acc : is_eol (t_kind t) = false \/ is_kpunct (t_kind t) 10 = true -> comsr acc (t :: r) = comsr acc r.
Proof. intros H. cbn. unfold cstep at 2. destruct (t_kind t); cbn in H; try reflexivity. destruct H; discriminate. Qed.

(* a stream in the middle of a row splits at the end of the row *)
Lemma rs_row_split : forall ts, rs true ts ->
  exists lt e rest0, ts = lt ++ e :: rest0 /\ Forall ltokP lt /\ is_eol (t_kind e) = true.
Proof.
  induction ts as [|t ts IH]; intros H; [destruct H|]. cbn in H. destruct H as (_ & H).
  destruct (is_ltok (t_kind t)) eqn:El.
  - assert (Hr : rs true ts).
    { destruct (t_kind t) as [| | | | |c]; cbn in El; try discriminate; auto.
      apply negb_true_iff in El. rewrite El in H. exact H. }
    destruct (IH Hr) as (lt & e & rest0 & -> & Hlt & He). exists (t :: lt), e, rest0.
    split; [reflexivity|]. split; [constructor; assumption|exact He].
  - exists [], t, ts. split; [reflexivity|]. split; [constructor|].
    destruct (t_kind t) as [| | | | |c]; cbn in *; try discriminate; auto.
    + destruct H; discriminate.
    + apply negb_false_iff in El. exact El.
Qed.

Lemma placed_lines_hi ls sr als lo hi hi' : hi <= hi' -> placed_lines ls sr als lo hi -> placed_lines ls sr als lo hi'.
Proof.
  intros Hle H. destruct H as [lo hi H|l ls cx sr al als lo mid hi H Hp].
  - constructor. lia.
  - econstructor; [exact H|]. destruct Hp as (bef & A & B & C & D & E & F & G & K).
    exists bef. repeat split; auto; [lia|]. eapply cbefore_le; eauto.
Qed.

Lemma last_end_in : forall lt p, last_end p lt = p \/ In (last_end p lt) (map t_end lt).
Proof.
  induction lt as [|v lt IH]; intros p; [left; reflexivity|]. cbn [last_end fold_left map].
  destruct (IH (t_end v)) as [H|H]; right; [left; symmetry; exact H|right; exact H].
Qed.

Lemma in_row_end L B e toks p : Forall (in_row L B e) toks -> In p (map t_end toks) ->
  p_line p = L /\ B <= p_byte p /\ p_byte p <= bpos e.
Proof.
  intros H Hin. apply in_map_iff in Hin as (u & <- & Hu). rewrite Forall_forall in H.
  destruct (H u Hu) as (A & B' & C & D & E). unfold lnend, bend, bpos in *. repeat split; lia.
Qed.

Lemma rev_csfx e : rev (csfx_of e) = csfx_of e.
Proof. unfold csfx_of. destruct (t_kind e); reflexivity. Qed.

Lemma rs_after e rest0 : tok_lex e -> is_eol (t_kind e) = true -> tail_ok e rest0 ->
  (is_eof (t_kind e) = false -> rs false rest0) -> rs false (after e rest0).
Proof.
  unfold tail_ok, after. intros Hx He Ht Hr. destruct (is_eof (t_kind e)) eqn:E; [|auto].
  cbn. split; [exact Hx|]. destruct (t_kind e); cbn in E; try discriminate. reflexivity.
Qed.

Lemma rs_nonempty d ts : rs d ts -> ts <> [].
Proof. destruct ts; [intros []|discriminate]. Qed.
