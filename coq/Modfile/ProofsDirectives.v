(* Proofs about the directive layer (Directives.v, ModulePath.v): lax mode accepts what
   strict mode accepts, with the same core; the K1 witness for ModulePath. *)
From Verif.Base Require Import Bytes Utf8 Strconv.
From Verif.Semver Require Import Model.
From Verif.Module Require Import Path.
From Verif.Modfile Require Import Syntax Lex Parse Print Directives ModulePath ProofsLex.

(* the part of a File that dependency go.mod files are read for *)
Definition core (f : file) := (fd_module f, fd_go f, fd_require f, fd_retract f).

Definition is_core (verb : str) : bool :=
  is_verb verb "go" || is_verb verb "module" || is_verb verb "retract" || is_verb verb "require".

Lemma is_verb_eq v name : is_verb v name = true -> v = B name.
Proof. unfold is_verb. apply str_eqb_eq. Qed.

Ltac verb_cases verb :=
  destruct (is_verb verb "go") eqn:Vgo;
  [apply is_verb_eq in Vgo; subst verb|];
  [|destruct (is_verb verb "toolchain") eqn:Vtc; [apply is_verb_eq in Vtc; subst verb|]];
  [| |destruct (is_verb verb "module") eqn:Vmod; [apply is_verb_eq in Vmod; subst verb|]];
  [| | |destruct (is_verb verb "godebug") eqn:Vgd; [apply is_verb_eq in Vgd; subst verb|]];
  [| | | |destruct (is_verb verb "require") eqn:Vreq; [apply is_verb_eq in Vreq; subst verb|]];
  [| | | | |destruct (is_verb verb "exclude") eqn:Vex; [apply is_verb_eq in Vex; subst verb|]];
  [| | | | | |destruct (is_verb verb "replace") eqn:Vrep; [apply is_verb_eq in Vrep; subst verb|]];
  [| | | | | | |destruct (is_verb verb "retract") eqn:Vret; [apply is_verb_eq in Vret; subst verb|]];
  [| | | | | | | |destruct (is_verb verb "tool") eqn:Vtool; [apply is_verb_eq in Vtool; subst verb|]].

(* a statement the lax parser interprets: without error the strict parser does the same
   to the core *)
Lemma add_core_verb fx f f' blk l ref verb args :
  is_core verb = true -> core f = core f' ->
  st_err (add true fx f blk l ref verb args) = false ->
  st_err (add false fx f' blk l ref verb args) = false /\
  core (st_file (add true fx f blk l ref verb args)) = core (st_file (add false fx f' blk l ref verb args)) /\
  st_args (add true fx f blk l ref verb args) = st_args (add false fx f' blk l ref verb args).
Proof.
  intros Hc Hcore. unfold core in Hcore. injection Hcore as Em Eg Er Et.
  unfold add. unfold is_core in Hc. rewrite Hc. cbn [negb andb].
  verb_cases verb; try (vm_compute in Hc; discriminate).
  - (* go *) cbn [negb]. unfold add_go. rewrite <- Eg.
    destruct (fd_go f); [cbn; discriminate|].
    destruct args as [|a [|b args]]; cbn [st_err err_step]; try discriminate.
    destruct (go_version_re a); [intros _; cbn; unfold core; cbn; rewrite Em, Er, Et; auto|].
    cbn. discriminate.
  - (* module *) rewrite <- Em. destruct (fd_module f); [cbn; discriminate|].
    destruct args as [|a [|b args]]; cbn [st_err err_step]; try discriminate.
    destruct (parse_string a) as [[s tok]|]; cbn; [|discriminate].
    intros _. unfold core; cbn. rewrite Eg, Er, Et. auto.
  - (* require *) cbn [orb].
    destruct args as [|a0 [|a1 [|a2 args]]]; cbn [st_err err_step]; try discriminate.
    destruct (parse_string a0) as [[s tok0]|]; cbn [st_err err_step]; [|discriminate].
    destruct (parse_version fx s a1) as [tok1 [v|]]; cbn [st_err err_step]; [|discriminate].
    destruct (module_path_major s); cbn [st_err err_step]; [|discriminate].
    destruct (negb (check_path_major v s0)); cbn [st_err err_step]; [discriminate|].
    change (is_verb (B "require") "require") with true. cbn iota.
    intros _. unfold core; cbn. rewrite Em, Eg, Er, Et. auto.
  - (* retract *)
    destruct (parse_version_interval dont_fix [] args) as [args' [[[low high] rest]|]].
    + destruct (Parse.is_nil rest) eqn:Enil; cbn [negb andb]; [|cbn; discriminate].
      intros _. unfold core; cbn. rewrite Em, Eg, Er, Et. auto.
    + cbn. discriminate.
Qed.

(* a statement the lax parser skips changes nothing of the core in strict mode *)
Lemma add_noncore_verb fx f f' blk l ref verb args :
  is_core verb = false ->
  add false fx f' blk l ref verb args = ok_step f' args /\
  core (st_file (add true fx f blk l ref verb args)) = core f.
Proof.
  intros Hc. unfold add. unfold is_core in Hc. rewrite Hc. cbn [negb andb]. split; [reflexivity|].
  verb_cases verb; try (vm_compute in Hc; discriminate).
  - unfold add_toolchain. destruct (fd_toolchain f); [reflexivity|].
    destruct args as [|a [|b args]]; try reflexivity. destruct (toolchain_re a); reflexivity.
  - unfold add_godebug. destruct args as [|a [|b args]]; try reflexivity.
    destruct (contains_any a _); [reflexivity|]. destruct (cut_eq a) as [[k v]|]; reflexivity.
  - cbn [orb].
    destruct args as [|a0 [|a1 [|a2 args]]]; try reflexivity.
    destruct (parse_string a0) as [[s tok0]|]; [|reflexivity].
    destruct (parse_version fx s a1) as [tok1 [v|]]; [|reflexivity].
    destruct (module_path_major s); [|reflexivity].
    destruct (negb (check_path_major v s0)); [reflexivity|].
    change (is_verb (B "exclude") "require") with false. reflexivity.
  - destruct (parse_replace fx (B "replace") ref args) as [args' [r|]]; reflexivity.
  - destruct args as [|a [|b args]]; try reflexivity.
    destruct (parse_string a) as [[s tok]|]; reflexivity.
  - reflexivity.
Qed.

(* ---------------------------------------------------------------- the statement loop *)

Lemma add_err_nil {F} (s : step F) p errs : add_err s p errs = [] -> st_err s = false /\ errs = [].
Proof. unfold add_err. destruct (st_err s); [discriminate|auto]. Qed.

Lemma add_err_nonnil {F} (s : step F) p errs : errs <> [] -> add_err s p errs <> [].
Proof. unfold add_err. destruct (st_err s); [discriminate|auto]. Qed.

Lemma block_lines_errs_mono {F} (addf : F -> line -> line_ref -> list str -> step F) i :
  forall ls j f errs acc, errs <> [] -> snd (fst (block_lines addf i j ls f errs acc)) <> [].
Proof.
  induction ls as [|l ls IH]; intros j f errs acc H; cbn; [exact H|].
  apply IH. apply add_err_nonnil. exact H.
Qed.

(* the lines of a block whose verb the lax parser interprets *)
Lemma block_lines_core fx blk verb i : is_core verb = true ->
  forall ls j f f' acc acc',
  core f = core f' -> acc = acc' ->
  snd (fst (block_lines (fun f l ref args => add true fx f blk l ref verb args) i j ls f [] acc)) = [] ->
  let r := block_lines (fun f l ref args => add true fx f blk l ref verb args) i j ls f [] acc in
  let r' := block_lines (fun f l ref args => add false fx f blk l ref verb args) i j ls f' [] acc' in
  snd (fst r') = [] /\ core (fst (fst r)) = core (fst (fst r')) /\ snd r = snd r'.
Proof.
  intros Hc. induction ls as [|l ls IH]; intros j f f' acc acc' Hcore -> Herr; cbn [block_lines] in *.
  - cbn. auto.
  - destruct (st_err (add true fx f blk l (i, Some j) verb (l_token l))) eqn:E.
    + exfalso. revert Herr. apply block_lines_errs_mono. unfold add_err. rewrite E. discriminate.
    + destruct (add_core_verb fx f f' blk l (i, Some j) verb (l_token l) Hc Hcore E) as (E' & Hcore' & Hargs).
      unfold add_err in *. rewrite E in Herr. rewrite E, E'. rewrite <- Hargs.
      apply IH; auto.
Qed.

(* the lines of a block the lax parser skips *)
Lemma block_lines_noncore fx blk verb i : is_core verb = false ->
  forall ls j f f' errs acc acc',
  core f = core f' ->
  core (fst (fst (block_lines (fun f l ref args => add true fx f blk l ref verb args) i j ls f errs acc))) = core f' /\
  fst (fst (block_lines (fun f l ref args => add false fx f blk l ref verb args) i j ls f' [] acc')) = f' /\
  snd (fst (block_lines (fun f l ref args => add false fx f blk l ref verb args) i j ls f' [] acc')) = [].
Proof.
  intros Hc. induction ls as [|l ls IH]; intros j f f' errs acc acc' Hcore; cbn [block_lines].
  - cbn. auto.
  - destruct (add_noncore_verb fx f f' blk l (i, Some j) verb (l_token l) Hc) as (E' & Hcore').
    rewrite E'. cbn [st_file st_args st_err ok_step add_err].
    apply IH. congruence.
Qed.

Definition step_of (strict : bool) (fx : fixer) :=
  stmt_step (fun f blk l ref verb args => add strict fx f blk l ref verb args) known_mod_block strict.

Lemma stmt_step_errs_mono strict fx i x (st : loop_state file) :
  lp_errs_r st <> [] -> lp_errs_r (step_of strict fx i x st) <> [].
Proof.
  intros H. unfold step_of, stmt_step. destruct x as [l|b|c]; cbn [lp_errs_r]; auto.
  - destruct (l_token l); cbn [lp_errs_r]; auto. apply add_err_nonnil. exact H.
  - destruct (b_token b) as [|verb [|v2 r]]; cbn [lp_errs_r]; auto.
    + destruct (known_mod_block verb); cbn [lp_errs_r].
      * pose proof (block_lines_errs_mono (fun f l ref args => add strict fx f (Some b) l ref verb args) i
                      (b_line b) O (lp_file st) (lp_errs_r st) [] H) as Hm.
        destruct (block_lines _ i O (b_line b) (lp_file st) (lp_errs_r st) []) as [[f' errs'] ls'].
        cbn in *. exact Hm.
      * destruct strict; [discriminate|exact H].
    + destruct strict; [discriminate|exact H].
Qed.

Lemma stmts_loop_errs_mono strict fx : forall xs i (st : loop_state file),
  lp_errs_r st <> [] -> lp_errs_r (stmts_loop (step_of strict fx) i xs st) <> [].
Proof.
  induction xs as [|x xs IH]; intros i st H; cbn; [exact H|]. apply IH. apply stmt_step_errs_mono. exact H.
Qed.

Definition sim (S L : loop_state file) : Prop :=
  core (lp_file S) = core (lp_file L) /\ lp_errs_r L = [] /\ lp_panic S = lp_panic L.

Lemma known_core_go : forall verb, is_core verb = true -> known_mod_block verb = false -> verb = B "go".
Proof.
  intros verb Hc Hk. unfold is_core in Hc. unfold known_mod_block in Hk.
  destruct (is_verb verb "go") eqn:Vgo; [apply is_verb_eq; exact Vgo|].
  destruct (is_verb verb "module"); [cbn in Hk; discriminate|].
  destruct (is_verb verb "retract"); [cbn in Hk; rewrite !orb_true_r in Hk; discriminate|].
  destruct (is_verb verb "require"); [cbn in Hk; rewrite !orb_true_r in Hk; discriminate|].
  cbn in Hc. discriminate.
Qed.

(* one statement: if the strict parser reports no error, the lax parser reports none and
   the cores stay equal *)
Lemma stmt_step_sim fx i x S L : sim S L -> lp_errs_r S = [] ->
  lp_errs_r (step_of true fx i x S) = [] -> sim (step_of true fx i x S) (step_of false fx i x L).
Proof.
  intros (Hcore & HeL & Hp) HeS Hno. unfold step_of, stmt_step in *.
  destruct x as [l|b|c]; cbn [lp_file lp_errs_r lp_panic] in *.
  - destruct (l_token l) as [|verb args]; [split; [exact Hcore|split; [exact HeL|reflexivity]]|].
    cbn [lp_file lp_errs_r lp_panic] in *. rewrite HeS in Hno. rewrite HeL.
    apply add_err_nil in Hno as [Hno _].
    destruct (is_core verb) eqn:Hc.
    + destruct (add_core_verb fx (lp_file S) (lp_file L) None l (i, None) verb args Hc Hcore Hno) as (E' & Hcore' & _).
      split; [exact Hcore'|]. split; [unfold add_err; rewrite E'; reflexivity|exact Hp].
    + destruct (add_noncore_verb fx (lp_file S) (lp_file L) None l (i, None) verb args Hc) as (E' & Hcore').
      rewrite E'. split; [cbn [lp_file st_file ok_step]; rewrite Hcore'; exact Hcore|]. split; [reflexivity|exact Hp].
  - destruct (b_token b) as [|verb [|v2 r]]; cbn [lp_file lp_errs_r lp_panic] in *.
    + split; [exact Hcore|split; [exact HeL|reflexivity]].
    + destruct (known_mod_block verb) eqn:Hk.
      * rewrite HeS in Hno. rewrite HeS, HeL.
        destruct (is_core verb) eqn:Hc.
        -- pose proof (block_lines_core fx (Some b) verb i Hc (b_line b) O (lp_file S) (lp_file L) [] []
                         Hcore eq_refl) as Hb.
           destruct (block_lines (fun f l ref args => add true fx f (Some b) l ref verb args) i O
                       (b_line b) (lp_file S) [] []) as [[f1 e1] ls1].
           destruct (block_lines (fun f l ref args => add false fx f (Some b) l ref verb args) i O
                       (b_line b) (lp_file L) [] []) as [[f2 e2] ls2].
           cbn [lp_file lp_errs_r lp_panic fst snd] in *. destruct (Hb Hno) as (A & B0 & C).
           split; [exact B0|]. split; [exact A|exact Hp].
        -- pose proof (block_lines_noncore fx (Some b) verb i Hc (b_line b) O (lp_file S) (lp_file L) [] [] []
                         Hcore) as (A & B0 & C).
           destruct (block_lines (fun f l ref args => add true fx f (Some b) l ref verb args) i O
                       (b_line b) (lp_file S) [] []) as [[f1 e1] ls1].
           destruct (block_lines (fun f l ref args => add false fx f (Some b) l ref verb args) i O
                       (b_line b) (lp_file L) [] []) as [[f2 e2] ls2].
           cbn [lp_file lp_errs_r lp_panic fst snd] in *. subst f2 e2.
           split; [exact A|]. split; [reflexivity|exact Hp].
      * cbn [lp_errs_r] in Hno. discriminate.
    + cbn [lp_errs_r] in Hno. discriminate.
  - split; [exact Hcore|split; [exact HeL|exact Hp]].
Qed.

Lemma stmts_loop_sim fx : forall xs i S L, sim S L -> lp_errs_r S = [] ->
  lp_errs_r (stmts_loop (step_of true fx) i xs S) = [] ->
  sim (stmts_loop (step_of true fx) i xs S) (stmts_loop (step_of false fx) i xs L).
Proof.
  induction xs as [|x xs IH]; intros i S L Hs HeS Hno; cbn [stmts_loop] in *; [exact Hs|].
  assert (H1 : lp_errs_r (step_of true fx i x S) = []).
  { destruct (lp_errs_r (step_of true fx i x S)) eqn:E; [reflexivity|].
    exfalso. revert Hno. apply stmts_loop_errs_mono. rewrite E. discriminate. }
  apply IH; auto. apply stmt_step_sim; auto.
Qed.

(* strict_implies_lax_same_core for fix = nil (then fixRetract does nothing) *)
Theorem strict_implies_lax_same_core_nofix syn f :
  file_of_syntax true None syn = DOk f ->
  exists f', file_of_syntax false None syn = DOk f' /\ core f = core f'.
Proof.
  unfold file_of_syntax. fold (step_of true None). fold (step_of false None).
  set (S0 := mkLS (empty_file syn) [] [] false).
  set (S := stmts_loop (step_of true None) 0 (f_stmt syn) S0).
  set (L := stmts_loop (step_of false None) 0 (f_stmt syn) S0).
  cbn [fix_retract].
  destruct (lp_panic S) eqn:Ep; [discriminate|].
  destruct (lp_errs_r S) eqn:Ee; [|discriminate].
  intros [= <-].
  assert (Hsim : sim S L).
  { apply stmts_loop_sim; [split; [reflexivity|split; reflexivity]|reflexivity|exact Ee]. }
  destruct Hsim as (Hcore & HeL & Hp). rewrite <- Hp, Ep, HeL.
  eexists. split; [reflexivity|]. unfold core in *. cbn. exact Hcore.
Qed.

Theorem strict_implies_lax_same_core_nofix_data data f :
  parse_to_file true None data = DOk f ->
  exists f', parse_to_file false None data = DOk f' /\ core f = core f'.
Proof.
  unfold parse_to_file, lift_parse. destruct (parse data); try discriminate.
  apply strict_implies_lax_same_core_nofix.
Qed.

(* ---------------------------------------------------------------- no internal error *)

Definition tokens_nonempty (x : expr) : Prop :=
  match x with
  | ELine l => l_token l <> []
  | EBlock b => b_token b <> []
  | ECommentBlock _ => True
  end.

Lemma stmts_loop_no_panic {F} (addl : F -> option line_block -> line -> line_ref -> str -> list str -> step F)
      known strict : forall xs i (st : loop_state F),
  Forall tokens_nonempty xs -> lp_panic st = false ->
  lp_panic (stmts_loop (stmt_step addl known strict) i xs st) = false.
Proof.
  induction xs as [|x xs IH]; intros i st Hall Hp; cbn [stmts_loop]; [exact Hp|].
  inversion Hall as [|? ? Hx Hxs]; subst. apply IH; [exact Hxs|].
  unfold stmt_step. destruct x as [l|b|c]; cbn in Hx |- *.
  - destruct (l_token l); [congruence|exact Hp].
  - destruct (b_token b) as [|verb [|v2 r]]; [congruence| |exact Hp].
    destruct (known verb); [|exact Hp].
    destruct (block_lines _ i O (b_line b) (lp_file st) (lp_errs_r st) []) as [[f' e'] ls']. exact Hp.
  - exact Hp.
Qed.

From Verif.Modfile Require Import ProofsParse.

Lemma file_ok_tokens_nonempty data s : file_ok data s -> Forall tokens_nonempty (f_stmt s).
Proof.
  intros (_ & H). induction H as [|x xs Hx _ IH]; constructor; [|exact IH].
  destruct x as [l|b|c]; cbn in *; [| |exact I].
  - destruct Hx as ((t0 & r & E & _) & _). rewrite E. discriminate.
  - destruct Hx as ((t0 & r & E & _) & _). rewrite E. discriminate.
Qed.

(* ParseWork never reports an internal error, whatever the fixer *)
Theorem parse_work_no_panic fx data : parse_work fx data <> DPanic /\ parse_work fx data <> DFuel.
Proof.
  unfold parse_work, lift_parse. pose proof (parse_good_thm data) as Hg.
  destruct (parse data) as [s| | |]; cbn in Hg; try contradiction; [|split; discriminate].
  unfold work_of_syntax.
  rewrite (stmts_loop_no_panic _ known_work_block true (f_stmt s) O (mkLS (empty_work s) [] [] false) (file_ok_tokens_nonempty _ _ Hg) eq_refl).
  destruct (lp_errs_r _); split; discriminate.
Qed.

(* Parse and ParseLax with fix = nil never report an internal error *)
Theorem parse_to_file_no_panic_nofix strict data :
  parse_to_file strict None data <> DPanic /\ parse_to_file strict None data <> DFuel.
Proof.
  unfold parse_to_file, lift_parse. pose proof (parse_good_thm data) as Hg.
  destruct (parse data) as [s| | |]; cbn in Hg; try contradiction; [|split; discriminate].
  unfold file_of_syntax. cbn [fix_retract].
  rewrite (stmts_loop_no_panic _ known_mod_block strict (f_stmt s) O (mkLS (empty_file s) [] [] false) (file_ok_tokens_nonempty _ _ Hg) eq_refl).
  destruct (lp_errs_r _); split; discriminate.
Qed.

(* ---------------------------------------------------------------- ModulePath: K1 *)

Definition k1_witness : str := B "require (
	module v1.0.0
)
module example.com/m
".

Definition k1_result := Eval vm_compute in parse_to_file true None k1_witness.

(* modulepath_agrees without the hypothesis "no earlier line's first token is module" is
   false of the faithful model: the strict parser accepts the witness, its module directive
   is a single line naming a valid import path, and ModulePath returns "v1.0.0" *)
Theorem modulepath_agrees_refuted :
  exists data f m,
    parse_to_file true None data = DOk f /\ fd_module f = Some m /\
    snd (md_syntax m) = None /\ check_import_path (mv_path (md_mod m)) = None /\
    module_path data <> mv_path (md_mod m).
Proof.
  exists k1_witness.
  assert (E : parse_to_file true None k1_witness = k1_result) by (vm_compute; reflexivity).
  unfold k1_result in E.
  eexists. eexists. split; [exact E|]. split; [reflexivity|]. split; [reflexivity|].
  split; vm_compute; [reflexivity|discriminate].
Qed.
