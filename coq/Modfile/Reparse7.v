(* Reparse, part 7: walking the edit tree.  If the views of the live lines of the tree are, line
   by line, the views of valid items [tis] (what coherence gives, Reparse5.v), then every
   statement of [to_syntax] renders items ([expr_items], Reparse3.v): the items of [tis] with
   the comment-derived texts read from the tree ([zip_items]). *)
From Coq Require Import Permutation.
From Verif.Base Require Import Bytes.
From Verif.Modfile Require Import Syntax Lex Parse Print Directives Reparse1 Reparse3 Reparse5 EditModel EditOps EditSpec.

Definition to_block (h : list hline) (b : hblock) : line_block :=
  mkBlock (to_comments (hb_com b)) zero_pos (mkParen (to_comments (hb_lp b)) zero_pos) (hb_tok b)
          (map (fun i => to_line (hget h i)) (hb_lines b)) (mkParen (to_comments (hb_rp b)) zero_pos).

Lemma to_expr_block h b : to_expr h (SBlock b) = EBlock (to_block h b).
Proof. reflexivity. Qed.

(* the lines of a statement: as in EditSpec.tree_lines, and with the enclosing block itself *)
Definition stmt_lines (st : stmt) : list (lid * option str) :=
  match st with
  | SLine i => [(i, None)]
  | SBlock b => map (fun i => (i, Some (hd [] (hb_tok b)))) (hb_lines b)
  | SComment _ => []
  end.

Definition stmt_ctx (st : stmt) : list (lid * option hblock) :=
  match st with
  | SLine i => [(i, None)]
  | SBlock b => map (fun i => (i, Some b)) (hb_lines b)
  | SComment _ => []
  end.

Definition tree_ctx (s : syntax) : list (lid * option hblock) := flat_map stmt_ctx (stmts s).

Lemma tree_lines_stmt s : tree_lines s = flat_map stmt_lines (stmts s).
Proof. reflexivity. Qed.

(* the item of a tree line: the typed item with the texts read from the comments *)
Definition ctx_item (s : syntax) (x : lid * option hblock) (it : item) : item :=
  retext (option_map (to_block (heap s)) (snd x)) (to_line (sget s (fst x))) it.

Definition zip_items (s : syntax) (ctxs : list (lid * option hblock)) (tis : list (lid * item)) : list item :=
  map (fun p => ctx_item s (fst p) (snd (snd p))) (combine ctxs tis).

Lemma zip_items_app s c1 c2 t1 t2 : length c1 = length t1 ->
  zip_items s (c1 ++ c2) (t1 ++ t2) = zip_items s c1 t1 ++ zip_items s c2 t2.
Proof.
  unfold zip_items. revert t1. induction c1 as [|c c1 IH]; intros [|t t1] H; try discriminate; [reflexivity|].
  cbn [app combine map]. f_equal. apply IH. cbn in H. lia.
Qed.

(* a line that is live and whose end-of-line comments are ASCII *)
Definition line_ready (s : syntax) (i : lid) : Prop :=
  hl_tok (sget s i) <> [] /\ Forall ascii (c_suffix (hl_com (sget s i))).

Definition stmt_ready (s : syntax) (known : str -> bool) (st : stmt) : Prop :=
  match st with
  | SLine i => line_ready s i
  | SBlock b => (exists verb, hb_tok b = [verb] /\ known verb = true) /\ Forall (line_ready s) (hb_lines b)
  | SComment _ => True
  end.

Definition tis_ok (tis : list (lid * item)) : Prop := Forall (fun x => item_ok (snd x) /\ mod_item (snd x)) tis.

Lemma item_view_inv ti i v a : item_view ti = (i, v, a) -> fst ti = i /\ verb_of (snd ti) = v /\ nargs_of (snd ti) = a.
Proof. unfold item_view. intros [= <- <- <-]. auto. Qed.

(* the lines of a block *)
Lemma walk_block s b verb : hb_tok b = [verb] ->
  forall ls tis, Forall (line_ready s) ls ->
  flat_map (line_view s) (map (fun i => (i, Some verb)) ls) = map item_view tis -> tis_ok tis ->
  Forall2 (fun l it => line_it (Some (to_block (heap s) b)) verb (l_token l) l it)
          (map (fun i => to_line (hget (heap s) i)) ls)
          (zip_items s (map (fun i => (i, Some b)) ls) tis) /\
  map fst tis = ls.
Proof.
  intros Hb. induction ls as [|i ls IH]; intros tis Hr Hv Hok.
  - cbn in Hv. destruct tis; [|discriminate]. split; [constructor|reflexivity].
  - inversion Hr as [|? ? (Hlive & Hasc) Hr']; subst. cbn [map flat_map] in Hv.
    unfold line_view at 1 in Hv. cbn [fst snd] in Hv.
    destruct (hl_tok (sget s i)) as [|t ts] eqn:Et; [congruence|]. cbn [app] in Hv.
    symmetry in Hv. apply map_eq_cons in Hv as (ti & tis' & -> & Hti & Hrest).
    apply item_view_inv in Hti as (Hi & Hverb & Hn). subst i.
    pose proof (Forall_inv Hok) as (Hiok & Him). pose proof (Forall_inv_tail Hok) as Hok'. cbn [snd] in Hiok, Him.
    destruct (IH tis' Hr' (eq_sym Hrest) Hok') as (A & B).
    split; [|cbn [map]; rewrite B; reflexivity].
    cbn [map combine zip_items]. unfold zip_items in A |- *. cbn [map combine]. constructor; [|exact A].
    unfold ctx_item. cbn [fst snd option_map]. change (hget (heap s) (fst ti)) with (sget s (fst ti)).
    cbn [to_line l_token]. rewrite Et.
    apply line_of_item; auto.
Qed.

Lemma walk s : forall sts tis,
  Forall (stmt_ready s known_mod_block) sts ->
  flat_map (line_view s) (flat_map stmt_lines sts) = map item_view tis -> tis_ok tis ->
  exists itss, Forall2 expr_items (map (to_expr (heap s)) sts) itss /\
               concat itss = zip_items s (flat_map stmt_ctx sts) tis /\
               map fst tis = map fst (flat_map stmt_ctx sts).
Proof.
  induction sts as [|st sts IH]; intros tis Hr Hv Hok.
  - cbn in Hv. destruct tis; [|discriminate]. exists []. split; [constructor|split; reflexivity].
  - inversion Hr as [|? ? Hst Hr']; subst. cbn [flat_map] in Hv. rewrite flat_map_app in Hv.
    destruct st as [i|b|c]; cbn [stmt_lines stmt_ready] in *.
    + destruct Hst as (Hlive & Hasc). cbn [flat_map] in Hv. rewrite app_nil_r in Hv.
      unfold line_view at 1 in Hv. cbn [fst snd] in Hv.
      destruct (hl_tok (sget s i)) as [|t ts] eqn:Et; [congruence|]. cbn [app] in Hv.
      symmetry in Hv. apply map_eq_cons in Hv as (ti & tis' & -> & Hti & Hrest).
      apply item_view_inv in Hti as (Hi & Hverb & Hn). subst i.
      pose proof (Forall_inv Hok) as (Hiok & Him). pose proof (Forall_inv_tail Hok) as Hok'. cbn [snd] in Hiok, Him.
      destruct (IH tis' Hr' (eq_sym Hrest) Hok') as (itss & A & B & C).
      exists ([ctx_item s (fst ti, None) (snd ti)] :: itss). split; [|split].
      * cbn [map to_expr]. constructor; [|exact A].
        apply (EI_line (to_line (hget (heap s) (fst ti))) t ts); [exact Et|].
        unfold ctx_item. cbn [fst snd option_map]. apply line_of_item; auto.
      * cbn [concat flat_map stmt_ctx app]. rewrite B. reflexivity.
      * cbn [flat_map stmt_ctx app map fst]. rewrite C. reflexivity.
    + destruct Hst as ((verb & Hb & Hk) & Hls). rewrite Hb in Hv. cbn [hd] in Hv.
      symmetry in Hv. apply map_eq_app in Hv as (tb & tis' & -> & Hvb & Hrest).
      apply Forall_app in Hok as (Hokb & Hok').
      destruct (walk_block s b verb Hb (hb_lines b) tb Hls (eq_sym Hvb) Hokb) as (Hblk & Hfst).
      destruct (IH tis' Hr' (eq_sym Hrest) Hok') as (itss & A & B & C).
      exists (zip_items s (map (fun i => (i, Some b)) (hb_lines b)) tb :: itss). split; [|split].
      * cbn [map]. rewrite to_expr_block. constructor; [|exact A].
        apply (EI_block (to_block (heap s) b) verb); [exact Hb|exact Hk|exact Hblk].
      * cbn [concat flat_map stmt_ctx]. rewrite B. rewrite zip_items_app; [reflexivity|].
        rewrite map_length. rewrite <- Hfst at 1. rewrite map_length. reflexivity.
      * cbn [flat_map stmt_ctx]. rewrite !map_app, C, Hfst, map_map. cbn [fst]. rewrite map_id. reflexivity.
    + cbn [flat_map app] in Hv. destruct (IH tis Hr' Hv Hok) as (itss & A & B & C).
      exists ([] :: itss). split; [|split].
      * cbn [map to_expr]. constructor; [constructor|exact A].
      * cbn [concat flat_map stmt_ctx app]. exact B.
      * cbn [flat_map stmt_ctx app]. exact C.
Qed.

(* ---------------------------------------------------------------- go.work *)

Definition line_live (s : syntax) (i : lid) : Prop := hl_tok (sget s i) <> [].

Definition stmt_readyW (s : syntax) (st : stmt) : Prop :=
  match st with
  | SLine i => line_live s i
  | SBlock b => (exists verb, hb_tok b = [verb] /\ known_work_block verb = true) /\ Forall (line_live s) (hb_lines b)
  | SComment _ => True
  end.

Definition tis_okW (tis : list (lid * item)) : Prop := Forall (fun x => item_ok (snd x) /\ work_item (snd x)) tis.

Lemma walk_blockW s b verb : hb_tok b = [verb] ->
  forall ls tis, Forall (line_live s) ls ->
  flat_map (line_view s) (map (fun i => (i, Some verb)) ls) = map item_view tis -> tis_okW tis ->
  Forall2 (fun l it => line_itW verb (l_token l) it) (map (fun i => to_line (hget (heap s) i)) ls) (map snd tis).
Proof.
  intros Hb. induction ls as [|i ls IH]; intros tis Hr Hv Hok.
  - cbn in Hv. destruct tis; [|discriminate]. constructor.
  - inversion Hr as [|? ? Hlive Hr']; subst. cbn [map flat_map] in Hv.
    unfold line_view at 1 in Hv. cbn [fst snd] in Hv. unfold line_live in Hlive.
    destruct (hl_tok (sget s i)) as [|t ts] eqn:Et; [congruence|]. cbn [app] in Hv.
    symmetry in Hv. apply map_eq_cons in Hv as (ti & tis' & -> & Hti & Hrest).
    apply item_view_inv in Hti as (Hi & Hverb & Hn). subst i.
    pose proof (Forall_inv Hok) as (Hiok & Him). pose proof (Forall_inv_tail Hok) as Hok'. cbn [snd] in Hiok, Him.
    cbn [map]. constructor; [|exact (IH tis' Hr' (eq_sym Hrest) Hok')].
    change (hget (heap s) (fst ti)) with (sget s (fst ti)). cbn [to_line l_token]. rewrite Et.
    apply (line_of_itemW (sget s (fst ti))); auto.
Qed.

Lemma walkW s : forall sts tis,
  Forall (stmt_readyW s) sts ->
  flat_map (line_view s) (flat_map stmt_lines sts) = map item_view tis -> tis_okW tis ->
  exists itss, Forall2 expr_itemsW (map (to_expr (heap s)) sts) itss /\ concat itss = map snd tis.
Proof.
  induction sts as [|st sts IH]; intros tis Hr Hv Hok.
  - cbn in Hv. destruct tis; [|discriminate]. exists []. split; [constructor|reflexivity].
  - inversion Hr as [|? ? Hst Hr']; subst. cbn [flat_map] in Hv. rewrite flat_map_app in Hv.
    destruct st as [i|b|c]; cbn [stmt_lines stmt_readyW] in *.
    + unfold line_live in Hst. cbn [flat_map] in Hv. rewrite app_nil_r in Hv.
      unfold line_view at 1 in Hv. cbn [fst snd] in Hv.
      destruct (hl_tok (sget s i)) as [|t ts] eqn:Et; [congruence|]. cbn [app] in Hv.
      symmetry in Hv. apply map_eq_cons in Hv as (ti & tis' & -> & Hti & Hrest).
      apply item_view_inv in Hti as (Hi & Hverb & Hn). subst i.
      pose proof (Forall_inv Hok) as (Hiok & Him). pose proof (Forall_inv_tail Hok) as Hok'. cbn [snd] in Hiok, Him.
      destruct (IH tis' Hr' (eq_sym Hrest) Hok') as (itss & A & B).
      exists ([snd ti] :: itss). split.
      * cbn [map to_expr]. constructor; [|exact A].
        apply (EW_line (to_line (hget (heap s) (fst ti))) t ts); [exact Et|].
        apply (line_of_itemW (sget s (fst ti))); auto.
      * cbn [concat map app]. rewrite B. reflexivity.
    + destruct Hst as ((verb & Hb & Hk) & Hls). rewrite Hb in Hv. cbn [hd] in Hv.
      symmetry in Hv. apply map_eq_app in Hv as (tb & tis' & -> & Hvb & Hrest).
      apply Forall_app in Hok as (Hokb & Hok').
      pose proof (walk_blockW s b verb Hb (hb_lines b) tb Hls (eq_sym Hvb) Hokb) as Hblk.
      destruct (IH tis' Hr' (eq_sym Hrest) Hok') as (itss & A & B).
      exists (map snd tb :: itss). split.
      * cbn [map]. rewrite to_expr_block. constructor; [|exact A].
        apply (EW_block (to_block (heap s) b) verb); [exact Hb|exact Hk|exact Hblk].
      * cbn [concat]. rewrite B, map_app. reflexivity.
    + cbn [flat_map app] in Hv. destruct (IH tis Hr' Hv Hok) as (itss & A & B).
      exists ([] :: itss). split.
      * cbn [map to_expr]. constructor; [constructor|exact A].
      * cbn [concat app]. exact B.
Qed.
