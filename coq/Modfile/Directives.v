(* The directive layer of modfile/rule.go and work.go: Parse / ParseLax (parseToFile,
   File.add, parseReplace, fixRetract), ParseWork (WorkFile.add), parseVersionInterval,
   parseString, parseVersion, parseDeprecation, parseDirectiveComment, isIndirect,
   MustQuote, AutoQuote, IsDirectoryPath and the three regular expressions.
   Definitions only.

   The Go code rewrites tokens of the syntax tree in place while it interprets them
   (parseString stores AutoQuote(t), parseVersion the canonical or fixed version, lax go
   versions are cut down); the model threads the token list of the line through the
   same steps and rebuilds the tree, so [fd_syntax] of the result is the rewritten tree.

   Go's *Line pointers (the Syntax field of every directive) are [line_ref]: the index of
   the statement in FileSyntax.Stmt and, for a line of a block, its index in the block.

   Errors are represented by their positions only (Error.Pos); texts are not modelled.
   A VersionFixer is a function [path -> version -> option version] (None = error). *)
From Verif.Base Require Import Bytes Utf8 Strconv.
From Verif.Gen Require Import GenUnicode GenRegex.
From Verif.Semver Require Import Model.
From Verif.Module Require Import Path.
From Verif.Modfile Require Import Syntax Lex Parse Print.

(* ---------------------------------------------------------------- small string helpers *)

Fixpoint contains_sub (s sub : str) : bool :=
  has_prefix s sub || match s with [] => false | _ :: r => contains_sub r sub end.

Definition contains_any (s chars : str) : bool :=
  existsb (fun c => existsb (fun d => c =? d) chars) s.

Definition trim_prefix (s p : str) : str :=
  if has_prefix s p then skipn (length p) s else s.

(* strings.Cut(s, "=") *)
Fixpoint cut_eq (s : str) : option (str * str) :=
  match s with
  | [] => None
  | c :: r => if c =? 61 then Some ([], r)
              else match cut_eq r with Some (a, b) => Some (c :: a, b) | None => None end
  end.

(* strings.Fields: maximal runs of non-space runes *)
Fixpoint fields_loop (f : nat) (s cur_r : str) (acc : list str) : list str :=
  match f with
  | O => acc
  | S f' =>
      match s with
      | [] => frev (match cur_r with [] => acc | _ => frev cur_r :: acc end)
      | _ =>
          let (r, w) := Utf8.decode s in
          if unicode_IsSpace r
          then fields_loop f' (skipn w s) [] (match cur_r with [] => acc | _ => frev cur_r :: acc end)
          else fields_loop f' (skipn w s) (rev_append (firstn w s) cur_r) acc
      end
  end.

Definition fields (s : str) : list str := fields_loop (S (length s)) s [] [].

Fixpoint join (sep : str) (l : list str) : str :=
  match l with
  | [] => []
  | [x] => x
  | x :: r => x ++ sep ++ join sep r
  end.

Fixpoint nth_tok (i : nat) (l : list str) : str :=
  match l, i with
  | [], _ => []
  | x :: _, O => x
  | _ :: r, S k => nth_tok k r
  end.

Fixpoint set_nth (i : nat) (v : str) (l : list str) : list str :=
  match l, i with
  | [], _ => []
  | _ :: r, O => v :: r
  | x :: r, S k => x :: set_nth k v r
  end.

(* ---------------------------------------------------------------- quoting *)

(* rule.go MustQuote *)
Definition must_quote (s : str) : bool :=
  let n := length s in
  existsb (fun r =>
             (r =? 32) || (r =? 34) || (r =? 39) || (r =? 96)
             || (is_punct r && negb (r =? 10) && Nat.ltb 1 n)
             || (negb (is_punct r && negb (r =? 10)) && negb (unicode_IsPrint r)))
          (Utf8.runes s)
  || Parse.is_nil s || contains_sub s [47; 47] || contains_sub s [47; 42].

(* rule.go AutoQuote *)
Definition auto_quote (s : str) : str := if must_quote s then quote s else s.

(* rule.go parseString: the value and the token that replaces *s *)
Definition parse_string (t : str) : option (str * str) :=
  if has_prefix t [34] then
    match unquote t with
    | None => None
    | Some u => Some (u, auto_quote u)
    end
  else if contains_any t [34; 39; 96] then None
  else Some (t, auto_quote t).

(* ---------------------------------------------------------------- regular expressions *)

Definition digits_all (s : str) : bool := forallb is_digit s.

(* a numeral without leading zero, matching all of s *)
Definition is_numeral (s : str) : bool :=
  match s with
  | [] => false
  | [48] => true
  | c :: r => (49 <=? c) && (c <=? 57) && digits_all r
  end.

(* a positive numeral without leading zero, matching all of s *)
Definition is_pos_numeral (s : str) : bool :=
  match s with
  | c :: r => (49 <=? c) && (c <=? 57) && digits_all r
  | [] => false
  end.

(* empty, or lower-case letters followed by digits, matching all of s *)
Definition is_pre_suffix (s : str) : bool :=
  match s with
  | [] => true
  | _ => let (a, b) := span is_lower s in
         negb (Parse.is_nil a) && negb (Parse.is_nil b) && digits_all b
  end.

(* GoVersionRE, see the Example below *)
Definition go_version_re (s : str) : bool :=
  let (maj, r1) := span is_digit s in
  is_pos_numeral maj &&
  match r1 with
  | 46 :: r2 =>
      let (mino, r3) := span is_digit r2 in
      is_numeral mino &&
      (is_pre_suffix r3 ||
       match r3 with
       | 46 :: r4 => let (pat, r5) := span is_digit r4 in is_numeral pat && is_pre_suffix r5
       | _ => false
       end)
  | _ => false
  end.

Example go_version_re_source :
  modfile_GoVersionRE = B "^([1-9][0-9]*)\.(0|[1-9][0-9]*)(\.(0|[1-9][0-9]*))?([a-z]+[0-9]+)?$".
Proof. reflexivity. Qed.

(* laxGoVersionRE (see the Example below): the submatch m[1] *)
Definition lax_go_version (s : str) : option str :=
  let s1 := match s with 118 :: r => r | _ => s end in
  let (maj, r1) := span is_digit s1 in
  if is_pos_numeral maj then
    match r1 with
    | 46 :: r2 =>
        let (mino, r3) := span is_digit r2 in
        if is_numeral mino then
          match r3 with
          | _ :: rest => if contains_byte 10 rest then None else Some (maj ++ 46 :: mino)
          | [] => None
          end
        else None
    | _ => None
    end
  else None.

Example lax_go_version_source :
  modfile_laxGoVersionRE = B "^v?(([1-9][0-9]*)\.(0|[1-9][0-9]*))([^0-9].*)$".
Proof. reflexivity. Qed.

(* ToolchainRE *)
Definition toolchain_re (s : str) : bool :=
  str_eqb s (B "default") || str_eqb s (B "go1") || has_prefix s (B "go1.").

Example toolchain_re_source : modfile_ToolchainRE = B "^default$|^go1($|\.)".
Proof. reflexivity. Qed.

(* index of the first "\n\n" : the text before it *)
Fixpoint upto_blank_line (s : str) : str :=
  match s with
  | 10 :: ((10 :: _) as r) => []
  | c :: r => c :: upto_blank_line r
  | [] => []
  end.

Fixpoint drop_spaces (s : str) : str :=
  match s with 32 :: r => drop_spaces r | _ => s end.

Definition deprecated_word : str := B "Deprecated:".

(* deprecatedRE (see the Example below): the submatch m[1] of the leftmost match, ""
   when there is none *)
Fixpoint deprecated_scan (s : str) : str :=
  match s with
  | [] => []
  | c :: r =>
      if has_prefix s (10 :: 10 :: deprecated_word)
      then upto_blank_line (drop_spaces (skipn (2 + length deprecated_word) s))
      else deprecated_scan r
  end.

Definition deprecated_re (s : str) : str :=
  if has_prefix s deprecated_word
  then upto_blank_line (drop_spaces (skipn (length deprecated_word) s))
  else deprecated_scan s.

Example deprecated_re_source :
  modfile_deprecatedRE = B "(?s)(?:^|\n\n)Deprecated: *(.*?)(?:$|\n\n)".
Proof. reflexivity. Qed.

(* ---------------------------------------------------------------- comments of a directive *)

(* parseDirectiveComment *)
Definition directive_comment (blk : option line_block) (l : line) : str :=
  let c := l_comments l in
  let c := match blk with
           | Some b => if Parse.is_nil (cm_before c) && Parse.is_nil (cm_suffix c) then b_comments b else c
           | None => c
           end in
  join [10]
    (flat_map (fun x => if has_prefix (c_token x) [47; 47]
                        then [trim_space (trim_prefix (c_token x) [47; 47])] else [])
              (cm_before c ++ cm_suffix c)).

(* parseDeprecation *)
Definition parse_deprecation (blk : option line_block) (l : line) : str :=
  deprecated_re (directive_comment blk l).

(* isIndirect *)
Definition is_indirect (l : line) : bool :=
  match cm_suffix (l_comments l) with
  | [] => false
  | c :: _ =>
      match fields (trim_prefix (c_token c) [47; 47]) with
      | [w] => str_eqb w (B "indirect")
      | w :: _ :: _ => str_eqb w (B "indirect;")
      | [] => false
      end
  end.

(* ---------------------------------------------------------------- versions *)

Definition fixer := option (str -> str -> option str).

(* dontFixRetract *)
Definition dont_fix : fixer := Some (fun _ v => Some v).

(* parseVersion: the token that replaces *s, and the version *)
Definition parse_version (fx : fixer) (path tok : str) : str * option str :=
  match parse_string tok with
  | None => (tok, None)
  | Some (t, tok1) =>
      match fx with
      | Some g => match g path t with
                   | None => (tok1, None)
                   | Some fixed => (fixed, Some fixed)
                   end
      | None => let cv := canonical_version t in
                if Parse.is_nil cv then (tok1, None) else (cv, Some cv)
      end
  end.

Definition lbrack : str := [91].
Definition rbrack : str := [93].
Definition comma : str := [44].
Definition lparen_s : str := [40].

(* parseVersionInterval: the rewritten tokens, and (low, high, remaining args) *)
Definition parse_version_interval (fx : fixer) (path : str) (toks : list str)
  : list str * option (str * str * list str) :=
  match toks with
  | [] => (toks, None)
  | t0 :: r0 =>
      if str_eqb t0 lparen_s then (toks, None)
      else if negb (str_eqb t0 lbrack) then
        let (t0', v) := parse_version fx path t0 in
        (t0' :: r0, match v with Some v => Some (v, v, r0) | None => None end)
      else
        match r0 with
        | [] => (toks, None)
        | t1 :: r1 =>
            let (t1', low) := parse_version fx path t1 in
            match low with
            | None => (t0 :: t1' :: r1, None)
            | Some low =>
                match r1 with
                | t2 :: t3 :: r3 =>
                    if str_eqb t2 comma then
                      let (t3', high) := parse_version fx path t3 in
                      let toks' := t0 :: t1' :: t2 :: t3' :: r3 in
                      match high with
                      | None => (toks', None)
                      | Some high =>
                          match r3 with
                          | t4 :: r4 => if str_eqb t4 rbrack then (toks', Some (low, high, r4)) else (toks', None)
                          | [] => (toks', None)
                          end
                      end
                    else (t0 :: t1' :: r1, None)
                | _ => (t0 :: t1' :: r1, None)
                end
            end
        end
  end.

(* rule.go IsDirectoryPath *)
Definition is_letter_ascii (c : Z) : bool := is_upper c || is_lower c.
Definition is_directory_path (ns : str) : bool :=
  str_eqb ns [46] || has_prefix ns [46; 47] || has_prefix ns [46; 92]
  || str_eqb ns [46; 46] || has_prefix ns [46; 46; 47] || has_prefix ns [46; 46; 92]
  || has_prefix ns [47] || has_prefix ns [92]
  || match ns with a :: b :: _ => is_letter_ascii a && (b =? 58) | _ => false end.

(* modulePathMajor *)
Definition module_path_major (p : str) : option str :=
  match split_path_version p with
  | (_, pm, true) => Some pm
  | (_, _, false) => None
  end.

(* ---------------------------------------------------------------- the File structure *)

Definition line_ref := (nat * option nat)%type.

Record mod_version := mkMV { mv_path : str; mv_version : str }.

Record module_d := mkModuleD { md_mod : mod_version; md_deprecated : str; md_syntax : line_ref }.
Record go_d := mkGoD { go_version : str; go_syntax : line_ref }.
Record toolchain_d := mkToolchainD { tc_name : str; tc_syntax : line_ref }.
Record godebug_d := mkGodebugD { gd_key : str; gd_value : str; gd_syntax : line_ref }.
Record require_d := mkRequireD { rq_mod : mod_version; rq_indirect : bool; rq_syntax : line_ref }.
Record exclude_d := mkExcludeD { ex_mod : mod_version; ex_syntax : line_ref }.
Record replace_d := mkReplaceD { rp_old : mod_version; rp_new : mod_version; rp_syntax : line_ref }.
Record retract_d := mkRetractD { rt_low : str; rt_high : str; rt_rationale : str; rt_syntax : line_ref }.
Record tool_d := mkToolD { tl_path : str; tl_syntax : line_ref }.
Record use_d := mkUseD { us_path : str; us_module_path : str; us_syntax : line_ref }.

(* rule.go File *)
Record file := mkFileD {
  fd_module    : option module_d;
  fd_go        : option go_d;
  fd_toolchain : option toolchain_d;
  fd_godebug   : list godebug_d;
  fd_require   : list require_d;
  fd_exclude   : list exclude_d;
  fd_replace   : list replace_d;
  fd_retract   : list retract_d;
  fd_tool      : list tool_d;
  fd_syntax    : file_syntax
}.

(* work.go WorkFile *)
Record work_file := mkWorkD {
  wf_go        : option go_d;
  wf_toolchain : option toolchain_d;
  wf_godebug   : list godebug_d;
  wf_use       : list use_d;
  wf_replace   : list replace_d;
  wf_syntax    : file_syntax
}.

Definition empty_file (s : file_syntax) : file := mkFileD None None None [] [] [] [] [] [] s.
Definition empty_work (s : file_syntax) : work_file := mkWorkD None None [] [] [] s.

Definition with_module f x := mkFileD x (fd_go f) (fd_toolchain f) (fd_godebug f) (fd_require f) (fd_exclude f) (fd_replace f) (fd_retract f) (fd_tool f) (fd_syntax f).
Definition with_go f x := mkFileD (fd_module f) x (fd_toolchain f) (fd_godebug f) (fd_require f) (fd_exclude f) (fd_replace f) (fd_retract f) (fd_tool f) (fd_syntax f).
Definition with_toolchain f x := mkFileD (fd_module f) (fd_go f) x (fd_godebug f) (fd_require f) (fd_exclude f) (fd_replace f) (fd_retract f) (fd_tool f) (fd_syntax f).
Definition with_godebug f x := mkFileD (fd_module f) (fd_go f) (fd_toolchain f) x (fd_require f) (fd_exclude f) (fd_replace f) (fd_retract f) (fd_tool f) (fd_syntax f).
Definition with_require f x := mkFileD (fd_module f) (fd_go f) (fd_toolchain f) (fd_godebug f) x (fd_exclude f) (fd_replace f) (fd_retract f) (fd_tool f) (fd_syntax f).
Definition with_exclude f x := mkFileD (fd_module f) (fd_go f) (fd_toolchain f) (fd_godebug f) (fd_require f) x (fd_replace f) (fd_retract f) (fd_tool f) (fd_syntax f).
Definition with_replace f x := mkFileD (fd_module f) (fd_go f) (fd_toolchain f) (fd_godebug f) (fd_require f) (fd_exclude f) x (fd_retract f) (fd_tool f) (fd_syntax f).
Definition with_retract f x := mkFileD (fd_module f) (fd_go f) (fd_toolchain f) (fd_godebug f) (fd_require f) (fd_exclude f) (fd_replace f) x (fd_tool f) (fd_syntax f).
Definition with_tool f x := mkFileD (fd_module f) (fd_go f) (fd_toolchain f) (fd_godebug f) (fd_require f) (fd_exclude f) (fd_replace f) (fd_retract f) x (fd_syntax f).
Definition with_syntax f x := mkFileD (fd_module f) (fd_go f) (fd_toolchain f) (fd_godebug f) (fd_require f) (fd_exclude f) (fd_replace f) (fd_retract f) (fd_tool f) x.

(* the outcome of interpreting one line: the new structure, the rewritten arguments, and
   whether an error was appended (every call of add appends at most one error, at
   line.Start) *)
Record step (F : Type) := mkStep { st_file : F; st_args : list str; st_err : bool }.
Arguments mkStep {F}.
Arguments st_file {F}.
Arguments st_args {F}.
Arguments st_err {F}.

Definition ok_step {F} (f : F) (args : list str) : step F := mkStep f args false.
Definition err_step {F} (f : F) (args : list str) : step F := mkStep f args true.

Definition is_verb (v : str) (name : String.string) : bool := str_eqb v (B name).
Arguments is_verb v name%string_scope.

(* the "go" case, shared by File.add and WorkFile.add ([lax] only for go.mod) *)
Definition add_go {F} (cur : option go_d) (set : go_d -> F) (f : F) (lax : bool)
           (ref : line_ref) (args : list str) : step F :=
  match cur with
  | Some _ => err_step f args
  | None =>
      match args with
      | [a] =>
          if go_version_re a then ok_step (set (mkGoD a ref)) args
          else if lax then
            match lax_go_version a with
            | Some m1 => ok_step (set (mkGoD m1 ref)) [m1]
            | None => err_step f args
            end
          else err_step f args
      | _ => err_step f args
      end
  end.

Definition add_toolchain {F} (cur : option toolchain_d) (set : toolchain_d -> F) (f : F)
           (ref : line_ref) (args : list str) : step F :=
  match cur with
  | Some _ => err_step f args
  | None =>
      match args with
      | [a] => if toolchain_re a then ok_step (set (mkToolchainD a ref)) args else err_step f args
      | _ => err_step f args
      end
  end.

Definition add_godebug {F} (cur : list godebug_d) (set : list godebug_d -> F) (f : F)
           (ref : line_ref) (args : list str) : step F :=
  match args with
  | [a] =>
      if contains_any a [34; 96; 39; 44] then err_step f args
      else match cut_eq a with
           | Some (k, v) => ok_step (set (cur ++ [mkGodebugD k v ref])) args
           | None => err_step f args
           end
  | _ => err_step f args
  end.

(* parseReplace *)
Definition parse_replace (fx : fixer) (verb : str) (ref : line_ref) (args : list str)
  : list str * option replace_d :=
  let n := length args in
  let arrow := if Nat.leb 2 n && str_eqb (nth_tok 1 args) (B "=>") then 1%nat else 2%nat in
  if Nat.ltb n (arrow + 2) || Nat.ltb (arrow + 3) n || negb (str_eqb (nth_tok arrow args) (B "=>"))
  then (args, None)
  else
    match parse_string (nth_tok 0 args) with
    | None => (args, None)
    | Some (s, tok0) =>
        let args := set_nth 0 tok0 args in
        match module_path_major s with
        | None => (args, None)
        | Some path_major =>
            (* the old version, present when the arrow is the third token *)
            let old :=
              if Nat.eqb arrow 2 then
                let (tok1, v) := parse_version fx s (nth_tok 1 args) in
                let args := set_nth 1 tok1 args in
                match v with
                | None => (args, None)
                | Some v => if check_path_major v path_major then (args, Some v) else (args, None)
                end
              else (args, Some []) in
            match old with
            | (args, None) => (args, None)
            | (args, Some v) =>
                match parse_string (nth_tok (arrow + 1) args) with
                | None => (args, None)
                | Some (ns, tokn) =>
                    let args := set_nth (arrow + 1) tokn args in
                    if Nat.eqb n (arrow + 2) then
                      if negb (is_directory_path ns) then (args, None)
                      else if contains_byte 92 ns then (args, None)
                      else (args, Some (mkReplaceD (mkMV s v) (mkMV ns []) ref))
                    else
                      let (tokv, nv) := parse_version fx ns (nth_tok (arrow + 2) args) in
                      let args := set_nth (arrow + 2) tokv args in
                      match nv with
                      | None => (args, None)
                      | Some nv =>
                          if is_directory_path ns then (args, None)
                          else (args, Some (mkReplaceD (mkMV s v) (mkMV ns nv) ref))
                      end
                end
            end
        end
    end.

(* File.add *)
Definition add (strict : bool) (fx : fixer) (f : file) (blk : option line_block) (l : line)
           (ref : line_ref) (verb : str) (args : list str) : step file :=
  if negb strict && negb (is_verb verb "go" || is_verb verb "module" || is_verb verb "retract" || is_verb verb "require")
  then ok_step f args
  else if is_verb verb "go" then add_go (fd_go f) (fun g => with_go f (Some g)) f (negb strict) ref args
  else if is_verb verb "toolchain" then
    add_toolchain (fd_toolchain f) (fun t => with_toolchain f (Some t)) f ref args
  else if is_verb verb "module" then
    match fd_module f with
    | Some _ => err_step f args
    | None =>
        let dep := parse_deprecation blk l in
        let f1 := with_module f (Some (mkModuleD (mkMV [] []) dep ref)) in
        match args with
        | [a] =>
            match parse_string a with
            | None => err_step f1 args
            | Some (s, tok) => ok_step (with_module f (Some (mkModuleD (mkMV s []) dep ref))) [tok]
            end
        | _ => err_step f1 args
        end
    end
  else if is_verb verb "godebug" then
    add_godebug (fd_godebug f) (fun g => with_godebug f g) f ref args
  else if is_verb verb "require" || is_verb verb "exclude" then
    match args with
    | [a0; a1] =>
        match parse_string a0 with
        | None => err_step f args
        | Some (s, tok0) =>
            let (tok1, v) := parse_version fx s a1 in
            let args' := [tok0; tok1] in
            match v with
            | None => err_step f args'
            | Some v =>
                match module_path_major s with
                | None => err_step f args'
                | Some pm =>
                    if negb (check_path_major v pm) then err_step f args'
                    else if is_verb verb "require"
                    then ok_step (with_require f (fd_require f ++ [mkRequireD (mkMV s v) (is_indirect l) ref])) args'
                    else ok_step (with_exclude f (fd_exclude f ++ [mkExcludeD (mkMV s v) ref])) args'
                end
            end
        end
    | _ => err_step f args
    end
  else if is_verb verb "replace" then
    match parse_replace fx verb ref args with
    | (args', Some r) => ok_step (with_replace f (fd_replace f ++ [r])) args'
    | (args', None) => err_step f args'
    end
  else if is_verb verb "retract" then
    let rationale := directive_comment blk l in
    match parse_version_interval dont_fix [] args with
    | (args', None) => if strict then err_step f args' else ok_step f args'
    | (args', Some (low, high, rest)) =>
        if negb (Parse.is_nil rest) && strict then err_step f args'
        else ok_step (with_retract f (fd_retract f ++ [mkRetractD low high rationale ref])) args'
    end
  else if is_verb verb "tool" then
    match args with
    | [a] =>
        match parse_string a with
        | None => err_step f args
        | Some (s, tok) => ok_step (with_tool f (fd_tool f ++ [mkToolD s ref])) [tok]
        end
    | _ => err_step f args
    end
  else err_step f args.

Definition wf_with_go f x := mkWorkD x (wf_toolchain f) (wf_godebug f) (wf_use f) (wf_replace f) (wf_syntax f).
Definition wf_with_toolchain f x := mkWorkD (wf_go f) x (wf_godebug f) (wf_use f) (wf_replace f) (wf_syntax f).
Definition wf_with_godebug f x := mkWorkD (wf_go f) (wf_toolchain f) x (wf_use f) (wf_replace f) (wf_syntax f).
Definition wf_with_use f x := mkWorkD (wf_go f) (wf_toolchain f) (wf_godebug f) x (wf_replace f) (wf_syntax f).
Definition wf_with_replace f x := mkWorkD (wf_go f) (wf_toolchain f) (wf_godebug f) (wf_use f) x (wf_syntax f).
Definition wf_with_syntax f x := mkWorkD (wf_go f) (wf_toolchain f) (wf_godebug f) (wf_use f) (wf_replace f) x.

(* WorkFile.add *)
Definition add_work (fx : fixer) (f : work_file) (l : line) (ref : line_ref) (verb : str)
           (args : list str) : step work_file :=
  if is_verb verb "go" then add_go (wf_go f) (fun g => wf_with_go f (Some g)) f false ref args
  else if is_verb verb "toolchain" then
    add_toolchain (wf_toolchain f) (fun t => wf_with_toolchain f (Some t)) f ref args
  else if is_verb verb "godebug" then
    add_godebug (wf_godebug f) (fun g => wf_with_godebug f g) f ref args
  else if is_verb verb "use" then
    match args with
    | [a] =>
        match parse_string a with
        | None => err_step f args
        | Some (s, tok) => ok_step (wf_with_use f (wf_use f ++ [mkUseD s [] ref])) [tok]
        end
    | _ => err_step f args
    end
  else if is_verb verb "replace" then
    match parse_replace fx verb ref args with
    | (args', Some r) => ok_step (wf_with_replace f (wf_replace f ++ [r])) args'
    | (args', None) => err_step f args'
    end
  else err_step f args.

(* ---------------------------------------------------------------- the statement loop *)

Inductive dresult (F : Type) :=
| DOk (f : F)
| DErrs (errs : list position)                        (* errors of the directive layer *)
| DSyntax (errs : list (position * err_class))        (* errors of the syntax layer *)
| DPanic
| DFuel.
Arguments DOk {F} f.
Arguments DErrs {F} errs.
Arguments DSyntax {F} errs.
Arguments DPanic {F}.
Arguments DFuel {F}.

Definition line_set_token (l : line) (t : list str) : line :=
  mkLine (l_comments l) (l_start l) t (l_inblock l) (l_end l).

(* the loop state: structure, statements rebuilt so far (reversed), errors (reversed),
   and whether an index expression of the Go code faulted *)
Record loop_state (F : Type) := mkLS {
  lp_file : F; lp_stmts_r : list expr; lp_errs_r : list position; lp_panic : bool }.
Arguments mkLS {F}.
Arguments lp_file {F}.
Arguments lp_stmts_r {F}.
Arguments lp_errs_r {F}.
Arguments lp_panic {F}.

Definition add_err {F} (s : step F) (p : position) (errs_r : list position) : list position :=
  if st_err s then p :: errs_r else errs_r.

(* the lines of a block *)
Fixpoint block_lines {F} (addf : F -> line -> line_ref -> list str -> step F)
         (i : nat) (j : nat) (ls : list line) (f : F) (errs_r : list position) (acc : list line)
  : F * list position * list line :=
  match ls with
  | [] => (f, errs_r, frev acc)
  | l :: r =>
      let s := addf f l (i, Some j) (l_token l) in
      block_lines addf i (S j) r (st_file s) (add_err s (l_start l) errs_r)
                  (line_set_token l (st_args s) :: acc)
  end.

(* one statement of parseToFile / ParseWork.  [known] says whether a block verb is
   interpreted; [strict] whether unknown blocks are errors. *)
Definition stmt_step {F} (addl : F -> option line_block -> line -> line_ref -> str -> list str -> step F)
           (known : str -> bool) (strict : bool) (i : nat) (x : expr) (st : loop_state F) : loop_state F :=
  match x with
  | ECommentBlock _ => mkLS (lp_file st) (x :: lp_stmts_r st) (lp_errs_r st) (lp_panic st)
  | ELine l =>
      match l_token l with
      | [] => mkLS (lp_file st) (x :: lp_stmts_r st) (lp_errs_r st) true        (* x.Token[0] *)
      | verb :: args =>
          let s := addl (lp_file st) None l (i, None) verb args in
          mkLS (st_file s) (ELine (line_set_token l (verb :: st_args s)) :: lp_stmts_r st)
               (add_err s (l_start l) (lp_errs_r st)) (lp_panic st)
      end
  | EBlock b =>
      match b_token b with
      | [] => mkLS (lp_file st) (x :: lp_stmts_r st) (lp_errs_r st) true        (* x.Token[0] *)
      | [verb] =>
          if known verb then
            match block_lines (fun f l ref args => addl f (Some b) l ref verb args) i O (b_line b)
                              (lp_file st) (lp_errs_r st) [] with
            | (f', errs', ls') =>
                mkLS f' (EBlock (mkBlock (b_comments b) (b_start b) (b_lparen b) (b_token b) ls' (b_rparen b))
                         :: lp_stmts_r st) errs' (lp_panic st)
            end
          else mkLS (lp_file st) (x :: lp_stmts_r st)
                    (if strict then b_start b :: lp_errs_r st else lp_errs_r st) (lp_panic st)
      | _ => mkLS (lp_file st) (x :: lp_stmts_r st)
                  (if strict then b_start b :: lp_errs_r st else lp_errs_r st) (lp_panic st)
      end
  end.

Fixpoint stmts_loop {F} (step1 : nat -> expr -> loop_state F -> loop_state F)
         (i : nat) (xs : list expr) (st : loop_state F) : loop_state F :=
  match xs with
  | [] => st
  | x :: r => stmts_loop step1 (S i) r (step1 i x st)
  end.

(* ---------------------------------------------------------------- fixRetract *)

Fixpoint nth_expr (i : nat) (l : list expr) : option expr :=
  match l, i with
  | [], _ => None
  | x :: _, O => Some x
  | _ :: r, S k => nth_expr k r
  end.

Fixpoint nth_line (i : nat) (l : list line) : option line :=
  match l, i with
  | [], _ => None
  | x :: _, O => Some x
  | _ :: r, S k => nth_line k r
  end.

(* the line a Syntax pointer refers to *)
Definition get_line (s : file_syntax) (ref : line_ref) : option line :=
  match nth_expr (fst ref) (f_stmt s), snd ref with
  | Some (ELine l), None => Some l
  | Some (EBlock b), Some j => nth_line j (b_line b)
  | _, _ => None
  end.

Fixpoint update_nth {A} (i : nat) (g : A -> A) (l : list A) : list A :=
  match l, i with
  | [], _ => []
  | x :: r, O => g x :: r
  | x :: r, S k => x :: update_nth k g r
  end.

Definition set_line (s : file_syntax) (ref : line_ref) (l' : line) : file_syntax :=
  mkFile (f_name s) (f_comments s)
    (update_nth (fst ref)
       (fun x => match x, snd ref with
                 | ELine _, None => ELine l'
                 | EBlock b, Some j =>
                     EBlock (mkBlock (b_comments b) (b_start b) (b_lparen b) (b_token b)
                                     (update_nth j (fun _ => l') (b_line b)) (b_rparen b))
                 | _, _ => x
                 end) (f_stmt s)).

(* the loop of fixRetract over f.Retract; [path] is not empty *)
Fixpoint fix_retract_loop (fx : fixer) (path : str) (rs : list retract_d) (syn : file_syntax)
         (acc : list retract_d) (errs_r : list position) (panic : bool)
  : list retract_d * file_syntax * list position * bool :=
  match rs with
  | [] => (frev acc, syn, errs_r, panic)
  | r :: rest =>
      match get_line syn (rt_syntax r) with
      | None => (frev acc ++ rs, syn, errs_r, true)
      | Some l =>
          match l_token l with
          | [] => (frev acc ++ rs, syn, errs_r, true)                            (* args[0] *)
          | t0 :: targs =>
              let skip := str_eqb t0 (B "retract") in
              let args := if skip then targs else t0 :: targs in
              let (args', res) := parse_version_interval fx path args in
              let l' := line_set_token l (if skip then t0 :: args' else args') in
              let syn' := set_line syn (rt_syntax r) l' in
              match res with
              | None =>
                  fix_retract_loop fx path rest syn'
                    (mkRetractD [] [] (rt_rationale r) (rt_syntax r) :: acc) (l_start l :: errs_r) panic
              | Some (low, high, _) =>
                  fix_retract_loop fx path rest syn'
                    (mkRetractD low high (rt_rationale r) (rt_syntax r) :: acc) errs_r panic
              end
          end
      end
  end.

(* fixRetract *)
Definition fix_retract (fx : fixer) (f : file) (errs_r : list position) (panic : bool)
  : file * list position * bool :=
  match fx with
  | None => (f, errs_r, panic)
  | Some _ =>
      let path := match fd_module f with Some m => mv_path (md_mod m) | None => [] end in
      match fd_retract f with
      | [] => (f, errs_r, panic)
      | r :: _ =>
          if Parse.is_nil path then
            match get_line (fd_syntax f) (rt_syntax r) with
            | Some l => (f, l_start l :: errs_r, panic)
            | None => (f, errs_r, true)
            end
          else
            match fix_retract_loop fx path (fd_retract f) (fd_syntax f) [] errs_r panic with
            | (rs, syn, errs', panic') => (with_syntax (with_retract f rs) syn, errs', panic')
            end
      end
  end.

(* ---------------------------------------------------------------- Parse, ParseLax, ParseWork *)

Definition known_mod_block (verb : str) : bool :=
  is_verb verb "module" || is_verb verb "godebug" || is_verb verb "require" || is_verb verb "exclude"
  || is_verb verb "replace" || is_verb verb "retract" || is_verb verb "tool".

Definition known_work_block (verb : str) : bool :=
  is_verb verb "godebug" || is_verb verb "use" || is_verb verb "replace".

(* parseToFile on a parsed syntax tree *)
Definition file_of_syntax (strict : bool) (fx : fixer) (syn : file_syntax) : dresult file :=
  let st := stmts_loop (stmt_step (fun f blk l ref verb args => add strict fx f blk l ref verb args)
                                  known_mod_block strict)
                       O (f_stmt syn) (mkLS (empty_file syn) [] [] false) in
  let f1 := with_syntax (lp_file st) (mkFile (f_name syn) (f_comments syn) (frev (lp_stmts_r st))) in
  match fix_retract fx f1 (lp_errs_r st) (lp_panic st) with
  | (f2, errs_r, panic) =>
      if panic then DPanic
      else match errs_r with
           | [] => DOk f2
           | _ => DErrs (frev errs_r)
           end
  end.

Definition work_of_syntax (fx : fixer) (syn : file_syntax) : dresult work_file :=
  let st := stmts_loop (stmt_step (fun f _ l ref verb args => add_work fx f l ref verb args)
                                  known_work_block true)
                       O (f_stmt syn) (mkLS (empty_work syn) [] [] false) in
  let f1 := wf_with_syntax (lp_file st) (mkFile (f_name syn) (f_comments syn) (frev (lp_stmts_r st))) in
  if lp_panic st then DPanic
  else match lp_errs_r st with
       | [] => DOk f1
       | errs_r => DErrs (frev errs_r)
       end.

Definition lift_parse {F} (k : file_syntax -> dresult F) (r : parse_result) : dresult F :=
  match r with
  | POk s => k s
  | PErrs e => DSyntax e
  | PPanic => DPanic
  | POutOfFuel => DFuel
  end.

(* modfile.Parse (strict = true), modfile.ParseLax (strict = false) *)
Definition parse_to_file (strict : bool) (fx : fixer) (data : str) : dresult file :=
  lift_parse (file_of_syntax strict fx) (parse data).

(* modfile.ParseWork *)
Definition parse_work (fx : fixer) (data : str) : dresult work_file :=
  lift_parse (work_of_syntax fx) (parse data).
