(* Round trip, part 12g: format_preserves_directives for go.mod files without a version
   fixer: the directive values of a strict-accepted well-formed file are the same after
   formatting. *)
From Verif.Base Require Import Bytes Utf8 Strconv QuoteProofs.
From Verif.Semver Require Import Spec Model.
From Verif.Module Require Import Path.
From Verif.Modfile Require Import Syntax Lex Parse Print Directives ProofsLex ProofsDirectives ProofsRound RoundRows
  RoundParse RoundParse5 RoundLexPure4 RoundLexB1 RoundMain1 RoundTrim RoundTrim2 RoundTree RoundTree2 RoundTree3
  RoundPrint RoundPrint3 RoundMain2 RoundMain3 RoundQuote RoundSemver RoundDir1 RoundDir2 RoundDir3 RoundDir4 RoundDir5.

(* ---------------------------------------------------------------- blocks keep a Suffix only without lines *)

Definition gstate_sfx (st : gstate) : Prop :=
  match st with
  | GTop _ stmts_r => Forall sfx_inv stmts_r
  | GBlk _ _ _ _ _ stmts_r => Forall sfx_inv stmts_r
  end.

Lemma push_acb_sfx cb stmts_r : Forall sfx_inv stmts_r -> Forall sfx_inv (push_acb cb stmts_r).
Proof. destruct cb; cbn; auto. intros H. constructor; [exact I|exact H]. Qed.

Lemma group_sfx_inv : forall rows st a, gstate_sfx st -> group st rows = Some a -> Forall sfx_inv a.
Proof.
  induction rows as [|row rows IH]; intros st a Hst Hg.
  - destruct st as [cb stmts_r|]; cbn in Hg; [|discriminate]. injection Hg as <-. apply Forall_rev. apply push_acb_sfx. exact Hst.
  - cbn [group] in Hg. destruct st as [cb stmts_r|before bt lsfx coms_r lines_r stmts_r]; cbn [gstate_sfx] in Hst.
    + destruct row as [toks sfx|c|].
      * destruct toks as [|t0 more]; [discriminate|]. destruct (scan [t0] more).
        -- refine (IH _ _ _ Hg). cbn. constructor; [exact I|exact Hst].
        -- refine (IH _ _ _ Hg). exact Hst.
        -- refine (IH _ _ _ Hg). cbn. constructor; [right; reflexivity|exact Hst].
      * refine (IH _ _ _ Hg). exact Hst.
      * refine (IH _ _ _ Hg). cbn. apply push_acb_sfx. exact Hst.
    + destruct row as [toks sfx|c|].
      * destruct toks as [|t0 more]; [discriminate|]. destruct (is_rp t0).
        -- destruct more; [|discriminate]. refine (IH _ _ _ Hg). cbn. constructor; [left; reflexivity|exact Hst].
        -- refine (IH _ _ _ Hg). exact Hst.
      * refine (IH _ _ _ Hg). exact Hst.
      * refine (IH _ _ _ Hg). exact Hst.
Qed.

Lemma parse_wf2 data s : parse data = POk s ->
  exists a, zfile s = efile a /\ Forall astmt_ok a /\ Forall sfx_inv a.
Proof.
  intros H. destruct (parse_group data s H) as (ts & a & El & Hrs & Hw & Hg & Hz).
  exists a. split; [exact Hz|]. split.
  - apply (group_wf (arows [] ts) (GTop None []) a); [|split; [exact I|constructor]|exact Hg].
    apply (arows_ok ts [] false Hrs Hw (Forall_nil _)). split; [discriminate|congruence].
  - apply (group_sfx_inv (arows [] ts) (GTop None []) a); [constructor|exact Hg].
Qed.

(* ---------------------------------------------------------------- what add reads from comments *)

Definition ind (sfx : list str) : bool :=
  match sfx with
  | [] => false
  | t :: _ =>
      match fields (trim_prefix t [47; 47]) with
      | [w] => str_eqb w (B "indirect")
      | w :: _ :: _ => str_eqb w (B "indirect;")
      | [] => false
      end
  end.

Lemma is_indirect_ind l : is_indirect l = ind (map c_token (cm_suffix (l_comments l))).
Proof. unfold is_indirect, ind. destruct (cm_suffix (l_comments l)); reflexivity. Qed.

Definition dc (toks : list str) : str :=
  join [10] (flat_map (fun t => if has_prefix t [47; 47] then [trim_space (trim_prefix t [47; 47])] else []) toks).

Lemma flat_map_tok (g : str -> list str) cs : flat_map (fun x => g (c_token x)) cs = flat_map g (map c_token cs).
Proof. induction cs as [|c cs IH]; [reflexivity|]. cbn [flat_map map]. rewrite IH. reflexivity. Qed.

Lemma directive_comment_dc blk l :
  directive_comment blk l =
  let c := l_comments l in
  let c := match blk with
           | Some b => if Parse.is_nil (cm_before c) && Parse.is_nil (cm_suffix c) then b_comments b else c
           | None => c
           end in
  dc (map c_token (cm_before c) ++ map c_token (cm_suffix c)).
Proof.
  unfold directive_comment, dc. cbv zeta. rewrite <- map_app.
  rewrite <- (flat_map_tok (fun t => if has_prefix t [47; 47] then [trim_space (trim_prefix t [47; 47])] else [])). reflexivity.
Qed.

Lemma trim_prefix_ss t : has_prefix t [47; 47] = true -> trim_prefix t [47; 47] = skipn 2 t.
Proof. intros H. unfold trim_prefix. rewrite H. reflexivity. Qed.

Lemma dc_piece c : bcom_ok c ->
  (if has_prefix (trim_space c) [47; 47] then [trim_space (trim_prefix (trim_space c) [47; 47])] else []) =
  (if has_prefix c [47; 47] then [trim_space (trim_prefix c [47; 47])] else []).
Proof.
  intros [->|H]; [reflexivity|]. destruct (trim_space_comment c H) as ((Hp & _) & _). pose proof H as (Hp0 & _).
  rewrite Hp, Hp0, (trim_prefix_ss _ Hp), (trim_prefix_ss _ Hp0), (trim_skip2 c H). reflexivity.
Qed.

Lemma dc_tcoms cs : Forall bcom_ok cs -> dc (tcoms cs) = dc cs.
Proof.
  intros H. unfold dc. f_equal. induction H as [|c cs Hc Hcs IH]; [reflexivity|]. cbn [tcoms map flat_map].
  rewrite (dc_piece c Hc). f_equal. exact IH.
Qed.

Lemma ind_tcoms s : sfx_ok s -> ind (tcoms s) = ind s.
Proof.
  intros (H & Hl). destruct s as [|c s]; [reflexivity|]. cbn [tcoms map ind]. pose proof (Forall_inv H) as Hc.
  destruct (trim_space_comment c Hc) as ((Hp & _) & _). pose proof Hc as (Hp0 & _).
  rewrite (trim_prefix_ss _ Hp), (trim_prefix_ss _ Hp0), (fields_skip2 c Hc). reflexivity.
Qed.

(* comments of the tree before and after print and reparse: the same tokens, trimmed *)
Definition trel (c1 c2 : comments) : Prop :=
  map c_token (cm_before c2) = tcoms (map c_token (cm_before c1)) /\
  map c_token (cm_suffix c2) = tcoms (map c_token (cm_suffix c1)) /\
  Forall bcom_ok (map c_token (cm_before c1)) /\ sfx_ok (map c_token (cm_suffix c1)).

Lemma is_nil_map {A B} (g : A -> B) l : Parse.is_nil (map g l) = Parse.is_nil l.
Proof. destruct l; reflexivity. Qed.

Lemma trel_nil c1 c2 : trel c1 c2 ->
  Parse.is_nil (cm_before c2) && Parse.is_nil (cm_suffix c2) = Parse.is_nil (cm_before c1) && Parse.is_nil (cm_suffix c1).
Proof.
  intros (A & B & _). apply (f_equal (@length str)) in A, B. unfold tcoms in A, B. rewrite !map_length in A, B.
  destruct (cm_before c1), (cm_before c2), (cm_suffix c1), (cm_suffix c2); cbn in *; try lia; reflexivity.
Qed.

Lemma trel_dc c1 c2 : trel c1 c2 ->
  dc (map c_token (cm_before c2) ++ map c_token (cm_suffix c2)) = dc (map c_token (cm_before c1) ++ map c_token (cm_suffix c1)).
Proof.
  intros (A & B & Hb & Hs). rewrite A, B. unfold tcoms. rewrite <- map_app. apply dc_tcoms.
  apply Forall_app. split; [exact Hb|apply sfx_bcom; exact Hs].
Qed.

Lemma ctx_of_trel blk1 l1 blk2 l2 : trel (l_comments l1) (l_comments l2) ->
  match blk1, blk2 with
  | None, None => True
  | Some b1, Some b2 => trel (b_comments b1) (b_comments b2)
  | _, _ => False
  end -> ctx_eq blk1 l1 blk2 l2.
Proof.
  intros Hl Hb. split.
  - rewrite !is_indirect_ind. destruct Hl as (_ & B & _ & Hs). rewrite B. symmetry. apply ind_tcoms. exact Hs.
  - rewrite !directive_comment_dc. cbv zeta.
    destruct blk1 as [b1|], blk2 as [b2|]; try contradiction.
    + rewrite (trel_nil _ _ Hl). destruct (Parse.is_nil (cm_before (l_comments l1)) && Parse.is_nil (cm_suffix (l_comments l1))).
      * symmetry. apply trel_dc. exact Hb.
      * symmetry. apply trel_dc. exact Hl.
    + symmetry. apply trel_dc. exact Hl.
Qed.

(* ---------------------------------------------------------------- yrel from the lean trees *)

Lemma tok_of_z cs ts : map zc cs = map ec ts -> map c_token cs = ts.
Proof.
  intros H. apply (f_equal (map c_token)) in H. rewrite !map_map in H. cbn [zc ec c_token] in H.
  rewrite map_id in H. exact H.
Qed.

Lemma trel_lines inb l1 l2 first al : zline l1 = eline inb al -> zline l2 = eline inb (norm_line al) -> aline_ok first al ->
  l_token l2 = l_token l1 /\ trel (l_comments l1) (l_comments l2).
Proof.
  intros H1 H2 ((Hb & _) & _ & _ & Hs).
  assert (T1 : l_token l1 = al_toks al) by (apply (f_equal l_token) in H1; exact H1).
  assert (T2 : l_token l2 = al_toks al) by (apply (f_equal l_token) in H2; exact H2).
  assert (B1 : map zc (cm_before (l_comments l1)) = map ec (al_before al)) by (apply (f_equal (fun l => cm_before (l_comments l))) in H1; exact H1).
  assert (S1 : map zc (cm_suffix (l_comments l1)) = map ec (al_suffix al)) by (apply (f_equal (fun l => cm_suffix (l_comments l))) in H1; exact H1).
  assert (B2 : map zc (cm_before (l_comments l2)) = map ec (tcoms (al_before al))) by (apply (f_equal (fun l => cm_before (l_comments l))) in H2; exact H2).
  assert (S2 : map zc (cm_suffix (l_comments l2)) = map ec (tcoms (al_suffix al))) by (apply (f_equal (fun l => cm_suffix (l_comments l))) in H2; exact H2).
  apply tok_of_z in B1, S1, B2, S2. split; [congruence|]. unfold trel. rewrite B1, S1, B2, S2. auto.
Qed.

Lemma lrel_lines b1 b2 : trel (b_comments b1) (b_comments b2) ->
  forall als first ls1 ls2, map zline ls1 = map (eline true) als ->
  map zline ls2 = map (eline true) (map norm_line als) -> alines_ok first als ->
  Forall2 (lrel (Some b1) (Some b2)) ls1 ls2.
Proof.
  intros Hb. induction als as [|al als IH]; intros first ls1 ls2 L1 L2 Hl.
  - destruct ls1; [|discriminate]. destruct ls2; [|discriminate]. constructor.
  - destruct ls1 as [|l1 ls1]; [discriminate|]. destruct ls2 as [|l2 ls2]; [discriminate|]. cbn [map] in L1, L2.
    apply cons_eq_inv in L1 as (L1a & L1b). apply cons_eq_inv in L2 as (L2a & L2b). destruct Hl as (Hal & Hals).
    destruct (trel_lines true l1 l2 first al L1a L2a Hal) as (A & B).
    constructor; [split; [exact A|apply ctx_of_trel; [exact B|exact Hb]]|eapply IH; eauto].
Qed.

Lemma yrel_lean y1 x2 a : zexpr y1 = estmt a -> zexpr x2 = estmt (norm a) -> astmt_ok a -> sfx_inv a -> yrel y1 x2.
Proof.
  intros H1 H2 Hok Hsi. destruct a as [al|ab|cs]; cbn [norm estmt] in *.
  - destruct y1 as [l1| |]; try discriminate. destruct x2 as [l2| |]; try discriminate. cbn [zexpr] in *.
    assert (Z1 : zline l1 = eline false al) by congruence. assert (Z2 : zline l2 = eline false (norm_line al)) by congruence.
    destruct Hok as (Hb & Hsc & Hlt & Hs).
    assert (T1 : l_token l1 = al_toks al) by (apply (f_equal l_token) in Z1; exact Z1).
    assert (T2 : l_token l2 = al_toks al) by (apply (f_equal l_token) in Z2; exact Z2).
    assert (B1 : map zc (cm_before (l_comments l1)) = map ec (al_before al)) by (apply (f_equal (fun l => cm_before (l_comments l))) in Z1; exact Z1).
    assert (S1 : map zc (cm_suffix (l_comments l1)) = map ec (al_suffix al)) by (apply (f_equal (fun l => cm_suffix (l_comments l))) in Z1; exact Z1).
    assert (B2 : map zc (cm_before (l_comments l2)) = map ec (tcoms (al_before al))) by (apply (f_equal (fun l => cm_before (l_comments l))) in Z2; exact Z2).
    assert (S2 : map zc (cm_suffix (l_comments l2)) = map ec (tcoms (al_suffix al))) by (apply (f_equal (fun l => cm_suffix (l_comments l))) in Z2; exact Z2).
    apply tok_of_z in B1, S1, B2, S2. cbn [yrel]. split; [congruence|]. apply ctx_of_trel; [|exact I].
    unfold trel. rewrite B1, S1, B2, S2.
    split; [reflexivity|]. split; [reflexivity|]. split; [apply Forall_comment_bcom; exact Hb|exact Hs].
  - destruct y1 as [|b1|]; try discriminate. destruct x2 as [|b2|]; try discriminate. cbn [zexpr] in *.
    assert (Z1 : zblock b1 = eblock ab) by congruence. assert (Z2 : zblock b2 = eblock (norm_block ab)) by congruence.
    destruct Hok as (Hb & Hlt & Hh & Hlsx & Hl & Hrb & Hs). cbn [yrel].
    split; [apply (f_equal b_token) in Z1, Z2; cbn in Z1, Z2; congruence|].
    assert (L1 : map zline (b_line b1) = map (eline true) (ab_lines ab)) by (apply (f_equal b_line) in Z1; exact Z1).
    assert (L2 : map zline (b_line b2) = map (eline true) (map norm_line (ab_lines ab))) by (apply (f_equal b_line) in Z2; exact Z2).
    destruct (ab_lines ab) as [|al0 als0] eqn:Elines.
    { destruct (b_line b1); [|discriminate]. destruct (b_line b2); [|discriminate]. constructor. }
    cbn [sfx_inv] in Hsi. destruct Hsi as [Hsi|Hsi]; [|congruence].
    assert (B1 : map zc (cm_before (b_comments b1)) = map ec (ab_before ab)) by (apply (f_equal (fun b => cm_before (b_comments b))) in Z1; exact Z1).
    assert (S1 : map zc (cm_suffix (b_comments b1)) = map ec (ab_sfx ab)) by (apply (f_equal (fun b => cm_suffix (b_comments b))) in Z1; exact Z1).
    assert (B2 : map zc (cm_before (b_comments b2)) = map ec (tcoms (ab_before ab))) by (apply (f_equal (fun b => cm_before (b_comments b))) in Z2; exact Z2).
    assert (S2 : map zc (cm_suffix (b_comments b2)) = map ec []) by (apply (f_equal (fun b => cm_suffix (b_comments b))) in Z2; exact Z2).
    apply tok_of_z in B1, S1, B2, S2.
    apply (lrel_lines b1 b2) with (als := al0 :: als0) (first := true); auto.
    unfold trel. rewrite B1, S1, B2, S2, Hsi.
    split; [reflexivity|]. split; [reflexivity|]. split; [apply Forall_comment_bcom; exact Hb|apply sfx_ok_nil].
  - destruct y1 as [| |c1]; try discriminate. destruct x2 as [| |c2]; try discriminate. exact I.
Qed.

Lemma yrel_lean_all : forall ys xs2 al, map zexpr ys = map estmt al -> map zexpr xs2 = map estmt (map norm al) ->
  Forall astmt_ok al -> Forall sfx_inv al -> Forall2 yrel ys xs2.
Proof.
  induction ys as [|y ys IH]; intros xs2 al H1 H2 Hok Hsi.
  - destruct al; [|discriminate]. destruct xs2; [|discriminate]. constructor.
  - destruct al as [|a al]; [discriminate|]. destruct xs2 as [|x2 xs2]; [discriminate|]. cbn [map] in H1, H2.
    apply cons_eq_inv in H1 as (H1a & H1b). apply cons_eq_inv in H2 as (H2a & H2b).
    inversion Hok; subst. inversion Hsi; subst.
    constructor; [eapply yrel_lean; eauto|eapply IH; eauto].
Qed.

(* ---------------------------------------------------------------- the theorem *)

Theorem format_preserves_directives_mod data f :
  parse_to_file true None data = DOk f -> wf_file f ->
  exists f', parse_to_file true None (format (fd_syntax f)) = DOk f' /\ vals f' = vals f.
Proof.
  unfold parse_to_file. intros H Hwf. destruct (parse data) as [s| | |] eqn:Hp; try discriminate. cbn [lift_parse] in H.
  destruct (parse_wf2 data s Hp) as (a & Hz & Hok & Hsi).
  destruct (file_of_syntax_ok s f H) as (He & Hpn & Ef). cbv zeta in *.
  set (st := stmts_loop (step_of true None) O (f_stmt s) (mkLS (empty_file s) [] [] false)) in *.
  assert (Hwf' : wf_file (lp_file st)) by (rewrite Ef in Hwf; exact Hwf).
  destruct (stmts_loop_rb None fixer_ok_none (f_stmt s) O (mkLS (empty_file s) [] [] false) He Hpn Hwf') as (ys & Eys & Hrb).
  change (step2 None) with (step_of true None) in Eys. fold st in Eys. cbn [lp_stmts_r] in Eys. rewrite app_nil_r in Eys.
  assert (Hzs : map zexpr (f_stmt s) = map estmt a) by (apply (f_equal f_stmt) in Hz; exact Hz).
  destruct (rb_lean_all (f_stmt s) ys a Hrb Hzs Hok Hsi) as (a' & Ea' & Hok' & Hsi').
  assert (HF : f_stmt (fd_syntax f) = ys).
  { rewrite Ef. cbn [with_syntax fd_syntax f_stmt]. rewrite Eys, frev_rev, rev_involutive. reflexivity. }
  assert (HzF : zfile (fd_syntax f) = efile a').
  { rewrite Ef. cbn [with_syntax fd_syntax]. unfold zfile, efile. cbn [f_name f_comments f_stmt].
    rewrite frev_rev, Eys, rev_involutive, Ea'.
    assert (En : f_name s = []) by (apply (f_equal f_name) in Hz; exact Hz).
    assert (Ec : zcs (f_comments s) = no_comments) by (apply (f_equal f_comments) in Hz; exact Hz).
    rewrite En, Ec. reflexivity. }
  assert (Hfmt : format (fd_syntax f) = RoundPrint.render (file_pls a')) by (rewrite <- format_zfile, HzF; apply format_efile; exact Hok').
  destruct (reparse a' Hok') as (s2 & Hp2 & Hz2 & _).
  rewrite Hfmt, Hp2. cbn [lift_parse].
  apply (file_of_syntax_sim s s2 f H Hwf). rewrite HF.
  apply (yrel_lean_all ys (f_stmt s2) a'); auto. apply (f_equal f_stmt) in Hz2. exact Hz2.
Qed.
