(* C15: the two syntactic side conditions of the coherence invariant are themselves invariants
   of every edit operation:
     [BlockIdsOk]   block identities are distinct and below the allocation counter,
     [HeapSettable] on every line setIndirect can reach either marking (no line carries the
                    comment shape "// indirect; indirect..." of finding K9).
   Hence [EditInv f := Coherent f /\ BlockIdsOk (fsyn f) /\ HeapSettable (fsyn f)] is preserved
   by all 37 operations and by every sequence of them. *)
From Coq Require Import Permutation.
From Verif.Base Require Import Bytes.
From Verif.Modfile Require Import EditModel EditOps EditSpec EditProofsTyped EditProofsHeap EditProofsCoherent
  EditProofsCleanup EditProofsAddLine EditProofsAdd EditProofsUpsert EditProofsSort EditProofsSeq EditProofsExact
  EditProofsBlocks EditProofsSetRequire EditProofsComments EditProofs2Blocks EditProofs2Settable EditProofs2Sri.

Arguments hget : simpl never.
Arguments hset : simpl never.

Definition HeapSettable (s : syntax) : Prop := forall i, suf_settable (suf (sget s i)).
Definition SynInv (s : syntax) : Prop := BlockIdsOk s /\ HeapSettable s.

Lemma bids_shape s s' : stmts s' = stmts s -> nbid s' = nbid s -> BlockIdsOk s -> BlockIdsOk s'.
Proof. intros E1 E2 [A B]. split; rewrite E1, ?E2; assumption. Qed.

Lemma hs_heap s s' : heap s' = heap s -> HeapSettable s -> HeapSettable s'.
Proof. intros E H i. unfold sget. rewrite E. apply H. Qed.

(* ---------------------------------------------------------------- heap primitives *)
Lemma sget_sset_cases s i l j : sget (sset s i l) j = l \/ sget (sset s i l) j = sget s j.
Proof.
  destruct (Nat.eq_dec i j) as [<-|Hn]; [|right; apply sget_sset_other; exact Hn].
  destruct (Nat.lt_ge_cases i (heap_len s)) as [H|H]; [left; apply sget_sset_same; exact H|].
  right. unfold sget, sset, hget; cbn. rewrite !nth_overflow; [reflexivity | exact H | rewrite hset_length; exact H].
Qed.

Lemma inv_sset s i l : SynInv s -> suf_settable (suf l) -> SynInv (sset s i l).
Proof.
  intros [A Bq] Hl. split; [exact (bids_shape s (sset s i l) eq_refl eq_refl A)|].
  intros j. destruct (sget_sset_cases s i l j) as [-> | ->]; [exact Hl | apply Bq].
Qed.

Lemma inv_mark_removed s i : SynInv s -> SynInv (mark_removed s i).
Proof. intros H. apply inv_sset; [exact H | apply suf_settable_nil]. Qed.

Lemma inv_update_line s i v a : SynInv s -> SynInv (update_line s i v a).
Proof. intros H. apply inv_sset; [exact H|]. apply H. Qed.

Lemma inv_fold_mark_removed T : forall s, SynInv s -> SynInv (fold_left mark_removed T s).
Proof. induction T as [|i T IH]; intros s H; cbn; [exact H | apply IH, inv_mark_removed, H]. Qed.

Lemma sget_overflow s j : (heap_len s <= j)%nat -> sget s j = dead_line.
Proof. intros H. unfold sget, hget. apply nth_overflow. exact H. Qed.

Lemma hs_salloc s l : HeapSettable s -> suf_settable (suf l) -> HeapSettable (fst (salloc s l)).
Proof.
  intros H Hl j. unfold sget; cbn [salloc fst heap].
  destruct (Nat.lt_trichotomy j (length (heap s))) as [Hj|[->|Hj]].
  - rewrite hget_app_old by exact Hj. apply H.
  - rewrite hget_app_new. exact Hl.
  - unfold hget. rewrite nth_overflow by (rewrite app_length; cbn; lia). apply suf_settable_nil.
Qed.

Lemma inv_salloc s l : SynInv s -> suf_settable (suf l) -> SynInv (fst (salloc s l)).
Proof. intros [A Bq] Hl. split; [exact (bids_shape s (fst (salloc s l)) eq_refl eq_refl A) | apply hs_salloc; assumption]. Qed.

(* ---------------------------------------------------------------- addLine *)
Lemma add_line_loop_bids s h verb args : forall todo done,
  let r := fst (add_line_loop s h verb args done todo) in
  (block_ids (stmts r) = block_ids (rev done ++ todo) /\ nbid r = nbid s) \/
  (Permutation (block_ids (stmts r)) (nbid s :: block_ids (rev done ++ todo)) /\ nbid r = S (nbid s)).
Proof.
  induction todo as [|st rest IH]; intros done; cbn [add_line_loop].
  - cbn. left. split; [|reflexivity]. rewrite !block_ids_app. reflexivity.
  - destruct (add_line_at s h verb st) as [[| j | b | b k]|] eqn:Hat.
    + cbn. left. split; [|reflexivity]. rewrite !block_ids_app, !block_ids_cons. reflexivity.
    + apply add_line_at_convert in Hat. destruct Hat as [-> _].
      cbn. right. split; [|reflexivity]. rewrite !block_ids_app, !block_ids_cons. cbn [stmt_bids hb_id app].
      symmetry. apply Permutation_middle.
    + apply add_line_at_append in Hat. destruct Hat as [-> _].
      cbn. left. split; [|reflexivity]. rewrite !block_ids_app, !block_ids_cons. reflexivity.
    + apply add_line_at_afterin in Hat. destruct Hat as [-> _].
      cbn. left. split; [|reflexivity]. rewrite !block_ids_app, !block_ids_cons. reflexivity.
    + specialize (IH (st :: done)). cbn [rev] in IH. rewrite <- app_assoc in IH. exact IH.
Qed.

Lemma bids_step s s' :
  (block_ids (stmts s') = block_ids (stmts s) /\ nbid s' = nbid s) \/
  (Permutation (block_ids (stmts s')) (nbid s :: block_ids (stmts s)) /\ nbid s' = S (nbid s)) ->
  BlockIdsOk s -> BlockIdsOk s'.
Proof.
  intros [[E1 E2]|[P E2]] [A Bq].
  - split; rewrite E1, ?E2; assumption.
  - split.
    + eapply Permutation_NoDup; [symmetry; exact P|]. constructor; [|exact A].
      intros Hin. rewrite Forall_forall in Bq. specialize (Bq _ Hin). lia.
    + rewrite E2. eapply Permutation_Forall; [symmetry; exact P|]. constructor; [lia|].
      eapply Forall_impl; [|exact Bq]. cbn. intros a Ha. lia.
Qed.

Lemma add_line_bids s h verb args : BlockIdsOk s -> BlockIdsOk (fst (add_line s h verb args)).
Proof.
  unfold add_line.
  destruct (match h with Some x => Some x | None => find_hint s verb (rev (stmts s)) end) as [x|].
  - apply bids_step. exact (add_line_loop_bids s x verb args (stmts s) []).
  - cbn. apply bids_step. left. split; [|reflexivity]. cbn. rewrite block_ids_app. cbn. apply app_nil_r.
Qed.

Lemma add_line_hs s h verb args : HeapSettable s -> HeapSettable (fst (add_line s h verb args)).
Proof.
  intros H j. destruct (add_line_heap s h verb args) as [_ [Hlen [Hold [inb Hnew]]]].
  destruct (Nat.lt_trichotomy j (heap_len s)) as [Hj|[->|Hj]].
  - destruct (Hold j Hj) as [->|[_ ->]]; apply H.
  - rewrite Hnew. apply suf_settable_nil.
  - rewrite sget_overflow by lia. apply suf_settable_nil.
Qed.

Lemma inv_add_line s h verb args : SynInv s -> SynInv (fst (add_line s h verb args)).
Proof. intros [A Bq]. split; [apply add_line_bids; exact A | apply add_line_hs; exact Bq]. Qed.

(* ---------------------------------------------------------------- Cleanup *)
Lemma nodup_cons_sub (x : nat) out ids : incl out ids -> NoDup (x :: ids) -> NoDup out -> NoDup (x :: out).
Proof. intros Hi Hn Ho. inversion Hn; subst. constructor; [intros Hin; apply H1, Hi, Hin | exact Ho]. Qed.

Lemma cleanup_bids todo : forall h,
  incl (block_ids (snd (syn_cleanup_loop h todo))) (block_ids todo) /\
  (NoDup (block_ids todo) -> NoDup (block_ids (snd (syn_cleanup_loop h todo)))).
Proof.
  induction todo as [|st rest IH]; intros h; cbn [syn_cleanup_loop].
  - cbn. split; [intros x Hx; exact Hx | auto].
  - destruct st as [i|b|c].
    + destruct (line_live h i).
      * specialize (IH h). destruct (syn_cleanup_loop h rest) as [h' out]. exact IH.
      * apply IH.
    + assert (Hkeep : forall h0 ls, let r := syn_cleanup_loop h0 rest in
                incl (block_ids (SBlock (block_with_lines b ls) :: snd r)) (block_ids (SBlock b :: rest)) /\
                (NoDup (block_ids (SBlock b :: rest)) -> NoDup (block_ids (SBlock (block_with_lines b ls) :: snd r)))).
      { intros h0 ls r. destruct (IH h0) as [I1 I2]. fold r in I1, I2. rewrite !block_ids_cons. cbn [stmt_bids block_with_lines hb_id app].
        split; [intros x [->|Hx]; [left; reflexivity | right; apply I1; exact Hx]|].
        intros Hn. eapply nodup_cons_sub; [exact I1 | exact Hn | apply I2; inversion Hn; assumption]. }
      assert (Hskip : forall h0, let r := syn_cleanup_loop h0 rest in
                incl (block_ids (snd r)) (block_ids (SBlock b :: rest)) /\
                (NoDup (block_ids (SBlock b :: rest)) -> NoDup (block_ids (snd r)))).
      { intros h0 r. destruct (IH h0) as [I1 I2]. fold r in I1, I2. rewrite block_ids_cons.
        split; [intros x Hx; apply in_app_iff; right; apply I1; exact Hx|].
        intros Hn. apply I2. exact (NoDup_app_r _ _ Hn). }
      destruct (filter (line_live h) (hb_lines b)) as [|j [|j2 more]] eqn:Ef.
      * apply Hskip.
      * destruct (nilb (c_before (hb_rp b))).
        -- match goal with |- context [syn_cleanup_loop ?h1 rest] => specialize (Hskip h1); destruct (syn_cleanup_loop h1 rest) as [h' out] end.
           cbn [fst snd] in *. rewrite block_ids_cons. cbn [stmt_bids app]. exact Hskip.
        -- specialize (Hkeep h [j]). destruct (syn_cleanup_loop h rest) as [h' out]. cbn [fst snd] in *. exact Hkeep.
      * specialize (Hkeep h (j :: j2 :: more)). destruct (syn_cleanup_loop h rest) as [h' out]. cbn [fst snd] in *. exact Hkeep.
    + specialize (IH h). destruct (syn_cleanup_loop h rest) as [h' out]. cbn [fst snd] in *. exact IH.
Qed.

Lemma cleanup_suffix todo : forall h, Forall block_ok todo ->
  length (fst (syn_cleanup_loop h todo)) = length h /\
  forall j, suf (hget (fst (syn_cleanup_loop h todo)) j) = suf (hget h j).
Proof.
  induction todo as [|st rest IH]; intros h Hb; cbn [syn_cleanup_loop].
  - split; reflexivity.
  - inversion Hb as [|? ? Hb1 Hbr]; subst. destruct st as [i|b|c].
    + destruct (line_live h i).
      * specialize (IH h Hbr). destruct (syn_cleanup_loop h rest) as [h' out]. exact IH.
      * apply IH. exact Hbr.
    + destruct (filter (line_live h) (hb_lines b)) as [|j [|j2 more]].
      * apply IH. exact Hbr.
      * destruct (nilb (c_before (hb_rp b))).
        -- set (l' := mkHL _ _ false).
           specialize (IH (hset h j l') Hbr). destruct (syn_cleanup_loop (hset h j l') rest) as [h' out].
           cbn [fst] in *. destruct IH as [IHl IHc]. rewrite hset_length in IHl. split; [exact IHl|].
           intros k. rewrite IHc.
           destruct (Nat.eq_dec j k) as [->|Hn]; [|rewrite hget_hset_other by exact Hn; reflexivity].
           destruct (Nat.lt_ge_cases k (length h)) as [Hk|Hk].
           ++ rewrite hget_hset_same by exact Hk. unfold l', suf; cbn [hl_com c_suffix].
              destruct Hb1 as [_ Hs]. rewrite Hs. apply app_nil_r.
           ++ unfold hget. rewrite !nth_overflow; [reflexivity | exact Hk | rewrite hset_length; exact Hk].
        -- specialize (IH h Hbr). destruct (syn_cleanup_loop h rest) as [h' out]. exact IH.
      * specialize (IH h Hbr). destruct (syn_cleanup_loop h rest) as [h' out]. exact IH.
    + specialize (IH h Hbr). destruct (syn_cleanup_loop h rest) as [h' out]. exact IH.
Qed.

Lemma inv_syn_cleanup s : Forall block_ok (stmts s) -> SynInv s -> SynInv (syn_cleanup s).
Proof.
  intros Hb [[A1 A2] Bq]. unfold syn_cleanup.
  destruct (cleanup_bids (stmts s) (heap s)) as [I1 I2]. destruct (cleanup_suffix (stmts s) (heap s) Hb) as [_ Hc].
  destruct (syn_cleanup_loop (heap s) (stmts s)) as [h st]. cbn [fst snd] in *. split.
  - split; cbn [stmts nbid]; [apply I2; exact A1|].
    apply Forall_forall. intros x Hx. rewrite Forall_forall in A2. apply A2, I1, Hx.
  - intros j. unfold sget; cbn [heap]. rewrite Hc. apply Bq.
Qed.

(* ---------------------------------------------------------------- removeDups / SortBlocks *)
Lemma remove_killed_bids K : forall L,
  let g := fun st => match st with
    | SLine i => if killed K (Some i) then [] else [st]
    | SBlock b => let ls := filter (fun i => negb (killed K (Some i))) (hb_lines b) in
                  if nilb ls then [] else [SBlock (block_with_lines b ls)]
    | SComment _ => [st] end in
  incl (block_ids (flat_map g L)) (block_ids L) /\ (NoDup (block_ids L) -> NoDup (block_ids (flat_map g L))).
Proof.
  intros L g. induction L as [|st r [I1 I2]]; [cbn; split; [intros x Hx; exact Hx | auto]|].
  cbn [flat_map]. rewrite block_ids_app, block_ids_cons.
  destruct st as [i|b|c]; cbn [g stmt_bids app].
  - destruct (killed K (Some i)); cbn; split; assumption.
  - destruct (nilb _); cbn [block_ids flat_map stmt_bids block_with_lines hb_id app].
    + split; [intros x Hx; right; apply I1; exact Hx | intros Hn; apply I2; inversion Hn; assumption].
    + split; [intros x [->|Hx]; [left; reflexivity | right; apply I1; exact Hx]|].
      intros Hn. eapply nodup_cons_sub; [exact I1 | exact Hn | apply I2; inversion Hn; assumption].
  - cbn. split; assumption.
Qed.

Lemma inv_remove_killed s K : SynInv s -> SynInv (remove_killed s K).
Proof.
  intros [[A1 A2] Bq]. destruct (remove_killed_bids K (stmts s)) as [I1 I2]. split; [|exact Bq].
  split; cbn [remove_killed stmts with_stmts nbid]; [apply I2; exact A1|].
  apply Forall_forall. intros x Hx. rewrite Forall_forall in A2. apply A2, I1, Hx.
Qed.

Lemma sort_stmt_bids h lo L : block_ids (map (sort_stmt h lo) L) = block_ids L.
Proof.
  induction L as [|st r IH]; [reflexivity|]. cbn [map]. rewrite !block_ids_cons, IH. destruct st; reflexivity.
Qed.

Lemma inv_sort_blocks f : SynInv (fsyn f) -> SynInv (fsyn (sort_blocks f)).
Proof.
  intros H. rewrite sort_blocks_as_sort_stmt. cbn [fsyn with_syn].
  assert (H1 : SynInv (fsyn (remove_dups f true))) by (unfold remove_dups; cbn [fsyn with_tool with_replace with_exclude with_syn]; apply inv_remove_killed; exact H).
  destruct H1 as [[A1 A2] Bq]. split; [|exact Bq].
  split; cbn [stmts with_stmts nbid]; rewrite sort_stmt_bids; assumption.
Qed.

Lemma inv_w_sort_blocks f : SynInv (fsyn f) -> SynInv (fsyn (w_sort_blocks f)).
Proof.
  intros H. rewrite w_sort_blocks_as_sort_stmt. cbn [fsyn with_syn].
  assert (H1 : SynInv (fsyn (remove_dups f false))) by (unfold remove_dups; cbn [fsyn with_tool with_replace with_exclude with_syn]; apply inv_remove_killed; exact H).
  destruct H1 as [[A1 A2] Bq]. split; [|exact Bq].
  split; cbn [stmts with_stmts nbid]; rewrite sort_stmt_bids; assumption.
Qed.

(* ---------------------------------------------------------------- loops *)
Lemma drop_loop_inv {E} (m : E -> bool) syn zero s l s' l' :
  drop_loop m syn zero s l = Some (s', l') -> SynInv s -> SynInv s'.
Proof. intros H Hi. apply drop_loop_spec in H. destruct H as [_ ->]. apply inv_fold_mark_removed. exact Hi. Qed.

Lemma upsert_loop_inv {E} (m : E -> bool) syn zero upd verb args : forall l need s s' l' n',
  upsert_loop m syn zero upd verb args need s l = Some (s', l', n') -> SynInv s -> SynInv s'.
Proof.
  induction l as [|e r IH]; intros need s s' l' n' H Hi; cbn in H.
  - injection H as <- _ _. exact Hi.
  - destruct (m e).
    + destruct (syn e) as [i|]; [|discriminate]. destruct need.
      * destruct (upsert_loop m syn zero upd verb args false (update_line s i verb args) r) as [[[s1 r1] n1]|] eqn:Hr; [|discriminate].
        injection H as <- _ _. eapply IH; [exact Hr | apply inv_update_line; exact Hi].
      * destruct (upsert_loop m syn zero upd verb args false (mark_removed s i) r) as [[[s1 r1] n1]|] eqn:Hr; [|discriminate].
        injection H as <- _ _. eapply IH; [exact Hr | apply inv_mark_removed; exact Hi].
    + destruct (upsert_loop m syn zero upd verb args need s r) as [[[s1 r1] n1]|] eqn:Hr; [|discriminate].
      injection H as <- _ _. eapply IH; eauto.
Qed.

Lemma add_replace_loop_inv (op ov np nv : str) : forall l need h s s' l' n' h',
  add_replace_loop op ov np nv need h s l = Some (s', l', n', h') -> SynInv s -> SynInv s'.
Proof.
  induction l as [|e r IH]; intros need h s s' l' n' h' H Hi; cbn in H.
  - injection H as <- _ _ _. exact Hi.
  - destruct (str_eqb (rp_op e) op && (nilb ov || str_eqb (rp_ov e) ov))%bool.
    + destruct (rp_syn e) as [i|]; [|discriminate]. destruct need.
      * destruct (add_replace_loop op ov np nv false h _ r) as [[[[s1 r1] n1] h1]|] eqn:Hr; [|discriminate].
        injection H as <- _ _ _. eapply IH; [exact Hr | apply inv_update_line; exact Hi].
      * destruct (add_replace_loop op ov np nv false _ _ r) as [[[[s1 r1] n1] h1]|] eqn:Hr; [|discriminate].
        injection H as <- _ _ _. eapply IH; [exact Hr | apply inv_mark_removed; exact Hi].
    + destruct (add_replace_loop op ov np nv need _ s r) as [[[[s1 r1] n1] h1]|] eqn:Hr; [|discriminate].
      injection H as <- _ _ _. eapply IH; eauto.
Qed.

Lemma suf_set_indirect_version s i v b :
  HeapSettable s -> suf_settable (suf (set_indirect_line (set_version_line (sget s i) v) b)).
Proof. intros H. rewrite set_indirect_line_suf, set_version_line_suf. apply suf_settable_set. apply H. Qed.

Lemma set_require_loop_inv : forall l s need s' l' need',
  set_require_loop s need l = Some (s', l', need') -> SynInv s -> SynInv s'.
Proof.
  induction l as [|r rest IH]; intros s need s' l' need' H Hi; cbn in H.
  - injection H as <- _ _. exact Hi.
  - destruct (rq_syn r) as [i|]; [|discriminate].
    destruct (amap_get (rq_path r) need) as [[v ind]|].
    + destruct (set_require_loop _ _ rest) as [[[s1 l1] n1]|] eqn:Hr; [|discriminate].
      injection H as <- _ _. eapply IH; [exact Hr|]. apply inv_sset; [exact Hi|]. apply suf_set_indirect_version. apply Hi.
    + destruct (set_require_loop _ _ rest) as [[[s1 l1] n1]|] eqn:Hr; [|discriminate].
      injection H as <- _ _. eapply IH; [exact Hr | apply inv_mark_removed; exact Hi].
Qed.

Lemma set_use_loop_inv : forall l s need s' l' need',
  set_use_loop s need l = Some (s', l', need') -> SynInv s -> SynInv s'.
Proof.
  induction l as [|u rest IH]; intros s need s' l' need' H Hi; cbn in H.
  - injection H as <- _ _. exact Hi.
  - destruct (amap_get (us_path u) need) as [mp|].
    + destruct (set_use_loop _ _ rest) as [[[s1 l1] n1]|] eqn:Hr; [|discriminate].
      injection H as <- _ _. eapply IH; eauto.
    + destruct (us_syn u) as [i|]; [|discriminate].
      destruct (set_use_loop _ _ rest) as [[[s1 l1] n1]|] eqn:Hr; [|discriminate].
      injection H as <- _ _. eapply IH; [exact Hr | apply inv_mark_removed; exact Hi].
Qed.

Lemma inv_add_new_require f p v ind : SynInv (fsyn f) -> SynInv (fsyn (add_new_require f p v ind)).
Proof.
  intros H. unfold add_new_require.
  pose proof (inv_add_line (fsyn f) None v_require [auto_quote p; v] H) as H1.
  destruct (add_line (fsyn f) None v_require [auto_quote p; v]) as [s1 n]. cbn [fst] in H1.
  cbn [fsyn with_require with_syn]. apply inv_sset; [exact H1|].
  rewrite set_indirect_line_suf. apply suf_settable_set. apply H1.
Qed.

Lemma inv_add_new_use f p m : SynInv (fsyn f) -> SynInv (fsyn (add_new_use f p m)).
Proof.
  intros H. unfold add_new_use.
  pose proof (inv_add_line (fsyn f) None v_use [auto_quote p] H) as H1.
  destruct (add_line (fsyn f) None v_use [auto_quote p]) as [s1 n]. exact H1.
Qed.

Lemma fold_add_new_require_inv (N : list (str * (str * bool))) : forall f,
  SynInv (fsyn f) -> SynInv (fsyn (fold_left (fun g kv => add_new_require g (fst kv) (fst (snd kv)) (snd (snd kv))) N f)).
Proof. induction N as [|kv r IH]; intros f H; cbn [fold_left]; [exact H | apply IH, inv_add_new_require, H]. Qed.

Lemma fold_add_new_use_inv (N : list (str * str)) : forall f,
  SynInv (fsyn f) -> SynInv (fsyn (fold_left (fun g kv => add_new_use g (fst kv) (snd kv)) N f)).
Proof. induction N as [|kv r IH]; intros f H; cbn [fold_left]; [exact H | apply IH, inv_add_new_use, H]. Qed.

Lemma inv_insert_stmt_line s i n : SynInv s -> SynInv (insert_stmt_at s i (SLine n)).
Proof.
  intros [[A1 A2] Bq]. split; [|exact Bq].
  assert (E : block_ids (stmts (insert_stmt_at s i (SLine n))) = block_ids (stmts s)).
  { cbn [insert_stmt_at stmts with_stmts]. rewrite block_ids_app, block_ids_cons. cbn [stmt_bids app].
    rewrite <- block_ids_app, firstn_skipn. reflexivity. }
  split; rewrite E; assumption.
Qed.

(* ---------------------------------------------------------------- every operation but SetRequireSeparateIndirect *)
Definition res_inv (r : res) : Prop :=
  match r with ROk f' | RErr f' => SynInv (fsyn f') | RPanic => True end.

Theorem apply_syn_inv o f :
  not_sri o = true -> Coherent f -> SynInv (fsyn f) -> res_inv (apply o f).
Proof.
  intros Hn Hc Hi. destruct o; try discriminate Hn; cbn [apply]; unfold res_inv, lift.
  - (* AddModuleStmt *)
    unfold add_module_stmt. destruct (f_module f) as [m|].
    + destruct (mo_syn m) as [i|]; [|exact I]. cbn. apply inv_update_line. exact Hi.
    + pose proof (inv_add_line (fsyn f) None v_module [auto_quote path] Hi) as K.
      destruct (add_line _ _ _ _) as [s n]. exact K.
  - (* AddGoStmt *)
    unfold add_go_stmt. destruct (go_version_ok v); cbn; [|exact Hi].
    destruct (f_go f) as [g|].
    + destruct (go_syn g) as [i|]; [|exact I]. cbn. apply inv_update_line. exact Hi.
    + pose proof (inv_add_line (fsyn f) (module_hint f) v_go [v] Hi) as K.
      destruct (add_line _ _ _ _) as [s n]. exact K.
  - (* DropGoStmt *)
    unfold drop_go_stmt. destruct (f_go f) as [g|]; [|exact Hi].
    destruct (go_syn g) as [i|]; [|exact I]. cbn. apply inv_mark_removed. exact Hi.
  - (* AddToolchainStmt *)
    unfold add_toolchain_stmt. destruct (toolchain_ok name); cbn; [|exact Hi].
    destruct (f_toolchain f) as [g|].
    + destruct (go_syn g) as [i|]; [|exact I]. cbn. apply inv_update_line. exact Hi.
    + match goal with |- context [add_line ?s ?h ?v ?a] =>
        pose proof (inv_add_line s h v a Hi) as K; destruct (add_line s h v a) as [s1 n] end. exact K.
  - (* DropToolchainStmt *)
    unfold drop_toolchain_stmt. destruct (f_toolchain f) as [g|]; [|exact Hi].
    destruct (go_syn g) as [i|]; [|exact I]. cbn. apply inv_mark_removed. exact Hi.
  - (* AddGodebug *)
    unfold add_godebug.
    destruct (upsert_loop _ _ _ _ _ _ _ _ _) as [[[s l] need]|] eqn:Hu; [|exact I].
    apply upsert_loop_inv in Hu; [|exact Hi]. destruct need; cbn; [|exact Hu].
    match goal with |- context [add_line ?s ?h ?v ?a] =>
      pose proof (inv_add_line s h v a Hu) as K; destruct (add_line s h v a) as [s1 n] end. exact K.
  - (* DropGodebug *)
    unfold drop_godebug. destruct (drop_loop _ _ _ _ _) as [[s l]|] eqn:Hd; [|exact I].
    cbn. eapply drop_loop_inv; eauto.
  - (* AddRequire *)
    unfold add_require.
    destruct (upsert_loop _ _ _ _ _ _ _ _ _) as [[[s l] need]|] eqn:Hu; [|exact I].
    apply upsert_loop_inv in Hu; [|exact Hi]. destruct need; cbn; [|exact Hu].
    apply (inv_add_new_require (with_require (with_syn f s) l)). exact Hu.
  - (* AddNewRequire *) apply inv_add_new_require. exact Hi.
  - (* SetRequire *)
    unfold set_require. destruct (set_require_need l []) as [need|]; [|exact I].
    destruct (set_require_loop _ _ _) as [[[s rs] need']|] eqn:Hl; [|exact I]. cbn.
    apply set_require_loop_inv in Hl; [|exact Hi].
    apply inv_sort_blocks. apply fold_add_new_require_inv. exact Hl.
  - (* DropRequire *)
    unfold drop_require. destruct (drop_loop _ _ _ _ _) as [[s l]|] eqn:Hd; [|exact I].
    cbn. eapply drop_loop_inv; eauto.
  - (* AddExclude *)
    unfold add_exclude. destruct (check_canonical_version path vers); cbn; [|exact Hi].
    destruct (exclude_scan _ _ _ _) as [h|]; [|exact Hi].
    match goal with |- context [add_line ?s ?h ?v ?a] =>
      pose proof (inv_add_line s h v a Hi) as K; destruct (add_line s h v a) as [s1 n] end. exact K.
  - (* DropExclude *)
    unfold drop_exclude. destruct (drop_loop _ _ _ _ _) as [[s l]|] eqn:Hd; [|exact I].
    cbn. eapply drop_loop_inv; eauto.
  - (* AddReplace *)
    unfold add_replace.
    destruct (add_replace_loop _ _ _ _ _ _ _ _) as [[[[s l] need] h]|] eqn:Hu; [|exact I].
    apply add_replace_loop_inv in Hu; [|exact Hi]. destruct need; cbn; [|exact Hu].
    match goal with |- context [add_line ?s ?h ?v ?a] =>
      pose proof (inv_add_line s h v a Hu) as K; destruct (add_line s h v a) as [s1 n] end. exact K.
  - (* DropReplace *)
    unfold drop_replace. destruct (drop_loop _ _ _ _ _) as [[s l]|] eqn:Hd; [|exact I].
    cbn. eapply drop_loop_inv; eauto.
  - (* AddRetract *)
    unfold add_retract.
    destruct (check_canonical_version _ hi); cbn; [|exact Hi].
    destruct (check_canonical_version _ lo); cbn; [|exact Hi].
    match goal with |- context [add_line ?s ?h ?v ?a] =>
      pose proof (inv_add_line s h v a Hi) as K; destruct (add_line s h v a) as [s1 n] end. cbn [fst] in K.
    destruct rationale; cbn; [exact K|]. apply inv_sset; [exact K|]. apply K.
  - (* DropRetract *)
    unfold drop_retract. destruct (drop_loop _ _ _ _ _) as [[s l]|] eqn:Hd; [|exact I].
    cbn. eapply drop_loop_inv; eauto.
  - (* AddTool *)
    unfold add_tool. destruct (existsb _ _); [exact Hi|].
    match goal with |- context [add_line ?s ?h ?v ?a] =>
      pose proof (inv_add_line s h v a Hi) as K; destruct (add_line s h v a) as [s1 n] end. cbn [fst] in K.
    apply (inv_sort_blocks (with_tool (with_syn f s1) (f_tool f ++ [mkTool path (Some n)]))). exact K.
  - (* DropTool *)
    unfold drop_tool. destruct (drop_loop _ _ _ _ _) as [[s l]|] eqn:Hd; [|exact I].
    cbn. eapply drop_loop_inv; eauto.
  - (* AddComment *)
    destruct Hi as [[A1 A2] Bq]. split; [|exact Bq].
    assert (E : block_ids (stmts (fsyn (add_comment f text))) = block_ids (stmts (fsyn f))).
    { cbn. rewrite block_ids_app. cbn. apply app_nil_r. }
    split; rewrite E; assumption.
  - (* Cleanup *) cbn [fsyn cleanup]. apply inv_syn_cleanup; [apply Hc | exact Hi].
  - (* SortBlocks *) apply inv_sort_blocks. exact Hi.
  - (* WAddGoStmt *)
    unfold w_add_go_stmt. destruct (go_version_ok v); cbn; [|exact Hi].
    destruct (f_go f) as [g|].
    + destruct (go_syn g) as [i|]; [|exact I]. cbn. apply inv_update_line. exact Hi.
    + cbn. apply inv_insert_stmt_line. apply (inv_salloc (fsyn f)); [exact Hi | apply suf_settable_nil].
  - (* WDropGoStmt *)
    unfold drop_go_stmt. destruct (f_go f) as [g|]; [|exact Hi].
    destruct (go_syn g) as [i|]; [|exact I]. cbn. apply inv_mark_removed. exact Hi.
  - (* WAddToolchainStmt *)
    unfold w_add_toolchain_stmt. destruct (toolchain_ok name); cbn; [|exact Hi].
    destruct (f_toolchain f) as [g|].
    + destruct (go_syn g) as [i|]; [|exact I]. cbn. apply inv_update_line. exact Hi.
    + cbn. apply inv_insert_stmt_line. apply (inv_salloc (fsyn f)); [exact Hi | apply suf_settable_nil].
  - (* WDropToolchainStmt *)
    unfold drop_toolchain_stmt. destruct (f_toolchain f) as [g|]; [|exact Hi].
    destruct (go_syn g) as [i|]; [|exact I]. cbn. apply inv_mark_removed. exact Hi.
  - (* WAddGodebug *)
    unfold add_godebug.
    destruct (upsert_loop _ _ _ _ _ _ _ _ _) as [[[s l] need]|] eqn:Hu; [|exact I].
    apply upsert_loop_inv in Hu; [|exact Hi]. destruct need; cbn; [|exact Hu].
    match goal with |- context [add_line ?s ?h ?v ?a] =>
      pose proof (inv_add_line s h v a Hu) as K; destruct (add_line s h v a) as [s1 n] end. exact K.
  - (* WDropGodebug *)
    unfold drop_godebug. destruct (drop_loop _ _ _ _ _) as [[s l]|] eqn:Hd; [|exact I].
    cbn. eapply drop_loop_inv; eauto.
  - (* WAddUse *)
    unfold add_use.
    destruct (upsert_loop _ _ _ _ _ _ _ _ _) as [[[s l] need]|] eqn:Hu; [|exact I].
    apply upsert_loop_inv in Hu; [|exact Hi]. destruct need; cbn; [|exact Hu].
    apply (inv_add_new_use (with_use (with_syn f s) l)). exact Hu.
  - (* WAddNewUse *) apply inv_add_new_use. exact Hi.
  - (* WSetUse *)
    unfold set_use. destruct (set_use_loop _ _ _) as [[[s us] need']|] eqn:Hl; [|exact I]. cbn.
    apply set_use_loop_inv in Hl; [|exact Hi].
    apply inv_w_sort_blocks. apply fold_add_new_use_inv. exact Hl.
  - (* WDropUse *)
    unfold drop_use. destruct (drop_loop _ _ _ _ _) as [[s l]|] eqn:Hd; [|exact I].
    cbn. eapply drop_loop_inv; eauto.
  - (* WAddReplace *)
    unfold add_replace.
    destruct (add_replace_loop _ _ _ _ _ _ _ _) as [[[[s l] need] h]|] eqn:Hu; [|exact I].
    apply add_replace_loop_inv in Hu; [|exact Hi]. destruct need; cbn; [|exact Hu].
    match goal with |- context [add_line ?s ?h ?v ?a] =>
      pose proof (inv_add_line s h v a Hu) as K; destruct (add_line s h v a) as [s1 n] end. exact K.
  - (* WDropReplace *)
    unfold drop_replace. destruct (drop_loop _ _ _ _ _) as [[s l]|] eqn:Hd; [|exact I].
    cbn. eapply drop_loop_inv; eauto.
  - (* WCleanup *) cbn [fsyn w_cleanup]. apply inv_syn_cleanup; [apply Hc | exact Hi].
  - (* WSortBlocks *) apply inv_w_sort_blocks. exact Hi.
Qed.

(* ---------------------------------------------------------------- SetRequireSeparateIndirect: the suffixes *)
Lemma hs_ensure_block s i s' bid : ensure_block s i = Some (s', bid) -> HeapSettable s -> HeapSettable s'.
Proof.
  unfold ensure_block. destruct (nth_error (stmts s) (Z.to_nat i)) as [[j|b|c]|]; try discriminate.
  - intros [= <- _] H. set (l' := mkHL (hl_com (sget s j)) (tl (hl_tok (sget s j))) true).
    assert (H1 : HeapSettable (sset s j l')).
    { intros k. destruct (sget_sset_cases s j l' k) as [E|E]; rewrite E; apply H. }
    apply (hs_heap (sset s j l')); [reflexivity | exact H1].
  - intros [= <- _] H. exact H.
Qed.

Lemma hs_move_req s i bid : HeapSettable s -> HeapSettable (fst (move_req s i bid)).
Proof.
  intros H. unfold move_req. cbn [salloc fst].
  set (l := sget s i). set (s1 := sset s i (set_tok l [])).
  assert (H1 : HeapSettable s1).
  { intros k. unfold s1. destruct (sget_sset_cases s i (set_tok l []) k) as [E|E]; rewrite E; apply H. }
  match goal with |- HeapSettable (append_to_block ?s2 _ _) => apply (hs_heap s2); [reflexivity|] end.
  apply (hs_salloc s1); [exact H1 | apply H].
Qed.

Lemma sri_loop_hs need one_flat l2b dbid ibid : forall l s have s' l' have',
  sri_loop s need have one_flat l2b dbid ibid l = Some (s', l', have') -> HeapSettable s -> HeapSettable s'.
Proof.
  induction l as [|r rest IH]; intros s have s' l' have' H Hi; cbn [sri_loop] in H.
  - injection H as <- _ _. exact Hi.
  - destruct (rq_syn r) as [i|]; [|discriminate].
    assert (Hmr : HeapSettable (mark_removed s i)).
    { intros k. destruct (sget_sset_cases s i (mkHL (set_suffix (hl_com (sget s i)) []) [] (hl_inb (sget s i))) k) as [E|E];
        unfold mark_removed; rewrite E; [apply suf_settable_nil | apply Hi]. }
    destruct (match amap_get (rq_path r) need with
              | Some e => if existsb (str_eqb (rq_path r)) have then None else Some e
              | None => None end) as [[v ind]|].
    + set (s1 := sset s i _) in H.
      assert (H1 : HeapSettable s1).
      { intros k. unfold s1.
        destruct (sget_sset_cases s i (set_indirect_line (set_version_line (sget s i) v) ind) k) as [E|E]; rewrite E;
          [apply suf_set_indirect_version; exact Hi | apply Hi]. }
      destruct (if ind then if one_flat || opt_nat_eqb (l2b_get i l2b) dbid then Some ibid else None
                else if one_flat || opt_nat_eqb (l2b_get i l2b) ibid then Some dbid else None) as [bid|].
      * pose proof (hs_move_req s1 i bid H1) as H2. destruct (move_req s1 i bid) as [s2 n]. cbn [fst] in H2.
        destruct (sri_loop s2 _ _ _ _ _ _ rest) as [[[s3 l3] h3]|] eqn:Hr; [|discriminate].
        injection H as <- _ _. eapply IH; eauto.
      * destruct (sri_loop s1 _ _ _ _ _ _ rest) as [[[s3 l3] h3]|] eqn:Hr; [|discriminate].
        injection H as <- _ _. eapply IH; eauto.
    + destruct (sri_loop _ _ _ _ _ _ _ rest) as [[[s3 l3] h3]|] eqn:Hr; [|discriminate].
      injection H as <- _ _. eapply IH; eauto.
Qed.

Lemma sri_add_new_hs dbid ibid have : forall need s rs,
  HeapSettable s -> HeapSettable (fst (fold_left (sri_add_new dbid ibid have) need (s, rs))).
Proof.
  induction need as [|[path [v ind]] rest IH]; intros s rs H; cbn [fold_left]; [exact H|].
  unfold sri_add_new at 2. destruct (existsb (str_eqb path) have); [apply IH; exact H|].
  cbn [salloc]. apply IH.
  match goal with |- HeapSettable (append_to_block ?s2 _ _) => apply (hs_heap s2); [reflexivity|] end.
  apply (hs_salloc s); [exact H|].
  destruct ind; [|apply suf_settable_nil].
  change (suf (set_inb (set_indirect_line (mkHL no_coms [auto_quote path; v] false) true) true))
    with (suf (set_indirect_line (mkHL no_coms [auto_quote path; v] false) true)).
  rewrite set_indirect_line_suf. apply suf_settable_set. apply suf_settable_nil.
Qed.

Theorem sri_hs f l f' :
  set_require_separate_indirect f l = Some f' -> HeapSettable (fsyn f) -> HeapSettable (fsyn f').
Proof.
  intros H Hi. unfold set_require_separate_indirect in H.
  set (s0 := fsyn f) in *. set (sc := sri_scan_loop _ _ _ _) in H.
  match type of H with context [if sc_direct sc <? 0 then ?A else ?B] =>
    destruct (if sc_direct sc <? 0 then A else B) as [[[[s1 dbid] di] ii]|] eqn:H1 end; [|discriminate].
  assert (K1 : HeapSettable s1).
  { destruct (sc_direct sc <? 0).
    - destruct (if 0 <=? sc_indirect sc then _ else _) as [di' ii'].
      destruct (insert_block s0 di') as [sx bx] eqn:Eb. injection H1 as <- _ _ _.
      apply (hs_heap s0); [|exact Hi]. unfold insert_block in Eb. cbn in Eb. injection Eb as <- _. reflexivity.
    - destruct (ensure_block s0 (sc_direct sc)) as [[sx bx]|] eqn:He; [|discriminate].
      injection H1 as <- _ _ _. eapply hs_ensure_block; eauto. }
  destruct (if ii <? 0 then Some (insert_block s1 (di + 1)) else ensure_block s1 ii) as [[s2 ibid]|] eqn:H2; [|discriminate].
  assert (K2 : HeapSettable s2).
  { destruct (ii <? 0).
    - destruct (insert_block s1 (di + 1)) as [sx bx] eqn:Eb. injection H2 as <- _.
      apply (hs_heap s1); [|exact K1]. unfold insert_block in Eb. cbn in Eb. injection Eb as <- _. reflexivity.
    - eapply hs_ensure_block; eauto. }
  destruct (sri_loop _ _ _ _ _ _ _ _) as [[[s3 rs] have]|] eqn:H3; [|discriminate].
  apply sri_loop_hs in H3; [|exact K2].
  match type of H with context [fold_left ?F ?N (s3, rs)] =>
    pose proof (sri_add_new_hs dbid ibid have N s3 rs H3) as K4;
    destruct (fold_left F N (s3, rs)) as [s4 rs'] end. cbn [fst] in K4.
  injection H as <-. apply (hs_heap s4); [reflexivity | exact K4].
Qed.

(* ---------------------------------------------------------------- the invariant *)
Record EditInv (f : file) : Prop := {
  ei_coherent : Coherent f;
  ei_blocks : BlockIdsOk (fsyn f);
  ei_settable : HeapSettable (fsyn f)
}.

Lemma heap_settable_require f : HeapSettable (fsyn f) -> RequireSettable f.
Proof. intros H r i _ _ _. apply settable_iff. apply H. Qed.

Theorem edit_inv_step o f f' :
  valid_args o = true -> EditInv f -> apply o f = ROk f' \/ apply o f = RErr f' -> EditInv f'.
Proof.
  intros Hv [Hc Hb Hs] H.
  destruct (not_sri o) eqn:Ens.
  - pose proof (apply_syn_inv o f Ens Hc (conj Hb Hs)) as Hsi. unfold res_inv in Hsi.
    assert (Hsyn : SynInv (fsyn f')) by (destruct H as [H|H]; rewrite H in Hsi; exact Hsi).
    destruct Hsyn as [Hb' Hs']. split; [|exact Hb' | exact Hs'].
    destruct (coh_op2 o) eqn:Eco; [eapply coherent_invariant_but_set_require; eauto|].
    destruct o; try discriminate Eco; try discriminate Ens. cbn [apply] in H. cbn in Hv.
    destruct H as [H|H]; [apply lift_some in H | exfalso; exact (lift_not_err _ _ H)].
    eapply set_require_coherent; eauto. apply heap_settable_require. exact Hs.
  - destruct o; try discriminate Ens. cbn [apply] in H. cbn in Hv.
    destruct H as [H|H]; [apply lift_some in H | exfalso; exact (lift_not_err _ _ H)].
    pose proof (sri_hs f l f' H Hs) as Hs'.
    destruct (set_require_separate_indirect_pre_sort f l f' Hv Hc Hb (heap_settable_require f Hs) H) as [g [-> [Hg Hbg]]].
    assert (Hsg : HeapSettable (fsyn g)) by (apply (hs_heap (fsyn (sort_blocks g))); [reflexivity | exact Hs']).
    destruct (inv_sort_blocks g (conj Hbg Hsg)) as [Hb' _].
    split; [apply sort_blocks_coherent; exact Hg | exact Hb' | exact Hs'].
Qed.

Theorem edit_inv_run ops : forall f k er errs f',
  EditInv f -> Forall (fun o => valid_args o = true) ops ->
  run_from k er ops f = RunOk errs f' -> EditInv f'.
Proof.
  induction ops as [|o r IH]; intros f k er errs f' Hi Hall H; cbn in H.
  - injection H as _ <-. exact Hi.
  - inversion Hall as [|? ? Hv Hr]; subst.
    destruct (apply o f) as [f1|f1|] eqn:Ha; [| |discriminate];
      (eapply (IH f1); [eapply edit_inv_step; eauto | exact Hr | exact H]).
Qed.

Theorem coherent_invariant o f f' :
  valid_args o = true -> Coherent f -> BlockIdsOk (fsyn f) -> HeapSettable (fsyn f) ->
  apply o f = ROk f' \/ apply o f = RErr f' ->
  Coherent f' /\ BlockIdsOk (fsyn f') /\ HeapSettable (fsyn f').
Proof.
  intros Hv Hc Hb Hs H. destruct (edit_inv_step o f f' Hv (Build_EditInv f Hc Hb Hs) H) as [A Bq C]. auto.
Qed.

Theorem run_ops_coherent ops f errs f' :
  Coherent f -> BlockIdsOk (fsyn f) -> HeapSettable (fsyn f) ->
  Forall (fun o => valid_args o = true) ops ->
  run_ops ops f = RunOk errs f' ->
  Coherent f' /\ BlockIdsOk (fsyn f') /\ HeapSettable (fsyn f').
Proof.
  intros Hc Hb Hs Hall H.
  destruct (edit_inv_run ops f O [] errs f' (Build_EditInv f Hc Hb Hs) Hall H) as [A Bq C]. auto.
Qed.
