(* Proofs about the parser (Parse.v): fuel suffices, no internal error, and every
   position in the tree and in errors is a position of the input pointing at the text it
   describes. *)
From Verif.Base Require Import Bytes Utf8.
From Verif.Modfile Require Import Syntax Lex Parse ProofsLex.

(* the text [txt] stands in the input at position [p] *)
Definition at_text (data : str) (p : position) (txt : str) : Prop :=
  exists rest, at_pos data rest p /\ has_prefix rest txt = true.

Lemma at_text_valid data p txt : at_text data p txt -> valid_pos data p.
Proof. intros (rest & H & _). exists rest. exact H. Qed.

(* ---------------------------------------------------------------- what a tree must satisfy *)

Definition comment_ok (data : str) (c : comment) : Prop :=
  c = blank_comment \/ at_text data (c_start c) (c_token c).

Definition comments_ok (data : str) (c : comments) : Prop :=
  Forall (comment_ok data) (cm_before c) /\ Forall (comment_ok data) (cm_suffix c) /\
  Forall (comment_ok data) (cm_after c).

(* Start points at the first token, End is a position of the input *)
Definition line_ok (data : str) (l : line) : Prop :=
  (exists t0 r, l_token l = t0 :: r /\ at_text data (l_start l) t0) /\
  valid_pos data (l_end l) /\ comments_ok data (l_comments l).

Definition paren_ok (data : str) (c : Z) (x : paren) : Prop :=
  at_text data (pr_pos x) [c] /\ comments_ok data (pr_comments x).

Definition block_ok (data : str) (b : line_block) : Prop :=
  (exists t0 r, b_token b = t0 :: r /\ at_text data (b_start b) t0) /\
  paren_ok data 40 (b_lparen b) /\ paren_ok data 41 (b_rparen b) /\
  Forall (line_ok data) (b_line b) /\ comments_ok data (b_comments b).

Definition expr_ok (data : str) (x : expr) : Prop :=
  match x with
  | ELine l => line_ok data l
  | EBlock b => block_ok data b
  | ECommentBlock c => valid_pos data (cb_start c) /\ comments_ok data (cb_comments c)
  end.

Definition file_ok (data : str) (f : file_syntax) : Prop :=
  comments_ok data (f_comments f) /\ Forall (expr_ok data) (f_stmt f).

Lemma comments_ok_none data : comments_ok data no_comments.
Proof. repeat split; constructor. Qed.

(* ---------------------------------------------------------------- the parser state *)

Section Parser.
Variable data : str.
Variable lend : lex_end.

(* the tokens not yet consumed: not empty, all delivered by the lexer, and the list ends
   with the EOF token if the lexer reached the end of the input *)
Definition pinv (ts : list token) : Prop :=
  ts <> [] /\ Forall (tok_ok data) ts /\ ends_ok ts lend /\
  match lend with LErr p _ => valid_pos data p | _ => True end.

Definition rgood {A} (V : A -> Prop) (n : nat) (r : pres A) : Prop :=
  match r with
  | ROk a rest => V a /\ pinv rest /\ (length rest <= n)%nat
  | RErr p _ => valid_pos data p
  | RPanic | RFuel => False
  end.

Lemma rgood_weaken {A} (V : A -> Prop) n m r : (n <= m)%nat -> rgood V n r -> rgood V m r.
Proof. destruct r; cbn; intuition lia. Qed.

Lemma ends_ok_tail t ts : ts <> [] -> ends_ok (t :: ts) lend -> ends_ok ts lend.
Proof.
  unfold ends_ok. destruct lend; auto. intros Hne (ts' & t' & E & Ht).
  destruct ts' as [|x ts'].
  - cbn in E. injection E as E1 E2. subst. congruence.
  - cbn in E. injection E as E1 E2. subst. eauto.
Qed.

(* in.lex() *)
Lemma advance_good ts : pinv ts ->
  match advance lend ts with
  | ROk t rest => tok_ok data t /\ pinv rest /\ (length rest <= length ts)%nat /\
                  (is_eof (t_kind t) = false -> (length rest < length ts)%nat) /\
                  (exists tl, ts = t :: tl)
  | RErr p _ => valid_pos data p
  | RPanic | RFuel => False
  end.
Proof.
  intros (Hne & Hall & Hend & Hl). unfold advance.
  destruct ts as [|t [|t2 tl]]; [congruence| |].
  - inversion Hall as [|? ? Ht _]; subst.
    destruct (is_eof (t_kind t)) eqn:Ek.
    + split; [exact Ht|]. split; [repeat split; auto|]. split; [lia|]. split; [intros E; congruence|eauto].
    + unfold fail_of. destruct lend; cbn in *; auto.
      destruct Hend as (ts' & t' & E & Ht'). destruct ts' as [|x [|y ts']]; cbn in E; try discriminate.
      injection E as <-. congruence.
  - inversion Hall as [|? ? Ht Hall']; subst.
    split; [exact Ht|]. split.
    + repeat split; auto; [discriminate|]. eapply ends_ok_tail; eauto. discriminate.
    + split; [cbn; lia|]. split; [intros _; cbn; lia|eauto].
Qed.

Lemma pinv_peek_end ts : pinv ts -> valid_pos data (cur_pos ts).
Proof.
  intros (Hne & Hall & _). destruct ts as [|t tl]; [congruence|]. inversion Hall as [|? ? Ht _]; subst.
  cbn. apply (tk_end _ _ Ht).
Qed.

Lemma tok_at_text t : tok_ok data t -> at_text data (t_pos t) (t_text t).
Proof. intros Ht. exact (tk_pos _ _ Ht). Qed.

Lemma tok_comment_ok t b : tok_ok data t -> comment_ok data (mkComment (t_pos t) (t_text t) b).
Proof. intros Ht. right. cbn. apply tok_at_text. exact Ht. Qed.

Ltac adv ts H :=
  let Ha := fresh "Ha" in
  pose proof (advance_good ts H) as Ha;
  destruct (advance lend ts) as [?tok ?ts1| ? ?| |]; cbn [bind]; [|exact Ha|contradiction|contradiction].

Lemma is_eol_not_eof k : is_eol k = false -> is_eof k = false.
Proof. destruct k; cbn; congruence. Qed.

(* parseLine *)
Lemma line_loop_good : forall f start endp tokens_r ts,
  pinv ts -> (length ts + 1 <= f)%nat ->
  (exists t0 r, tokens_r = r ++ [t0] /\ at_text data start t0) -> valid_pos data endp ->
  rgood (line_ok data) (length ts) (line_loop f lend start endp tokens_r ts).
Proof.
  induction f as [|f IH]; intros start endp tokens_r ts Hp Hf Htok Hend; [lia|]. cbn [line_loop].
  adv ts Hp. destruct Ha as (Hok & Hp1 & Hle & Hlt & _).
  destruct (is_eol (t_kind tok)) eqn:Ek.
  - cbn. split; [|split; [exact Hp1|exact Hle]].
    split; [|split; [exact Hend|apply comments_ok_none]].
    destruct Htok as (t0 & r & -> & Ht0). cbn [l_token l_start]. rewrite frev_rev, rev_app_distr. cbn. eauto.
  - specialize (Hlt (is_eol_not_eof _ Ek)).
    eapply rgood_weaken; [|apply IH; auto].
    + lia.
    + lia.
    + destruct Htok as (t0 & r & -> & Ht0). exists t0, (t_text tok :: r). auto.
    + apply (tk_end _ _ Hok).
Qed.

Lemma parse_line_good f ts : pinv ts -> (length ts <= f)%nat -> is_eol (peek ts) = false ->
  rgood (line_ok data) (length ts - 1) (parse_line f lend ts).
Proof.
  intros Hp Hf Hpk. unfold parse_line. adv ts Hp. destruct Ha as (Hok & Hp1 & Hle & Hlt & (tl & ->)).
  cbn [peek] in Hpk. rewrite Hpk. specialize (Hlt (is_eol_not_eof _ Hpk)).
  eapply rgood_weaken; [|apply line_loop_good; auto].
  - lia.
  - lia.
  - exists (t_text tok), []. split; [reflexivity|apply tok_at_text; exact Hok].
  - apply (tk_end _ _ Hok).
Qed.

Lemma line_set_before_ok l cs : line_ok data l -> Forall (comment_ok data) cs ->
  line_ok data (line_set_before l cs).
Proof.
  intros (Ht & He & (Hb & Hs & Ha)) Hcs. split; [exact Ht|]. split; [exact He|].
  split; [exact Hcs|]. split; assumption.
Qed.

Lemma Forall_frev {A} (P : A -> Prop) l : Forall P l -> Forall P (frev l).
Proof. intros H. rewrite frev_rev. apply Forall_rev. exact H. Qed.

Lemma punct_at_text t c : tok_ok data t -> t_kind t = KPunct c -> at_text data (t_pos t) [c].
Proof. intros Ht Hk. rewrite <- (tk_punct _ _ Ht c Hk). apply tok_at_text. exact Ht. Qed.

(* parseLineBlock *)
Lemma block_loop_good : forall f start btoks lparen coms_r lines_r ts,
  pinv ts -> (length ts + 1 <= f)%nat ->
  (exists t0 r, btoks = t0 :: r /\ at_text data start t0) ->
  tok_ok data lparen -> t_kind lparen = KPunct 40 ->
  Forall (comment_ok data) coms_r -> Forall (line_ok data) lines_r ->
  rgood (block_ok data) (length ts) (block_loop f lend start btoks lparen coms_r lines_r ts).
Proof.
  induction f as [|f IH]; intros start btoks lparen coms_r lines_r ts Hp Hf Hbt Hlp Hlk Hcs Hls; [lia|].
  cbn [block_loop].
  assert (Hline : is_eol (peek ts) = false ->
    rgood (block_ok data) (length ts)
      (bind (parse_line f lend ts)
         (fun l ts1 => block_loop f lend start btoks lparen [] (line_set_before l (frev coms_r) :: lines_r) ts1))).
  { intros Hk. pose proof (parse_line_good f ts Hp ltac:(lia) Hk) as Hg.
    destruct (parse_line f lend ts) as [l ts1| | |]; cbn [bind]; cbn in Hg; try contradiction; [|exact Hg].
    destruct Hg as (Hl & Hp1 & Hle).
    assert (length ts <> 0)%nat by (destruct Hp as (Hne & _); destruct ts; cbn; congruence).
    eapply rgood_weaken; [|apply IH; auto].
    - lia.
    - lia.
    - constructor; [|exact Hls]. apply line_set_before_ok; [exact Hl|apply Forall_frev; exact Hcs]. }
  destruct (peek ts) as [| | | | |c] eqn:Epk.
  - (* EOF *) cbn. apply pinv_peek_end. exact Hp.
  - (* EOLCOMMENT *)
    adv ts Hp. destruct Ha as (Hok & Hp1 & Hle & Hlt & (tl & ->)). cbn [peek] in Epk.
    specialize (Hlt ltac:(rewrite Epk; reflexivity)).
    eapply rgood_weaken; [|apply IH; auto]; lia.
  - apply Hline. reflexivity.
  - apply Hline. reflexivity.
  - (* COMMENT *)
    adv ts Hp. destruct Ha as (Hok & Hp1 & Hle & Hlt & (tl & ->)). cbn [peek] in Epk.
    specialize (Hlt ltac:(rewrite Epk; reflexivity)).
    eapply rgood_weaken; [|apply IH; auto]; try lia.
    constructor; [apply tok_comment_ok; exact Hok|exact Hcs].
  - destruct (c =? 10) eqn:E10.
    { adv ts Hp. destruct Ha as (Hok & Hp1 & Hle & Hlt & (tl & ->)). cbn [peek] in Epk.
      specialize (Hlt ltac:(rewrite Epk; reflexivity)).
      eapply rgood_weaken; [|apply IH; auto]; try lia.
      destruct (_ || _); [constructor; [left; reflexivity|exact Hcs]|exact Hcs]. }
    destruct (c =? 41) eqn:E41; [|apply Hline; cbn; exact E10].
    apply Z.eqb_eq in E41. subst c.
    adv ts Hp. destruct Ha as (Hok & Hp1 & Hle & Hlt & (tl & ->)). cbn [peek] in Epk.
    destruct (is_eol (peek ts1)) eqn:Eeol; cbn [negb].
    + adv ts1 Hp1. destruct Ha as (Hok2 & Hp2 & Hle2 & _).
      cbn [rgood]. split; [|split; [exact Hp2|lia]].
      split; [exact Hbt|]. split; [split; [apply punct_at_text; auto|apply comments_ok_none]|].
      split; [split; [apply punct_at_text; auto|]|].
      * split; [apply Forall_frev; exact Hcs|split; constructor].
      * split; [apply Forall_frev; exact Hls|apply comments_ok_none].
    + cbn. apply pinv_peek_end. exact Hp1.
Qed.

Lemma is_kpunct_true k c : is_kpunct k c = true -> k = KPunct c.
Proof. destruct k; cbn; try discriminate. intros H. apply Z.eqb_eq in H. congruence. Qed.

(* parseStmt *)
Lemma stmt_loop_good : forall f start endp tokens_r ts,
  pinv ts -> (length ts + 1 <= f)%nat ->
  (exists t0 r, tokens_r = r ++ [t0] /\ at_text data start t0) -> valid_pos data endp ->
  rgood (expr_ok data) (length ts) (stmt_loop f lend start endp tokens_r ts).
Proof.
  induction f as [|f IH]; intros start endp tokens_r ts Hp Hf Htok Hend; [lia|]. cbn [stmt_loop].
  assert (Hfirst : exists t0 r, frev tokens_r = t0 :: r /\ at_text data start t0).
  { destruct Htok as (t0 & r & -> & Ht0). rewrite frev_rev, rev_app_distr. cbn. eauto. }
  assert (Hext : forall x, exists t0 r, x :: tokens_r = r ++ [t0] /\ at_text data start t0).
  { intros x. destruct Htok as (t0 & r & -> & Ht0). exists t0, (x :: r). auto. }
  adv ts Hp. destruct Ha as (Hok & Hp1 & Hle & Hlt & _).
  destruct (is_eol (t_kind tok)) eqn:Ek.
  { cbn [rgood]. split; [|split; [exact Hp1|exact Hle]].
    cbn [expr_ok]. split; [exact Hfirst|]. split; [exact Hend|apply comments_ok_none]. }
  specialize (Hlt (is_eol_not_eof _ Ek)).
  destruct (is_kpunct (t_kind tok) 40) eqn:E40.
  2:{ eapply rgood_weaken; [|apply IH; [exact Hp1|lia|apply Hext|apply (tk_end _ _ Hok)]]; lia. }
  apply is_kpunct_true in E40.
  destruct (is_eol (peek ts1)) eqn:Eeol.
  { pose proof (block_loop_good f start (frev tokens_r) tok [] [] ts1 Hp1 ltac:(lia) Hfirst Hok E40
                                (Forall_nil _) (Forall_nil _)) as Hg.
    destruct (block_loop f lend start (frev tokens_r) tok [] [] ts1) as [b ts2| | |]; cbn [bind]; cbn in Hg;
      try contradiction; [|exact Hg].
    destruct Hg as (Hb & Hp2 & Hle2). cbn [rgood expr_ok]. split; [exact Hb|]. split; [exact Hp2|lia]. }
  destruct (is_kpunct (peek ts1) 41) eqn:E41.
  2:{ eapply rgood_weaken; [|apply IH; [exact Hp1|lia|apply Hext|exact Hend]]; lia. }
  apply is_kpunct_true in E41.
  adv ts1 Hp1. destruct Ha as (Hok2 & Hp2 & Hle2 & Hlt2 & (tl2 & ->)). cbn [peek] in E41.
  specialize (Hlt2 ltac:(rewrite E41; reflexivity)).
  destruct (is_eol (peek ts0)) eqn:Eeol2.
  - adv ts0 Hp2. destruct Ha as (Hok3 & Hp3 & Hle3 & _).
    cbn [rgood expr_ok]. split; [|split; [exact Hp3|lia]].
    split; [exact Hfirst|]. split; [split; [apply punct_at_text; auto|apply comments_ok_none]|].
    split; [split; [apply punct_at_text; auto|apply comments_ok_none]|].
    split; [constructor|apply comments_ok_none].
  - eapply rgood_weaken; [|apply IH; [exact Hp2|lia| |exact Hend]]; [lia|].
    destruct Htok as (t0 & r & -> & Ht0). exists t0, (t_text tok0 :: t_text tok :: r). auto.
Qed.

Lemma parse_stmt_good f ts : pinv ts -> (length ts <= f)%nat -> is_eof (peek ts) = false ->
  rgood (expr_ok data) (length ts - 1) (parse_stmt f lend ts).
Proof.
  intros Hp Hf Hpk. unfold parse_stmt. adv ts Hp. destruct Ha as (Hok & Hp1 & Hle & Hlt & (tl & ->)).
  cbn [peek] in Hpk. specialize (Hlt Hpk).
  eapply rgood_weaken; [|apply stmt_loop_good; auto].
  - lia.
  - lia.
  - exists (t_text tok), []. split; [reflexivity|apply tok_at_text; exact Hok].
  - apply (tk_end _ _ Hok).
Qed.

Lemma expr_set_before_ok x cs : expr_ok data x -> Forall (comment_ok data) cs ->
  expr_ok data (expr_set_comments x (set_before (expr_comments x) cs)).
Proof.
  destruct x as [l|b|c]; cbn.
  - intros (Ht & He & (Hb & Hs & Ha)) Hcs. repeat split; auto.
  - intros (Ht & Hl & Hr & Hls & (Hb & Hs & Ha)) Hcs. repeat split; auto; try apply Hl; try apply Hr.
  - intros (Hv & (Hb & Hs & Ha)) Hcs. repeat split; auto.
Qed.

Definition cb_ok (cb : pending_cb) : Prop :=
  match cb with
  | Some (p, b) => valid_pos data p /\ Forall (comment_ok data) b
  | None => True
  end.

Lemma push_cb_ok cb stmts_r : cb_ok cb -> Forall (expr_ok data) stmts_r -> Forall (expr_ok data) (push_cb cb stmts_r).
Proof.
  destruct cb as [[p b]|]; cbn; auto. intros (Hv & Hb) Hs. constructor; [|exact Hs].
  cbn. split; [exact Hv|]. split; [apply Forall_frev; exact Hb|split; constructor].
Qed.

(* parseFile *)
Lemma file_loop_good : forall f cb stmts_r ts,
  pinv ts -> (length ts + 2 <= f)%nat -> cb_ok cb -> Forall (expr_ok data) stmts_r ->
  rgood (Forall (expr_ok data)) (length ts) (file_loop f lend cb stmts_r ts).
Proof.
  induction f as [|f IH]; intros cb stmts_r ts Hp Hf Hcb Hs; [lia|]. cbn [file_loop].
  assert (Hstmt : is_eof (peek ts) = false -> is_kpunct (peek ts) 10 = false ->
    rgood (Forall (expr_ok data)) (length ts)
      (bind (parse_stmt f lend ts)
        (fun s ts1 =>
          let stmts1 := s :: stmts_r in
          match cb with
          | None => file_loop f lend None stmts1 ts1
          | Some (_, b) =>
              match stmts1 with
              | [] => RPanic
              | lst :: r =>
                  file_loop f lend None
                    (expr_set_comments lst (set_before (expr_comments lst) (frev b)) :: r) ts1
              end
          end))).
  { intros Hk _. pose proof (parse_stmt_good f ts Hp ltac:(lia) Hk) as Hg.
    destruct (parse_stmt f lend ts) as [x ts1| | |]; cbn [bind]; cbn in Hg; try contradiction; [|exact Hg].
    destruct Hg as (Hx & Hp1 & Hle).
    assert (length ts <> 0)%nat by (destruct Hp as (Hne & _); destruct ts; cbn; congruence).
    destruct cb as [[p b]|]; cbn zeta.
    - eapply rgood_weaken; [|apply IH; auto; try exact I]; try lia.
      constructor; [|exact Hs]. apply expr_set_before_ok; [exact Hx|]. apply Forall_frev. apply Hcb.
    - eapply rgood_weaken; [|apply IH; auto]; try lia. }
  destruct (peek ts) as [| | | | |c] eqn:Epk.
  - (* EOF *) cbn [rgood]. split; [|split; [exact Hp|lia]]. apply Forall_frev. apply push_cb_ok; auto.
  - apply Hstmt; reflexivity.
  - apply Hstmt; reflexivity.
  - apply Hstmt; reflexivity.
  - (* COMMENT *)
    adv ts Hp. destruct Ha as (Hok & Hp1 & Hle & Hlt & (tl & ->)). cbn [peek] in Epk.
    specialize (Hlt ltac:(rewrite Epk; reflexivity)).
    eapply rgood_weaken; [|apply IH; auto]; try lia.
    destruct cb as [[p b]|]; cbn.
    + destruct Hcb as (Hv & Hb). split; [exact Hv|]. constructor; [apply tok_comment_ok; exact Hok|exact Hb].
    + split; [apply (at_text_valid _ _ _ (tok_at_text _ Hok))|]. constructor; [apply tok_comment_ok; exact Hok|constructor].
  - cbn [is_kpunct]. destruct (c =? 10) eqn:E10; [|apply Hstmt; [reflexivity|cbn; exact E10]].
    adv ts Hp. destruct Ha as (Hok & Hp1 & Hle & Hlt & (tl & ->)). cbn [peek] in Epk.
    specialize (Hlt ltac:(rewrite Epk; reflexivity)).
    eapply rgood_weaken; [|apply IH; auto; try exact I]; try lia.
    apply push_cb_ok; auto.
Qed.
End Parser.

(* ---------------------------------------------------------------- comment assignment *)

Section Assign.
Variable data : str.
Notation cok := (comment_ok data).

Lemma span_by_Forall {A} (P : A -> Prop) (p : A -> bool) l :
  Forall P l -> Forall P (fst (span_by p l)) /\ Forall P (snd (span_by p l)).
Proof.
  induction 1 as [|x l Hx Hl IH]; cbn; [split; constructor|].
  destruct (p x); cbn; [|split; [constructor|constructor; assumption]].
  destruct (span_by p l) as [a b]. cbn in *. destruct IH. split; [constructor|]; assumption.
Qed.

Lemma take_before_ok start c pending :
  comments_ok data c -> Forall cok pending ->
  comments_ok data (fst (take_before start c pending)) /\ Forall cok (snd (take_before start c pending)).
Proof.
  intros (Hb & Hs & Ha) Hp. unfold take_before.
  destruct (span_by_Forall cok (fun x => p_byte (c_start x) <=? p_byte start) pending Hp) as [H1 H2].
  destruct (span_by _ pending) as [tk rest]. cbn in *.
  split; [|exact H2]. split; [apply Forall_app; split; assumption|split; assumption].
Qed.

Lemma take_suffix_ok sp c sr :
  comments_ok data c -> Forall cok sr ->
  comments_ok data (fst (take_suffix sp c sr)) /\ Forall cok (snd (take_suffix sp c sr)).
Proof.
  intros (Hb & Hs & Ha) Hp. unfold take_suffix.
  destruct (p_line (fst sp) =? p_line (snd sp)).
  - destruct (span_by_Forall cok (fun x => p_byte (snd sp) <=? p_byte (c_start x)) sr Hp) as [H1 H2].
    destruct (span_by _ sr) as [tk rest]. cbn in *.
    split; [|exact H2]. split; [exact Hb|]. split; [|exact Ha].
    apply Forall_frev. apply Forall_app; split; assumption.
  - cbn. split; [|exact Hp]. split; [exact Hb|]. split; [apply Forall_frev; exact Hs|exact Ha].
Qed.

Lemma line_set_comments_ok l c : line_ok data l -> comments_ok data c -> line_ok data (line_set_comments l c).
Proof. intros (Ht & He & _) Hc. split; [exact Ht|split; [exact He|exact Hc]]. Qed.

Lemma pre_line_ok l pending : line_ok data l -> Forall cok pending ->
  line_ok data (fst (pre_line l pending)) /\ Forall cok (snd (pre_line l pending)).
Proof.
  intros Hl Hp. unfold pre_line.
  destruct (take_before_ok (l_start l) (l_comments l) pending) as [H1 H2]; [apply Hl|exact Hp|].
  destruct (take_before _ _ _) as [c p]. cbn in *. split; [apply line_set_comments_ok; assumption|exact H2].
Qed.

Lemma post_line_ok l sr : line_ok data l -> Forall cok sr ->
  line_ok data (fst (post_line l sr)) /\ Forall cok (snd (post_line l sr)).
Proof.
  intros Hl Hp. unfold post_line.
  destruct (take_suffix_ok (l_start l, l_end l) (l_comments l) sr) as [H1 H2]; [apply Hl|exact Hp|].
  destruct (take_suffix _ _ _) as [c p]. cbn in *. split; [apply line_set_comments_ok; assumption|exact H2].
Qed.

Lemma pre_lines_ok : forall ls pending acc, Forall (line_ok data) ls -> Forall cok pending ->
  Forall (line_ok data) acc ->
  Forall (line_ok data) (fst (pre_lines ls pending acc)) /\ Forall cok (snd (pre_lines ls pending acc)).
Proof.
  induction ls as [|l ls IH]; intros pending acc Hls Hp Hacc; cbn [pre_lines].
  - cbn. split; [apply Forall_frev; exact Hacc|exact Hp].
  - inversion Hls as [|? ? Hl Hls']; subst.
    destruct (pre_line_ok l pending Hl Hp) as [H1 H2]. destruct (pre_line l pending) as [l' p1]. cbn in *.
    apply IH; auto.
Qed.

Lemma post_lines_ok : forall ls sr acc, Forall (line_ok data) ls -> Forall cok sr ->
  Forall (line_ok data) acc ->
  Forall (line_ok data) (fst (post_lines ls sr acc)) /\ Forall cok (snd (post_lines ls sr acc)).
Proof.
  induction ls as [|l ls IH]; intros sr acc Hls Hp Hacc; cbn [post_lines].
  - cbn. split; assumption.
  - inversion Hls as [|? ? Hl Hls']; subst.
    destruct (post_line_ok l sr Hl Hp) as [H1 H2]. destruct (post_line l sr) as [l' p1]. cbn in *.
    apply IH; auto.
Qed.

Lemma pre_paren_ok ch x pending : paren_ok data ch x -> Forall cok pending ->
  paren_ok data ch (fst (pre_paren x pending)) /\ Forall cok (snd (pre_paren x pending)).
Proof.
  intros (Ht & Hc) Hp. unfold pre_paren.
  destruct (take_before_ok (pr_pos x) (pr_comments x) pending Hc Hp) as [H1 H2].
  destruct (take_before _ _ _) as [c p]. cbn in *. split; [split; assumption|exact H2].
Qed.

Lemma post_paren_ok ch x sr : paren_ok data ch x -> Forall cok sr ->
  paren_ok data ch (fst (post_paren x sr)) /\ Forall cok (snd (post_paren x sr)).
Proof.
  intros (Ht & Hc) Hp. unfold post_paren.
  destruct (take_suffix_ok (paren_span x) (pr_comments x) sr Hc Hp) as [H1 H2].
  destruct (take_suffix _ _ _) as [c p]. cbn in *. split; [split; assumption|exact H2].
Qed.

Lemma pre_expr_ok x pending : expr_ok data x -> Forall cok pending ->
  expr_ok data (fst (pre_expr x pending)) /\ Forall cok (snd (pre_expr x pending)).
Proof.
  destruct x as [l|b|c]; cbn [pre_expr expr_ok].
  - intros Hl Hp. destruct (pre_line_ok l pending Hl Hp) as [H1 H2].
    destruct (pre_line l pending) as [l' p]. cbn in *. auto.
  - intros (Ht & Hlp & Hrp & Hls & Hc) Hp.
    destruct (take_before_ok (b_start b) (b_comments b) pending Hc Hp) as [A1 A2].
    destruct (take_before (b_start b) (b_comments b) pending) as [c p0]. cbn [fst snd] in *.
    destruct (pre_paren_ok 40 (b_lparen b) p0 Hlp A2) as [B1 B2].
    destruct (pre_paren (b_lparen b) p0) as [lp p1]. cbn [fst snd] in *.
    destruct (pre_lines_ok (b_line b) p1 [] Hls B2 (Forall_nil _)) as [C1 C2].
    destruct (pre_lines (b_line b) p1 []) as [ls p2]. cbn [fst snd] in *.
    destruct (pre_paren_ok 41 (b_rparen b) p2 Hrp C2) as [D1 D2].
    destruct (pre_paren (b_rparen b) p2) as [rp p3]. cbn [fst snd] in *.
    split; [|exact D2]. cbn [expr_ok]. unfold block_ok. cbn [b_token b_start b_lparen b_rparen b_line b_comments].
    split; [exact Ht|]. split; [exact B1 || exact D1|]. split; [exact D1 || exact B1|]. split; [exact C1|exact A1].
  - intros (Hv & Hc) Hp.
    destruct (take_before_ok (cb_start c) (cb_comments c) pending Hc Hp) as [A1 A2].
    destruct (take_before _ _ _) as [c' p]. cbn in *. auto.
Qed.

Lemma post_expr_ok x sr : expr_ok data x -> Forall cok sr ->
  expr_ok data (fst (post_expr x sr)) /\ Forall cok (snd (post_expr x sr)).
Proof.
  destruct x as [l|b|c]; cbn [post_expr expr_ok].
  - intros Hl Hp. destruct (post_line_ok l sr Hl Hp) as [H1 H2].
    destruct (post_line l sr) as [l' p]. cbn in *. auto.
  - intros (Ht & Hlp & Hrp & Hls & Hc) Hp.
    destruct (take_suffix_ok (expr_span (EBlock b)) (b_comments b) sr Hc Hp) as [A1 A2].
    destruct (take_suffix (expr_span (EBlock b)) (b_comments b) sr) as [c s0]. cbn [fst snd] in *.
    destruct (post_paren_ok 41 (b_rparen b) s0 Hrp A2) as [B1 B2].
    destruct (post_paren (b_rparen b) s0) as [rp s1]. cbn [fst snd] in *.
    destruct (post_lines_ok (frev (b_line b)) s1 [] (Forall_frev _ _ Hls) B2 (Forall_nil _)) as [C1 C2].
    destruct (post_lines (frev (b_line b)) s1 []) as [ls s2]. cbn [fst snd] in *.
    destruct (post_paren_ok 40 (b_lparen b) s2 Hlp C2) as [D1 D2].
    destruct (post_paren (b_lparen b) s2) as [lp s3]. cbn [fst snd] in *.
    split; [|exact D2]. cbn [expr_ok]. unfold block_ok. cbn [b_token b_start b_lparen b_rparen b_line b_comments].
    split; [exact Ht|]. split; [exact B1 || exact D1|]. split; [exact D1 || exact B1|]. split; [exact C1|exact A1].
  - intros (Hv & Hc) Hp.
    destruct (take_suffix_ok (cb_start c, cb_start c) (cb_comments c) sr Hc Hp) as [A1 A2].
    destruct (take_suffix _ _ _) as [c' p]. cbn in *. auto.
Qed.

Lemma pre_stmts_ok : forall l pending acc, Forall (expr_ok data) l -> Forall cok pending ->
  Forall (expr_ok data) acc ->
  Forall (expr_ok data) (fst (pre_stmts l pending acc)) /\ Forall cok (snd (pre_stmts l pending acc)).
Proof.
  induction l as [|x l IH]; intros pending acc Hl Hp Hacc; cbn [pre_stmts].
  - cbn. split; [apply Forall_frev; exact Hacc|exact Hp].
  - inversion Hl as [|? ? Hx Hl']; subst.
    destruct (pre_expr_ok x pending Hx Hp) as [H1 H2]. destruct (pre_expr x pending) as [x' p1]. cbn in *.
    apply IH; auto.
Qed.

Lemma post_stmts_ok : forall l sr acc, Forall (expr_ok data) l -> Forall cok sr ->
  Forall (expr_ok data) acc ->
  Forall (expr_ok data) (fst (post_stmts l sr acc)) /\ Forall cok (snd (post_stmts l sr acc)).
Proof.
  induction l as [|x l IH]; intros sr acc Hl Hp Hacc; cbn [post_stmts].
  - cbn. split; assumption.
  - inversion Hl as [|? ? Hx Hl']; subst.
    destruct (post_expr_ok x sr Hx Hp) as [H1 H2]. destruct (post_expr x sr) as [x' p1]. cbn in *.
    apply IH; auto.
Qed.

Lemma filter_r_Forall {A} (P : A -> Prop) p : forall l acc, Forall P l -> Forall P acc -> Forall P (filter_r p l acc).
Proof.
  induction l as [|x l IH]; intros acc Hl Hacc; cbn; [exact Hacc|].
  inversion Hl; subst. apply IH; auto. destruct (p x); auto.
Qed.

Lemma assign_comments_ok name stmts coms : Forall (expr_ok data) stmts -> Forall cok coms ->
  file_ok data (assign_comments name stmts coms).
Proof.
  intros Hs Hc. unfold assign_comments.
  pose proof (Forall_frev _ _ (filter_r_Forall cok (fun c => negb (c_suffix c)) coms [] Hc (Forall_nil _))) as Hl.
  pose proof (Forall_frev _ _ (filter_r_Forall cok c_suffix coms [] Hc (Forall_nil _))) as Hsu.
  set (linec := frev (filter_r (fun c => negb (c_suffix c)) coms [])) in *.
  set (suffix := frev (filter_r c_suffix coms [])) in *.
  destruct (take_before_ok (fst (file_span stmts)) no_comments linec (comments_ok_none data) Hl) as [A1 A2].
  destruct (take_before (fst (file_span stmts)) no_comments linec) as [fc p0]. cbn [fst snd] in *.
  destruct (pre_stmts_ok stmts p0 [] Hs A2 (Forall_nil _)) as [B1 B2].
  destruct (pre_stmts stmts p0 []) as [stmts1 p1]. cbn [fst snd] in *.
  destruct (post_stmts_ok (frev stmts1) (frev suffix) [] (Forall_frev _ _ B1) (Forall_frev _ _ Hsu) (Forall_nil _)) as [C1 C2].
  destruct (post_stmts (frev stmts1) (frev suffix) []) as [stmts2 s1]. cbn [fst snd] in *.
  destruct A1 as (Ab & As & Aa).
  split; [|exact C1]. cbn. split; [|split].
  - apply Forall_app. split; [exact Ab|apply Forall_frev; exact C2].
  - apply Forall_frev. exact As.
  - apply Forall_app. split; assumption.
Qed.
End Assign.

(* ---------------------------------------------------------------- parse *)

Lemma comments_of_ok data ts : Forall (tok_ok data) ts -> Forall (comment_ok data) (comments_of ts).
Proof.
  intros H. unfold comments_of. apply Forall_frev.
  assert (G : forall acc, Forall (comment_ok data) acc ->
     Forall (comment_ok data)
       (fold_left (fun acc t => match t_kind t with
                                | KEOLComment => mkComment (t_pos t) (t_text t) true :: acc
                                | _ => acc end) ts acc)).
  { induction H as [|t ts Ht Hts IH]; intros acc Hacc; cbn; [exact Hacc|].
    apply IH. destruct (t_kind t); auto. constructor; [|exact Hacc]. right. cbn. exact (tk_pos _ _ Ht). }
  apply G. constructor.
Qed.

(* what parse delivers *)
Definition parse_good (data : str) (r : parse_result) : Prop :=
  match r with
  | POk s => file_ok data s
  | PErrs l => l <> [] /\ Forall (fun pe => valid_pos data (fst pe)) l
  | PPanic | POutOfFuel => False
  end.

Theorem parse_named_good name data : parse_good data (parse_named name data).
Proof.
  unfold parse_named. pose proof (lex_good data) as (Hall & Hend & Herr).
  destruct (lex data) as [ts lend]. cbn [fst snd] in *. unfold parse_tokens.
  destruct ts as [|t0 ts].
  - unfold fail_of. destruct lend; cbn in *; try contradiction.
    + destruct Hend as (ts' & t & E & _). destruct ts'; discriminate.
    + split; [discriminate|]. constructor; [exact Herr|constructor].
  - assert (Hp : pinv data lend (t0 :: ts)).
    { split; [discriminate|]. split; [exact Hall|]. split; [exact Hend|]. destruct lend; auto. }
    pose proof (file_loop_good data lend (parse_fuel (t0 :: ts)) None [] (t0 :: ts) Hp) as Hg.
    specialize (Hg ltac:(unfold parse_fuel; lia) I (Forall_nil _)).
    destruct (file_loop _ lend None [] (t0 :: ts)) as [stmts rest|p e| |]; cbn in Hg; try contradiction.
    + destruct Hg as (Hs & _). cbn [parse_good]. apply assign_comments_ok; [exact Hs|]. apply comments_of_ok. exact Hall.
    + cbn. split; [discriminate|]. constructor; [exact Hg|constructor].
Qed.

Theorem parse_good_thm data : parse_good data (parse data).
Proof. apply parse_named_good. Qed.

Corollary parse_fuel_enough data : parse data <> POutOfFuel.
Proof. pose proof (parse_good_thm data) as H. destruct (parse data); cbn in H; try contradiction; discriminate. Qed.

Corollary parse_no_internal_error data : parse data <> PPanic.
Proof. pose proof (parse_good_thm data) as H. destruct (parse data); cbn in H; try contradiction; discriminate. Qed.
