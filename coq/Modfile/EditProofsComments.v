(* C08: lines an operation does not address keep their comments. *)
From Verif.Base Require Import Bytes.
From Verif.Modfile Require Import EditModel EditOps EditSpec EditProofsHeap.

Definition com_le (c c' : coms) : Prop :=
  (exists p, c_before c' = p ++ c_before c) /\
  (exists q, c_suffix c' = c_suffix c ++ q) /\
  (exists q, c_after c' = c_after c ++ q).

Lemma com_le_refl c : com_le c c.
Proof. repeat split; [exists [] | exists [] | exists []]; rewrite ?app_nil_r; reflexivity. Qed.

Lemma com_le_trans a b c : com_le a b -> com_le b c -> com_le a c.
Proof.
  intros [[p1 H1] [[q1 H2] [r1 H3]]] [[p2 H4] [[q2 H5] [r2 H6]]]. repeat split.
  - exists (p2 ++ p1). rewrite H4, H1, app_assoc. reflexivity.
  - exists (q1 ++ q2). rewrite H5, H2, app_assoc. reflexivity.
  - exists (r1 ++ r2). rewrite H6, H3, app_assoc. reflexivity.
Qed.

(* every line that exists in s and is not in T keeps its comments in s' (a collapsing
   Cleanup may add the block's comments around them) *)
Definition keeps_except (T : list (option lid)) (s s' : syntax) : Prop :=
  (heap_len s <= heap_len s')%nat /\
  forall i, (i < heap_len s)%nat -> ~ In (Some i) T ->
            com_le (hl_com (sget s i)) (hl_com (sget s' i)).

Lemma keeps_refl T s : keeps_except T s s.
Proof. split; [lia | intros; apply com_le_refl]. Qed.

Lemma keeps_trans T1 T2 s1 s2 s3 :
  keeps_except T1 s1 s2 -> keeps_except T2 s2 s3 -> keeps_except (T1 ++ T2) s1 s3.
Proof.
  intros [L1 H1] [L2 H2]. split; [lia|]. intros i Hi Hn.
  eapply com_le_trans; [apply H1 | apply H2]; try lia; intros Hin; apply Hn; apply in_app_iff; tauto.
Qed.

Lemma keeps_weaken T T' s s' : incl T T' -> keeps_except T s s' -> keeps_except T' s s'.
Proof. intros Hi [L H]. split; [exact L|]. intros i Hl Hn. apply H; [exact Hl | intros Hin; apply Hn, Hi, Hin]. Qed.

Lemma keeps_update_line s i v a : keeps_except [] s (update_line s i v a).
Proof.
  split; [rewrite update_line_len; lia|]. intros j _ _. rewrite update_line_com. apply com_le_refl.
Qed.

Lemma keeps_mark_removed s i : keeps_except [Some i] s (mark_removed s i).
Proof.
  split; [rewrite mark_removed_len; lia|]. intros j _ Hn.
  rewrite mark_removed_other; [apply com_le_refl|]. intros ->. apply Hn. left. reflexivity.
Qed.

Lemma keeps_sset s i l : keeps_except [Some i] s (sset s i l).
Proof.
  split; [rewrite sset_len; lia|]. intros j _ Hn.
  rewrite sget_sset_other; [apply com_le_refl|]. intros ->. apply Hn. left. reflexivity.
Qed.

Lemma keeps_sset_com s i l : hl_com l = hl_com (sget s i) -> keeps_except [] s (sset s i l).
Proof.
  intros H. split; [rewrite sset_len; lia|]. intros j _ _.
  unfold sget, sset; cbn. rewrite (hget_hset_proj hl_com) by exact H. apply com_le_refl.
Qed.

Lemma keeps_add_line s h verb args : keeps_except [] s (fst (add_line s h verb args)).
Proof.
  destruct (add_line_heap s h verb args) as [_ [Hl [Hold _]]].
  split; [lia|]. intros j Hj _. destruct (Hold j Hj) as [->|[_ ->]]; apply com_le_refl.
Qed.

Lemma keeps_same_heap T s s' : heap s' = heap s -> keeps_except T s s'.
Proof.
  intros H. split; [unfold heap_len; rewrite H; lia|]. intros i _ _. unfold sget. rewrite H. apply com_le_refl.
Qed.

(* Cleanup only extends comments *)
Lemma syn_cleanup_loop_com todo : forall h,
  length (fst (syn_cleanup_loop h todo)) = length h /\
  forall j, com_le (hl_com (hget h j)) (hl_com (hget (fst (syn_cleanup_loop h todo)) j)).
Proof.
  induction todo as [|st rest IH]; intros h; cbn [syn_cleanup_loop].
  - split; [reflexivity | intros; apply com_le_refl].
  - destruct st as [i|b|c].
    + destruct (line_live h i).
      * specialize (IH h). destruct (syn_cleanup_loop h rest) as [h' out]. exact IH.
      * apply IH.
    + destruct (filter (line_live h) (hb_lines b)) as [|j [|j2 more]].
      * apply IH.
      * destruct (nilb (c_before (hb_rp b))).
        -- set (l' := mkHL _ _ false).
           specialize (IH (hset h j l')). destruct (syn_cleanup_loop (hset h j l') rest) as [h' out].
           cbn [fst] in *. destruct IH as [IHl IHc]. rewrite hset_length in IHl. split; [exact IHl|].
           intros k. eapply com_le_trans; [|apply IHc].
           destruct (Nat.eq_dec j k) as [->|Hn]; [|rewrite hget_hset_other by exact Hn; apply com_le_refl].
           destruct (Nat.lt_ge_cases k (length h)) as [Hk|Hk].
           ++ rewrite hget_hset_same by exact Hk. unfold l'; cbn. repeat split; eexists; reflexivity.
           ++ unfold hget at 2. rewrite nth_overflow by (rewrite hset_length; exact Hk).
              unfold hget. rewrite nth_overflow by exact Hk. apply com_le_refl.
        -- specialize (IH h). destruct (syn_cleanup_loop h rest) as [h' out]. exact IH.
      * specialize (IH h). destruct (syn_cleanup_loop h rest) as [h' out]. exact IH.
    + specialize (IH h). destruct (syn_cleanup_loop h rest) as [h' out]. exact IH.
Qed.

Lemma keeps_syn_cleanup s : keeps_except [] s (syn_cleanup s).
Proof.
  unfold syn_cleanup. destruct (syn_cleanup_loop_com (stmts s) (heap s)) as [Hl Hc].
  destruct (syn_cleanup_loop (heap s) (stmts s)) as [h st]. cbn [fst] in *.
  split; [unfold heap_len; cbn; lia|]. intros i _ _. apply Hc.
Qed.

(* ---------------------------------------------------------------- loops *)
Lemma keeps_nil_l T s s' : keeps_except ([] ++ T) s s' -> keeps_except T s s'.
Proof. exact (fun H => H). Qed.

Lemma drop_loop_keeps {E} (m : E -> bool) syn zero s l s' l' :
  drop_loop m syn zero s l = Some (s', l') ->
  keeps_except (map syn (filter m l)) s s'.
Proof.
  revert s s' l'. induction l as [|e r IH]; intros s s' l' H; cbn in H.
  - injection H as <- _. apply keeps_refl.
  - cbn [filter]. destruct (m e).
    + destruct (syn e) as [i|] eqn:Hs; [|discriminate].
      destruct (drop_loop m syn zero (mark_removed s i) r) as [[s1 r1]|] eqn:Hr; [|discriminate].
      injection H as <- _. cbn [map]. rewrite Hs.
      apply (keeps_trans [Some i] _ s (mark_removed s i) s1); [apply keeps_mark_removed | eapply IH; eauto].
    + destruct (drop_loop m syn zero s r) as [[s1 r1]|] eqn:Hr; [|discriminate].
      injection H as <- _. eapply IH; eauto.
Qed.

Lemma upsert_loop_keeps {E} (m : E -> bool) syn zero upd verb args need s l s' l' need' :
  upsert_loop m syn zero upd verb args need s l = Some (s', l', need') ->
  keeps_except (map syn (filter m l)) s s'.
Proof.
  revert need s s' l' need'. induction l as [|e r IH]; intros need s s' l' need' H; cbn in H.
  - injection H as <- _ _. apply keeps_refl.
  - cbn [filter]. destruct (m e).
    + destruct (syn e) as [i|] eqn:Hs; [|discriminate]. cbn [map]. rewrite Hs. destruct need.
      * destruct (upsert_loop m syn zero upd verb args false (update_line s i verb args) r) as [[[s1 r1] n1]|] eqn:Hr; [|discriminate].
        injection H as <- _ _.
        apply (keeps_weaken ([] ++ map syn (filter m r))); [intros x Hx; right; exact Hx|].
        eapply keeps_trans; [apply keeps_update_line | eapply IH; eauto].
      * destruct (upsert_loop m syn zero upd verb args false (mark_removed s i) r) as [[[s1 r1] n1]|] eqn:Hr; [|discriminate].
        injection H as <- _ _.
        apply (keeps_trans [Some i] _ s (mark_removed s i) s1); [apply keeps_mark_removed | eapply IH; eauto].
    + destruct (upsert_loop m syn zero upd verb args need s r) as [[[s1 r1] n1]|] eqn:Hr; [|discriminate].
      injection H as <- _ _. eapply IH; eauto.
Qed.

Lemma add_replace_loop_keeps (op ov np nv : str) need h s l s' l' need' h' :
  add_replace_loop op ov np nv need h s l = Some (s', l', need', h') ->
  keeps_except (map rp_syn (filter (fun r => str_eqb (rp_op r) op && (nilb ov || str_eqb (rp_ov r) ov)) l)) s s'.
Proof.
  revert need h s s' l' need' h'. induction l as [|e r IH]; intros need h s s' l' need' h' H; cbn in H.
  - injection H as <- _ _ _. apply keeps_refl.
  - cbn [filter]. destruct (str_eqb (rp_op e) op && (nilb ov || str_eqb (rp_ov e) ov))%bool.
    + destruct (rp_syn e) as [i|] eqn:Hs; [|discriminate]. cbn [map]. rewrite Hs. destruct need.
      * destruct (add_replace_loop op ov np nv false h _ r) as [[[[s1 r1] n1] h1]|] eqn:Hr; [|discriminate].
        injection H as <- _ _ _.
        apply (keeps_weaken ([] ++ map rp_syn (filter (fun r => str_eqb (rp_op r) op && (nilb ov || str_eqb (rp_ov r) ov)) r)));
          [intros x Hx; right; exact Hx|].
        eapply keeps_trans; [apply keeps_update_line | eapply IH; eauto].
      * destruct (add_replace_loop op ov np nv false _ _ r) as [[[[s1 r1] n1] h1]|] eqn:Hr; [|discriminate].
        injection H as <- _ _ _.
        apply (keeps_trans [Some i] _ s (mark_removed s i) s1); [apply keeps_mark_removed | eapply IH; eauto].
    + destruct (add_replace_loop op ov np nv need _ s r) as [[[[s1 r1] n1] h1]|] eqn:Hr; [|discriminate].
      injection H as <- _ _ _. eapply IH; eauto.
Qed.

(* ---------------------------------------------------------------- the lines an operation addresses *)
Definition opt_syn {E} (syn : E -> option lid) (o : option E) : list (option lid) :=
  match o with Some e => [syn e] | None => [] end.

Definition targets (o : op) (f : file) : list (option lid) :=
  match o with
  | AddModuleStmt _ => opt_syn mo_syn (f_module f)
  | AddGoStmt _ | DropGoStmt | WAddGoStmt _ | WDropGoStmt => opt_syn go_syn (f_go f)
  | AddToolchainStmt _ | DropToolchainStmt | WAddToolchainStmt _ | WDropToolchainStmt => opt_syn go_syn (f_toolchain f)
  | AddGodebug k _ | WAddGodebug k _ | DropGodebug k | WDropGodebug k =>
      map gd_syn (filter (fun g => str_eqb (gd_key g) k) (f_godebug f))
  | AddRequire p _ | DropRequire p => map rq_syn (filter (fun r => str_eqb (rq_path r) p) (f_require f))
  | SetRequire _ | SetRequireSeparateIndirect _ => map rq_syn (f_require f)
  | DropExclude p v => map ex_syn (filter (fun x => str_eqb (ex_path x) p && str_eqb (ex_vers x) v) (f_exclude f))
  | AddReplace op ov _ _ | WAddReplace op ov _ _ =>
      map rp_syn (filter (fun r => str_eqb (rp_op r) op && (nilb ov || str_eqb (rp_ov r) ov)) (f_replace f))
  | DropReplace op ov | WDropReplace op ov =>
      map rp_syn (filter (fun r => str_eqb (rp_op r) op && str_eqb (rp_ov r) ov) (f_replace f))
  | DropRetract lo hi => map rt_syn (filter (fun r => str_eqb (rt_lo r) lo && str_eqb (rt_hi r) hi) (f_retract f))
  | DropTool p => map tl_syn (filter (fun t => str_eqb (tl_path t) p) (f_tool f))
  | WAddUse p _ | WDropUse p => map us_syn (filter (fun u => str_eqb (us_path u) p) (f_use f))
  | WSetUse _ => map us_syn (f_use f)
  | _ => []
  end.

Definition res_keeps (o : op) (f : file) (r : res) : Prop :=
  match r with
  | ROk f' | RErr f' => keeps_except (targets o f) (fsyn f) (fsyn f')
  | RPanic => True
  end.

Lemma keeps_nil_any T s s' : keeps_except [] s s' -> keeps_except T s s'.
Proof. apply keeps_weaken. intros x []. Qed.

Lemma keeps_app_nil T s s' : keeps_except (T ++ []) s s' -> keeps_except T s s'.
Proof. rewrite app_nil_r. exact (fun H => H). Qed.

(* a step that only writes a line allocated after s does not disturb the lines of s *)
Lemma keeps_then_fresh T s s1 n l :
  keeps_except T s s1 -> (heap_len s <= n)%nat -> keeps_except T s (sset s1 n l).
Proof.
  intros [L H] Hn. split; [rewrite sset_len; exact L|].
  intros i Hi Hni. rewrite sget_sset_other by lia. apply H; assumption.
Qed.

Lemma keeps_add_new_require f p v ind : keeps_except [] (fsyn f) (fsyn (add_new_require f p v ind)).
Proof.
  unfold add_new_require.
  pose proof (keeps_add_line (fsyn f) None v_require [auto_quote p; v]) as K.
  destruct (add_line_heap (fsyn f) None v_require [auto_quote p; v]) as [Hid _].
  destruct (add_line (fsyn f) None v_require [auto_quote p; v]) as [s1 n]. cbn [fst snd] in *.
  cbn. apply keeps_then_fresh; [exact K | lia].
Qed.

Lemma keeps_add_new_use f p m : keeps_except [] (fsyn f) (fsyn (add_new_use f p m)).
Proof.
  unfold add_new_use.
  pose proof (keeps_add_line (fsyn f) None v_use [auto_quote p]) as K.
  destruct (add_line (fsyn f) None v_use [auto_quote p]) as [s1 n]. exact K.
Qed.

Lemma keeps_sort_blocks T f : keeps_except T (fsyn f) (fsyn (sort_blocks f)).
Proof. apply keeps_same_heap. reflexivity. Qed.
Lemma keeps_w_sort_blocks T f : keeps_except T (fsyn f) (fsyn (w_sort_blocks f)).
Proof. apply keeps_same_heap. reflexivity. Qed.

Lemma keeps_go_like (T : list (option lid)) s (g : e_go) verb (args : list str) i :
  go_syn g = Some i -> keeps_except [go_syn g] s (update_line s i verb args).
Proof. intros _. apply keeps_nil_any, keeps_update_line. Qed.

Lemma fold_add_new_require_keeps (need : list (str * (str * bool))) : forall f,
  keeps_except [] (fsyn f)
    (fsyn (fold_left (fun g kv => add_new_require g (fst kv) (fst (snd kv)) (snd (snd kv))) need f)).
Proof.
  induction need as [|kv r IH]; intros f; cbn; [apply keeps_refl|].
  apply (keeps_trans [] [] _ _ _ (keeps_add_new_require f _ _ _) (IH _)).
Qed.

Lemma fold_add_new_use_keeps (need : list (str * str)) : forall f,
  keeps_except [] (fsyn f) (fsyn (fold_left (fun g kv => add_new_use g (fst kv) (snd kv)) need f)).
Proof.
  induction need as [|kv r IH]; intros f; cbn; [apply keeps_refl|].
  apply (keeps_trans [] [] _ _ _ (keeps_add_new_use f _ _) (IH _)).
Qed.

Lemma set_require_loop_keeps need l : forall s s' l' need',
  set_require_loop s need l = Some (s', l', need') -> keeps_except (map rq_syn l) s s'.
Proof.
  revert need. induction l as [|r rest IH]; intros need s s' l' need' H; cbn in H.
  - injection H as <- _ _. apply keeps_refl.
  - destruct (rq_syn r) as [i|] eqn:Hs; [|discriminate]. cbn [map]. rewrite Hs.
    destruct (amap_get (rq_path r) need) as [[v ind]|].
    + destruct (set_require_loop _ _ rest) as [[[s1 l1] n1]|] eqn:Hr; [|discriminate].
      injection H as <- _ _.
      eapply (keeps_trans [Some i]); [apply keeps_sset | eapply IH; eauto].
    + destruct (set_require_loop _ _ rest) as [[[s1 l1] n1]|] eqn:Hr; [|discriminate].
      injection H as <- _ _.
      eapply (keeps_trans [Some i]); [apply keeps_mark_removed | eapply IH; eauto].
Qed.

Lemma set_use_loop_keeps need l : forall s s' l' need',
  set_use_loop s need l = Some (s', l', need') -> keeps_except (map us_syn l) s s'.
Proof.
  revert need. induction l as [|u rest IH]; intros need s s' l' need' H; cbn in H.
  - injection H as <- _ _. apply keeps_refl.
  - cbn [map]. destruct (amap_get (us_path u) need) as [mp|].
    + destruct (set_use_loop _ _ rest) as [[[s1 l1] n1]|] eqn:Hr; [|discriminate].
      injection H as <- _ _. apply (keeps_weaken (map us_syn rest)); [intros x Hx; right; exact Hx|].
      eapply IH; eauto.
    + destruct (us_syn u) as [i|] eqn:Hs; [|discriminate].
      destruct (set_use_loop _ _ rest) as [[[s1 l1] n1]|] eqn:Hr; [|discriminate].
      injection H as <- _ _.
      eapply (keeps_trans [Some i]); [apply keeps_mark_removed | eapply IH; eauto].
Qed.

Definition not_sri (o : op) : bool :=
  match o with SetRequireSeparateIndirect _ => false | _ => true end.

Theorem comments_kept o f : not_sri o = true -> res_keeps o f (apply o f).
Proof.
  intros Hn. destruct o; try discriminate Hn; cbn [apply]; unfold res_keeps, targets, lift.
  - (* AddModuleStmt *)
    unfold add_module_stmt. destruct (f_module f) as [m|]; cbn [opt_syn].
    + destruct (mo_syn m) as [i|]; [|exact I]. cbn. apply keeps_nil_any, keeps_update_line.
    + pose proof (keeps_add_line (fsyn f) None v_module [auto_quote path]) as K.
      destruct (add_line _ _ _ _) as [s n]. exact K.
  - (* AddGoStmt *)
    unfold add_go_stmt. destruct (go_version_ok v); cbn; [|apply keeps_refl].
    destruct (f_go f) as [g|]; cbn.
    + destruct (go_syn g) as [i|]; [|exact I]. cbn. apply keeps_nil_any, keeps_update_line.
    + pose proof (keeps_add_line (fsyn f) (module_hint f) v_go [v]) as K.
      destruct (add_line _ _ _ _) as [s n]. exact K.
  - (* DropGoStmt *)
    unfold drop_go_stmt. destruct (f_go f) as [g|]; cbn; [|apply keeps_refl].
    destruct (go_syn g) as [i|]; [|exact I]. cbn. apply keeps_mark_removed.
  - (* AddToolchainStmt *)
    unfold add_toolchain_stmt. destruct (toolchain_ok name); cbn; [|apply keeps_refl].
    destruct (f_toolchain f) as [g|]; cbn.
    + destruct (go_syn g) as [i|]; [|exact I]. cbn. apply keeps_nil_any, keeps_update_line.
    + match goal with |- context [add_line ?s ?h ?v ?a] =>
        pose proof (keeps_add_line s h v a) as K; destruct (add_line s h v a) as [s1 n] end. exact K.
  - (* DropToolchainStmt *)
    unfold drop_toolchain_stmt. destruct (f_toolchain f) as [g|]; cbn; [|apply keeps_refl].
    destruct (go_syn g) as [i|]; [|exact I]. cbn. apply keeps_mark_removed.
  - (* AddGodebug *)
    unfold add_godebug.
    destruct (upsert_loop _ _ _ _ _ _ _ _ _) as [[[s l] need]|] eqn:Hu; [|exact I].
    apply upsert_loop_keeps in Hu. destruct need; cbn.
    + match goal with |- context [add_line ?s ?h ?v ?a] =>
        pose proof (keeps_add_line s h v a) as K; destruct (add_line s h v a) as [s1 n] end.
      cbn. apply keeps_app_nil. eapply keeps_trans; eauto.
    + exact Hu.
  - (* DropGodebug *)
    unfold drop_godebug. destruct (drop_loop _ _ _ _ _) as [[s l]|] eqn:Hd; [|exact I].
    cbn. eapply drop_loop_keeps; eauto.
  - (* AddRequire *)
    unfold add_require.
    destruct (upsert_loop _ _ _ _ _ _ _ _ _) as [[[s l] need]|] eqn:Hu; [|exact I].
    apply upsert_loop_keeps in Hu. destruct need; cbn.
    + apply keeps_app_nil. eapply keeps_trans; [exact Hu|]. apply (keeps_add_new_require (with_require (with_syn f s) l)).
    + exact Hu.
  - (* AddNewRequire *) apply keeps_add_new_require.
  - (* SetRequire *)
    unfold set_require. destruct (set_require_need l []) as [need|]; [|exact I].
    destruct (set_require_loop _ _ _) as [[[s rs] need']|] eqn:Hl; [|exact I]. cbn.
    apply set_require_loop_keeps in Hl.
    apply keeps_app_nil. eapply keeps_trans; [exact Hl|].
    apply keeps_app_nil.
    eapply (keeps_trans [] [] _ _ _ (fold_add_new_require_keeps need' (with_require (with_syn f s) rs))).
    apply keeps_sort_blocks.
  - (* DropRequire *)
    unfold drop_require. destruct (drop_loop _ _ _ _ _) as [[s l]|] eqn:Hd; [|exact I].
    cbn. eapply drop_loop_keeps; eauto.
  - (* AddExclude *)
    unfold add_exclude. destruct (check_canonical_version path vers); cbn; [|apply keeps_refl].
    destruct (exclude_scan _ _ _ _) as [h|]; [|apply keeps_refl].
    match goal with |- context [add_line ?s ?h ?v ?a] =>
        pose proof (keeps_add_line s h v a) as K; destruct (add_line s h v a) as [s1 n] end. exact K.
  - (* DropExclude *)
    unfold drop_exclude. destruct (drop_loop _ _ _ _ _) as [[s l]|] eqn:Hd; [|exact I].
    cbn. eapply drop_loop_keeps; eauto.
  - (* AddReplace *)
    unfold add_replace.
    destruct (add_replace_loop _ _ _ _ _ _ _ _) as [[[[s l] need] h]|] eqn:Hu; [|exact I].
    apply add_replace_loop_keeps in Hu. destruct need; cbn.
    + match goal with |- context [add_line ?s ?h ?v ?a] =>
        pose proof (keeps_add_line s h v a) as K; destruct (add_line s h v a) as [s1 n] end.
      cbn. apply keeps_app_nil. eapply keeps_trans; eauto.
    + exact Hu.
  - (* DropReplace *)
    unfold drop_replace. destruct (drop_loop _ _ _ _ _) as [[s l]|] eqn:Hd; [|exact I].
    cbn. eapply drop_loop_keeps; eauto.
  - (* AddRetract *)
    unfold add_retract.
    destruct (check_canonical_version _ hi); cbn; [|apply keeps_refl].
    destruct (check_canonical_version _ lo); cbn; [|apply keeps_refl].
    match goal with |- context [add_line ?s ?h ?v ?a] =>
        pose proof (keeps_add_line s h v a) as K;
        destruct (add_line_heap s h v a) as [Hid _];
        destruct (add_line s h v a) as [s1 n] end. cbn [fst snd] in *.
    destruct rationale; cbn; [exact K|]. apply keeps_then_fresh; [exact K | lia].
  - (* DropRetract *)
    unfold drop_retract. destruct (drop_loop _ _ _ _ _) as [[s l]|] eqn:Hd; [|exact I].
    cbn. eapply drop_loop_keeps; eauto.
  - (* AddTool *)
    unfold add_tool. destruct (existsb _ _); [apply keeps_refl|].
    match goal with |- context [add_line ?s ?h ?v ?a] =>
        pose proof (keeps_add_line s h v a) as K; destruct (add_line s h v a) as [s1 n] end.
    cbn [fst] in K. apply keeps_app_nil. eapply keeps_trans; [exact K|].
    apply (keeps_sort_blocks [] (with_tool (with_syn f s1) (f_tool f ++ [mkTool path (Some n)]))).
  - (* DropTool *)
    unfold drop_tool. destruct (drop_loop _ _ _ _ _) as [[s l]|] eqn:Hd; [|exact I].
    cbn. eapply drop_loop_keeps; eauto.
  - (* AddComment *) apply keeps_same_heap. reflexivity.
  - (* Cleanup *) apply keeps_syn_cleanup.
  - (* SortBlocks *) apply keeps_sort_blocks.
  - (* WAddGoStmt *)
    unfold w_add_go_stmt. destruct (go_version_ok v); cbn; [|apply keeps_refl].
    destruct (f_go f) as [g|]; cbn.
    + destruct (go_syn g) as [i|]; [|exact I]. cbn. apply keeps_nil_any, keeps_update_line.
    + split; [unfold heap_len; cbn; rewrite app_length; lia|]. intros i Hi _.
      unfold sget; cbn. rewrite hget_app_old by exact Hi. apply com_le_refl.
  - (* WDropGoStmt *)
    unfold drop_go_stmt. destruct (f_go f) as [g|]; cbn; [|apply keeps_refl].
    destruct (go_syn g) as [i|]; [|exact I]. cbn. apply keeps_mark_removed.
  - (* WAddToolchainStmt *)
    unfold w_add_toolchain_stmt. destruct (toolchain_ok name); cbn; [|apply keeps_refl].
    destruct (f_toolchain f) as [g|]; cbn.
    + destruct (go_syn g) as [i|]; [|exact I]. cbn. apply keeps_nil_any, keeps_update_line.
    + split; [unfold heap_len; cbn; rewrite app_length; lia|]. intros i Hi _.
      unfold sget; cbn. rewrite hget_app_old by exact Hi. apply com_le_refl.
  - (* WDropToolchainStmt *)
    unfold drop_toolchain_stmt. destruct (f_toolchain f) as [g|]; cbn; [|apply keeps_refl].
    destruct (go_syn g) as [i|]; [|exact I]. cbn. apply keeps_mark_removed.
  - (* WAddGodebug *)
    unfold add_godebug.
    destruct (upsert_loop _ _ _ _ _ _ _ _ _) as [[[s l] need]|] eqn:Hu; [|exact I].
    apply upsert_loop_keeps in Hu. destruct need; cbn.
    + match goal with |- context [add_line ?s ?h ?v ?a] =>
        pose proof (keeps_add_line s h v a) as K; destruct (add_line s h v a) as [s1 n] end.
      cbn. apply keeps_app_nil. eapply keeps_trans; eauto.
    + exact Hu.
  - (* WDropGodebug *)
    unfold drop_godebug. destruct (drop_loop _ _ _ _ _) as [[s l]|] eqn:Hd; [|exact I].
    cbn. eapply drop_loop_keeps; eauto.
  - (* WAddUse *)
    unfold add_use.
    destruct (upsert_loop _ _ _ _ _ _ _ _ _) as [[[s l] need]|] eqn:Hu; [|exact I].
    apply upsert_loop_keeps in Hu. destruct need; cbn.
    + apply keeps_app_nil. eapply keeps_trans; [exact Hu|]. apply (keeps_add_new_use (with_use (with_syn f s) l)).
    + exact Hu.
  - (* WAddNewUse *) apply keeps_add_new_use.
  - (* WSetUse *)
    unfold set_use. destruct (set_use_loop _ _ _) as [[[s us] need']|] eqn:Hl; [|exact I]. cbn.
    apply set_use_loop_keeps in Hl.
    apply keeps_app_nil. eapply keeps_trans; [exact Hl|].
    apply keeps_app_nil.
    eapply (keeps_trans [] [] _ _ _ (fold_add_new_use_keeps need' (with_use (with_syn f s) us))).
    apply keeps_w_sort_blocks.
  - (* WDropUse *)
    unfold drop_use. destruct (drop_loop _ _ _ _ _) as [[s l]|] eqn:Hd; [|exact I].
    cbn. eapply drop_loop_keeps; eauto.
  - (* WAddReplace *)
    unfold add_replace.
    destruct (add_replace_loop _ _ _ _ _ _ _ _) as [[[[s l] need] h]|] eqn:Hu; [|exact I].
    apply add_replace_loop_keeps in Hu. destruct need; cbn.
    + match goal with |- context [add_line ?s ?h ?v ?a] =>
        pose proof (keeps_add_line s h v a) as K; destruct (add_line s h v a) as [s1 n] end.
      cbn. apply keeps_app_nil. eapply keeps_trans; eauto.
    + exact Hu.
  - (* WDropReplace *)
    unfold drop_replace. destruct (drop_loop _ _ _ _ _) as [[s l]|] eqn:Hd; [|exact I].
    cbn. eapply drop_loop_keeps; eauto.
  - (* WCleanup *) apply keeps_syn_cleanup.
  - (* WSortBlocks *) apply keeps_w_sort_blocks.
Qed.

(* ---------------------------------------------------------------- SetRequireSeparateIndirect *)
Lemma keeps_salloc s l : keeps_except [] s (fst (salloc s l)).
Proof.
  split; [unfold heap_len, salloc; cbn; rewrite app_length; lia|].
  intros i Hi _. unfold sget, salloc; cbn. rewrite hget_app_old by exact Hi. apply com_le_refl.
Qed.

Lemma keeps_insert_block s i : keeps_except [] s (fst (insert_block s i)).
Proof. apply keeps_same_heap. reflexivity. Qed.

Lemma keeps_ensure_block s i s' bid : ensure_block s i = Some (s', bid) -> keeps_except [] s s'.
Proof.
  unfold ensure_block. destruct (nth_error (stmts s) (Z.to_nat i)) as [[j|b|c]|]; try discriminate.
  - intros [= <- _]. cbn.
    pose proof (keeps_sset_com s j (mkHL (hl_com (sget s j)) (tl (hl_tok (sget s j))) true) eq_refl) as K.
    destruct K as [L H]. split; [exact L|]. exact H.
  - intros [= <- _]. apply keeps_refl.
Qed.

Lemma keeps_append_to_block T s bid n : keeps_except T s (append_to_block s bid n).
Proof. apply keeps_same_heap. reflexivity. Qed.

Lemma keeps_move_req s i bid : keeps_except [] s (fst (move_req s i bid)).
Proof.
  unfold move_req. cbn.
  split; [unfold heap_len; cbn; rewrite app_length, hset_length; lia|].
  intros j Hj _. unfold sget; cbn. rewrite hget_app_old by (rewrite hset_length; exact Hj).
  rewrite (hget_hset_proj hl_com) by reflexivity. apply com_le_refl.
Qed.

Lemma sri_loop_keeps need one_flat l2b dbid ibid l : forall s have s' l' have',
  sri_loop s need have one_flat l2b dbid ibid l = Some (s', l', have') ->
  keeps_except (map rq_syn l) s s'.
Proof.
  induction l as [|r rest IH]; intros s have s' l' have' H; cbn [sri_loop] in H.
  - injection H as <- _ _. apply keeps_refl.
  - destruct (rq_syn r) as [i|] eqn:Hs; [|discriminate]. cbn [map]. rewrite Hs.
    destruct (match amap_get (rq_path r) need with
              | Some e => if existsb (str_eqb (rq_path r)) have then None else Some e
              | None => None end) as [[v ind]|].
    + set (s1 := sset s i _) in H.
      destruct (if ind then if one_flat || opt_nat_eqb (l2b_get i l2b) dbid then Some ibid else None
                else if one_flat || opt_nat_eqb (l2b_get i l2b) ibid then Some dbid else None) as [bid|].
      * pose proof (keeps_move_req s1 i bid) as Km. destruct (move_req s1 i bid) as [s2 n]. cbn [fst] in Km.
        destruct (sri_loop s2 _ _ _ _ _ _ rest) as [[[s3 l3] h3]|] eqn:Hr; [|discriminate].
        injection H as <- _ _.
        eapply (keeps_trans [Some i]); [apply keeps_sset|].
        eapply (keeps_trans [] _ s1 s2 s3 Km). eapply IH; eauto.
      * destruct (sri_loop s1 _ _ _ _ _ _ rest) as [[[s3 l3] h3]|] eqn:Hr; [|discriminate].
        injection H as <- _ _.
        eapply (keeps_trans [Some i]); [apply keeps_sset | eapply IH; eauto].
    + destruct (sri_loop _ _ _ _ _ _ _ rest) as [[[s3 l3] h3]|] eqn:Hr; [|discriminate].
      injection H as <- _ _.
      eapply (keeps_trans [Some i]); [apply keeps_mark_removed | eapply IH; eauto].
Qed.

Lemma sri_add_new_keeps dbid ibid have need : forall s rs,
  keeps_except [] s (fst (fold_left (sri_add_new dbid ibid have) need (s, rs))).
Proof.
  induction need as [|[path [v ind]] rest IH]; intros s rs; cbn [fold_left]; [apply keeps_refl|].
  unfold sri_add_new at 2. destruct (existsb (str_eqb path) have); [apply IH|].
  cbn.
  eapply (keeps_trans [] [] s _ _); [|apply IH].
  split; [unfold heap_len; cbn; rewrite app_length; lia|].
  intros j Hj _. unfold sget; cbn. rewrite hget_app_old by exact Hj. apply com_le_refl.
Qed.

Theorem comments_kept_sri f l :
  res_keeps (SetRequireSeparateIndirect l) f (apply (SetRequireSeparateIndirect l) f).
Proof.
  cbn [apply]. unfold res_keeps, targets, lift, set_require_separate_indirect.
  set (s0 := fsyn f). set (sc := sri_scan_loop _ _ _ _).
  match goal with |- context [if sc_direct sc <? 0 then ?A else ?B] =>
    destruct (if sc_direct sc <? 0 then A else B) as [[[[s1 dbid] di] ii]|] eqn:H1 end; [|exact I].
  assert (K1 : keeps_except [] s0 s1).
  { destruct (sc_direct sc <? 0).
    - destruct (if 0 <=? sc_indirect sc then _ else _) as [di' ii'].
      pose proof (keeps_insert_block s0 di') as K. destruct (insert_block s0 di') as [sx bx].
      injection H1 as <- _ _ _. exact K.
    - destruct (ensure_block s0 (sc_direct sc)) as [[sx bx]|] eqn:He; [|discriminate].
      injection H1 as <- _ _ _. eapply keeps_ensure_block; eauto. }
  destruct (if ii <? 0 then Some (insert_block s1 (di + 1)) else ensure_block s1 ii) as [[s2 ibid]|] eqn:H2; [|exact I].
  assert (K2 : keeps_except [] s1 s2).
  { destruct (ii <? 0).
    - pose proof (keeps_insert_block s1 (di + 1)) as K. destruct (insert_block s1 (di + 1)) as [sx bx].
      injection H2 as <- _. exact K.
    - eapply keeps_ensure_block; eauto. }
  destruct (sri_loop _ _ _ _ _ _ _ _) as [[[s3 rs] have]|] eqn:H3; [|exact I].
  apply sri_loop_keeps in H3.
  match goal with |- context [fold_left ?F ?N (s3, rs)] =>
    pose proof (sri_add_new_keeps dbid ibid have N s3 rs) as K4;
    destruct (fold_left F N (s3, rs)) as [s4 rs'] end. cbn [fst] in K4.
  cbn.
  pose proof (keeps_trans _ _ _ _ _ K1 K2) as K12. cbn in K12.
  pose proof (keeps_trans _ _ _ _ _ K12 H3) as K123. cbn in K123.
  pose proof (keeps_trans _ _ _ _ _ K123 K4) as K1234. rewrite app_nil_r in K1234.
  apply keeps_app_nil. eapply keeps_trans; [exact K1234|].
  apply (keeps_sort_blocks [] (with_require (with_syn f s4) rs')).
Qed.

(* ---------------------------------------------------------------- sequences *)
Fixpoint seq_targets (ops : list op) (f : file) : list (option lid) :=
  match ops with
  | [] => []
  | o :: r => targets o f ++ match apply o f with
                             | ROk f' | RErr f' => seq_targets r f'
                             | RPanic => []
                             end
  end.

Theorem comments_kept_op o f : res_keeps o f (apply o f).
Proof.
  destruct (not_sri o) eqn:E; [apply comments_kept; exact E|].
  destruct o; try discriminate E. apply comments_kept_sri.
Qed.

Theorem comments_kept_run ops : forall k errs f errs' f',
  run_from k errs ops f = RunOk errs' f' ->
  keeps_except (seq_targets ops f) (fsyn f) (fsyn f').
Proof.
  induction ops as [|o r IH]; intros k errs f errs' f' H; cbn in H.
  - injection H as _ <-. apply keeps_refl.
  - cbn [seq_targets]. pose proof (comments_kept_op o f) as Ko. unfold res_keeps in Ko.
    destruct (apply o f) as [f1|f1|]; try discriminate; (eapply keeps_trans; [exact Ko | eapply IH; eauto]).
Qed.

Lemma comments_kept_run_ops ops f errs f' :
  run_ops ops f = RunOk errs f' -> keeps_except (seq_targets ops f) (fsyn f) (fsyn f').
Proof. apply comments_kept_run. Qed.
