(* String-level lemmas for ModulePath: "//" detection, line splitting, TrimSpace on
   ASCII white space, Unquote and "//", and the bytes of a valid import path. *)
From Verif.Base Require Import Bytes Utf8 Strconv.
From Verif.Gen Require Import GenUnicode GenChars.
From Verif.Module Require Import Path PathProofs PathProofsLists.
From Verif.Modfile Require Import Syntax Lex Print ProofsLex ModulePath ModulePathProofsLex.

(* ---------------------------------------------------------------- "//" *)

Lemma has_prefix_nil (s : str) : has_prefix s [] = true.
Proof. destruct s; reflexivity. Qed.

Lemma dslash_cons x s : contains_dslash s = true -> contains_dslash (x :: s) = true.
Proof. destruct s as [|y s]; [discriminate|]. intros H. cbn [contains_dslash] in *. rewrite H. apply orb_true_r. Qed.

Lemma dslash_app_r a b : contains_dslash b = true -> contains_dslash (a ++ b) = true.
Proof. intros H. induction a as [|x a IH]; [exact H|]. cbn [app]. apply dslash_cons. exact IH. Qed.

Definition no47 (s : str) : Prop := Forall (fun c => c <> 47) s.

Lemma dslash_app_no47 a b : no47 a -> contains_dslash (a ++ b) = contains_dslash b.
Proof.
  induction 1 as [|x a Hx Ha IH]; [reflexivity|]. cbn [app].
  destruct (a ++ b) as [|y r] eqn:E.
  - rewrite <- IH. reflexivity.
  - cbn [contains_dslash]. rewrite <- E in *. rewrite (proj2 (Z.eqb_neq x 47) Hx). cbn [andb orb].
    rewrite E in *. exact IH.
Qed.

(* no "//" in a ++ "/" : none in a, and a does not end with "/" *)
Lemma dslash_snoc_false a c : contains_dslash (a ++ [c]) = false -> contains_dslash a = false.
Proof.
  intros H. destruct (contains_dslash a) eqn:E; [|reflexivity].
  induction a as [|x a IH]; [discriminate|]. destruct a as [|y a]; [discriminate|].
  cbn [app contains_dslash] in *. apply orb_false_iff in H as [H1 H2]. rewrite H1 in E. cbn [orb] in E.
  apply IH; assumption.
Qed.

Lemma dslash_app a b : contains_dslash (a ++ b) =
  contains_dslash a || contains_dslash b || ((last a 0 =? 47) && (hd 0 b =? 47)).
Proof.
  induction a as [|x a IH].
  - cbn [app contains_dslash last]. change (0 =? 47) with false. cbn [andb orb]. rewrite orb_false_r. reflexivity.
  - destruct a as [|y a'].
    + cbn [app last]. destruct b as [|z b']; cbn [contains_dslash hd].
      * change (0 =? 47) with false. rewrite andb_false_r. reflexivity.
      * destruct ((x =? 47) && (z =? 47)), (match b' with [] => false | _ => _ end); reflexivity.
    + change ((x :: y :: a') ++ b) with (x :: (y :: a') ++ b).
      change (last (x :: y :: a') 0) with (last (y :: a') 0).
      change (contains_dslash (x :: (y :: a') ++ b)) with (((x =? 47) && (y =? 47)) || contains_dslash ((y :: a') ++ b)).
      change (contains_dslash (x :: y :: a')) with (((x =? 47) && (y =? 47)) || contains_dslash (y :: a')).
      rewrite IH. rewrite !orb_assoc. reflexivity.
Qed.

Lemma dslash_app_ws a b w : contains_dslash (a ++ [47]) = false -> w <> 47 -> no47 b ->
  contains_dslash (a ++ w :: b ++ [47]) = false.
Proof.
  intros Ha Hw Hb. rewrite dslash_app. rewrite (dslash_snoc_false _ _ Ha).
  change (w :: b ++ [47]) with ((w :: b) ++ [47]). rewrite dslash_app_no47 by (constructor; assumption).
  cbn [hd app]. rewrite (proj2 (Z.eqb_neq w 47) Hw), andb_false_r. reflexivity.
Qed.

(* ---------------------------------------------------------------- before_slashslash *)

Lemma has_prefix_ss2 c d (X : str) : has_prefix (c :: d :: X) [47; 47] = (c =? 47) && (d =? 47).
Proof. cbn [has_prefix]. rewrite has_prefix_nil, andb_true_r, (Z.eqb_sym 47 c), (Z.eqb_sym 47 d). reflexivity. Qed.

Lemma has_prefix_ss1 (c : Z) : has_prefix [c] [47; 47] = false.
Proof. cbn [has_prefix]. apply andb_false_r. Qed.

Lemma bss_clean X : contains_dslash X = false -> before_slashslash X = X.
Proof.
  induction X as [|c X IH]; [reflexivity|]. intros H. cbn [before_slashslash].
  destruct X as [|d X].
  - rewrite has_prefix_ss1. reflexivity.
  - cbn [contains_dslash] in H. apply orb_false_iff in H as [H1 H2].
    rewrite has_prefix_ss2, H1. f_equal. apply IH. exact H2.
Qed.

Lemma bss_cut X h : contains_dslash (X ++ [47]) = false -> before_slashslash (X ++ 47 :: 47 :: h) = X.
Proof.
  induction X as [|c X IH]; intros H.
  - cbn [app before_slashslash]. rewrite has_prefix_ss2. reflexivity.
  - cbn [app before_slashslash].
    assert (Hp : has_prefix (c :: X ++ 47 :: 47 :: h) [47; 47] = false).
    { destruct X as [|d X].
      - cbn [app] in *. rewrite has_prefix_ss2. cbn [contains_dslash] in H. rewrite orb_false_r in H. exact H.
      - cbn [app contains_dslash] in H. apply orb_false_iff in H as [H1 H2].
        cbn [app]. rewrite has_prefix_ss2. exact H1. }
    rewrite Hp. f_equal. apply IH.
    destruct X as [|d X]; [reflexivity|]. cbn [app contains_dslash] in H. apply orb_false_iff in H as [_ H2]. exact H2.
Qed.

(* ---------------------------------------------------------------- split_on and the line scanner *)

Definition nolf_b (s : str) : Prop := Forall (fun c => c <> 10) s.

Lemma split_on_app_sep sep p s : split_on sep (p ++ sep :: s) = split_on sep p ++ split_on sep s.
Proof.
  induction p as [|c p IH]; cbn [app split_on].
  - rewrite Z.eqb_refl. reflexivity.
  - destruct (c =? sep); [rewrite IH; reflexivity|].
    rewrite IH. pose proof (split_on_nonempty sep p) as Hne.
    destruct (split_on sep p) as [|h t]; [congruence|]. reflexivity.
Qed.

Lemma split_on_length_lf p : length (split_on 10 p) = S (Z.to_nat (count_lf p)).
Proof.
  unfold count_lf. rewrite Nat2Z.id. induction p as [|c p IH]; [reflexivity|]. cbn [split_on filter].
  destruct (c =? 10); [cbn [length]; rewrite IH; reflexivity|].
  pose proof (split_on_nonempty 10 p) as Hne. destruct (split_on 10 p) as [|h t]; [congruence|]. exact IH.
Qed.

Lemma split_on_nolf X tail : nolf_b X ->
  split_on 10 (X ++ tail) = (X ++ hd [] (split_on 10 tail)) :: tl (split_on 10 tail).
Proof.
  induction 1 as [|c X Hc HX IH]; cbn [app].
  - pose proof (split_on_nonempty 10 tail). destruct (split_on 10 tail); [congruence|reflexivity].
  - cbn [split_on]. rewrite (proj2 (Z.eqb_neq c 10) Hc), IH. reflexivity.
Qed.

Lemma first_module_line_skip l1 l2 : Forall (fun l => module_path_line l = None) l1 ->
  first_module_line (l1 ++ l2) = first_module_line l2.
Proof. induction 1 as [|l l1 Hl _ IH]; [reflexivity|]. cbn [app first_module_line]. rewrite Hl. exact IH. Qed.

(* ---------------------------------------------------------------- TrimSpace *)

Definition ascii_ns (c : Z) : Prop := 0 <= c < 128 /\ unicode_IsSpace c = false.

Lemma ws_is_space c : ws_char c -> unicode_IsSpace c = true /\ 0 <= c < 128.
Proof. intros [->|[->| ->]]; split; try (vm_compute; reflexivity); lia. Qed.

Lemma trim_left_ws : forall g f s c, ws_only g -> (length g <= f)%nat -> ascii_ns c ->
  trim_left f (g ++ c :: s) = c :: s.
Proof.
  induction g as [|w g IH]; intros f s c Hg Hf (Hc & Hns); cbn [app].
  - destruct f as [|f]; [reflexivity|]. cbn [trim_left]. rewrite decode_ascii_head by lia. rewrite Hns. reflexivity.
  - inversion Hg as [|? ? Hw Hg']; subst. destruct f as [|f]; [cbn in Hf; lia|]. cbn [trim_left].
    destruct (ws_is_space w Hw) as (Hsp & Hr). rewrite decode_ascii_head by lia. rewrite Hsp. cbn [skipn].
    apply IH; [exact Hg'|cbn in Hf; lia|split; assumption].
Qed.

Definition lsw_try (k : nat) (rs : str) : bool :=
  let enc := rev (firstn k rs) in
  let (r, w) := Utf8.decode enc in
  Nat.eqb (length enc) k && Nat.eqb w k && unicode_IsSpace r && negb ((r =? Utf8.rune_error) && Nat.eqb w 1).

Lemma lsw_unfold rs : last_space_width rs =
  if lsw_try 1 rs then 1%nat else if lsw_try 2 rs then 2%nat else if lsw_try 3 rs then 3%nat
  else if lsw_try 4 rs then 4%nat else O.
Proof. reflexivity. Qed.

Lemma lsw_ws w rs : ws_char w -> last_space_width (w :: rs) = 1%nat.
Proof. intros [->|[->| ->]]; rewrite lsw_unfold; reflexivity. Qed.

Lemma cont_ascii d : d < 128 -> cont d = false.
Proof. intros H. unfold cont. lia. Qed.

(* a decoding that ends with an ASCII byte and covers the whole string is that byte alone *)
Lemma decode_last_ascii s d r w : d < 128 -> Utf8.decode (s ++ [d]) = (r, w) -> w = length (s ++ [d]) -> s = [].
Proof.
  intros Hd. pose proof (cont_ascii d Hd) as Hc.
  destruct s as [|b0 [|b1 [|b2 s]]]; [reflexivity| | |]; cbn [app length]; unfold Utf8.decode;
    repeat match goal with
           | |- context [if ?c then _ else _] => destruct c eqn:?
           | |- context [match ?l ++ [d] with _ => _ end] => destruct l; cbn [app]
           end;
    intros [= <- <-]; try rewrite app_length; cbn [length]; intros; try lia;
    repeat match goal with
           | H : (_ && _) = true |- _ => apply andb_true_iff in H; destruct H
           end; try congruence;
    match goal with H : _ = S _ |- _ => rewrite app_length in H; cbn [length] in H; lia end.
Qed.

Lemma lsw_try_ns k d rs : ascii_ns d -> lsw_try k (d :: rs) = false.
Proof.
  intros ((Hd0 & Hd) & Hns). unfold lsw_try.
  destruct k as [|k].
  - cbn. reflexivity.
  - cbn [firstn rev].
    destruct (Utf8.decode (rev (firstn k rs) ++ [d])) as [r w] eqn:E.
    destruct (Nat.eqb_spec (length (rev (firstn k rs) ++ [d])) (S k)) as [El|]; [|reflexivity].
    destruct (Nat.eqb_spec w (S k)) as [Ew|]; [|reflexivity]. cbn [andb].
    assert (Hnil : rev (firstn k rs) = []).
    { eapply decode_last_ascii; eauto. lia. }
    rewrite Hnil in E. cbn [app] in E. rewrite decode_ascii_head in E by lia. injection E as <- <-.
    rewrite Hns. reflexivity.
Qed.

Lemma lsw_ns d rs : ascii_ns d -> last_space_width (d :: rs) = O.
Proof. intros H. rewrite lsw_unfold, !lsw_try_ns by exact H. reflexivity. Qed.

Lemma trim_right_ws : forall g f d rs, ws_only g -> (length g <= f)%nat -> ascii_ns d ->
  trim_right_rev f (g ++ d :: rs) = d :: rs.
Proof.
  induction g as [|w g IH]; intros f d rs Hg Hf Hd; cbn [app].
  - destruct f as [|f]; [reflexivity|]. cbn [trim_right_rev]. rewrite lsw_ns by exact Hd. reflexivity.
  - inversion Hg as [|? ? Hw Hg']; subst. destruct f as [|f]; [cbn in Hf; lia|]. cbn [trim_right_rev].
    rewrite lsw_ws by exact Hw. cbn [skipn]. apply IH; auto. cbn in Hf. lia.
Qed.

Lemma ws_only_rev g : ws_only g -> ws_only (rev g).
Proof. apply Forall_rev. Qed.

(* TrimSpace(g ++ body ++ g') = body when body starts and ends with an ASCII non-space *)
Lemma trim_space_ws g g' c body d : ws_only g -> ws_only g' -> ascii_ns c -> ascii_ns d ->
  trim_space (g ++ (c :: body ++ [d]) ++ g') = c :: body ++ [d].
Proof.
  intros Hg Hg' Hc Hd. unfold trim_space.
  cbn [app]. rewrite trim_left_ws; auto.
  2:{ repeat (cbn [length]; rewrite ?app_length, ?rev_length); lia. }
  rewrite !frev_rev.
  change (c :: (body ++ [d]) ++ g') with ((c :: body ++ [d]) ++ g').
  rewrite rev_app_distr.
  change (c :: body ++ [d]) with ((c :: body) ++ [d]). rewrite (rev_app_distr (c :: body) [d]). cbn [rev app].
  rewrite trim_right_ws; auto.
  - cbn [rev]. rewrite rev_app_distr. cbn [rev app]. rewrite rev_involutive. reflexivity.
  - apply ws_only_rev. exact Hg'.
  - repeat (cbn [length]; rewrite ?app_length, ?rev_length); lia.
Qed.

Lemma trim_space_ws1 g g' c : ws_only g -> ws_only g' -> ascii_ns c -> trim_space (g ++ [c] ++ g') = [c].
Proof.
  intros Hg Hg' Hc. unfold trim_space.
  cbn [app]. rewrite trim_left_ws; auto.
  2:{ repeat (cbn [length]; rewrite ?app_length, ?rev_length); lia. }
  rewrite !frev_rev. cbn [rev].
  rewrite trim_right_ws; auto.
  - apply ws_only_rev. exact Hg'.
  - repeat (cbn [length]; rewrite ?app_length, ?rev_length); lia.
Qed.

(* a non-empty string as first :: middle ++ [last], or a single byte *)
Lemma str_ends (s : str) : s <> [] -> (exists c, s = [c]) \/ exists c body d, s = c :: body ++ [d].
Proof.
  destruct s as [|c s]; [congruence|]. intros _.
  destruct s as [|x s']; [left; eauto|]. right.
  destruct (@exists_last _ (x :: s') ltac:(discriminate)) as (body & d & E). rewrite E. eauto.
Qed.

Lemma trim_space_tok g g' a : ws_only g -> ws_only g' -> a <> [] ->
  ascii_ns (hd 0 a) -> ascii_ns (last a 0) -> trim_space (g ++ a ++ g') = a.
Proof.
  intros Hg Hg' Ha Hh Hl. destruct (str_ends a Ha) as [(c & ->)|(c & body & d & ->)].
  - apply trim_space_ws1; auto.
  - apply trim_space_ws; auto. cbn [hd] in Hh.
    replace (last (c :: body ++ [d]) 0) with d in Hl; [exact Hl|].
    change (c :: body ++ [d]) with ((c :: body) ++ [d]). rewrite last_last. reflexivity.
Qed.
