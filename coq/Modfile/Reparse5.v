(* Reparse, part 5: the typed entries of the edit model as directive items ([typed_items]),
   and their view: [typed_view f = map item_view (typed_items f)], so that the coherence
   invariant of C15 (tree_view is a permutation of typed_view) says that the live lines of the
   tree show, line by line, the canonical text of the typed items. *)
From Coq Require Import Permutation.
From Verif.Base Require Import Bytes.
From Verif.Semver Require Import Model.
From Verif.Modfile Require Import Syntax Lex Parse Print Directives RoundDir1 Reparse1 Reparse3 EditModel EditOps EditSpec.

Definition verb_of (it : item) : str :=
  match it with
  | ItModule _ _ => v_module | ItGo _ => v_go | ItToolchain _ => v_toolchain | ItGodebug _ _ => v_godebug
  | ItRequire _ _ _ => v_require | ItExclude _ _ => v_exclude | ItReplace _ _ _ _ => v_replace
  | ItRetract _ _ _ => v_retract | ItTool _ => v_tool | ItUse _ => v_use
  end.

(* the normalised arguments of the line of an item (EditSpec.norm_args) *)
Definition nargs_of (it : item) : list str :=
  match it with
  | ItModule p _ => [EditModel.auto_quote p]
  | ItGo v => [v]
  | ItToolchain v => [v]
  | ItGodebug k v => [k ++ [61] ++ v]
  | ItRequire p v ind => [EditModel.auto_quote p; v; flag ind]
  | ItExclude p v => [EditModel.auto_quote p; v]
  | ItReplace a b c d => replace_tokens a b c d
  | ItRetract lo hi _ => [EditModel.auto_quote lo; EditModel.auto_quote hi]
  | ItTool p => [EditModel.auto_quote p]
  | ItUse p => [EditModel.auto_quote p]
  end.

Definition item_view (x : lid * item) : dview := (fst x, verb_of (snd x), nargs_of (snd x)).

Definition ti {E} (syn : E -> option lid) (live : E -> bool) (mk : E -> item) (e : E) : list (lid * item) :=
  match syn e with
  | Some i => if live e then [(i, mk e)] else []
  | None => []
  end.

Definition typed_items (f : file) : list (lid * item) :=
  flat_map (ti mo_syn (fun _ => true) (fun m => ItModule (mo_path m) (mo_depr m))) (opt_list (f_module f))
  ++ flat_map (ti go_syn (fun _ => true) (fun g => ItGo (go_vers g))) (opt_list (f_go f))
  ++ flat_map (ti go_syn (fun _ => true) (fun g => ItToolchain (go_vers g))) (opt_list (f_toolchain f))
  ++ flat_map (ti gd_syn (fun g => nonempty (gd_key g)) (fun g => ItGodebug (gd_key g) (gd_val g))) (f_godebug f)
  ++ flat_map (ti rq_syn (fun r => nonempty (rq_path r)) (fun r => ItRequire (rq_path r) (rq_vers r) (rq_ind r))) (f_require f)
  ++ flat_map (ti ex_syn (fun x => nonempty (ex_path x)) (fun x => ItExclude (ex_path x) (ex_vers x))) (f_exclude f)
  ++ flat_map (ti rp_syn (fun r => nonempty (rp_op r)) (fun r => ItReplace (rp_op r) (rp_ov r) (rp_np r) (rp_nv r))) (f_replace f)
  ++ flat_map (ti rt_syn (fun r => nonempty (rt_lo r) || nonempty (rt_hi r)) (fun r => ItRetract (rt_lo r) (rt_hi r) (rt_rat r))) (f_retract f)
  ++ flat_map (ti tl_syn (fun t => nonempty (tl_path t)) (fun t => ItTool (tl_path t))) (f_tool f)
  ++ flat_map (ti us_syn (fun u => nonempty (us_path u)) (fun u => ItUse (us_path u))) (f_use f).

Lemma flat_map_ent {E} (mk_ent : E -> ent) syn live mk (l : list E) :
  (forall e, ent_view (mk_ent e) = map item_view (ti syn live mk e)) ->
  flat_map ent_view (map mk_ent l) = map item_view (flat_map (ti syn live mk) l).
Proof.
  intros H. induction l as [|e l IH]; [reflexivity|]. cbn [map flat_map]. rewrite map_app, H, IH. reflexivity.
Qed.

Theorem typed_view_items f : typed_view f = map item_view (typed_items f).
Proof.
  unfold typed_view, entries, typed_items. rewrite !flat_map_app, !map_app.
  repeat f_equal; apply flat_map_ent; intros e; unfold ent_view, ti;
    cbn [ent_module ent_go ent_toolchain ent_godebug ent_require ent_exclude ent_replace ent_retract ent_tool ent_use
         en_syn en_live en_verb en_args];
    match goal with |- context [match ?s with Some _ => _ | None => _ end] => destruct s end; try reflexivity;
    match goal with |- context [if ?b then _ else _] => destruct b end; reflexivity.
Qed.

(* ---------------------------------------------------------------- valid items *)

Definition item_ok (it : item) : Prop :=
  match it with
  | ItModule p _ => path_ok p
  | ItGo v => go_version_re v = true /\ plain v
  | ItToolchain v => toolchain_re v = true /\ plain v
  | ItGodebug k v => plain (k ++ [61] ++ v) /\ contains_any (k ++ [61] ++ v) [34; 96; 39; 44] = false /\ ~ In 61 k
  | ItRequire p v _ => pv_ok p v
  | ItExclude p v => pv_ok p v
  | ItReplace a b c d => replace_ok a b c d
  | ItRetract lo hi _ => is_valid lo = true /\ is_valid hi = true
  | ItTool p => path_ok p
  | ItUse p => path_ok p
  end.

(* the item with the comment-derived texts the directive layer reads from the line *)
Definition retext (blk : option line_block) (l : line) (it : item) : item :=
  match it with
  | ItModule p _ => ItModule p (parse_deprecation blk l)
  | ItRetract lo hi _ => ItRetract lo hi (directive_comment blk l)
  | _ => it
  end.

Lemma replace_tokens_same a b c d : replace_tokens a b c d = replace_toks a b c d.
Proof.
  unfold replace_tokens, replace_toks. rewrite !auto_quote_same.
  destruct b, d; reflexivity.
Qed.

Lemma flag_inj a b : flag a = flag b -> a = b.
Proof. destruct a, b; cbn; congruence. Qed.

Lemma valid_aq v : is_valid v = true -> EditModel.auto_quote v = v.
Proof. intros H. rewrite auto_quote_same. exact (proj2 (proj2 (valid_token v H))). Qed.

Lemma valid_nonnil v : is_valid v = true -> v <> [].
Proof. intros H. destruct (valid_first v H) as (r & ->). discriminate. Qed.

Lemma retract_interval_inv args lo hi : lo <> [] ->
  retract_interval args = (lo, hi) ->
  (lo = hi /\ args = [lo]) \/ args = [B "["; lo; B ","; hi; B "]"].
Proof.
  intros Hn. unfold retract_interval.
  destruct args as [|a [|b [|c [|d [|e [|g r]]]]]]; try (intros [= <- <-]; congruence).
  - intros [= <- <-]. left. auto.
  - destruct (str_eqb a (B "[") && str_eqb c (B ",") && str_eqb e (B "]")) eqn:E; [|intros [= <- <-]; congruence].
    apply andb_true_iff in E as (E & E3). apply andb_true_iff in E as (E1 & E2).
    apply str_eqb_eq in E1, E2, E3. subst. intros [= <- <-]. right. reflexivity.
Qed.

Lemma line_of_item (l : hline) blk verb args it :
  item_ok it -> mod_item it -> verb = verb_of it -> norm_args verb args l = nargs_of it ->
  Forall ascii (c_suffix (hl_com l)) ->
  line_it blk verb args (to_line l) (retext blk (to_line l) it).
Proof.
  intros Hok Hm -> Hn Ha. unfold line_it.
  destruct it as [p dep|v|v|k v|p v ind|p v|a b c d|lo hi rat|p|p]; cbn [item_ok mod_item verb_of nargs_of retext renders ctx_ok] in *;
    try contradiction.
  - change (norm_args v_module args l) with args in Hn. subst args. rewrite auto_quote_same. auto.
  - change (norm_args v_go args l) with args in Hn. subst args. tauto.
  - change (norm_args v_toolchain args l) with args in Hn. subst args. tauto.
  - change (norm_args v_godebug args l) with args in Hn. subst args. tauto.
  - change (norm_args v_require args l) with (args ++ [flag (EditModel.is_indirect l)]) in Hn.
    destruct args as [|a0 [|a1 [|a2 r]]]; cbn [app] in Hn; try discriminate.
    2:{ destruct r; discriminate. }
    injection Hn as -> -> Hf. apply flag_inj in Hf. rewrite auto_quote_same.
    rewrite (dir_is_indirect_to_line l Ha). auto.
  - change (norm_args v_exclude args l) with args in Hn. subst args. rewrite auto_quote_same. auto.
  - change (norm_args v_replace args l) with args in Hn. subst args. rewrite replace_tokens_same. auto.
  - change (norm_args v_retract args l) with (let (x, y) := retract_interval args in [x; y]) in Hn.
    destruct Hok as (Hlo & Hhi). rewrite (valid_aq lo Hlo), (valid_aq hi Hhi) in Hn.
    destruct (retract_interval args) as [x y] eqn:E. injection Hn as -> ->.
    pose proof (retract_interval_inv args lo hi (valid_nonnil lo Hlo) E) as H. auto.
  - change (norm_args v_tool args l) with args in Hn. subst args. rewrite auto_quote_same. auto.
Qed.

Lemma line_of_itemW (l : hline) verb args it :
  item_ok it -> work_item it -> verb = verb_of it -> norm_args verb args l = nargs_of it ->
  line_itW verb args it.
Proof.
  intros Hok Hm -> Hn. unfold line_itW.
  destruct it as [p dep|v|v|k v|p v ind|p v|a b c d|lo hi rat|p|p]; cbn [item_ok work_item verb_of nargs_of renders] in *;
    try contradiction.
  - change (norm_args v_go args l) with args in Hn. subst args. tauto.
  - change (norm_args v_toolchain args l) with args in Hn. subst args. tauto.
  - change (norm_args v_godebug args l) with args in Hn. subst args. tauto.
  - change (norm_args v_replace args l) with args in Hn. subst args. rewrite replace_tokens_same. auto.
  - change (norm_args v_use args l) with args in Hn. subst args. rewrite auto_quote_same. auto.
Qed.
