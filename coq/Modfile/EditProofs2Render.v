(* C16, need_order_irrelevant, part 3: two states that differ only in the order in which the
   contents of the new lines were written to the heap (all new lines at the end of one block)
   have the same syntax tree after removeDups + sorting. *)
From Coq Require Import Sorted Permutation.
From Verif.Base Require Import Bytes.
From Verif.Modfile Require Import Syntax EditModel EditOps EditSpec EditProofsTyped EditProofsHeap EditProofsCoherent
  EditProofsCleanup EditProofsAddLine EditProofsAdd EditProofsUpsert EditProofsSort EditProofsSeq EditProofsExact
  EditProofsBlocks EditProofs2Blocks EditProofs2Order.

Arguments hget : simpl never.
Arguments hset : simpl never.

(* ---------------------------------------------------------------- facts about the stable sort *)
Lemma insert_by_ext {A} (less less' : A -> A -> bool) x l :
  (forall y, In y l -> less y x = less' y x) -> insert_by less x l = insert_by less' x l.
Proof.
  induction l as [|y r IH]; intros H; cbn; [reflexivity|].
  rewrite (H y (or_introl eq_refl)). destruct (less' y x); [|reflexivity].
  f_equal. apply IH. intros z Hz. apply H. right. exact Hz.
Qed.

Lemma stable_sort_cons {A} (less : A -> A -> bool) x r : stable_sort less (x :: r) = insert_by less x (stable_sort less r).
Proof. reflexivity. Qed.

Lemma stable_sort_ext {A} (less less' : A -> A -> bool) l :
  (forall x y, In x l -> In y l -> less x y = less' x y) -> stable_sort less l = stable_sort less' l.
Proof.
  induction l as [|x r IH]; intros H; [reflexivity|]. rewrite !stable_sort_cons.
  rewrite IH by (intros a b Ha Hb; apply H; right; assumption).
  apply insert_by_ext. intros y Hy. apply H; [right | left; reflexivity].
  apply (Permutation_in _ (Permutation_sym (stable_sort_perm less' r))). exact Hy.
Qed.

Lemma insert_by_map {A B} (g : A -> B) (less : B -> B -> bool) x l :
  map g (insert_by (fun i j => less (g i) (g j)) x l) = insert_by less (g x) (map g l).
Proof. induction l as [|y r IH]; cbn; [reflexivity|]. destruct (less (g y) (g x)); cbn; [rewrite IH|]; reflexivity. Qed.

Lemma stable_sort_map {A B} (g : A -> B) (less : B -> B -> bool) l :
  map g (stable_sort (fun i j => less (g i) (g j)) l) = stable_sort less (map g l).
Proof. induction l as [|x r IH]; [reflexivity|]. cbn [map]. rewrite !stable_sort_cons, insert_by_map, IH. reflexivity. Qed.

Lemma stable_sort_app {A} (less : A -> A -> bool) a b :
  stable_sort less (a ++ b) = fold_right (insert_by less) (stable_sort less b) a.
Proof. unfold stable_sort. apply fold_right_app. Qed.

(* a list whose elements are pairwise strictly comparable has only one sorted rearrangement *)
Lemma sorted_perm_eq {A} (D : A -> Prop) (less : A -> A -> bool) X X' :
  StrictWeakOn D less -> Forall D X ->
  ForallOrdPairs (fun x y => less x y = true \/ less y x = true) X ->
  Permutation X X' -> stable_sort less X = stable_sort less X'.
Proof.
  intros S HD Hpw Hp.
  assert (Hcmp : forall x y, In x X -> In y X -> x <> y -> less x y = true \/ less y x = true).
  { intros x y Hx Hy Hne. destruct (ForallOrdPairs_In Hpw x y Hx Hy) as [E|[H|H]]; [congruence | exact H | tauto]. }
  assert (Hnd : NoDup X).
  { clear Hcmp Hp. rewrite Forall_forall in HD. induction Hpw as [|x l Hx Hl IH]; [constructor|]. constructor.
    - intros Hin. rewrite Forall_forall in Hx. specialize (Hx x Hin).
      assert (Dx : D x) by (apply HD; left; reflexivity).
      destruct Hx as [Hx|Hx]; pose proof (sw_asym D less S x x Dx Dx Hx); congruence.
    - apply IH. intros y Hy. apply HD. right. exact Hy. }
  symmetry. apply (stable_sort_unique less D S X (stable_sort less X') Hnd HD).
  - etransitivity; [exact Hp | apply stable_sort_perm].
  - apply (stable_sort_sorted_on less D S). eapply Permutation_Forall; eauto.
  - intros x y Hb H1 H2. exfalso. destruct (before_in _ _ _ Hb) as [Hx Hy].
    assert (Hne : x <> y) by (intros ->; exact (before_asym X y y Hnd Hb Hb)).
    destruct (Hcmp x y Hx Hy Hne); congruence.
Qed.

(* ---------------------------------------------------------------- two heaps with a common old part *)
Lemma hget_app_mid C x r : hget (C ++ x :: r) (length C) = x.
Proof. unfold hget. rewrite app_nth2 by lia. rewrite Nat.sub_diag. reflexivity. Qed.

Lemma hget_app_seq C X : map (hget (C ++ X)) (seq (length C) (length X)) = X.
Proof.
  revert C. induction X as [|x r IH]; intros C; [reflexivity|]. cbn [length seq map].
  rewrite hget_app_mid. f_equal.
  replace (C ++ x :: r) with ((C ++ [x]) ++ r) by (rewrite <- app_assoc; reflexivity).
  replace (S (length C)) with (length (C ++ [x])) by (rewrite app_length; cbn; lia). apply IH.
Qed.

Lemma swo_pull_line (D : list str -> Prop) (less : list str -> list str -> bool) :
  StrictWeakOn D less -> StrictWeakOn (fun x : hline => D (hl_tok x)) (fun x y => less (hl_tok x) (hl_tok y)).
Proof.
  intros [S1 S2 S3]. split.
  - intros a b. apply S1.
  - intros a b c. apply S2.
  - intros a b c. apply S3.
Qed.

Definition rkL (K : list (option lid)) (L : list stmt) : list stmt :=
  flat_map (fun st =>
    match st with
    | SLine i => if killed K (Some i) then [] else [st]
    | SBlock b =>
        let ls := filter (fun i => negb (killed K (Some i))) (hb_lines b) in
        if nilb ls then [] else [SBlock (block_with_lines b ls)]
    | SComment _ => [st]
    end) L.

Lemma remove_killed_rkL s K : remove_killed s K = with_stmts s (rkL K (stmts s)).
Proof. reflexivity. Qed.

Definition sortS (lo : hblock -> list str -> list str -> bool) (s : syntax) : syntax :=
  with_stmts s (map (sort_stmt (heap s) lo) (stmts s)).

Section Render.
  Context (C XA XB : list hline) (lo : hblock -> list str -> list str -> bool).
  Hypothesis lo_lines : forall b ls, lo (block_with_lines b ls) = lo b.
  Hypothesis HP : Permutation XA XB.
  Let hA := C ++ XA.
  Let hB := C ++ XB.
  Let n0 := length C.

  Lemma old_agree i : (i < n0)%nat -> hget hA i = hget hB i.
  Proof. intros H. unfold hA, hB, hget. rewrite !app_nth1 by exact H. reflexivity. Qed.

  Definition old_stmt (st : stmt) : Prop := forall i, In i (map fst (stmt_lines st)) -> (i < n0)%nat.

  Lemma sort_render_old st : old_stmt st -> to_expr hA (sort_stmt hA lo st) = to_expr hB (sort_stmt hB lo st).
  Proof.
    intros Ho. destruct st as [i|b|c]; cbn [sort_stmt to_expr]; [| |reflexivity].
    - rewrite old_agree; [reflexivity|]. apply Ho. left. reflexivity.
    - assert (Hb : forall i, In i (hb_lines b) -> (i < n0)%nat).
      { intros i Hi. apply Ho. cbn [stmt_lines]. rewrite map_map. cbn [fst]. rewrite map_id. exact Hi. }
      cbn [sort_block block_with_lines hb_com hb_lp hb_tok hb_lines hb_rp].
      assert (Es : stable_sort (fun i j => lo b (hl_tok (hget hA i)) (hl_tok (hget hA j))) (hb_lines b)
                   = stable_sort (fun i j => lo b (hl_tok (hget hB i)) (hl_tok (hget hB j))) (hb_lines b)).
      { apply stable_sort_ext. intros x y Hx Hy. rewrite (old_agree x (Hb x Hx)), (old_agree y (Hb y Hy)). reflexivity. }
      rewrite Es. f_equal. f_equal. apply map_ext_in. intros i Hi.
      rewrite old_agree; [reflexivity|]. apply Hb.
      apply (Permutation_in _ (Permutation_sym (stable_sort_perm _ _))) in Hi. exact Hi.
  Qed.

  Lemma sort_render_new (D : list str -> Prop) b O k :
    k = length XA -> Forall (fun i => (i < n0)%nat) O ->
    StrictWeakOn D (lo b) -> Forall (fun x => D (hl_tok x)) XA ->
    ForallOrdPairs (fun x y => lo b (hl_tok x) (hl_tok y) = true \/ lo b (hl_tok y) (hl_tok x) = true) XA ->
    to_expr hA (sort_stmt hA lo (SBlock (block_with_lines b (O ++ seq n0 k))))
    = to_expr hB (sort_stmt hB lo (SBlock (block_with_lines b (O ++ seq n0 k)))).
  Proof.
    intros Hk HO S HD Hpw.
    cbn [sort_stmt to_expr sort_block block_with_lines hb_com hb_lp hb_tok hb_lines hb_rp].
    rewrite lo_lines. f_equal. f_equal.
    set (lessL := fun x y : hline => lo b (hl_tok x) (hl_tok y)).
    assert (EA : map (fun i => to_line (hget hA i)) (stable_sort (fun i j => lo b (hl_tok (hget hA i)) (hl_tok (hget hA j))) (O ++ seq n0 k))
                 = map to_line (stable_sort lessL (map (hget hA) (O ++ seq n0 k)))).
    { rewrite <- (stable_sort_map (hget hA) lessL), map_map. reflexivity. }
    assert (EB : map (fun i => to_line (hget hB i)) (stable_sort (fun i j => lo b (hl_tok (hget hB i)) (hl_tok (hget hB j))) (O ++ seq n0 k))
                 = map to_line (stable_sort lessL (map (hget hB) (O ++ seq n0 k)))).
    { rewrite <- (stable_sort_map (hget hB) lessL), map_map. reflexivity. }
    rewrite EA, EB. f_equal. rewrite !map_app.
    assert (EO : @map nat hline (hget hA) O = @map nat hline (hget hB) O).
    { apply map_ext_in. intros i Hi. rewrite Forall_forall in HO. apply old_agree. apply HO. exact Hi. }
    assert (E1 : @map nat hline (hget hA) (seq n0 k) = XA) by (subst k; apply hget_app_seq).
    assert (E2 : @map nat hline (hget hB) (seq n0 k) = XB) by (subst k; rewrite (Permutation_length HP); apply hget_app_seq).
    rewrite EO, E1, E2.
    rewrite !stable_sort_app. f_equal.
    apply (sorted_perm_eq (fun x => D (hl_tok x)) lessL XA XB).
    - exact (swo_pull_line D (lo b) S).
    - exact HD.
    - exact Hpw.
    - exact HP.
  Qed.
End Render.

Lemma rkL_app K a b : rkL K (a ++ b) = rkL K a ++ rkL K b.
Proof. apply flat_map_app. Qed.

Lemma filter_all {A} (p : A -> bool) l : (forall x, In x l -> p x = true) -> filter p l = l.
Proof.
  induction l as [|x r IH]; intros H; cbn; [reflexivity|]. rewrite (H x (or_introl eq_refl)). f_equal.
  apply IH. intros y Hy. apply H. right. exact Hy.
Qed.

Section Render2.
  Context (C XA XB : list hline) (lo : hblock -> list str -> list str -> bool).
  Hypothesis lo_lines : forall b ls, lo (block_with_lines b ls) = lo b.
  Hypothesis HP : Permutation XA XB.
  Let n0 := length C.
  Context (K : list (option lid)).
  Hypothesis K_old : forall i, In (Some i) K -> (i < n0)%nat.

  Lemma rkL_old L : (forall st, In st L -> old_stmt C st) -> forall st, In st (rkL K L) -> old_stmt C st.
  Proof.
    intros H st Hst. unfold rkL in Hst. apply in_flat_map in Hst. destruct Hst as [st0 [Hin0 Hst]].
    specialize (H st0 Hin0). destruct st0 as [i|b|c]; cbn in Hst.
    - destruct (killed K (Some i)); [destruct Hst | destruct Hst as [<-|[]]; exact H].
    - destruct (nilb _); [destruct Hst|]. destruct Hst as [<-|[]].
      intros i Hi. apply H. cbn [stmt_lines block_with_lines hb_lines hb_tok] in Hi |- *.
      rewrite map_map in Hi |- *. cbn [fst] in Hi |- *. rewrite map_id in Hi |- *. apply filter_In in Hi. tauto.
    - destruct Hst as [<-|[]]. exact H.
  Qed.

  Lemma rkL_new b O k :
    (1 <= k)%nat ->
    rkL K [SBlock (block_with_lines b (O ++ seq n0 k))]
    = [SBlock (block_with_lines b (filter (fun i => negb (killed K (Some i))) O ++ seq n0 k))].
  Proof.
    intros Hk. unfold rkL. cbn [flat_map block_with_lines hb_lines]. rewrite app_nil_r, filter_app.
    rewrite (filter_all _ (seq n0 k)).
    - assert (Hn : forall F : list nat, nilb (F ++ seq n0 k) = false).
      { intros [|? ?]; [destruct k; [lia | reflexivity] | reflexivity]. }
      rewrite Hn. reflexivity.
    - intros i Hi. apply in_seq in Hi. cbv beta.
      match goal with |- negb ?t = true => destruct t eqn:E end; [|reflexivity].
      apply killed_In in E. apply K_old in E. lia.
  Qed.

  Theorem render_eq (D : list str -> Prop) name nb fc pre b O k post :
    k = length XA -> (1 <= k)%nat -> Forall (fun i => (i < n0)%nat) O ->
    (forall st, In st (pre ++ post) -> old_stmt C st) ->
    StrictWeakOn D (lo b) -> Forall (fun x => D (hl_tok x)) XA ->
    ForallOrdPairs (fun x y => lo b (hl_tok x) (hl_tok y) = true \/ lo b (hl_tok y) (hl_tok x) = true) XA ->
    let L := pre ++ SBlock (block_with_lines b (O ++ seq n0 k)) :: post in
    to_syntax name (sortS lo (remove_killed (mkSyn (C ++ XA) nb fc L) K))
    = to_syntax name (sortS lo (remove_killed (mkSyn (C ++ XB) nb fc L) K)).
  Proof.
    intros Hk Hk1 HO Hold S HD Hpw L.
    rewrite !remove_killed_rkL. unfold sortS, to_syntax. cbn [heap stmts fcom with_stmts]. f_equal.
    unfold L. change (pre ++ SBlock (block_with_lines b (O ++ seq n0 k)) :: post)
      with (pre ++ [SBlock (block_with_lines b (O ++ seq n0 k))] ++ post).
    rewrite !rkL_app, (rkL_new b O k Hk1), !map_app. cbn [map].
    assert (Hside : forall L0, (forall st, In st L0 -> old_stmt C st) ->
              map (to_expr (C ++ XA)) (map (sort_stmt (C ++ XA) lo) (rkL K L0))
              = map (to_expr (C ++ XB)) (map (sort_stmt (C ++ XB) lo) (rkL K L0))).
    { intros L0 H0. rewrite !map_map. apply map_ext_in. intros st Hst.
      apply (sort_render_old C XA XB lo). apply (rkL_old L0 H0 st Hst). }
    rewrite (Hside pre) by (intros st Hst; apply Hold; apply in_app_iff; left; exact Hst).
    rewrite (Hside post) by (intros st Hst; apply Hold; apply in_app_iff; right; exact Hst).
    assert (Hmid := sort_render_new C XA XB lo lo_lines HP D b (filter (fun i => negb (killed K (Some i))) O) k Hk).
    f_equal. cbn [app]. f_equal. apply Hmid; [| exact S | exact HD | exact Hpw].
    apply Forall_forall. intros i Hi. apply filter_In in Hi. rewrite Forall_forall in HO. apply HO. tauto.
  Qed.
End Render2.

Lemma toks_less_total a b : a <> b -> toks_less a b = true \/ toks_less b a = true.
Proof.
  intros Hne. rewrite !toks_less_cmp. unfold lt_of.
  pose proof (Verif.Semver.ProofsOrder.list_lex_POrd str_cmp Verif.Semver.ProofsStr.str_cmp_POrd) as P.
  destruct (Verif.Semver.ProofsOrder.list_lex str_cmp a b) eqn:E.
  - exfalso. apply Hne. exact (Verif.Semver.ProofsOrder.list_lex_Separating str_cmp Verif.Semver.ProofsStr.str_cmp_Separating a b E).
  - left. reflexivity.
  - right. rewrite (Verif.Semver.ProofsOrder.po_antisym _ P a b), E. reflexivity.
Qed.

Lemma pairwise_tokens (X : list hline) :
  NoDup (map hl_tok X) ->
  ForallOrdPairs (fun x y => toks_less (hl_tok x) (hl_tok y) = true \/ toks_less (hl_tok y) (hl_tok x) = true) X.
Proof.
  induction X as [|x r IH]; intros Hnd; [constructor|]. cbn [map] in Hnd. inversion Hnd as [|? ? Hni Hr]; subst.
  constructor; [|apply IH; exact Hr]. apply Forall_forall. intros y Hy. apply toks_less_total.
  intros E. apply Hni. rewrite E. apply in_map. exact Hy.
Qed.

(* ---------------------------------------------------------------- new lines appended to several blocks *)
Definition sel (id : nat) (ps : list (nat * lid)) : list lid :=
  map snd (filter (fun p => Nat.eqb (fst p) id) ps).

Definition app_all (ps : list (nat * lid)) (st : stmt) : stmt :=
  match st with
  | SBlock b => SBlock (block_with_lines b (hb_lines b ++ sel (hb_id b) ps))
  | _ => st
  end.

Section Render3.
  Context (C XA XB : list hline) (lo : hblock -> list str -> list str -> bool).
  Hypothesis lo_lines : forall b ls, lo (block_with_lines b ls) = lo b.
  Let hA := C ++ XA.
  Let hB := C ++ XB.
  Let n0 := length C.
  Context (K : list (option lid)).
  Hypothesis K_old : forall i, In (Some i) K -> (i < n0)%nat.

  Lemma sort_render_new2 b (O TA TB : list nat) :
    Forall (fun i => (i < n0)%nat) O ->
    Permutation (map (hget hA) TA) (map (hget hB) TB) ->
    lo b = toks_less -> NoDup (map hl_tok (map (hget hA) TA)) ->
    to_expr hA (sort_stmt hA lo (SBlock (block_with_lines b (O ++ TA))))
    = to_expr hB (sort_stmt hB lo (SBlock (block_with_lines b (O ++ TB)))).
  Proof.
    intros HO HPm Hlo Hnd.
    cbn [sort_stmt to_expr sort_block block_with_lines hb_com hb_lp hb_tok hb_lines hb_rp].
    rewrite !lo_lines. f_equal. f_equal.
    set (lessL := fun x y : hline => lo b (hl_tok x) (hl_tok y)).
    assert (EA : map (fun i => to_line (hget hA i)) (stable_sort (fun i j => lo b (hl_tok (hget hA i)) (hl_tok (hget hA j))) (O ++ TA))
                 = map to_line (stable_sort lessL (map (hget hA) (O ++ TA)))).
    { rewrite <- (stable_sort_map (hget hA) lessL), map_map. reflexivity. }
    assert (EB : map (fun i => to_line (hget hB i)) (stable_sort (fun i j => lo b (hl_tok (hget hB i)) (hl_tok (hget hB j))) (O ++ TB))
                 = map to_line (stable_sort lessL (map (hget hB) (O ++ TB)))).
    { rewrite <- (stable_sort_map (hget hB) lessL), map_map. reflexivity. }
    rewrite EA, EB. f_equal. rewrite !map_app.
    assert (EO : @map nat hline (hget hA) O = @map nat hline (hget hB) O).
    { apply map_ext_in. intros i Hi. rewrite Forall_forall in HO. apply (old_agree C XA XB). apply HO. exact Hi. }
    rewrite EO, !stable_sort_app. f_equal.
    apply (sorted_perm_eq (fun x => any (hl_tok x)) lessL).
    - unfold lessL. rewrite Hlo. exact (swo_pull_line any toks_less toks_less_swo).
    - apply Forall_forall. intros x _. exact I.
    - unfold lessL. rewrite Hlo. apply pairwise_tokens. exact Hnd.
    - exact HPm.
  Qed.

  (* one statement of the old tree, with the new lines of the two runs *)
  Lemma render_stmt2 PA PB st :
    old_stmt C st ->
    (forall p, In p PA -> (n0 <= snd p)%nat) -> (forall p, In p PB -> (n0 <= snd p)%nat) ->
    (forall b, st = SBlock b ->
       Permutation (map (hget hA) (sel (hb_id b) PA)) (map (hget hB) (sel (hb_id b) PB)) /\
       (sel (hb_id b) PA <> [] -> lo b = toks_less) /\
       NoDup (map hl_tok (map (hget hA) (sel (hb_id b) PA)))) ->
    map (to_expr hA) (map (sort_stmt hA lo) (rkL K [app_all PA st]))
    = map (to_expr hB) (map (sort_stmt hB lo) (rkL K [app_all PB st])).
  Proof.
    intros Hold HA HB Hblk. destruct st as [i|b|c]; cbn [app_all].
    - unfold rkL. cbn [flat_map]. destruct (killed K (Some i)); [reflexivity|]. cbn [app map]. f_equal.
      apply (sort_render_old C XA XB lo (SLine i) Hold).
    - destruct (Hblk b eq_refl) as [HPm [Hlo Hnd]].
      set (TA := sel (hb_id b) PA) in *. set (TB := sel (hb_id b) PB) in *.
      assert (HTA : forall i, In i TA -> (n0 <= i)%nat).
      { intros i Hi. unfold TA, sel in Hi. apply in_map_iff in Hi. destruct Hi as [p [<- Hp]]. apply filter_In in Hp. apply HA. tauto. }
      assert (HTB : forall i, In i TB -> (n0 <= i)%nat).
      { intros i Hi. unfold TB, sel in Hi. apply in_map_iff in Hi. destruct Hi as [p [<- Hp]]. apply filter_In in Hp. apply HB. tauto. }
      assert (Hkeep : forall T : list lid, (forall i, In i T -> (n0 <= i)%nat) ->
                filter (fun i => negb (killed K (Some i))) T = T).
      { intros T HT. apply filter_all. intros i Hi. cbv beta.
        match goal with |- negb ?t = true => destruct t eqn:E end; [|reflexivity].
        apply killed_In in E. apply K_old in E. specialize (HT i Hi). lia. }
      unfold rkL. cbn [flat_map block_with_lines hb_lines]. rewrite !app_nil_r, !filter_app.
      rewrite (Hkeep TA HTA), (Hkeep TB HTB).
      set (O := filter (fun i => negb (killed K (Some i))) (hb_lines b)).
      assert (HO : Forall (fun i => (i < n0)%nat) O).
      { apply Forall_forall. intros i Hi. apply filter_In in Hi. apply Hold. cbn [stmt_lines].
        rewrite map_map. cbn [fst]. rewrite map_id. tauto. }
      assert (Hlen : length TA = length TB) by (rewrite <- (map_length (hget hA) TA), <- (map_length (hget hB) TB); apply Permutation_length; exact HPm).
      destruct TA as [|a ra] eqn:ETA.
      + destruct TB as [|? ?]; [|discriminate Hlen]. rewrite !app_nil_r.
        destruct (nilb O) eqn:EO; [reflexivity|]. cbn [map]. f_equal.
        apply (sort_render_old C XA XB lo (SBlock (block_with_lines b O))).
        intros i Hi. cbn [stmt_lines block_with_lines hb_lines hb_tok] in Hi. rewrite map_map in Hi. cbn [fst] in Hi.
        rewrite map_id in Hi. rewrite Forall_forall in HO. apply HO. exact Hi.
      + destruct TB as [|c rc] eqn:ETB; [discriminate Hlen|].
        assert (N1 : forall X : list lid, nilb (O ++ a :: X) = false) by (intros X; destruct O; reflexivity).
        assert (N2 : forall X : list lid, nilb (O ++ c :: X) = false) by (intros X; destruct O; reflexivity).
        rewrite N1, N2. cbn [map]. f_equal.
        apply (sort_render_new2 b O (a :: ra) (c :: rc) HO HPm); [apply Hlo; discriminate | exact Hnd].
    - reflexivity.
  Qed.

  Theorem render_eq2 name nb fc L0 PA PB :
    (forall st, In st L0 -> old_stmt C st) ->
    (forall p, In p PA -> (n0 <= snd p)%nat) -> (forall p, In p PB -> (n0 <= snd p)%nat) ->
    (forall b, In (SBlock b) L0 ->
       Permutation (map (hget hA) (sel (hb_id b) PA)) (map (hget hB) (sel (hb_id b) PB)) /\
       (sel (hb_id b) PA <> [] -> lo b = toks_less) /\
       NoDup (map hl_tok (map (hget hA) (sel (hb_id b) PA)))) ->
    to_syntax name (sortS lo (remove_killed (mkSyn hA nb fc (map (app_all PA) L0)) K))
    = to_syntax name (sortS lo (remove_killed (mkSyn hB nb fc (map (app_all PB) L0)) K)).
  Proof.
    intros Hold HA HB Hblk. rewrite !remove_killed_rkL. unfold sortS, to_syntax. cbn [heap stmts fcom with_stmts]. f_equal.
    induction L0 as [|st r IH]; [reflexivity|]. cbn [map].
    change (app_all PA st :: map (app_all PA) r) with ([app_all PA st] ++ map (app_all PA) r).
    change (app_all PB st :: map (app_all PB) r) with ([app_all PB st] ++ map (app_all PB) r).
    rewrite !rkL_app, !map_app. f_equal.
    - apply (render_stmt2 PA PB st (Hold st (or_introl eq_refl)) HA HB). intros b ->. apply Hblk. left. reflexivity.
    - apply IH; [intros x Hx; apply Hold; right; exact Hx | intros b Hb; apply Hblk; right; exact Hb].
  Qed.
End Render3.
