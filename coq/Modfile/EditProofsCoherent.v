(* C15: preservation of the coherence invariant. *)
From Coq Require Import Permutation.
From Verif.Base Require Import Bytes.
From Verif.Modfile Require Import EditModel EditOps EditSpec EditProofsTyped EditProofsHeap.

Definition vid (x : dview) : lid := fst (fst x).

(* remove the directives of the lines in T from a view *)
Definition rm (T : list lid) (l : list dview) : list dview :=
  filter (fun x => negb (existsb (Nat.eqb (vid x)) T)) l.

Lemma rm_app T a b : rm T (a ++ b) = rm T a ++ rm T b.
Proof. apply filter_app. Qed.

Lemma in_T_b (T : list lid) i : existsb (Nat.eqb i) T = true <-> In i T.
Proof.
  rewrite existsb_exists. split.
  - intros [x [Hx He]]. apply Nat.eqb_eq in He. subst. exact Hx.
  - intros H. exists i. split; [exact H | apply Nat.eqb_refl].
Qed.

Lemma rm_disjoint T l : (forall x, In x l -> ~ In (vid x) T) -> rm T l = l.
Proof.
  intros H. unfold rm. induction l as [|x r IH]; cbn; [reflexivity|].
  destruct (existsb (Nat.eqb (vid x)) T) eqn:E.
  - apply in_T_b in E. exfalso. apply (H x); [left; reflexivity | exact E].
  - cbn. f_equal. apply IH. intros y Hy. apply H. right. exact Hy.
Qed.

Lemma rm_all T l : (forall x, In x l -> In (vid x) T) -> rm T l = [].
Proof.
  intros H. unfold rm. induction l as [|x r IH]; cbn; [reflexivity|].
  assert (E : existsb (Nat.eqb (vid x)) T = true) by (apply in_T_b; apply H; left; reflexivity).
  rewrite E. cbn. apply IH. intros y Hy. apply H. right. exact Hy.
Qed.

Lemma rm_flat_map {A} T (g : A -> list dview) l : rm T (flat_map g l) = flat_map (fun a => rm T (g a)) l.
Proof. induction l as [|a r IH]; cbn [flat_map]; [reflexivity|]. rewrite rm_app, IH. reflexivity. Qed.

Lemma rm_perm T a b : Permutation a b -> Permutation (rm T a) (rm T b).
Proof.
  unfold rm. induction 1; cbn.
  - constructor.
  - destruct (negb _); [constructor|]; assumption.
  - destruct (negb (existsb (Nat.eqb (vid x)) T)), (negb (existsb (Nat.eqb (vid y)) T)); try reflexivity.
    apply perm_swap.
  - etransitivity; eassumption.
Qed.

Lemma rm_cons_comm i T l : rm (i :: T) l = rm T (rm [i] l).
Proof.
  unfold rm. induction l as [|x r IH]; cbn; [reflexivity|].
  destruct (Nat.eqb (vid x) i); cbn; [exact IH|].
  destruct (existsb (Nat.eqb (vid x)) T); cbn; [exact IH | f_equal; exact IH].
Qed.

(* ---------------------------------------------------------------- the tree side *)

Lemma line_view_vid s x y : In y (line_view s x) -> vid y = fst x.
Proof.
  unfold line_view. destruct (hl_tok (sget s (fst x))) as [|t ts]; [intros []|].
  destruct (snd x); intros [<-|[]]; reflexivity.
Qed.

Lemma mark_removed_tok s i : hl_tok (sget (mark_removed s i) i) = [].
Proof.
  unfold mark_removed. destruct (Nat.lt_ge_cases i (heap_len s)) as [H|H].
  - rewrite sget_sset_same by exact H. reflexivity.
  - unfold sget, sset, hget; cbn. rewrite nth_overflow; [reflexivity | rewrite hset_length; exact H].
Qed.

Lemma tree_view_mark_removed s i : tree_view (mark_removed s i) = rm [i] (tree_view s).
Proof.
  unfold tree_view. change (tree_lines (mark_removed s i)) with (tree_lines s).
  rewrite rm_flat_map. apply flat_map_ext. intros x.
  destruct (Nat.eq_dec (fst x) i) as [E|E].
  - rewrite rm_all.
    + unfold line_view. rewrite E, mark_removed_tok. reflexivity.
    + intros y Hy. left. rewrite (line_view_vid s x y Hy). symmetry. exact E.
  - rewrite rm_disjoint.
    + unfold line_view. rewrite mark_removed_other by congruence. reflexivity.
    + intros y Hy [Hi|[]]. apply E. rewrite <- (line_view_vid s x y Hy). symmetry. exact Hi.
Qed.

Lemma tree_view_mark_removed_all T : forall s, tree_view (fold_left mark_removed T s) = rm T (tree_view s).
Proof.
  induction T as [|i T IH]; intros s; cbn [fold_left].
  - symmetry. apply rm_disjoint. intros x _ [].
  - rewrite IH, tree_view_mark_removed. symmetry. apply rm_cons_comm.
Qed.

Lemma mark_removed_inb s i j : hl_inb (sget (mark_removed s i) j) = hl_inb (sget s j).
Proof. unfold mark_removed, sget, sset; cbn. apply hget_hset_proj. reflexivity. Qed.

Lemma mark_removed_tok_len s i j :
  length (hl_tok (sget s j)) <> 1%nat -> length (hl_tok (sget (mark_removed s i) j)) <> 1%nat.
Proof.
  destruct (Nat.eq_dec i j) as [->|Hn].
  - rewrite mark_removed_tok. cbn. lia.
  - rewrite mark_removed_other by exact Hn. tauto.
Qed.

Lemma syntax_ok_mark_removed s i : SyntaxOk s -> SyntaxOk (mark_removed s i).
Proof.
  intros [H1 H2 H3]. split.
  - exact H1.
  - change (tree_lines (mark_removed s i)) with (tree_lines s).
    eapply Forall_impl; [|exact H2]. intros x [Hl [Hb Ht]]. split; [|split].
    + change (length (heap (mark_removed s i))) with (heap_len (mark_removed s i)).
      rewrite mark_removed_len. exact Hl.
    + rewrite mark_removed_inb. exact Hb.
    + destruct (snd x); [exact I | apply mark_removed_tok_len; exact Ht].
  - exact H3.
Qed.

Lemma syntax_ok_mark_removed_all T : forall s, SyntaxOk s -> SyntaxOk (fold_left mark_removed T s).
Proof. induction T as [|i T IH]; intros s H; cbn; [exact H | apply IH, syntax_ok_mark_removed, H]. Qed.

(* ---------------------------------------------------------------- the typed side *)
Definition ids (l : list dview) : list lid := map vid l.

Lemma ent_view_vid e x : In x (ent_view e) -> en_syn e = Some (vid x) /\ en_live e = true.
Proof.
  unfold ent_view. destruct (en_syn e) as [i|]; [|intros []].
  destruct (en_live e); [|intros []]. intros [<-|[]]. auto.
Qed.

Lemma ent_view_some e i : ent_ok e -> en_syn e = Some i -> exists x, ent_view e = [x] /\ vid x = i.
Proof.
  unfold ent_ok, ent_view. intros Hok Hs. rewrite Hs in *. destruct (en_live e); [|discriminate].
  eexists. split; reflexivity.
Qed.

Lemma filter_filter {A} (p q : A -> bool) l : filter p (filter q l) = filter (fun x => q x && p x) l.
Proof.
  induction l as [|x r IH]; cbn; [reflexivity|].
  destruct (q x); cbn; [destruct (p x); rewrite IH; reflexivity | exact IH].
Qed.

Lemma rm_app_T T1 T2 l : rm (T1 ++ T2) l = rm T1 (rm T2 l).
Proof.
  unfold rm. rewrite filter_filter. apply filter_ext. intros x. cbn beta.
  rewrite existsb_app, Bool.negb_orb. apply Bool.andb_comm.
Qed.

Lemma tree_view_ids_nodup s : NoDup (map fst (tree_lines s)) -> NoDup (ids (tree_view s)).
Proof.
  unfold tree_view. generalize (tree_lines s) as tl. induction tl as [|x r IH]; cbn; intros Hnd; [constructor|].
  inversion Hnd as [|? ? Hni Hr]; subst. unfold ids. rewrite map_app.
  assert (Hx : forall y, In y (line_view s x) -> vid y = fst x) by (intros y; apply line_view_vid).
  unfold line_view in *. destruct (hl_tok (sget s (fst x))) as [|t ts]; [exact (IH Hr)|].
  assert (Hni' : ~ In (fst x) (ids (flat_map (line_view s) r))).
  { intros Hin. apply Hni. unfold ids in Hin. apply in_map_iff in Hin. destruct Hin as [y [Hy Hin]].
    apply in_flat_map in Hin. destruct Hin as [z [Hz Hin]]. apply line_view_vid in Hin.
    apply in_map_iff. exists z. split; [congruence | exact Hz]. }
  destruct (snd x); cbn; constructor; auto.
Qed.

Section Kill.
  Context {E : Type} (g : E -> ent) (m : E -> bool) (zero : E).
  Hypothesis zero_view : ent_view (g zero) = [].

  Definition killT (l : list E) : list lid := flat_map (fun e => if m e then opt_list (en_syn (g e)) else []) l.
  Definition kill_list (l : list E) : list E := map (fun e => if m e then zero else e) l.

  Lemma killT_in j l : Forall ent_ok (map g l) -> In j (killT l) -> In j (ids (flat_map ent_view (map g l))).
  Proof.
    induction l as [|e r IH]; cbn; intros Hok Hin; [destruct Hin|].
    inversion Hok as [|? ? He Hr]; subst. unfold ids. rewrite map_app. apply in_app_iff.
    apply in_app_iff in Hin. destruct Hin as [Hin|Hin].
    - left. destruct (m e); [|destruct Hin]. destruct (en_syn (g e)) as [i|] eqn:Hs; [|destruct Hin].
      destruct Hin as [<-|[]]. destruct (ent_view_some _ _ He Hs) as [x [Hx Hv]]. rewrite Hx. left. exact Hv.
    - right. apply IH; assumption.
  Qed.

  Lemma kill_view l :
    Forall ent_ok (map g l) -> NoDup (ids (flat_map ent_view (map g l))) ->
    flat_map ent_view (map g (kill_list l)) = rm (killT l) (flat_map ent_view (map g l)).
  Proof.
    induction l as [|e r IH]; intros Hok Hnd; cbn [map flat_map kill_list killT]; [reflexivity|].
    inversion Hok as [|? ? He Hr]; subst. cbn [map flat_map] in Hnd. unfold ids in Hnd. rewrite map_app in Hnd.
    pose proof (NoDup_app_r _ _ Hnd) as Hnd_r.
    fold (kill_list r). fold (killT r). rewrite rm_app.
    assert (Hdis : forall x y, In x (ent_view (g e)) -> In y (flat_map ent_view (map g r)) -> vid x <> vid y).
    { intros x y Hx Hy Heq. eapply (NoDup_app_disj _ _ (vid x) Hnd); [apply in_map; exact Hx|].
      rewrite Heq. apply in_map. exact Hy. }
    destruct (m e) eqn:Hm.
    - rewrite zero_view. cbn [app].
      rewrite (rm_all _ (ent_view (g e))).
      + cbn [app]. rewrite rm_app_T, <- (IH Hr Hnd_r). symmetry. apply rm_disjoint.
        intros y Hy Hin.
        destruct (en_syn (g e)) as [i|] eqn:Hs; [|destruct Hin]. destruct Hin as [Hi|[]].
        destruct (ent_view_some _ _ He Hs) as [x [Hx Hv]].
        assert (Hy' : In y (flat_map ent_view (map g r))).
        { rewrite (IH Hr Hnd_r) in Hy. unfold rm in Hy. apply filter_In in Hy. tauto. }
        apply (Hdis x y); [rewrite Hx; left; reflexivity | exact Hy' | congruence].
      + intros x Hx. apply in_app_iff. left. apply ent_view_vid in Hx. destruct Hx as [Hs _]. rewrite Hs. left. reflexivity.
    - cbn [app]. rewrite (rm_disjoint _ (ent_view (g e))).
      + f_equal. exact (IH Hr Hnd_r).
      + intros x Hx Hin. apply (killT_in _ _ Hr) in Hin. unfold ids in Hin. apply in_map_iff in Hin.
        destruct Hin as [y [Hv Hy]]. apply (Hdis x y Hx Hy). congruence.
  Qed.
End Kill.

Lemma drop_loop_spec {E} (m : E -> bool) syn zero : forall l s s' l',
  drop_loop m syn zero s l = Some (s', l') ->
  l' = map (fun e => if m e then zero else e) l /\
  s' = fold_left mark_removed (flat_map (fun e => if m e then opt_list (syn e) else []) l) s.
Proof.
  induction l as [|e r IH]; intros s s' l' H; cbn in H.
  - injection H as <- <-. split; reflexivity.
  - cbn [map flat_map]. destruct (m e).
    + destruct (syn e) as [i|]; [|discriminate].
      destruct (drop_loop m syn zero (mark_removed s i) r) as [[s1 r1]|] eqn:Hr; [|discriminate].
      injection H as <- <-. destruct (IH _ _ _ Hr) as [-> ->]. split; reflexivity.
    + destruct (drop_loop m syn zero s r) as [[s1 r1]|] eqn:Hr; [|discriminate].
      injection H as <- <-. destruct (IH _ _ _ Hr) as [-> ->]. split; reflexivity.
Qed.

Lemma typed_ids_nodup f : Coherent f -> NoDup (ids (typed_view f)).
Proof.
  intros [Hs _ Hp]. eapply Permutation_NoDup; [apply Permutation_map; exact Hp|].
  apply tree_view_ids_nodup. apply Hs.
Qed.

Lemma coherent_kill_gen (f f' : file) A B es es' T :
  Coherent f ->
  entries f = A ++ es ++ B ->
  entries f' = A ++ es' ++ B ->
  Forall ent_ok es' ->
  flat_map ent_view es' = rm T (flat_map ent_view es) ->
  (forall j, In j T -> In j (ids (flat_map ent_view es))) ->
  fsyn f' = fold_left mark_removed T (fsyn f) ->
  Coherent f'.
Proof.
  intros Hc He He' Hok' Hview HT Hs.
  pose proof (typed_ids_nodup f Hc) as Hnd. destruct Hc as [Hsyn Hent Hperm].
  unfold typed_view in Hnd, Hperm. rewrite He in Hnd, Hperm. unfold EntriesOk in Hent. rewrite He in Hent.
  rewrite !flat_map_app in Hnd, Hperm. unfold ids in Hnd. rewrite !map_app in Hnd.
  apply Forall_app in Hent. destruct Hent as [HA Hent]. apply Forall_app in Hent. destruct Hent as [HM HB].
  pose proof (NoDup_app_r _ _ Hnd) as Hnd_MB.
  split.
  - rewrite Hs. apply syntax_ok_mark_removed_all. exact Hsyn.
  - unfold EntriesOk. rewrite He'. apply Forall_app. split; [exact HA|]. apply Forall_app. split; [exact Hok' | exact HB].
  - rewrite Hs, tree_view_mark_removed_all. unfold typed_view. rewrite He', !flat_map_app, Hview.
    rewrite <- (rm_disjoint T (flat_map ent_view A)).
    + rewrite <- (rm_disjoint T (flat_map ent_view B)).
      * rewrite <- !rm_app. apply rm_perm. exact Hperm.
      * intros x Hx Hin. apply HT in Hin.
        eapply (NoDup_app_disj _ _ (vid x) Hnd_MB); [exact Hin | apply in_map; exact Hx].
    + intros x Hx Hin. apply HT in Hin.
      eapply (NoDup_app_disj _ _ (vid x) Hnd); [apply in_map; exact Hx | apply in_app_iff; left; exact Hin].
Qed.

Lemma coherent_kill {E} (g : E -> ent) (m : E -> bool) (zero : E) (f f' : file) A B l :
  ent_view (g zero) = [] -> ent_ok (g zero) ->
  Coherent f ->
  entries f = A ++ map g l ++ B ->
  entries f' = A ++ map g (kill_list m zero l) ++ B ->
  fsyn f' = fold_left mark_removed (killT g m l) (fsyn f) ->
  Coherent f'.
Proof.
  intros Hzv Hzo Hc He He' Hs.
  assert (HM : Forall ent_ok (map g l)).
  { destruct Hc as [_ Hent _]. unfold EntriesOk in Hent. rewrite He in Hent.
    apply Forall_app in Hent. destruct Hent as [_ Hent]. apply Forall_app in Hent. tauto. }
  assert (Hnd_M : NoDup (ids (flat_map ent_view (map g l)))).
  { pose proof (typed_ids_nodup f Hc) as Hnd. unfold typed_view in Hnd. rewrite He, !flat_map_app in Hnd.
    unfold ids in Hnd. rewrite !map_app in Hnd. exact (NoDup_app_l _ _ (NoDup_app_r _ _ Hnd)). }
  eapply (coherent_kill_gen f f' A B _ _ (killT g m l) Hc He He').
  - unfold kill_list. rewrite map_map. apply Forall_forall. intros x Hx. apply in_map_iff in Hx.
    destruct Hx as [e [<- Hin]]. destruct (m e); [exact Hzo|].
    rewrite Forall_forall in HM. apply HM. apply in_map. exact Hin.
  - apply kill_view; assumption.
  - intros j. apply killT_in. exact HM.
  - exact Hs.
Qed.

(* ---------------------------------------------------------------- splitting [entries] *)
Definition pre_godebug f := map ent_module (opt_list (f_module f)) ++ map ent_go (opt_list (f_go f))
                            ++ map ent_toolchain (opt_list (f_toolchain f)).
Definition pre_require f := pre_godebug f ++ map ent_godebug (f_godebug f).
Definition pre_exclude f := pre_require f ++ map ent_require (f_require f).
Definition pre_replace f := pre_exclude f ++ map ent_exclude (f_exclude f).
Definition pre_retract f := pre_replace f ++ map ent_replace (f_replace f).
Definition pre_tool f := pre_retract f ++ map ent_retract (f_retract f).
Definition pre_use f := pre_tool f ++ map ent_tool (f_tool f).
Definition post_tool f := map ent_use (f_use f).
Definition post_retract f := map ent_tool (f_tool f) ++ post_tool f.
Definition post_replace f := map ent_retract (f_retract f) ++ post_retract f.
Definition post_exclude f := map ent_replace (f_replace f) ++ post_replace f.
Definition post_require f := map ent_exclude (f_exclude f) ++ post_exclude f.
Definition post_godebug f := map ent_require (f_require f) ++ post_require f.

Ltac split_entries :=
  unfold entries, pre_use, pre_tool, pre_retract, pre_replace, pre_exclude, pre_require, pre_godebug,
         post_godebug, post_require, post_exclude, post_replace, post_retract, post_tool;
  repeat rewrite <- app_assoc; reflexivity.

Lemma entries_godebug f : entries f = pre_godebug f ++ map ent_godebug (f_godebug f) ++ post_godebug f.
Proof. split_entries. Qed.
Lemma entries_require f : entries f = pre_require f ++ map ent_require (f_require f) ++ post_require f.
Proof. split_entries. Qed.
Lemma entries_exclude f : entries f = pre_exclude f ++ map ent_exclude (f_exclude f) ++ post_exclude f.
Proof. split_entries. Qed.
Lemma entries_replace f : entries f = pre_replace f ++ map ent_replace (f_replace f) ++ post_replace f.
Proof. split_entries. Qed.
Lemma entries_retract f : entries f = pre_retract f ++ map ent_retract (f_retract f) ++ post_retract f.
Proof. split_entries. Qed.
Lemma entries_tool f : entries f = pre_tool f ++ map ent_tool (f_tool f) ++ post_tool f.
Proof. split_entries. Qed.
Lemma entries_use f : entries f = pre_use f ++ map ent_use (f_use f) ++ [].
Proof. rewrite app_nil_r. split_entries. Qed.

(* ---------------------------------------------------------------- the Drop family *)
Lemma drop_godebug_coherent f key f' : Coherent f -> drop_godebug f key = Some f' -> Coherent f'.
Proof.
  intros Hc H. unfold drop_godebug in H.
  destruct (drop_loop _ _ _ _ _) as [[s l]|] eqn:Hd; [|discriminate]. injection H as <-.
  apply drop_loop_spec in Hd. destruct Hd as [-> ->].
  eapply (coherent_kill ent_godebug (fun g => str_eqb (gd_key g) key) zero_godebug f _ _ _ (f_godebug f)
            eq_refl eq_refl Hc (entries_godebug f)).
  - rewrite entries_godebug. reflexivity.
  - reflexivity.
Qed.

Lemma drop_require_coherent f p f' : Coherent f -> drop_require f p = Some f' -> Coherent f'.
Proof.
  intros Hc H. unfold drop_require in H.
  destruct (drop_loop _ _ _ _ _) as [[s l]|] eqn:Hd; [|discriminate]. injection H as <-.
  apply drop_loop_spec in Hd. destruct Hd as [-> ->].
  eapply (coherent_kill ent_require (fun r => str_eqb (rq_path r) p) zero_require f _ _ _ (f_require f)
            eq_refl eq_refl Hc (entries_require f)).
  - rewrite entries_require. reflexivity.
  - reflexivity.
Qed.

Lemma drop_exclude_coherent f p v f' : Coherent f -> drop_exclude f p v = Some f' -> Coherent f'.
Proof.
  intros Hc H. unfold drop_exclude in H.
  destruct (drop_loop _ _ _ _ _) as [[s l]|] eqn:Hd; [|discriminate]. injection H as <-.
  apply drop_loop_spec in Hd. destruct Hd as [-> ->].
  eapply (coherent_kill ent_exclude (fun x => str_eqb (ex_path x) p && str_eqb (ex_vers x) v) zero_exclude f _ _ _ (f_exclude f)
            eq_refl eq_refl Hc (entries_exclude f)).
  - rewrite entries_exclude. reflexivity.
  - reflexivity.
Qed.

Lemma drop_replace_coherent f op ov f' : Coherent f -> drop_replace f op ov = Some f' -> Coherent f'.
Proof.
  intros Hc H. unfold drop_replace in H.
  destruct (drop_loop _ _ _ _ _) as [[s l]|] eqn:Hd; [|discriminate]. injection H as <-.
  apply drop_loop_spec in Hd. destruct Hd as [-> ->].
  eapply (coherent_kill ent_replace (fun r => str_eqb (rp_op r) op && str_eqb (rp_ov r) ov) zero_replace f _ _ _ (f_replace f)
            eq_refl eq_refl Hc (entries_replace f)).
  - rewrite entries_replace. reflexivity.
  - reflexivity.
Qed.

Lemma drop_retract_coherent f lo hi f' : Coherent f -> drop_retract f lo hi = Some f' -> Coherent f'.
Proof.
  intros Hc H. unfold drop_retract in H.
  destruct (drop_loop _ _ _ _ _) as [[s l]|] eqn:Hd; [|discriminate]. injection H as <-.
  apply drop_loop_spec in Hd. destruct Hd as [-> ->].
  eapply (coherent_kill ent_retract (fun r => str_eqb (rt_lo r) lo && str_eqb (rt_hi r) hi) zero_retract f _ _ _ (f_retract f)
            eq_refl eq_refl Hc (entries_retract f)).
  - rewrite entries_retract. reflexivity.
  - reflexivity.
Qed.

Lemma drop_tool_coherent f p f' : Coherent f -> drop_tool f p = Some f' -> Coherent f'.
Proof.
  intros Hc H. unfold drop_tool in H.
  destruct (drop_loop _ _ _ _ _) as [[s l]|] eqn:Hd; [|discriminate]. injection H as <-.
  apply drop_loop_spec in Hd. destruct Hd as [-> ->].
  eapply (coherent_kill ent_tool (fun t => str_eqb (tl_path t) p) zero_tool f _ _ _ (f_tool f)
            eq_refl eq_refl Hc (entries_tool f)).
  - rewrite entries_tool. reflexivity.
  - reflexivity.
Qed.

Lemma drop_use_coherent f p f' : Coherent f -> drop_use f p = Some f' -> Coherent f'.
Proof.
  intros Hc H. unfold drop_use in H.
  destruct (drop_loop _ _ _ _ _) as [[s l]|] eqn:Hd; [|discriminate]. injection H as <-.
  apply drop_loop_spec in Hd. destruct Hd as [-> ->].
  eapply (coherent_kill ent_use (fun u => str_eqb (us_path u) p) zero_use f _ _ _ (f_use f)
            eq_refl eq_refl Hc (entries_use f)).
  - rewrite entries_use. reflexivity.
  - reflexivity.
Qed.

(* go / toolchain statements *)
Lemma entries_go f : entries f = map ent_module (opt_list (f_module f)) ++ map ent_go (opt_list (f_go f))
                                 ++ (map ent_toolchain (opt_list (f_toolchain f)) ++ map ent_godebug (f_godebug f) ++ post_godebug f).
Proof. split_entries. Qed.
Lemma entries_toolchain f : entries f = (map ent_module (opt_list (f_module f)) ++ map ent_go (opt_list (f_go f)))
                                 ++ map ent_toolchain (opt_list (f_toolchain f)) ++ (map ent_godebug (f_godebug f) ++ post_godebug f).
Proof. split_entries. Qed.

Lemma drop_go_stmt_coherent f f' : Coherent f -> drop_go_stmt f = ROk f' -> Coherent f'.
Proof.
  intros Hc H. unfold drop_go_stmt in H. destruct (f_go f) as [g|] eqn:Hg; [|injection H as <-; exact Hc].
  destruct (go_syn g) as [i|] eqn:Hs; [|discriminate]. injection H as <-.
  eapply (coherent_kill_gen f _ _ _ [ent_go g] [] [i] Hc).
  - rewrite entries_go, Hg. reflexivity.
  - rewrite entries_go. reflexivity.
  - constructor.
  - cbn. unfold ent_view; cbn. rewrite Hs. unfold rm; cbn. rewrite Nat.eqb_refl. reflexivity.
  - intros j [<-|[]]. cbn. unfold ent_view; cbn. rewrite Hs. left. reflexivity.
  - reflexivity.
Qed.

Lemma drop_toolchain_stmt_coherent f f' : Coherent f -> drop_toolchain_stmt f = ROk f' -> Coherent f'.
Proof.
  intros Hc H. unfold drop_toolchain_stmt in H. destruct (f_toolchain f) as [g|] eqn:Hg; [|injection H as <-; exact Hc].
  destruct (go_syn g) as [i|] eqn:Hs; [|discriminate]. injection H as <-.
  eapply (coherent_kill_gen f _ _ _ [ent_toolchain g] [] [i] Hc).
  - rewrite entries_toolchain, Hg. reflexivity.
  - rewrite entries_toolchain. reflexivity.
  - constructor.
  - cbn. unfold ent_view; cbn. rewrite Hs. unfold rm; cbn. rewrite Nat.eqb_refl. reflexivity.
  - intros j [<-|[]]. cbn. unfold ent_view; cbn. rewrite Hs. left. reflexivity.
  - reflexivity.
Qed.

(* AddComment *)
Lemma tree_lines_app_comment s c : tree_lines (with_stmts s (stmts s ++ [SComment c])) = tree_lines s.
Proof. unfold tree_lines; cbn. rewrite flat_map_app. cbn. apply app_nil_r. Qed.

Lemma add_comment_coherent f t : Coherent f -> Coherent (add_comment f t).
Proof.
  intros [[H1 H2 H3] He Hp]. unfold add_comment. split.
  - split; cbn [fsyn with_syn].
    + rewrite tree_lines_app_comment. exact H1.
    + rewrite tree_lines_app_comment. exact H2.
    + cbn. apply Forall_app. split; [exact H3 | repeat constructor].
  - exact He.
  - unfold tree_view in *. cbn [fsyn with_syn]. rewrite tree_lines_app_comment. exact Hp.
Qed.
