(* Round trip, part 8a: well-formed rows and well-formed lean trees ([astmt_ok]: what every
   result of [group] on lexer-produced rows satisfies), the normal form [norm] a tree takes
   after print and reparse, and facts about [scan]. *)
From Verif.Base Require Import Bytes Utf8.
From Verif.Modfile Require Import Syntax Lex Parse Print ProofsLex RoundRows RoundParse
  RoundLexPure RoundLexPure3 RoundLexPure4.

(* the text of a token that can stand in a line *)
Definition ltext (x : str) : Prop := exists k, is_ltok k = true /\ lexed k x.

Definition sfx_ok (s : list str) : Prop := Forall comment_text s /\ (length s <= 1)%nat.

Definition row_ok (r : arow) : Prop :=
  match r with
  | RToks toks sfx => toks <> [] /\ Forall ltext toks /\ sfx_ok sfx
  | RCom c => comment_text c
  | RBlank => True
  end.

(* ---------------------------------------------------------------- comments inside a block *)

Definition bcom_ok (c : str) : Prop := c = [] \/ comment_text c.

Fixpoint no_adj_blank (cs : list str) : Prop :=
  match cs with
  | a :: r => match r with b :: _ => (a = [] -> b <> []) | [] => True end /\ no_adj_blank r
  | [] => True
  end.

Definition head_nonblank (cs : list str) : Prop := match cs with c :: _ => c <> [] | [] => True end.

(* [first]: nothing of the block stands before these comments *)
Definition bcoms_ok (first : bool) (cs : list str) : Prop :=
  Forall bcom_ok cs /\ no_adj_blank cs /\ (first = true -> head_nonblank cs).

Lemma comment_text_nonnil c : comment_text c -> c <> [].
Proof. intros (H & _) ->. discriminate. Qed.

Lemma no_adj_blank_snoc l x : no_adj_blank l -> (x = [] -> l <> [] -> last l [] <> []) -> no_adj_blank (l ++ [x]).
Proof.
  induction l as [|a l IH]; intros Hn Hx; cbn [app no_adj_blank]; [auto|].
  destruct Hn as (Ha & Hn). destruct l as [|b l'].
  - cbn [app]. split; [|cbn; auto]. intros Ea Ex. apply (Hx Ex); [discriminate|]. exact Ea.
  - cbn [app]. split; [exact Ha|]. apply IH; [exact Hn|].
    intros Ex _. apply (Hx Ex). discriminate.
Qed.

Lemma bcoms_ok_snoc first l x : bcoms_ok first l -> bcom_ok x ->
  (x = [] -> (l <> [] /\ last l [] <> []) \/ (l = [] /\ first = false)) -> bcoms_ok first (l ++ [x]).
Proof.
  intros (A & B & C) Hx Hb. split; [apply Forall_app; split; [exact A|constructor; [exact Hx|constructor]]|].
  split.
  - apply no_adj_blank_snoc; [exact B|]. intros Ex Hne. destruct (Hb Ex) as [(_ & H)|(H & _)]; [exact H|congruence].
  - intros Hf. destruct l as [|a l']; [|apply C; exact Hf]. cbn. intros Ex.
    destruct (Hb Ex) as [(H & _)|(_ & H)]; congruence.
Qed.

(* ---------------------------------------------------------------- the lean tree *)

Definition aline_ok (first : bool) (l : aline) : Prop :=
  bcoms_ok first (al_before l) /\
  (exists t0 more, al_toks l = t0 :: more /\ is_rp t0 = false) /\
  Forall ltext (al_toks l) /\ sfx_ok (al_suffix l).

Fixpoint alines_ok (first : bool) (ls : list aline) : Prop :=
  match ls with
  | [] => True
  | l :: r => aline_ok first l /\ alines_ok false r
  end.

Lemma alines_ok_snoc : forall ls first x, alines_ok first ls -> aline_ok (first && is_nil ls) x ->
  alines_ok first (ls ++ [x]).
Proof.
  induction ls as [|l ls IH]; intros first x Hl Hx; cbn [app alines_ok].
  - cbn in Hx. rewrite andb_true_r in Hx. auto.
  - destruct Hl as (A & B). split; [exact A|]. apply IH; [exact B|]. cbn in Hx. rewrite andb_false_r in Hx. exact Hx.
Qed.

(* the tokens of a block header: "bt (" is a row that opens a block *)
Definition hdr_ok (bt : list str) : Prop :=
  exists t0 more, bt ++ [[40]] = t0 :: more /\ scan [t0] more = SOpen bt.

Definition ablock_ok (b : ablock) : Prop :=
  Forall comment_text (ab_before b) /\ Forall ltext (ab_toks b) /\ hdr_ok (ab_toks b) /\
  sfx_ok (ab_lsfx b) /\ alines_ok true (ab_lines b) /\
  bcoms_ok (is_nil (ab_lines b)) (ab_rbefore b) /\ sfx_ok (ab_rsfx b ++ ab_sfx b).

Definition astmt_ok (x : astmt) : Prop :=
  match x with
  | ALine l =>
      Forall comment_text (al_before l) /\
      (exists t0 more, al_toks l = t0 :: more /\ scan [t0] more = SLine (al_toks l)) /\
      Forall ltext (al_toks l) /\ sfx_ok (al_suffix l)
  | ABlock b => ablock_ok b
  | ACB cs => cs <> [] /\ Forall comment_text cs
  end.

(* ---------------------------------------------------------------- the tree after print and reparse *)

Definition norm_line (l : aline) : aline :=
  mkAL (map trim_space (al_before l)) (al_toks l) (map trim_space (al_suffix l)).

Definition norm_block (b : ablock) : ablock :=
  mkAB (map trim_space (ab_before b)) (ab_toks b) (map trim_space (ab_lsfx b))
       (map norm_line (ab_lines b)) (map trim_space (ab_rbefore b))
       (map trim_space (ab_rsfx b ++ ab_sfx b)) [].

Definition norm (x : astmt) : astmt :=
  match x with
  | ALine l => ALine (norm_line l)
  | ABlock b => ABlock (norm_block b)
  | ACB cs => ACB (map trim_space cs)
  end.

(* ---------------------------------------------------------------- scan *)

Lemma is_lp_eq t : is_lp t = true -> t = [40].
Proof. unfold is_lp. intros H. apply str_eqb_eq in H. exact H. Qed.
Lemma is_rp_eq t : is_rp t = true -> t = [41].
Proof. unfold is_rp. intros H. apply str_eqb_eq in H. exact H. Qed.

(* what the tokens of a row are, by its shape *)
Lemma scan_content : forall n more acc, (length more <= n)%nat ->
  match scan acc more with
  | SLine tk => tk = rev acc ++ more
  | SOpen bt => rev acc ++ more = bt ++ [[40]]
  | SEmpty bt => rev acc ++ more = bt ++ [[40]; [41]]
  end.
Proof.
  induction n as [|n IH]; intros more acc Hn.
  { destruct more; [|cbn in Hn; lia]. cbn. symmetry. apply app_nil_r. }
  destruct more as [|t r]; [cbn; symmetry; apply app_nil_r|]. cbn [scan].
  assert (Hstep : match scan (t :: acc) r with
                  | SLine tk => tk = rev acc ++ t :: r
                  | SOpen bt => rev acc ++ t :: r = bt ++ [[40]]
                  | SEmpty bt => rev acc ++ t :: r = bt ++ [[40]; [41]]
                  end).
  { pose proof (IH r (t :: acc) ltac:(cbn in Hn; lia)) as H. cbn [rev] in H. rewrite <- app_assoc in H. exact H. }
  destruct (is_lp t) eqn:El; [|exact Hstep].
  destruct r as [|u r']; [apply is_lp_eq in El; subst t; reflexivity|].
  destruct (is_rp u) eqn:Er; [|exact Hstep].
  destruct r' as [|v r''].
  - apply is_lp_eq in El. apply is_rp_eq in Er. subst. reflexivity.
  - pose proof (IH (v :: r'') (u :: t :: acc) ltac:(cbn in Hn |- *; lia)) as H. cbn [rev] in H.
    rewrite <- !app_assoc in H. exact H.
Qed.

(* an empty one-line block "bt ( )" becomes the header "bt (" *)
Lemma scan_empty_open : forall n more acc bt, (length more <= n)%nat -> scan acc more = SEmpty bt ->
  exists m, more = m ++ [[40]; [41]] /\ scan acc (m ++ [[40]]) = SOpen bt.
Proof.
  induction n as [|n IH]; intros more acc bt Hn H.
  { destruct more; [cbn in H; discriminate|cbn in Hn; lia]. }
  destruct more as [|t r]; [cbn in H; discriminate|]. cbn [scan] in H.
  assert (Hstep : scan (t :: acc) r = SEmpty bt ->
            exists m, t :: r = m ++ [[40]; [41]] /\
              (forall u r', m = t :: u :: r' -> True) /\ scan (t :: acc) (skipn 1 m ++ [[40]]) = SOpen bt /\ m <> []).
  { intros H'. destruct (IH r (t :: acc) bt ltac:(cbn in Hn; lia) H') as (m & -> & Hm).
    exists (t :: m). split; [reflexivity|]. split; [auto|]. split; [exact Hm|discriminate]. }
  destruct (is_lp t) eqn:El.
  2:{ destruct (Hstep H) as (m & Em & _ & Hm & Hne). destruct m as [|t' m']; [congruence|].
      injection Em as <- Er. exists (t :: m'). split; [cbn [app]; rewrite Er; reflexivity|].
      cbn [app scan]. rewrite El. exact Hm. }
  destruct r as [|u r']; [discriminate|].
  destruct (is_rp u) eqn:Er.
  2:{ destruct (Hstep H) as (m & Em & _ & Hm & Hne). destruct m as [|t' m']; [congruence|].
      injection Em as <- Er'. exists (t :: m'). split; [cbn [app]; rewrite Er'; reflexivity|].
      cbn [skipn] in Hm. cbn [app scan]. rewrite El.
      destruct m' as [|u' m'']; cbn [app] in Er', Hm |- *.
      - injection Er' as -> _. rewrite Er. exact Hm.
      - injection Er' as -> _. rewrite Er. exact Hm. }
  destruct r' as [|v r''].
  { injection H as <-. apply is_lp_eq in El. apply is_rp_eq in Er. subst. exists []. split; [reflexivity|].
    cbn [app scan]. reflexivity. }
  destruct (IH (v :: r'') (u :: t :: acc) bt ltac:(cbn in Hn |- *; lia) H) as (m & Em & Hm).
  exists (t :: u :: m). split; [cbn [app]; rewrite Em; reflexivity|].
  cbn [app scan]. rewrite El, Er. destruct (m ++ [[40]]) as [|w ws] eqn:Ew; [destruct m; discriminate|]. exact Hm.
Qed.
