(* C16: blocks stay sorted through Cleanup; the lines of a block after SortBlocks are the only
   sorted, stable rearrangement of the lines before — sort.SliceStable has no freedom. *)
From Coq Require Import Sorted Permutation.
From Verif.Base Require Import Bytes.
From Verif.Modfile Require Import EditModel EditOps EditSpec EditProofsTyped EditProofsHeap EditProofsCoherent
  EditProofsCleanup EditProofsAddLine EditProofsAdd EditProofsUpsert EditProofsSort EditProofsSeq EditProofsExact
  EditProofsBlocks EditProofs2Order.

Arguments hget : simpl never.
Arguments hset : simpl never.

(* ---------------------------------------------------------------- what an exclude block holds *)
Lemma entries_exclude_args f e : In e (entries f) -> en_verb e = v_exclude -> length (en_args e) = 2%nat.
Proof.
  unfold entries. intros Hin Hv.
  repeat (apply in_app_iff in Hin; destruct Hin as [Hin|Hin]);
    apply in_map_iff in Hin; destruct Hin as [x [<- _]]; cbn in Hv |- *;
    try reflexivity; exfalso; vm_compute in Hv; discriminate Hv.
Qed.

(* the domain on which the comparator of a block is a strict weak order *)
Definition block_dom (f : file) (b : hblock) : list str -> Prop :=
  let sem := match f_go f with Some g => use_semantic_sort (go_vers g) | None => false end in
  if hd_is (hb_tok b) v_exclude && sem then exclude_line else any.

Lemma block_less_swo f b : StrictWeakOn (block_dom f b) (block_less f b).
Proof.
  unfold block_dom, block_less. destruct (_ && _)%bool; [apply exclude_less_swo|].
  destruct (hd_is _ _); [apply retract_less_swo | apply toks_less_swo].
Qed.

Lemma block_toks_dom f b :
  Coherent f -> In (SBlock b) (stmts (fsyn f)) -> Forall (block_dom f b) (block_toks (fsyn f) b).
Proof.
  intros [Hs _ Hp] Hb. unfold block_dom.
  destruct (hd_is (hb_tok b) v_exclude && _)%bool eqn:E; [|apply Forall_forall; intros; exact I].
  apply Bool.andb_true_iff in E. destruct E as [Hhd _]. destruct (hd_is_eq _ _ Hhd) as [ts Hts].
  unfold block_toks. apply Forall_forall. intros t Ht. apply in_map_iff in Ht. destruct Ht as [i [<- Hi]].
  set (s := fsyn f) in *.
  destruct (hl_tok (sget s i)) as [|t0 ts0] eqn:Et; [left; reflexivity | right].
  assert (Hv : In (i, v_exclude, t0 :: ts0) (tree_view s)).
  { unfold tree_view. apply in_flat_map. exists (i, Some v_exclude). split.
    - unfold tree_lines. apply in_flat_map. exists (SBlock b). split; [exact Hb|].
      rewrite Hts. cbn [hd]. apply (in_map (fun j => (j, Some v_exclude))). exact Hi.
    - unfold line_view. cbn [fst snd]. rewrite Et. left. reflexivity. }
  apply (Permutation_in _ Hp) in Hv. unfold typed_view in Hv. apply in_flat_map in Hv. destruct Hv as [e [He Hve]].
  unfold ent_view in Hve. destruct (en_syn e); [|destruct Hve]. destruct (en_live e); [|destruct Hve].
  destruct Hve as [Hve|[]]. injection Hve as _ Hverb Hargs.
  rewrite <- Hargs. apply (entries_exclude_args f e He Hverb).
Qed.

(* ---------------------------------------------------------------- Cleanup: what becomes of a block *)
Lemma line_live_lt h j : line_live h j = true -> (j < length h)%nat.
Proof.
  unfold line_live. intros H. destruct (Nat.lt_ge_cases j (length h)) as [Hl|Hl]; [exact Hl|].
  unfold hget in H. rewrite nth_overflow in H by exact Hl. discriminate.
Qed.

Lemma line_live_hset h j l' i : line_live h j = true -> hl_tok l' <> [] -> line_live (hset h j l') i = line_live h i.
Proof.
  intros Hj Hl. unfold line_live. destruct (Nat.eq_dec j i) as [<-|Hn]; [|rewrite hget_hset_other by exact Hn; reflexivity].
  rewrite hget_hset_same by (apply line_live_lt; exact Hj). unfold line_live in Hj. rewrite Hj.
  destruct (hl_tok l'); [congruence | reflexivity].
Qed.

Lemma cleanup_block_origin2 todo : forall h b',
  In (SBlock b') (snd (syn_cleanup_loop h todo)) ->
  exists b, In (SBlock b) todo /\ b' = block_with_lines b (filter (line_live h) (hb_lines b)).
Proof.
  induction todo as [|st rest IH]; intros h b' H; cbn [syn_cleanup_loop] in H; [destruct H|].
  assert (Hrest : forall h0, (forall i, line_live h0 i = line_live h i) ->
            In (SBlock b') (snd (syn_cleanup_loop h0 rest)) ->
            exists b, In (SBlock b) (st :: rest) /\ b' = block_with_lines b (filter (line_live h) (hb_lines b))).
  { intros h0 Hlv Hin. destruct (IH h0 b' Hin) as [b [Hb ->]]. exists b. split; [right; exact Hb|].
    f_equal. apply filter_ext. exact Hlv. }
  destruct st as [i|b|c].
  - destruct (line_live h i).
    + destruct (syn_cleanup_loop h rest) as [h' out] eqn:E. cbn [snd] in H. destruct H as [H|H]; [discriminate|].
      apply (Hrest h); auto; rewrite E; exact H.
    + apply (Hrest h); auto.
  - destruct (filter (line_live h) (hb_lines b)) as [|j [|j2 more]] eqn:Ef.
    + apply (Hrest h); auto.
    + destruct (nilb (c_before (hb_rp b))).
      * match type of H with context [syn_cleanup_loop ?hx rest] => set (h1 := hx) in * end.
        destruct (syn_cleanup_loop h1 rest) as [h' out] eqn:E. cbn [snd] in H. destruct H as [H|H]; [discriminate|].
        assert (Hj : In j (hb_lines b) /\ line_live h j = true) by (apply filter_In; rewrite Ef; left; reflexivity).
        apply (Hrest h1); [|rewrite E; exact H].
        intros i. unfold h1. apply line_live_hset; [tauto|]. cbn [hl_tok].
        destruct Hj as [_ Hj]. unfold line_live in Hj. destruct (hl_tok (hget h j)); [discriminate|].
        destruct (hb_tok b); discriminate.
      * destruct (syn_cleanup_loop h rest) as [h' out] eqn:E. cbn [snd] in H. destruct H as [H|H].
        -- injection H as <-. exists b. split; [left; reflexivity | rewrite Ef; reflexivity].
        -- apply (Hrest h); auto; rewrite E; exact H.
    + destruct (syn_cleanup_loop h rest) as [h' out] eqn:E. cbn [snd] in H. destruct H as [H|H].
      * injection H as <-. exists b. split; [left; reflexivity | rewrite Ef; reflexivity].
      * apply (Hrest h); auto; rewrite E; exact H.
  - destruct (syn_cleanup_loop h rest) as [h' out] eqn:E. cbn [snd] in H. destruct H as [H|H]; [discriminate|].
    apply (Hrest h); auto; rewrite E; exact H.
Qed.

(* the only lines Cleanup rewrites are those it turns into top-level lines *)
Lemma cleanup_heap_frame todo : forall h i,
  hget (fst (syn_cleanup_loop h todo)) i = hget h i \/ In (SLine i) (snd (syn_cleanup_loop h todo)).
Proof.
  induction todo as [|st rest IH]; intros h i; cbn [syn_cleanup_loop]; [left; reflexivity|].
  destruct st as [i0|b|c].
  - destruct (line_live h i0).
    + specialize (IH h i). destruct (syn_cleanup_loop h rest) as [h' out]. cbn [fst snd] in *. destruct IH; [left | right; right]; assumption.
    + apply IH.
  - destruct (filter (line_live h) (hb_lines b)) as [|j [|j2 more]].
    + apply IH.
    + destruct (nilb (c_before (hb_rp b))).
      * match goal with |- context [syn_cleanup_loop ?hx rest] => set (h1 := hx) end.
        specialize (IH h1 i). destruct (syn_cleanup_loop h1 rest) as [h' out]. cbn [fst snd] in *.
        destruct IH as [IH|IH]; [|right; right; exact IH].
        destruct (Nat.eq_dec j i) as [<-|Hn]; [right; left; reflexivity|].
        left. rewrite IH. unfold h1. apply hget_hset_other. exact Hn.
      * specialize (IH h i). destruct (syn_cleanup_loop h rest) as [h' out]. cbn [fst snd] in *. destruct IH; [left | right; right]; assumption.
    + specialize (IH h i). destruct (syn_cleanup_loop h rest) as [h' out]. cbn [fst snd] in *. destruct IH; [left | right; right]; assumption.
  - specialize (IH h i). destruct (syn_cleanup_loop h rest) as [h' out]. cbn [fst snd] in *. destruct IH; [left | right; right]; assumption.
Qed.

Lemma nodup_line_block i b : forall L,
  NoDup (map fst (stmts_lines L)) -> In (SLine i) L -> In (SBlock b) L -> In i (hb_lines b) -> False.
Proof.
  intros L Hnd H1 H2 Hi.
  destruct (in_split _ _ H1) as [l1 [l2 ->]].
  unfold stmts_lines in Hnd. rewrite flat_map_app in Hnd. cbn [flat_map stmt_lines app] in Hnd.
  rewrite map_app in Hnd. cbn [map fst] in Hnd.
  assert (Hin : In i (map fst (flat_map stmt_lines l1)) \/ In i (map fst (flat_map stmt_lines l2))).
  { apply in_app_iff in H2. destruct H2 as [H2|[H2|H2]]; [left | discriminate | right];
      (apply in_map_iff; exists (i, Some (hd [] (hb_tok b))); split; [reflexivity|];
       apply in_flat_map; exists (SBlock b); split; [exact H2|];
       cbn [stmt_lines]; apply (in_map (fun j => (j, Some (hd [] (hb_tok b))))); exact Hi). }
  destruct Hin as [Hin|Hin].
  - eapply (NoDup_app_disj _ _ i Hnd); [exact Hin | left; reflexivity].
  - apply NoDup_app_r in Hnd. inversion Hnd; contradiction.
Qed.

Lemma map_filter_comm {A B} (f : A -> B) (p : B -> bool) l : map f (filter (fun x => p (f x)) l) = filter p (map f l).
Proof. induction l as [|x r IH]; cbn; [reflexivity|]. destruct (p (f x)); cbn; rewrite IH; reflexivity. Qed.

(* ---------------------------------------------------------------- blocks stay sorted through Cleanup *)
Theorem blocks_stay_sorted_through_cleanup f :
  Coherent f ->
  (forall b, In (SBlock b) (stmts (fsyn f)) -> Sorted (le_of (block_less f b)) (block_toks (fsyn f) b)) ->
  forall b', In (SBlock b') (stmts (fsyn (cleanup f))) ->
  Sorted (le_of (block_less (cleanup f) b')) (block_toks (fsyn (cleanup f)) b').
Proof.
  intros Hc Hsorted b' Hb'. pose proof Hc as [Hs _ _].
  destruct (syn_cleanup_ok _ Hs) as [[Hnd' _ _] _].
  cbn [fsyn cleanup] in *. unfold syn_cleanup in *.
  pose proof (cleanup_block_origin2 (stmts (fsyn f)) (heap (fsyn f)) b') as Ho.
  pose proof (cleanup_heap_frame (stmts (fsyn f)) (heap (fsyn f))) as Hfr.
  destruct (syn_cleanup_loop (heap (fsyn f)) (stmts (fsyn f))) as [h' out] eqn:E. cbn [fst snd stmts heap] in *.
  destruct (Ho Hb') as [b [Hb ->]].
  change (block_less (cleanup f) (block_with_lines b (filter (line_live (heap (fsyn f))) (hb_lines b)))) with (block_less f b).
  unfold block_toks. cbn [block_with_lines hb_lines]. unfold sget. cbn [heap].
  assert (Eq1 : map (fun i => hl_tok (hget h' i)) (filter (line_live (heap (fsyn f))) (hb_lines b))
                = map (fun i => hl_tok (hget (heap (fsyn f)) i)) (filter (line_live (heap (fsyn f))) (hb_lines b))).
  { apply map_ext_in. intros i Hi. destruct (Hfr i) as [->|Hsl]; [reflexivity|]. exfalso.
    rewrite tree_lines_stmts in Hnd'. cbn [stmts] in Hnd'.
    apply (nodup_line_block i (block_with_lines b (filter (line_live (heap (fsyn f))) (hb_lines b))) out Hnd' Hsl Hb' Hi). }
  rewrite Eq1.
  change (filter (line_live (heap (fsyn f))) (hb_lines b))
    with (filter (fun i => (fun t => negb (nilb t)) (hl_tok (hget (heap (fsyn f)) i))) (hb_lines b)).
  rewrite (map_filter_comm (fun i => hl_tok (hget (heap (fsyn f)) i)) (fun t => negb (nilb t))).
  apply (sorted_filter (block_dom f b) (block_less f b) (block_less_swo f b)).
  - apply (block_toks_dom f b Hc Hb).
  - apply (Hsorted b Hb).
Qed.

(* in particular after SortBlocks (SetRequire, SetRequireSeparateIndirect, AddTool, SetUse end with it)
   followed by Cleanup *)
Theorem blocks_sorted_after_cleanup f b :
  Coherent f ->
  In (SBlock b) (stmts (fsyn (cleanup (sort_blocks f)))) ->
  Sorted (le_of (block_less f b)) (block_toks (fsyn (cleanup (sort_blocks f))) b).
Proof.
  intros Hc Hb.
  change (block_less f b) with (block_less (cleanup (sort_blocks f)) b).
  apply (blocks_stay_sorted_through_cleanup (sort_blocks f)); [apply sort_blocks_coherent; exact Hc | | exact Hb].
  intros b0 Hb0. change (block_less (sort_blocks f) b0) with (block_less f b0). apply blocks_sorted. exact Hb0.
Qed.

(* ---------------------------------------------------------------- SortBlocks is determined *)
Lemma swo_pull {A B} (g : A -> B) (D : B -> Prop) less :
  StrictWeakOn D less -> StrictWeakOn (fun a => D (g a)) (fun a b => less (g a) (g b)).
Proof.
  intros [S1 S2 S3]. split.
  - intros a b. apply S1.
  - intros a b c. apply S2.
  - intros a b c. apply S3.
Qed.

Lemma nodup_block_lines b : forall L, NoDup (map fst (stmts_lines L)) -> In (SBlock b) L -> NoDup (hb_lines b).
Proof.
  intros L Hnd Hin. destruct (in_split _ _ Hin) as [l1 [l2 ->]].
  unfold stmts_lines in Hnd. rewrite flat_map_app, map_app in Hnd. apply NoDup_app_r in Hnd.
  cbn [flat_map stmt_lines] in Hnd. rewrite map_app in Hnd. apply NoDup_app_l in Hnd.
  rewrite map_map in Hnd. cbn [fst] in Hnd. rewrite map_id in Hnd. exact Hnd.
Qed.

(* Let b be a block of a coherent file (for SortBlocks: of the file after removeDups).  If
   [lines'] is a rearrangement of the lines of b that is sorted by the block's comparator and
   keeps the relative order of lines the comparator does not separate — i.e. any outcome that
   the contract of sort.SliceStable allows — then it is the list the model computes. *)
Theorem sort_block_determined f b lines' :
  Coherent f -> In (SBlock b) (stmts (fsyn f)) ->
  let less := fun i j => block_less f b (hl_tok (hget (heap (fsyn f)) i)) (hl_tok (hget (heap (fsyn f)) j)) in
  Permutation (hb_lines b) lines' -> Sorted (le_of less) lines' -> stable_wrt less (hb_lines b) lines' ->
  lines' = hb_lines (sort_block (heap (fsyn f)) (block_less f b) b).
Proof.
  intros Hc Hb less Hp Hs Hst. pose proof Hc as [[Hnd _ _] _ _].
  cbn [sort_block block_with_lines hb_lines].
  apply (stable_sort_unique less (fun i => block_dom f b (hl_tok (hget (heap (fsyn f)) i)))).
  - apply (swo_pull (fun i => hl_tok (hget (heap (fsyn f)) i)) (block_dom f b) (block_less f b)). apply block_less_swo.
  - rewrite tree_lines_stmts in Hnd. exact (nodup_block_lines b _ Hnd Hb).
  - pose proof (block_toks_dom f b Hc Hb) as Hd. unfold block_toks in Hd. rewrite Forall_forall in Hd.
    apply Forall_forall. intros i Hi. apply Hd. apply (in_map (fun i => hl_tok (sget (fsyn f) i))). exact Hi.
  - exact Hp.
  - exact Hs.
  - exact Hst.
Qed.
