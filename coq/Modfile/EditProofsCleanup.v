(* C15: Cleanup preserves coherence. *)
From Coq Require Import Permutation.
From Verif.Base Require Import Bytes.
From Verif.Modfile Require Import EditModel EditOps EditSpec EditProofsTyped EditProofsHeap EditProofsCoherent.

Arguments hget : simpl never.
Arguments hset : simpl never.

(* views computed against a bare heap *)
Definition lview (h : list hline) (x : lid * option str) : list dview :=
  let l := hget h (fst x) in
  match hl_tok l with
  | [] => []
  | t :: ts => match snd x with
               | None => [(fst x, t, norm_args t ts l)]
               | Some v => [(fst x, v, norm_args v (t :: ts) l)]
               end
  end.

Lemma line_view_lview s x : line_view s x = lview (heap s) x.
Proof. reflexivity. Qed.

Definition stmt_lines (st : stmt) : list (lid * option str) :=
  match st with
  | SLine i => [(i, None)]
  | SBlock b => map (fun i => (i, Some (hd [] (hb_tok b)))) (hb_lines b)
  | SComment _ => []
  end.
Definition stmts_lines (l : list stmt) : list (lid * option str) := flat_map stmt_lines l.

Lemma tree_lines_stmts s : tree_lines s = stmts_lines (stmts s).
Proof. reflexivity. Qed.

Definition placed (h : list hline) (x : lid * option str) : Prop :=
  (fst x < length h)%nat /\ hl_inb (hget h (fst x)) = match snd x with None => false | Some _ => true end /\
  match snd x with None => length (hl_tok (hget h (fst x))) <> 1%nat | Some _ => True end.

Lemma lview_frame h h' x : hget h' (fst x) = hget h (fst x) -> lview h' x = lview h x.
Proof. unfold lview. intros ->. reflexivity. Qed.

Lemma filter_live_lview h (b : hblock) v :
  flat_map (lview h) (map (fun i => (i, Some v)) (filter (line_live h) (hb_lines b)))
  = flat_map (lview h) (map (fun i => (i, Some v)) (hb_lines b)).
Proof.
  induction (hb_lines b) as [|i r IH]; cbn [filter map flat_map]; [reflexivity|].
  unfold line_live at 1. destruct (hl_tok (hget h i)) eqn:E; cbn [nilb negb].
  - rewrite IH. unfold lview at 2; cbn [fst]. rewrite E. reflexivity.
  - cbn [map flat_map]. rewrite IH. reflexivity.
Qed.

(* the collapse keeps what the line says *)
Lemma collapse_view h b j v :
  (j < length h)%nat -> hb_tok b = [v] -> c_suffix (hb_com b) = [] -> hl_tok (hget h j) <> [] ->
  let l := hget h j in
  let c := mkComs (c_before (hb_com b) ++ c_before (hl_com l)) (c_suffix (hl_com l) ++ c_suffix (hb_com b))
                  (c_after (hl_com l) ++ c_after (hb_com b)) in
  lview (hset h j (mkHL c (hb_tok b ++ hl_tok l) false)) (j, None) = lview h (j, Some v).
Proof.
  intros Hj Ht Hs Hl l c. unfold lview; cbn [fst snd]. rewrite hget_hset_same by exact Hj.
  cbn [hl_tok]. rewrite Ht. cbn [app]. unfold l in *. destruct (hl_tok (hget h j)) as [|t ts] eqn:E; [congruence|].
  f_equal. f_equal. unfold norm_args.
  destruct (str_eqb v v_retract); [reflexivity|]. destruct (str_eqb v v_require); [|reflexivity].
  f_equal. f_equal. unfold is_indirect. cbn [hl_com c_suffix]. unfold c; cbn [c_suffix]. rewrite Hs, app_nil_r. reflexivity.
Qed.

Lemma NoDup_app_intro {A} (a b : list A) :
  NoDup a -> NoDup b -> (forall x, In x a -> In x b -> False) -> NoDup (a ++ b).
Proof.
  induction a as [|x a IH]; cbn; intros Ha Hb Hd; [exact Hb|].
  inversion Ha; subst. constructor.
  - rewrite in_app_iff. intros [H|H]; [tauto | eapply Hd; [left; reflexivity | exact H]].
  - apply IH; auto. intros y Hy. apply Hd. right. exact Hy.
Qed.

Lemma NoDup_filter {A} (p : A -> bool) l : NoDup l -> NoDup (filter p l).
Proof.
  induction 1 as [|x l Hni Hnd IH]; cbn; [constructor|].
  destruct (p x); [constructor; [rewrite filter_In; tauto | exact IH] | exact IH].
Qed.

Definition ids_of (l : list (lid * option str)) : list lid := map fst l.

Lemma stmts_lines_cons st r : stmts_lines (st :: r) = stmt_lines st ++ stmts_lines r.
Proof. reflexivity. Qed.

Lemma flat_lview_frame h h' l :
  (forall x, In x l -> hget h' (fst x) = hget h (fst x)) -> flat_map (lview h') l = flat_map (lview h) l.
Proof.
  intros H. induction l as [|x r IH]; cbn; [reflexivity|].
  rewrite (lview_frame h h' x) by (apply H; left; reflexivity). f_equal. apply IH. intros y Hy. apply H. right. exact Hy.
Qed.

Lemma placed_frame h h' x : length h' = length h -> hget h' (fst x) = hget h (fst x) -> placed h x -> placed h' x.
Proof. unfold placed. intros -> ->. tauto. Qed.

Record loop_ok (h : list hline) (todo : list stmt) (h' : list hline) (out : list stmt) : Prop := {
  lo_len : length h' = length h;
  lo_frame : forall i, ~ In i (ids_of (stmts_lines todo)) -> hget h' i = hget h i;
  lo_view : flat_map (lview h') (stmts_lines out) = flat_map (lview h) (stmts_lines todo);
  lo_nodup : NoDup (ids_of (stmts_lines out));
  lo_incl : incl (ids_of (stmts_lines out)) (ids_of (stmts_lines todo));
  lo_placed : Forall (placed h') (stmts_lines out);
  lo_blocks : Forall block_ok out
}.

Lemma in_ids_block (b : hblock) v i : In i (ids_of (map (fun i => (i, Some v)) (hb_lines b))) <-> In i (hb_lines b).
Proof. unfold ids_of. rewrite map_map. cbn. rewrite map_id. tauto. Qed.

(* keeping a block with only its live lines *)
Lemma keep_block_ok h b rest h' out :
  NoDup (ids_of (stmts_lines (SBlock b :: rest))) ->
  Forall (placed h) (stmts_lines (SBlock b :: rest)) ->
  block_ok (SBlock b) ->
  loop_ok h rest h' out ->
  loop_ok h (SBlock b :: rest) h' (SBlock (block_with_lines b (filter (line_live h) (hb_lines b))) :: out).
Proof.
  intros Hnd Hpl Hb [L1 L2 L3 L4 L5 L6 L7].
  rewrite stmts_lines_cons in Hnd, Hpl. unfold ids_of in Hnd. rewrite map_app in Hnd.
  apply Forall_app in Hpl. destruct Hpl as [Hpl_b Hpl_r].
  set (v := hd [] (hb_tok b)) in *.
  assert (Hdisj : forall i, In i (hb_lines b) -> ~ In i (ids_of (stmts_lines rest))).
  { intros i Hi Hin. eapply (NoDup_app_disj _ _ i Hnd); [apply in_ids_block; exact Hi | exact Hin]. }
  assert (Hfr : forall i, In i (hb_lines b) -> hget h' i = hget h i) by (intros i Hi; apply L2, Hdisj, Hi).
  split.
  - exact L1.
  - intros i Hi. apply L2. intros Hin. apply Hi. rewrite stmts_lines_cons. unfold ids_of. rewrite map_app.
    apply in_app_iff. right. exact Hin.
  - rewrite !stmts_lines_cons, !flat_map_app. f_equal; [|exact L3].
    cbn [stmt_lines block_with_lines hb_lines hb_tok]. fold v.
    rewrite (flat_lview_frame h h').
    + apply filter_live_lview.
    + intros x Hx. apply in_map_iff in Hx. destruct Hx as [i [<- Hi]]. apply filter_In in Hi. apply Hfr. tauto.
  - rewrite stmts_lines_cons. unfold ids_of. rewrite map_app. cbn [stmt_lines block_with_lines hb_lines hb_tok].
    rewrite map_map; cbn [fst]; rewrite map_id.
    apply NoDup_app_intro.
    + apply NoDup_filter. pose proof (NoDup_app_l _ _ Hnd) as H. cbn [stmt_lines] in H. rewrite map_map in H.
      cbn [fst] in H. rewrite map_id in H. exact H.
    + exact L4.
    + intros i Hi Hin. apply filter_In in Hi. apply (Hdisj i); [tauto | apply L5; exact Hin].
  - rewrite !stmts_lines_cons. unfold ids_of. rewrite !map_app. apply incl_app_app; [|exact L5].
    cbn [stmt_lines block_with_lines hb_lines hb_tok]. rewrite !map_map; cbn [fst]; rewrite !map_id.
    intros i Hi. apply filter_In in Hi. tauto.
  - rewrite stmts_lines_cons. apply Forall_app. split; [|exact L6].
    cbn [stmt_lines block_with_lines hb_lines hb_tok]. fold v.
    apply Forall_forall. intros x Hx. apply in_map_iff in Hx. destruct Hx as [i [<- Hi]]. apply filter_In in Hi.
    destruct Hi as [Hi _]. apply (placed_frame h h'); [exact L1 | apply Hfr; exact Hi|].
    rewrite Forall_forall in Hpl_b. apply Hpl_b. cbn [stmt_lines]. fold v.
    apply (in_map (fun i => (i, Some v))). exact Hi.
  - constructor; [exact Hb | exact L7].
Qed.

Lemma line_live_false_lview h i w : line_live h i = false -> lview h (i, w) = [].
Proof.
  unfold line_live, lview; cbn [fst]. destruct (hl_tok (hget h i)); [reflexivity | discriminate].
Qed.

Lemma cleanup_loop_ok : forall todo h,
  NoDup (ids_of (stmts_lines todo)) ->
  Forall (placed h) (stmts_lines todo) ->
  Forall block_ok todo ->
  loop_ok h todo (fst (syn_cleanup_loop h todo)) (snd (syn_cleanup_loop h todo)).
Proof.
  induction todo as [|st rest IH]; intros h Hnd Hpl Hbk.
  - cbn. split; cbn; auto; try constructor. intros i Hi. exact Hi.
  - pose proof Hnd as Hnd0. pose proof Hpl as Hpl0.
    rewrite stmts_lines_cons in Hnd, Hpl. unfold ids_of in Hnd. rewrite map_app in Hnd.
    apply Forall_app in Hpl. destruct Hpl as [Hpl_s Hpl_r].
    inversion Hbk as [|? ? Hb Hbr]; subst.
    pose proof (NoDup_app_r _ _ Hnd) as Hnd_r.
    destruct st as [i|b|c]; cbn [syn_cleanup_loop].
    + (* a line *)
      assert (Hi_r : ~ In i (ids_of (stmts_lines rest))).
      { intros Hin. eapply (NoDup_app_disj _ _ i Hnd); [left; reflexivity | exact Hin]. }
      specialize (IH h Hnd_r Hpl_r Hbr). destruct (syn_cleanup_loop h rest) as [h' out]. cbn [fst snd] in IH.
      destruct IH as [L1 L2 L3 L4 L5 L6 L7].
      destruct (line_live h i) eqn:Hlive; cbn [fst snd].
      * split.
        -- exact L1.
        -- intros j Hj. apply L2. intros Hin. apply Hj. rewrite stmts_lines_cons. unfold ids_of. rewrite map_app.
           apply in_app_iff. right. exact Hin.
        -- rewrite !stmts_lines_cons, !flat_map_app. f_equal; [|exact L3]. cbn [stmt_lines flat_map].
           rewrite (lview_frame h h' (i, None)); [reflexivity | apply L2; exact Hi_r].
        -- rewrite stmts_lines_cons. cbn. constructor; [|exact L4]. intros Hin. apply Hi_r. apply L5. exact Hin.
        -- rewrite !stmts_lines_cons. cbn. intros j [<-|Hj]; [left; reflexivity | right; apply L5; exact Hj].
        -- rewrite stmts_lines_cons. cbn. constructor; [|exact L6].
           apply (placed_frame h h'); [exact L1 | apply L2; exact Hi_r | inversion Hpl_s; assumption].
        -- constructor; [exact I | exact L7].
      * split; try assumption.
        -- intros j Hj. apply L2. intros Hin. apply Hj. rewrite stmts_lines_cons. unfold ids_of. rewrite map_app.
           apply in_app_iff. right. exact Hin.
        -- rewrite stmts_lines_cons, flat_map_app. cbn. rewrite line_live_false_lview by exact Hlive. exact L3.
        -- rewrite stmts_lines_cons. cbn. intros j Hj. right. apply L5. exact Hj.
    + (* a block *)
      set (v := hd [] (hb_tok b)) in *.
      assert (Hdisj : forall i, In i (hb_lines b) -> ~ In i (ids_of (stmts_lines rest))).
      { intros i Hi Hin. eapply (NoDup_app_disj _ _ i Hnd); [apply in_ids_block; exact Hi | exact Hin]. }
      destruct (filter (line_live h) (hb_lines b)) as [|j [|j2 more]] eqn:Hf.
      * (* no live line: the block disappears *)
        specialize (IH h Hnd_r Hpl_r Hbr). destruct (syn_cleanup_loop h rest) as [h' out]. cbn [fst snd] in *.
        destruct IH as [L1 L2 L3 L4 L5 L6 L7]. split; try assumption.
        -- intros k Hk. apply L2. intros Hin. apply Hk. rewrite stmts_lines_cons. unfold ids_of. rewrite map_app.
           apply in_app_iff. right. exact Hin.
        -- rewrite stmts_lines_cons, flat_map_app. cbn [stmt_lines]. fold v.
           rewrite <- filter_live_lview, Hf. exact L3.
        -- rewrite stmts_lines_cons. unfold ids_of. rewrite map_app. intros k Hk. apply in_app_iff. right. apply L5. exact Hk.
      * destruct (nilb (c_before (hb_rp b))) eqn:Hrp.
        -- (* collapse *)
           assert (Hj : In j (hb_lines b) /\ line_live h j = true).
           { apply filter_In. rewrite Hf. left. reflexivity. }
           destruct Hj as [Hj_in Hj_live].
           assert (Hj_pl : placed h (j, Some v)).
           { rewrite Forall_forall in Hpl_s. apply Hpl_s. cbn [stmt_lines]. fold v.
             apply (in_map (fun i => (i, Some v))). exact Hj_in. }
           destruct Hj_pl as [Hj_len _]. cbn [fst] in Hj_len.
           set (l' := mkHL _ _ false).
           assert (Hpl_r1 : Forall (placed (hset h j l')) (stmts_lines rest)).
           { apply Forall_forall. intros x Hx. rewrite Forall_forall in Hpl_r.
             apply (placed_frame h); [apply hset_length | | apply Hpl_r; exact Hx].
             apply hget_hset_other. intros Heq. apply (Hdisj j Hj_in). unfold ids_of. rewrite Heq.
             apply in_map. exact Hx. }
           specialize (IH (hset h j l') Hnd_r Hpl_r1 Hbr).
           destruct (syn_cleanup_loop (hset h j l') rest) as [h' out]. cbn [fst snd] in *.
           destruct IH as [L1 L2 L3 L4 L5 L6 L7].
           assert (Hj_r : ~ In j (ids_of (stmts_lines rest))) by (apply Hdisj; exact Hj_in).
           destruct Hb as [Htok Hsuf].
           assert (Hv : hb_tok b = [v]).
           { unfold v. destruct (hb_tok b) as [|t [|? ?]]; cbn in Htok; try discriminate. reflexivity. }
           split.
           ++ rewrite L1. apply hset_length.
           ++ intros k Hk. rewrite L2.
              ** apply hget_hset_other. intros <-. apply Hk. rewrite stmts_lines_cons. unfold ids_of. rewrite map_app.
                 apply in_app_iff. left. apply in_ids_block. exact Hj_in.
              ** intros Hin. apply Hk. rewrite stmts_lines_cons. unfold ids_of. rewrite map_app.
                 apply in_app_iff. right. exact Hin.
           ++ rewrite !stmts_lines_cons, !flat_map_app. f_equal.
              ** cbn [stmt_lines flat_map]. rewrite app_nil_r. fold v.
                 rewrite (lview_frame (hset h j l') h') by (apply L2; exact Hj_r).
                 rewrite <- filter_live_lview, Hf. cbn [map flat_map]. rewrite app_nil_r.
                 apply collapse_view; try assumption.
                 unfold line_live in Hj_live. destruct (hl_tok (hget h j)); [discriminate | congruence].
              ** rewrite L3. apply flat_lview_frame. intros x Hx. apply hget_hset_other.
                 intros Heq. apply Hj_r. unfold ids_of. rewrite Heq. apply in_map. exact Hx.
           ++ rewrite stmts_lines_cons. cbn. constructor; [|exact L4]. intros Hin. apply Hj_r. apply L5. exact Hin.
           ++ rewrite !stmts_lines_cons. unfold ids_of. rewrite !map_app. intros k Hk.
              apply in_app_iff in Hk. apply in_app_iff. destruct Hk as [Hk|Hk].
              ** left. cbn in Hk. destruct Hk as [<-|[]]. apply in_ids_block. exact Hj_in.
              ** right. apply L5. exact Hk.
           ++ rewrite stmts_lines_cons. cbn. constructor; [|exact L6].
              split; [|split]; cbn [fst snd].
              ** rewrite L1, hset_length. exact Hj_len.
              ** rewrite L2 by exact Hj_r. rewrite hget_hset_same by exact Hj_len. reflexivity.
              ** rewrite L2 by exact Hj_r. rewrite hget_hset_same by exact Hj_len. unfold l'; cbn [hl_tok].
                 rewrite Hv, app_length. cbn. unfold line_live in Hj_live.
                 destruct (hl_tok (hget h j)); [discriminate | cbn; lia].
           ++ constructor; [exact I | exact L7].
        -- rewrite <- Hf. specialize (IH h Hnd_r Hpl_r Hbr). destruct (syn_cleanup_loop h rest) as [h' out].
           cbn [fst snd] in *. apply keep_block_ok; assumption.
      * rewrite <- Hf. specialize (IH h Hnd_r Hpl_r Hbr). destruct (syn_cleanup_loop h rest) as [h' out].
        cbn [fst snd] in *. apply keep_block_ok; assumption.
    + (* a comment block *)
      specialize (IH h Hnd_r Hpl_r Hbr). destruct (syn_cleanup_loop h rest) as [h' out]. cbn [fst snd] in *.
      destruct IH as [L1 L2 L3 L4 L5 L6 L7]. split; try assumption.
      constructor; [exact I | exact L7].
Qed.

Lemma syntax_ok_placed s : SyntaxOk s -> Forall (placed (heap s)) (stmts_lines (stmts s)).
Proof. intros [_ H _]. exact H. Qed.

Lemma syn_cleanup_ok s :
  SyntaxOk s -> SyntaxOk (syn_cleanup s) /\ tree_view (syn_cleanup s) = tree_view s.
Proof.
  intros Hs. destruct Hs as [H1 H2 H3].
  pose proof (cleanup_loop_ok (stmts s) (heap s) H1 H2 H3) as L.
  unfold syn_cleanup. destruct (syn_cleanup_loop (heap s) (stmts s)) as [h' out]. cbn [fst snd] in L.
  destruct L as [L1 L2 L3 L4 L5 L6 L7]. split.
  - split; cbn; assumption.
  - exact L3.
Qed.

Lemma view_filter_live {E} (g : E -> ent) (live : E -> bool) l :
  (forall e, en_live (g e) = live e) ->
  flat_map ent_view (map g (filter live l)) = flat_map ent_view (map g l).
Proof.
  intros Hl. induction l as [|e r IH]; cbn [filter map flat_map]; [reflexivity|].
  destruct (live e) eqn:E'; cbn [map flat_map]; rewrite IH; [reflexivity|].
  unfold ent_view. rewrite Hl, E'. destruct (en_syn (g e)); reflexivity.
Qed.

Lemma forall_ok_filter {E} (g : E -> ent) (live : E -> bool) l :
  Forall ent_ok (map g l) -> Forall ent_ok (map g (filter live l)).
Proof.
  intros H. apply Forall_forall. intros x Hx. apply in_map_iff in Hx. destruct Hx as [e [<- He]].
  apply filter_In in He. rewrite Forall_forall in H. apply H. apply in_map. tauto.
Qed.

Lemma cleanup_coherent f : Coherent f -> Coherent (cleanup f).
Proof.
  intros [Hs He Hp]. destruct (syn_cleanup_ok _ Hs) as [Hs' Hv]. split.
  - exact Hs'.
  - unfold EntriesOk, entries in *. cbn [cleanup f_module f_go f_toolchain f_godebug f_require f_exclude f_replace f_retract f_tool f_use].
    repeat (apply Forall_app in He; destruct He as [?H He]).
    repeat (apply Forall_app; split); try assumption; apply forall_ok_filter; assumption.
  - cbn [fsyn cleanup]. rewrite Hv. unfold typed_view, entries in *.
    cbn [cleanup f_module f_go f_toolchain f_godebug f_require f_exclude f_replace f_retract f_tool f_use].
    rewrite !flat_map_app in *.
    rewrite (view_filter_live ent_godebug), (view_filter_live ent_require), (view_filter_live ent_exclude),
            (view_filter_live ent_replace), (view_filter_live ent_retract), (view_filter_live ent_tool);
      try (intros e; reflexivity).
    exact Hp.
Qed.

Lemma w_cleanup_coherent f : Coherent f -> Coherent (w_cleanup f).
Proof.
  intros [Hs He Hp]. destruct (syn_cleanup_ok _ Hs) as [Hs' Hv]. split.
  - exact Hs'.
  - unfold EntriesOk, entries in *. cbn [w_cleanup f_module f_go f_toolchain f_godebug f_require f_exclude f_replace f_retract f_tool f_use].
    repeat (apply Forall_app in He; destruct He as [?H He]).
    repeat (apply Forall_app; split); try assumption; apply forall_ok_filter; assumption.
  - cbn [fsyn w_cleanup]. rewrite Hv. unfold typed_view, entries in *.
    cbn [w_cleanup f_module f_go f_toolchain f_godebug f_require f_exclude f_replace f_retract f_tool f_use].
    rewrite !flat_map_app in *.
    rewrite (view_filter_live ent_godebug), (view_filter_live ent_replace), (view_filter_live ent_use);
      try (intros e; reflexivity).
    exact Hp.
Qed.
