(* Reparse, part 4: print and strict re-parse of a tree whose lines render valid items
   (go.mod): the formatted text is accepted and the directive values are those of the items.
   The tree is given with its lean form [a] (RoundRows.v); no first parse is assumed. *)
From Verif.Base Require Import Bytes.
From Verif.Modfile Require Import Syntax Lex Parse Print Directives ProofsLex RoundRows RoundTree RoundTree3
  RoundPrint RoundPrint3 RoundMain2 RoundMain3 RoundDir1 RoundDir3 RoundDir4 RoundDir5 RoundDir6 RoundWork Reparse3.

Lemma format_name' n c st : format (mkFile n c st) = format (mkFile [] c st).
Proof. reflexivity. Qed.

Theorem items_reparse s a itss :
  map zexpr (f_stmt s) = map estmt a -> zcs (f_comments s) = no_comments ->
  Forall astmt_ok a -> Forall sfx_inv a ->
  Forall2 expr_items (f_stmt s) itss -> singles (concat itss) ->
  exists f', parse_to_file true None (format s) = DOk f' /\ vals f' = vals_of (concat itss).
Proof.
  intros Hz Hc Hok Hsi H2 Hs.
  destruct (file_of_syntax_items s itss H2 Hs) as (f1 & Hf1 & Hsyn & Hv & Hw).
  assert (Hfmt : format s = render (file_pls a)).
  { rewrite <- format_zfile. unfold zfile. rewrite Hz, Hc, format_name'. apply (format_efile a Hok). }
  destruct (reparse a Hok) as (s2 & Hp2 & Hz2 & _).
  unfold parse_to_file. rewrite Hfmt, Hp2. cbn [lift_parse].
  destruct (file_of_syntax_sim s s2 f1 Hf1 Hw) as (f2 & Hf2 & Hv2).
  { rewrite Hsyn. apply (yrel_lean_all (f_stmt s) (f_stmt s2) a); auto. apply (f_equal f_stmt) in Hz2. exact Hz2. }
  exists f2. split; [exact Hf2|]. rewrite Hv2. exact Hv.
Qed.

(* ---------------------------------------------------------------- go.work *)


Theorem items_reparse_work s a itss :
  map zexpr (f_stmt s) = map estmt a -> zcs (f_comments s) = no_comments ->
  Forall astmt_ok a -> Forall sfx_inv a ->
  Forall2 expr_itemsW (f_stmt s) itss -> singles (concat itss) ->
  exists f', parse_work None (format s) = DOk f' /\ valsW f' = vals_ofW (concat itss).
Proof.
  intros Hz Hc Hok Hsi H2 Hs.
  pose proof (stmts_loop_itemsW (f_stmt s) itss O (mkLS (empty_work s) [] [] false) [] [] H2 Hs) as H.
  specialize (H ltac:(repeat split; try reflexivity; constructor)). cbn [app] in H.
  destruct H as (He & Hp & Hst & Hv & Hw).
  assert (Hfmt : format s = render (file_pls a)).
  { rewrite <- format_zfile. unfold zfile. rewrite Hz, Hc, format_name'. apply (format_efile a Hok). }
  destruct (reparse a Hok) as (s2 & Hp2 & Hz2 & _).
  unfold parse_work. rewrite Hfmt, Hp2. cbn [lift_parse].
  assert (Hy : Forall2 yrel (f_stmt s) (f_stmt s2)).
  { apply (yrel_lean_all (f_stmt s) (f_stmt s2) a); auto. apply (f_equal f_stmt) in Hz2. exact Hz2. }
  pose proof (g_loop_sim work_file _ (addw None) known_work_block valsW wf_work extW extW_refl extW_trans wfW_ext
                (addw_ext None) (addw_sim None fixer_ok_none)
                (f_stmt s) O (mkLS (empty_work s) [] [] false) (f_stmt s) (f_stmt s2) O (mkLS (empty_work s2) [] [] false)) as Hsim.
  cbv zeta in Hsim.
  specialize (Hsim He Hp Hw ltac:(cbn [lp_stmts_r]; rewrite app_nil_r; exact Hst) Hy ltac:(split; [reflexivity|split; reflexivity])).
  destruct Hsim as (Hv2 & He2 & Hp2').
  rewrite (work_of_syntax_eq None). cbv zeta. rewrite Hp2', He2. eexists. split; [reflexivity|].
  unfold valsW in *. cbn [Directives.wf_with_syntax wf_go wf_toolchain wf_godebug wf_use wf_replace]. rewrite <- Hv2. exact Hv.
Qed.
