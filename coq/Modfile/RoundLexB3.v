(* Round trip, part 6c: the pure lexer on a whole input ([plex]) and its tie to [lex]. *)
From Verif.Base Require Import Bytes Utf8.
From Verif.Modfile Require Import Syntax Lex Parse ProofsLex ProofsLexNoLF RoundRows RoundParse
  RoundLexPure RoundLexPure2 RoundLexPure3 RoundLexPure4 RoundLexB1 RoundLexB2.

Definition omap {A B} (g : A -> B) (o : option A) : option B :=
  match o with Some a => Some (g a) | None => None end.

Fixpoint plex (f : nat) (d : bool) (s : str) : option (list (tkind * str)) :=
  match f with
  | O => None
  | S f' =>
      match ptoken f' d s with
      | PTok k x rest =>
          if is_eof k then Some [(k, x)]
          else omap (cons (k, x)) (plex f' (next_dirty k d) rest)
      | _ => None
      end
  end.

Definition tabs_of (t : token) : tkind * str := (t_kind t, t_text t).

Lemma lex_all_plex data : forall f st d toks, linv data st -> dinv st d ->
  plex f d (ls_rem st) = Some toks ->
  exists ts, lex_all f st [] = (ts, LEnd) /\ map tabs_of ts = toks.
Proof.
  induction f as [|f IH]; intros st d toks Hi Hd H; [discriminate|]. cbn [plex] in H. cbn [lex_all].
  pose proof (read_token_pure data f st d Hi Hd) as Hp.
  destruct (ptoken f d (ls_rem st)) as [k x rest| |] eqn:Ep; try discriminate.
  destruct (read_token f st) as [t st'|p e| |]; cbn [tr_ok'] in Hp; try discriminate.
  destruct Hp as (Hp & Hi' & Hd' & _). injection Hp as -> -> ->.
  destruct (is_eof (t_kind t)) eqn:Ek.
  - injection H as <-. exists [t]. split; reflexivity.
  - destruct (plex f (next_dirty (t_kind t) d) (ls_rem st')) as [l|] eqn:El; [|discriminate]. injection H as <-.
    destruct (IH st' _ l Hi' Hd' El) as (ts & E1 & E2).
    rewrite lex_all_acc, E1. cbn [fst snd rev app]. exists (t :: ts). split; [reflexivity|]. cbn [map]. rewrite E2. reflexivity.
Qed.

Theorem lex_plex data toks : plex (lex_fuel data) false data = Some toks ->
  exists ts, lex data = (ts, LEnd) /\ map tabs_of ts = toks.
Proof.
  intros H. unfold lex. apply (lex_all_plex data _ (init_state data) false toks (linv_init data) (dinv_init data)). exact H.
Qed.

(* the rows of a list of (kind, text) *)
Fixpoint prows (acc_r : list str) (ts : list (tkind * str)) : list arow :=
  match ts with
  | [] => flush_row acc_r
  | (k, x) :: r =>
      match k with
      | KEOF => flush_row acc_r
      | KEOLComment => RToks (rev acc_r) [x] :: prows [] r
      | KComment => RCom x :: prows [] r
      | KPunct c =>
          if c =? 10 then (match acc_r with [] => RBlank | _ => RToks (rev acc_r) [] end) :: prows [] r
          else prows (x :: acc_r) r
      | _ => prows (x :: acc_r) r
      end
  end.

Lemma arows_prows : forall ts acc_r, arows acc_r ts = prows acc_r (map tabs_of ts).
Proof.
  induction ts as [|t ts IH]; intros acc_r; [reflexivity|]. cbn [arows map prows tabs_of].
  destruct (t_kind t) as [| | | | |c]; try rewrite IH; try reflexivity. destruct (c =? 10); rewrite ?IH; reflexivity.
Qed.

Lemma prows_ltoks : forall l acc_r r, Forall (fun kx => is_ltok (fst kx) = true) l ->
  prows acc_r (l ++ r) = prows (rev (map snd l) ++ acc_r) r.
Proof.
  induction l as [|[k x] l IH]; intros acc_r r H; [reflexivity|]. inversion H as [|? ? Hk Hl]; subst. cbn [fst] in Hk.
  cbn [app prows map snd rev]. rewrite <- app_assoc. cbn [app].
  destruct k as [| | | | |c]; cbn in Hk; try discriminate; try apply IH; auto.
  apply negb_true_iff in Hk. rewrite Hk. apply IH. exact Hl.
Qed.
