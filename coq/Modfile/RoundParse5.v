(* Round trip, part 3e: parseFile in lockstep with [group], and the theorem
   [parse_tokens_group]: on a stream as the lexer delivers it, the parser followed by the
   position-based comment assignment is [group] on the rows of the stream. *)
From Verif.Base Require Import Bytes.
From Verif.Modfile Require Import Syntax Lex Parse ProofsLex RoundRows RoundAssign RoundParse RoundParse2 RoundParse4.

(* the pending comment block of parseFile and of group *)
Definition cb_rel (cb : pending_cb) (acb : option (list str)) (B : Z) (ts : list token) : Prop :=
  match cb, acb with
  | None, None => B <= nb ts
  | Some (p, b), Some ab => map zc b = map ec ab /\ B <= p_byte p /\ p_byte p <= nb ts
  | _, _ => False
  end.

Definition file_res (acb : option (list str)) (astmts_r : list astmt) (sr : list comment)
           (ts : list token) (res : pres (list expr)) : Prop :=
  match res with
  | ROk stmts rest =>
      exists stmts_r' astmts_r' hi,
        stmts = frev stmts_r' /\ placed_stmts stmts_r' (comsr sr ts) astmts_r' hi /\
        group (GTop acb astmts_r) (arows [] ts) = Some (rev astmts_r')
  | RErr _ _ => group (GTop acb astmts_r) (arows [] ts) = None
  | RPanic | RFuel => False
  end.

Lemma file_res_step acb acb' as_r as_r' sr sr' ts ts' res :
  file_res acb' as_r' sr' ts' res ->
  comsr sr ts = comsr sr' ts' ->
  group (GTop acb as_r) (arows [] ts) = group (GTop acb' as_r') (arows [] ts') ->
  file_res acb as_r sr ts res.
Proof.
  intros H Hc Hg. destruct res as [stmts rest|p e| |]; cbn [file_res] in *; auto.
  - destruct H as (s' & a' & hi & H1 & H2 & H3). exists s', a', hi. rewrite Hc, Hg. auto.
  - rewrite Hg. exact H.
Qed.

Lemma push_placed cb acb B ts stmts_r sr astmts_r :
  cb_rel cb acb B ts -> placed_stmts stmts_r sr astmts_r B ->
  placed_stmts (push_cb cb stmts_r) sr (push_acb acb astmts_r) (nb ts).
Proof.
  unfold cb_rel. destruct cb as [[p b]|], acb as [ab|]; try contradiction.
  - intros (Hb & H1 & H2) Hp. cbn [push_cb push_acb].
    change sr with (rev [] ++ sr). eapply pst_cons; [exact Hp|exact H1|].
    unfold cb_of. apply owned_cb; [|lia|exact H2]. cbn. rewrite frev_rev, !map_rev, Hb. reflexivity.
  - intros H Hp. cbn [push_cb push_acb]. eapply placed_stmts_le; eauto.
Qed.

Lemma file_loop_spec : forall f ts cb stmts_r acb astmts_r sr B,
  rs false ts -> ordered ts -> (length ts + 2 <= f)%nat ->
  cb_rel cb acb B ts -> placed_stmts stmts_r sr astmts_r B ->
  file_res acb astmts_r sr ts (file_loop f LEnd cb stmts_r ts).
Proof.
  induction f as [|f IH]; intros ts cb stmts_r acb astmts_r sr B Hrs Ho Hf Hcb Hp; [lia|].
  destruct ts as [|t r]; [destruct Hrs|]. cbn [file_loop peek].
  (* a statement *)
  assert (Hstmt : is_ltok (t_kind t) = true ->
    file_res acb astmts_r sr (t :: r)
      (bind (parse_stmt f LEnd (t :: r))
        (fun s ts1 =>
          let stmts1 := s :: stmts_r in
          match cb with
          | None => file_loop f LEnd None stmts1 ts1
          | Some (_, b) =>
              match stmts1 with
              | [] => RPanic
              | lst :: r0 =>
                  file_loop f LEnd None
                    (expr_set_comments lst (set_before (expr_comments lst) (frev b)) :: r0) ts1
              end
          end))).
  { intros Hlt. pose proof (parse_stmt_spec f t r Hlt Hrs Ho ltac:(lia)) as Hs.
    destruct (parse_stmt f LEnd (t :: r)) as [x rest|p e| |]; cbn [stmt_ok bind] in *; try contradiction.
    2:{ apply Hs. }
    destruct Hs as (cx & a & S1 & S2 & S3 & S4 & S5 & S6 & S7 & S8).
    assert (HB : B <= nb (t :: r)).
    { unfold cb_rel in Hcb. destruct cb as [[p b]|], acb as [ab|]; try contradiction; lia. }
    eapply file_res_step; [|apply S7|apply S8].
    unfold cb_rel in Hcb. destruct cb as [[p b]|], acb as [ab|]; try contradiction; cbn zeta.
    - destruct Hcb as (Hb & H1 & H2).
      apply (IH rest None _ None _ _ (nb rest)); auto; [lia|cbn; lia|].
      eapply pst_cons; [exact Hp|exact HB|]. apply S2. cbn [cb_list]. rewrite frev_rev, !map_rev, Hb. reflexivity.
    - apply (IH rest None _ None _ _ (nb rest)); auto; [lia|cbn; lia|].
      eapply pst_cons; [exact Hp|exact HB|]. rewrite <- S1. apply (S2 [] []). reflexivity. }
  destruct (t_kind t) as [| | | | |c] eqn:Ek.
  - (* EOF *)
    cbn [file_res]. exists (push_cb cb stmts_r), (push_acb acb astmts_r), (nb (t :: r)).
    split; [reflexivity|]. split.
    + assert (Er : r = []) by (cbn in Hrs; rewrite Ek in Hrs; apply Hrs). subst r.
      cbn [comsr fold_left]. unfold cstep. rewrite Ek. eapply push_placed; eauto.
    + cbn [arows]. rewrite Ek. reflexivity.
  - (* EOLCOMMENT: not at the start of a row *)
    cbn in Hrs. rewrite Ek in Hrs. destruct Hrs as (_ & Hd & _). discriminate.
  - cbn [is_kpunct]. apply Hstmt; reflexivity.
  - cbn [is_kpunct]. apply Hstmt; reflexivity.
  - (* COMMENT *)
    assert (Hr : rs false r) by (cbn in Hrs; rewrite Ek in Hrs; apply Hrs).
    pose proof (rs_nonempty _ _ Hr) as Hne. destruct r as [|u r]; [congruence|].
    rewrite advance_more. cbn [bind].
    destruct (ordered_nb_mono _ _ Ho Hne) as (N1 & N2 & N3 & N4).
    eapply file_res_step.
    + apply (IH (u :: r) _ stmts_r (cb_add (t_text t) acb) astmts_r sr B); auto.
      * eapply ordered_tail; eauto.
      * cbn [length] in *. lia.
      * unfold cb_rel in *. destruct cb as [[p b]|], acb as [ab|]; try contradiction; cbn [cb_add].
        -- destruct Hcb as (Hb & H1 & H2). split; [cbn [map]; rewrite Hb; reflexivity|]. split; [exact H1|]. cbn [nb] in *. lia.
        -- split; [reflexivity|]. cbn [nb] in *. unfold bpos in *. split; lia.
    + apply comsr_skip. left. rewrite Ek. reflexivity.
    + cbn [arows]. rewrite Ek. reflexivity.
  - cbn [is_kpunct]. destruct (c =? 10) eqn:E10.
    2:{ apply Hstmt. cbn. rewrite E10. reflexivity. }
    (* blank line *)
    assert (Hr : rs false r) by (cbn in Hrs; rewrite Ek, E10 in Hrs; apply Hrs).
    pose proof (rs_nonempty _ _ Hr) as Hne. destruct r as [|u r]; [congruence|].
    rewrite advance_more. cbn [bind].
    destruct (ordered_nb_mono _ _ Ho Hne) as (N1 & N2 & N3 & N4).
    eapply file_res_step.
    + apply (IH (u :: r) None (push_cb cb stmts_r) None (push_acb acb astmts_r) sr (nb (t :: r))); auto.
      * eapply ordered_tail; eauto.
      * cbn [length] in *. lia.
      * eapply push_placed; eauto.
    + apply comsr_skip. right. rewrite Ek. cbn. exact E10.
    + cbn [arows]. rewrite Ek, E10. reflexivity.
Qed.

(* ---------------------------------------------------------------- assignComments without whole-line comments *)

Lemma take_before_nil start c : take_before start c [] = (c, []).
Proof. destruct c. unfold take_before. cbn. rewrite app_nil_r. reflexivity. Qed.

Lemma pre_line_nil l : pre_line l [] = (l, []).
Proof. unfold pre_line. rewrite take_before_nil. destruct l. reflexivity. Qed.

Lemma pre_lines_nil : forall ls acc, pre_lines ls [] acc = (rev acc ++ ls, []).
Proof.
  induction ls as [|l ls IH]; intros acc; cbn [pre_lines].
  - rewrite frev_rev, app_nil_r. reflexivity.
  - rewrite pre_line_nil, IH. cbn [rev]. rewrite <- app_assoc. reflexivity.
Qed.

Lemma pre_paren_nil x : pre_paren x [] = (x, []).
Proof. unfold pre_paren. rewrite take_before_nil. destruct x. reflexivity. Qed.

Lemma pre_expr_nil x : pre_expr x [] = (x, []).
Proof.
  destruct x as [l|b|c]; cbn [pre_expr].
  - rewrite pre_line_nil. reflexivity.
  - rewrite take_before_nil, pre_paren_nil, pre_lines_nil, pre_paren_nil. destruct b. reflexivity.
  - rewrite take_before_nil. destruct c. reflexivity.
Qed.

Lemma pre_stmts_nil : forall l acc, pre_stmts l [] acc = (rev acc ++ l, []).
Proof.
  induction l as [|x l IH]; intros acc; cbn [pre_stmts].
  - rewrite frev_rev, app_nil_r. reflexivity.
  - rewrite pre_expr_nil, IH. cbn [rev]. rewrite <- app_assoc. reflexivity.
Qed.

Lemma filter_r_spec {A} (p : A -> bool) : forall l acc, filter_r p l acc = rev (filter p l) ++ acc.
Proof.
  induction l as [|x l IH]; intros acc; cbn [filter_r filter]; [reflexivity|].
  rewrite IH. destruct (p x); [cbn [rev]; rewrite <- app_assoc|]; reflexivity.
Qed.

Lemma comsr_suffix : forall ts acc, Forall (fun c => c_suffix c = true) acc ->
  Forall (fun c => c_suffix c = true) (comsr acc ts).
Proof.
  induction ts as [|t ts IH]; intros acc H; [exact H|]. cbn [comsr fold_left]. apply IH.
  unfold cstep. destruct (t_kind t); auto.
Qed.

Lemma filter_all {A} (p : A -> bool) l : Forall (fun x => p x = true) l -> filter p l = l.
Proof. induction 1 as [|x l Hx Hl IH]; cbn; [reflexivity|]. rewrite Hx, IH. reflexivity. Qed.

Lemma filter_none {A} (p : A -> bool) l : Forall (fun x => p x = false) l -> filter p l = [].
Proof. induction 1 as [|x l Hx Hl IH]; cbn; [reflexivity|]. rewrite Hx, IH. reflexivity. Qed.

(* ---------------------------------------------------------------- parse *)

Theorem parse_tokens_group name ts : rs false ts -> ordered ts ->
  match parse_tokens name ts LEnd with
  | POk s => exists a, group_file (arows [] ts) = Some a /\ zfile s = mkFile name no_comments (map estmt a)
  | PErrs _ => group_file (arows [] ts) = None
  | PPanic | POutOfFuel => False
  end.
Proof.
  intros Hrs Ho. unfold parse_tokens. destruct ts as [|t0 ts0] eqn:Ets; [destruct Hrs|]. rewrite <- Ets in *.
  pose proof (file_loop_spec (parse_fuel ts) ts None [] None [] [] (nb ts) Hrs Ho ltac:(unfold parse_fuel; lia)
                (Z.le_refl _) (pst_nil _)) as H.
  destruct (file_loop (parse_fuel ts) LEnd None [] ts) as [stmts rest|p e| |]; cbn [file_res] in H; try contradiction.
  2:{ exact H. }
  destruct H as (stmts_r' & astmts_r' & hi & -> & Hp & Hg).
  exists (rev astmts_r'). split; [exact Hg|].
  unfold assign_comments. rewrite comments_of_comsr.
  set (sr := comsr [] ts) in *.
  assert (Hsf : Forall (fun c => c_suffix c = true) sr) by (apply comsr_suffix; constructor).
  rewrite !filter_r_spec, !app_nil_r, !frev_rev, !rev_involutive.
  assert (Hs' : Forall (fun c => c_suffix c = true) (rev sr)) by (apply Forall_rev; exact Hsf).
  rewrite (filter_all _ _ Hs').
  rewrite (filter_none (fun c => negb (c_suffix c)) (rev sr))
    by (eapply Forall_impl; [|exact Hs']; intros c Hc; cbn; rewrite Hc; reflexivity).
  rewrite take_before_nil, pre_stmts_nil. cbn [rev app].
  rewrite !frev_rev, !rev_involutive.
  destruct (post_stmts_placed _ _ _ _ Hp []) as (xs' & E & Hz). rewrite E. rewrite !app_nil_r.
  unfold zfile. cbn. rewrite map_rev, Hz, map_rev. reflexivity.
Qed.
