(* Every top-level Line of the parsed tree is a segment of the token stream: its tokens are
   the texts of consecutive tokens, the first of which follows a newline token, a comment
   token or the start of the input, and the segment is followed by an end-of-line token
   (newline, end-of-line comment, EOF).  Used by ModulePathProofs.v. *)
From Verif.Base Require Import Bytes.
From Verif.Modfile Require Import Syntax Lex Parse ProofsLex.

Definition eol_or_comment (t : token) : Prop := is_eol (t_kind t) = true \/ t_kind t = KComment.

(* the consumed tokens end a line (or nothing is consumed) *)
Definition bol (c : list token) : Prop := c = [] \/ exists p t, c = p ++ [t] /\ eol_or_comment t.

Definition sol (c ts : list token) : Prop := bol c \/ peek ts = KEOF.

Definition noneol (t : token) : Prop := is_eol (t_kind t) = false.

Section Seg.
Variable TS : list token.
Variable lend : lex_end.

Definition seg (start : position) (toks : list str) : Prop :=
  exists c0 t0 tl e post,
    TS = c0 ++ (t0 :: tl) ++ e :: post /\ map t_text (t0 :: tl) = toks /\ t_pos t0 = start /\
    is_eol (t_kind e) = true /\ Forall noneol tl /\ bol c0.

Definition line_seg (x : expr) : Prop :=
  match x with ELine l => seg (l_start l) (l_token l) | _ => True end.

Lemma advance_split ts t rest : advance lend ts = ROk t rest ->
  ts = t :: rest \/ (ts = [t] /\ rest = [t] /\ is_eof (t_kind t) = true).
Proof.
  unfold advance. destruct ts as [|t0 [|t1 tl]].
  - unfold fail_of. destruct lend; discriminate.
  - destruct (is_eof (t_kind t0)) eqn:E; [intros [= <- <-]; right; auto|].
    unfold fail_of. destruct lend; discriminate.
  - intros [= <- <-]. left. reflexivity.
Qed.

Lemma is_eof_eol k : is_eof k = true -> is_eol k = true.
Proof. destruct k; cbn; congruence. Qed.

Lemma is_eof_kind k : is_eof k = true -> k = KEOF.
Proof. destruct k; cbn; congruence. Qed.

Definition suffix (ts ts' : list token) : Prop := exists c, ts = c ++ ts'.

Definition adv_eol (ts ts' : list token) : Prop :=
  (exists c e, ts = c ++ e :: ts' /\ is_eol (t_kind e) = true) \/ (peek ts' = KEOF /\ suffix ts ts').

Lemma suffix_refl ts : suffix ts ts.
Proof. exists []. reflexivity. Qed.

Lemma suffix_trans a b c : suffix a b -> suffix b c -> suffix a c.
Proof. intros (x & ->) (y & ->). exists (x ++ y). rewrite app_assoc. reflexivity. Qed.

Lemma advance_suffix ts t rest : advance lend ts = ROk t rest -> suffix ts rest.
Proof.
  intros H. apply advance_split in H as [->|(-> & -> & _)]; [exists [t]; reflexivity|apply suffix_refl].
Qed.

Lemma adv_eol_prepend ts ts1 ts' : suffix ts ts1 -> adv_eol ts1 ts' -> adv_eol ts ts'.
Proof.
  intros (x & ->) [(c & e & -> & He)|(Hk & Hs)].
  - left. exists (x ++ c), e. rewrite app_assoc. auto.
  - right. split; [exact Hk|]. eapply suffix_trans; [|exact Hs]. exists x. reflexivity.
Qed.

(* advancing over a token known to end a line *)
Lemma advance_adv_eol ts t rest : advance lend ts = ROk t rest -> is_eol (peek ts) = true -> adv_eol ts rest.
Proof.
  intros H Hk. apply advance_split in H as [->|(-> & -> & He)].
  - left. exists [], t. split; [reflexivity|exact Hk].
  - right. split; [cbn; apply is_eof_kind; exact He|apply suffix_refl].
Qed.

Lemma line_loop_suffix : forall f start endp tokens_r ts l ts',
  line_loop f lend start endp tokens_r ts = ROk l ts' -> suffix ts ts'.
Proof.
  induction f as [|f IH]; intros start endp tokens_r ts l ts'; cbn [line_loop]; [discriminate|].
  destruct (advance lend ts) as [tok ts1| | |] eqn:Ea; cbn [bind]; try discriminate.
  apply advance_suffix in Ea.
  destruct (is_eol (t_kind tok)); [intros [= <- <-]; exact Ea|].
  intros H. eapply suffix_trans; [exact Ea|eapply IH; exact H].
Qed.

Lemma parse_line_suffix f ts l ts' : parse_line f lend ts = ROk l ts' -> suffix ts ts'.
Proof.
  unfold parse_line. destruct (advance lend ts) as [tok ts1| | |] eqn:Ea; cbn [bind]; try discriminate.
  apply advance_suffix in Ea. destruct (is_eol (t_kind tok)); [discriminate|].
  intros H. eapply suffix_trans; [exact Ea|eapply line_loop_suffix; exact H].
Qed.

Lemma block_loop_adv : forall f start btoks lparen coms_r lines_r ts b ts',
  block_loop f lend start btoks lparen coms_r lines_r ts = ROk b ts' -> adv_eol ts ts'.
Proof.
  induction f as [|f IH]; intros start btoks lparen coms_r lines_r ts b ts'; cbn [block_loop]; [discriminate|].
  assert (Hline : bind (parse_line f lend ts)
            (fun l ts1 => block_loop f lend start btoks lparen [] (line_set_before l (frev coms_r) :: lines_r) ts1)
            = ROk b ts' -> adv_eol ts ts').
  { destruct (parse_line f lend ts) as [l ts1| | |] eqn:El; cbn [bind]; try discriminate.
    apply parse_line_suffix in El. intros H. eapply adv_eol_prepend; [exact El|eapply IH; exact H]. }
  assert (Hadv : forall k : token -> list token -> pres line_block,
            (forall tok ts1, k tok ts1 = ROk b ts' -> adv_eol ts1 ts') ->
            bind (advance lend ts) k = ROk b ts' -> adv_eol ts ts').
  { intros k Hk. destruct (advance lend ts) as [tok ts1| | |] eqn:Ea; cbn [bind]; try discriminate.
    apply advance_suffix in Ea. intros H. eapply adv_eol_prepend; [exact Ea|eapply Hk; exact H]. }
  destruct (peek ts) as [| | | | |c] eqn:Epk; try exact Hline.
  - discriminate.
  - apply Hadv. intros tok ts1. apply IH.
  - apply Hadv. intros tok ts1. apply IH.
  - destruct (c =? 10); [apply Hadv; intros tok ts1; apply IH|].
    destruct (c =? 41); [|exact Hline].
    apply Hadv. intros rparen ts1.
    destruct (is_eol (peek ts1)) eqn:Ee; cbn [negb]; [|discriminate].
    destruct (advance lend ts1) as [e ts2| | |] eqn:Ea; cbn [bind]; try discriminate.
    intros [= _ <-]. eapply advance_adv_eol; eauto.
Qed.

Lemma adv_eol_sol c ts ts' : TS = c ++ ts -> adv_eol ts ts' -> exists c', TS = c' ++ ts' /\ sol c' ts'.
Proof.
  intros E [(x & e & -> & He)|(Hk & (x & ->))].
  - exists (c ++ x ++ [e]). split; [rewrite E, <- !app_assoc; reflexivity|].
    left. right. exists (c ++ x), e. rewrite app_assoc. split; [reflexivity|left; exact He].
  - exists (c ++ x). split; [rewrite E, app_assoc; reflexivity|]. right. exact Hk.
Qed.

Lemma map_text_snoc (l : list token) t : map t_text (l ++ [t]) = map t_text l ++ [t_text t].
Proof. rewrite map_app. reflexivity. Qed.

(* parseStmt *)
Lemma stmt_loop_seg : forall f start endp tokens_r ts c0 t0 tl x ts',
  TS = c0 ++ (t0 :: tl) ++ ts -> map t_text (t0 :: tl) = rev tokens_r -> t_pos t0 = start ->
  Forall noneol tl -> bol c0 ->
  stmt_loop f lend start endp tokens_r ts = ROk x ts' ->
  line_seg x /\ exists c', TS = c' ++ ts' /\ sol c' ts'.
Proof.
  induction f as [|f IH]; intros start endp tokens_r ts c0 t0 tl x ts' ETS Emap Est Hne Hbol;
    cbn [stmt_loop]; [discriminate|].
  destruct (advance lend ts) as [tok ts1| | |] eqn:Ea; cbn [bind]; try discriminate.
  pose proof (advance_split _ _ _ Ea) as Hsp.
  destruct (is_eol (t_kind tok)) eqn:Ek.
  { intros [= <- <-]. split.
    - cbn [line_seg l_start l_token]. rewrite frev_rev, <- Emap.
      destruct Hsp as [->|(-> & -> & _)].
      + exists c0, t0, tl, tok, ts1. repeat split; auto.
      + exists c0, t0, tl, tok, []. repeat split; auto.
    - destruct Hsp as [->|(-> & -> & He)].
      + exists (c0 ++ (t0 :: tl) ++ [tok]). split; [rewrite ETS, <- !app_assoc; reflexivity|].
        left. right. exists (c0 ++ t0 :: tl), tok. rewrite <- app_assoc. split; [reflexivity|left; exact Ek].
      + exists (c0 ++ t0 :: tl). split; [rewrite ETS; rewrite <- app_assoc; reflexivity|].
        right. cbn. apply is_eof_kind. exact He. }
  destruct Hsp as [->|(_ & _ & He)]; [|apply is_eof_eol in He; congruence].
  assert (Hstep : forall endp' x' ts'',
     stmt_loop f lend start endp' (t_text tok :: tokens_r) ts1 = ROk x' ts'' ->
     line_seg x' /\ exists c', TS = c' ++ ts'' /\ sol c' ts'').
  { intros endp' x' ts'' H. eapply (IH start endp' _ ts1 c0 t0 (tl ++ [tok])); eauto.
    - rewrite ETS. cbn [app]. rewrite <- app_assoc. reflexivity.
    - cbn [rev]. rewrite <- Emap. change (t0 :: tl ++ [tok]) with ((t0 :: tl) ++ [tok]). apply map_text_snoc.
    - apply Forall_app. split; [exact Hne|constructor; [exact Ek|constructor]]. }
  destruct (is_kpunct (t_kind tok) 40) eqn:E40; [|apply Hstep].
  destruct (is_eol (peek ts1)) eqn:Eeol.
  { destruct (block_loop f lend start (frev tokens_r) tok [] [] ts1) as [b ts2| | |] eqn:Eb; cbn [bind]; try discriminate.
    intros [= <- <-]. split; [exact I|].
    apply block_loop_adv in Eb. eapply (adv_eol_sol (c0 ++ (t0 :: tl) ++ [tok])); [|exact Eb].
    rewrite ETS, <- !app_assoc. reflexivity. }
  destruct (is_kpunct (peek ts1) 41) eqn:E41; [|apply Hstep].
  destruct (advance lend ts1) as [rparen ts2| | |] eqn:Ea2; cbn [bind]; try discriminate.
  pose proof (advance_split _ _ _ Ea2) as Hsp2.
  assert (Hrp : t_kind rparen = KPunct 41).
  { destruct Hsp2 as [->|(-> & _ & _)]; cbn [peek] in E41; destruct (t_kind rparen); cbn in E41; try discriminate;
      apply Z.eqb_eq in E41; congruence. }
  destruct Hsp2 as [->|(_ & _ & He)]; [|rewrite Hrp in He; discriminate].
  destruct (is_eol (peek ts2)) eqn:Eeol2.
  { destruct (advance lend ts2) as [e ts3| | |] eqn:Ea3; cbn [bind]; try discriminate.
    intros [= <- <-]. split; [exact I|].
    eapply (adv_eol_sol (c0 ++ (t0 :: tl) ++ [tok; rparen])).
    - rewrite ETS, <- !app_assoc. reflexivity.
    - eapply advance_adv_eol; eauto. }
  intros H. eapply (IH start endp _ ts2 c0 t0 (tl ++ [tok; rparen])); eauto.
  - rewrite ETS. cbn [app]. rewrite <- app_assoc. reflexivity.
  - cbn [rev]. rewrite <- app_assoc. cbn [app]. rewrite <- Emap.
    change (t0 :: tl ++ [tok; rparen]) with ((t0 :: tl) ++ [tok; rparen]). rewrite map_app. reflexivity.
  - apply Forall_app. split; [exact Hne|]. constructor; [exact Ek|]. constructor; [|constructor].
    unfold noneol. rewrite Hrp. reflexivity.
Qed.

Lemma line_seg_set_comments x c : line_seg x -> line_seg (expr_set_comments x c).
Proof. destruct x; cbn; auto. Qed.

Lemma push_cb_seg cb stmts_r : Forall line_seg stmts_r -> Forall line_seg (push_cb cb stmts_r).
Proof. destruct cb as [[p b]|]; cbn; auto. intros H. constructor; [exact I|exact H]. Qed.

Lemma Forall_frev' {A} (Q : A -> Prop) l : Forall Q l -> Forall Q (frev l).
Proof. intros H. rewrite frev_rev. apply Forall_rev. exact H. Qed.

(* parseFile *)
Lemma file_loop_seg : forall f cb stmts_r ts c stmts rest,
  TS = c ++ ts -> sol c ts -> Forall line_seg stmts_r ->
  file_loop f lend cb stmts_r ts = ROk stmts rest -> Forall line_seg stmts.
Proof.
  induction f as [|f IH]; intros cb stmts_r ts c stmts rest ETS Hsol Hs; cbn [file_loop]; [discriminate|].
  assert (Hstmt : peek ts <> KEOF ->
    bind (parse_stmt f lend ts)
      (fun s ts1 =>
         let stmts1 := s :: stmts_r in
         match cb with
         | None => file_loop f lend None stmts1 ts1
         | Some (_, b) =>
             match stmts1 with
             | [] => RPanic
             | lst :: r =>
                 file_loop f lend None (expr_set_comments lst (set_before (expr_comments lst) (frev b)) :: r) ts1
             end
         end) = ROk stmts rest -> Forall line_seg stmts).
  { intros Hk. unfold parse_stmt.
    destruct (advance lend ts) as [tok ts1| | |] eqn:Ea; cbn [bind]; try discriminate.
    pose proof (advance_split _ _ _ Ea) as Hsp.
    destruct Hsp as [->|(-> & _ & He)]; [|exfalso; apply Hk; cbn; apply is_eof_kind; exact He].
    destruct Hsol as [Hbol|Hk']; [|contradiction].
    destruct (stmt_loop f lend (t_pos tok) (t_end tok) [t_text tok] ts1) as [s ts2| | |] eqn:Es; cbn [bind]; try discriminate.
    destruct (stmt_loop_seg f (t_pos tok) (t_end tok) [t_text tok] ts1 c tok [] s ts2) as (Hx & c' & E' & Hsol'); auto.
    cbn zeta. destruct cb as [[p b]|].
    - intros H. eapply IH; [exact E'|exact Hsol'| |exact H].
      constructor; [apply line_seg_set_comments; exact Hx|exact Hs].
    - intros H. eapply IH; [exact E'|exact Hsol'| |exact H]. constructor; assumption. }
  destruct (peek ts) as [| | | | |ch] eqn:Epk; try (apply Hstmt; discriminate).
  - intros [= <- _]. apply Forall_frev'. apply push_cb_seg. exact Hs.
  - destruct (advance lend ts) as [tok ts1| | |] eqn:Ea; cbn [bind]; try discriminate.
    pose proof (advance_split _ _ _ Ea) as Hsp. intros H.
    assert (Hkc : t_kind tok = KComment).
    { destruct Hsp as [->|(-> & _ & _)]; exact Epk. }
    destruct Hsp as [->|(_ & _ & He)]; [|rewrite Hkc in He; discriminate].
    eapply (IH _ stmts_r ts1 (c ++ [tok])); [rewrite ETS, <- app_assoc; reflexivity| |exact Hs|exact H].
    left. right. exists c, tok. split; [reflexivity|right; exact Hkc].
  - cbn [is_kpunct]. destruct (ch =? 10) eqn:E10; [|apply Hstmt; discriminate].
    destruct (advance lend ts) as [tok ts1| | |] eqn:Ea; cbn [bind]; try discriminate.
    pose proof (advance_split _ _ _ Ea) as Hsp. intros H.
    assert (Hkc : t_kind tok = KPunct ch).
    { destruct Hsp as [->|(-> & _ & _)]; exact Epk. }
    destruct Hsp as [->|(_ & _ & He)]; [|rewrite Hkc in He; discriminate].
    eapply (IH None _ ts1 (c ++ [tok])); [rewrite ETS, <- app_assoc; reflexivity| |apply push_cb_seg; exact Hs|exact H].
    left. right. exists c, tok. split; [reflexivity|left]. rewrite Hkc. cbn. exact E10.
Qed.
End Seg.

(* ---------------------------------------------------------------- comment assignment *)

Section Assign.
Variable TS : list token.
Notation LS := (line_seg TS).

Lemma pre_line_start l pending :
  l_start (fst (pre_line l pending)) = l_start l /\ l_token (fst (pre_line l pending)) = l_token l.
Proof. unfold pre_line. destruct (take_before _ _ _). cbn. auto. Qed.

Lemma post_line_start l sr :
  l_start (fst (post_line l sr)) = l_start l /\ l_token (fst (post_line l sr)) = l_token l.
Proof. unfold post_line. destruct (take_suffix _ _ _). cbn. auto. Qed.

Lemma pre_expr_seg x pending : LS x -> LS (fst (pre_expr x pending)).
Proof.
  destruct x as [l|b|c]; cbn [pre_expr].
  - intros H. pose proof (pre_line_start l pending) as (E1 & E2).
    destruct (pre_line l pending) as [l' p]. cbn in *. rewrite E1, E2. exact H.
  - intros _. destruct (take_before _ _ _). destruct (pre_paren _ _). destruct (pre_lines _ _ _).
    destruct (pre_paren _ _). exact I.
  - intros _. destruct (take_before _ _ _). exact I.
Qed.

Lemma post_expr_seg x sr : LS x -> LS (fst (post_expr x sr)).
Proof.
  destruct x as [l|b|c]; cbn [post_expr].
  - intros H. pose proof (post_line_start l sr) as (E1 & E2).
    destruct (post_line l sr) as [l' p]. cbn in *. rewrite E1, E2. exact H.
  - intros _. destruct (take_suffix _ _ _). destruct (post_paren _ _). destruct (post_lines _ _ _).
    destruct (post_paren _ _). exact I.
  - intros _. destruct (take_suffix _ _ _). exact I.
Qed.

Lemma pre_stmts_seg : forall l pending acc, Forall LS l -> Forall LS acc -> Forall LS (fst (pre_stmts l pending acc)).
Proof.
  induction l as [|x l IH]; intros pending acc Hl Hacc; cbn [pre_stmts].
  - cbn. apply Forall_frev'. exact Hacc.
  - inversion Hl as [|? ? Hx Hl']; subst. pose proof (pre_expr_seg x pending Hx) as H1.
    destruct (pre_expr x pending) as [x' p1]. apply IH; auto.
Qed.

Lemma post_stmts_seg : forall l sr acc, Forall LS l -> Forall LS acc -> Forall LS (fst (post_stmts l sr acc)).
Proof.
  induction l as [|x l IH]; intros sr acc Hl Hacc; cbn [post_stmts].
  - exact Hacc.
  - inversion Hl as [|? ? Hx Hl']; subst. pose proof (post_expr_seg x sr Hx) as H1.
    destruct (post_expr x sr) as [x' p1]. apply IH; auto.
Qed.

Lemma assign_comments_seg name stmts coms : Forall LS stmts -> Forall LS (f_stmt (assign_comments name stmts coms)).
Proof.
  intros Hs. unfold assign_comments.
  destruct (take_before _ _ _) as [fc p0].
  pose proof (pre_stmts_seg stmts p0 [] Hs (Forall_nil _)) as H1.
  destruct (pre_stmts stmts p0 []) as [stmts1 p1]. cbn [fst] in H1.
  pose proof (post_stmts_seg (frev stmts1) (frev (frev (filter_r c_suffix coms []))) []
                (Forall_frev' _ _ H1) (Forall_nil _)) as H2.
  destruct (post_stmts _ _ []) as [stmts2 s1]. exact H2.
Qed.
End Assign.

(* every top-level Line of the tree of [data] is a segment of the token stream of [data] *)
Theorem parse_lines_seg data syn : parse data = POk syn ->
  Forall (line_seg (fst (lex data))) (f_stmt syn).
Proof.
  unfold parse, parse_named. destruct (lex data) as [ts lend]. cbn [fst]. unfold parse_tokens.
  destruct ts as [|t0 ts]; [unfold fail_of; destruct lend; discriminate|].
  destruct (file_loop (parse_fuel (t0 :: ts)) lend None [] (t0 :: ts)) as [stmts rest| | |] eqn:Ef; try discriminate.
  intros [= <-]. apply assign_comments_seg.
  eapply (file_loop_seg (t0 :: ts) lend _ None [] (t0 :: ts) []); eauto.
  left. left. reflexivity.
Qed.
