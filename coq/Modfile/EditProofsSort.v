(* Sorting: sort.SliceStable as stable insertion, the three comparators of rule.go, and
   the C16 clause "every block is in its documented order". *)
From Coq Require Import Sorted Permutation.
From Verif.Base Require Import Bytes.
From Verif.Semver Require Import ProofsOrder ProofsStr ProofsCompare.
From Verif.Modfile Require Import EditModel EditOps EditSpec EditProofsTyped.

(* ---------------------------------------------------------------- stable insertion sort *)
Section Sort.
  Context {A : Type} (less : A -> A -> bool).
  (* "a is not after b": less b a does not hold *)
  Definition le_of (a b : A) : Prop := less b a = false.
  Hypothesis asym : forall a b, less a b = true -> less b a = false.

  Lemma insert_by_perm x l : Permutation (x :: l) (insert_by less x l).
  Proof.
    induction l as [|y r IH]; cbn; [reflexivity|].
    destruct (less y x); [|reflexivity].
    etransitivity; [apply perm_swap|]. constructor. exact IH.
  Qed.

  Lemma stable_sort_perm l : Permutation l (stable_sort less l).
  Proof.
    induction l as [|x r IH]; cbn; [constructor|].
    etransitivity; [|apply insert_by_perm]. constructor. exact IH.
  Qed.

  Lemma insert_by_hdrel a x l : le_of a x -> HdRel le_of a l -> HdRel le_of a (insert_by less x l).
  Proof.
    intros Hax Hl. destruct l as [|y r]; cbn; [constructor; exact Hax|].
    destruct (less y x); constructor; [inversion Hl; assumption | exact Hax].
  Qed.

  Lemma insert_by_sorted x l : Sorted le_of l -> Sorted le_of (insert_by less x l).
  Proof.
    induction l as [|y r IH]; intros Hs; cbn.
    - repeat constructor.
    - inversion Hs as [|? ? Hr Hh]; subst. destruct (less y x) eqn:E.
      + constructor; [apply IH; exact Hr|].
        apply insert_by_hdrel; [|exact Hh]. unfold le_of. apply asym. exact E.
      + constructor; [exact Hs|]. constructor. exact E.
  Qed.

  Lemma stable_sort_sorted l : Sorted le_of (stable_sort less l).
  Proof. induction l as [|x r IH]; cbn; [constructor|]. apply insert_by_sorted. exact IH. Qed.
End Sort.

Lemma Sorted_map {A B} (f : A -> B) (R : B -> B -> Prop) l :
  Sorted (fun a b => R (f a) (f b)) l -> Sorted R (map f l).
Proof.
  induction 1 as [|a l Hs IH Hh]; cbn; constructor; [exact IH|].
  destruct Hh; cbn; constructor. assumption.
Qed.

(* ---------------------------------------------------------------- the comparators are asymmetric *)
Lemma str_ltb_asym a b : str_ltb a b = true -> str_ltb b a = false.
Proof.
  unfold str_ltb. rewrite (str_cmp_antisym a b). destruct (str_cmp a b); cbn; congruence.
Qed.

Lemma toks_less_asym a b : toks_less a b = true -> toks_less b a = false.
Proof.
  revert b. induction a as [|x a IH]; intros [|y b]; cbn; try congruence.
  rewrite (str_eqb_sym y x). destruct (str_eqb x y) eqn:E; [apply IH|apply str_ltb_asym].
Qed.

Lemma semver_lt_asym a b : (semver_compare a b <? 0) = true -> (semver_compare b a <? 0) = false.
Proof.
  unfold semver_compare. rewrite (compare_antisym a b). intros H. apply Z.ltb_lt in H. apply Z.ltb_ge. lia.
Qed.

Lemma exclude_less_asym a b : exclude_less a b = true -> exclude_less b a = false.
Proof.
  unfold exclude_less.
  destruct a as [|pa [|va [|? ?]]]; destruct b as [|pb [|vb [|? ?]]]; try apply toks_less_asym.
  rewrite (str_eqb_sym pb pa). destruct (str_eqb pa pb); [apply semver_lt_asym | apply str_ltb_asym].
Qed.

Lemma retract_less_asym a b : retract_less a b = true -> retract_less b a = false.
Proof.
  unfold retract_less. destruct (retract_interval a) as [la ha], (retract_interval b) as [lb hb].
  unfold semver_compare. rewrite (compare_antisym la lb), (compare_antisym ha hb).
  destruct (Z.eqb_spec (Verif.Semver.Model.compare la lb) 0) as [E|E]; cbn.
  - rewrite E. cbn. intros H. apply Z.ltb_lt in H. apply Z.ltb_ge. lia.
  - destruct (Z.eqb_spec (- Verif.Semver.Model.compare la lb) 0) as [E'|E']; [lia|]. cbn.
    intros H. apply Z.ltb_lt in H. apply Z.ltb_ge. lia.
Qed.

(* ---------------------------------------------------------------- blocks_sorted *)

(* the comparator SortBlocks uses for block b of file f *)
Definition block_less (f : file) (b : hblock) : list str -> list str -> bool :=
  let sem := match f_go f with Some g => use_semantic_sort (go_vers g) | None => false end in
  if hd_is (hb_tok b) v_exclude && sem then exclude_less
  else if hd_is (hb_tok b) v_retract then retract_less
  else toks_less.

Lemma block_less_asym f b x y : block_less f b x y = true -> block_less f b y x = false.
Proof.
  unfold block_less. destruct (_ && _)%bool; [apply exclude_less_asym|].
  destruct (hd_is _ _); [apply retract_less_asym | apply toks_less_asym].
Qed.

Definition block_toks (s : syntax) (b : hblock) : list (list str) :=
  map (fun i => hl_tok (sget s i)) (hb_lines b).

Lemma sort_blocks_stmts f :
  stmts (fsyn (sort_blocks f)) =
  map (fun st => match st with
                 | SBlock b => SBlock (sort_block (heap (fsyn f)) (block_less f b) b)
                 | _ => st
                 end) (stmts (fsyn (remove_dups f true))).
Proof. reflexivity. Qed.

Lemma sort_blocks_heap f : heap (fsyn (sort_blocks f)) = heap (fsyn f).
Proof. reflexivity. Qed.

Theorem blocks_sorted f b :
  In (SBlock b) (stmts (fsyn (sort_blocks f))) ->
  Sorted (le_of (block_less f b)) (block_toks (fsyn (sort_blocks f)) b).
Proof.
  rewrite sort_blocks_stmts. intros Hin. apply in_map_iff in Hin. destruct Hin as [st [Hst _]].
  destruct st as [i|b0|c]; try discriminate. injection Hst as <-.
  unfold block_toks, sget. rewrite sort_blocks_heap.
  apply Sorted_map.
  exact (stable_sort_sorted
           (fun i j => block_less f b0 (hl_tok (hget (heap (fsyn f)) i)) (hl_tok (hget (heap (fsyn f)) j)))
           (fun a b => block_less_asym f b0 _ _) (hb_lines b0)).
Qed.

(* the bulk setters end with SortBlocks *)
Lemma set_require_sorts f l f' : set_require f l = Some f' -> exists g, f' = sort_blocks g.
Proof.
  unfold set_require. destruct (set_require_need l []); [|discriminate].
  destruct (set_require_loop _ _ _) as [[[s rs] need']|]; [|discriminate].
  intros [= <-]. eexists. reflexivity.
Qed.

Lemma set_require_separate_indirect_sorts f l f' :
  set_require_separate_indirect f l = Some f' -> exists g, f' = sort_blocks g.
Proof.
  unfold set_require_separate_indirect.
  repeat match goal with
         | |- context [match ?x with _ => _ end] => destruct x; try discriminate
         end.
  all: intros [= <-]; eexists; reflexivity.
Qed.

Lemma comparators_asymmetric a b :
  (toks_less a b = true -> toks_less b a = false) /\
  (exclude_less a b = true -> exclude_less b a = false) /\
  (retract_less a b = true -> retract_less b a = false).
Proof. split; [apply toks_less_asym | split; [apply exclude_less_asym | apply retract_less_asym]]. Qed.
