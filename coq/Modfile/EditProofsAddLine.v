(* C15: addLine preserves the shape of the tree and adds exactly one directive. *)
From Coq Require Import Permutation.
From Verif.Base Require Import Bytes.
From Verif.Modfile Require Import EditModel EditOps EditSpec EditProofsTyped EditProofsHeap EditProofsCoherent EditProofsCleanup.

Arguments hget : simpl never.
Arguments hset : simpl never.

Definition V (h : list hline) (L : list stmt) : list dview := flat_map (lview h) (stmts_lines L).

Lemma V_cons h st L : V h (st :: L) = flat_map (lview h) (stmt_lines st) ++ V h L.
Proof. unfold V. rewrite stmts_lines_cons, flat_map_app. reflexivity. Qed.

Lemma norm_args_coms v a l l' : hl_com l = hl_com l' -> norm_args v a l = norm_args v a l'.
Proof. intros H. unfold norm_args, is_indirect. rewrite H. reflexivity. Qed.

Lemma hd_is_eq t v : hd_is t v = true -> exists ts, t = v :: ts.
Proof. destruct t as [|x ts]; cbn; [discriminate|]. intros H. apply str_eqb_eq in H. subst. eauto. Qed.

Lemma insert_after_perm {A} k (x : A) l : Permutation (insert_after k x l) (x :: l).
Proof.
  revert k. induction l as [|y r IH]; intros k; [destruct k; reflexivity|].
  destruct k; cbn; [apply perm_swap|]. etransitivity; [apply perm_skip, IH | apply perm_swap].
Qed.

(* facts about the decision of addLine at one statement *)
Lemma add_line_at_append s h verb st b :
  add_line_at s h verb st = Some (PAppend b) -> st = SBlock b /\ hd_is (hb_tok b) verb = true.
Proof.
  destruct st as [j|b0|c]; cbn; try discriminate.
  - destruct h as [i| |]; try discriminate. destruct (Nat.eqb i j); [|discriminate]. destruct (hd_is _ _); discriminate.
  - destruct h as [i|bid|]; try discriminate.
    + destruct (pos_of i (hb_lines b0)); [|discriminate]. destruct (hd_is _ _); discriminate.
    + destruct (Nat.eqb bid (hb_id b0)); [|discriminate]. destruct (hd_is (hb_tok b0) verb) eqn:E; [|discriminate].
      intros [= <-]. auto.
Qed.

Lemma add_line_at_afterin s h verb st b k :
  add_line_at s h verb st = Some (PAfterIn b k) -> st = SBlock b /\ hd_is (hb_tok b) verb = true.
Proof.
  destruct st as [j|b0|c]; cbn; try discriminate.
  - destruct h as [i| |]; try discriminate. destruct (Nat.eqb i j); [|discriminate]. destruct (hd_is _ _); discriminate.
  - destruct h as [i|bid|]; try discriminate.
    + destruct (pos_of i (hb_lines b0)); [|discriminate]. destruct (hd_is (hb_tok b0) verb) eqn:E; [|discriminate].
      intros [= <- _]. auto.
    + destruct (Nat.eqb bid (hb_id b0)); [|discriminate]. destruct (hd_is _ _); discriminate.
Qed.

Lemma placed_frame_le h h' x : (length h <= length h')%nat -> hget h' (fst x) = hget h (fst x) -> placed h x -> placed h' x.
Proof. unfold placed. intros Hl ->. intros [H1 H2]. split; [lia | exact H2]. Qed.

Section AddLine.
  Context (s : syntax) (hint : hint) (verb : str) (args : list str).
  Hypothesis args_ne : args <> [].
  Let h := heap s.
  Let n : lid := length h.
  Let nview : dview := (n, verb, norm_args verb args dead_line).

  (* appending a line to the heap does not disturb the old ones *)
  Lemma V_app_new L l : Forall (placed h) (stmts_lines L) -> V (h ++ [l]) L = V h L.
  Proof.
    intros Hp. unfold V. apply flat_lview_frame. intros x Hx. rewrite Forall_forall in Hp.
    apply hget_app_old. apply (Hp x Hx).
  Qed.

  Lemma placed_app_new l x : placed h x -> placed (h ++ [l]) x.
  Proof.
    intros [H1 [H2 H3]]. unfold placed. rewrite hget_app_old by exact H1. rewrite app_length. cbn.
    split; [lia | split; assumption].
  Qed.

  Lemma lview_new_top :
    lview (h ++ [mkHL no_coms (verb :: args) false]) (n, None) = [nview].
  Proof.
    unfold lview; cbn [fst snd]. unfold n. rewrite hget_app_new. cbn [hl_tok]. unfold nview.
    f_equal.
  Qed.

  Lemma lview_new_in h0 : length h0 = n ->
    lview (h0 ++ [mkHL no_coms args true]) (n, @Some (list Z) verb) = [nview].
  Proof.
    intros Hl. unfold lview; cbn [fst snd]. rewrite <- Hl, hget_app_new. cbn [hl_tok].
    destruct args as [|a r] eqn:E; [congruence|]. unfold nview. rewrite Hl. f_equal.
  Qed.

  Lemma placed_new_top : placed (h ++ [mkHL no_coms (verb :: args) false]) (n, None).
  Proof.
    unfold placed; cbn [fst snd]. unfold n. rewrite hget_app_new, app_length. cbn.
    split; [lia | split; [reflexivity|]]. destruct args; [congruence | cbn; lia].
  Qed.

  Lemma placed_new_in h0 (v : list Z) : length h0 = n -> placed (h0 ++ [mkHL no_coms args true]) (n, @Some (list Z) v).
  Proof.
    intros Hl. unfold placed; cbn [fst snd]. rewrite <- Hl, hget_app_new, app_length. cbn.
    split; [lia | split; [reflexivity | exact I]].
  Qed.

  Record add_ok (todo : list stmt) (h' : list hline) (L' : list stmt) : Prop := {
    ao_len : length h' = S n;
    ao_frame : forall i, (i < n)%nat -> ~ In i (ids_of (stmts_lines todo)) -> hget h' i = hget h i;
    ao_view : Permutation (V h' L') (nview :: V h todo);
    ao_ids : Permutation (ids_of (stmts_lines L')) (n :: ids_of (stmts_lines todo));
    ao_placed : Forall (placed h') (stmts_lines L');
    ao_blocks : Forall block_ok L'
  }.

  (* placements *)
  Lemma add_ok_end : add_ok [] (h ++ [mkHL no_coms (verb :: args) false]) [SLine n].
  Proof.
    split.
    - rewrite app_length. cbn. unfold n. lia.
    - intros i Hi _. apply hget_app_old. exact Hi.
    - rewrite V_cons. cbn [stmt_lines flat_map]. rewrite lview_new_top. reflexivity.
    - reflexivity.
    - cbn. constructor; [apply placed_new_top | constructor].
    - constructor; [exact I | constructor].
  Qed.

  Lemma add_ok_new_after st rest :
    Forall (placed h) (stmts_lines (st :: rest)) -> Forall block_ok (st :: rest) ->
    add_ok (st :: rest) (h ++ [mkHL no_coms (verb :: args) false]) (st :: SLine n :: rest).
  Proof.
    intros Hp Hb. pose proof Hp as Hp0. rewrite stmts_lines_cons in Hp. apply Forall_app in Hp. destruct Hp as [Hp1 Hp2].
    split.
    - rewrite app_length. cbn. unfold n. lia.
    - intros i Hi _. apply hget_app_old. exact Hi.
    - rewrite !V_cons. cbn [stmt_lines flat_map app]. rewrite lview_new_top.
      rewrite (V_app_new rest _ Hp2).
      assert (E : flat_map (lview (h ++ [mkHL no_coms (verb :: args) false])) (stmt_lines st) = flat_map (lview h) (stmt_lines st)).
      { apply flat_lview_frame. intros x Hx. rewrite Forall_forall in Hp1. apply hget_app_old. apply (Hp1 x Hx). }
      rewrite E. cbn [app]. symmetry. apply Permutation_middle.
    - rewrite !stmts_lines_cons. unfold ids_of. rewrite !map_app. cbn [stmt_lines map fst app].
      symmetry. apply Permutation_middle.
    - rewrite !stmts_lines_cons. apply Forall_app. split.
      + eapply Forall_impl; [|exact Hp1]. intros x. apply placed_app_new.
      + cbn [stmt_lines app]. constructor; [apply placed_new_top|].
        eapply Forall_impl; [|exact Hp2]. intros x. apply placed_app_new.
    - inversion Hb; subst. constructor; [assumption|]. constructor; [exact I | assumption].
  Qed.

  Lemma in_ids_stmt_block (b : hblock) i : In i (ids_of (stmt_lines (SBlock b))) <-> In i (hb_lines b).
  Proof. cbn [stmt_lines]. apply in_ids_block. Qed.

  (* line j becomes a block of its own with the new line *)
  Lemma add_ok_convert j rest :
    NoDup (ids_of (stmts_lines (SLine j :: rest))) ->
    Forall (placed h) (stmts_lines (SLine j :: rest)) -> Forall block_ok (SLine j :: rest) ->
    hd_is (hl_tok (hget h j)) verb = true ->
    let l := hget h j in
    let h1 := hset h j (mkHL (hl_com l) (tl (hl_tok l)) true) in
    forall bid,
    add_ok (SLine j :: rest) (h1 ++ [mkHL no_coms args true])
           (SBlock (mkHB bid no_coms no_coms (firstn 1 (hl_tok l)) [j; n] no_coms) :: rest).
  Proof.
    intros Hnd Hp Hb Hhd l h1 bid.
    rewrite stmts_lines_cons in Hnd, Hp. cbn [stmt_lines app] in Hnd, Hp.
    inversion Hnd as [|? ? Hj_r Hnd_r]; subst. inversion Hp as [|? ? Hpj Hp_r]; subst.
    destruct Hpj as [Hj_len [Hj_inb Hj_tok]]. cbn [fst snd] in *.
    destruct (hd_is_eq _ _ Hhd) as [ts Hts]. fold l in Hts.
    assert (Hts_ne : ts <> []).
    { intros ->. fold l in Hj_tok. rewrite Hts in Hj_tok. cbn in Hj_tok. lia. }
    assert (Hlen1 : length h1 = n) by (unfold h1; apply hset_length).
    assert (Hfr : forall i, i <> j -> hget (h1 ++ [mkHL no_coms args true]) i = hget h i \/ (n <= i)%nat).
    { intros i Hi. destruct (Nat.lt_ge_cases i n) as [Hlt|Hge]; [left|right; exact Hge].
      rewrite hget_app_old by (rewrite Hlen1; exact Hlt). unfold h1. apply hget_hset_other. congruence. }
    assert (Hrest : forall x, In x (stmts_lines rest) -> hget (h1 ++ [mkHL no_coms args true]) (fst x) = hget h (fst x)).
    { intros x Hx. rewrite Forall_forall in Hp_r. destruct (Hp_r x Hx) as [Hxl _].
      destruct (Hfr (fst x)) as [E|E]; [|exact E | unfold n in E; lia].
      intros Heq. apply Hj_r. rewrite <- Heq. unfold ids_of. apply in_map. exact Hx. }
    split.
    - rewrite app_length, Hlen1. cbn. lia.
    - intros i Hi Hni. destruct (Hfr i) as [E|E]; [|exact E | lia].
      intros Heq. apply Hni. rewrite stmts_lines_cons. left. symmetry. exact Heq.
    - rewrite !V_cons. cbn [stmt_lines hb_lines hb_tok map flat_map app].
      rewrite Hts. cbn [firstn hd].
      rewrite (lview_new_in h1 Hlen1).
      assert (Ej : lview (h1 ++ [mkHL no_coms args true]) (j, @Some (list Z) verb) = lview h (j, None)).
      { unfold lview; cbn [fst snd]. rewrite hget_app_old by (rewrite Hlen1; exact Hj_len).
        unfold h1. rewrite hget_hset_same by exact Hj_len. cbn [hl_tok]. fold l. rewrite Hts. cbn [tl].
        destruct ts as [|t ts']; [congruence|]. reflexivity. }
      rewrite Ej. unfold V at 1. rewrite (flat_lview_frame h _ _ Hrest). fold (V h rest).
      rewrite !app_nil_r.
      unfold lview at 1 2; cbn [fst snd]. fold l. rewrite Hts.
      destruct ts as [|t ts']; [congruence|]. cbn [app]. apply perm_swap.
    - rewrite !stmts_lines_cons. unfold ids_of. rewrite !map_app. cbn [stmt_lines hb_lines map fst app].
      apply perm_swap.
    - rewrite stmts_lines_cons. cbn [stmt_lines hb_lines hb_tok map app]. rewrite Hts. cbn [firstn hd].
      constructor; [|constructor].
      + unfold placed; cbn [fst snd]. rewrite hget_app_old by (rewrite Hlen1; exact Hj_len).
        rewrite app_length, Hlen1. unfold h1. rewrite hget_hset_same by exact Hj_len. cbn.
        split; [unfold n; lia | split; [reflexivity | exact I]].
      + apply (placed_new_in h1 verb Hlen1).
      + apply Forall_forall. intros x Hx. rewrite Forall_forall in Hp_r.
        apply (placed_frame_le h).
        * rewrite app_length, Hlen1. unfold n. lia.
        * exact (Hrest x Hx).
        * apply Hp_r. exact Hx.
    - inversion Hb; subst. constructor; [|assumption]. split; [|reflexivity].
      cbn [hb_tok]. rewrite Hts. reflexivity.
  Qed.

  Lemma flat_lview_perm h0 (v : list Z) (a b : list lid) :
    Permutation a b ->
    Permutation (flat_map (lview h0) (map (fun i => (i, @Some (list Z) v)) a))
                (flat_map (lview h0) (map (fun i => (i, @Some (list Z) v)) b)).
  Proof. intros H. apply Permutation_flat_map. apply Permutation_map. exact H. Qed.

  (* the new line joins block b *)
  Lemma add_ok_in_block b rest lines' :
    Forall (placed h) (stmts_lines (SBlock b :: rest)) -> Forall block_ok (SBlock b :: rest) ->
    hd_is (hb_tok b) verb = true ->
    Permutation lines' (n :: hb_lines b) ->
    add_ok (SBlock b :: rest) (h ++ [mkHL no_coms args true]) (SBlock (block_with_lines b lines') :: rest).
  Proof.
    intros Hp Hb Hhd Hperm.
    rewrite stmts_lines_cons in Hp. apply Forall_app in Hp. destruct Hp as [Hp1 Hp2].
    destruct (hd_is_eq _ _ Hhd) as [ts Hts].
    assert (Hv : hd [] (hb_tok b) = verb) by (rewrite Hts; reflexivity).
    assert (Hold : forall x, placed h x -> hget (h ++ [mkHL no_coms args true]) (fst x) = hget h (fst x)).
    { intros x [Hx _]. apply hget_app_old. exact Hx. }
    split.
    - rewrite app_length. cbn. unfold n. lia.
    - intros i Hi _. apply hget_app_old. exact Hi.
    - rewrite !V_cons. cbn [stmt_lines block_with_lines hb_lines hb_tok]. rewrite Hv.
      rewrite (V_app_new rest _ Hp2).
      rewrite (flat_lview_perm _ verb _ _ Hperm). cbn [map flat_map].
      rewrite (lview_new_in h eq_refl). cbn [app]. apply perm_skip. apply Permutation_app_tail.
      rewrite (flat_lview_frame h); [reflexivity|].
      intros x Hx. apply Hold. rewrite Forall_forall in Hp1. apply Hp1. cbn [stmt_lines]. rewrite Hv. exact Hx.
    - rewrite !stmts_lines_cons. unfold ids_of. rewrite !map_app.
      cbn [stmt_lines block_with_lines hb_lines hb_tok]. rewrite !map_map. cbn [fst]. rewrite !map_id.
      rewrite Hperm. reflexivity.
    - rewrite stmts_lines_cons. apply Forall_app. split.
      + cbn [stmt_lines block_with_lines hb_lines hb_tok]. rewrite Hv.
        apply Forall_forall. intros x Hx. apply in_map_iff in Hx. destruct Hx as [i [<- Hi]].
        apply (Permutation_in _ Hperm) in Hi. destruct Hi as [<-|Hi].
        * apply (placed_new_in h verb eq_refl).
        * apply placed_app_new. rewrite Forall_forall in Hp1. apply Hp1. cbn [stmt_lines]. rewrite Hv.
          apply (in_map (fun i => (i, @Some (list Z) verb))). exact Hi.
      + eapply Forall_impl; [|exact Hp2]. intros x. apply placed_app_new.
    - inversion Hb; subst. constructor; assumption.
  Qed.

  Lemma add_ok_skip st rest h' L' :
    NoDup (ids_of (stmts_lines (st :: rest))) ->
    Forall (placed h) (stmts_lines (st :: rest)) -> Forall block_ok (st :: rest) ->
    add_ok rest h' L' -> add_ok (st :: rest) h' (st :: L').
  Proof.
    intros Hnd Hp Hb [A1 A2 A3 A4 A5 A6].
    rewrite stmts_lines_cons in Hnd, Hp. unfold ids_of in Hnd. rewrite map_app in Hnd.
    apply Forall_app in Hp. destruct Hp as [Hp1 Hp2].
    assert (Hst : forall x, In x (stmt_lines st) -> hget h' (fst x) = hget h (fst x)).
    { intros x Hx. rewrite Forall_forall in Hp1. destruct (Hp1 x Hx) as [Hl _]. apply A2; [exact Hl|].
      intros Hin. eapply (NoDup_app_disj _ _ (fst x) Hnd); [apply in_map; exact Hx | exact Hin]. }
    split.
    - exact A1.
    - intros i Hi Hni. apply A2; [exact Hi|]. intros Hin. apply Hni. rewrite stmts_lines_cons. unfold ids_of.
      rewrite map_app. apply in_app_iff. right. exact Hin.
    - rewrite !V_cons. rewrite (flat_lview_frame h h' _ Hst).
      etransitivity; [apply Permutation_app_head; exact A3|]. symmetry. apply Permutation_middle.
    - rewrite !stmts_lines_cons. unfold ids_of. rewrite !map_app.
      etransitivity; [apply Permutation_app_head; exact A4|]. symmetry. apply Permutation_middle.
    - rewrite stmts_lines_cons. apply Forall_app. split; [|exact A5].
      apply Forall_forall. intros x Hx. apply (placed_frame_le h); [unfold n in A1; lia | apply Hst; exact Hx|].
      rewrite Forall_forall in Hp1. apply Hp1. exact Hx.
    - inversion Hb; subst. constructor; assumption.
  Qed.

  Lemma add_loop_ok : forall todo done,
    NoDup (ids_of (stmts_lines todo)) -> Forall (placed h) (stmts_lines todo) -> Forall block_ok todo ->
    exists L', stmts (fst (add_line_loop s hint verb args done todo)) = rev done ++ L'
               /\ snd (add_line_loop s hint verb args done todo) = n
               /\ add_ok todo (heap (fst (add_line_loop s hint verb args done todo))) L'.
  Proof.
    induction todo as [|st rest IH]; intros done Hnd Hp Hb.
    - cbn. exists [SLine n]. split; [reflexivity|]. split; [reflexivity|]. apply add_ok_end.
    - cbn [add_line_loop].
      destruct (add_line_at s hint verb st) as [[| j | b | b k]|] eqn:Hat.
      + cbn. exists (st :: SLine n :: rest). split; [reflexivity|]. split; [reflexivity|].
        apply add_ok_new_after; assumption.
      + apply add_line_at_convert in Hat. destruct Hat as [-> [_ Hhd]].
        cbn. unfold sget. rewrite !hset_length. fold h.
        eexists. split; [reflexivity|]. split; [reflexivity|].
        apply (add_ok_convert j rest Hnd Hp Hb Hhd).
      + apply add_line_at_append in Hat. destruct Hat as [-> Hhd].
        cbn. eexists. split; [reflexivity|]. split; [reflexivity|].
        apply (add_ok_in_block b rest _ Hp Hb Hhd). symmetry. apply Permutation_cons_append.
      + apply add_line_at_afterin in Hat. destruct Hat as [-> Hhd].
        cbn. eexists. split; [reflexivity|]. split; [reflexivity|].
        apply (add_ok_in_block b rest _ Hp Hb Hhd). apply insert_after_perm.
      + pose proof Hnd as Hnd0. pose proof Hp as Hp0.
        rewrite stmts_lines_cons in Hnd, Hp. unfold ids_of in Hnd. rewrite map_app in Hnd.
        apply Forall_app in Hp. inversion Hb; subst.
        destruct (IH (st :: done) (NoDup_app_r _ _ Hnd) (proj2 Hp) H2) as [L' [E1 [E2 E3]]].
        exists (st :: L'). split; [rewrite E1; cbn [rev]; rewrite <- app_assoc; reflexivity|].
        split; [exact E2|]. apply add_ok_skip; assumption.
  Qed.
End AddLine.

Lemma syntax_ok_of_add_ok s todo_done h' L' s' verb args :
  SyntaxOk s -> stmts s = todo_done ->
  add_ok s verb args (stmts s) h' L' ->
  heap s' = h' -> stmts s' = L' ->
  SyntaxOk s' /\
  Permutation (tree_view s') ((length (heap s), verb, norm_args verb args dead_line) :: tree_view s).
Proof.
  intros [H1 H2 H3] _ [A1 A2 A3 A4 A5 A6] Hh HL. split.
  - split.
    + rewrite tree_lines_stmts, HL. eapply Permutation_NoDup; [symmetry; exact A4|].
      constructor; [|exact H1]. intros Hin. apply in_map_iff in Hin. destruct Hin as [x [Hx Hin]].
      rewrite Forall_forall in H2. destruct (H2 x Hin) as [Hl _]. rewrite Hx in Hl. lia.
    + rewrite tree_lines_stmts, HL. unfold line_placed, sget. rewrite Hh. exact A5.
    + rewrite HL. exact A6.
  - unfold tree_view. rewrite !tree_lines_stmts, HL.
    change (flat_map (line_view s') (stmts_lines L')) with (flat_map (lview (heap s')) (stmts_lines L')).
    rewrite Hh. exact A3.
Qed.

Theorem add_line_syntax s hint verb args :
  SyntaxOk s -> args <> [] ->
  SyntaxOk (fst (add_line s hint verb args)) /\
  Permutation (tree_view (fst (add_line s hint verb args)))
              ((heap_len s, verb, norm_args verb args dead_line) :: tree_view s).
Proof.
  intros Hs Ha. pose proof Hs as [H1 H2 H3]. unfold add_line.
  destruct (match hint with Some x => Some x | None => find_hint s verb (rev (stmts s)) end) as [x|].
  - destruct (add_loop_ok s x verb args Ha (stmts s) [] H1 H2 H3) as [L' [E1 [E2 E3]]].
    cbn [rev app] in E1.
    eapply (syntax_ok_of_add_ok s _ _ L' _ verb args Hs eq_refl E3 eq_refl E1).
  - cbn [fst salloc].
    assert (Hadd : add_ok s verb args (stmts s) (heap s ++ [mkHL no_coms (verb :: args) false]) (stmts s ++ [SLine (length (heap s))])).
    { split.
      - rewrite app_length. cbn. lia.
      - intros i Hi _. apply hget_app_old. exact Hi.
      - unfold V. unfold stmts_lines. rewrite flat_map_app. fold (stmts_lines (stmts s)). rewrite flat_map_app.
        cbn [flat_map stmt_lines app]. rewrite (lview_new_top s verb args), app_nil_r.
        fold (V (heap s ++ [mkHL no_coms (verb :: args) false]) (stmts s)).
        rewrite (V_app_new s (stmts s) _ H2). symmetry. apply Permutation_cons_append.
      - unfold stmts_lines. rewrite flat_map_app. unfold ids_of. rewrite map_app. cbn.
        symmetry. apply Permutation_cons_append.
      - unfold stmts_lines. rewrite flat_map_app. apply Forall_app. split.
        + eapply Forall_impl; [|exact H2]. intros y. apply placed_app_new.
        + cbn. constructor; [apply (placed_new_top s verb args Ha) | constructor].
      - apply Forall_app. split; [exact H3 | repeat constructor]. }
    eapply (syntax_ok_of_add_ok s _ _ _ _ verb args Hs eq_refl Hadd); reflexivity.
Qed.
