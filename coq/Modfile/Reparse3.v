(* Reparse, part 3: directive items.  An [item] is one directive with its values; [renders verb
   args it] says that the tokens (verb, args) are the canonical text of the valid item [it]
   (AutoQuote'd paths, canonical versions: what the edit operations write and what the
   directive layer writes back), and [add_item_*] that File.add / WorkFile.add, given such a
   line, append exactly that item and leave the tokens alone. *)
From Verif.Base Require Import Bytes Utf8 Strconv QuoteProofs.
From Verif.Semver Require Import Spec Model.
From Verif.Module Require Import Path.
From Verif.Modfile Require Import Syntax Lex Parse Print Directives ProofsLex ProofsDirectives RoundRows
  RoundTree RoundQuote RoundSemver RoundDir1 RoundDir2 RoundDir3 RoundWork.

Inductive item :=
| ItModule (p dep : str)
| ItGo (v : str)
| ItToolchain (v : str)
| ItGodebug (k v : str)
| ItRequire (p v : str) (ind : bool)
| ItExclude (p v : str)
| ItReplace (op ov np nv : str)
| ItRetract (lo hi rat : str)
| ItTool (p : str)
| ItUse (p : str).

(* a string that is written as it is and read back as one token with the same value *)
Definition plain (u : str) : Prop := path_ok u /\ must_quote u = false.

(* a module path with a version that the strict parser accepts and leaves alone *)
Definition pv_ok (p v : str) : Prop :=
  path_ok p /\ is_valid v = true /\ canonical_version v = v /\
  exists pm, module_path_major p = Some pm /\ check_path_major v pm = true.

Definition replace_ok (op ov np nv : str) : Prop :=
  path_ok op /\ path_ok np /\
  (exists pm, module_path_major op = Some pm /\
     (ov = [] \/ (is_valid ov = true /\ canonical_version ov = ov /\ check_path_major ov pm = true))) /\
  ((nv = [] /\ is_directory_path np = true /\ contains_byte 92 np = false) \/
   (is_valid nv = true /\ canonical_version nv = nv /\ is_directory_path np = false)).

Definition replace_toks (op ov np nv : str) : list str :=
  [auto_quote op] ++ (if Parse.is_nil ov then [] else [ov]) ++ [B "=>"; auto_quote np]
  ++ (if Parse.is_nil nv then [] else [nv]).

Definition renders (verb : str) (args : list str) (it : item) : Prop :=
  match it with
  | ItModule p _ => verb = B "module" /\ args = [auto_quote p] /\ path_ok p
  | ItGo v => verb = B "go" /\ args = [v] /\ go_version_re v = true /\ plain v
  | ItToolchain v => verb = B "toolchain" /\ args = [v] /\ toolchain_re v = true /\ plain v
  | ItGodebug k v =>
      verb = B "godebug" /\ args = [k ++ [61] ++ v] /\ plain (k ++ [61] ++ v) /\
      contains_any (k ++ [61] ++ v) [34; 96; 39; 44] = false /\ ~ In 61 k
  | ItRequire p v _ => verb = B "require" /\ args = [auto_quote p; v] /\ pv_ok p v
  | ItExclude p v => verb = B "exclude" /\ args = [auto_quote p; v] /\ pv_ok p v
  | ItReplace op ov np nv => verb = B "replace" /\ args = replace_toks op ov np nv /\ replace_ok op ov np nv
  | ItRetract lo hi _ =>
      verb = B "retract" /\ is_valid lo = true /\ is_valid hi = true /\
      ((lo = hi /\ args = [lo]) \/ args = [B "["; lo; B ","; hi; B "]"])
  | ItTool p => verb = B "tool" /\ args = [auto_quote p] /\ path_ok p
  | ItUse p => verb = B "use" /\ args = [auto_quote p] /\ path_ok p
  end.

(* what File.add reads from the comments *)
Definition ctx_ok (blk : option line_block) (l : line) (it : item) : Prop :=
  match it with
  | ItModule _ dep => parse_deprecation blk l = dep
  | ItRequire _ _ ind => is_indirect l = ind
  | ItRetract _ _ rat => directive_comment blk l = rat
  | _ => True
  end.

Definition push (it : item) (ref : line_ref) (f : file) : file :=
  match it with
  | ItModule p dep => with_module f (Some (mkModuleD (mkMV p []) dep ref))
  | ItGo v => with_go f (Some (mkGoD v ref))
  | ItToolchain v => with_toolchain f (Some (mkToolchainD v ref))
  | ItGodebug k v => with_godebug f (fd_godebug f ++ [mkGodebugD k v ref])
  | ItRequire p v ind => with_require f (fd_require f ++ [mkRequireD (mkMV p v) ind ref])
  | ItExclude p v => with_exclude f (fd_exclude f ++ [mkExcludeD (mkMV p v) ref])
  | ItReplace op ov np nv => with_replace f (fd_replace f ++ [mkReplaceD (mkMV op ov) (mkMV np nv) ref])
  | ItRetract lo hi rat => with_retract f (fd_retract f ++ [mkRetractD lo hi rat ref])
  | ItTool p => with_tool f (fd_tool f ++ [mkToolD p ref])
  | ItUse _ => f
  end.

Definition fresh (it : item) (f : file) : Prop :=
  match it with
  | ItModule _ _ => fd_module f = None
  | ItGo _ => fd_go f = None
  | ItToolchain _ => fd_toolchain f = None
  | _ => True
  end.

Definition mod_item (it : item) : Prop := match it with ItUse _ => False | _ => True end.

(* ---------------------------------------------------------------- tokens read back *)

Lemma path_string p : path_ok p -> parse_string (auto_quote p) = Some (p, auto_quote p).
Proof. intros (Hb & Hn & Hl). exact (proj1 (proj2 (auto_quote_token p Hb Hn Hl))). Qed.

Lemma plain_auto_quote u : plain u -> auto_quote u = u.
Proof. intros (_ & H). unfold auto_quote. rewrite H. reflexivity. Qed.

Lemma plain_string u : plain u -> parse_string u = Some (u, u).
Proof. intros H. pose proof (path_string u (proj1 H)) as E. rewrite (plain_auto_quote u H) in E. exact E. Qed.

Lemma version_nofix p v : is_valid v = true -> canonical_version v = v -> parse_version None p v = (v, Some v).
Proof.
  intros Hv Hc. unfold parse_version. rewrite (proj1 (valid_token v Hv)). rewrite Hc.
  destruct (valid_first v Hv) as (r & ->). reflexivity.
Qed.

Lemma version_dontfix p v : is_valid v = true -> parse_version dont_fix p v = (v, Some v).
Proof. intros Hv. unfold parse_version, dont_fix. rewrite (proj1 (valid_token v Hv)). reflexivity. Qed.

Lemma cut_eq_app k v : ~ In 61 k -> cut_eq (k ++ 61 :: v) = Some (k, v).
Proof.
  induction k as [|c k IH]; intros H; cbn [app cut_eq]; [reflexivity|].
  destruct (c =? 61) eqn:E; [exfalso; apply H; left; apply Z.eqb_eq in E; auto|].
  rewrite IH by (intros Hin; apply H; right; exact Hin). reflexivity.
Qed.

Lemma valid_neq v (t : str) : is_valid v = true -> hd 0 t <> 118 -> str_eqb v t = false.
Proof.
  intros Hv Ht. destruct (valid_first v Hv) as (r & ->). destruct (str_eqb (118 :: r) t) eqn:E; [|reflexivity].
  apply str_eqb_eq in E. subst t. cbn in Ht. congruence.
Qed.

(* ---------------------------------------------------------------- File.add on a rendered item *)

Ltac verbs :=
  repeat match goal with
         | |- context [is_verb (B ?a) ?b] =>
             let r := eval vm_compute in (is_verb (B a) b) in change (is_verb (B a) b) with r
         end.

Lemma retract_interval_ok lo hi args : is_valid lo = true -> is_valid hi = true ->
  ((lo = hi /\ args = [lo]) \/ args = [B "["; lo; B ","; hi; B "]"]) ->
  parse_version_interval dont_fix [] args = (args, Some (lo, hi, [])).
Proof.
  intros Hlo Hhi [(<- & ->)| ->]; unfold parse_version_interval.
  - rewrite (valid_neq lo lparen_s Hlo) by (cbn; lia). rewrite (valid_neq lo lbrack Hlo) by (cbn; lia). cbn [negb].
    rewrite (version_dontfix [] lo Hlo). reflexivity.
  - change (str_eqb (B "[") lparen_s) with false. change (str_eqb (B "[") lbrack) with true. cbn [negb].
    rewrite (version_dontfix [] lo Hlo). change (str_eqb (B ",") comma) with true. cbn iota.
    rewrite (version_dontfix [] hi Hhi). change (str_eqb (B "]") rbrack) with true. reflexivity.
Qed.

Lemma replace_parse ref verb op ov np nv : replace_ok op ov np nv ->
  parse_replace None verb ref (replace_toks op ov np nv) =
  (replace_toks op ov np nv, Some (mkReplaceD (mkMV op ov) (mkMV np nv) ref)).
Proof.
  intros (Hop & Hnp & (pm & Hpm & Hov) & Hnv). unfold replace_toks.
  destruct Hov as [->|(Hv1 & Hc1 & Hk1)].
  - cbn [Parse.is_nil app]. destruct Hnv as [(-> & Hd & Hb)|(Hv2 & Hc2 & Hd)].
    + cbn [Parse.is_nil app]. unfold parse_replace. change (str_eqb (B "=>") (B "=>")) with true.
      cbn -[auto_quote parse_string module_path_major is_directory_path contains_byte parse_version check_path_major B].
      change (str_eqb (B "=>") (B "=>")) with true. cbn [negb].
      rewrite (path_string op Hop), Hpm.
      cbn -[auto_quote parse_string module_path_major is_directory_path contains_byte parse_version check_path_major B].
      rewrite (path_string np Hnp), Hd, Hb. reflexivity.
    + assert (Hn : Parse.is_nil nv = false) by (destruct (valid_first nv Hv2) as (r & ->); reflexivity). rewrite Hn.
      cbn [app]. unfold parse_replace. change (str_eqb (B "=>") (B "=>")) with true.
      cbn -[auto_quote parse_string module_path_major is_directory_path contains_byte parse_version check_path_major B].
      change (str_eqb (B "=>") (B "=>")) with true. cbn [negb].
      rewrite (path_string op Hop), Hpm.
      cbn -[auto_quote parse_string module_path_major is_directory_path contains_byte parse_version check_path_major B].
      rewrite (path_string np Hnp). rewrite (version_nofix np nv Hv2 Hc2), Hd. reflexivity.
  - assert (Hn1 : Parse.is_nil ov = false) by (destruct (valid_first ov Hv1) as (r & ->); reflexivity). rewrite Hn1.
    assert (Ha : str_eqb ov (B "=>") = false) by (apply valid_neq; [exact Hv1|cbn; lia]).
    destruct Hnv as [(-> & Hd & Hb)|(Hv2 & Hc2 & Hd)].
    + cbn [Parse.is_nil app]. unfold parse_replace.
      cbn -[auto_quote parse_string module_path_major is_directory_path contains_byte parse_version check_path_major B].
      rewrite Ha. change (str_eqb (B "=>") (B "=>")) with true.
      cbn -[auto_quote parse_string module_path_major is_directory_path contains_byte parse_version check_path_major B].
      rewrite (path_string op Hop), Hpm.
      cbn -[auto_quote parse_string module_path_major is_directory_path contains_byte parse_version check_path_major B].
      rewrite (version_nofix op ov Hv1 Hc1), Hk1.
      cbn -[auto_quote parse_string module_path_major is_directory_path contains_byte parse_version check_path_major B].
      rewrite (path_string np Hnp), Hd, Hb. reflexivity.
    + assert (Hn : Parse.is_nil nv = false) by (destruct (valid_first nv Hv2) as (r & ->); reflexivity). rewrite Hn.
      cbn [app]. unfold parse_replace.
      cbn -[auto_quote parse_string module_path_major is_directory_path contains_byte parse_version check_path_major B].
      rewrite Ha. change (str_eqb (B "=>") (B "=>")) with true.
      cbn -[auto_quote parse_string module_path_major is_directory_path contains_byte parse_version check_path_major B].
      rewrite (path_string op Hop), Hpm.
      cbn -[auto_quote parse_string module_path_major is_directory_path contains_byte parse_version check_path_major B].
      rewrite (version_nofix op ov Hv1 Hc1), Hk1.
      cbn -[auto_quote parse_string module_path_major is_directory_path contains_byte parse_version check_path_major B].
      rewrite (path_string np Hnp). rewrite (version_nofix np nv Hv2 Hc2), Hd. reflexivity.
Qed.

Lemma add_item f blk l ref verb args it :
  renders verb args it -> ctx_ok blk l it -> fresh it f -> mod_item it ->
  add true None f blk l ref verb args = ok_step (push it ref f) args.
Proof.
  intros Hr Hc Hf Hm. destruct it as [p dep|v|v|k v|p v ind|p v|op ov np nv|lo hi rat|p|p]; cbn [renders ctx_ok fresh push] in *.
  - destruct Hr as (-> & -> & Hp). unfold add. verbs. cbn [negb andb orb]. rewrite Hf, (path_string p Hp), Hc. reflexivity.
  - destruct Hr as (-> & -> & Hre & _). unfold add. verbs. cbn [negb andb orb]. unfold add_go. rewrite Hf, Hre. reflexivity.
  - destruct Hr as (-> & -> & Hre & _). unfold add. verbs. cbn [negb andb orb]. unfold add_toolchain. rewrite Hf, Hre. reflexivity.
  - destruct Hr as (-> & -> & _ & Hca & Hk). unfold add. verbs. cbn [negb andb orb]. unfold add_godebug.
    rewrite Hca. cbn [app]. rewrite (cut_eq_app k v Hk). reflexivity.
  - destruct Hr as (-> & -> & Hp & Hv & Hcv & pm & Hpm & Hck). unfold add. verbs. cbn [negb andb orb].
    rewrite (path_string p Hp), (version_nofix p v Hv Hcv), Hpm, Hck, Hc. reflexivity.
  - destruct Hr as (-> & -> & Hp & Hv & Hcv & pm & Hpm & Hck). unfold add. verbs. cbn [negb andb orb].
    rewrite (path_string p Hp), (version_nofix p v Hv Hcv), Hpm, Hck. reflexivity.
  - destruct Hr as (-> & -> & Hok). unfold add. verbs. cbn [negb andb orb]. rewrite (replace_parse ref _ op ov np nv Hok). reflexivity.
  - destruct Hr as (-> & Hlo & Hhi & Hargs). unfold add. verbs. cbn [negb andb orb].
    rewrite (retract_interval_ok lo hi args Hlo Hhi Hargs). cbn [Parse.is_nil negb andb]. rewrite Hc. reflexivity.
  - destruct Hr as (-> & -> & Hp). unfold add. verbs. cbn [negb andb orb]. rewrite (path_string p Hp). reflexivity.
  - contradiction.
Qed.

(* ---------------------------------------------------------------- the values of a list of items *)

Definition it_module it := match it with ItModule p dep => [(p, @nil Z, dep)] | _ => [] end.
Definition it_go it := match it with ItGo v => [v] | _ => [] end.
Definition it_tc it := match it with ItToolchain v => [v] | _ => [] end.
Definition it_godebug it := match it with ItGodebug k v => [(k, v)] | _ => [] end.
Definition it_require it := match it with ItRequire p v ind => [(p, v, ind)] | _ => [] end.
Definition it_exclude it := match it with ItExclude p v => [(p, v)] | _ => [] end.
Definition it_replace it := match it with ItReplace a b c d => [(a, b, c, d)] | _ => [] end.
Definition it_retract it := match it with ItRetract lo hi rat => [(lo, hi, rat)] | _ => [] end.
Definition it_tool it := match it with ItTool p => [p] | _ => [] end.
Definition it_use it := match it with ItUse p => [p] | _ => [] end.

Definition vals_of (its : list item) :=
  (hd_error (flat_map it_module its), hd_error (flat_map it_go its), hd_error (flat_map it_tc its),
   flat_map it_godebug its, flat_map it_require its, flat_map it_exclude its, flat_map it_replace its,
   flat_map it_retract its, flat_map it_tool its).

(* at most one module, go and toolchain directive *)
Definition singles (its : list item) : Prop :=
  (length (flat_map it_module its) <= 1)%nat /\ (length (flat_map it_go its) <= 1)%nat /\
  (length (flat_map it_tc its) <= 1)%nat.

Lemma singles_prefix a b : singles (a ++ b) -> singles a.
Proof. unfold singles. rewrite !flat_map_app, !app_length. lia. Qed.

Lemma hd_error_nil_len {A} (l : list A) : hd_error l = None -> l = [].
Proof. destruct l; [reflexivity|discriminate]. Qed.

Lemma fresh_of f done it : vals f = vals_of done -> singles (done ++ [it]) -> fresh it f.
Proof.
  intros Hv (S1 & S2 & S3). unfold vals, vals_of in Hv. injection Hv as V1 V2 V3 _ _ _ _ _ _.
  rewrite !flat_map_app, !app_length in S1, S2, S3.
  destruct it; cbn [fresh]; try exact I; cbn [flat_map it_module it_go it_tc app length] in *.
  - destruct (flat_map it_module done); [|cbn in S1; lia]. destruct (fd_module f); [discriminate|reflexivity].
  - destruct (flat_map it_go done); [|cbn in S2; lia]. destruct (fd_go f); [discriminate|reflexivity].
  - destruct (flat_map it_tc done); [|cbn in S3; lia]. destruct (fd_toolchain f); [discriminate|reflexivity].
Qed.

Lemma push_vals f done it ref : vals f = vals_of done -> fresh it f -> mod_item it ->
  vals (push it ref f) = vals_of (done ++ [it]).
Proof.
  intros Hv Hf Hm. unfold vals, vals_of in *. injection Hv as V1 V2 V3 V4 V5 V6 V7 V8 V9.
  rewrite !flat_map_app.
  destruct it; cbn [fresh mod_item] in *; try contradiction;
    cbn [push with_module with_go with_toolchain with_godebug with_require with_exclude with_replace with_retract with_tool
         fd_module fd_go fd_toolchain fd_godebug fd_require fd_exclude fd_replace fd_retract fd_tool
         flat_map it_module it_go it_tc it_godebug it_require it_exclude it_replace it_retract it_tool app];
    rewrite ?app_nil_r, ?map_app; cbn [map option_map md_mod md_deprecated mv_path mv_version go_version tc_name
      gd_key gd_value rq_mod rq_indirect ex_mod rep_vals rp_old rp_new rt_low rt_high rt_rationale tl_path];
    try (rewrite V1, V2, V3, V4, V5, V6, V7, V8, V9; reflexivity).
  - rewrite Hf in V1. cbn in V1. symmetry in V1. apply hd_error_nil_len in V1. rewrite V1.
    rewrite V2, V3, V4, V5, V6, V7, V8, V9. reflexivity.
  - rewrite Hf in V2. cbn in V2. symmetry in V2. apply hd_error_nil_len in V2. rewrite V2.
    rewrite V1, V3, V4, V5, V6, V7, V8, V9. reflexivity.
  - rewrite Hf in V3. cbn in V3. symmetry in V3. apply hd_error_nil_len in V3. rewrite V3.
    rewrite V1, V2, V4, V5, V6, V7, V8, V9. reflexivity.
Qed.

Lemma push_wf f it ref verb args : wf_file f -> renders verb args it -> fresh it f -> wf_file (push it ref f).
Proof.
  intros (W1 & W2 & W3 & W4 & W5 & W6) Hr Hf. unfold wf_file.
  destruct it; cbn [renders fresh] in *;
    cbn [push with_module with_go with_toolchain with_godebug with_require with_exclude with_replace with_retract with_tool
         fd_module fd_go fd_toolchain fd_godebug fd_require fd_exclude fd_replace fd_retract fd_tool].
  - split; [cbn; tauto|]. tauto.
  - tauto.
  - tauto.
  - tauto.
  - split; [exact W1|]. split; [|tauto]. apply Forall_app. split; [exact W2|]. constructor; [|constructor]. cbn.
    destruct Hr as (_ & _ & A & B & _). auto.
  - split; [exact W1|]. split; [exact W2|]. split; [|tauto]. apply Forall_app. split; [exact W3|]. constructor; [|constructor]. cbn.
    destruct Hr as (_ & _ & A & B & _). auto.
  - split; [exact W1|]. split; [exact W2|]. split; [exact W3|]. split; [|tauto].
    apply Forall_app. split; [exact W4|]. constructor; [|constructor]. unfold wf_rep. cbn.
    destruct Hr as (_ & _ & A & B & (pm & _ & C) & D). split; [exact A|]. split; [exact B|]. split.
    + destruct C as [->|(C & _)]; [left; reflexivity|right; exact C].
    + destruct D as [(-> & _)|(D & _)]; [left; reflexivity|right; exact D].
  - split; [exact W1|]. split; [exact W2|]. split; [exact W3|]. split; [exact W4|]. split; [|exact W6].
    apply Forall_app. split; [exact W5|]. constructor; [|constructor]. cbn. tauto.
  - split; [exact W1|]. split; [exact W2|]. split; [exact W3|]. split; [exact W4|]. split; [exact W5|].
    apply Forall_app. split; [exact W6|]. constructor; [|constructor]. cbn. tauto.
  - tauto.
Qed.

(* ---------------------------------------------------------------- the statement loop *)

Definition line_it (blk : option line_block) (verb : str) (args : list str) (l : line) (it : item) : Prop :=
  renders verb args it /\ ctx_ok blk l it /\ mod_item it.

(* the items of a statement *)
Inductive expr_items : expr -> list item -> Prop :=
| EI_line l verb args it : l_token l = verb :: args -> line_it None verb args l it -> expr_items (ELine l) [it]
| EI_block b verb its : b_token b = [verb] -> known_mod_block verb = true ->
    Forall2 (fun l it => line_it (Some b) verb (l_token l) l it) (b_line b) its -> expr_items (EBlock b) its
| EI_com c : expr_items (ECommentBlock c) [].

Lemma line_set_token_id l : line_set_token l (l_token l) = l.
Proof. destruct l; reflexivity. Qed.

Lemma singles_mid a x b : singles (a ++ x :: b) -> singles (a ++ [x]).
Proof. intros H. apply (singles_prefix (a ++ [x]) b). rewrite <- app_assoc. exact H. Qed.

Lemma add_line_it f done blk l ref verb args it :
  line_it blk verb args l it -> vals f = vals_of done -> wf_file f -> singles (done ++ [it]) ->
  add true None f blk l ref verb args = ok_step (push it ref f) args /\
  vals (push it ref f) = vals_of (done ++ [it]) /\ wf_file (push it ref f).
Proof.
  intros (Hr & Hc & Hm) Hv Hw Hs. pose proof (fresh_of f done it Hv Hs) as Hf.
  split; [apply add_item; assumption|]. split; [apply push_vals; assumption|eapply push_wf; eassumption].
Qed.

Lemma block_lines_items b verb i : forall ls its j f done errs acc,
  Forall2 (fun l it => line_it (Some b) verb (l_token l) l it) ls its ->
  singles (done ++ its) -> vals f = vals_of done -> wf_file f ->
  exists f', block_lines (fun f l ref args => add true None f (Some b) l ref verb args) i j ls f errs acc
             = (f', errs, frev acc ++ ls) /\
             vals f' = vals_of (done ++ its) /\ wf_file f'.
Proof.
  induction ls as [|l ls IH]; intros its j f done errs acc H2 Hs Hv Hw.
  - inversion H2; subst. exists f. cbn [block_lines]. rewrite !app_nil_r. auto.
  - inversion H2 as [|? it ? its' Hl Hr]; subst. cbn [block_lines].
    destruct (add_line_it f done (Some b) l (i, Some j) verb (l_token l) it Hl Hv Hw (singles_mid _ _ _ Hs)) as (E & V & W).
    rewrite E. cbn [ok_step st_file st_args st_err add_err]. rewrite line_set_token_id.
    replace (done ++ it :: its') with ((done ++ [it]) ++ its') in * by (rewrite <- app_assoc; reflexivity).
    destruct (IH its' (S j) (push it (i, Some j) f) (done ++ [it]) errs (l :: acc) Hr Hs V W) as (f' & E' & V' & W').
    exists f'. rewrite E'. split; [|auto]. f_equal. rewrite !frev_rev. cbn [rev]. rewrite <- app_assoc. reflexivity.
Qed.

Definition loop_ok (st : loop_state file) (xd : list expr) (done : list item) : Prop :=
  lp_errs_r st = [] /\ lp_panic st = false /\ lp_stmts_r st = rev xd /\
  vals (lp_file st) = vals_of done /\ wf_file (lp_file st).

Lemma stmt_step_items i x its st xd done :
  expr_items x its -> singles (done ++ its) -> loop_ok st xd done ->
  loop_ok (step_of true None i x st) (xd ++ [x]) (done ++ its).
Proof.
  intros Hx Hs (He & Hp & Hst & Hv & Hw). unfold step_of, stmt_step.
  inversion Hx as [l verb args it Ht Hl|b verb its' Ht Hk H2|c]; subst.
  - rewrite Ht.
    destruct (add_line_it (lp_file st) done None l (i, None) verb args it Hl Hv Hw Hs) as (E & V & W).
    rewrite E. cbn [ok_step st_file st_args st_err add_err]. rewrite <- Ht, line_set_token_id.
    split; [exact He|]. split; [exact Hp|]. cbn [lp_stmts_r lp_file]. rewrite rev_app_distr, Hst. auto.
  - rewrite Ht, Hk.
    destruct (block_lines_items b verb i (b_line b) its O (lp_file st) done (lp_errs_r st) [] H2 Hs Hv Hw) as (f' & E & V & W).
    rewrite E. cbn [frev app]. split; [exact He|]. split; [exact Hp|]. cbn [lp_stmts_r lp_file].
    rewrite rev_app_distr, Hst. cbn [rev app]. split; [|auto]. f_equal. f_equal. rewrite <- Ht. destruct b; reflexivity.
  - rewrite app_nil_r. split; [exact He|]. split; [exact Hp|]. cbn [lp_stmts_r lp_file]. rewrite rev_app_distr, Hst. auto.
Qed.

Lemma stmts_loop_items : forall xs itss i st xd done,
  Forall2 expr_items xs itss -> singles (done ++ concat itss) -> loop_ok st xd done ->
  loop_ok (stmts_loop (step_of true None) i xs st) (xd ++ xs) (done ++ concat itss).
Proof.
  induction xs as [|x xs IH]; intros itss i st xd done H2 Hs Hok.
  - inversion H2; subst. cbn [stmts_loop concat]. rewrite !app_nil_r. exact Hok.
  - inversion H2 as [|? its ? itss' Hx Hr]; subst. cbn [stmts_loop concat] in *.
    replace (xd ++ x :: xs) with ((xd ++ [x]) ++ xs) by (rewrite <- app_assoc; reflexivity).
    rewrite app_assoc in *. apply IH; [exact Hr|exact Hs|].
    apply stmt_step_items; [exact Hx|apply (singles_prefix _ (concat itss')); exact Hs|exact Hok].
Qed.

Lemma wf_empty s : wf_file (empty_file s).
Proof. unfold wf_file, empty_file. cbn. repeat split; constructor. Qed.

(* parseToFile (strict, no fixer) on a tree whose lines render valid items: accepted, the
   tree is returned unchanged, the values are those of the items *)
Theorem file_of_syntax_items s itss :
  Forall2 expr_items (f_stmt s) itss -> singles (concat itss) ->
  exists f, file_of_syntax true None s = DOk f /\ fd_syntax f = s /\
            vals f = vals_of (concat itss) /\ wf_file f.
Proof.
  intros H2 Hs.
  pose proof (stmts_loop_items (f_stmt s) itss O (mkLS (empty_file s) [] [] false) [] [] H2 Hs) as H.
  specialize (H ltac:(repeat split; try reflexivity; apply wf_empty)). cbn [app] in H.
  destruct H as (He & Hp & Hst & Hv & Hw).
  unfold file_of_syntax, fix_retract. fold (step_of true None). cbv zeta. rewrite Hp, He.
  eexists. split; [reflexivity|]. rewrite Hst, frev_rev, rev_involutive.
  split; [destruct s; reflexivity|]. split; [exact Hv|exact Hw].
Qed.

(* ================================================================ go.work *)

Definition work_item (it : item) : Prop :=
  match it with
  | ItGo _ | ItToolchain _ | ItGodebug _ _ | ItUse _ | ItReplace _ _ _ _ => True
  | _ => False
  end.

Definition pushW (it : item) (ref : line_ref) (f : work_file) : work_file :=
  match it with
  | ItGo v => wf_with_go f (Some (mkGoD v ref))
  | ItToolchain v => wf_with_toolchain f (Some (mkToolchainD v ref))
  | ItGodebug k v => wf_with_godebug f (wf_godebug f ++ [mkGodebugD k v ref])
  | ItUse p => wf_with_use f (wf_use f ++ [mkUseD p [] ref])
  | ItReplace op ov np nv => wf_with_replace f (wf_replace f ++ [mkReplaceD (mkMV op ov) (mkMV np nv) ref])
  | _ => f
  end.

Definition freshW (it : item) (f : work_file) : Prop :=
  match it with
  | ItGo _ => wf_go f = None
  | ItToolchain _ => wf_toolchain f = None
  | _ => True
  end.

Lemma add_work_item f l ref verb args it :
  renders verb args it -> freshW it f -> work_item it ->
  add_work None f l ref verb args = ok_step (pushW it ref f) args.
Proof.
  intros Hr Hf Hm. destruct it as [p dep|v|v|k v|p v ind|p v|op ov np nv|lo hi rat|p|p]; cbn [renders freshW pushW work_item] in *;
    try contradiction.
  - destruct Hr as (-> & -> & Hre & _). unfold add_work. verbs. unfold add_go. rewrite Hf, Hre. reflexivity.
  - destruct Hr as (-> & -> & Hre & _). unfold add_work. verbs. unfold add_toolchain. rewrite Hf, Hre. reflexivity.
  - destruct Hr as (-> & -> & _ & Hca & Hk). unfold add_work. verbs. unfold add_godebug.
    rewrite Hca. cbn [app]. rewrite (cut_eq_app k v Hk). reflexivity.
  - destruct Hr as (-> & -> & Hok). unfold add_work. verbs. rewrite (replace_parse ref _ op ov np nv Hok). reflexivity.
  - destruct Hr as (-> & -> & Hp). unfold add_work. verbs. rewrite (path_string p Hp). reflexivity.
Qed.

Definition vals_ofW (its : list item) :=
  (hd_error (flat_map it_go its), hd_error (flat_map it_tc its), flat_map it_godebug its,
   map (fun p => (p, @nil Z)) (flat_map it_use its), flat_map it_replace its).

Lemma fresh_ofW f done it : valsW f = vals_ofW done -> singles (done ++ [it]) -> freshW it f.
Proof.
  intros Hv (_ & S2 & S3). unfold valsW, vals_ofW in Hv. injection Hv as V2 V3 _ _ _.
  rewrite !flat_map_app, !app_length in S2, S3.
  destruct it; cbn [freshW]; try exact I; cbn [flat_map it_go it_tc app length] in *.
  - destruct (flat_map it_go done); [|cbn in S2; lia]. destruct (wf_go f); [discriminate|reflexivity].
  - destruct (flat_map it_tc done); [|cbn in S3; lia]. destruct (wf_toolchain f); [discriminate|reflexivity].
Qed.

Lemma push_valsW f done it ref : valsW f = vals_ofW done -> freshW it f -> work_item it ->
  valsW (pushW it ref f) = vals_ofW (done ++ [it]).
Proof.
  intros Hv Hf Hm. unfold valsW, vals_ofW in *. injection Hv as V1 V2 V3 V4 V5.
  rewrite !flat_map_app.
  destruct it; cbn [freshW work_item] in *; try contradiction;
    cbn [pushW wf_with_go wf_with_toolchain wf_with_godebug wf_with_use wf_with_replace
         wf_go wf_toolchain wf_godebug wf_use wf_replace
         flat_map it_go it_tc it_godebug it_replace it_use app];
    rewrite ?app_nil_r, ?map_app; cbn [map option_map go_version tc_name Directives.gd_key gd_value
      rep_vals rp_old rp_new mv_path mv_version us_path us_module_path];
    try (rewrite V1, V2, V3, V4, V5; reflexivity).
  - rewrite Hf in V1. cbn in V1. symmetry in V1. apply hd_error_nil_len in V1. rewrite V1.
    rewrite V2, V3, V4, V5. reflexivity.
  - rewrite Hf in V2. cbn in V2. symmetry in V2. apply hd_error_nil_len in V2. rewrite V2.
    rewrite V1, V3, V4, V5. reflexivity.
Qed.

Lemma push_wfW f it ref verb args : wf_work f -> renders verb args it -> wf_work (pushW it ref f).
Proof.
  intros (W1 & W2) Hr. unfold wf_work.
  destruct it; cbn [renders] in *;
    cbn [pushW wf_with_go wf_with_toolchain wf_with_godebug wf_with_use wf_with_replace wf_use wf_replace]; try tauto.
  - split; [exact W1|]. apply Forall_app. split; [exact W2|]. constructor; [|constructor]. unfold wf_rep. cbn.
    destruct Hr as (_ & _ & A & B & (pm & _ & C) & D). split; [exact A|]. split; [exact B|]. split.
    + destruct C as [->|(C & _)]; [left; reflexivity|right; exact C].
    + destruct D as [(-> & _)|(D & _)]; [left; reflexivity|right; exact D].
  - split; [|exact W2]. apply Forall_app. split; [exact W1|]. constructor; [|constructor]. cbn. tauto.
Qed.

Definition line_itW (verb : str) (args : list str) (it : item) : Prop := renders verb args it /\ work_item it.

Inductive expr_itemsW : expr -> list item -> Prop :=
| EW_line l verb args it : l_token l = verb :: args -> line_itW verb args it -> expr_itemsW (ELine l) [it]
| EW_block b verb its : b_token b = [verb] -> known_work_block verb = true ->
    Forall2 (fun l it => line_itW verb (l_token l) it) (b_line b) its -> expr_itemsW (EBlock b) its
| EW_com c : expr_itemsW (ECommentBlock c) [].

Lemma add_line_itW f done l ref verb args it :
  line_itW verb args it -> valsW f = vals_ofW done -> wf_work f -> singles (done ++ [it]) ->
  add_work None f l ref verb args = ok_step (pushW it ref f) args /\
  valsW (pushW it ref f) = vals_ofW (done ++ [it]) /\ wf_work (pushW it ref f).
Proof.
  intros (Hr & Hm) Hv Hw Hs. pose proof (fresh_ofW f done it Hv Hs) as Hf.
  split; [apply add_work_item; assumption|]. split; [apply push_valsW; assumption|eapply push_wfW; eassumption].
Qed.

Lemma block_lines_itemsW (b : line_block) verb i : forall ls its j f done errs acc,
  Forall2 (fun l it => line_itW verb (l_token l) it) ls its ->
  singles (done ++ its) -> valsW f = vals_ofW done -> wf_work f ->
  exists f', block_lines (fun f l ref args => add_work None f l ref verb args) i j ls f errs acc
             = (f', errs, frev acc ++ ls) /\
             valsW f' = vals_ofW (done ++ its) /\ wf_work f'.
Proof.
  induction ls as [|l ls IH]; intros its j f done errs acc H2 Hs Hv Hw.
  - inversion H2; subst. exists f. cbn [block_lines]. rewrite !app_nil_r. auto.
  - inversion H2 as [|? it ? its' Hl Hr]; subst. cbn [block_lines].
    destruct (add_line_itW f done l (i, Some j) verb (l_token l) it Hl Hv Hw (singles_mid _ _ _ Hs)) as (E & V & W).
    rewrite E. cbn [ok_step st_file st_args st_err add_err]. rewrite line_set_token_id.
    replace (done ++ it :: its') with ((done ++ [it]) ++ its') in * by (rewrite <- app_assoc; reflexivity).
    destruct (IH its' (S j) (pushW it (i, Some j) f) (done ++ [it]) errs (l :: acc) Hr Hs V W) as (f' & E' & V' & W').
    exists f'. rewrite E'. split; [|auto]. f_equal. rewrite !frev_rev. cbn [rev]. rewrite <- app_assoc. reflexivity.
Qed.

Definition loop_okW (st : loop_state work_file) (xd : list expr) (done : list item) : Prop :=
  lp_errs_r st = [] /\ lp_panic st = false /\ lp_stmts_r st = rev xd /\
  valsW (lp_file st) = vals_ofW done /\ wf_work (lp_file st).

Notation wstep := (stmt_step (fun f (_ : option line_block) l ref verb args => add_work None f l ref verb args) known_work_block true).

Lemma stmt_step_itemsW i x its st xd done :
  expr_itemsW x its -> singles (done ++ its) -> loop_okW st xd done ->
  loop_okW (wstep i x st) (xd ++ [x]) (done ++ its).
Proof.
  intros Hx Hs (He & Hp & Hst & Hv & Hw). unfold stmt_step.
  inversion Hx as [l verb args it Ht Hl|b verb its' Ht Hk H2|c]; subst.
  - rewrite Ht.
    destruct (add_line_itW (lp_file st) done l (i, None) verb args it Hl Hv Hw Hs) as (E & V & W).
    rewrite E. cbn [ok_step st_file st_args st_err add_err]. rewrite <- Ht, line_set_token_id.
    split; [exact He|]. split; [exact Hp|]. cbn [lp_stmts_r lp_file]. rewrite rev_app_distr, Hst. auto.
  - rewrite Ht, Hk.
    destruct (block_lines_itemsW b verb i (b_line b) its O (lp_file st) done (lp_errs_r st) [] H2 Hs Hv Hw) as (f' & E & V & W).
    rewrite E. cbn [frev app]. split; [exact He|]. split; [exact Hp|]. cbn [lp_stmts_r lp_file].
    rewrite rev_app_distr, Hst. cbn [rev app]. split; [|auto]. f_equal. f_equal. rewrite <- Ht. destruct b; reflexivity.
  - rewrite app_nil_r. split; [exact He|]. split; [exact Hp|]. cbn [lp_stmts_r lp_file]. rewrite rev_app_distr, Hst. auto.
Qed.

Lemma stmts_loop_itemsW : forall xs itss i st xd done,
  Forall2 expr_itemsW xs itss -> singles (done ++ concat itss) -> loop_okW st xd done ->
  loop_okW (stmts_loop wstep i xs st) (xd ++ xs) (done ++ concat itss).
Proof.
  induction xs as [|x xs IH]; intros itss i st xd done H2 Hs Hok.
  - inversion H2; subst. cbn [stmts_loop concat]. rewrite !app_nil_r. exact Hok.
  - inversion H2 as [|? its ? itss' Hx Hr]; subst. cbn [stmts_loop concat] in *.
    replace (xd ++ x :: xs) with ((xd ++ [x]) ++ xs) by (rewrite <- app_assoc; reflexivity).
    rewrite app_assoc in *. apply IH; [exact Hr|exact Hs|].
    apply stmt_step_itemsW; [exact Hx|apply (singles_prefix _ (concat itss')); exact Hs|exact Hok].
Qed.

Theorem work_of_syntax_items s itss :
  Forall2 expr_itemsW (f_stmt s) itss -> singles (concat itss) ->
  exists f, work_of_syntax None s = DOk f /\ wf_syntax f = s /\
            valsW f = vals_ofW (concat itss) /\ wf_work f.
Proof.
  intros H2 Hs.
  pose proof (stmts_loop_itemsW (f_stmt s) itss O (mkLS (empty_work s) [] [] false) [] [] H2 Hs) as H.
  specialize (H ltac:(repeat split; try reflexivity; constructor)). cbn [app] in H.
  destruct H as (He & Hp & Hst & Hv & Hw).
  unfold work_of_syntax. cbv zeta. rewrite Hp, He.
  eexists. split; [reflexivity|]. rewrite Hst, frev_rev, rev_involutive.
  split; [destruct s; reflexivity|]. split; [exact Hv|exact Hw].
Qed.
