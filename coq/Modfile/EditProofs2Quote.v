(* AutoQuote is injective on byte strings: distinct requested paths are written as distinct tokens
   (the hypothesis of the need_order_irrelevant theorems of C16). *)
From Verif.Base Require Import Bytes Utf8 Strconv QuoteProofs.
From Verif.Modfile Require Import EditModel.

Lemma must_quote_34 r : must_quote (34 :: r) = true.
Proof.
  unfold must_quote, runes. cbn [length runes_w]. change (decode (34 :: r)) with (34, 1%nat).
  cbn [map fst existsb]. reflexivity.
Qed.

Theorem auto_quote_inj a b : Forall byte a -> Forall byte b -> auto_quote a = auto_quote b -> a = b.
Proof.
  intros Ha Hb. unfold auto_quote.
  destruct (must_quote a) eqn:Ea, (must_quote b) eqn:Eb; intros E.
  - apply (f_equal unquote) in E. rewrite !unquote_quote in E by assumption. congruence.
  - exfalso. unfold quote, quote_with in E. rewrite <- E, must_quote_34 in Eb. discriminate.
  - exfalso. unfold quote, quote_with in E. rewrite E, must_quote_34 in Ea. discriminate.
  - exact E.
Qed.

Lemma nodup_auto_quote {A} (g : A -> str) l :
  NoDup (map g l) -> Forall (fun x => Forall byte (g x)) l -> NoDup (map (fun x => auto_quote (g x)) l).
Proof.
  induction l as [|x r IH]; cbn; intros Hnd Hb; [constructor|].
  inversion Hnd as [|? ? Hni Hr]; subst. inversion Hb as [|? ? Hx Hbr]; subst.
  constructor; [|apply IH; assumption]. intros Hin. apply Hni.
  apply in_map_iff in Hin. destruct Hin as [y [E Hy]]. apply in_map_iff. exists y. split; [|exact Hy].
  rewrite Forall_forall in Hbr. symmetry. apply auto_quote_inj; [exact Hx | apply Hbr; exact Hy | symmetry; exact E].
Qed.
