(* Round trip, part 4a: the lexer of Lex.v without positions.  [ptoken] works on the
   remaining input alone (plus one bit: has a token been seen on the current line); it is
   the same code as read_token, and [read_token_pure] shows that read_token computes it. *)
From Verif.Base Require Import Bytes Utf8.
From Verif.Modfile Require Import Syntax Lex ProofsLex ProofsLexNoLF.

Definition snil (s : str) : bool := match s with [] => true | _ => false end.

Definition prune (s : str) : option (Z * str) :=
  match s with
  | [] => None
  | _ => let (r, w) := Utf8.decode s in Some (r, skipn w s)
  end.

Definition ppeek (s : str) : Z :=
  match s with [] => 0 | _ => fst (Utf8.decode s) end.

(* the bytes between two suffixes of the input *)
Definition ptext (s0 s1 : str) : str := firstn (length s0 - length s1) s0.

Inductive ptr := PTok (k : tkind) (text rest : str) | PErr | PBad.

Fixpoint pcomment_body (f : nat) (s : str) : option (option str) :=
  match f with
  | O => None
  | S f' =>
      match s with
      | [] => Some (Some s)
      | _ => match prune s with
             | None => Some None
             | Some (r, s') => if r =? 10 then Some (Some s') else pcomment_body f' s'
             end
      end
  end.

Fixpoint pstring (f : nat) (q : Z) (s0 s : str) : ptr :=
  match f with
  | O => PBad
  | S f' =>
      if snil s then PErr
      else if ppeek s =? 10 then PErr
      else match prune s with
           | None => PBad
           | Some (c, s1) =>
               if c =? q then PTok KString (ptext s0 s1) s1
               else if (c =? 92) && negb (q =? 96) then
                 if snil s1 then PErr
                 else if ppeek s1 =? 10 then PErr
                 else match prune s1 with
                      | None => PBad
                      | Some (_, s2) => pstring f' q s0 s2
                      end
               else pstring f' q s0 s1
           end
  end.

Fixpoint pident (f : nat) (s0 s : str) : ptr :=
  match f with
  | O => PBad
  | S f' =>
      if is_ident (ppeek s) then
        if has_prefix s [47; 47] then PTok KIdent (ptext s0 s) s
        else if has_prefix s [47; 42] then PErr
        else match prune s with
             | None => PBad
             | Some (_, s') => pident f' s0 s'
             end
      else PTok KIdent (ptext s0 s) s
  end.

Definition pmain (f : nat) (s : str) : ptr :=
  if snil s then PTok KEOF [] s
  else
    let c := ppeek s in
    if is_punct c then
      match prune s with
      | None => PBad
      | Some (_, s1) => PTok (KPunct c) (ptext s s1) s1
      end
    else if (c =? 34) || (c =? 96) then
      match prune s with
      | None => PBad
      | Some (_, s1) => pstring f c s s1
      end
    else if negb (is_ident c) then PErr
    else pident f s s.

Definition pcomment (f : nat) (dirty : bool) (s : str) : ptr :=
  match prune s with
  | None => PBad
  | Some (_, s1) =>
      match prune s1 with
      | None => PBad
      | Some (_, s2) =>
          match pcomment_body f s2 with
          | None => PBad
          | Some None => PBad
          | Some (Some s3) => PTok (if dirty then KEOLComment else KComment) (strip_eol (ptext s s3)) s3
          end
      end
  end.

Fixpoint ptoken (f : nat) (dirty : bool) (s : str) : ptr :=
  match f with
  | O => PBad
  | S f' =>
      if snil s then pmain f' s
      else
        let c := ppeek s in
        if (c =? 32) || (c =? 9) || (c =? 13) then
          match prune s with
          | None => PBad
          | Some (_, s') => ptoken f' dirty s'
          end
        else if has_prefix s [47; 47] then pcomment f' dirty s
        else if has_prefix s [47; 42] then PErr
        else pmain f' s
  end.

(* ---------------------------------------------------------------- read_token computes ptoken *)

Lemma ptext_nil s : ptext s s = [].
Proof. unfold ptext. rewrite Nat.sub_diag. reflexivity. Qed.

Lemma read_rune_prune st :
  match read_rune st with
  | Some (r, st') => prune (ls_rem st) = Some (r, ls_rem st')
  | None => prune (ls_rem st) = None
  end.
Proof.
  unfold read_rune, prune. destruct (ls_rem st) as [|c t]; [reflexivity|].
  destruct (Utf8.decode (c :: t)) as [r w]. reflexivity.
Qed.

Lemma read_rune_prune_some st r st' : read_rune st = Some (r, st') -> prune (ls_rem st) = Some (r, ls_rem st').
Proof. intros H. pose proof (read_rune_prune st) as P. rewrite H in P. exact P. Qed.

Lemma read_rune_prune_none st : read_rune st = None -> prune (ls_rem st) = None.
Proof. intros H. pose proof (read_rune_prune st) as P. rewrite H in P. exact P. Qed.

Lemma peek_ppeek st : peek_rune st = ppeek (ls_rem st).
Proof. reflexivity. Qed.

Lemma eof_snil st : eof st = snil (ls_rem st).
Proof. reflexivity. Qed.

(* the text of a token *)
Lemma end_token_pure data k st0 st :
  linv data st0 -> linv data st ->
  end_token k st0 st =
  mkTok k (ls_pos st0) (ls_pos st)
        (if is_comment_kind k then strip_eol (ptext (ls_rem st0) (ls_rem st)) else ptext (ls_rem st0) (ls_rem st)).
Proof.
  intros H0 H1. unfold end_token, ptext. rewrite (linv_byte _ _ H0), (linv_byte _ _ H1). unfold rem_len.
  replace (Z.to_nat _) with (length (ls_rem st0) - length (ls_rem st))%nat by lia. reflexivity.
Qed.

(* real result vs pure result *)
Definition tr_ok (data : str) (st0 : lstate) (res : tok_result) (p : ptr) : Prop :=
  match res with
  | TTok t st' => p = PTok (t_kind t) (t_text t) (ls_rem st') /\ linv data st' /\
                  t_pos t = ls_pos st0 /\ t_end t = ls_pos st'
  | TErr _ _ => p = PErr
  | TPanic | TFuel => p = PBad
  end.

Lemma string_body_pure data q st0 : linv data st0 -> forall f st, linv data st ->
  tr_ok data st0 (string_body f q st0 st) (pstring f q (ls_rem st0) (ls_rem st)).
Proof.
  intros H0. induction f as [|f IH]; intros st Hi; cbn [string_body pstring]; [reflexivity|].
  rewrite eof_snil, peek_ppeek. destruct (snil (ls_rem st)); [reflexivity|].
  destruct (ppeek (ls_rem st) =? 10); [reflexivity|].
  destruct (read_rune st) as [[c st1]|] eqn:Hr.
  2:{ rewrite (read_rune_prune_none _ Hr). reflexivity. }
  rewrite (read_rune_prune_some _ _ _ Hr). destruct (read_rune_spec _ _ _ _ Hi Hr) as (Hi1 & _).
  destruct (c =? q).
  { cbn [tr_ok]. rewrite (end_token_pure data KString st0 st1 H0 Hi1). cbn. auto. }
  destruct ((c =? 92) && negb (q =? 96)); [|apply IH; exact Hi1].
  rewrite eof_snil, peek_ppeek. destruct (snil (ls_rem st1)); [reflexivity|].
  destruct (ppeek (ls_rem st1) =? 10); [reflexivity|].
  destruct (read_rune st1) as [[c2 st2]|] eqn:Hr2.
  2:{ rewrite (read_rune_prune_none _ Hr2). reflexivity. }
  rewrite (read_rune_prune_some _ _ _ Hr2). destruct (read_rune_spec _ _ _ _ Hi1 Hr2) as (Hi2 & _).
  apply IH. exact Hi2.
Qed.

Lemma ident_body_pure data st0 : linv data st0 -> forall f st, linv data st ->
  tr_ok data st0 (ident_body f st0 st) (pident f (ls_rem st0) (ls_rem st)).
Proof.
  intros H0. induction f as [|f IH]; intros st Hi; cbn [ident_body pident]; [reflexivity|].
  rewrite peek_ppeek. unfold peek_prefix.
  assert (Hdone : tr_ok data st0 (TTok (end_token KIdent st0 st) st) (PTok KIdent (ptext (ls_rem st0) (ls_rem st)) (ls_rem st))).
  { cbn [tr_ok]. rewrite (end_token_pure data KIdent st0 st H0 Hi). cbn. auto. }
  destruct (is_ident (ppeek (ls_rem st))); [|exact Hdone].
  destruct (has_prefix (ls_rem st) [47; 47]); [exact Hdone|].
  destruct (has_prefix (ls_rem st) [47; 42]); [reflexivity|].
  destruct (read_rune st) as [[c st1]|] eqn:Hr.
  2:{ rewrite (read_rune_prune_none _ Hr). reflexivity. }
  rewrite (read_rune_prune_some _ _ _ Hr). destruct (read_rune_spec _ _ _ _ Hi Hr) as (Hi1 & _).
  apply IH. exact Hi1.
Qed.

Lemma read_main_pure data f st : linv data st ->
  tr_ok data st (read_main f st) (pmain f (ls_rem st)).
Proof.
  intros Hi. unfold read_main, pmain. rewrite eof_snil, peek_ppeek.
  destruct (snil (ls_rem st)) eqn:Es.
  { cbn [tr_ok]. rewrite (end_token_pure data KEOF st st Hi Hi). cbn. rewrite ptext_nil. auto. }
  destruct (is_punct (ppeek (ls_rem st))).
  { destruct (read_rune st) as [[c st1]|] eqn:Hr.
    2:{ rewrite (read_rune_prune_none _ Hr). reflexivity. }
    rewrite (read_rune_prune_some _ _ _ Hr). destruct (read_rune_spec _ _ _ _ Hi Hr) as (Hi1 & _).
    cbn [tr_ok]. rewrite (end_token_pure data _ st st1 Hi Hi1). cbn. auto. }
  destruct ((ppeek (ls_rem st) =? 34) || (ppeek (ls_rem st) =? 96)).
  { destruct (read_rune st) as [[c st1]|] eqn:Hr.
    2:{ rewrite (read_rune_prune_none _ Hr). reflexivity. }
    rewrite (read_rune_prune_some _ _ _ Hr). destruct (read_rune_spec _ _ _ _ Hi Hr) as (Hi1 & _).
    apply string_body_pure; assumption. }
  destruct (negb (is_ident (ppeek (ls_rem st)))); [reflexivity|].
  apply ident_body_pure; assumption.
Qed.

Lemma comment_body_pure data : forall f st, linv data st ->
  match comment_body f st with
  | None => pcomment_body f (ls_rem st) = None
  | Some None => pcomment_body f (ls_rem st) = Some None
  | Some (Some st') => pcomment_body f (ls_rem st) = Some (Some (ls_rem st')) /\ linv data st'
  end.
Proof.
  induction f as [|f IH]; intros st Hi; cbn [comment_body pcomment_body]; [reflexivity|].
  destruct (ls_rem st) as [|c t] eqn:E; [rewrite E; auto|]. rewrite <- E.
  destruct (read_rune st) as [[r st1]|] eqn:Hr.
  2:{ rewrite (read_rune_prune_none _ Hr). reflexivity. }
  rewrite (read_rune_prune_some _ _ _ Hr). destruct (read_rune_spec _ _ _ _ Hi Hr) as (Hi1 & _).
  destruct (r =? 10); [auto|]. apply IH. exact Hi1.
Qed.

Lemma read_comment_pure data f st : linv data st ->
  tr_ok data st (read_comment f st) (pcomment f (has_non_space (line_so_far st)) (ls_rem st)).
Proof.
  intros Hi. unfold read_comment, pcomment.
  destruct (read_rune st) as [[r1 st1]|] eqn:Hr1.
  2:{ rewrite (read_rune_prune_none _ Hr1). reflexivity. }
  rewrite (read_rune_prune_some _ _ _ Hr1). destruct (read_rune_spec _ _ _ _ Hi Hr1) as (Hi1 & _).
  destruct (read_rune st1) as [[r2 st2]|] eqn:Hr2.
  2:{ rewrite (read_rune_prune_none _ Hr2). reflexivity. }
  rewrite (read_rune_prune_some _ _ _ Hr2). destruct (read_rune_spec _ _ _ _ Hi1 Hr2) as (Hi2 & _).
  pose proof (comment_body_pure data f st2 Hi2) as Hc.
  destruct (comment_body f st2) as [[st3|]|]; [|rewrite Hc; reflexivity|rewrite Hc; reflexivity].
  destruct Hc as (Hc & Hi3). rewrite Hc. cbn [tr_ok].
  rewrite (end_token_pure data _ st st3 Hi Hi3). cbn [t_kind t_text t_pos t_end].
  destruct (has_non_space (line_so_far st)); cbn; auto.
Qed.
