(* [settable] (setIndirect reaches the requested marking, EditProofsSetRequire.v) is a property of
   the end-of-line comments of a line only; it is preserved by setIndirect itself, so the
   corner "// indirect; indirect; ..." (finding K9) cannot be created by the edit operations:
   it is either in the starting file or nowhere. *)
From Coq Require Import Permutation.
From Verif.Base Require Import Bytes.
From Verif.Modfile Require Import EditModel EditOps EditSpec EditProofsTyped EditProofsHeap EditProofsCoherent
  EditProofsCleanup EditProofsAddLine EditProofsAdd EditProofsUpsert EditProofsSort EditProofsSeq EditProofsExact
  EditProofsBlocks EditProofsSetRequire.

(* ---------------------------------------------------------------- isIndirect / setIndirect on the suffix list *)
Definition is_ind_suf (sfx : list str) : bool :=
  match sfx with
  | [] => false
  | c :: _ =>
      match fields (trim_prefix c slash_slash) with
      | [x] => str_eqb x (B "indirect")
      | x :: _ :: _ => str_eqb x (B "indirect;")
      | [] => false
      end
  end.

Definition set_ind_suf (sfx : list str) (indirect : bool) : list str :=
  if Bool.eqb (is_ind_suf sfx) indirect then sfx
  else if indirect then
    match sfx with
    | [] => [B "// indirect"]
    | c :: rest =>
        match comment_text c with
        | [] => B "// indirect" :: rest
        | _ => (B "// indirect; " ++ comment_text c) :: rest
        end
    end
  else
    match sfx with
    | [] => []
    | c :: rest =>
        if str_eqb (comment_text c) (B "indirect") then []
        else (slash_slash ++ match index_sub c (B "indirect;") with
                             | Some i => skipn (i + 9) c
                             | None => skipn 8 c
                             end) :: rest
    end.

Definition suf (l : hline) : list str := c_suffix (hl_com l).

Lemma is_indirect_suf l : is_indirect l = is_ind_suf (suf l).
Proof. unfold is_indirect, is_ind_suf, suf. destruct (c_suffix (hl_com l)); reflexivity. Qed.

Lemma set_indirect_line_suf l b : suf (set_indirect_line l b) = set_ind_suf (suf l) b.
Proof.
  unfold set_indirect_line, set_ind_suf, suf. rewrite is_indirect_suf. unfold suf. cbv zeta.
  destruct (Bool.eqb (is_ind_suf (c_suffix (hl_com l))) b); [reflexivity|].
  destruct b.
  - destruct (c_suffix (hl_com l)) as [|c rest]; [reflexivity|]. destruct (comment_text c); reflexivity.
  - destruct (c_suffix (hl_com l)) as [|c rest] eqn:E; [exact E|].
    destruct (str_eqb (comment_text c) (B "indirect")); reflexivity.
Qed.

Lemma set_version_line_suf l v : suf (set_version_line l v) = suf l.
Proof.
  unfold set_version_line, suf. destruct (hl_tok l); [reflexivity|].
  destruct (hl_inb l); [|reflexivity]. cbn [hl_com].
  destruct (c_before (hl_com l)) as [|[|? ?] [|? ?]]; reflexivity.
Qed.

Definition suf_settable (sfx : list str) : Prop := forall b, is_ind_suf (set_ind_suf sfx b) = b.

Lemma settable_iff l : settable l <-> suf_settable (suf l).
Proof.
  unfold settable, suf_settable. split; intros H.
  - intros b. specialize (H [] b). rewrite is_indirect_suf, set_indirect_line_suf, set_version_line_suf in H. exact H.
  - intros v b. rewrite is_indirect_suf, set_indirect_line_suf, set_version_line_suf. apply H.
Qed.

Lemma settable_com l l' : hl_com l = hl_com l' -> settable l -> settable l'.
Proof. intros E H. apply settable_iff. unfold suf. rewrite <- E. apply settable_iff. exact H. Qed.

Lemma suf_settable_nil : suf_settable [].
Proof. intros [|]; reflexivity. Qed.

Lemma suf_settable_marker : suf_settable [B "// indirect"].
Proof. intros [|]; vm_compute; reflexivity. Qed.

(* ---------------------------------------------------------------- strings.Fields / TrimSpace *)
Lemma fields_aux_nonempty s : forall cur, cur <> [] -> fields_aux s cur <> [].
Proof.
  induction s as [|c r IH]; intros cur Hc; cbn.
  - destruct cur; [congruence | discriminate].
  - destruct (is_space_ascii c).
    + destruct cur; [congruence | discriminate].
    + apply IH. discriminate.
Qed.

Lemma fields_cons c r : fields (c :: r) = if is_space_ascii c then fields r else fields_aux r [c].
Proof. unfold fields. cbn. destruct (is_space_ascii c); reflexivity. Qed.

Lemma fields_nil_spaces x : fields x = [] -> Forall (fun c => is_space_ascii c = true) x.
Proof.
  induction x as [|c r IH]; intros H; [constructor|]. rewrite fields_cons in H.
  destruct (is_space_ascii c) eqn:E.
  - constructor; [exact E | apply IH; exact H].
  - exfalso. apply (fields_aux_nonempty r [c]); [discriminate | exact H].
Qed.

Lemma trim_left_spaces x : Forall (fun c => is_space_ascii c = true) x -> trim_left x = [].
Proof. induction 1 as [|c r Hc _ IH]; cbn; [reflexivity|]. rewrite Hc. exact IH. Qed.

Lemma trim_left_split z : exists sp, z = sp ++ trim_left z /\ Forall (fun c => is_space_ascii c = true) sp.
Proof.
  induction z as [|c r [sp [E F]]]; [exists []; split; [reflexivity | constructor]|].
  cbn. destruct (is_space_ascii c) eqn:Ec.
  - exists (c :: sp). split; [cbn; f_equal; exact E | constructor; assumption].
  - exists []. split; [reflexivity | constructor].
Qed.

Lemma fields_trim_left x : fields (trim_left x) = fields x.
Proof.
  induction x as [|c r IH]; [reflexivity|]. cbn [trim_left]. rewrite (fields_cons c r).
  destruct (is_space_ascii c) eqn:E; [exact IH|]. rewrite fields_cons, E. reflexivity.
Qed.

Lemma fields_aux_app_space1 s : forall cur c, is_space_ascii c = true -> fields_aux (s ++ [c]) cur = fields_aux s cur.
Proof.
  induction s as [|x r IH]; intros cur c Hc; cbn.
  - rewrite Hc. destruct cur; reflexivity.
  - destruct (is_space_ascii x); [destruct cur; rewrite IH by exact Hc; reflexivity | apply IH; exact Hc].
Qed.

Lemma fields_aux_app_spaces sp : forall s cur, Forall (fun c => is_space_ascii c = true) sp ->
  fields_aux (s ++ sp) cur = fields_aux s cur.
Proof.
  induction sp as [|c r IH]; intros s cur H; [rewrite app_nil_r; reflexivity|].
  inversion H as [|? ? Hc Hr]; subst.
  change (s ++ c :: r) with (s ++ [c] ++ r). rewrite app_assoc, IH by exact Hr.
  apply fields_aux_app_space1. exact Hc.
Qed.

Lemma fields_trim_space x : fields (trim_space x) = fields x.
Proof.
  unfold trim_space. rewrite <- (fields_trim_left x). set (y := trim_left x).
  destruct (trim_left_split (rev y)) as [sp [E F]].
  assert (Ey : y = rev (trim_left (rev y)) ++ rev sp).
  { rewrite <- rev_app_distr, <- E, rev_involutive. reflexivity. }
  rewrite Ey at 2. unfold fields. rewrite fields_aux_app_spaces; [reflexivity|].
  apply Forall_rev. exact F.
Qed.

Lemma trim_space_nil_fields x : trim_space x <> [] -> fields x <> [].
Proof.
  intros H Hf. apply H. apply fields_nil_spaces in Hf. unfold trim_space.
  rewrite (trim_left_spaces x Hf). reflexivity.
Qed.

(* the marker setIndirect writes in front of an existing comment text *)
Lemma fields_marker t : fields (trim_prefix (B "// indirect; " ++ t) slash_slash) = B "indirect;" :: fields t.
Proof. reflexivity. Qed.

Lemma fields_slash_space t : fields (trim_prefix (slash_slash ++ 32 :: t) slash_slash) = fields t.
Proof. reflexivity. Qed.

(* ---------------------------------------------------------------- setIndirect keeps lines settable *)
Definition ind_shape (fs : list str) : bool :=
  match fs with
  | [x] => str_eqb x (B "indirect")
  | x :: _ :: _ => str_eqb x (B "indirect;")
  | [] => false
  end.

Lemma is_ind_suf_cons c rest : is_ind_suf (c :: rest) = ind_shape (fields (trim_prefix c slash_slash)).
Proof. reflexivity. Qed.

Lemma fields_comment_text c : fields (comment_text c) = fields (trim_prefix c slash_slash).
Proof. unfold comment_text. apply fields_trim_space. Qed.

(* setting the marker always works *)
Lemma set_true_works sfx : is_ind_suf sfx = false -> is_ind_suf (set_ind_suf sfx true) = true.
Proof.
  intros H. unfold set_ind_suf. rewrite H. cbn [Bool.eqb].
  destruct sfx as [|c rest]; [reflexivity|].
  destruct (comment_text c) as [|a t] eqn:Et; [reflexivity|].
  rewrite is_ind_suf_cons, fields_marker.
  assert (Hf : fields (a :: t) <> []).
  { rewrite <- Et, fields_comment_text. apply trim_space_nil_fields. fold (comment_text c). rewrite Et. discriminate. }
  destruct (fields (a :: t)); [congruence | reflexivity].
Qed.

(* ... and removing a marker that setIndirect wrote gives back a direct line *)
Lemma set_roundtrip sfx : is_ind_suf sfx = false -> is_ind_suf (set_ind_suf (set_ind_suf sfx true) false) = false.
Proof.
  intros H. pose proof (set_true_works sfx H) as Ht.
  unfold set_ind_suf at 1. rewrite Ht. cbn [Bool.eqb].
  unfold set_ind_suf. rewrite H. cbn [Bool.eqb].
  destruct sfx as [|c rest]; [reflexivity|].
  destruct (comment_text c) as [|a t] eqn:Et; [reflexivity|].
  set (txt := a :: t) in *.
  assert (Hne : str_eqb (comment_text (B "// indirect; " ++ txt)) (B "indirect") = false).
  { destruct (str_eqb _ _) eqn:E; [|reflexivity]. apply str_eqb_eq in E.
    pose proof (fields_comment_text (B "// indirect; " ++ txt)) as Hc. rewrite fields_marker, E in Hc.
    change (fields (B "indirect")) with [B "indirect"] in Hc. injection Hc as Hc _.
    apply (f_equal (@length Z)) in Hc. vm_compute in Hc. discriminate Hc. }
  rewrite Hne.
  assert (Hidx : index_sub (B "// indirect; " ++ txt) (B "indirect;") = Some 3%nat) by reflexivity.
  rewrite Hidx. change (skipn (3 + 9) (B "// indirect; " ++ txt)) with (32 :: txt).
  rewrite is_ind_suf_cons, fields_slash_space.
  rewrite is_ind_suf_cons in H. rewrite <- Et, fields_comment_text. exact H.
Qed.

Lemma suf_settable_set sfx b : suf_settable sfx -> suf_settable (set_ind_suf sfx b).
Proof.
  intros H b'.
  destruct (Bool.eqb (is_ind_suf (set_ind_suf sfx b)) b') eqn:E.
  - unfold set_ind_suf at 1. rewrite E. apply Bool.eqb_prop in E. exact E.
  - pose proof (H b) as Hb. rewrite Hb in E.
    destruct (Bool.eqb (is_ind_suf sfx) b) eqn:E0.
    + assert (E1 : set_ind_suf sfx b = sfx) by (unfold set_ind_suf; rewrite E0; reflexivity).
      rewrite E1. apply H.
    + destruct b, b'; try discriminate E.
      * apply set_roundtrip. destruct (is_ind_suf sfx); [discriminate E0 | reflexivity].
      * apply set_true_works. exact (H false).
Qed.

Lemma settable_set_indirect l v b : settable l -> settable (set_indirect_line (set_version_line l v) b).
Proof.
  intros H. apply settable_iff. rewrite set_indirect_line_suf, set_version_line_suf.
  apply suf_settable_set. apply settable_iff. exact H.
Qed.
