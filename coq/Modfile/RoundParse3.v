(* Round trip, part 3c: parseLineBlock in lockstep with [group]. *)
From Verif.Base Require Import Bytes.
From Verif.Modfile Require Import Syntax Lex Parse ProofsLex RoundRows RoundAssign RoundParse RoundParse2.

Section Block.
Variable start : position.
Variable bt : list str.
Variable lp : token.

Definition block_res (acoms_r : list str) (alines_r : list aline) (srl : list comment) (lo1 : Z)
           (ts : list token) (res : pres line_block) : Prop :=
  match res with
  | ROk b rest =>
      exists rp rbef lines_r' srl' alines_r' rbefA crp rsfxA hi1,
        b = mkBlock no_comments start (mkParen no_comments (t_pos lp)) bt (frev lines_r')
                    (mkParen (mkComments rbef [] []) rp) /\
        map zc rbef = map ec rbefA /\ map zc crp = map ec rsfxA /\
        placed_lines lines_r' srl' alines_r' lo1 hi1 /\ hi1 <= p_byte rp + 1 /\
        cafter (p_byte rp + 1) crp /\ cbefore (nb rest) crp /\ p_byte rp + 1 <= nb rest /\
        nl ts <= p_line rp /\
        rs false rest /\ ordered rest /\ (length rest < length ts)%nat /\
        (forall acc, comsr (srl ++ acc) ts = comsr (rev crp ++ srl' ++ acc) rest) /\
        (forall before lsfx stmts_r,
           group (GBlk before bt lsfx acoms_r alines_r stmts_r) (arows [] ts) =
           group (GTop None (ABlock (mkAB before bt lsfx (rev alines_r') rbefA rsfxA []) :: stmts_r)) (arows [] rest))
  | RErr _ _ =>
      forall before lsfx stmts_r, group (GBlk before bt lsfx acoms_r alines_r stmts_r) (arows [] ts) = None
  | RPanic | RFuel => False
  end.

Lemma block_res_step a a' al al' srl srl' lo1 ts ts' res :
  block_res a' al' srl' lo1 ts' res ->
  nl ts <= nl ts' -> (length ts' <= length ts)%nat ->
  (forall acc, comsr (srl ++ acc) ts = comsr (srl' ++ acc) ts') ->
  (forall before lsfx stmts_r,
     group (GBlk before bt lsfx a al stmts_r) (arows [] ts) =
     group (GBlk before bt lsfx a' al' stmts_r) (arows [] ts')) ->
  block_res a al srl lo1 ts res.
Proof.
  intros H Hnl Hlen Hcom Hg. destruct res as [b rest|p e| |]; cbn [block_res] in *; auto.
  - destruct H as (rp & rbef & lines_r' & srl2 & alines_r' & rbefA & crp & rsfxA & hi1 & H1 & H2 & H3 & H4 & H5 &
                   H6 & H7 & H8 & H9 & H10 & H11 & H12 & H13 & H14).
    exists rp, rbef, lines_r', srl2, alines_r', rbefA, crp, rsfxA, hi1.
    repeat (split; [assumption|]). split; [lia|]. repeat (split; [assumption|]). split; [lia|]. split.
    + intros acc. rewrite Hcom. apply H13.
    + intros before lsfx stmts_r. rewrite Hg. apply H14.
  - intros before lsfx stmts_r. rewrite Hg. apply H.
Qed.

Lemma blank_cond_agree coms_r lines_r acoms_r alines_r srl lo hi :
  map zc coms_r = map ec acoms_r -> placed_lines lines_r srl alines_r lo hi ->
  (is_nil coms_r && negb (is_nil lines_r)) || (negb (is_nil coms_r) && last_token_nonempty coms_r)
  = blank_cond acoms_r alines_r.
Proof.
  intros Hc Hp. unfold blank_cond.
  assert (E1 : is_nil lines_r = is_nil alines_r) by (destruct Hp; reflexivity).
  rewrite E1. destruct coms_r as [|c coms_r], acoms_r as [|a acoms_r]; try discriminate; [reflexivity|].
  cbn in Hc. injection Hc as Hc _. cbn. rewrite Hc. reflexivity.
Qed.

Lemma block_loop_spec : forall f ts coms_r lines_r acoms_r alines_r srl lo1,
  rs false ts -> ordered ts -> (length ts + 1 <= f)%nat ->
  map zc coms_r = map ec acoms_r -> placed_lines lines_r srl alines_r lo1 (nb ts) ->
  block_res acoms_r alines_r srl lo1 ts (block_loop f LEnd start bt lp coms_r lines_r ts).
Proof.
  induction f as [|f IH]; intros ts coms_r lines_r acoms_r alines_r srl lo1 Hrs Ho Hf Hc Hp; [lia|].
  destruct ts as [|t r]; [destruct Hrs|]. cbn [block_loop peek].
  assert (Hxt : tok_lex t) by (cbn in Hrs; apply Hrs).
  (* a row of tokens that is a line of the block *)
  assert (Hline : is_ltok (t_kind t) = true -> is_kpunct (t_kind t) 41 = false ->
    block_res acoms_r alines_r srl lo1 (t :: r)
      (bind (parse_line f LEnd (t :: r))
         (fun l ts1 => block_loop f LEnd start bt lp [] (line_set_before l (frev coms_r) :: lines_r) ts1))).
  { intros Hlt Hn41.
    assert (Hrt : rs true r).
    { cbn in Hrs. destruct Hrs as (_ & Hrs). destruct (t_kind t) as [| | | | |c]; cbn in Hlt; try discriminate; auto.
      apply negb_true_iff in Hlt. rewrite Hlt in Hrs. exact Hrs. }
    destruct (rs_row_split r Hrt) as (lt & e & rest0 & -> & Hlts & He).
    assert (Hlts' : Forall ltokP (t :: lt)) by (constructor; assumption).
    destruct (rs_tail_ok false (t :: lt) e rest0 Hlts' He Hrs) as (Hta & Hlx & Hxe & Hrest).
    rewrite parse_line_row; auto; [|cbn in Hf; rewrite app_length in Hf; cbn in Hf; lia]. cbn [bind].
    destruct (ordered_row (t :: lt) e rest0 Hlts' Ho) as (Hrow & Hle & Hbe & Hoe).
    destruct (after_facts e rest0 Hoe Hta) as (A1 & A2 & A3 & A4 & A5 & A6).
    cbn [app nl nb] in Hrow, Hle, Hbe.
    assert (Hend : p_line (last_end (t_end t) lt) = lpos t /\ bpos t <= p_byte (last_end (t_end t) lt) /\
                   p_byte (last_end (t_end t) lt) <= bpos e).
    { apply (in_row_end _ _ _ (t :: lt) _ Hrow). cbn [map].
      destruct (last_end_in lt (t_end t)) as [->|H]; [left; reflexivity|right; exact H]. }
    destruct Hend as (E1 & E2 & E3).
    set (toks := map t_text (t :: lt)) in *.
    set (endp := last_end (t_end t) lt) in *.
    eapply block_res_step.
    - apply (IH (after e rest0) [] _ [] (mkAL (rev acoms_r) toks (sfx_of e) :: alines_r) (rev (csfx_of e) ++ srl) lo1).
      + apply rs_after; auto.
      + exact A4.
      + cbn [length] in Hf, A6. rewrite app_length in Hf. cbn [length] in Hf. lia.
      + reflexivity.
      + eapply pls_cons; [exact Hp|]. cbn [nb]. exists (frev coms_r). cbn [l_start l_end al_toks al_before al_suffix line_set_before].
        split; [reflexivity|]. split; [rewrite frev_rev, !map_rev, Hc; reflexivity|].
        split; [apply csfx_zc|]. split; [unfold lpos in E1; symmetry; exact E1|]. split; [exact E2|]. split; [lia|].
        split; [apply csfx_after; exact E3|apply csfx_before; assumption].
    - cbn [nl]. lia.
    - cbn [length] in *. rewrite app_length. cbn [length]. lia.
    - intros acc. change (t :: lt ++ e :: rest0) with ((t :: lt) ++ e :: rest0).
      rewrite (comsr_row (t :: lt) e rest0 _ Hlts' He Hta), rev_csfx, <- app_assoc. reflexivity.
    - intros before lsfx stmts_r. change (t :: lt ++ e :: rest0) with ((t :: lt) ++ e :: rest0).
      rewrite (arows_ltoks (t :: lt) Hlts'), app_nil_r.
      rewrite arows_row; auto; [|cbn; destruct (rev (map t_text lt)); discriminate].
      rewrite rev_involutive. fold toks. unfold toks at 1. cbn [map group].
      rewrite <- (kp_rp t Hxt Hlt), Hn41. reflexivity. }
  destruct (t_kind t) as [| | | | |c] eqn:Ek.
  - (* EOF *) cbn [block_res]. intros before lsfx stmts_r. cbn [arows]. rewrite Ek. reflexivity.
  - (* EOLCOMMENT: not at the start of a row *)
    cbn in Hrs. rewrite Ek in Hrs. destruct Hrs as (_ & Hd & _). discriminate.
  - apply Hline; reflexivity.
  - apply Hline; reflexivity.
  - (* COMMENT *)
    assert (Hr : rs false r) by (cbn in Hrs; rewrite Ek in Hrs; apply Hrs).
    pose proof (rs_nonempty _ _ Hr) as Hne. destruct r as [|u r]; [congruence|].
    rewrite advance_more. cbn [bind].
    destruct (ordered_nb_mono _ _ Ho Hne) as (N1 & N2 & N3 & N4).
    eapply block_res_step.
    + apply (IH (u :: r) (mkComment (t_pos t) (t_text t) false :: coms_r) lines_r (t_text t :: acoms_r) alines_r srl lo1); auto.
      * eapply ordered_tail; eauto.
      * cbn [length] in *. lia.
      * cbn [map]. rewrite Hc. reflexivity.
      * eapply placed_lines_hi; [|exact Hp]. exact N1.
    + exact N3.
    + cbn; lia.
    + intros acc. apply comsr_skip. left. rewrite Ek. reflexivity.
    + intros before lsfx stmts_r. cbn [arows]. rewrite Ek. reflexivity.
  - destruct (c =? 10) eqn:E10.
    { (* blank line *)
      assert (Hr : rs false r) by (cbn in Hrs; rewrite Ek, E10 in Hrs; apply Hrs).
      pose proof (rs_nonempty _ _ Hr) as Hne. destruct r as [|u r]; [congruence|].
      rewrite advance_more. cbn [bind].
      destruct (ordered_nb_mono _ _ Ho Hne) as (N1 & N2 & N3 & N4).
      rewrite (blank_cond_agree _ _ _ _ _ _ _ Hc Hp).
      eapply block_res_step.
      + apply (IH (u :: r) (if blank_cond acoms_r alines_r then blank_comment :: coms_r else coms_r) lines_r
                  (if blank_cond acoms_r alines_r then [] :: acoms_r else acoms_r) alines_r srl lo1); auto.
        * eapply ordered_tail; eauto.
        * cbn [length] in *. lia.
        * destruct (blank_cond acoms_r alines_r); [cbn [map]; rewrite Hc; reflexivity|exact Hc].
        * eapply placed_lines_hi; [|exact Hp]. exact N1.
      + exact N3.
      + cbn; lia.
      + intros acc. apply comsr_skip. right. rewrite Ek. cbn. exact E10.
      + intros before lsfx stmts_r. cbn [arows]. rewrite Ek, E10. reflexivity. }
    destruct (c =? 41) eqn:E41.
    2:{ apply Hline; cbn; [rewrite E10; reflexivity|exact E41]. }
    (* the closing parenthesis *)
    apply Z.eqb_eq in E41. subst c.
    assert (Hlt : ltokP t) by (unfold ltokP; rewrite Ek; reflexivity).
    assert (Hrt : rs true r) by (cbn in Hrs; rewrite Ek in Hrs; apply Hrs).
    assert (Htx : t_text t = [41]) by (unfold tok_lex in Hxt; rewrite Ek in Hxt; exact Hxt).
    destruct (rs_row_split r Hrt) as (lt & e & rest0 & -> & Hlts & He).
    assert (Hlts' : Forall ltokP (t :: lt)) by (constructor; assumption).
    destruct (rs_tail_ok false (t :: lt) e rest0 Hlts' He Hrs) as (Hta & Hlx & Hxe & Hrest).
    rewrite advance_app. cbn [bind].
    destruct lt as [|v lt].
    + (* ")" alone *)
      cbn [app peek]. rewrite He. cbn [negb]. rewrite (advance_eol _ _ Hta). cbn [bind block_res].
      cbn [app] in Ho.
      destruct (ordered_next _ _ _ Ho) as (O1 & O2 & O3 & O4).
      pose proof (ordered_strict _ _ Ho (ltok_not_eof _ Hlt)) as Hs.
      pose proof (ordered_tail _ _ Ho) as Hoe.
      destruct (after_facts e rest0 Hoe Hta) as (A1 & A2 & A3 & A4 & A5 & A6).
      exists (t_pos t), (frev coms_r), lines_r, srl, alines_r, (rev acoms_r), (csfx_of e), (sfx_of e), (bpos t).
      split; [reflexivity|]. split; [rewrite frev_rev, !map_rev, Hc; reflexivity|]. split; [apply csfx_zc|].
      split; [exact Hp|]. unfold bpos, bend in *. split; [lia|]. split; [apply csfx_after; unfold bpos; lia|].
      split; [apply csfx_before; assumption|]. split; [lia|]. split; [cbn [nl]; unfold lpos; lia|].
      split; [apply rs_after; auto|]. split; [exact A4|]. split; [cbn [length] in *; lia|]. split.
      * intros acc. rewrite (comsr_row [t] e rest0 _ ltac:(constructor; [exact Hlt|constructor]) He Hta), rev_csfx.
        reflexivity.
      * intros before lsfx stmts_r. change (t :: e :: rest0) with ([t] ++ e :: rest0).
        rewrite (arows_ltoks [t] ltac:(constructor; [exact Hlt|constructor])). cbn [map rev app].
        rewrite arows_row; auto; [|discriminate]. cbn [rev app group]. rewrite Htx. reflexivity.
    + (* ") x": expected newline *)
      inversion Hlts as [|? ? Hv Hlts2]; subst.
      cbn [app peek]. rewrite (ltok_not_eol _ Hv). cbn [negb block_res].
      intros before lsfx stmts_r. change (t :: v :: lt ++ e :: rest0) with ((t :: v :: lt) ++ e :: rest0).
      rewrite (arows_ltoks (t :: v :: lt) Hlts'), app_nil_r.
      rewrite arows_row; auto; [|cbn; destruct (rev (map t_text lt)); discriminate].
      rewrite rev_involutive. cbn [map group]. rewrite Htx. reflexivity.
Qed.
End Block.
