(* Round trip, part 12j: retract directives under a version fixer.  parseToFile reads a
   retract line twice: File.add with dontFixRetract, and fixRetract afterwards with the
   fixer, through the Syntax pointer.  [addX] does both at once; the statement loop with
   addX in place of File.add is compared with the real run in RoundDir9/10.  This file:
   parseVersionInterval applied twice, and what Section Generic (RoundWork.v) needs of addX. *)
From Verif.Base Require Import Bytes Utf8 Strconv QuoteProofs.
From Verif.Semver Require Import Spec Model.
From Verif.Module Require Import Path.
From Verif.Modfile Require Import Syntax Lex Parse Print Directives ProofsLex ProofsDirectives RoundRows
  RoundLexPure4 RoundLexB1 RoundTree RoundTree2 RoundQuote RoundSemver RoundDir1 RoundDir2 RoundDir3 RoundDir4 RoundDir5.

(* ---------------------------------------------------------------- the shapes parseVersionInterval accepts *)

Lemma pvi_shape fx p a a' lo hi rest : parse_version_interval fx p a = (a', Some (lo, hi, rest)) ->
  (exists t0, a = t0 :: rest /\ a' = lo :: rest /\ hi = lo /\ str_eqb t0 lparen_s = false /\ str_eqb t0 lbrack = false /\
              parse_version fx p t0 = (lo, Some lo)) \/
  (exists t1 t3, a = lbrack :: t1 :: comma :: t3 :: rbrack :: rest /\ a' = lbrack :: lo :: comma :: hi :: rbrack :: rest /\
              parse_version fx p t1 = (lo, Some lo) /\ parse_version fx p t3 = (hi, Some hi)).
Proof.
  intros H. unfold parse_version_interval in H.
  destruct a as [|t0 r0]; [discriminate|].
  destruct (str_eqb t0 lparen_s) eqn:E0; [discriminate|].
  destruct (negb (str_eqb t0 lbrack)) eqn:E1.
  - left. apply negb_true_iff in E1.
    destruct (parse_version fx p t0) as [t0' v] eqn:Ev. destruct v as [v|]; [|discriminate].
    pose proof (parse_version_some _ _ _ _ _ Ev) as ->.
    injection H as <- <- <- <-. exists t0. auto 10.
  - right. apply negb_false_iff in E1. apply str_eqb_eq in E1. subst t0.
    destruct r0 as [|t1 r1]; [discriminate|].
    destruct (parse_version fx p t1) as [t1' low] eqn:Ev1. destruct low as [low|]; [|discriminate].
    destruct r1 as [|t2 [|t3 r3]]; try discriminate.
    destruct (str_eqb t2 comma) eqn:E2; [|discriminate]. apply str_eqb_eq in E2. subst t2.
    destruct (parse_version fx p t3) as [t3' high] eqn:Ev3. destruct high as [high|]; [|discriminate].
    destruct r3 as [|t4 r4]; [discriminate|].
    destruct (str_eqb t4 rbrack) eqn:E4; [|discriminate]. apply str_eqb_eq in E4. subst t4.
    pose proof (parse_version_some _ _ _ _ _ Ev1) as ->. pose proof (parse_version_some _ _ _ _ _ Ev3) as ->.
    injection H as <- <- <- <-. exists t1, t3. auto.
Qed.

Lemma pvi_single fx p t0 rest lo : str_eqb t0 lparen_s = false -> str_eqb t0 lbrack = false ->
  parse_version fx p t0 = (lo, Some lo) ->
  parse_version_interval fx p (t0 :: rest) = (lo :: rest, Some (lo, lo, rest)).
Proof. intros E0 E1 Ev. unfold parse_version_interval. rewrite E0, E1. cbn [negb]. rewrite Ev. reflexivity. Qed.

Lemma pvi_interval fx p t1 t3 lo hi rest :
  parse_version fx p t1 = (lo, Some lo) -> parse_version fx p t3 = (hi, Some hi) ->
  parse_version_interval fx p (lbrack :: t1 :: comma :: t3 :: rbrack :: rest) =
  (lbrack :: lo :: comma :: hi :: rbrack :: rest, Some (lo, hi, rest)).
Proof.
  intros E1 E3. unfold parse_version_interval.
  change (str_eqb lbrack lparen_s) with false. change (negb (str_eqb lbrack lbrack)) with false. cbn iota.
  rewrite E1. change (str_eqb comma comma) with true. cbn iota. rewrite E3.
  change (str_eqb rbrack rbrack) with true. reflexivity.
Qed.

(* a valid version is read as itself, whatever idempotent fixer *)
Lemma pv_valid_df p v : is_valid v = true -> parse_version dont_fix p v = (v, Some v).
Proof. intros Hv. destruct (valid_token v Hv) as (Hps & _). unfold parse_version, dont_fix. rewrite Hps. reflexivity. Qed.

Lemma pv_valid_fixed g p t v : parse_version (Some g) p t = (v, Some v) -> is_valid v = true -> fix_idem (Some g) ->
  parse_version (Some g) p v = (v, Some v).
Proof. intros H Hv Hi. apply (parse_version_fix _ _ _ _ _ H Hv Hi). Qed.

(* a token read with dontFixRetract and then with the fixer *)
Lemma tsub_two g p t v1 v2 :
  parse_version dont_fix [] t = (v1, Some v1) -> parse_version (Some g) p v1 = (v2, Some v2) ->
  is_valid v2 = true -> fix_noparen (Some g) -> tsub t v2.
Proof.
  intros H1 H2 Hv Hn. right. destruct (valid_token v2 Hv) as (_ & Hg & _). split; [exact Hg|].
  destruct (parse_version_noparen _ _ _ _ _ H2 Hn) as (L & R).
  split.
  - destruct (is_lp t) eqn:E; [|reflexivity]. apply is_lp_eq in E. subst t. cbn in H1. injection H1 as <-. discriminate.
  - destruct (is_rp t) eqn:E; [|reflexivity]. apply is_rp_eq in E. subst t. cbn in H1. injection H1 as <-. discriminate.
Qed.

Lemma valid_not_lparen v : is_valid v = true -> str_eqb v lparen_s = false.
Proof. intros Hv. apply (valid_not_tok v 40 Hv). lia. Qed.

Lemma valid_not_lbrack v : is_valid v = true -> str_eqb v lbrack = false.
Proof. intros Hv. apply (valid_not_tok v 91 Hv). lia. Qed.

(* File.add (nothing may follow the interval), then fixRetract *)
Lemma pvi_two g p a0 a1 lo1 hi1 a2 lo2 hi2 r2 :
  parse_version_interval dont_fix [] a0 = (a1, Some (lo1, hi1, [])) ->
  parse_version_interval (Some g) p a1 = (a2, Some (lo2, hi2, r2)) ->
  is_valid lo2 = true -> is_valid hi2 = true -> fixer_ok (Some g) ->
  r2 = [] /\ Forall2 tsub a0 a2 /\
  parse_version_interval dont_fix [] a2 = (a2, Some (lo2, hi2, [])) /\
  parse_version_interval (Some g) p a2 = (a2, Some (lo2, hi2, [])).
Proof.
  intros H1 H2 Hlo Hhi (Hi & Hn).
  destruct (pvi_shape _ _ _ _ _ _ _ H1) as [(t0 & -> & -> & -> & E0 & E1 & Ev)|(t1 & t3 & -> & -> & Ev1 & Ev3)].
  - (* one version *)
    destruct (pvi_shape _ _ _ _ _ _ _ H2) as [(u0 & Ea & -> & -> & F0 & F1 & Fv)|(u1 & u3 & Ea & _)]; [|discriminate].
    injection Ea as <- <-.
    split; [reflexivity|]. split; [constructor; [eapply tsub_two; eauto|constructor]|].
    split.
    + apply pvi_single; [apply valid_not_lparen; exact Hlo|apply valid_not_lbrack; exact Hlo|apply pv_valid_df; exact Hlo].
    + apply pvi_single; [apply valid_not_lparen; exact Hlo|apply valid_not_lbrack; exact Hlo|eapply pv_valid_fixed; eauto].
  - (* an interval *)
    destruct (pvi_shape _ _ _ _ _ _ _ H2) as [(u0 & Ea & _ & _ & _ & F1 & _)|(u1 & u3 & Ea & -> & Fv1 & Fv3)].
    { injection Ea as <- _. discriminate. }
    injection Ea as <- <- <-.
    split; [reflexivity|]. split.
    { constructor; [apply tsub_refl|]. constructor; [eapply tsub_two; eauto|]. constructor; [apply tsub_refl|].
      constructor; [eapply tsub_two; eauto|]. constructor; [apply tsub_refl|constructor]. }
    split.
    + apply pvi_interval; apply pv_valid_df; assumption.
    + apply pvi_interval; eapply pv_valid_fixed; eauto.
Qed.

(* ---------------------------------------------------------------- addX *)

Definition retract_s : str := B "retract".

Section X.
Variable g : str -> str -> option str.
Variable p : str.
Hypothesis Hfx : fixer_ok (Some g).

(* what fixRetract does to the tokens of a line *)
Definition fix_toks (toks : list str) : list str * option (str * str * list str) :=
  match toks with
  | [] => ([], None)
  | t0 :: targs =>
      let skip := str_eqb t0 retract_s in
      let (args', res) := parse_version_interval (Some g) p (if skip then targs else t0 :: targs) in
      ((if skip then t0 :: args' else args'), res)
  end.

Definition addX (f : file) (blk : option line_block) (l : line) (ref : line_ref) (verb : str) (args : list str)
  : step file :=
  if is_verb verb "retract" then
    match parse_version_interval dont_fix [] args with
    | (args1, Some (lo1, hi1, rest)) =>
        if negb (Parse.is_nil rest) then err_step f args1
        else
          let full := match blk with None => verb :: args1 | Some _ => args1 end in
          let out := fun full' : list str => match blk with None => tl full' | Some _ => full' end in
          match fix_toks full with
          | (full', Some (lo2, hi2, _)) =>
              ok_step (with_retract f (fd_retract f ++ [mkRetractD lo2 hi2 (directive_comment blk l) ref])) (out full')
          | (full', None) => err_step f (out full')
          end
    | (args1, None) => err_step f args1
    end
  else add true (Some g) f blk l ref verb args.

Lemma addX_ext f blk l ref verb args : ext f (st_file (addX f blk l ref verb args)).
Proof.
  unfold addX. destruct (is_verb verb "retract"); [|apply add_ext].
  destruct (parse_version_interval dont_fix [] args) as [args1 [[[lo1 hi1] rest]|]]; [|apply ext_refl].
  destruct (negb (Parse.is_nil rest)); [apply ext_refl|]. cbv zeta.
  destruct (fix_toks _) as [full' [[[lo2 hi2] r2]|]]; [|apply ext_refl].
  cbn [ok_step st_file]. split; [right; reflexivity|].
  repeat split; first [exists []; symmetry; apply app_nil_r | eexists; reflexivity].
Qed.

(* a block line whose only token reads "retract" cannot be fixed *)
Lemma pvi_df_retract a0 lo1 hi1 targs :
  parse_version_interval dont_fix [] a0 = (retract_s :: targs, Some (lo1, hi1, [])) -> targs = [].
Proof.
  intros H. destruct (pvi_shape _ _ _ _ _ _ _ H) as [(t0 & _ & E & _)|(t1 & t3 & _ & E & _)].
  - injection E as _ <-. reflexivity.
  - discriminate.
Qed.

Lemma is_nil_false {A} (l : list A) : negb (Parse.is_nil l) = false -> l = [].
Proof. destruct l; [reflexivity|discriminate]. Qed.

Lemma addX_sim f1 f2 blk1 blk2 l1 l2 ref1 ref2 verb args :
  st_err (addX f1 blk1 l1 ref1 verb args) = false ->
  vals f1 = vals f2 -> ctx_eq blk1 l1 blk2 l2 ->
  wf_file (st_file (addX f1 blk1 l1 ref1 verb args)) ->
  let args' := st_args (addX f1 blk1 l1 ref1 verb args) in
  st_err (addX f2 blk2 l2 ref2 verb args') = false /\
  st_args (addX f2 blk2 l2 ref2 verb args') = args' /\
  vals (st_file (addX f2 blk2 l2 ref2 verb args')) = vals (st_file (addX f1 blk1 l1 ref1 verb args)) /\
  Forall2 tsub args args'.
Proof.
  intros He Hv Hctx Hwf. cbv zeta. unfold addX in *.
  destruct (is_verb verb "retract") eqn:Vr; [|apply (add_sim (Some g) Hfx); assumption].
  apply is_verb_eq in Vr. subst verb.
  destruct (parse_version_interval dont_fix [] args) as [a1 [[[lo1 hi1] rest]|]] eqn:E1; [|discriminate].
  destruct (negb (Parse.is_nil rest)) eqn:Er; [discriminate|]. apply is_nil_false in Er. subst rest. cbv zeta in *.
  pose proof Hv as Hv'. split_vals Hv'. destruct Hctx as (_ & Cdc).
  assert (Hcase : exists a2 lo2 hi2 r2,
            parse_version_interval (Some g) p a1 = (a2, Some (lo2, hi2, r2)) /\
            st_args (match fix_toks (match blk1 with None => B "retract" :: a1 | Some _ => a1 end) with
                     | (full', Some (lo2, hi2, _)) =>
                         ok_step (with_retract f1 (fd_retract f1 ++ [mkRetractD lo2 hi2 (directive_comment blk1 l1) ref1]))
                                 (match blk1 with None => tl full' | Some _ => full' end)
                     | (full', None) => err_step f1 (match blk1 with None => tl full' | Some _ => full' end)
                     end) = a2 /\
            fd_retract (st_file (match fix_toks (match blk1 with None => B "retract" :: a1 | Some _ => a1 end) with
                     | (full', Some (lo2, hi2, _)) =>
                         ok_step (with_retract f1 (fd_retract f1 ++ [mkRetractD lo2 hi2 (directive_comment blk1 l1) ref1]))
                                 (match blk1 with None => tl full' | Some _ => full' end)
                     | (full', None) => err_step f1 (match blk1 with None => tl full' | Some _ => full' end)
                     end)) = fd_retract f1 ++ [mkRetractD lo2 hi2 (directive_comment blk1 l1) ref1]).
  { destruct blk1 as [b1|].
    - (* a line of a block *)
      unfold fix_toks in *. destruct a1 as [|t0 targs]; [discriminate|].
      destruct (str_eqb t0 retract_s) eqn:Es.
      { exfalso. apply str_eqb_eq in Es. subst t0. pose proof (pvi_df_retract _ _ _ _ E1) as ->. cbn in He. discriminate. }
      destruct (parse_version_interval (Some g) p (t0 :: targs)) as [a2 [[[lo2 hi2] r2]|]] eqn:E2; [|discriminate].
      exists a2, lo2, hi2, r2. auto.
    - unfold fix_toks in *. change (str_eqb (B "retract") retract_s) with true in *. cbv iota zeta in *.
      destruct (parse_version_interval (Some g) p a1) as [a2 [[[lo2 hi2] r2]|]] eqn:E2; [|discriminate].
      exists a2, lo2, hi2, r2. auto. }
  destruct Hcase as (a2 & lo2 & hi2 & r2 & E2 & Ea & Ert).
  assert (Hw : is_valid lo2 = true /\ is_valid hi2 = true).
  { destruct Hwf as (_ & _ & _ & _ & Hrt & _). rewrite Ert in Hrt. apply Forall_last in Hrt. exact Hrt. }
  destruct Hw as (Hlo & Hhi).
  destruct (pvi_two g p args a1 lo1 hi1 a2 lo2 hi2 r2 E1 E2 Hlo Hhi Hfx) as (-> & Hts & R1 & R2).
  rewrite Ea. rewrite R1. cbn [Parse.is_nil negb].
  assert (Hrun2 : fix_toks (match blk2 with None => B "retract" :: a2 | Some _ => a2 end) =
                             (match blk2 with None => B "retract" :: a2 | Some _ => a2 end, Some (lo2, hi2, []))).
  { destruct blk2 as [b2|].
    - unfold fix_toks. destruct a2 as [|t0 targs]; [discriminate|].
      destruct (str_eqb t0 retract_s) eqn:Es.
      { exfalso. apply str_eqb_eq in Es. subst t0. destruct (pvi_shape _ _ _ _ _ _ _ R1) as [(u0 & _ & E & _)|(u1 & u3 & _ & E & _)]; [|discriminate].
        injection E as E _. rewrite <- E in Hlo. discriminate. }
      rewrite R2. reflexivity.
    - unfold fix_toks. change (str_eqb (B "retract") retract_s) with true. cbv iota zeta. rewrite R2. reflexivity. }
  rewrite Hrun2. cbn [ok_step st_err st_args st_file].
  split; [reflexivity|]. split; [destruct blk2; reflexivity|]. split; [|exact Hts].
  unfold vals. rewrite Ert.
  cbn [with_retract fd_module fd_go fd_toolchain fd_godebug fd_require fd_exclude fd_replace fd_retract fd_tool].
  destruct (fix_toks (match blk1 with None => B "retract" :: a1 | Some _ => a1 end)) as [full' [[[x1 x2] x3]|]];
    cbn [ok_step err_step st_file with_retract fd_module fd_go fd_toolchain fd_godebug fd_require fd_exclude fd_replace fd_retract fd_tool] in *.
  - rewrite !map_app. cbn [map rt_low rt_high rt_rationale]. rewrite Cdc, Vmod, Vgo, Vtc, Vgd, Vrq, Vex, Vrp, Vrt, Vtl. reflexivity.
  - exfalso. apply (f_equal (@length retract_d)) in Ert. rewrite app_length in Ert. cbn in Ert. lia.
Qed.
End X.
