(* Round trip, part 8b: the rows of a lexer-produced stream are well formed ([arows_ok]),
   and [group] on well-formed rows delivers well-formed trees ([group_wf]). *)
From Verif.Base Require Import Bytes Utf8.
From Verif.Modfile Require Import Syntax Lex Parse Print ProofsLex RoundRows RoundParse
  RoundLexPure RoundLexPure3 RoundLexPure4 RoundTree.

Lemma tok_wf_ltext t : is_ltok (t_kind t) = true -> tok_wf t -> ltext (t_text t).
Proof.
  intros Hk Hw. exists (t_kind t). split; [exact Hk|]. unfold tok_wf in Hw.
  destruct (t_kind t); cbn in Hk; try discriminate; exact Hw.
Qed.

Lemma rev_cons_ne {A} (a : A) l : rev (a :: l) <> [].
Proof. cbn [rev]. destruct (rev l); discriminate. Qed.

Lemma arows_ok : forall ts acc_r d, rs d ts -> Forall tok_wf ts -> Forall ltext acc_r ->
  (d = true <-> acc_r <> []) -> Forall row_ok (arows acc_r ts).
Proof.
  induction ts as [|t ts IH]; intros acc_r d Hrs Hw Ha Hd; [destruct Hrs|].
  inversion Hw as [|? ? Ht Hw']; subst. cbn [rs] in Hrs. destruct Hrs as (_ & Hrs). cbn [arows].
  assert (Hflush : Forall row_ok (flush_row acc_r)).
  { unfold flush_row. destruct acc_r as [|a acc']; [constructor|]. constructor; [|constructor].
    cbn [row_ok]. split; [apply rev_cons_ne|]. split; [apply Forall_rev; exact Ha|].
    split; [constructor|cbn; lia]. }
  assert (Hltok : is_ltok (t_kind t) = true -> rs true ts -> Forall row_ok (arows (t_text t :: acc_r) ts)).
  { intros Hk Hr. apply (IH _ true); auto; [constructor; [apply tok_wf_ltext; assumption|exact Ha]|].
    split; [discriminate|reflexivity]. }
  destruct (t_kind t) as [| | | | |c] eqn:Ek.
  - exact Hflush.
  - destruct Hrs as (-> & Hrs). constructor.
    + cbn [row_ok]. destruct Hd as (Hd & _). specialize (Hd eq_refl).
      split; [destruct acc_r; [congruence|apply rev_cons_ne]|].
      split; [apply Forall_rev; exact Ha|]. unfold tok_wf in Ht. rewrite Ek in Ht.
      split; [constructor; [exact Ht|constructor]|cbn; lia].
    + apply (IH _ false); auto. split; [discriminate|congruence].
  - apply Hltok; [reflexivity|exact Hrs].
  - apply Hltok; [reflexivity|exact Hrs].
  - destruct Hrs as (-> & Hrs). constructor.
    + cbn [row_ok]. unfold tok_wf in Ht. rewrite Ek in Ht. exact Ht.
    + apply (IH _ false); auto. split; [discriminate|congruence].
  - destruct (c =? 10) eqn:E10.
    + constructor.
      * destruct acc_r as [|a acc']; [exact I|]. cbn [row_ok].
        split; [apply rev_cons_ne|]. split; [apply Forall_rev; exact Ha|]. split; [constructor|cbn; lia].
      * apply (IH _ false); auto. split; [discriminate|congruence].
    + apply Hltok; [cbn; rewrite E10; reflexivity|exact Hrs].
Qed.

(* ---------------------------------------------------------------- group keeps well-formedness *)

Definition cb_okP (cb : option (list str)) : Prop :=
  match cb with Some b => b <> [] /\ Forall comment_text b | None => True end.

Definition gstate_ok (st : gstate) : Prop :=
  match st with
  | GTop cb stmts_r => cb_okP cb /\ Forall astmt_ok stmts_r
  | GBlk before bt lsfx coms_r lines_r stmts_r =>
      Forall comment_text before /\ Forall ltext bt /\ hdr_ok bt /\ sfx_ok lsfx /\
      bcoms_ok (is_nil lines_r) (rev coms_r) /\ alines_ok true (rev lines_r) /\ Forall astmt_ok stmts_r
  end.

Lemma cb_list_ok cb : cb_okP cb -> Forall comment_text (cb_list cb).
Proof. destruct cb as [b|]; cbn; [intros (_ & H); apply Forall_rev; exact H|constructor]. Qed.

Lemma push_acb_ok cb stmts_r : cb_okP cb -> Forall astmt_ok stmts_r -> Forall astmt_ok (push_acb cb stmts_r).
Proof.
  destruct cb as [b|]; cbn; auto. intros (Hne & Hb) Hs. constructor; [|exact Hs].
  cbn. split; [destruct b; [congruence|apply rev_cons_ne]|].
  apply Forall_rev. exact Hb.
Qed.

Lemma Forall_ltext_removelast (l : list str) x : Forall ltext (l ++ [x]) -> Forall ltext l.
Proof. intros H. apply Forall_app in H. apply H. Qed.

Lemma sfx_ok_nil : sfx_ok [].
Proof. split; [constructor|cbn; lia]. Qed.

Lemma last_rev_cons {A} (a : A) l d : last (rev (a :: l)) d = a.
Proof. cbn [rev]. apply last_last. Qed.

Theorem group_wf : forall rows st a, Forall row_ok rows -> gstate_ok st -> group st rows = Some a ->
  Forall astmt_ok a.
Proof.
  induction rows as [|row rows IH]; intros st a Hr Hst Hg.
  - destruct st as [cb stmts_r|]; cbn in Hg; [|discriminate]. injection Hg as <-.
    destruct Hst as (Hcb & Hs). apply Forall_rev. apply push_acb_ok; assumption.
  - inversion Hr as [|? ? Hrow Hr']; subst. cbn [group] in Hg.
    destruct st as [cb stmts_r|before bt lsfx coms_r lines_r stmts_r].
    + destruct Hst as (Hcb & Hs). destruct row as [toks sfx|c|].
      * destruct Hrow as (Hne & Hlt & Hsfx). destruct toks as [|t0 more]; [discriminate|].
        pose proof (scan_content (length more) more [t0] (le_n _)) as Hsc. cbn [rev app] in Hsc.
        destruct (scan [t0] more) as [tk|bt|bt] eqn:Esc.
        -- refine (IH _ _ Hr' _ Hg). split; [exact I|]. constructor; [|exact Hs].
           cbn [astmt_ok al_before al_toks al_suffix]. subst tk.
           split; [apply cb_list_ok; exact Hcb|]. split; [exists t0, more; split; [reflexivity|exact Esc]|].
           split; [exact Hlt|exact Hsfx].
        -- refine (IH _ _ Hr' _ Hg). cbn [gstate_ok is_nil rev alines_ok].
           split; [apply cb_list_ok; exact Hcb|]. rewrite Hsc in Hlt.
           split; [eapply Forall_ltext_removelast; exact Hlt|].
           split; [exists t0, more; split; [symmetry; exact Hsc|exact Esc]|]. split; [exact Hsfx|].
           split; [split; [constructor|split; [exact I|intros _; exact I]]|]. split; [exact I|exact Hs].
        -- refine (IH _ _ Hr' _ Hg). split; [exact I|]. constructor; [|exact Hs].
           cbn [astmt_ok]. unfold ablock_ok. cbn [ab_before ab_toks ab_lsfx ab_lines ab_rbefore ab_rsfx ab_sfx is_nil alines_ok app].
           split; [apply cb_list_ok; exact Hcb|].
           destruct (scan_empty_open (length more) more [t0] bt (le_n _) Esc) as (m & Em & Hm).
           rewrite Hsc in Hlt.
           split; [apply Forall_app in Hlt; apply Hlt|].
           split.
           { exists t0, (m ++ [[40]]). split; [|exact Hm].
             pose proof (scan_content (length (m ++ [[40]])) (m ++ [[40]]) [t0] (le_n _)) as Hc2. rewrite Hm in Hc2.
             cbn [rev app] in Hc2. symmetry. exact Hc2. }
           split; [apply sfx_ok_nil|]. split; [exact I|]. split; [split; [constructor|split; [exact I|intros _; exact I]]|exact Hsfx].
      * refine (IH _ _ Hr' _ Hg). split; [|exact Hs]. unfold cb_add. cbn [cb_okP]. split; [discriminate|].
        constructor; [exact Hrow|]. destruct cb as [b|]; [apply Hcb|constructor].
      * refine (IH _ _ Hr' _ Hg). split; [exact I|]. apply push_acb_ok; assumption.
    + destruct Hst as (Hbef & Hbt & Hh & Hls & Hc & Hl & Hs). destruct row as [toks sfx|c|].
      * destruct Hrow as (Hne & Hlt & Hsfx). destruct toks as [|t0 more]; [discriminate|].
        destruct (is_rp t0) eqn:Erp.
        -- destruct more; [|discriminate]. refine (IH _ _ Hr' _ Hg). split; [exact I|]. constructor; [|exact Hs].
           cbn [astmt_ok]. unfold ablock_ok. cbn [ab_before ab_toks ab_lsfx ab_lines ab_rbefore ab_rsfx ab_sfx].
           rewrite app_nil_r. repeat (split; [assumption|]).
           split; [|exact Hsfx]. destruct lines_r; [exact Hc|]. cbn [is_nil] in Hc |- *.
           destruct (rev (a0 :: lines_r)) eqn:E; [exfalso; exact (rev_cons_ne _ _ E)|exact Hc].
        -- refine (IH _ _ Hr' _ Hg). cbn [gstate_ok rev is_nil].
           repeat (split; [assumption|]). split; [split; [constructor|split; [exact I|intros _; exact I]]|].
           split; [|exact Hs]. apply alines_ok_snoc; [exact Hl|].
           assert (Ef : true && is_nil (rev lines_r) = is_nil lines_r).
           { destruct lines_r as [|x l]; [reflexivity|]. cbn [is_nil andb]. destruct (rev (x :: l)) eqn:E; [|reflexivity].
             exfalso. exact (rev_cons_ne _ _ E). }
           rewrite Ef. unfold aline_ok. cbn [al_before al_toks al_suffix].
           split; [exact Hc|]. split; [exists t0, more; auto|]. split; [exact Hlt|exact Hsfx].
      * refine (IH _ _ Hr' _ Hg). cbn [gstate_ok rev]. repeat (split; [assumption|]).
        split; [|split; assumption]. apply bcoms_ok_snoc; [exact Hc|right; exact Hrow|].
        intros E. pose proof (comment_text_nonnil _ Hrow). congruence.
      * refine (IH _ _ Hr' _ Hg). cbn [gstate_ok]. repeat (split; [assumption|]).
        split; [|split; assumption].
        destruct (blank_cond coms_r lines_r) eqn:Eb; [|exact Hc]. cbn [rev].
        apply bcoms_ok_snoc; [exact Hc|left; reflexivity|]. intros _. unfold blank_cond in Eb.
        destruct coms_r as [|c0 coms']; cbn [is_nil negb andb orb] in Eb.
        -- right. split; [reflexivity|]. rewrite orb_false_r in Eb. destruct (is_nil lines_r); [discriminate|reflexivity].
        -- left. split; [apply rev_cons_ne|].
           rewrite last_rev_cons. destruct c0; [discriminate|discriminate].
Qed.
