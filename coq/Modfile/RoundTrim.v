(* Round trip, part 7a: strings.TrimSpace (Print.v) on a comment text: the result is a
   comment text again, ends with a byte that is not white space, and is a fixed point of
   TrimSpace.  Also: the last byte of a token the lexer delivered is not white space. *)
From Verif.Base Require Import Bytes Utf8.
From Verif.Gen Require Import GenChars GenUnicode.
From Verif.Modfile Require Import Syntax Lex Parse Print ProofsLex ProofsLexNoLF RoundRows
  RoundLexPure RoundLexPure2 RoundLexPure3 RoundLexPure4 RoundLexB1 RoundLexB2.

(* ---------------------------------------------------------------- the bytes of one rune *)

Lemma decode_bytes s r w : s <> [] -> Utf8.decode s = (r, w) ->
  (r < 128 /\ firstn w s = [r]) \/ Forall (fun b => 128 <= b) (firstn w s).
Proof.
  destruct s as [|b0 s]; [congruence|]. intros _. unfold Utf8.decode, cont.
  destruct (Z.ltb_spec b0 128) as [Hb|Hb]; [intros [= <- <-]; left; split; [exact Hb|reflexivity]|].
  assert (H1 : Forall (fun b => 128 <= b) [b0]) by (constructor; [exact Hb|constructor]).
  destruct ((194 <=? b0) && (b0 <=? 223)).
  { destruct s as [|b1 s]; [intros [= <- <-]; right; exact H1|].
    destruct ((128 <=? b1) && (b1 <=? 191)) eqn:C1; intros [= <- <-]; right; [|exact H1].
    cbn. repeat constructor; lia. }
  destruct ((224 <=? b0) && (b0 <=? 239)).
  { destruct s as [|b1 [|b2 s]]; try (intros [= <- <-]; right; exact H1).
    match goal with |- context [if ?c then _ else _] => destruct c eqn:C end; intros [= <- <-]; right; [|exact H1].
    cbn. destruct (b0 =? 224), (b0 =? 237); repeat constructor; lia. }
  destruct ((240 <=? b0) && (b0 <=? 244)).
  { destruct s as [|b1 [|b2 [|b3 s]]]; try (intros [= <- <-]; right; exact H1).
    match goal with |- context [if ?c then _ else _] => destruct c eqn:C end; intros [= <- <-]; right; [|exact H1].
    cbn. destruct (b0 =? 240), (b0 =? 244); repeat constructor; lia. }
  intros [= <- <-]. right. exact H1.
Qed.

(* bytes that are not ASCII white space *)
Definition okb (b : Z) : Prop := b <> 9 /\ b <> 32 /\ b <> 10 /\ b <> 13.

Lemma okb_high b : 128 <= b -> okb b.
Proof. unfold okb. lia. Qed.

Lemma nonsp_okb r : nonsp r = true -> okb r.
Proof.
  unfold nonsp, okb. intros H. repeat split; intros ->; vm_compute in H; discriminate.
Qed.

Lemma end_ok_of_okb x : x <> [] -> Forall okb x -> end_ok x.
Proof.
  intros Hx H. destruct (exists_last Hx) as (pre & b & ->). exists pre, b. split; [reflexivity|].
  apply Forall_app in H as (_ & H). inversion H as [|? ? Hb _]; subst. unfold okb in Hb. tauto.
Qed.

(* ---------------------------------------------------------------- the last byte of a token *)

Lemma pident_okb : forall f s0 s c k x rest, s0 = c ++ s -> Forall okb c ->
  pident f s0 s = PTok k x rest -> Forall okb x.
Proof.
  induction f as [|f IH]; intros s0 s c k x rest E Hc; cbn [pident]; [discriminate|].
  assert (Hdone : PTok KIdent (ptext s0 s) s = PTok k x rest -> Forall okb x).
  { intros [= _ <- _]. rewrite E, ptext_app. exact Hc. }
  destruct (is_ident (ppeek s)) eqn:Eid; [|exact Hdone].
  destruct (has_prefix s [47; 47]); [exact Hdone|].
  destruct (has_prefix s [47; 42]); [discriminate|].
  destruct (prune s) as [[r s1]|] eqn:Hp; [|discriminate].
  destruct (prune_split _ _ _ Hp) as (bs & Hbs & Es & Hd & _).
  assert (Hr : ppeek s = r) by (unfold ppeek; destruct s; [discriminate|]; rewrite Hd; reflexivity).
  rewrite Hr in Eid.
  assert (Hbsok : Forall okb bs).
  { assert (Hne : s <> []) by (destruct s; [discriminate|discriminate]).
    assert (Hf : firstn (length bs) s = bs) by (rewrite Es, firstn_app, firstn_all, Nat.sub_diag; cbn; apply app_nil_r).
    destruct (decode_bytes _ _ _ Hne Hd) as [(Hlt & E1)|Hh]; rewrite Hf in *.
    - rewrite E1. constructor; [|constructor]. apply nonsp_okb. apply is_ident_nonsp. exact Eid.
    - eapply Forall_impl; [|exact Hh]. intros b. apply okb_high. }
  apply (IH s0 s1 (c ++ bs)); [rewrite E, Es, app_assoc; reflexivity|].
  apply Forall_app. split; assumption.
Qed.

Lemma pstring_last q : q < 128 -> forall f s0 s c k x rest, s0 = c ++ s ->
  pstring f q s0 s = PTok k x rest -> exists pre, x = pre ++ [q].
Proof.
  intros Hq. induction f as [|f IH]; intros s0 s c k x rest E; cbn [pstring]; [discriminate|].
  destruct (snil s) eqn:Esn; [discriminate|]. destruct (ppeek s =? 10); [discriminate|].
  destruct (prune s) as [[r s1]|] eqn:Hp; [|discriminate].
  destruct (prune_split _ _ _ Hp) as (bs & Hbs & Es & Hd & _).
  assert (E1 : s0 = (c ++ bs) ++ s1) by (rewrite E, Es, app_assoc; reflexivity).
  destruct (Z.eqb_spec r q) as [->|Hne].
  { intros [= _ <- _]. rewrite E1, ptext_app.
    assert (Hne : s <> []) by (destruct s; discriminate).
    destruct (decode_small _ _ _ Hne Hd Hq) as (Hl & t & Et).
    destruct bs as [|b [|b' bs]]; cbn in Hl; try discriminate; try congruence.
    rewrite Et in Es. cbn in Es. injection Es as <- _. exists c. reflexivity. }
  destruct (_ && _); [|apply (IH _ _ _ _ _ _ E1)].
  destruct (snil s1); [discriminate|]. destruct (ppeek s1 =? 10); [discriminate|].
  destruct (prune s1) as [[r2 s2]|] eqn:Hp2; [|discriminate].
  destruct (prune_split _ _ _ Hp2) as (bs2 & _ & Es2 & _).
  apply (IH s0 s2 (c ++ bs ++ bs2)). rewrite E1, Es2, <- !app_assoc. reflexivity.
Qed.

Theorem lexed_end_ok k x : is_ltok k = true -> lexed k x -> end_ok x.
Proof.
  intros Hk (f & d & r1 & H). unfold ptok0 in H.
  destruct (has_prefix (x ++ r1) [47; 47]) eqn:Ess.
  { destruct (pcomment_shape _ _ _ _ _ _ Ess H) as (E & _). subst k. destruct d; discriminate. }
  destruct (has_prefix (x ++ r1) [47; 42]); [discriminate|].
  destruct (pmain_shape _ _ _ _ _ H) as (_ & Hsh). unfold pmain in H.
  destruct (snil (x ++ r1)); [injection H as <- _ _; discriminate|].
  destruct (is_punct (ppeek (x ++ r1))) eqn:Ep.
  { destruct (prune (x ++ r1)) as [[r s1]|]; [|discriminate]. injection H as Hk' _ _.
    remember (ppeek (x ++ r1)) as c eqn:Ec. clear Ec. subst k.
    destruct Hsh as (Hx & Hp). exists [], c. split; [exact Hx|].
    cbn in Hk. apply negb_true_iff, Z.eqb_neq in Hk. unfold is_punct in Hp.
    repeat (apply orb_true_iff in Hp as [Hp|Hp]); apply Z.eqb_eq in Hp; lia. }
  destruct ((ppeek (x ++ r1) =? 34) || (ppeek (x ++ r1) =? 96)) eqn:Eq.
  { destruct (prune (x ++ r1)) as [[r s1]|] eqn:Hp; [|discriminate].
    destruct (prune_split _ _ _ Hp) as (bs & _ & Es & Hd & _).
    assert (Hr : ppeek (x ++ r1) = r) by (unfold ppeek; destruct (x ++ r1); [discriminate|]; rewrite Hd; reflexivity).
    rewrite Hr in *.
    destruct (pstring_last r ltac:(lia) f _ _ bs k x r1 Es H) as (pre & ->).
    exists pre, r. split; [reflexivity|]. lia. }
  destruct (negb (is_ident (ppeek (x ++ r1)))); [discriminate|].
  pose proof (pident_okb f (x ++ r1) (x ++ r1) [] k x r1 eq_refl (Forall_nil _) H) as Hok.
  destruct (pident_shape f (x ++ r1) (x ++ r1) [] k x r1 eq_refl H) as (-> & _).
  destruct Hsh as [(_ & E)|(Hx & _)]; [rewrite E in Ess; discriminate|].
  apply end_ok_of_okb; assumption.
Qed.

(* ---------------------------------------------------------------- TrimSpace on a comment *)

Definition tryk (rs : str) (k : nat) : bool :=
  let enc := rev (firstn k rs) in
  let (r, w) := Utf8.decode enc in
  Nat.eqb (length enc) k && Nat.eqb w k && unicode_IsSpace r
    && negb ((r =? Utf8.rune_error) && Nat.eqb w 1).

Lemma lsw_unfold rs : last_space_width rs =
  if tryk rs 1 then 1%nat else if tryk rs 2 then 2%nat else if tryk rs 3 then 3%nat
  else if tryk rs 4 then 4%nat else O.
Proof. reflexivity. Qed.

Lemma tryk_spec rs j : tryk rs j = true ->
  exists enc r, rs = rev enc ++ skipn j rs /\ length enc = j /\ Utf8.decode enc = (r, j) /\ unicode_IsSpace r = true.
Proof.
  unfold tryk. destruct (Utf8.decode (rev (firstn j rs))) as [r w] eqn:Hd. intros Hj.
  apply andb_true_iff in Hj as (Hj & _). apply andb_true_iff in Hj as (Hj & Hsp).
  apply andb_true_iff in Hj as (Hl & Hw). apply Nat.eqb_eq in Hl, Hw. subst w.
  exists (rev (firstn j rs)), r.
  split; [rewrite rev_involutive; symmetry; apply firstn_skipn|]. auto.
Qed.

Lemma last_space_width_spec rs k : last_space_width rs = k -> k <> O ->
  exists enc r, rs = rev enc ++ skipn k rs /\ length enc = k /\ Utf8.decode enc = (r, k) /\ unicode_IsSpace r = true.
Proof.
  rewrite lsw_unfold. intros H Hk.
  destruct (tryk rs 1) eqn:E1; [subst k; apply tryk_spec; exact E1|].
  destruct (tryk rs 2) eqn:E2; [subst k; apply tryk_spec; exact E2|].
  destruct (tryk rs 3) eqn:E3; [subst k; apply tryk_spec; exact E3|].
  destruct (tryk rs 4) eqn:E4; [subst k; apply tryk_spec; exact E4|]. congruence.
Qed.

(* no white-space rune has the byte 47 in its encoding *)
Lemma space_enc_no47 enc r : enc <> [] -> Utf8.decode enc = (r, length enc) -> unicode_IsSpace r = true ->
  Forall (fun b => b <> 47) enc.
Proof.
  intros Hne Hd Hsp. destruct (decode_bytes _ _ _ Hne Hd) as [(Hlt & E)|Hh]; rewrite firstn_all in *.
  - rewrite E. constructor; [|constructor]. intros ->. vm_compute in Hsp. discriminate.
  - eapply Forall_impl; [|exact Hh]. intros b Hb. cbn beta in *. lia.
Qed.

Lemma last_space_width_0 b rs : last_space_width (b :: rs) = O -> okb b.
Proof.
  rewrite lsw_unfold.
  destruct (Z.ltb_spec b 128) as [Hb|Hb]; [|intros _; apply okb_high; exact Hb].
  destruct (tryk (b :: rs) 1) eqn:E1; [discriminate|]. intros _.
  unfold tryk in E1. cbn [firstn rev app] in E1. rewrite decode_ascii_head in E1 by exact Hb.
  cbn [length Nat.eqb andb] in E1.
  destruct (unicode_IsSpace b) eqn:Es.
  - assert (Hne : (b =? Utf8.rune_error) = false) by (apply Z.eqb_neq; unfold Utf8.rune_error; lia).
    rewrite Hne in E1. cbn in E1. discriminate.
  - apply nonsp_okb. unfold nonsp. rewrite Es. reflexivity.
Qed.

(* the state of the right trim: the reversed prefix of a comment that still starts with // *)
Lemma trim_right_comment : forall f body, (length body <= f)%nat ->
  exists y tl, trim_right_rev f (rev (47 :: 47 :: body)) = rev (47 :: 47 :: y) /\ body = y ++ tl /\
               last_space_width (rev (47 :: 47 :: y)) = O.
Proof.
  induction f as [|f IH]; intros body Hf.
  - destruct body; [|cbn in Hf; lia]. exists [], []. cbn. split; [reflexivity|]. split; [reflexivity|].
    vm_compute. reflexivity.
  - cbn [trim_right_rev]. destruct (last_space_width (rev (47 :: 47 :: body))) as [|k'] eqn:Ek.
    { exists body, []. split; [reflexivity|]. split; [symmetry; apply app_nil_r|exact Ek]. }
    destruct (last_space_width_spec _ _ Ek ltac:(discriminate)) as (enc & r & Ers & Hl & Hd & Hsp).
    set (k := S k') in *.
    assert (Hne : enc <> []) by (destruct enc; [cbn in Hl; lia|discriminate]).
    rewrite <- Hl in Hd. pose proof (space_enc_no47 enc r Hne Hd Hsp) as H47.
    (* 47 :: 47 :: body = p' ++ enc *)
    assert (Ep : 47 :: 47 :: body = rev (skipn k (rev (47 :: 47 :: body))) ++ enc).
    { rewrite <- (rev_involutive (47 :: 47 :: body)) at 1. rewrite Ers at 1. rewrite rev_app_distr, rev_involutive. reflexivity. }
    set (p' := rev (skipn k (rev (47 :: 47 :: body)))) in *.
    assert (Hp' : exists y, p' = 47 :: 47 :: y).
    { destruct p' as [|a [|b y]].
      - cbn in Ep. destruct enc as [|e enc]; [congruence|]. injection Ep as <- _. inversion H47; congruence.
      - cbn in Ep. injection Ep as <- Ep. destruct enc as [|e enc]; [congruence|]. injection Ep as <- _. inversion H47; congruence.
      - cbn in Ep. injection Ep as <- <- _. eauto. }
    destruct Hp' as (y0 & Ey0).
    assert (Eb : body = y0 ++ enc) by (rewrite Ey0 in Ep; cbn in Ep; injection Ep as Ep; exact Ep).
    assert (Esk : skipn k (rev (47 :: 47 :: body)) = rev (47 :: 47 :: y0)).
    { rewrite <- Ey0. unfold p'. rewrite rev_involutive. reflexivity. }
    rewrite Esk.
    destruct (IH y0) as (y & tl & E1 & E2 & E3).
    { rewrite Eb, app_length in Hf. lia. }
    exists y, (tl ++ enc). split; [exact E1|]. split; [rewrite Eb, E2, app_assoc; reflexivity|exact E3].
Qed.

Theorem trim_space_comment c : comment_text c ->
  comment_text (trim_space c) /\ end_ok (trim_space c) /\ trim_space (trim_space c) = trim_space c /\
  exists tl, c = trim_space c ++ tl.
Proof.
  intros (Hss & Hlf). apply has_prefix_true in Hss as (body & ->). cbn [app] in *.
  assert (Htl : forall body0, trim_left (length (47 :: 47 :: body0)) (47 :: 47 :: body0) = 47 :: 47 :: body0).
  { intros body0. cbn [length trim_left]. rewrite decode_ascii_head by lia. reflexivity. }
  assert (Hts : forall body0 y, trim_right_rev (length (47 :: 47 :: body0)) (rev (47 :: 47 :: body0)) = rev (47 :: 47 :: y) ->
             trim_space (47 :: 47 :: body0) = 47 :: 47 :: y).
  { intros body0 y E. unfold trim_space. cbv zeta. rewrite !Htl. rewrite !frev_rev. rewrite E, rev_involutive. reflexivity. }
  destruct (trim_right_comment (length (47 :: 47 :: body)) body ltac:(cbn; lia)) as (y & tl & E1 & E2 & E3).
  rewrite (Hts body y E1).
  split.
  { split; [apply hp_ss|]. rewrite E2 in Hlf. rewrite !count_lf_cons in *. rewrite count_lf_app in Hlf.
    pose proof (count_lf_nonneg y). pose proof (count_lf_nonneg tl). cbn in *. lia. }
  split.
  { destruct (exists_last (l := 47 :: 47 :: y) ltac:(discriminate)) as (pre & b & Epb).
    exists pre, b. split; [exact Epb|]. rewrite Epb, rev_app_distr in E3. cbn [rev app] in E3.
    apply last_space_width_0 in E3. unfold okb in E3. tauto. }
  split.
  { apply (Hts y y). cbn [length trim_right_rev]. rewrite E3. reflexivity. }
  exists tl. rewrite E2. reflexivity.
Qed.

Lemma trim_space_nil : trim_space [] = [].
Proof. reflexivity. Qed.
