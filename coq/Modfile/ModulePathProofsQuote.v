(* Unquote and "//" (a double-quoted literal whose value has no "//" has none itself, and
   it ends with the quote), and the bytes of a valid import path. *)
From Verif.Base Require Import Bytes Utf8 Strconv.
From Verif.Gen Require Import GenUnicode GenChars.
From Verif.Module Require Import Path PathSpec PathProofs PathProofsLists.
From Verif.Modfile Require Import Syntax Lex ProofsLex ModulePathProofsLex ModulePathProofsStr.

(* ---------------------------------------------------------------- Unquote *)

Lemma unhex1_no47 c x : unhex1 c = Some x -> c <> 47.
Proof. intros H ->. vm_compute in H. discriminate. Qed.

Lemma hex_val_no47 : forall n t acc v, hex_val n t acc = Some v -> no47 (firstn n t).
Proof.
  induction n as [|n IH]; intros t acc v; cbn [hex_val firstn]; [constructor|].
  destruct t as [|c r]; [discriminate|]. destruct (unhex1 c) eqn:E; [|discriminate].
  intros H. constructor; [eapply unhex1_no47; eauto|eapply IH; eauto].
Qed.

Lemma cont_high b : cont b = true -> b <> 47.
Proof. unfold cont. lia. Qed.

(* the bytes of an encoding after the first are continuation bytes *)
Lemma decode_tail_no47 c r rn w : Utf8.decode (c :: r) = (rn, w) -> no47 (firstn (Nat.pred w) r).
Proof.
  unfold Utf8.decode.
  destruct (c <? 128); [intros [= <- <-]; constructor|].
  destruct ((194 <=? c) && (c <=? 223)).
  { destruct r as [|b1 r]; [intros [= <- <-]; constructor|].
    destruct (cont b1) eqn:C1; intros [= <- <-]; cbn; constructor; [apply cont_high; exact C1|constructor]. }
  destruct ((224 <=? c) && (c <=? 239)).
  { destruct r as [|b1 [|b2 r]]; try (intros [= <- <-]; constructor).
    match goal with |- context[if ?x then _ else _] => destruct x eqn:C end; intros [= <- <-]; cbn; [|constructor].
    apply andb_true_iff in C as [C C2]. apply andb_true_iff in C as [C0 C1].
    constructor; [destruct (c =? 224); lia|]. constructor; [apply cont_high; exact C2|constructor]. }
  destruct ((240 <=? c) && (c <=? 244)).
  { destruct r as [|b1 [|b2 [|b3 r]]]; try (intros [= <- <-]; constructor).
    match goal with |- context[if ?x then _ else _] => destruct x eqn:C end; intros [= <- <-]; cbn; [|constructor].
    apply andb_true_iff in C as [C C3]. apply andb_true_iff in C as [C C2]. apply andb_true_iff in C as [C0 C1].
    constructor; [destruct (c =? 240); lia|]. constructor; [apply cont_high; exact C2|].
    constructor; [apply cont_high; exact C3|constructor]. }
  intros [= <- <-]; constructor.
Qed.

Ltac esc1 e :=
  match goal with
  | |- context [if e =? ?k then _ else _] =>
      let E := fresh "E" in
      destruct (e =? k) eqn:E;
      [apply Z.eqb_eq in E; intros [= <- <-]; cbn [Nat.pred firstn]; constructor; [lia|constructor]|]
  end.

(* the input bytes of one character after the first: no '/' *)
Lemma unquote_char_n_no47 c r bs n : unquote_char_n 34 (c :: r) = Some (bs, n) ->
  no47 (firstn (Nat.pred n) r).
Proof.
  unfold unquote_char_n.
  destruct ((c =? 34) && _); [discriminate|].
  destruct (128 <=? c).
  { destruct (Utf8.decode (c :: r)) as [rn w] eqn:E. intros [= <- <-]. eapply decode_tail_no47; eauto. }
  destruct (negb (c =? 92)); [intros [= <- <-]; constructor|].
  destruct r as [|e t]; [discriminate|].
  esc1 e. esc1 e. esc1 e. esc1 e. esc1 e. esc1 e. esc1 e.
  destruct (e =? 120) eqn:Ex.
  { apply Z.eqb_eq in Ex. destruct (hex_val 2 t 0) eqn:Eh; [|discriminate]. intros [= <- <-].
    cbn [Nat.pred]. rewrite firstn_cons. constructor; [lia|eapply hex_val_no47; eauto]. }
  destruct (e =? 117) eqn:Eu.
  { apply Z.eqb_eq in Eu. destruct (hex_val 4 t 0) eqn:Eh; [|discriminate].
    destruct (valid_rune z); [|discriminate]. intros [= <- <-].
    cbn [Nat.pred]. rewrite firstn_cons. constructor; [lia|eapply hex_val_no47; eauto]. }
  destruct (e =? 85) eqn:EU.
  { apply Z.eqb_eq in EU. destruct (hex_val 8 t 0) eqn:Eh; [|discriminate].
    destruct (valid_rune z); [|discriminate]. intros [= <- <-].
    cbn [Nat.pred]. rewrite firstn_cons. constructor; [lia|eapply hex_val_no47; eauto]. }
  destruct (is_octal e) eqn:Eo.
  { destruct t as [|o1 [|o2 t']]; try discriminate.
    destruct (is_octal o1 && is_octal o2) eqn:Eoo; [|discriminate].
    destruct (255 <? _); [discriminate|]. intros [= <- <-].
    apply andb_true_iff in Eoo as [Eo1 Eo2]. unfold is_octal in *.
    cbn [Nat.pred firstn]. repeat constructor; lia. }
  esc1 e.
  destruct ((e =? 39) || (e =? 34)) eqn:Eq; [|discriminate].
  destruct (e =? 34) eqn:E34; [|discriminate]. apply Z.eqb_eq in E34. intros [= <- <-].
  cbn [Nat.pred firstn]. constructor; [lia|constructor].
Qed.

Lemma dq_skip_some : forall k r t, unquote_dq k r = Some t -> unquote_dq O (skipn k r) = Some t.
Proof.
  induction k as [|k IH]; intros r t H; [exact H|].
  destruct r as [|c r]; [discriminate|]. cbn [unquote_dq] in H. cbn [skipn]. apply IH. exact H.
Qed.

Lemma dq_47 r : unquote_dq O (47 :: r) = match unquote_dq O r with Some t => Some (47 :: t) | None => None end.
Proof. reflexivity. Qed.

(* one step of the double-quoted body at a byte other than '/' *)
Lemma dq_step c r out : c <> 47 -> unquote_dq O (c :: r) = Some out ->
  (c = 34 /\ r = [] /\ out = []) \/
  exists bs k t, out = bs ++ t /\ no47 (firstn k r) /\ unquote_dq O (skipn k r) = Some t.
Proof.
  intros Hc. cbn [unquote_dq].
  destruct (Z.eqb_spec c 34) as [->|H34].
  { destruct r; cbn; [intros [= <-]; left; auto|discriminate]. }
  destruct (c =? 10); [discriminate|].
  destruct (unquote_char_n 34 (c :: r)) as [[bs k]|] eqn:Eu; [|discriminate].
  destruct (unquote_dq (Nat.pred k) r) as [t|] eqn:Et; [|discriminate].
  intros [= <-]. right. exists bs, (Nat.pred k), t. split; [reflexivity|].
  split; [eapply unquote_char_n_no47; eauto|apply dq_skip_some; exact Et].
Qed.

Lemma dq_dslash : forall n s out, (length s <= n)%nat -> unquote_dq O s = Some out ->
  contains_dslash s = true -> contains_dslash out = true.
Proof.
  induction n as [|n IH]; intros s out Hl Hu Hcd.
  { destruct s; [discriminate|cbn in Hl; lia]. }
  destruct s as [|c r]; [discriminate|]. cbn [length] in Hl.
  destruct (Z.eq_dec c 47) as [->|Hc].
  - rewrite dq_47 in Hu. destruct (unquote_dq O r) as [t|] eqn:Er; [|discriminate]. injection Hu as <-.
    destruct r as [|b r']; [discriminate|]. cbn [contains_dslash] in Hcd.
    apply orb_true_iff in Hcd as [Hcd|Hcd].
    + apply andb_true_iff in Hcd as [_ Hb]. apply Z.eqb_eq in Hb. subst b.
      rewrite dq_47 in Er. destruct (unquote_dq O r') as [t'|]; [|discriminate]. injection Er as <-. reflexivity.
    + apply dslash_cons. apply (IH (b :: r') t); [lia|exact Er|exact Hcd].
  - destruct (dq_step c r out Hc Hu) as [(-> & -> & ->)|(bs & k & t & -> & Hno & Ht)]; [discriminate|].
    apply dslash_app_r. apply (IH (skipn k r) t); [rewrite skipn_length; lia|exact Ht|].
    rewrite <- Hcd. rewrite <- (firstn_skipn k r) at 2.
    change (c :: firstn k r ++ skipn k r) with ((c :: firstn k r) ++ skipn k r).
    symmetry. apply dslash_app_no47. constructor; assumption.
Qed.

Lemma last_app_ne {A} (a b : list A) d : b <> [] -> last (a ++ b) d = last b d.
Proof.
  intros Hb. induction a as [|x a IH]; [reflexivity|]. cbn [app].
  destruct (a ++ b) eqn:E; [destruct a; cbn in E; congruence|]. rewrite <- E in *. cbn [last]. rewrite E. rewrite <- E. exact IH.
Qed.

(* a double-quoted body ends with the quote *)
Lemma dq_last : forall n s out, (length s <= n)%nat -> unquote_dq O s = Some out -> last s 0 = 34.
Proof.
  induction n as [|n IH]; intros s out Hl Hu.
  { destruct s; [discriminate|cbn in Hl; lia]. }
  destruct s as [|c r]; [discriminate|]. cbn [length] in Hl.
  assert (Hsuf : forall k t, unquote_dq O (skipn k r) = Some t -> last (c :: r) 0 = 34).
  { intros k t Ht. assert (Hne : skipn k r <> []) by (intros E; rewrite E in Ht; discriminate).
    rewrite <- (firstn_skipn k r). change (c :: firstn k r ++ skipn k r) with ((c :: firstn k r) ++ skipn k r).
    rewrite last_app_ne by exact Hne. apply (IH _ t); [rewrite skipn_length; lia|exact Ht]. }
  destruct (Z.eq_dec c 47) as [->|Hc].
  - rewrite dq_47 in Hu. destruct (unquote_dq O r) as [t|] eqn:Er; [|discriminate].
    apply (Hsuf O t). exact Er.
  - destruct (dq_step c r out Hc Hu) as [(-> & -> & ->)|(bs & k & t & -> & Hno & Ht)]; [reflexivity|].
    eapply Hsuf; eauto.
Qed.

(* Unquote of a double-quoted literal *)
Lemma unquote_dq_facts a p : has_prefix a [34] = true -> unquote a = Some p ->
  (contains_dslash a = true -> contains_dslash p = true) /\ last a 0 = 34 /\ hd 0 a = 34.
Proof.
  intros Hp. apply has_prefix_true in Hp as (body & ->). cbn [app unquote].
  change (34 =? 96) with false. change (34 =? 34) with true. cbn iota. intros Hu.
  assert (Hne : body <> []) by (intros ->; discriminate).
  split; [|split; [|reflexivity]].
  - intros Hcd. apply (dq_dslash (length body) body p); [lia|exact Hu|].
    destruct body as [|b body']; [congruence|]. cbn [contains_dslash] in Hcd. exact Hcd.
  - change (34 :: body) with ([34] ++ body). rewrite last_app_ne by exact Hne.
    apply (dq_last (length body) body p); [lia|exact Hu].
Qed.

(* ---------------------------------------------------------------- bytes of an import path *)

Definition pc (c : Z) : Prop := module_importPathOK c = true \/ c = 47.

Lemma runes_w_ascii : forall f s, (length s <= f)%nat ->
  Forall (fun rw => 0 <= fst rw < 128) (runes_w f s) -> map fst (runes_w f s) = s.
Proof.
  induction f as [|f IH]; intros s Hl H.
  { destruct s; [reflexivity|cbn in Hl; lia]. }
  cbn [runes_w] in *. destruct s as [|b s]; [reflexivity|].
  destruct (Utf8.decode (b :: s)) as [r w] eqn:E. inversion H as [|? ? Hr Hrest]; subst. cbn [fst] in Hr.
  destruct (decode_small (b :: s) r w ltac:(discriminate) E ltac:(lia)) as (-> & t & Et).
  injection Et as <- <-. cbn [skipn map fst] in *. f_equal. apply IH; [cbn in Hl; lia|exact Hrest].
Qed.

Lemma elem_bytes e : forallb (char_ok KImport) (runes e) = true -> Forall pc e.
Proof.
  intros H. rewrite forallb_forall in H.
  assert (Ha : Forall (fun rw => 0 <= fst rw < 128) (runes_w (length e) e)).
  { apply Forall_forall. intros rw Hin. apply importPathOK_ascii. apply (H (fst rw)).
    unfold runes. apply in_map. exact Hin. }
  pose proof (runes_w_ascii (length e) e (le_n _) Ha) as E. fold (runes e) in E.
  apply Forall_forall. intros c Hin. left. apply (H c). rewrite E. exact Hin.
Qed.

Lemma Forall_join (Q : Z -> Prop) sep : Q sep -> forall l, Forall (Forall Q) l -> Forall Q (PathSpec.join sep l).
Proof.
  intros Hs. induction l as [|e l IH]; intros H; [constructor|]. inversion H as [|? ? He Hl]; subst.
  destruct l as [|e2 l']; [exact He|].
  change (PathSpec.join sep (e :: e2 :: l')) with (e ++ sep :: PathSpec.join sep (e2 :: l')).
  apply Forall_app. split; [exact He|]. constructor; [exact Hs|apply IH; exact Hl].
Qed.

Lemma import_path_bytes p : check_import_path p = None -> Forall pc p.
Proof.
  intros H. apply check_path_none in H as (_ & _ & _ & _ & _ & Hall).
  rewrite <- (join_split_on 47 p). apply Forall_join; [right; reflexivity|].
  eapply Forall_impl; [|exact Hall]. intros e He. apply check_elem_none in He as (_ & _ & _ & _ & Hc & _).
  apply elem_bytes. exact Hc.
Qed.

Lemma pc_facts c : pc c ->
  ascii_ns c /\ is_ident c = true /\ c <> 34 /\ c <> 96 /\ c <> 39 /\ c <> 10.
Proof.
  intros Hc.
  assert (Hr : 0 <= c < 128) by (destruct Hc as [Hc| ->]; [apply importPathOK_ascii; exact Hc|lia]).
  assert (HP : module_importPathOK c || (c =? 47) = true).
  { destruct Hc as [Hc| ->]; [rewrite Hc; reflexivity|apply orb_true_r]. }
  pose proof (sweep_ascii (fun r => module_importPathOK r || (r =? 47))
                (fun r => negb (unicode_IsSpace r) && is_ident r && negb (r =? 34) && negb (r =? 96)
                          && negb (r =? 39) && negb (r =? 10))
                ltac:(vm_compute; reflexivity) c Hr HP) as HQ.
  cbn beta in HQ. repeat (apply andb_true_iff in HQ; destruct HQ as [HQ ?]).
  repeat match goal with H : negb _ = true |- _ => apply negb_true_iff in H end.
  repeat match goal with H : (_ =? _) = false |- _ => apply Z.eqb_neq in H end.
  repeat split; auto; lia.
Qed.

Lemma import_path_head p : check_import_path p = None -> p <> [] /\ hd 0 p <> 47 /\ last p 0 <> 47 /\ contains_dslash p = false.
Proof.
  intros H. apply check_path_none in H as (_ & Hn & _ & Hd & Hl & Hall).
  split; [intros ->; discriminate|]. split; [|split; [apply Z.eqb_neq; exact Hl|exact Hd]].
  destruct p as [|c r]; [discriminate|]. cbn [hd]. intros ->.
  cbn [split_on] in Hall. change (47 =? 47) with true in Hall. cbn iota in Hall.
  inversion Hall as [|? ? He _]; subst. vm_compute in He. discriminate.
Qed.
