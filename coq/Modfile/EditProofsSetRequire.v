(* C15: SetRequire preserves coherence, outside the one corner where setIndirect does not
   reach the requested marking. *)
From Coq Require Import Permutation.
From Verif.Base Require Import Bytes.
From Verif.Modfile Require Import EditModel EditOps EditSpec EditProofsTyped EditProofsHeap EditProofsCoherent
  EditProofsCleanup EditProofsAddLine EditProofsAdd EditProofsUpsert EditProofsSort EditProofsSeq EditProofsExact EditProofsBlocks.

(* setIndirect reaches the requested marking on this line (it does not when the comment
   reads "// indirect; indirect; ...": removing the first marker exposes the second) *)
Definition settable (l : hline) : Prop :=
  forall v b, is_indirect (set_indirect_line (set_version_line l v) b) = b.

(* what coherence says about the tokens of the line of a live require entry *)
Lemma require_line_tokens s es r i :
  CoherentS s es -> In (ent_require r) es -> rq_syn r = Some i -> nonempty (rq_path r) = true ->
  hl_tok (sget s i) = (if hl_inb (sget s i) then [auto_quote (rq_path r); rq_vers r]
                       else v_require :: [auto_quote (rq_path r); rq_vers r]).
Proof.
  intros [Hs [_ Hp]] Hin Hsyn Hlive.
  assert (Hv : In (i, v_require, [auto_quote (rq_path r); rq_vers r; flag (rq_ind r)]) (tree_view s)).
  { eapply Permutation_in; [symmetry; exact Hp|]. apply in_flat_map. exists (ent_require r). split; [exact Hin|].
    unfold ent_view; cbn. rewrite Hsyn, Hlive. left. reflexivity. }
  unfold tree_view in Hv. apply in_flat_map in Hv. destruct Hv as [[j w] [Hjw Hv]].
  destruct Hs as [_ H2 _]. rewrite Forall_forall in H2. destruct (H2 _ Hjw) as [_ [Hinb _]]. cbn [fst snd] in Hinb.
  unfold line_view in Hv. cbn [fst snd] in Hv.
  destruct (hl_tok (sget s j)) as [|t ts] eqn:Et; [destruct Hv|].
  destruct w as [bv|]; destruct Hv as [Hv|[]]; injection Hv as -> -> Hn; rewrite Hinb.
  - unfold norm_args in Hn. cbn in Hn.
    change ((t :: ts) ++ [flag (is_indirect (sget s i))] = [auto_quote (rq_path r); rq_vers r] ++ [flag (rq_ind r)]) in Hn.
    apply app_inj_tail in Hn. destruct Hn as [Hn _]. rewrite Et. exact Hn.
  - unfold norm_args in Hn. cbn in Hn.
    change (ts ++ [flag (is_indirect (sget s i))] = [auto_quote (rq_path r); rq_vers r] ++ [flag (rq_ind r)]) in Hn.
    apply app_inj_tail in Hn. destruct Hn as [Hn _]. rewrite Et, Hn. reflexivity.
Qed.

Lemma set_version_line_tokens l (a old v : str) :
  hl_tok l = (if hl_inb l then [a; old] else v_require :: [a; old]) ->
  hl_tok (set_version_line l v) = (if hl_inb l then [a; v] else v_require :: [a; v])
  /\ hl_inb (set_version_line l v) = hl_inb l.
Proof.
  intros H. unfold set_version_line. rewrite H. destruct (hl_inb l) eqn:E; cbn; rewrite ?E; auto.
Qed.

Lemma live_syn_unique s A (e : ent) B i :
  CoherentS s (A ++ e :: B) -> en_syn e = Some i -> en_live e = true ->
  forall e2, In e2 B -> en_syn e2 = Some i -> en_live e2 = true -> False.
Proof.
  intros Hc Hs Hl e2 Hin Hs2 Hl2. pose proof (typedS_ids_nodup _ _ Hc) as Hnd.
  rewrite flat_map_app in Hnd. cbn [flat_map] in Hnd. unfold ids in Hnd. rewrite !map_app in Hnd.
  apply NoDup_app_r in Hnd.
  assert (Hv : ent_view e = [(i, en_verb e, en_args e)]) by (unfold ent_view; rewrite Hs, Hl; reflexivity).
  rewrite Hv in Hnd. cbn [map vid fst app] in Hnd. inversion Hnd as [|? ? Hni _]; subst. apply Hni.
  apply in_map_iff. exists (i, en_verb e2, en_args e2). split; [reflexivity|].
  apply in_flat_map. exists e2. split; [exact Hin|]. unfold ent_view. rewrite Hs2, Hl2. left. reflexivity.
Qed.

Lemma set_require_loop_S B : forall l A s N s' l' N',
  CoherentS s (A ++ map ent_require l ++ B) ->
  (forall r i, In r l -> rq_syn r = Some i -> nonempty (rq_path r) = true -> settable (sget s i)) ->
  set_require_loop s N l = Some (s', l', N') ->
  CoherentS s' (A ++ map ent_require l' ++ B).
Proof.
  induction l as [|r rest IH]; intros A s N s' l' N' Hc Hset H; cbn in H.
  - injection H as <- <- _. exact Hc.
  - destruct (rq_syn r) as [i|] eqn:Hs; [|discriminate].
    cbn [map app] in Hc.
    assert (E : forall x X, A ++ x :: X = (A ++ [x]) ++ X) by (intros x X; rewrite <- app_assoc; reflexivity).
    destruct (amap_get (rq_path r) N) as [[v ind]|] eqn:Hg.
    + destruct (set_require_loop _ _ rest) as [[[s1 l1] N1]|] eqn:Hr; [|discriminate]. injection H as <- <- _.
      cbn [map app].
      destruct (nonempty (rq_path r)) eqn:Hlive.
      * (* a live entry: its line is rewritten *)
        set (l0 := sget s i). set (lnew := set_indirect_line (set_version_line l0 v) ind) in *.
        pose proof (require_line_tokens s _ r i Hc (in_elt _ _ _) Hs Hlive) as Htok. fold l0 in Htok.
        destruct (set_version_line_tokens l0 _ _ v Htok) as [Htok1 Hinb1].
        destruct (set_indirect_line_tok (set_version_line l0 v) ind) as [Htok2 Hinb2].
        assert (Hne : [auto_quote (rq_path r); v] <> []) by discriminate.
        assert (Hinb' : hl_inb lnew = hl_inb (sget s i)) by (unfold lnew; rewrite Hinb2, Hinb1; reflexivity).
        assert (Htok' : hl_tok lnew = (if hl_inb (sget s i) then [auto_quote (rq_path r); v] else v_require :: [auto_quote (rq_path r); v])).
        { unfold lnew. rewrite Htok2, Htok1. reflexivity. }
        assert (Hargs : en_args (ent_require (mkRequire (rq_path r) v ind (Some i)))
                        = norm_args v_require [auto_quote (rq_path r); v] lnew).
        { pose proof (Hset r i (or_introl eq_refl) Hs Hlive v ind) as Hi. fold l0 in Hi. fold lnew in Hi.
          cbn [ent_require en_args rq_path rq_vers rq_ind]. unfold norm_args. cbn. rewrite Hi. reflexivity. }
        pose proof (coherentS_rewrite s A (map ent_require rest ++ B) (ent_require r)
                      (ent_require (mkRequire (rq_path r) v ind (Some i))) i v_require [auto_quote (rq_path r); v] lnew
                      Hc Hs Hlive eq_refl eq_refl Hlive eq_refl Hne Hinb' Htok' Hargs) as Hc1.
        rewrite E. rewrite E in Hc1. eapply IH; [exact Hc1 | | exact Hr].
        intros r2 j Hin2 Hs2 Hl2. rewrite sget_sset_other.
        -- apply (Hset r2 j); [right; exact Hin2 | exact Hs2 | exact Hl2].
        -- intros <-. eapply (live_syn_unique s A (ent_require r) (map ent_require rest ++ B) i Hc Hs Hlive (ent_require r2));
             [apply in_app_iff; left; apply in_map; exact Hin2 | exact Hs2 | exact Hl2].
      * (* a cleared entry with a line: impossible under ent_ok *)
        exfalso. destruct Hc as [_ [He _]]. apply Forall_app in He. destruct He as [_ He]. inversion He as [|? ? Hok _]; subst.
        unfold ent_ok in Hok. cbn in Hok. rewrite Hlive, Hs in Hok. discriminate.
    + destruct (set_require_loop _ _ rest) as [[[s1 l1] N1]|] eqn:Hr; [|discriminate]. injection H as <- <- _.
      cbn [map app].
      pose proof (coherentS_kill_one s A (map ent_require rest ++ B) (ent_require r) (ent_require zero_require) i Hc Hs eq_refl eq_refl) as Hc1.
      rewrite E. rewrite E in Hc1. eapply IH; [exact Hc1 | | exact Hr].
      intros r2 j Hin2 Hs2 Hl2.
      destruct (Nat.eq_dec i j) as [<-|Hn]; [|rewrite mark_removed_other by exact Hn; apply (Hset r2 j); [right|..]; assumption].
      exfalso.
      destruct (nonempty (rq_path r)) eqn:Hlive.
      * eapply (live_syn_unique s A (ent_require r) (map ent_require rest ++ B) i Hc Hs Hlive (ent_require r2));
          [apply in_app_iff; left; apply in_map; exact Hin2 | exact Hs2 | exact Hl2].
      * destruct Hc as [_ [He _]]. apply Forall_app in He. destruct He as [_ He]. inversion He as [|? ? Hok _]; subst.
        unfold ent_ok in Hok. cbn in Hok. rewrite Hlive, Hs in Hok. discriminate.
Qed.

Lemma fold_add_new_require_coherent (N : list (str * (str * bool))) : forall f,
  (forall k, In k (map fst N) -> k <> []) -> Coherent f ->
  Coherent (fold_left (fun g kv => add_new_require g (fst kv) (fst (snd kv)) (snd (snd kv))) N f).
Proof.
  induction N as [|[p [v ind]] r IH]; intros f Hne Hc; cbn [fold_left]; [exact Hc|].
  apply IH; [intros k Hk; apply Hne; right; exact Hk|].
  apply add_new_require_coherent; [apply Hne; left; reflexivity | exact Hc].
Qed.

(* every live require entry's line can be given either marking by setIndirect *)
Definition RequireSettable (f : file) : Prop :=
  forall r i, In r (f_require f) -> rq_syn r = Some i -> nonempty (rq_path r) = true -> settable (sget (fsyn f) i).

Theorem set_require_coherent f l f' :
  distinct_paths (map req_path l) = true -> Coherent f -> RequireSettable f ->
  set_require f l = Some f' -> Coherent f'.
Proof.
  intros Hd Hc Hset H. unfold set_require in H.
  apply distinct_paths_spec in Hd. destruct Hd as [Hnd Hne].
  destruct (set_require_need_perm l []) as [N [HN HP]]; [cbn; rewrite app_nil_r; exact Hnd|].
  rewrite HN in H. rewrite app_nil_r in HP.
  destruct (set_require_loop (fsyn f) N (f_require f)) as [[[s rs] N']|] eqn:Hl; [|discriminate]. injection H as <-.
  apply sort_blocks_coherent. apply fold_add_new_require_coherent.
  - assert (HkN : Permutation (keys N) (map req_path l)).
    { rewrite (keys_perm _ _ HP). unfold keys. rewrite map_map. reflexivity. }
    destruct (set_require_loop_perm _ _ _ _ _ _ Hl) as [_ [_ P3]].
    + eapply Permutation_NoDup; [symmetry; exact HkN | exact Hnd].
    + intros k Hk. rewrite Forall_forall in Hne. apply Hne. eapply Permutation_in; eauto.
    + exact P3.
  - apply coherent_S. rewrite entries_require. cbn [fsyn with_require with_syn f_require].
    apply coherent_S in Hc. rewrite entries_require in Hc.
    eapply set_require_loop_S; eauto.
Qed.

(* the corner excluded by RequireSettable is real: on this coherent file SetRequire with
   indirect = false leaves a line that is still marked indirect *)
Definition corner_file : file :=
  mkEFile (mkSyn [mkHL (mkComs [] [B "// indirect; indirect; x"] []) [B "require"; B "a.b/c"; B "v1.0.0"] false] 0 no_coms
                 [SLine 0%nat])
          None None None []
          [mkRequire (B "a.b/c") (B "v1.0.0") true (Some 0%nat)]
          [] [] [] [] [].

Lemma set_require_coherent_refuted :
  coherentb corner_file = true /\
  exists f', set_require corner_file [(B "a.b/c", B "v1.0.0", false)] = Some f' /\ coherentb f' = false
             /\ k_require (abs f') = [(B "a.b/c", B "v1.0.0", false)]
             /\ is_indirect (sget (fsyn f') 0%nat) = true.
Proof. split; [vm_compute; reflexivity|]. eexists. split; [vm_compute; reflexivity|]. vm_compute. auto. Qed.
