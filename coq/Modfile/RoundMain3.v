(* Round trip, part 10b: the theorems format_reparse_same and format_idempotent. *)
From Verif.Base Require Import Bytes Utf8.
From Verif.Modfile Require Import Syntax Lex Parse Print ProofsLex ProofsRound RoundRows RoundParse RoundParse5
  RoundLexPure RoundLexPure3 RoundLexPure4 RoundLexB1 RoundLexB2 RoundLexB4 RoundMain1
  RoundTrim RoundTree RoundTree2 RoundTree3 RoundPrint RoundPrint3 RoundMain2.

(* ---------------------------------------------------------------- the printed lines are well formed *)

Lemma tcom_of_comment c : comment_text c -> tcom_ok (trim_space c).
Proof. intros H. destruct (trim_space_comment c H) as (A & B & _). split; assumption. Qed.

Lemma tsfx_of_sfx s : sfx_ok s -> tsfx_ok (tcoms s).
Proof.
  intros (H & Hl). split; [|unfold tcoms; rewrite map_length; exact Hl].
  unfold tcoms. apply Forall_map. eapply Forall_impl; [|exact H]. intros c. apply tcom_of_comment.
Qed.

Lemma coms_pl_ok m cs : Forall comment_text cs -> Forall pl_ok (map (com_pl m) cs).
Proof. intros H. apply Forall_map. eapply Forall_impl; [|exact H]. intros c Hc. unfold com_pl. cbn [pl_ok]. apply tcom_of_comment. exact Hc. Qed.

Lemma brows_pl_ok m cs : Forall bcom_ok cs -> Forall pl_ok (map (fun c => PLRow m (brow c)) cs).
Proof.
  intros H. apply Forall_map. eapply Forall_impl; [|exact H]. intros c [->|Hc]; [exact I|].
  pose proof (comment_text_nonnil _ Hc). unfold brow. destruct c; [congruence|]. cbn [snil pl_ok]. apply tcom_of_comment. exact Hc.
Qed.

Lemma lp_ltext : ltext [40].
Proof.
  exists (KPunct 40). split; [reflexivity|]. exists 2%nat, false, []. reflexivity.
Qed.
Lemma rp_ltext : ltext [41].
Proof.
  exists (KPunct 41). split; [reflexivity|]. exists 2%nat, false, []. reflexivity.
Qed.

Lemma line_pls_ok first l : aline_ok first l -> Forall pl_ok (line_pls l).
Proof.
  intros ((Hb & _) & (t0 & more & Et & _) & Hlt & Hs). unfold line_pls. apply Forall_app. split; [apply brows_pl_ok; exact Hb|].
  constructor; [|constructor]. cbn. split; [rewrite Et; discriminate|]. split; [exact Hlt|apply tsfx_of_sfx; exact Hs].
Qed.

Lemma lines_pls_ok : forall ls first, alines_ok first ls -> Forall pl_ok (flat_map line_pls ls).
Proof.
  induction ls as [|l ls IH]; intros first H; [constructor|]. destruct H as (Hl & Hls). cbn [flat_map].
  apply Forall_app. split; [eapply line_pls_ok; eauto|eapply IH; eauto].
Qed.

Lemma stmt_pls_ok x : astmt_ok x -> Forall pl_ok (stmt_pls x).
Proof.
  destruct x as [l|b|cs]; cbn [astmt_ok stmt_pls].
  - intros (Hb & (t0 & more & Et & _) & Hlt & Hs). apply Forall_app. split; [apply coms_pl_ok; exact Hb|].
    constructor; [|constructor]. cbn. split; [rewrite Et; discriminate|]. split; [exact Hlt|apply tsfx_of_sfx; exact Hs].
  - intros (Hb & Hlt & _ & Hls & Hl & (Hrb & _) & Hs).
    apply Forall_app. split; [apply coms_pl_ok; exact Hb|].
    apply Forall_app. split; [constructor; [|constructor]; cbn; split; [exact Hlt|apply tsfx_of_sfx; exact Hls]|].
    apply Forall_app. split; [eapply lines_pls_ok; eauto|].
    apply Forall_app. split; [apply brows_pl_ok; exact Hrb|].
    constructor; [|constructor]. cbn. split; [discriminate|]. split; [constructor; [apply rp_ltext|constructor]|apply tsfx_of_sfx; exact Hs].
  - intros (_ & Hc). apply coms_pl_ok. exact Hc.
Qed.

Lemma file_pls_ok a : Forall astmt_ok a -> Forall pl_ok (file_pls a).
Proof.
  induction 1 as [|x r Hx Hr IH]; [constructor|]. cbn [file_pls]. destruct r as [|y r'].
  - apply stmt_pls_ok. exact Hx.
  - apply Forall_app. split; [apply stmt_pls_ok; exact Hx|]. constructor; [exact I|exact IH].
Qed.

Lemma tsfx_sfx s : tsfx_ok s -> sfx_ok s.
Proof. intros (H & Hl). split; [|exact Hl]. eapply Forall_impl; [|exact H]. intros c (A & _). exact A. Qed.

Lemma pl_row_ok p : pl_ok p -> row_ok (pl_row p).
Proof.
  destruct p as [m [toks sfx|y|]|bt sfx]; cbn [pl_ok pl_row row_ok].
  - intros (A & B & C). split; [exact A|]. split; [exact B|apply tsfx_sfx; exact C].
  - intros (A & _). exact A.
  - auto.
  - intros (A & B). split; [destruct bt; discriminate|]. split; [|apply tsfx_sfx; exact B].
    apply Forall_app. split; [exact A|constructor; [apply lp_ltext|constructor]].
Qed.

(* ---------------------------------------------------------------- the event stream of the normal form *)

Lemma ev_comments_ec cs : ev_comments (map ec cs) = map (fun c => EvComment (trim_space c)) cs.
Proof. unfold ev_comments. rewrite map_map. reflexivity. Qed.

Lemma ev_tcoms cs : Forall bcom_ok cs -> ev_comments (map ec (tcoms cs)) = ev_comments (map ec cs).
Proof.
  intros H. rewrite !ev_comments_ec. unfold tcoms. rewrite map_map. apply map_ext_in. intros c Hc.
  rewrite Forall_forall in H. destruct (trim_bcom c (H c Hc)) as (_ & E & _). rewrite E. reflexivity.
Qed.

Lemma ev_line_norm inb first l : aline_ok first l -> ev_line (eline inb (norm_line l)) = ev_line (eline inb l).
Proof.
  intros ((Hb & _) & _ & _ & Hs). unfold ev_line, eline, norm_line. cbn [l_comments l_token cm_before cm_suffix al_before al_toks al_suffix].
  change (map trim_space (al_before l)) with (tcoms (al_before l)). change (map trim_space (al_suffix l)) with (tcoms (al_suffix l)).
  rewrite (ev_tcoms _ Hb), (ev_tcoms _ (sfx_bcom _ Hs)). reflexivity.
Qed.

Lemma ev_lines_norm : forall ls first, alines_ok first ls ->
  flat_map ev_line (map (eline true) (map norm_line ls)) = flat_map ev_line (map (eline true) ls).
Proof.
  induction ls as [|l ls IH]; intros first H; [reflexivity|]. destruct H as (Hl & Hls). cbn [map flat_map].
  rewrite (ev_line_norm true first l Hl), (IH false Hls). reflexivity.
Qed.

Lemma ev_expr_norm x : astmt_ok x -> ev_expr (estmt (norm x)) = ev_expr (estmt x).
Proof.
  destruct x as [l|b|cs]; cbn [astmt_ok norm estmt ev_expr].
  - intros (Hb & _ & _ & Hs). unfold ev_line, eline, norm_line. cbn [l_comments l_token cm_before cm_suffix cm_after al_before al_toks al_suffix].
    change (map trim_space (al_before l)) with (tcoms (al_before l)). change (map trim_space (al_suffix l)) with (tcoms (al_suffix l)).
    rewrite (ev_tcoms _ (Forall_comment_bcom _ Hb)), (ev_tcoms _ (sfx_bcom _ Hs)). reflexivity.
  - intros (Hb & _ & _ & Hls & Hl & (Hrb & _) & Hs). unfold eblock, norm_block.
    cbn [b_comments b_token b_lparen b_line b_rparen pr_comments cm_before cm_suffix cm_after ab_before ab_toks ab_lsfx ab_lines ab_rbefore ab_rsfx ab_sfx].
    change (map trim_space (ab_before b)) with (tcoms (ab_before b)). change (map trim_space (ab_lsfx b)) with (tcoms (ab_lsfx b)).
    change (map trim_space (ab_rbefore b)) with (tcoms (ab_rbefore b)). change (map trim_space (ab_rsfx b ++ ab_sfx b)) with (tcoms (ab_rsfx b ++ ab_sfx b)).
    rewrite (ev_tcoms _ (Forall_comment_bcom _ Hb)), (ev_tcoms _ (sfx_bcom _ Hls)), (ev_tcoms _ Hrb), (ev_tcoms _ (sfx_bcom _ Hs)).
    rewrite (ev_lines_norm _ _ Hl). unfold ev_comments. rewrite !map_app. cbn [map app]. rewrite ?app_nil_r.
    rewrite <- ?app_assoc. reflexivity.
  - intros (_ & Hc). cbn [cb_comments cm_before cm_suffix cm_after]. change (map trim_space cs) with (tcoms cs).
    rewrite (ev_tcoms _ (Forall_comment_bcom _ Hc)). reflexivity.
Qed.

Lemma events_norm a : Forall astmt_ok a -> events (efile (map norm a)) = events (efile a).
Proof.
  intros H. unfold events, efile. cbn [f_comments f_stmt no_comments cm_before]. f_equal.
  induction H as [|x r Hx Hr IH]; [reflexivity|]. cbn [map flat_map]. rewrite (ev_expr_norm x Hx), IH. reflexivity.
Qed.

(* ---------------------------------------------------------------- the theorems *)

Lemma parse_wf data s : parse data = POk s ->
  exists a, zfile s = efile a /\ Forall astmt_ok a.
Proof.
  intros H. destruct (parse_group data s H) as (ts & a & El & Hrs & Hw & Hg & Hz).
  exists a. split; [exact Hz|].
  apply (group_wf (arows [] ts) (GTop None []) a); [|split; [exact I|constructor]|exact Hg].
  apply (arows_ok ts [] false Hrs Hw (Forall_nil _)). split; [discriminate|congruence].
Qed.

Lemma reparse a : Forall astmt_ok a ->
  exists s', parse (render (file_pls a)) = POk s' /\ zfile s' = efile (map norm a) /\ Forall astmt_ok (map norm a).
Proof.
  intros Ha. pose proof (file_pls_ok a Ha) as Hok.
  destruct (lex_render (file_pls a) Hok) as (ts' & El & Er).
  pose proof (regroup a [] Ha) as Hg. cbn [rev app] in Hg.
  assert (Hg' : group_file (arows [] ts') = Some (map norm a)) by (unfold group_file; rewrite Er; exact Hg).
  destruct (group_parse _ ts' _ El Hg') as (s' & Hp & Hz). exists s'. split; [exact Hp|]. split; [exact Hz|].
  apply (group_wf (map pl_row (file_pls a)) (GTop None []) _); [|split; [exact I|constructor]|exact Hg].
  apply Forall_map. eapply Forall_impl; [|exact Hok]. intros p. apply pl_row_ok.
Qed.

Theorem format_round_trip data s : parse data = POk s ->
  exists s', parse (format s) = POk s' /\ events s' = events s /\ format s' = format s.
Proof.
  intros H. destruct (parse_wf data s H) as (a & Hz & Ha).
  assert (Hf : format s = render (file_pls a)) by (rewrite <- format_zfile, Hz; apply format_efile; exact Ha).
  destruct (reparse a Ha) as (s' & Hp & Hz' & Ha').
  exists s'. rewrite Hf. split; [exact Hp|]. split.
  - rewrite <- (events_zfile s'), Hz', (events_norm a Ha), <- Hz. apply events_zfile.
  - rewrite <- (format_zfile s'), Hz', (format_efile _ Ha'), (file_pls_norm a Ha). reflexivity.
Qed.

Theorem format_reparse_same data s : parse data = POk s ->
  exists s', parse (format s) = POk s' /\ events s' = events s.
Proof. intros H. destruct (format_round_trip data s H) as (s' & A & B & _). eauto. Qed.

Theorem format_idempotent data s s' : parse data = POk s -> parse (format s) = POk s' -> format s' = format s.
Proof.
  intros H H'. destruct (format_round_trip data s H) as (s2 & A & _ & C). rewrite H' in A. injection A as <-. exact C.
Qed.
