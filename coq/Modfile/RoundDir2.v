(* Round trip, part 12c: parseVersionInterval and parseReplace read their own output back. *)
From Verif.Base Require Import Bytes Utf8 Strconv QuoteProofs.
From Verif.Semver Require Import Spec Model.
From Verif.Module Require Import Path.
From Verif.Modfile Require Import Syntax Lex Parse Print Directives ProofsLex RoundRows
  RoundLexPure4 RoundTree RoundQuote RoundSemver RoundDir1.

Lemma valid_not_tok v c : is_valid v = true -> c <> 118 -> str_eqb v [c] = false.
Proof.
  intros Hv Hc. destruct (valid_first v Hv) as (r & ->). cbn [str_eqb].
  assert (E : (118 =? c) = false) by (apply Z.eqb_neq; congruence). rewrite E. reflexivity.
Qed.

(* the original version tokens are no parentheses (by the fixer, or because the value is valid) *)
Definition vers_noparen (fx : fixer) (p : str) : Prop :=
  forall t tok v, parse_version fx p t = (tok, Some v) -> is_valid v = true -> is_lp t = false /\ is_rp t = false.

Lemma vers_noparen_fix fx p : fix_noparen fx -> vers_noparen fx p.
Proof. intros H t tok v Hp _. eapply parse_version_noparen; eauto. Qed.

Lemma vers_noparen_df p : vers_noparen dont_fix p.
Proof. intros t tok v Hp Hv. eapply parse_version_dontfix_noparen; eauto. Qed.

Lemma tsub_vers fx p t tok v : parse_version fx p t = (tok, Some v) -> is_valid v = true -> fix_idem fx ->
  vers_noparen fx p -> tsub t tok.
Proof.
  intros H Hv Hi Hn. right. rewrite (parse_version_some _ _ _ _ _ H).
  destruct (parse_version_fix _ _ _ _ _ H Hv Hi) as (_ & G). destruct (Hn _ _ _ H Hv). auto.
Qed.

(* ---------------------------------------------------------------- parseVersionInterval *)

Lemma pvi_fix fx p toks toks' lo hi rest :
  parse_version_interval fx p toks = (toks', Some (lo, hi, rest)) ->
  is_valid lo = true -> is_valid hi = true -> fix_idem fx -> vers_noparen fx p ->
  parse_version_interval fx p toks' = (toks', Some (lo, hi, rest)) /\ Forall2 tsub toks toks'.
Proof.
  intros H Hlo Hhi Hi Hn. unfold parse_version_interval in H.
  destruct toks as [|t0 r0]; [discriminate|].
  destruct (str_eqb t0 lparen_s) eqn:E0; [discriminate|].
  destruct (negb (str_eqb t0 lbrack)) eqn:E1.
  - (* a single version *)
    destruct (parse_version fx p t0) as [t0' v] eqn:Ev. destruct v as [v|]; [|discriminate].
    injection H as <- <- <- <-.
    pose proof (parse_version_some _ _ _ _ _ Ev) as ->.
    destruct (parse_version_fix _ _ _ _ _ Ev Hlo Hi) as (Hre & _).
    split.
    + unfold parse_version_interval. unfold lparen_s, lbrack.
      rewrite (valid_not_tok v 40 Hlo) by lia. rewrite (valid_not_tok v 91 Hlo) by lia. cbn [negb]. rewrite Hre. reflexivity.
    + constructor; [eapply tsub_vers; eauto|apply tsub_all_refl].
  - (* an interval *)
    apply negb_false_iff in E1. apply str_eqb_eq in E1. subst t0.
    destruct r0 as [|t1 r1]; [discriminate|].
    destruct (parse_version fx p t1) as [t1' low] eqn:Ev1. destruct low as [low|]; [|discriminate].
    destruct r1 as [|t2 [|t3 r3]]; try discriminate.
    destruct (str_eqb t2 comma) eqn:E2; [|discriminate].
    destruct (parse_version fx p t3) as [t3' high] eqn:Ev3. destruct high as [high|]; [|discriminate].
    destruct r3 as [|t4 r4]; [discriminate|].
    destruct (str_eqb t4 rbrack) eqn:E4; [|discriminate].
    injection H as <- <- <- <-.
    pose proof (parse_version_some _ _ _ _ _ Ev1) as ->. pose proof (parse_version_some _ _ _ _ _ Ev3) as ->.
    destruct (parse_version_fix _ _ _ _ _ Ev1 Hlo Hi) as (Hre1 & _).
    destruct (parse_version_fix _ _ _ _ _ Ev3 Hhi Hi) as (Hre3 & _).
    split.
    + unfold parse_version_interval. change (str_eqb lbrack lparen_s) with false. change (negb (str_eqb lbrack lbrack)) with false.
      cbn iota. rewrite Hre1, E2, Hre3, E4. reflexivity.
    + constructor; [apply tsub_refl|]. constructor; [eapply tsub_vers; eauto|]. constructor; [apply tsub_refl|].
      constructor; [eapply tsub_vers; eauto|apply tsub_all_refl].
Qed.

(* ---------------------------------------------------------------- parseReplace *)

Definition rep_vals (r : replace_d) : str * str * str * str :=
  (mv_path (rp_old r), mv_version (rp_old r), mv_path (rp_new r), mv_version (rp_new r)).

Definition vers_opt_ok (v : str) : Prop := v = [] \/ is_valid v = true.

Definition wf_rep (r : replace_d) : Prop :=
  path_ok (mv_path (rp_old r)) /\ path_ok (mv_path (rp_new r)) /\
  vers_opt_ok (mv_version (rp_old r)) /\ vers_opt_ok (mv_version (rp_new r)).

Definition arrow : str := B "=>".

Lemma valid_not_arrow v : is_valid v = true -> str_eqb v arrow = false.
Proof. intros Hv. destruct (valid_first v Hv) as (r & ->). reflexivity. Qed.

Lemma vers_ok_nonnil v : vers_opt_ok v -> v <> [] -> is_valid v = true.
Proof. intros [->|H] Hn; [congruence|exact H]. Qed.

Lemma pr_fix fx verb ref ref' args args' r :
  parse_replace fx verb ref args = (args', Some r) -> wf_rep r -> fixer_ok fx ->
  exists r', parse_replace fx verb ref' args' = (args', Some r') /\ rep_vals r' = rep_vals r /\
             Forall2 tsub args args'.
Proof.
  intros H (Ho & Hnw & Hov & Hnv) (Hi & Hnp). unfold parse_replace in H. fold arrow in H.
  destruct args as [|a0 [|a1 [|a2 [|a3 [|a4 [|a5 rest]]]]]];
    cbn [length nth_tok set_nth Nat.leb Nat.ltb Nat.eqb Nat.add andb orb negb] in H; try discriminate.
  - (* two tokens *) destruct (str_eqb a1 arrow); cbn in H; discriminate.
  - (* three tokens: a0 => a2 *)
    destruct (str_eqb a1 arrow) eqn:E1; cbn [Nat.leb Nat.ltb Nat.eqb Nat.add andb orb negb nth_tok set_nth] in H; [|discriminate].
    rewrite E1 in H. cbn [negb] in H.
    destruct (parse_string a0) as [[s tok0]|] eqn:Ep0; [|discriminate].
    destruct (module_path_major s) as [pm|] eqn:Epm; [|discriminate].
    destruct (parse_string a2) as [[ns tokn]|] eqn:Ep2; [|discriminate].
    destruct (negb (is_directory_path ns)) eqn:Ed; [discriminate|].
    destruct (contains_byte 92 ns) eqn:Ec; [discriminate|].
    injection H as <- <-. cbn [rp_old rp_new mv_path mv_version] in *.
    destruct (parse_string_fix _ _ _ Ep0 Ho) as (R0 & _). destruct (parse_string_fix _ _ _ Ep2 Hnw) as (R2 & _).
    eexists. split; [|split].
    + unfold parse_replace. fold arrow. cbn [length nth_tok set_nth Nat.leb Nat.ltb Nat.eqb Nat.add andb orb negb].
      rewrite E1. cbn [Nat.leb Nat.ltb Nat.eqb Nat.add andb orb negb nth_tok set_nth]. rewrite E1. cbn [negb].
      rewrite R0, Epm. cbn [Nat.eqb nth_tok set_nth]. rewrite R2, Ed, Ec. reflexivity.
    + reflexivity.
    + constructor; [eapply tsub_string; eauto|]. constructor; [apply tsub_refl|]. constructor; [eapply tsub_string; eauto|constructor].
  - (* four tokens *)
    destruct (str_eqb a1 arrow) eqn:E1; cbn [Nat.leb Nat.ltb Nat.eqb Nat.add andb orb negb nth_tok set_nth] in H.
    + (* a0 => a2 a3 *)
      rewrite E1 in H. cbn [negb] in H.
      destruct (parse_string a0) as [[s tok0]|] eqn:Ep0; [|discriminate].
      destruct (module_path_major s) as [pm|] eqn:Epm; [|discriminate].
      destruct (parse_string a2) as [[ns tokn]|] eqn:Ep2; [|discriminate].
      destruct (parse_version fx ns a3) as [tokv nv] eqn:Ev. destruct nv as [nv|]; [|discriminate].
      destruct (is_directory_path ns) eqn:Ed; [discriminate|].
      injection H as <- <-. cbn [rp_old rp_new mv_path mv_version] in *.
      pose proof (vers_ok_nonnil _ Hnv (parse_version_nonnil _ _ _ _ _ Ev Hnp)) as Hvv.
      pose proof (parse_version_some _ _ _ _ _ Ev) as ->.
      destruct (parse_string_fix _ _ _ Ep0 Ho) as (R0 & _). destruct (parse_string_fix _ _ _ Ep2 Hnw) as (R2 & _).
      destruct (parse_version_fix _ _ _ _ _ Ev Hvv Hi) as (R3 & _).
      eexists. split; [|split].
      * unfold parse_replace. fold arrow. cbn [length nth_tok set_nth Nat.leb Nat.ltb Nat.eqb Nat.add andb orb negb].
        rewrite E1. cbn [Nat.leb Nat.ltb Nat.eqb Nat.add andb orb negb nth_tok set_nth]. rewrite E1. cbn [negb].
        rewrite R0, Epm. cbn [Nat.eqb nth_tok set_nth]. rewrite R2. cbn [nth_tok set_nth]. rewrite R3, Ed. reflexivity.
      * reflexivity.
      * constructor; [eapply tsub_string; eauto|]. constructor; [apply tsub_refl|]. constructor; [eapply tsub_string; eauto|].
        constructor; [eapply tsub_version; eauto; split; assumption|constructor].
    + (* a0 a1 => a3 *)
      destruct (str_eqb a2 arrow) eqn:E2; cbn [negb] in H; [|discriminate].
      destruct (parse_string a0) as [[s tok0]|] eqn:Ep0; [|discriminate].
      destruct (module_path_major s) as [pm|] eqn:Epm; [|discriminate].
      destruct (parse_version fx s a1) as [tok1 v] eqn:Ev. destruct v as [v|]; [|discriminate].
      destruct (check_path_major v pm) eqn:Ecp; [|discriminate].
      cbn [nth_tok set_nth] in H.
      destruct (parse_string a3) as [[ns tokn]|] eqn:Ep3; [|discriminate].
      destruct (negb (is_directory_path ns)) eqn:Ed; [discriminate|].
      destruct (contains_byte 92 ns) eqn:Ec; [discriminate|].
      injection H as <- <-. cbn [rp_old rp_new mv_path mv_version] in *.
      pose proof (vers_ok_nonnil _ Hov (parse_version_nonnil _ _ _ _ _ Ev Hnp)) as Hvv.
      pose proof (parse_version_some _ _ _ _ _ Ev) as ->.
      destruct (parse_string_fix _ _ _ Ep0 Ho) as (R0 & _). destruct (parse_string_fix _ _ _ Ep3 Hnw) as (R3 & _).
      destruct (parse_version_fix _ _ _ _ _ Ev Hvv Hi) as (R1 & _).
      eexists. split; [|split].
      * unfold parse_replace. fold arrow. cbn [length nth_tok set_nth Nat.leb Nat.ltb Nat.eqb Nat.add andb orb negb].
        rewrite (valid_not_arrow v Hvv). cbn [Nat.leb Nat.ltb Nat.eqb Nat.add andb orb negb nth_tok set_nth]. rewrite E2. cbn [negb].
        rewrite R0, Epm. cbn [nth_tok set_nth]. rewrite R1, Ecp. cbn [nth_tok set_nth]. rewrite R3, Ed, Ec. reflexivity.
      * reflexivity.
      * constructor; [eapply tsub_string; eauto|]. constructor; [eapply tsub_version; eauto; split; assumption|].
        constructor; [apply tsub_refl|]. constructor; [eapply tsub_string; eauto|constructor].
  - (* five tokens: a0 a1 => a3 a4 *)
    destruct (str_eqb a1 arrow) eqn:E1; cbn [Nat.leb Nat.ltb Nat.eqb Nat.add andb orb negb nth_tok set_nth] in H; [discriminate|].
    destruct (str_eqb a2 arrow) eqn:E2; cbn [negb] in H; [|discriminate].
    destruct (parse_string a0) as [[s tok0]|] eqn:Ep0; [|discriminate].
    destruct (module_path_major s) as [pm|] eqn:Epm; [|discriminate].
    destruct (parse_version fx s a1) as [tok1 v] eqn:Ev. destruct v as [v|]; [|discriminate].
    destruct (check_path_major v pm) eqn:Ecp; [|discriminate].
    cbn [nth_tok set_nth] in H.
    destruct (parse_string a3) as [[ns tokn]|] eqn:Ep3; [|discriminate].
    destruct (parse_version fx ns a4) as [tokv nv] eqn:Ev4. destruct nv as [nv|]; [|discriminate].
    destruct (is_directory_path ns) eqn:Ed; [discriminate|].
    injection H as <- <-. cbn [rp_old rp_new mv_path mv_version] in *.
    pose proof (vers_ok_nonnil _ Hov (parse_version_nonnil _ _ _ _ _ Ev Hnp)) as Hvv.
    pose proof (vers_ok_nonnil _ Hnv (parse_version_nonnil _ _ _ _ _ Ev4 Hnp)) as Hvn.
    pose proof (parse_version_some _ _ _ _ _ Ev) as ->. pose proof (parse_version_some _ _ _ _ _ Ev4) as ->.
    destruct (parse_string_fix _ _ _ Ep0 Ho) as (R0 & _). destruct (parse_string_fix _ _ _ Ep3 Hnw) as (R3 & _).
    destruct (parse_version_fix _ _ _ _ _ Ev Hvv Hi) as (R1 & _). destruct (parse_version_fix _ _ _ _ _ Ev4 Hvn Hi) as (R4 & _).
    eexists. split; [|split].
    + unfold parse_replace. fold arrow. cbn [length nth_tok set_nth Nat.leb Nat.ltb Nat.eqb Nat.add andb orb negb].
      rewrite (valid_not_arrow v Hvv). cbn [Nat.leb Nat.ltb Nat.eqb Nat.add andb orb negb nth_tok set_nth]. rewrite E2. cbn [negb].
      rewrite R0, Epm. cbn [nth_tok set_nth]. rewrite R1, Ecp. cbn [nth_tok set_nth]. rewrite R3. cbn [nth_tok set_nth]. rewrite R4, Ed. reflexivity.
    + reflexivity.
    + constructor; [eapply tsub_string; eauto|]. constructor; [eapply tsub_version; eauto; split; assumption|].
      constructor; [apply tsub_refl|]. constructor; [eapply tsub_string; eauto|].
      constructor; [eapply tsub_version; eauto; split; assumption|constructor].
  - (* six or more tokens *)
    destruct (str_eqb a1 arrow); cbn in H; discriminate.
Qed.
