(* C16, need_order_irrelevant, part 2: closed form of a run of "add a new line for the verb"
   steps (AddNewRequire / AddNewUse as used by SetRequire / SetUse): all new lines end in one
   block, in the order they were added; everything else does not depend on the order. *)
From Coq Require Import Permutation.
From Verif.Base Require Import Bytes.
From Verif.Modfile Require Import EditModel EditOps EditSpec EditProofsTyped EditProofsHeap EditProofsCoherent
  EditProofsCleanup EditProofsAddLine EditProofsAdd EditProofsUpsert EditProofs2Blocks EditProofs2Inv EditProofs2Place.

Arguments hget : simpl never.
Arguments hset : simpl never.

Lemma hset_app_last h (x y : hline) : hset (h ++ [x]) (length h) y = h ++ [y].
Proof.
  induction h as [|a h IH]; [reflexivity|].
  change (hset ((a :: h) ++ [x]) (length (a :: h)) y) with (a :: hset (h ++ [x]) (length h) y).
  rewrite IH. reflexivity.
Qed.

Lemma last_verb_unique s verb pre st post pre' st' post' :
  pre ++ st :: post = pre' ++ st' :: post' ->
  verb_stmt s verb st = true -> verb_stmt s verb st' = true ->
  existsb (verb_stmt s verb) post = false -> existsb (verb_stmt s verb) post' = false ->
  pre = pre' /\ st = st' /\ post = post'.
Proof.
  revert pre'. induction pre as [|x r IH]; intros [|x' r'] E H1 H2 H3 H4; cbn in E.
  - injection E as -> ->. auto.
  - injection E as -> ->. rewrite existsb_app in H3. cbn in H3. rewrite H2, Bool.orb_true_r in H3. discriminate.
  - injection E as -> <-. rewrite existsb_app in H4. cbn in H4. rewrite H1, Bool.orb_true_r in H4. discriminate.
  - injection E as -> E. destruct (IH r' E H1 H2 H3 H4) as [-> [-> ->]]. auto.
Qed.

Lemma syntax_ok_sset_com s i l' :
  hl_tok l' = hl_tok (sget s i) -> hl_inb l' = hl_inb (sget s i) -> SyntaxOk s -> SyntaxOk (sset s i l').
Proof.
  intros Ht Hb [H1 H2 H3].
  assert (Hl : forall j, hl_tok (sget (sset s i l') j) = hl_tok (sget s j)).
  { intros j. unfold sget, sset; cbn. apply hget_hset_proj. exact Ht. }
  assert (Hb' : forall j, hl_inb (sget (sset s i l') j) = hl_inb (sget s j)).
  { intros j. unfold sget, sset; cbn. apply hget_hset_proj. exact Hb. }
  split; [exact H1 | | exact H3].
  change (tree_lines (sset s i l')) with (tree_lines s).
  eapply Forall_impl; [|exact H2]. intros x [A [B C]]. split; [|split].
  - change (length (heap (sset s i l'))) with (heap_len (sset s i l')). rewrite sset_len. exact A.
  - rewrite Hb'. exact B.
  - rewrite Hl. exact C.
Qed.

Section Fold.
  Context (verb : str).

  (* what is added: the arguments and the comments the new line gets *)
  Definition item := (list str * coms)%type.
  Definition astep (s : syntax) (x : item) : syntax :=
    let (s1, n) := add_line s None verb (fst x) in sset s1 n (set_com (sget s1 n) (snd x)).
  Definition LB (x : item) : hline := mkHL (snd x) (fst x) true.            (* the line inside a block *)
  Definition LT (x : item) : hline := mkHL (snd x) (verb :: fst x) false.   (* as a statement of its own *)

  Definition W (s : syntax) : Prop := SyntaxOk s /\ BlockIdsOk s.

  Lemma astep_W s x : W s -> fst x <> [] -> W (astep s x).
  Proof.
    intros [Hs Hb] Ha. unfold astep.
    destruct (add_line_syntax s None verb (fst x) Hs Ha) as [Hs1 _].
    pose proof (add_line_bids s None verb (fst x) Hb) as Hb1.
    destruct (add_line s None verb (fst x)) as [s1 n]. cbn [fst] in *. split.
    - apply syntax_ok_sset_com; [reflexivity | reflexivity | exact Hs1].
    - exact (bids_shape s1 (sset s1 n _) eq_refl eq_refl Hb1).
  Qed.

  Lemma W_nodups s : W s -> NoDup (map fst (stmts_lines (stmts s))) /\ NoDup (block_ids (stmts s)).
  Proof. intros [[H1 _ _] [H2 _]]. split; [exact H1 | exact H2]. Qed.

  (* the three placements, as equations *)
  Lemma astep_end s x :
    W s -> existsb (verb_stmt s verb) (stmts s) = false ->
    astep s x = mkSyn (heap s ++ [LT x]) (nbid s) (fcom s) (stmts s ++ [SLine (length (heap s))]).
  Proof.
    intros Hw Hex. destruct (W_nodups s Hw) as [N1 N2].
    destruct (add_line_none_spec s verb (fst x) N1 N2) as [Hp Hn]. unfold astep.
    destruct (add_line s None verb (fst x)) as [s1 n]. cbn [fst snd] in *. subst n.
    inversion Hp as [_ E | pre j post EL Hj _ E | pre b post EL Hh _ E].
    - unfold sset, sget; cbn [heap nbid fcom stmts]. rewrite hget_app_new, hset_app_last. reflexivity.
    - exfalso. rewrite EL, existsb_app in Hex. cbn in Hex. rewrite Hj, Bool.orb_true_r in Hex. discriminate.
    - exfalso. rewrite EL, existsb_app in Hex. cbn in Hex. rewrite Hh, Bool.orb_true_r in Hex. discriminate.
  Qed.

  Lemma astep_line s x pre j post :
    W s -> stmts s = pre ++ SLine j :: post -> hd_is (hl_tok (sget s j)) verb = true ->
    existsb (verb_stmt s verb) post = false ->
    astep s x = mkSyn (hset (heap s) j (mkHL (hl_com (sget s j)) (tl (hl_tok (sget s j))) true) ++ [LB x])
                      (S (nbid s)) (fcom s)
                      (pre ++ SBlock (mkHB (nbid s) no_coms no_coms (firstn 1 (hl_tok (sget s j))) [j; length (heap s)] no_coms) :: post).
  Proof.
    intros Hw EL Hj Hpost. destruct (W_nodups s Hw) as [N1 N2].
    destruct (add_line_none_spec s verb (fst x) N1 N2) as [Hp Hn]. unfold astep.
    destruct (add_line s None verb (fst x)) as [s1 n]. cbn [fst snd] in *. subst n.
    inversion Hp as [Hex E | pre' j' post' EL' Hj' Hpost' E | pre' b' post' EL' Hh' Hpost' E].
    - exfalso. rewrite EL, existsb_app in Hex. cbn in Hex. rewrite Hj, Bool.orb_true_r in Hex. discriminate.
    - rewrite EL in EL'. destruct (last_verb_unique s verb _ _ _ _ _ _ EL' Hj Hj' Hpost Hpost') as [<- [Est <-]].
      injection Est as <-.
      unfold sset, sget; cbn [heap nbid fcom stmts].
      set (H1 := hset (heap s) j (mkHL (hl_com (hget (heap s) j)) (tl (hl_tok (hget (heap s) j))) true)).
      replace (length (heap s)) with (length H1) by (unfold H1; apply hset_length).
      rewrite hget_app_new, hset_app_last. reflexivity.
    - exfalso. rewrite EL in EL'. destruct (last_verb_unique s verb _ _ _ _ _ _ EL' Hj Hh' Hpost Hpost') as [_ [Est _]]. discriminate.
  Qed.

  Lemma astep_block s x pre b post :
    W s -> stmts s = pre ++ SBlock b :: post -> hd_is (hb_tok b) verb = true ->
    existsb (verb_stmt s verb) post = false ->
    astep s x = mkSyn (heap s ++ [LB x]) (nbid s) (fcom s)
                      (pre ++ SBlock (block_with_lines b (hb_lines b ++ [length (heap s)])) :: post).
  Proof.
    intros Hw EL Hb Hpost. destruct (W_nodups s Hw) as [N1 N2].
    destruct (add_line_none_spec s verb (fst x) N1 N2) as [Hp Hn]. unfold astep.
    destruct (add_line s None verb (fst x)) as [s1 n]. cbn [fst snd] in *. subst n.
    inversion Hp as [Hex E | pre' j' post' EL' Hj' Hpost' E | pre' b' post' EL' Hh' Hpost' E].
    - exfalso. rewrite EL, existsb_app in Hex. cbn in Hex. rewrite Hb, Bool.orb_true_r in Hex. discriminate.
    - exfalso. rewrite EL in EL'. destruct (last_verb_unique s verb _ _ _ _ _ _ EL' Hb Hj' Hpost Hpost') as [_ [Est _]]. discriminate.
    - rewrite EL in EL'. destruct (last_verb_unique s verb _ _ _ _ _ _ EL' Hb Hh' Hpost Hpost') as [<- [Est <-]].
      injection Est as <-.
      unfold sset, sget; cbn [heap nbid fcom stmts]. rewrite hget_app_new, hset_app_last. reflexivity.
  Qed.
End Fold.

Lemma syn_eta s : s = mkSyn (heap s) (nbid s) (fcom s) (stmts s).
Proof. destruct s; reflexivity. Qed.

Lemma bwl_same b : block_with_lines b (hb_lines b) = b.
Proof. destruct b; reflexivity. Qed.

Lemma top_line_lt s i : SyntaxOk s -> In (SLine i) (stmts s) -> (i < length (heap s))%nat.
Proof.
  intros [_ H2 _] Hin. rewrite Forall_forall in H2.
  assert (Hx : In (i, @None str) (tree_lines s)).
  { unfold tree_lines. apply in_flat_map. exists (SLine i). split; [exact Hin | left; reflexivity]. }
  destruct (H2 _ Hx) as [Hl _]. exact Hl.
Qed.

Section Fold2.
  Context (verb : str).

  Lemma verb_free_frame (s s' : syntax) post :
    (forall i, In (SLine i) post -> sget s' i = sget s i) ->
    existsb (verb_stmt s' verb) post = existsb (verb_stmt s verb) post.
  Proof.
    induction post as [|st r IH]; intros H; [reflexivity|]. cbn [existsb].
    rewrite IH by (intros i Hi; apply H; right; exact Hi). f_equal.
    destruct st as [i|b|c]; cbn [verb_stmt]; try reflexivity. rewrite (H i (or_introl eq_refl)). reflexivity.
  Qed.

  Lemma fold_astep_block : forall N s pre b post,
    W s -> Forall (fun x : item => fst x <> []) N ->
    stmts s = pre ++ SBlock b :: post -> hd_is (hb_tok b) verb = true -> existsb (verb_stmt s verb) post = false ->
    fold_left (astep verb) N s =
      mkSyn (heap s ++ map LB N) (nbid s) (fcom s)
            (pre ++ SBlock (block_with_lines b (hb_lines b ++ seq (length (heap s)) (length N))) :: post).
  Proof.
    induction N as [|x r IH]; intros s pre b post Hw Hok EL Hb Hpost; cbn [fold_left map length seq].
    - rewrite !app_nil_r, bwl_same, <- EL. apply syn_eta.
    - inversion Hok as [|? ? Hx Hr]; subst.
      pose proof (astep_W verb s x Hw Hx) as Hw1.
      rewrite (astep_block verb s x pre b post Hw EL Hb Hpost) in Hw1 |- *.
      set (s1 := mkSyn _ _ _ _) in *.
      rewrite (IH s1 pre (block_with_lines b (hb_lines b ++ [length (heap s)])) post Hw1 Hr eq_refl Hb).
      + cbn [heap nbid fcom s1 block_with_lines hb_lines]. rewrite <- !app_assoc. cbn [app].
        rewrite app_length. cbn [length]. rewrite Nat.add_1_r. reflexivity.
      + rewrite <- Hpost. apply verb_free_frame. intros i Hi.
        unfold sget, s1; cbn [heap]. apply hget_app_old. apply top_line_lt; [apply Hw|].
        rewrite EL. apply in_app_iff. right. right. exact Hi.
  Qed.

  (* the closed form for at least two additions: the new lines are the last lines of one block,
     in the order of addition; the rest (C, the statements, the block) does not depend on what
     is added, only on how many *)
  Theorem fold_astep_closed s k :
    W s -> (2 <= k)%nat ->
    exists C nb pre b O post,
      length C = length (heap s) /\ hd_is (hb_tok b) verb = true /\
      Forall (fun i => (i < length C)%nat) O /\
      (forall i, In i (map fst (stmts_lines (pre ++ post))) -> (i < length C)%nat) /\
      forall N, length N = k -> Forall (fun x : item => fst x <> []) N ->
        fold_left (astep verb) N s =
          mkSyn (C ++ map LB N) nb (fcom s) (pre ++ SBlock (block_with_lines b (O ++ seq (length C) k)) :: post).
  Proof.
    intros Hw Hk. pose proof Hw as [Hsy _].
    assert (Hplaced : forall i, In i (map fst (stmts_lines (stmts s))) -> (i < length (heap s))%nat).
    { intros i Hi. apply in_map_iff in Hi. destruct Hi as [x [<- Hx]]. destruct Hsy as [_ H2 _].
      rewrite Forall_forall in H2. destruct (H2 x Hx) as [Hl _]. exact Hl. }
    destruct (existsb (verb_stmt s verb) (stmts s)) eqn:Ex.
    - destruct (last_verb_split s verb (stmts s) Ex) as [pre [st [post [EL [Hst Hpost]]]]].
      assert (Hpp : forall i, In i (map fst (stmts_lines (pre ++ post))) -> (i < length (heap s))%nat).
      { intros i Hi. apply Hplaced. rewrite EL, stmts_lines_app, stmts_lines_cons, !map_app.
        rewrite stmts_lines_app, map_app in Hi. apply in_app_iff in Hi. apply in_app_iff.
        destruct Hi; [left | right; apply in_app_iff; right]; assumption. }
      destruct st as [j|b|c]; cbn [verb_stmt] in Hst; [| |discriminate].
      + (* the last verb statement is a line: it becomes a block *)
        set (l := sget s j). set (C := hset (heap s) j (mkHL (hl_com l) (tl (hl_tok l)) true)).
        set (b0 := mkHB (nbid s) no_coms no_coms (firstn 1 (hl_tok l)) [] no_coms).
        assert (Hj : (j < length (heap s))%nat).
        { apply Hplaced. rewrite EL, stmts_lines_app, stmts_lines_cons, !map_app. apply in_app_iff. right. left. reflexivity. }
        exists C, (S (nbid s)), pre, b0, [j], post.
        assert (HC : length C = length (heap s)) by apply hset_length.
        split; [exact HC|]. split.
        { cbn [b0 hb_tok]. destruct (hd_is_eq _ _ Hst) as [ts Hts]. fold l in Hts. rewrite Hts. cbn. apply str_eqb_refl. }
        split; [constructor; [rewrite HC; exact Hj | constructor]|]. split; [intros i Hi; rewrite HC; apply Hpp; exact Hi|].
        intros N HN Hok. destruct N as [|x r]; [cbn in HN; lia|]. cbn [fold_left].
        inversion Hok as [|? ? Hx Hr]; subst.
        pose proof (astep_W verb s x Hw Hx) as Hw1.
        rewrite (astep_line verb s x pre j post Hw EL Hst Hpost) in Hw1 |- *. fold l in Hw1 |- *. fold C in Hw1 |- *.
        set (s1 := mkSyn _ _ _ _) in *.
        rewrite (fold_astep_block r s1 pre (mkHB (nbid s) no_coms no_coms (firstn 1 (hl_tok l)) [j; length (heap s)] no_coms) post Hw1 Hr eq_refl).
        * cbn [heap nbid fcom s1 block_with_lines hb_lines hb_id hb_com hb_lp hb_tok hb_rp b0].
          rewrite <- !app_assoc. cbn [app map length]. rewrite app_length, HC. cbn [length seq].
          rewrite Nat.add_1_r. reflexivity.
        * cbn [hb_tok]. destruct (hd_is_eq _ _ Hst) as [ts Hts]. fold l in Hts. rewrite Hts. cbn. apply str_eqb_refl.
        * rewrite <- Hpost. apply verb_free_frame. intros i Hi.
          assert (Hil : (i < length (heap s))%nat).
          { apply Hpp. rewrite stmts_lines_app, map_app. apply in_app_iff. right.
            apply in_map_iff. exists (i, None). split; [reflexivity|]. unfold stmts_lines. apply in_flat_map.
            exists (SLine i). split; [exact Hi | left; reflexivity]. }
          assert (Hij : j <> i).
          { intros <-. destruct Hsy as [H1 _ _]. rewrite tree_lines_stmts, EL, stmts_lines_app, stmts_lines_cons, !map_app in H1.
            apply NoDup_app_r in H1. cbn [stmt_lines map fst app] in H1. inversion H1 as [|? ? Hni _]; subst. apply Hni.
            apply in_map_iff. exists (j, None). split; [reflexivity|]. unfold stmts_lines. apply in_flat_map.
            exists (SLine j). split; [exact Hi | left; reflexivity]. }
          unfold sget, s1; cbn [heap]. rewrite hget_app_old by (rewrite HC; exact Hil).
          unfold C. apply hget_hset_other. exact Hij.
      + (* the last verb statement is a block *)
        exists (heap s), (nbid s), pre, b, (hb_lines b), post.
        split; [reflexivity|]. split; [exact Hst|]. split; [|split; [exact Hpp|]].
        * apply Forall_forall. intros i Hi. apply Hplaced. rewrite EL, stmts_lines_app, stmts_lines_cons, !map_app.
          apply in_app_iff. right. apply in_app_iff. left. cbn [stmt_lines]. rewrite map_map. cbn [fst]. rewrite map_id. exact Hi.
        * intros N HN Hok. rewrite (fold_astep_block N s pre b post Hw Hok EL Hst Hpost), HN. reflexivity.
    - (* no verb statement: a new line at the end, converted into a block by the second addition *)
      set (b0 := mkHB (nbid s) no_coms no_coms [verb] [] no_coms).
      exists (heap s), (S (nbid s)), (stmts s), b0, [], [].
      split; [reflexivity|]. split; [cbn; apply str_eqb_refl|]. split; [constructor|].
      split; [intros i Hi; rewrite app_nil_r in Hi; apply Hplaced; exact Hi|].
      intros N HN Hok. destruct N as [|x [|y r]]; cbn in HN; try lia. cbn [fold_left].
      inversion Hok as [|? ? Hx Hr]; subst. inversion Hr as [|? ? Hy Hr']; subst.
      pose proof (astep_W verb s x Hw Hx) as Hw1.
      rewrite (astep_end verb s x Hw Ex) in Hw1 |- *.
      set (s1 := mkSyn _ _ _ _) in *.
      assert (Hn0 : sget s1 (length (heap s)) = LT verb x) by (unfold sget, s1; cbn [heap]; apply hget_app_new).
      pose proof (astep_W verb s1 y Hw1 Hy) as Hw2.
      assert (E2 := astep_line verb s1 y (stmts s) (length (heap s)) [] Hw1 eq_refl).
      rewrite Hn0 in E2. specialize (E2 (str_eqb_refl verb) eq_refl).
      rewrite E2 in Hw2 |- *. clear E2.
      cbn [LT hl_com hl_tok tl firstn] in Hw2 |- *.
      cbn [heap nbid fcom s1] in Hw2 |- *. rewrite hset_app_last in Hw2 |- *.
      match goal with |- fold_left _ _ ?t = _ => set (s2 := t) in * end.
      rewrite (fold_astep_block r s2 (stmts s) (mkHB (nbid s) no_coms no_coms [verb] [length (heap s); length (heap s ++ [LT verb x])] no_coms) [] Hw2 Hr' eq_refl);
        [| cbn; apply str_eqb_refl | reflexivity].
      cbn [heap nbid fcom s2 block_with_lines hb_lines hb_id hb_com hb_lp hb_tok hb_rp b0].
      rewrite <- !app_assoc. cbn [app map length]. rewrite !app_length. cbn [length seq].
      rewrite ?Nat.add_1_r. replace (length (heap s) + 2)%nat with (S (S (length (heap s)))) by lia. reflexivity.
  Qed.
End Fold2.
