(* Round trip, part 12l: File.add followed (later) by fixRetract on the rebuilt line, and
   addX, line by line. *)
From Verif.Base Require Import Bytes Utf8 Strconv QuoteProofs.
From Verif.Semver Require Import Spec Model.
From Verif.Module Require Import Path.
From Verif.Modfile Require Import Syntax Lex Parse Print Directives ProofsLex ProofsDirectives LaxRetract RoundRows
  RoundTree RoundDir1 RoundDir2 RoundDir3 RoundDir4 RoundDir5 RoundDir8 RoundDir9.

(* a File without its Retract list *)
Definition nr (f : file) : file := with_retract f [].

Ltac rs := cbn [st_err st_args st_file ok_step err_step nr with_module with_go with_toolchain with_godebug with_require
                with_exclude with_replace with_retract with_tool with_syntax
                fd_module fd_go fd_toolchain fd_godebug fd_require fd_exclude fd_replace fd_retract fd_tool fd_syntax].

Ltac fin := rs; repeat split; reflexivity.

(* File.add on a verb other than retract does not look at f.Retract *)
Lemma add_other fx f f' blk l ref verb args : is_verb verb "retract" = false -> nr f' = nr f ->
  st_err (add true fx f' blk l ref verb args) = st_err (add true fx f blk l ref verb args) /\
  st_args (add true fx f' blk l ref verb args) = st_args (add true fx f blk l ref verb args) /\
  nr (st_file (add true fx f' blk l ref verb args)) = nr (st_file (add true fx f blk l ref verb args)) /\
  fd_retract (st_file (add true fx f blk l ref verb args)) = fd_retract f /\
  fd_retract (st_file (add true fx f' blk l ref verb args)) = fd_retract f'.
Proof.
  intros Vr H. destruct f as [m go tc gd rq ex rp rt tl sy], f' as [m' go' tc' gd' rq' ex' rp' rt' tl' sy'].
  unfold nr, with_retract in H. cbn in H. injection H as -> -> -> -> -> -> -> -> ->.
  unfold add. cbn [negb andb]. rewrite Vr.
  destruct (is_verb verb "go").
  { unfold add_go. rs. destruct go; [fin|]. destruct args as [|a [|a' r]]; try fin.
    destruct (go_version_re a); cbn [negb]; fin. }
  destruct (is_verb verb "toolchain").
  { unfold add_toolchain. rs. destruct tc; [fin|]. destruct args as [|a [|a' r]]; try fin.
    destruct (toolchain_re a); fin. }
  destruct (is_verb verb "module").
  { rs. destruct m; [fin|]. destruct args as [|a [|a' r]]; try fin.
    destruct (parse_string a) as [[s tok]|]; fin. }
  destruct (is_verb verb "godebug").
  { unfold add_godebug. rs. destruct args as [|a [|a' r]]; try fin.
    destruct (contains_any a [34; 96; 39; 44]); [fin|]. destruct (cut_eq a) as [[k v]|]; fin. }
  destruct (is_verb verb "require" || is_verb verb "exclude").
  { destruct args as [|a0 [|a1 [|a2 r]]]; try fin.
    destruct (parse_string a0) as [[s tok0]|]; [|fin].
    destruct (parse_version fx s a1) as [tok1 v]. destruct v as [v|]; [|fin].
    destruct (module_path_major s); [|fin]. destruct (negb (check_path_major v s0)); [fin|].
    destruct (is_verb verb "require"); fin. }
  destruct (is_verb verb "replace").
  { destruct (parse_replace fx verb ref args) as [a' [r|]]; fin. }
  destruct (is_verb verb "tool").
  { destruct args as [|a [|a' r]]; try fin. destruct (parse_string a) as [[s tok]|]; fin. }
  fin.
Qed.

Section Line.
Variable g : str -> str -> option str.
Variable p : str.
Notation fx := (Some g).

(* the tokens of the line File.add leaves behind *)
Definition rtoks (blk : option line_block) (verb : str) (args : list str) : list str :=
  match blk with None => verb :: args | Some _ => args end.

Lemma nr_with_retract f rs : nr (with_retract f rs) = nr f.
Proof. reflexivity. Qed.

Lemma add_X_other f fX blk l ref verb args : is_verb verb "retract" = false -> nr fX = nr f ->
  st_err (addX g p fX blk l ref verb args) = st_err (add true fx f blk l ref verb args) /\
  st_args (addX g p fX blk l ref verb args) = st_args (add true fx f blk l ref verb args) /\
  nr (st_file (addX g p fX blk l ref verb args)) = nr (st_file (add true fx f blk l ref verb args)) /\
  fd_retract (st_file (add true fx f blk l ref verb args)) = fd_retract f /\
  fd_retract (st_file (addX g p fX blk l ref verb args)) = fd_retract fX.
Proof. intros Vr H. unfold addX. rewrite Vr. apply add_other; assumption. Qed.

Lemma add_X_retract f fX blk l ref verb args : is_verb verb "retract" = true -> nr fX = nr f ->
  let s := add true fx f blk l ref verb args in
  let sX := addX g p fX blk l ref verb args in
  let l' := line_set_token l (rtoks blk verb (st_args s)) in
  (st_err sX = false -> st_err s = false) /\
  (st_err s = false ->
     nr (st_file s) = nr f /\ l_token l' <> [] /\
     exists e, fd_retract (st_file s) = fd_retract f ++ [e] /\ rt_syntax e = ref /\
       (fix_err g p l' <> [] -> st_err sX = true) /\
       (fix_err g p l' = [] -> st_err sX = false /\ nr (st_file sX) = nr fX /\
          fd_retract (st_file sX) = fd_retract fX ++ [fix_ent g p e l'] /\
          rtoks blk verb (st_args sX) = l_token (fix_line g p l'))).
Proof.
  intros Vr Hnr. cbv zeta. unfold add, addX. cbn [negb andb]. rewrite Vr.
  pose proof Vr as Vr'. apply is_verb_eq in Vr'. subst verb.
  change (is_verb (B "retract") "go") with false. change (is_verb (B "retract") "toolchain") with false.
  change (is_verb (B "retract") "module") with false. change (is_verb (B "retract") "godebug") with false.
  change (is_verb (B "retract") "require" || is_verb (B "retract") "exclude") with false.
  change (is_verb (B "retract") "replace") with false. cbv iota.
  destruct (parse_version_interval dont_fix [] args) as [a1 [[[lo1 hi1] rest]|]] eqn:E1.
  2:{ split; [intros H; exact H|discriminate]. }
  rewrite andb_true_r. destruct (negb (Parse.is_nil rest)) eqn:Er.
  { split; [intros H; exact H|discriminate]. }
  cbv zeta. rs. split.
  { intros _. reflexivity. }
  intros _. split; [reflexivity|].
  assert (Ha1 : a1 <> []) by (eapply pvi_some_nonnil; eauto).
  split; [cbn [line_set_token l_token]; destruct blk; cbn [rtoks]; [exact Ha1|discriminate]|].
  eexists. split; [reflexivity|]. split; [reflexivity|].
  unfold fix_err, fix_ent, fix_line. cbn [line_set_token l_token l_start rt_rationale rt_syntax].
  change (match blk with Some _ => a1 | None => B "retract" :: a1 end) with (rtoks blk (B "retract") a1).
  destruct (fix_toks g p (rtoks blk (B "retract") a1)) as [full' [[[lo2 hi2] r2]|]] eqn:Ef; cbn [fst snd]; rs.
  - split; [intros H; congruence|]. intros _. split; [reflexivity|]. split; [reflexivity|]. split; [reflexivity|].
    destruct blk as [b|]; cbn [rtoks]; [reflexivity|].
    (* a line of its own: the verb stays in front *)
    cbn [rtoks] in Ef. unfold fix_toks in Ef. change (str_eqb (B "retract") retract_s) with true in Ef. cbv iota zeta in Ef.
    destruct (parse_version_interval (Some g) p a1) as [a2 res]. injection Ef as <- _. reflexivity.
  - split; [intros _; reflexivity|]. intros H. discriminate H.
Qed.
End Line.

(* File.add and addX on a retract line keep everything but f.Retract *)
Lemma add_retract_nr fx f blk l ref verb args : is_verb verb "retract" = true ->
  nr (st_file (add true fx f blk l ref verb args)) = nr f.
Proof.
  intros Vr. unfold add. cbn [negb andb]. rewrite Vr.
  apply is_verb_eq in Vr. subst verb.
  change (is_verb (B "retract") "go") with false. change (is_verb (B "retract") "toolchain") with false.
  change (is_verb (B "retract") "module") with false. change (is_verb (B "retract") "godebug") with false.
  change (is_verb (B "retract") "require" || is_verb (B "retract") "exclude") with false.
  change (is_verb (B "retract") "replace") with false. cbv iota.
  destruct (parse_version_interval dont_fix [] args) as [a1 [[[lo1 hi1] rest]|]]; [|reflexivity].
  destruct (negb (Parse.is_nil rest) && true); reflexivity.
Qed.

Lemma addX_retract_nr g p f blk l ref verb args : is_verb verb "retract" = true ->
  nr (st_file (addX g p f blk l ref verb args)) = nr f.
Proof.
  intros Vr. unfold addX. rewrite Vr.
  destruct (parse_version_interval dont_fix [] args) as [a1 [[[lo1 hi1] rest]|]]; [|reflexivity].
  destruct (negb (Parse.is_nil rest)); [reflexivity|]. cbv zeta.
  destruct (fix_toks g p _) as [full' [[[lo2 hi2] r2]|]]; reflexivity.
Qed.
