(* Round trip, part 12h: format_preserves_directives for go.mod with a version fixer, for
   files without retract directives (fixRetract then has nothing to do). *)
From Verif.Base Require Import Bytes Utf8 Strconv QuoteProofs.
From Verif.Semver Require Import Spec Model.
From Verif.Module Require Import Path.
From Verif.Modfile Require Import Syntax Lex Parse Print Directives ProofsLex ProofsDirectives ProofsRound RoundRows
  RoundParse RoundParse5 RoundLexPure4 RoundLexB1 RoundMain1 RoundTrim RoundTrim2 RoundTree RoundTree2 RoundTree3
  RoundPrint RoundPrint3 RoundMain2 RoundMain3 RoundQuote RoundSemver RoundDir1 RoundDir2 RoundDir3 RoundDir4 RoundDir5 RoundDir6.

Lemma fix_retract_loop_len fx path : forall rs syn acc errs panic,
  length (fst (fst (fst (fix_retract_loop fx path rs syn acc errs panic)))) = (length acc + length rs)%nat.
Proof.
  induction rs as [|r rs IH]; intros syn acc errs panic; cbn [fix_retract_loop].
  - cbn [fst length]. rewrite frev_rev, rev_length. lia.
  - destruct (get_line syn (rt_syntax r)) as [l|]; [|cbn [fst]; rewrite app_length, frev_rev, rev_length; cbn; lia].
    destruct (l_token l) as [|t0 targs]; [cbn [fst]; rewrite app_length, frev_rev, rev_length; cbn; lia|].
    destruct (parse_version_interval fx path (if str_eqb t0 (B "retract") then targs else t0 :: targs)) as [args' res].
    destruct res as [[[lo hi] rest]|]; rewrite IH; cbn [length]; lia.
Qed.

Lemma fix_retract_nil fx f1 e p f2 e2 p2 : fix_retract fx f1 e p = (f2, e2, p2) -> fd_retract f2 = [] ->
  f2 = f1 /\ e2 = e /\ p2 = p.
Proof.
  unfold fix_retract. destruct fx as [g|]; [|intros [= <- <- <-]; auto].
  destruct (fd_retract f1) as [|r rest] eqn:Er; [intros [= <- <- <-]; auto|].
  destruct (Parse.is_nil _).
  - destruct (get_line (fd_syntax f1) (rt_syntax r)); intros [= <- <- <-] H; congruence.
  - pose proof (fix_retract_loop_len (Some g) (match fd_module f1 with Some m => mv_path (md_mod m) | None => [] end)
                  (r :: rest) (fd_syntax f1) [] e p) as Hl.
    destruct (fix_retract_loop _ _ (r :: rest) (fd_syntax f1) [] e p) as [[[rs syn] e'] p'].
    intros [= <- <- <-] H. cbn [with_syntax with_retract fd_retract] in H. subst rs. cbn in Hl. lia.
Qed.

Lemma file_of_syntax_ok_fx fx s f1 : file_of_syntax true fx s = DOk f1 -> fd_retract f1 = [] ->
  let st := stmts_loop (step_of true fx) O (f_stmt s) (mkLS (empty_file s) [] [] false) in
  lp_errs_r st = [] /\ lp_panic st = false /\
  f1 = with_syntax (lp_file st) (mkFile (f_name s) (f_comments s) (frev (lp_stmts_r st))).
Proof.
  unfold file_of_syntax. fold (step_of true fx). cbv zeta.
  set (st := stmts_loop (step_of true fx) O (f_stmt s) (mkLS (empty_file s) [] [] false)).
  destruct (fix_retract fx _ (lp_errs_r st) (lp_panic st)) as [[f2 e2] p2] eqn:Ef.
  destruct p2; [discriminate|]. destruct e2; [|discriminate]. intros [= <-] Hr.
  destruct (fix_retract_nil _ _ _ _ _ _ _ Ef Hr) as (A & B & C). auto.
Qed.

Lemma file_of_syntax_run fx s2 :
  let st := stmts_loop (step_of true fx) O (f_stmt s2) (mkLS (empty_file s2) [] [] false) in
  lp_errs_r st = [] -> lp_panic st = false -> fd_retract (lp_file st) = [] ->
  file_of_syntax true fx s2 = DOk (with_syntax (lp_file st) (mkFile (f_name s2) (f_comments s2) (frev (lp_stmts_r st)))).
Proof.
  cbv zeta. intros He Hp Hr. unfold file_of_syntax. fold (step_of true fx). cbv zeta.
  unfold fix_retract. cbn [with_syntax fd_retract fd_module]. rewrite Hr.
  destruct fx; rewrite Hp, He; reflexivity.
Qed.

Theorem format_preserves_directives_mod_fix fx data f :
  fixer_ok fx -> parse_to_file true fx data = DOk f -> wf_file f -> fd_retract f = [] ->
  exists f', parse_to_file true fx (format (fd_syntax f)) = DOk f' /\ vals f' = vals f.
Proof.
  unfold parse_to_file. intros Hfx H Hwf Hnr. destruct (parse data) as [s| | |] eqn:Hp; try discriminate. cbn [lift_parse] in H.
  destruct (parse_wf2 data s Hp) as (a & Hz & Hok & Hsi).
  destruct (file_of_syntax_ok_fx fx s f H Hnr) as (He & Hpn & Ef). cbv zeta in *.
  set (st := stmts_loop (step_of true fx) O (f_stmt s) (mkLS (empty_file s) [] [] false)) in *.
  assert (Hwf' : wf_file (lp_file st)) by (rewrite Ef in Hwf; exact Hwf).
  destruct (stmts_loop_rb fx Hfx (f_stmt s) O (mkLS (empty_file s) [] [] false) He Hpn Hwf') as (ys & Eys & Hrb).
  change (step2 fx) with (step_of true fx) in Eys. fold st in Eys. cbn [lp_stmts_r] in Eys. rewrite app_nil_r in Eys.
  assert (Hzs : map zexpr (f_stmt s) = map estmt a) by (apply (f_equal f_stmt) in Hz; exact Hz).
  destruct (rb_lean_all (f_stmt s) ys a Hrb Hzs Hok Hsi) as (a' & Ea' & Hok' & Hsi').
  assert (HzF : zfile (fd_syntax f) = efile a').
  { rewrite Ef. cbn [with_syntax fd_syntax]. unfold zfile, efile. cbn [f_name f_comments f_stmt].
    rewrite frev_rev, Eys, rev_involutive, Ea'.
    assert (En : f_name s = []) by (apply (f_equal f_name) in Hz; exact Hz).
    assert (Ec : zcs (f_comments s) = no_comments) by (apply (f_equal f_comments) in Hz; exact Hz).
    rewrite En, Ec. reflexivity. }
  assert (Hfmt : format (fd_syntax f) = RoundPrint.render (file_pls a')) by (rewrite <- format_zfile, HzF; apply format_efile; exact Hok').
  destruct (reparse a' Hok') as (s2 & Hp2 & Hz2 & _).
  rewrite Hfmt, Hp2. cbn [lift_parse].
  assert (Hy : Forall2 yrel ys (f_stmt s2)).
  { apply (yrel_lean_all ys (f_stmt s2) a'); auto. apply (f_equal f_stmt) in Hz2. exact Hz2. }
  pose proof (stmts_loop_sim fx Hfx (f_stmt s) O (mkLS (empty_file s) [] [] false) ys (f_stmt s2) O
                (mkLS (empty_file s2) [] [] false)) as Hs. cbv zeta in Hs.
  change (step2 fx) with (step_of true fx) in Hs. fold st in Hs.
  specialize (Hs He Hpn Hwf' ltac:(cbn [lp_stmts_r]; rewrite app_nil_r; exact Eys) Hy ltac:(split; [reflexivity|split; reflexivity])).
  destruct Hs as (Hv & He2 & Hp2').
  assert (Hnr2 : fd_retract (lp_file (stmts_loop (step_of true fx) O (f_stmt s2) (mkLS (empty_file s2) [] [] false))) = []).
  { assert (Hr1 : fd_retract (lp_file st) = []) by (rewrite Ef in Hnr; exact Hnr).
    unfold vals in Hv. injection Hv as _ _ _ _ _ _ _ Hrt _. rewrite Hr1 in Hrt. cbn in Hrt.
    match goal with |- ?x = [] => destruct x; [reflexivity|discriminate] end. }
  rewrite (file_of_syntax_run fx s2 He2 Hp2' Hnr2). eexists. split; [reflexivity|].
  rewrite vals_with_syntax, <- Hv, Ef. reflexivity.
Qed.
