(* The token stream as a decomposition of the input: between two tokens there is only
   white space (space, tab, CR), a token other than a comment stands in the input as its
   text, a comment starts with "//" and runs to a line feed or to the end of the input.
   Used by ModulePathProofs.v to find the physical line of the module directive. *)
From Verif.Base Require Import Bytes Utf8.
From Verif.Modfile Require Import Syntax Lex ProofsLex ProofsLexNoLF.

Definition ws_char (c : Z) : Prop := c = 32 \/ c = 9 \/ c = 13.
Definition ws_only (g : str) : Prop := Forall ws_char g.

(* where the identifier loop stops: at a rune that is not an identifier rune (0 at the end
   of the input), or in front of "//" *)
Definition ident_stop (rest : str) : Prop :=
  is_ident (match rest with [] => 0 | _ => fst (Utf8.decode rest) end) = false \/
  has_prefix rest [47; 47] = true.

(* what the raw input text [raw] of a token looks like; [rest] is the input after it *)
Definition raw_ok (t : token) (raw rest : str) : Prop :=
  match t_kind t with
  | KComment | KEOLComment =>
      has_prefix raw [47; 47] = true /\ has_prefix (t_text t) [47; 47] = true /\
      ((exists m, raw = m ++ [10]) \/ rest = [])
  | KEOF => raw = [] /\ rest = [] /\ t_text t = []
  | KPunct c => raw = [c] /\ t_text t = [c]
  | KIdent => raw = t_text t /\ ident_stop rest
  | KString => raw = t_text t /\ exists q r, raw = q :: r /\ (q = 34 \/ q = 96)
  end.

Inductive lexed (data : str) : str -> list token -> Prop :=
| lx_nil pre rest : data = pre ++ rest -> lexed data rest []
| lx_cons pre g raw rest t ts :
    data = pre ++ g ++ raw ++ rest -> ws_only g -> raw_ok t raw rest ->
    p_byte (t_pos t) = Z.of_nat (length (pre ++ g)) ->
    lexed data rest ts -> lexed data (g ++ raw ++ rest) (t :: ts).

(* ---------------------------------------------------------------- consumed input *)

Lemma skipn_add {A} (l : list A) : forall b a, skipn a (skipn b l) = skipn (b + a) l.
Proof.
  induction l as [|x l IH]; intros [|b] a; cbn [skipn Nat.add]; try reflexivity.
  - rewrite !skipn_nil. reflexivity.
  - apply IH.
Qed.

Lemma linv_consumed data st0 st : linv data st0 -> linv data st -> (rem_len st <= rem_len st0)%nat ->
  exists c, consumed st0 st c.
Proof.
  intros [H0 _] [H1 _] Hle. unfold consumed, rem_len in *.
  destruct (at_pos_split _ _ _ H0) as (p0 & E0 & _). destruct (at_pos_split _ _ _ H1) as (p1 & E1 & _).
  assert (Hl : (length p0 <= length p1)%nat).
  { assert (length data = length p0 + length (ls_rem st0))%nat by (rewrite E0 at 1; apply app_length).
    assert (length data = length p1 + length (ls_rem st))%nat by (rewrite E1 at 1; apply app_length). lia. }
  exists (firstn (length p1 - length p0) (ls_rem st0)).
  assert (Hs : ls_rem st = skipn (length p1 - length p0) (ls_rem st0)).
  { assert (A : ls_rem st0 = skipn (length p0) data) by (rewrite E0 at 1; rewrite skipn_app, skipn_all, Nat.sub_diag; reflexivity).
    assert (A1 : ls_rem st = skipn (length p1) data) by (rewrite E1 at 1; rewrite skipn_app, skipn_all, Nat.sub_diag; reflexivity).
    rewrite A, A1, skipn_add. f_equal. lia. }
  rewrite Hs. symmetry. apply firstn_skipn.
Qed.

Lemma consumed_byte data st0 st c : linv data st0 -> linv data st -> consumed st0 st c ->
  p_byte (ls_pos st) = p_byte (ls_pos st0) + Z.of_nat (length c).
Proof.
  intros H0 H1 Hc. rewrite (linv_byte _ _ H0), (linv_byte _ _ H1). unfold rem_len. unfold consumed in Hc.
  rewrite Hc, app_length. lia.
Qed.

(* ---------------------------------------------------------------- the shape of each token *)

Lemma string_body_shape q st0 : forall f st t st',
  string_body f q st0 st = TTok t st' -> t = end_token KString st0 st'.
Proof.
  induction f as [|f IH]; intros st t st'; cbn [string_body]; [discriminate|].
  destruct (eof st); [discriminate|]. destruct (peek_rune st =? 10); [discriminate|].
  destruct (read_rune st) as [[c st1]|]; [|discriminate].
  destruct (c =? q); [intros [= <- <-]; reflexivity|].
  destruct ((c =? 92) && negb (q =? 96)); [|apply IH].
  destruct (eof st1); [discriminate|]. destruct (peek_rune st1 =? 10); [discriminate|].
  destruct (read_rune st1) as [[c2 st2]|]; [|discriminate]. apply IH.
Qed.

Lemma ident_body_shape st0 : forall f st t st',
  ident_body f st0 st = TTok t st' -> t = end_token KIdent st0 st' /\ ident_stop (ls_rem st').
Proof.
  induction f as [|f IH]; intros st t st'; cbn [ident_body]; [discriminate|].
  destruct (is_ident (peek_rune st)) eqn:Ei; [|intros [= <- <-]; split; [reflexivity|left; exact Ei]].
  destruct (peek_prefix st [47; 47]) eqn:Ep; [intros [= <- <-]; split; [reflexivity|right; exact Ep]|].
  destruct (peek_prefix st [47; 42]); [discriminate|].
  destruct (read_rune st) as [[c st1]|]; [|discriminate]. apply IH.
Qed.

(* a token read by read_main: its kind, and for punctuation the byte *)
Lemma read_main_shape data f st t st' : linv data st -> read_main f st = TTok t st' ->
  exists k, t = end_token k st st' /\
    match k with
    | KEOF => ls_rem st = [] /\ st' = st
    | KPunct c => ls_rem st = c :: ls_rem st'
    | KIdent => ident_stop (ls_rem st')
    | KString => exists q r, ls_rem st = q :: r /\ (q = 34 \/ q = 96)
    | _ => False
    end.
Proof.
  intros Hi. unfold read_main. destruct (eof st) eqn:Ee.
  { intros [= <- <-]. exists KEOF. split; [reflexivity|]. apply eof_true in Ee. auto. }
  apply eof_false in Ee. destruct (read_rune_some st Ee) as (c0 & st1 & Hr).
  destruct (read_rune_spec _ _ _ _ Hi Hr) as (Hi1 & Hlt & w & Hdec & Hrem & _ & Hb).
  assert (Hpk : peek_rune st = c0) by (rewrite peek_rune_decode, Hdec; auto).
  rewrite Hpk, Hr. destruct (is_punct c0) eqn:Ep.
  { intros [= <- <-]. exists (KPunct c0). split; [reflexivity|].
    destruct (decode_small _ _ _ Ee Hdec (is_punct_small _ Ep)) as (-> & t0 & E).
    rewrite Hrem, E. reflexivity. }
  destruct ((c0 =? 34) || (c0 =? 96)) eqn:Eq.
  { intros H. apply string_body_shape in H. exists KString. split; [exact H|].
    assert (Hq : c0 = 34 \/ c0 = 96) by lia.
    destruct (decode_small _ _ _ Ee Hdec ltac:(lia)) as (_ & t0 & E). eauto. }
  destruct (is_ident c0); cbn [negb]; [|discriminate].
  intros H. apply ident_body_shape in H as (H & Hs). exists KIdent. auto.
Qed.

Lemma comment_body_end data : forall f st st3, linv data st -> comment_body f st = Some (Some st3) ->
  ls_rem st3 = [] \/ exists m, ls_rem st = m ++ 10 :: ls_rem st3.
Proof.
  induction f as [|f IH]; intros st st3 Hi; cbn [comment_body]; [discriminate|].
  destruct (ls_rem st) as [|c t] eqn:E; [intros [= <-]; left; exact E|]. rewrite <- E.
  destruct (read_rune st) as [[r st1]|] eqn:Hr; [|discriminate].
  destruct (read_rune_spec _ _ _ _ Hi Hr) as (Hi1 & _ & w & Hdec & Hrem & Hne & _).
  destruct (Z.eqb_spec r 10) as [->|Hr10].
  - intros [= <-]. right. exists [].
    destruct (decode_small _ _ _ Hne Hdec ltac:(lia)) as (-> & t0 & E0). rewrite Hrem, E0. reflexivity.
  - intros H. destruct (IH _ _ Hi1 H) as [H0|(m & Em)]; [left; exact H0|]. right.
    exists (firstn w (ls_rem st) ++ m). rewrite <- app_assoc, <- Em, Hrem. symmetry. apply firstn_skipn.
Qed.

(* strip_eol removes LF or CRLF from the end *)
Lemma strip_eol_cases (s : str) :
  strip_eol s = s \/ s = strip_eol s ++ [10] \/ s = strip_eol s ++ [13; 10].
Proof.
  unfold strip_eol. rewrite frev_rev. destruct (rev s) as [|a r] eqn:E; [left; reflexivity|].
  assert (Hs : s = rev r ++ [a]) by (rewrite <- (rev_involutive s), E; reflexivity).
  destruct (Z.eqb_spec a 10) as [->|Ha]; [|left; reflexivity].
  destruct r as [|b r']; [rewrite frev_rev; right; left; exact Hs|].
  destruct (Z.eqb_spec b 13) as [->|Hb]; rewrite frev_rev.
  - right. right. rewrite Hs. cbn [rev]. rewrite <- app_assoc. reflexivity.
  - right. left. exact Hs.
Qed.

Lemma has_prefix_ss (m : str) : has_prefix (47 :: 47 :: m) [47; 47] = true.
Proof. cbn. destruct m; reflexivity. Qed.

Lemma strip_eol_slashes m : has_prefix (strip_eol (47 :: 47 :: m)) [47; 47] = true.
Proof.
  destruct (strip_eol_cases (47 :: 47 :: m)) as [E|[E|E]]; [rewrite E; apply has_prefix_ss| |];
    destruct (strip_eol (47 :: 47 :: m)) as [|a [|b x]]; cbn in E; try discriminate;
    try (injection E as E1 E2; destruct x; discriminate);
    try (injection E as E1 E2; discriminate);
    injection E as <- <- _; apply has_prefix_ss.
Qed.

Lemma read_comment_shape data f st t st' : linv data st -> peek_prefix st [47; 47] = true ->
  read_comment f st = TTok t st' ->
  exists k c, t = end_token k st st' /\ is_comment_kind k = true /\ (k = KComment \/ k = KEOLComment) /\
    consumed st st' c /\ linv data st' /\
    has_prefix c [47; 47] = true /\ ((exists m, c = m ++ [10]) \/ ls_rem st' = []).
Proof.
  intros Hi Hss. unfold read_comment.
  unfold peek_prefix in Hss. apply has_prefix_true in Hss as (t0 & E0). cbn [app] in E0.
  assert (Ee : ls_rem st <> []) by (rewrite E0; discriminate).
  destruct (read_rune_some st Ee) as (c0 & st1 & Hr). rewrite Hr.
  destruct (read_rune_spec _ _ _ _ Hi Hr) as (Hi1 & Hlt & w & Hdec & Hrem & _).
  rewrite E0 in Hdec. rewrite decode_ascii_head in Hdec by lia. injection Hdec as <- <-.
  assert (E1 : ls_rem st1 = 47 :: t0) by (rewrite Hrem, E0; reflexivity).
  assert (Ee1 : ls_rem st1 <> []) by (rewrite E1; discriminate).
  destruct (read_rune_some st1 Ee1) as (c1 & st2 & Hr2). rewrite Hr2.
  destruct (read_rune_spec _ _ _ _ Hi1 Hr2) as (Hi2 & Hlt2 & w2 & Hdec2 & Hrem2 & _).
  rewrite E1 in Hdec2. rewrite decode_ascii_head in Hdec2 by lia. injection Hdec2 as <- <-.
  assert (E2 : ls_rem st2 = t0) by (rewrite Hrem2, E1; reflexivity).
  destruct (comment_body f st2) as [[st3|]|] eqn:E3; try discriminate.
  intros [= <- <-].
  pose proof (comment_body_end data f st2 st3 Hi2 E3) as Hend.
  destruct (comment_body_good data (S (rem_len st2)) st2 Hi2 ltac:(lia)) as (st3' & _ & _ & _).
  assert (Hi3 : linv data st3 /\ (rem_len st3 <= rem_len st2)%nat).
  { clear - Hi2 E3. revert st2 Hi2 E3. induction f as [|f IH]; intros st2 Hi2; cbn [comment_body]; [discriminate|].
    destruct (ls_rem st2) as [|c t] eqn:E; [intros [= <-]; split; [exact Hi2|lia]|].
    destruct (read_rune st2) as [[r st1]|] eqn:Hr; [|discriminate].
    destruct (read_rune_spec _ _ _ _ Hi2 Hr) as (Hi1 & Hlt & _).
    destruct (r =? 10); [intros [= <-]; split; [exact Hi1|lia]|].
    intros H. destruct (IH _ Hi1 H). split; [assumption|lia]. }
  destruct Hi3 as (Hi3 & Hle3).
  destruct (linv_consumed data st st3 Hi Hi3 ltac:(lia)) as (c & Hc).
  eexists _, c. split; [reflexivity|]. split; [destruct (has_non_space _); reflexivity|].
  split; [destruct (has_non_space _); auto|]. split; [exact Hc|]. split; [exact Hi3|].
  unfold consumed in Hc. rewrite E0 in Hc.
  destruct Hend as [H0|(m & Em)].
  - split; [|right; exact H0]. rewrite H0, app_nil_r in Hc. rewrite <- Hc. apply has_prefix_ss.
  - rewrite E2 in Em. rewrite Em in Hc.
    replace (47 :: 47 :: m ++ 10 :: ls_rem st3) with ((47 :: 47 :: m ++ [10]) ++ ls_rem st3) in Hc
      by (cbn; rewrite <- app_assoc; reflexivity).
    apply app_inv_tail in Hc. subst c. split; [apply has_prefix_ss|]. left. exists (47 :: 47 :: m). reflexivity.
Qed.

(* ---------------------------------------------------------------- readToken *)

Definition tok_src (data : str) (st : lstate) (t : token) (st' : lstate) : Prop :=
  exists g raw, ls_rem st = g ++ raw ++ ls_rem st' /\ ws_only g /\ raw_ok t raw (ls_rem st') /\
                p_byte (t_pos t) = p_byte (ls_pos st) + Z.of_nat (length g).

Lemma read_token_src data : forall f st t st', linv data st -> (rem_len st + 2 <= f)%nat ->
  read_token f st = TTok t st' -> tok_src data st t st'.
Proof.
  induction f as [|f IH]; intros st t st' Hi Hf; [lia|]. cbn [read_token].
  assert (Hmain : peek_prefix st [47; 47] = false -> read_main f st = TTok t st' -> tok_src data st t st').
  { intros Hss H. pose proof (read_main_good data f st Hi Hss ltac:(lia)) as Hg. rewrite H in Hg.
    destruct Hg as (Hi' & _ & _ & H1 & H2).
    destruct (read_main_shape data f st t st' Hi H) as (k & -> & Hk).
    assert (Hle : (rem_len st' <= rem_len st)%nat).
    { cbn [end_token t_kind] in H1, H2. destruct (is_eof k); [apply H1; reflexivity|specialize (H2 eq_refl); lia]. }
    destruct (linv_consumed data st st' Hi Hi' Hle) as (c & Hc).
    exists [], c. cbn [app length]. split; [exact Hc|]. split; [constructor|]. split; [|cbn; lia].
    pose proof (end_token_text data k st st' c Hi Hi' Hc) as Ht.
    unfold raw_ok. cbn [end_token t_kind]. fold (end_token k st st').
    destruct k as [| | | | |p]; try contradiction.
    - destruct Hk as (E & ->). unfold consumed in Hc. rewrite E in Hc. destruct c; [auto|discriminate].
    - split; [exact (eq_sym Ht)|exact Hk].
    - split; [exact (eq_sym Ht)|]. destruct Hk as (q & r & Er & Hq).
      specialize (H2 eq_refl). unfold consumed in Hc. rewrite Er in Hc.
      destruct c as [|q' c']; [exfalso; cbn [app] in Hc; unfold rem_len in H2; rewrite Er, <- Hc in H2; lia|].
      injection Hc as <- _. eauto.
    - unfold consumed in Hc. rewrite Hk in Hc.
      assert (c = [p]).
      { change (p :: ls_rem st') with ([p] ++ ls_rem st') in Hc. apply app_inv_tail in Hc. auto. }
      subst c. split; [reflexivity|exact Ht]. }
  destruct (eof st) eqn:Ee.
  { apply Hmain. apply eof_true in Ee. unfold peek_prefix. rewrite Ee. reflexivity. }
  destruct ((peek_rune st =? 32) || (peek_rune st =? 9) || (peek_rune st =? 13)) eqn:Ews.
  { apply eof_false in Ee. destruct (read_rune_some st Ee) as (c0 & st1 & Hr). rewrite Hr.
    destruct (read_rune_spec _ _ _ _ Hi Hr) as (Hi1 & Hlt & w & Hdec & Hrem & _ & Hb).
    assert (Hpk : peek_rune st = c0) by (rewrite peek_rune_decode, Hdec; auto). rewrite Hpk in Ews.
    assert (Hws : ws_char c0) by (unfold ws_char; lia).
    destruct (decode_small _ _ _ Ee Hdec ltac:(unfold ws_char in Hws; lia)) as (-> & t0 & E).
    intros H. destruct (IH st1 t st' Hi1 ltac:(lia) H) as (g & raw & E1 & Hg & Hraw & Hp).
    exists (c0 :: g), raw. split; [rewrite E; cbn [app]; f_equal; rewrite <- E1, Hrem, E; reflexivity|].
    split; [constructor; assumption|]. split; [exact Hraw|]. rewrite Hp, Hb. cbn [length]. lia. }
  destruct (peek_prefix st [47; 47]) eqn:Ess.
  { intros H. destruct (read_comment_shape data f st t st' Hi Ess H) as (k & c & -> & Hk & Hkk & Hc & Hi' & Hpre & Hend).
    exists [], c. cbn [app length]. split; [exact Hc|]. split; [constructor|]. split; [|cbn; lia].
    pose proof (end_token_text data k st st' c Hi Hi' Hc) as Ht. rewrite Hk in Ht.
    assert (Htx : has_prefix (t_text (end_token k st st')) [47; 47] = true).
    { rewrite Ht. apply has_prefix_true in Hpre as (m & ->). apply strip_eol_slashes. }
    unfold raw_ok. destruct Hkk as [->| ->]; cbn [end_token t_kind]; auto. }
  destruct (peek_prefix st [47; 42]); [discriminate|]. apply Hmain. reflexivity.
Qed.

(* ---------------------------------------------------------------- the token stream *)

Lemma linv_pre data st : linv data st ->
  exists pre, data = pre ++ ls_rem st /\ p_byte (ls_pos st) = Z.of_nat (length pre).
Proof. intros [H _]. apply at_pos_split. exact H. Qed.

Lemma lex_all_lexed data : forall f st acc, linv data st -> (rem_len st + 3 <= f)%nat ->
  exists tl, fst (lex_all f st acc) = rev acc ++ tl /\ lexed data (ls_rem st) tl.
Proof.
  induction f as [|f IH]; intros st acc Hi Hf; [lia|]. cbn [lex_all].
  destruct (linv_pre data st Hi) as (pre & Epre & Hpb).
  pose proof (read_token_good data f st Hi ltac:(lia)) as Hg.
  destruct (read_token f st) as [t st'|p e| |] eqn:Hrt; cbn [fst];
    try (exists []; rewrite frev_rev, app_nil_r; split; [reflexivity|]; econstructor; exact Epre).
  destruct (read_token_src data f st t st' Hi ltac:(lia) Hrt) as (g & raw & E & Hws & Hraw & Hp).
  cbn in Hg. destruct Hg as (Hi' & _ & _ & _ & Hlt).
  assert (Hcons : forall ts, lexed data (ls_rem st') ts -> lexed data (ls_rem st) (t :: ts)).
  { intros ts Hts. rewrite E. eapply lx_cons; eauto.
    - rewrite Epre, E. reflexivity.
    - rewrite Hp, Hpb, app_length. lia. }
  destruct (is_eof (t_kind t)) eqn:Ek.
  - cbn [fst]. exists [t]. rewrite frev_rev. cbn [rev]. split; [reflexivity|]. apply Hcons.
    destruct (linv_pre data st' Hi') as (pre' & Epre' & _). econstructor; exact Epre'.
  - specialize (Hlt eq_refl). destruct (IH st' (t :: acc) Hi' ltac:(lia)) as (tl & E1 & Hl).
    exists (t :: tl). split; [rewrite E1; cbn [rev]; rewrite <- app_assoc; reflexivity|]. apply Hcons. exact Hl.
Qed.

Theorem lex_lexed data : lexed data data (fst (lex data)).
Proof.
  unfold lex. destruct (lex_all_lexed data (lex_fuel data) (init_state data) []) as (tl & E & H).
  - apply linv_init.
  - unfold rem_len, lex_fuel, init_state. cbn. lia.
  - rewrite E. exact H.
Qed.

(* splitting the stream: the input after a prefix of the tokens, and the raw text of the
   last token of that prefix *)
Lemma lexed_pre data rest ts : lexed data rest ts -> exists pre, data = pre ++ rest.
Proof. destruct 1; [eauto|]. exists pre. assumption. Qed.

Lemma lexed_split data : forall ts1 ts2 rest, lexed data rest (ts1 ++ ts2) ->
  exists rest2, lexed data rest2 ts2 /\ (ts1 = [] -> rest2 = rest) /\
    (forall p t, ts1 = p ++ [t] -> exists pre g raw, data = pre ++ g ++ raw ++ rest2 /\ raw_ok t raw rest2).
Proof.
  induction ts1 as [|t1 ts1 IH]; intros ts2 rest H.
  - exists rest. split; [exact H|]. split; [auto|]. intros p t E. destruct p; discriminate.
  - cbn [app] in H. inversion H as [|pre g raw rest1 t ts Ed Hg Hraw Hp Hl]; subst.
    destruct (IH ts2 rest1 Hl) as (rest2 & H2 & Hnil & Hlast).
    exists rest2. split; [exact H2|]. split; [discriminate|].
    intros p t E. destruct ts1 as [|t2 ts1'].
    + destruct p as [|x p]; [|destruct p; discriminate]. injection E as <-.
      rewrite (Hnil eq_refl). eauto.
    + destruct p as [|x p]; [discriminate|]. injection E as <- E. apply (Hlast p t E).
Qed.

Lemma lexed_cons_inv data rest t ts : lexed data rest (t :: ts) ->
  exists pre g raw rest', rest = g ++ raw ++ rest' /\ data = pre ++ g ++ raw ++ rest' /\ ws_only g /\
    raw_ok t raw rest' /\ p_byte (t_pos t) = Z.of_nat (length (pre ++ g)) /\ lexed data rest' ts.
Proof.
  intros H. inversion H as [|pre g raw rest' t' ts' Ed Hg Hraw Hp Hl]. exists pre, g, raw, rest'.
  repeat split; auto.
Qed.
