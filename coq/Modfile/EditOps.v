(* Executable model of the EDIT layer of golang.org/x/mod/modfile, part 2: every edit
   operation of modfile.File (rule.go) and modfile.WorkFile (work.go) on the state of
   EditModel.v, and the interpreter [run_ops] of operation sequences.  Definitions only.

   [apply op f] is [ROk f'] (the operation returned nil / has no result), [RErr f'] (it
   returned an error; the state is unchanged in all such cases) or [RPanic] (a nil *Line
   was dereferenced, or SetRequire's explicit panic on conflicting versions).  Where Go
   ranges over a map (SetRequire, SetRequireSeparateIndirect, SetUse) the model iterates
   in increasing key order ([amap] keeps its keys sorted). *)
From Verif.Base Require Import Bytes.
From Verif.Modfile Require Import EditModel.

Inductive res := ROk (f : file) | RErr (f : file) | RPanic.

Notation "'do' x <- a ; b" := (match a with Some x => b | None => None end)
  (at level 200, x pattern, a at level 100, b at level 200).

Definition lift (r : option file) : res := match r with Some f => ROk f | None => RPanic end.

(* ---------------------------------------------------------------- verbs *)
Definition v_module := B "module".
Definition v_go := B "go".
Definition v_toolchain := B "toolchain".
Definition v_godebug := B "godebug".
Definition v_require := B "require".
Definition v_exclude := B "exclude".
Definition v_replace := B "replace".
Definition v_retract := B "retract".
Definition v_tool := B "tool".
Definition v_use := B "use".

(* ---------------------------------------------------------------- zero values *)
Definition zero_godebug := mkGodebug [] [] None.
Definition zero_require := mkRequire [] [] false None.
Definition zero_exclude := mkExclude [] [] None.
Definition zero_replace := mkReplace [] [] [] [] None.
Definition zero_retract := mkRetract [] [] [] None.
Definition zero_tool := mkTool [] None.
Definition zero_use := mkUse [] [] None.

(* ---------------------------------------------------------------- generic loops *)

(* for _, e := range list { if matches(e) { e.Syntax.markRemoved(); *e = zero } } *)
Fixpoint drop_loop {E} (m : E -> bool) (syn : E -> option lid) (zero : E)
         (s : syntax) (l : list E) : option (syntax * list E) :=
  match l with
  | [] => Some (s, [])
  | e :: r =>
      if m e then
        do i <- syn e;
        do (s', r') <- drop_loop m syn zero (mark_removed s i) r;
        Some (s', zero :: r')
      else
        do (s', r') <- drop_loop m syn zero s r;
        Some (s', e :: r')
  end.

(* the "set the first, remove the others" loop of AddGodebug / AddRequire / AddUse *)
Fixpoint upsert_loop {E} (m : E -> bool) (syn : E -> option lid) (zero : E) (upd : E -> E)
         (verb : str) (args : list str) (need : bool)
         (s : syntax) (l : list E) : option (syntax * list E * bool) :=
  match l with
  | [] => Some (s, [], need)
  | e :: r =>
      if m e then
        do i <- syn e;
        if need then
          do (s', r', n) <- upsert_loop m syn zero upd verb args false (update_line s i verb args) r;
          Some (s', upd e :: r', n)
        else
          do (s', r', n) <- upsert_loop m syn zero upd verb args false (mark_removed s i) r;
          Some (s', zero :: r', n)
      else
        do (s', r', n) <- upsert_loop m syn zero upd verb args need s r;
        Some (s', e :: r', n)
  end.

(* ---------------------------------------------------------------- module / go / toolchain *)

Definition syn_hint (o : option lid) : option hint := option_map HLine o.

Definition add_module_stmt (f : file) (path : str) : option file :=
  match f_module f with
  | None =>
      let (s, n) := add_line (fsyn f) None v_module [auto_quote path] in
      Some (with_module (with_syn f s) (Some (mkModule path [] [] (Some n))))
  | Some m =>
      do i <- mo_syn m;
      Some (with_module (with_syn f (update_line (fsyn f) i v_module [auto_quote path]))
                        (Some (mkModule path (mo_vers m) (mo_depr m) (mo_syn m))))
  end.

Definition module_hint (f : file) : option hint :=
  match f_module f with Some m => syn_hint (mo_syn m) | None => None end.

Definition add_go_stmt (f : file) (version : str) : res :=
  if negb (go_version_ok version) then RErr f
  else match f_go f with
       | None =>
           let (s, n) := add_line (fsyn f) (module_hint f) v_go [version] in
           ROk (with_go (with_syn f s) (Some (mkGo version (Some n))))
       | Some g =>
           match go_syn g with
           | None => RPanic
           | Some i => ROk (with_go (with_syn f (update_line (fsyn f) i v_go [version]))
                                    (Some (mkGo version (go_syn g))))
           end
       end.

Definition drop_go_stmt (f : file) : res :=
  match f_go f with
  | None => ROk f
  | Some g => match go_syn g with
              | None => RPanic
              | Some i => ROk (with_go (with_syn f (mark_removed (fsyn f) i)) None)
              end
  end.

Definition add_toolchain_stmt (f : file) (name : str) : res :=
  if negb (toolchain_ok name) then RErr f
  else match f_toolchain f with
       | None =>
           let h := match f_go f with
                    | Some g => match go_syn g with Some i => Some (HLine i) | None => module_hint f end
                    | None => module_hint f
                    end in
           let (s, n) := add_line (fsyn f) h v_toolchain [name] in
           ROk (with_toolchain (with_syn f s) (Some (mkGo name (Some n))))
       | Some g =>
           match go_syn g with
           | None => RPanic
           | Some i => ROk (with_toolchain (with_syn f (update_line (fsyn f) i v_toolchain [name]))
                                           (Some (mkGo name (go_syn g))))
           end
       end.

Definition drop_toolchain_stmt (f : file) : res :=
  match f_toolchain f with
  | None => ROk f
  | Some g => match go_syn g with
              | None => RPanic
              | Some i => ROk (with_toolchain (with_syn f (mark_removed (fsyn f) i)) None)
              end
  end.

(* work.go: the new line goes before the first statement that is not a CommentBlock *)
Fixpoint first_non_comment (l : list stmt) : nat :=
  match l with
  | SComment _ :: r => S (first_non_comment r)
  | _ => O
  end.

Definition insert_stmt_at (s : syntax) (i : nat) (st : stmt) : syntax :=
  with_stmts s (firstn i (stmts s) ++ st :: skipn i (stmts s)).

Definition w_add_go_stmt (f : file) (version : str) : res :=
  if negb (go_version_ok version) then RErr f
  else match f_go f with
       | None =>
           let (s, n) := salloc (fsyn f) (mkHL no_coms [v_go; version] false) in
           ROk (with_go (with_syn f (insert_stmt_at s (first_non_comment (stmts s)) (SLine n)))
                        (Some (mkGo version (Some n))))
       | Some g =>
           match go_syn g with
           | None => RPanic
           | Some i => ROk (with_go (with_syn f (update_line (fsyn f) i v_go [version]))
                                    (Some (mkGo version (go_syn g))))
           end
       end.

(* index just after the first Line statement whose first token is "go" *)
Fixpoint after_go_line (s : syntax) (l : list stmt) : option nat :=
  match l with
  | [] => None
  | SLine i :: r => if hd_is (hl_tok (sget s i)) v_go then Some 1%nat else option_map S (after_go_line s r)
  | _ :: r => option_map S (after_go_line s r)
  end.

Definition w_add_toolchain_stmt (f : file) (name : str) : res :=
  if negb (toolchain_ok name) then RErr f
  else match f_toolchain f with
       | None =>
           let (s, n) := salloc (fsyn f) (mkHL no_coms [v_toolchain; name] false) in
           let i := match after_go_line s (stmts s) with
                    | Some i => i
                    | None => first_non_comment (stmts s)
                    end in
           ROk (with_toolchain (with_syn f (insert_stmt_at s i (SLine n))) (Some (mkGo name (Some n))))
       | Some g =>
           match go_syn g with
           | None => RPanic
           | Some i => ROk (with_toolchain (with_syn f (update_line (fsyn f) i v_toolchain [name]))
                                           (Some (mkGo name (go_syn g))))
           end
       end.

(* ---------------------------------------------------------------- godebug *)

Definition add_godebug (f : file) (key value : str) : option file :=
  let arg := key ++ [61] ++ value in
  do (s, l, need) <- upsert_loop (fun g => str_eqb (gd_key g) key) gd_syn zero_godebug
                       (fun g => mkGodebug (gd_key g) value (gd_syn g))
                       v_godebug [arg] true (fsyn f) (f_godebug f);
  if need then
    let (s', n) := add_line s None v_godebug [arg] in
    Some (with_godebug (with_syn f s') (l ++ [mkGodebug key value (Some n)]))
  else Some (with_godebug (with_syn f s) l).

Definition drop_godebug (f : file) (key : str) : option file :=
  do (s, l) <- drop_loop (fun g => str_eqb (gd_key g) key) gd_syn zero_godebug (fsyn f) (f_godebug f);
  Some (with_godebug (with_syn f s) l).

(* ---------------------------------------------------------------- require *)

Definition add_new_require (f : file) (path vers : str) (indirect : bool) : file :=
  let (s1, n) := add_line (fsyn f) None v_require [auto_quote path; vers] in
  let s2 := sset s1 n (set_indirect_line (sget s1 n) indirect) in
  with_require (with_syn f s2) (f_require f ++ [mkRequire path vers indirect (Some n)]).

Definition add_require (f : file) (path vers : str) : option file :=
  do (s, l, need) <- upsert_loop (fun r => str_eqb (rq_path r) path) rq_syn zero_require
                       (fun r => mkRequire (rq_path r) vers (rq_ind r) (rq_syn r))
                       v_require [auto_quote path; vers] true (fsyn f) (f_require f);
  let f' := with_require (with_syn f s) l in
  if need then Some (add_new_require f' path vers false) else Some f'.

Definition drop_require (f : file) (path : str) : option file :=
  do (s, l) <- drop_loop (fun r => str_eqb (rq_path r) path) rq_syn zero_require (fsyn f) (f_require f);
  Some (with_require (with_syn f s) l).

(* ---------------------------------------------------------------- exclude *)

Fixpoint exclude_scan (path vers : str) (l : list e_exclude) (h : option lid) : option (option lid) :=
  (* None = already present; Some h = the hint (nil *Line when h = None) *)
  match l with
  | [] => Some h
  | x :: r =>
      if str_eqb (ex_path x) path && str_eqb (ex_vers x) vers then None
      else exclude_scan path vers r (if str_eqb (ex_path x) path then ex_syn x else h)
  end.

Definition typed_hint (o : option lid) : option hint :=
  match o with Some i => Some (HLine i) | None => Some HTypedNil end.

Definition add_exclude (f : file) (path vers : str) : res :=
  if negb (check_canonical_version path vers) then RErr f
  else match exclude_scan path vers (f_exclude f) None with
       | None => ROk f
       | Some h =>
           let (s, n) := add_line (fsyn f) (typed_hint h) v_exclude [auto_quote path; vers] in
           ROk (with_exclude (with_syn f s) (f_exclude f ++ [mkExclude path vers (Some n)]))
       end.

Definition drop_exclude (f : file) (path vers : str) : option file :=
  do (s, l) <- drop_loop (fun x => str_eqb (ex_path x) path && str_eqb (ex_vers x) vers)
                 ex_syn zero_exclude (fsyn f) (f_exclude f);
  Some (with_exclude (with_syn f s) l).

(* ---------------------------------------------------------------- replace *)

Definition replace_tokens (op ov np nv : str) : list str :=
  [auto_quote op] ++ (if nilb ov then [] else [ov]) ++ [B "=>"; auto_quote np]
  ++ (if nilb nv then [] else [nv]).

Fixpoint add_replace_loop (op ov np nv : str) (need : bool) (h : option lid)
         (s : syntax) (l : list e_replace) : option (syntax * list e_replace * bool * option lid) :=
  match l with
  | [] => Some (s, [], need, h)
  | r :: rest =>
      if str_eqb (rp_op r) op && (nilb ov || str_eqb (rp_ov r) ov) then
        do i <- rp_syn r;
        if need then
          do (s', l', n, h') <- add_replace_loop op ov np nv false h
                                  (update_line s i v_replace (replace_tokens op ov np nv)) rest;
          Some (s', mkReplace op ov np nv (rp_syn r) :: l', n, h')
        else
          (* the entry is cleared, then `if r.Old.Path == oldPath` is evaluated on the cleared entry *)
          let h1 := if nilb op then None else h in
          do (s', l', n, h') <- add_replace_loop op ov np nv false h1 (mark_removed s i) rest;
          Some (s', zero_replace :: l', n, h')
      else
        let h1 := if str_eqb (rp_op r) op then rp_syn r else h in
        do (s', l', n, h') <- add_replace_loop op ov np nv need h1 s rest;
        Some (s', r :: l', n, h')
  end.

Definition add_replace (f : file) (op ov np nv : str) : option file :=
  do (s, l, need, h) <- add_replace_loop op ov np nv true None (fsyn f) (f_replace f);
  if need then
    let (s', n) := add_line s (typed_hint h) v_replace (replace_tokens op ov np nv) in
    Some (with_replace (with_syn f s') (l ++ [mkReplace op ov np nv (Some n)]))
  else Some (with_replace (with_syn f s) l).

Definition drop_replace (f : file) (op ov : str) : option file :=
  do (s, l) <- drop_loop (fun r => str_eqb (rp_op r) op && str_eqb (rp_ov r) ov)
                 rp_syn zero_replace (fsyn f) (f_replace f);
  Some (with_replace (with_syn f s) l).

(* ---------------------------------------------------------------- retract *)

Definition add_retract (f : file) (lo hi rationale : str) : res :=
  let path := match f_module f with Some m => mo_path m | None => [] end in
  if negb (check_canonical_version path hi) then RErr f
  else if negb (check_canonical_version path lo) then RErr f
  else
    let args := if str_eqb lo hi then [auto_quote lo]
                else [B "["; auto_quote lo; B ","; auto_quote hi; B "]"] in
    let (s, n) := add_line (fsyn f) None v_retract args in
    let s' := match rationale with
              | [] => s
              | _ => let l := sget s n in
                     sset s n (set_com l (set_before (hl_com l)
                        (c_before (hl_com l) ++ map (fun t => B "// " ++ t) (split_lines rationale))))
              end in
    ROk (with_retract (with_syn f s') (f_retract f ++ [mkRetract lo hi rationale (Some n)])).

Definition drop_retract (f : file) (lo hi : str) : option file :=
  do (s, l) <- drop_loop (fun r => str_eqb (rt_lo r) lo && str_eqb (rt_hi r) hi)
                 rt_syn zero_retract (fsyn f) (f_retract f);
  Some (with_retract (with_syn f s) l).

(* ---------------------------------------------------------------- removeDups / SortBlocks *)

Definition opt_lid_eqb (a b : option lid) : bool :=
  match a, b with
  | Some x, Some y => Nat.eqb x y
  | None, None => true
  | _, _ => false
  end.
Definition killed (kill : list (option lid)) (x : option lid) : bool := existsb (opt_lid_eqb x) kill.

(* first occurrence of a key wins; later ones are killed *)
Fixpoint dups {E} (same : E -> E -> bool) (syn : E -> option lid) (seen : list E) (l : list E)
         (kill : list (option lid)) : list (option lid) :=
  match l with
  | [] => kill
  | x :: r => if existsb (same x) seen then dups same syn seen r (syn x :: kill)
              else dups same syn (x :: seen) r kill
  end.

Definition same_exclude (a b : e_exclude) : bool :=
  str_eqb (ex_path a) (ex_path b) && str_eqb (ex_vers a) (ex_vers b).
Definition same_replace_old (a b : e_replace) : bool :=
  str_eqb (rp_op a) (rp_op b) && str_eqb (rp_ov a) (rp_ov b).
Definition same_tool (a b : e_tool) : bool := str_eqb (tl_path a) (tl_path b).

Definition remove_killed (s : syntax) (kill : list (option lid)) : syntax :=
  with_stmts s (flat_map (fun st =>
    match st with
    | SLine i => if killed kill (Some i) then [] else [st]
    | SBlock b =>
        let ls := filter (fun i => negb (killed kill (Some i))) (hb_lines b) in
        if nilb ls then [] else [SBlock (block_with_lines b ls)]
    | SComment _ => [st]
    end) (stmts s)).

(* removeDups(syntax, exclude, replace, tool); [mod] = the go.mod variant (exclude and
   tool lists are passed) *)
Definition remove_dups (f : file) (mod_ : bool) : file :=
  let k1 := if mod_ then dups same_exclude ex_syn [] (f_exclude f) [] else [] in
  let excl := if mod_ then filter (fun x => negb (killed k1 (ex_syn x))) (f_exclude f) else f_exclude f in
  let k2 := dups same_replace_old rp_syn [] (rev (f_replace f)) k1 in
  let repl := filter (fun x => negb (killed k2 (rp_syn x))) (f_replace f) in
  let k3 := if mod_ then dups same_tool tl_syn [] (f_tool f) k2 else k2 in
  let tool := if mod_ then filter (fun x => negb (killed k3 (tl_syn x))) (f_tool f) else f_tool f in
  with_tool (with_replace (with_exclude (with_syn f (remove_killed (fsyn f) k3)) excl) repl) tool.

Definition sort_block (h : list hline) (less : list str -> list str -> bool) (b : hblock) : hblock :=
  block_with_lines b (stable_sort (fun i j => less (hl_tok (hget h i)) (hl_tok (hget h j))) (hb_lines b)).

Definition sort_blocks (f : file) : file :=
  let f1 := remove_dups f true in
  let sem := match f_go f1 with
             | Some g => use_semantic_sort (go_vers g)
             | None => false
             end in
  let s := fsyn f1 in
  with_syn f1 (with_stmts s (map (fun st =>
    match st with
    | SBlock b =>
        let less := if hd_is (hb_tok b) v_exclude && sem then exclude_less
                    else if hd_is (hb_tok b) v_retract then retract_less
                    else toks_less in
        SBlock (sort_block (heap s) less b)
    | _ => st
    end) (stmts s))).

Definition w_sort_blocks (f : file) : file :=
  let f1 := remove_dups f false in
  let s := fsyn f1 in
  with_syn f1 (with_stmts s (map (fun st =>
    match st with
    | SBlock b => SBlock (sort_block (heap s) toks_less b)
    | _ => st
    end) (stmts s))).

(* ---------------------------------------------------------------- tool *)

Definition add_tool (f : file) (path : str) : file :=
  if existsb (fun t => str_eqb (tl_path t) path) (f_tool f) then f
  else
    let (s, n) := add_line (fsyn f) None v_tool [path] in
    sort_blocks (with_tool (with_syn f s) (f_tool f ++ [mkTool path (Some n)])).

Definition drop_tool (f : file) (path : str) : option file :=
  do (s, l) <- drop_loop (fun t => str_eqb (tl_path t) path) tl_syn zero_tool (fsyn f) (f_tool f);
  Some (with_tool (with_syn f s) l).

(* ---------------------------------------------------------------- comment, cleanup *)

Definition add_comment (f : file) (text : str) : file :=
  let s := fsyn f in
  with_syn f (with_stmts s (stmts s ++ [SComment (mkComs [text] [] [])])).

Definition nonempty (s : str) : bool := negb (nilb s).

Definition cleanup (f : file) : file :=
  mkEFile (syn_cleanup (fsyn f)) (f_module f) (f_go f) (f_toolchain f)
    (filter (fun g => nonempty (gd_key g)) (f_godebug f))
    (filter (fun r => nonempty (rq_path r)) (f_require f))
    (filter (fun x => nonempty (ex_path x)) (f_exclude f))
    (filter (fun r => nonempty (rp_op r)) (f_replace f))
    (filter (fun r => nonempty (rt_lo r) || nonempty (rt_hi r)) (f_retract f))
    (filter (fun t => nonempty (tl_path t)) (f_tool f))
    (f_use f).

Definition w_cleanup (f : file) : file :=
  mkEFile (syn_cleanup (fsyn f)) (f_module f) (f_go f) (f_toolchain f)
    (filter (fun g => nonempty (gd_key g)) (f_godebug f))
    (f_require f) (f_exclude f)
    (filter (fun r => nonempty (rp_op r)) (f_replace f))
    (f_retract f) (f_tool f)
    (filter (fun u => nonempty (us_path u)) (f_use f)).

(* ---------------------------------------------------------------- maps with sorted keys *)

Fixpoint amap_set {V} (k : str) (v : V) (m : list (str * V)) : list (str * V) :=
  match m with
  | [] => [(k, v)]
  | (k', v') :: r =>
      match str_cmp k k' with
      | Eq => (k, v) :: r
      | Lt => (k, v) :: m
      | Gt => (k', v') :: amap_set k v r
      end
  end.
Fixpoint amap_get {V} (k : str) (m : list (str * V)) : option V :=
  match m with
  | [] => None
  | (k', v) :: r => if str_eqb k k' then Some v else amap_get k r
  end.
Definition amap_del {V} (k : str) (m : list (str * V)) : list (str * V) :=
  filter (fun kv => negb (str_eqb (fst kv) k)) m.

Definition req := (str * str * bool)%type.      (* path, version, indirect *)

(* ---------------------------------------------------------------- SetRequire *)

Fixpoint set_require_need (l : list req) (need : list (str * (str * bool))) : option (list (str * (str * bool))) :=
  match l with
  | [] => Some need
  | (p, v, ind) :: r =>
      match amap_get p need with
      | Some (v', _) => if str_eqb v' v then set_require_need r (amap_set p (v, ind) need)
                        else None         (* panic: conflicting versions *)
      | None => set_require_need r (amap_set p (v, ind) need)
      end
  end.

Fixpoint set_require_loop (s : syntax) (need : list (str * (str * bool))) (l : list e_require)
  : option (syntax * list e_require * list (str * (str * bool))) :=
  match l with
  | [] => Some (s, [], need)
  | r :: rest =>
      do i <- rq_syn r;
      match amap_get (rq_path r) need with
      | Some (v, ind) =>
          let s1 := sset s i (set_indirect_line (set_version_line (sget s i) v) ind) in
          do (s', l', need') <- set_require_loop s1 (amap_del (rq_path r) need) rest;
          Some (s', mkRequire (rq_path r) v ind (rq_syn r) :: l', need')
      | None =>
          (* r.markRemoved(); then delete(need, r.Mod.Path) with the cleared path "" *)
          do (s', l', need') <- set_require_loop (mark_removed s i) (amap_del [] need) rest;
          Some (s', zero_require :: l', need')
      end
  end.

Definition set_require (f : file) (l : list req) : option file :=
  do need <- set_require_need l [];
  do (s, rs, need') <- set_require_loop (fsyn f) need (f_require f);
  let f1 := with_require (with_syn f s) rs in
  let f2 := fold_left (fun g kv => add_new_require g (fst kv) (fst (snd kv)) (snd (snd kv))) need' f1 in
  Some (sort_blocks f2).

(* ---------------------------------------------------------------- SetRequireSeparateIndirect *)

Definition has_comments (c : coms) : bool :=
  negb (nilb (c_before c)) || negb (nilb (c_after c))
  || match c_suffix c with
     | [] => false
     | [x] => negb (str_eqb (comment_text x) (B "indirect"))
     | _ => true
     end.

Record sri_scan := mkScan {
  sc_direct : Z;            (* lastDirectIndex *)
  sc_indirect : Z;          (* lastIndirectIndex *)
  sc_require : Z;           (* lastRequireIndex *)
  sc_count : nat;           (* requireLineOrBlockCount *)
  sc_l2b : list (lid * nat) (* lineToBlock *)
}.

(* allDirect / allIndirect of one block *)
Fixpoint block_flags (s : syntax) (ls : list lid) (ad ai : bool) : bool * bool :=
  match ls with
  | [] => (ad, ai)
  | i :: r =>
      let l := sget s i in
      if has_comments (hl_com l) then block_flags s r false false
      else if is_indirect l then block_flags s r false ai
      else block_flags s r ad false
  end.

Fixpoint sri_scan_loop (s : syntax) (i : Z) (todo : list stmt) (a : sri_scan) : sri_scan :=
  match todo with
  | [] => a
  | SLine j :: rest =>
      let l := sget s j in
      if negb (hd_is (hl_tok l) v_require) then sri_scan_loop s (i + 1) rest a
      else
        let a1 := mkScan (sc_direct a) (sc_indirect a) i (S (sc_count a)) (sc_l2b a) in
        let a2 := if has_comments (hl_com l) then a1
                  else if is_indirect l then mkScan (sc_direct a1) i (sc_require a1) (sc_count a1) (sc_l2b a1)
                  else mkScan i (sc_indirect a1) (sc_require a1) (sc_count a1) (sc_l2b a1) in
        sri_scan_loop s (i + 1) rest a2
  | SBlock b :: rest =>
      if negb (hd_is (hb_tok b) v_require) then sri_scan_loop s (i + 1) rest a
      else
        let init := negb (nilb (hb_lines b)) && negb (has_comments (hb_com b)) in
        let (ad, ai) := block_flags s (hb_lines b) init init in
        let l2b := map (fun j => (j, hb_id b)) (hb_lines b) ++ sc_l2b a in
        let d := if ad then i else sc_direct a in
        let ind := if ai then i else sc_indirect a in
        sri_scan_loop s (i + 1) rest (mkScan d ind i (S (sc_count a)) l2b)
  | SComment _ :: rest => sri_scan_loop s (i + 1) rest a
  end.

Fixpoint l2b_get (i : lid) (m : list (lid * nat)) : option nat :=
  match m with
  | [] => None
  | (j, b) :: r => if Nat.eqb i j then Some b else l2b_get i r
  end.

Definition stmt_coms (s : syntax) (st : stmt) : coms :=
  match st with
  | SLine i => hl_com (sget s i)
  | SBlock b => hb_com b
  | SComment c => c
  end.

Definition empty_require_block (bid : nat) : hblock := mkHB bid no_coms no_coms [v_require] [] no_coms.

Definition insert_block (s : syntax) (i : Z) : syntax * nat :=
  let (s1, bid) := fresh_bid s in
  (insert_stmt_at s1 (Z.to_nat i) (SBlock (empty_require_block bid)), bid).

Definition ensure_block (s : syntax) (i : Z) : option (syntax * nat) :=
  match nth_error (stmts s) (Z.to_nat i) with
  | Some (SBlock b) => Some (s, hb_id b)
  | Some (SLine j) =>
      let l := sget s j in
      let s1 := sset s j (mkHL (hl_com l) (tl (hl_tok l)) true) in
      let (s2, bid) := fresh_bid s1 in
      let b := mkHB bid no_coms no_coms [v_require] [j] no_coms in
      Some (with_stmts s2 (set_nth (Z.to_nat i) (SBlock b) (stmts s2)), bid)
  | _ => None     (* panic("unexpected statement") / index out of range: unreachable *)
  end.

Definition append_to_block (s : syntax) (bid : nat) (n : lid) : syntax :=
  with_stmts s (map (fun st =>
    match st with
    | SBlock b => if Nat.eqb (hb_id b) bid then SBlock (block_with_lines b (hb_lines b ++ [n])) else st
    | _ => st
    end) (stmts s)).

(* moveReq for a requirement that already has a line *)
Definition move_req (s : syntax) (i : lid) (bid : nat) : syntax * lid :=
  let l := sget s i in
  let t := if negb (hl_inb l) && hd_is (hl_tok l) v_require then tl (hl_tok l) else hl_tok l in
  let s1 := sset s i (set_tok l []) in
  let (s2, n) := salloc s1 (mkHL (hl_com l) t true) in
  (append_to_block s2 bid n, n).

Definition opt_nat_eqb (a : option nat) (b : nat) : bool :=
  match a with Some x => Nat.eqb x b | None => false end.

Fixpoint sri_loop (s : syntax) (need : list (str * (str * bool))) (have : list str)
         (one_flat : bool) (l2b : list (lid * nat)) (dbid ibid : nat)
         (l : list e_require) : option (syntax * list e_require * list str) :=
  match l with
  | [] => Some (s, [], have)
  | r :: rest =>
      let path := rq_path r in
      let wanted := match amap_get path need with
                    | Some e => if existsb (str_eqb path) have then None else Some e
                    | None => None
                    end in
      do i <- rq_syn r;
      match wanted with
      | None =>
          do (s', l', have') <- sri_loop (mark_removed s i) need have one_flat l2b dbid ibid rest;
          Some (s', zero_require :: l', have')
      | Some (v, ind) =>
          let s1 := sset s i (set_indirect_line (set_version_line (sget s i) v) ind) in
          let lb := l2b_get i l2b in
          let target := if ind then if one_flat || opt_nat_eqb lb dbid then Some ibid else None
                        else if one_flat || opt_nat_eqb lb ibid then Some dbid else None in
          let '(s2, syn') := match target with
                             | Some bid => let (s2, n) := move_req s1 i bid in (s2, Some n)
                             | None => (s1, rq_syn r)
                             end in
          do (s', l', have') <- sri_loop s2 need (path :: have) one_flat l2b dbid ibid rest;
          Some (s', mkRequire path v ind syn' :: l', have')
      end
  end.

Definition sri_add_new (dbid ibid : nat) (have : list str) (acc : syntax * list e_require)
           (kv : str * (str * bool)) : syntax * list e_require :=
  let '(s, rs) := acc in
  let '(path, (v, ind)) := kv in
  if existsb (str_eqb path) have then acc
  else
    let l0 := mkHL no_coms [auto_quote path; v] false in
    let l1 := if ind then set_indirect_line l0 true else l0 in
    let (s1, n) := salloc s (set_inb l1 true) in
    (append_to_block s1 (if ind then ibid else dbid) n, rs ++ [mkRequire path v ind (Some n)]).

Definition set_require_separate_indirect (f : file) (l : list req) : option file :=
  let s0 := fsyn f in
  let sc := sri_scan_loop s0 0 (stmts s0) (mkScan (-1) (-1) (-1) O []) in
  let one_flat :=
    Nat.eqb (sc_count sc) 1
    && match nth_error (stmts s0) (Z.to_nat (sc_require sc)) with
       | Some st => negb (has_comments (stmt_coms s0 st))
       | None => false
       end in
  (* direct block *)
  do (s1, dbid, di, ii) <-
     (if sc_direct sc <? 0 then
        let '(di, ii) := if 0 <=? sc_indirect sc then (sc_indirect sc, sc_indirect sc + 1)
                         else if 0 <=? sc_require sc then (sc_require sc + 1, sc_indirect sc)
                         else (Z.of_nat (length (stmts s0)), sc_indirect sc) in
        let (s1, bid) := insert_block s0 di in Some (s1, bid, di, ii)
      else do (s1, bid) <- ensure_block s0 (sc_direct sc); Some (s1, bid, sc_direct sc, sc_indirect sc));
  (* indirect block *)
  do (s2, ibid) <-
     (if ii <? 0 then Some (insert_block s1 (di + 1))
      else ensure_block s1 ii);
  let need := fold_left (fun m (q : req) => let '(p, v, ind) := q in amap_set p (v, ind) m) l [] in
  do (s3, rs, have) <- sri_loop s2 need [] one_flat (sc_l2b sc) dbid ibid (f_require f);
  let '(s4, rs') := fold_left (sri_add_new dbid ibid have) need (s3, rs) in
  Some (sort_blocks (with_require (with_syn f s4) rs')).

(* ---------------------------------------------------------------- use (go.work) *)

Definition add_new_use (f : file) (path modpath : str) : file :=
  let (s, n) := add_line (fsyn f) None v_use [auto_quote path] in
  with_use (with_syn f s) (f_use f ++ [mkUse path modpath (Some n)]).

Definition add_use (f : file) (path modpath : str) : option file :=
  do (s, l, need) <- upsert_loop (fun u => str_eqb (us_path u) path) us_syn zero_use
                       (fun u => mkUse (us_path u) modpath (us_syn u))
                       v_use [auto_quote path] true (fsyn f) (f_use f);
  let f' := with_use (with_syn f s) l in
  if need then Some (add_new_use f' path modpath) else Some f'.

Definition drop_use (f : file) (path : str) : option file :=
  do (s, l) <- drop_loop (fun u => str_eqb (us_path u) path) us_syn zero_use (fsyn f) (f_use f);
  Some (with_use (with_syn f s) l).

Fixpoint set_use_loop (s : syntax) (need : list (str * str)) (l : list e_use)
  : option (syntax * list e_use * list (str * str)) :=
  match l with
  | [] => Some (s, [], need)
  | u :: rest =>
      match amap_get (us_path u) need with
      | Some mp =>
          do (s', l', need') <- set_use_loop s (amap_del (us_path u) need) rest;
          Some (s', mkUse (us_path u) mp (us_syn u) :: l', need')
      | None =>
          do i <- us_syn u;
          do (s', l', need') <- set_use_loop (mark_removed s i) need rest;
          Some (s', zero_use :: l', need')
      end
  end.

Definition set_use (f : file) (l : list (str * str)) : option file :=
  let need := fold_left (fun m (q : str * str) => amap_set (fst q) (snd q) m) l [] in
  do (s, us, need') <- set_use_loop (fsyn f) need (f_use f);
  let f1 := with_use (with_syn f s) us in
  let f2 := fold_left (fun g kv => add_new_use g (fst kv) (snd kv)) need' f1 in
  Some (w_sort_blocks f2).

(* ---------------------------------------------------------------- operations *)

Inductive op :=
| AddModuleStmt (path : str)
| AddGoStmt (v : str) | DropGoStmt
| AddToolchainStmt (name : str) | DropToolchainStmt
| AddGodebug (key value : str) | DropGodebug (key : str)
| AddRequire (path vers : str) | AddNewRequire (path vers : str) (indirect : bool)
| SetRequire (l : list req) | SetRequireSeparateIndirect (l : list req)
| DropRequire (path : str)
| AddExclude (path vers : str) | DropExclude (path vers : str)
| AddReplace (op ov np nv : str) | DropReplace (op ov : str)
| AddRetract (lo hi rationale : str) | DropRetract (lo hi : str)
| AddTool (path : str) | DropTool (path : str)
| AddComment (text : str)
| Cleanup | SortBlocks
| WAddGoStmt (v : str) | WDropGoStmt
| WAddToolchainStmt (name : str) | WDropToolchainStmt
| WAddGodebug (key value : str) | WDropGodebug (key : str)
| WAddUse (path modpath : str) | WAddNewUse (path modpath : str)
| WSetUse (l : list (str * str)) | WDropUse (path : str)
| WAddReplace (op ov np nv : str) | WDropReplace (op ov : str)
| WCleanup | WSortBlocks.

Definition apply (o : op) (f : file) : res :=
  match o with
  | AddModuleStmt p => lift (add_module_stmt f p)
  | AddGoStmt v => add_go_stmt f v
  | DropGoStmt | WDropGoStmt => drop_go_stmt f
  | AddToolchainStmt n => add_toolchain_stmt f n
  | DropToolchainStmt | WDropToolchainStmt => drop_toolchain_stmt f
  | AddGodebug k v | WAddGodebug k v => lift (add_godebug f k v)
  | DropGodebug k | WDropGodebug k => lift (drop_godebug f k)
  | AddRequire p v => lift (add_require f p v)
  | AddNewRequire p v ind => ROk (add_new_require f p v ind)
  | SetRequire l => lift (set_require f l)
  | SetRequireSeparateIndirect l => lift (set_require_separate_indirect f l)
  | DropRequire p => lift (drop_require f p)
  | AddExclude p v => add_exclude f p v
  | DropExclude p v => lift (drop_exclude f p v)
  | AddReplace a b c d | WAddReplace a b c d => lift (add_replace f a b c d)
  | DropReplace a b | WDropReplace a b => lift (drop_replace f a b)
  | AddRetract lo hi rat => add_retract f lo hi rat
  | DropRetract lo hi => lift (drop_retract f lo hi)
  | AddTool p => ROk (add_tool f p)
  | DropTool p => lift (drop_tool f p)
  | AddComment t => ROk (add_comment f t)
  | Cleanup => ROk (cleanup f)
  | SortBlocks => ROk (sort_blocks f)
  | WAddGoStmt v => w_add_go_stmt f v
  | WAddToolchainStmt n => w_add_toolchain_stmt f n
  | WAddUse p m => lift (add_use f p m)
  | WAddNewUse p m => ROk (add_new_use f p m)
  | WSetUse l => lift (set_use f l)
  | WDropUse p => lift (drop_use f p)
  | WCleanup => ROk (w_cleanup f)
  | WSortBlocks => ROk (w_sort_blocks f)
  end.

Inductive run_res := RunOk (errs : list bool) (f : file) | RunPanic (at_ : nat).

Fixpoint run_from (k : nat) (errs_rev : list bool) (ops : list op) (f : file) : run_res :=
  match ops with
  | [] => RunOk (rev errs_rev) f
  | o :: rest =>
      match apply o f with
      | ROk f' => run_from (S k) (false :: errs_rev) rest f'
      | RErr f' => run_from (S k) (true :: errs_rev) rest f'
      | RPanic => RunPanic k
      end
  end.

Definition run_ops (ops : list op) (f : file) : run_res := run_from O [] ops f.
