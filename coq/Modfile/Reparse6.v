(* Reparse, part 6: the tokens of a rendered item are texts of single tokens of the lexer, none
   of them a parenthesis; hence a statement of the edit tree whose lines render items is
   well formed for the printer/parser round trip ([stmt_toks_ok] of Reparse2.v). *)
From Verif.Base Require Import Bytes Utf8 Strconv QuoteProofs.
From Verif.Semver Require Import Model.
From Verif.Modfile Require Import Syntax Lex Parse Print Directives RoundRows RoundLexPure4 RoundTree RoundQuote
  RoundDir1 RoundDir5 RoundMain3 Reparse3.

Lemma path_tok p : path_ok p -> tok_good (auto_quote p).
Proof. intros (Hb & Hn & Hl). destruct (auto_quote_token p Hb Hn Hl) as (A & _ & C & D). split; [exact A|split; [exact C|exact D]]. Qed.

Lemma plain_tok u : plain u -> tok_good u.
Proof. intros H. pose proof (path_tok u (proj1 H)) as T. rewrite (plain_auto_quote u H) in T. exact T. Qed.

Lemma valid_tok v : is_valid v = true -> tok_good v.
Proof. intros H. exact (proj1 (proj2 (valid_token v H))). Qed.

Lemma plain_word (w : str) : Forall byte w -> (2 <= length w)%nat -> must_quote w = false -> plain w.
Proof.
  intros Hb Hl Hq. split; [|exact Hq]. split; [exact Hb|]. split; [destruct w; [cbn in Hl; lia|discriminate]|].
  intros c E. rewrite E in Hl. cbn in Hl. lia.
Qed.

Ltac word := apply plain_tok, plain_word; [repeat constructor; unfold byte; lia|cbn; lia|vm_compute; reflexivity].

Lemma tok_module : tok_good (B "module"). Proof. word. Qed.
Lemma tok_go : tok_good (B "go"). Proof. word. Qed.
Lemma tok_toolchain : tok_good (B "toolchain"). Proof. word. Qed.
Lemma tok_godebug : tok_good (B "godebug"). Proof. word. Qed.
Lemma tok_require : tok_good (B "require"). Proof. word. Qed.
Lemma tok_exclude : tok_good (B "exclude"). Proof. word. Qed.
Lemma tok_replace : tok_good (B "replace"). Proof. word. Qed.
Lemma tok_retract : tok_good (B "retract"). Proof. word. Qed.
Lemma tok_tool : tok_good (B "tool"). Proof. word. Qed.
Lemma tok_use : tok_good (B "use"). Proof. word. Qed.
Lemma tok_arrow : tok_good (B "=>"). Proof. word. Qed.

Lemma tok_lbrack : tok_good (B "[").
Proof. split; [|split; reflexivity]. exists (KPunct 91). split; [reflexivity|]. exists 2%nat, false, []. reflexivity. Qed.
Lemma tok_rbrack : tok_good (B "]").
Proof. split; [|split; reflexivity]. exists (KPunct 93). split; [reflexivity|]. exists 2%nat, false, []. reflexivity. Qed.
Lemma tok_comma : tok_good (B ",").
Proof. split; [|split; reflexivity]. exists (KPunct 44). split; [reflexivity|]. exists 2%nat, false, []. reflexivity. Qed.

(* ---------------------------------------------------------------- the tokens of an item *)

Lemma renders_toks verb args it : renders verb args it -> tok_good verb /\ Forall tok_good args /\ args <> [].
Proof.
  destruct it as [p dep|v|v|k v|p v ind|p v|a b c d|lo hi rat|p|p]; cbn [renders].
  - intros (-> & -> & Hp). split; [exact tok_module|]. split; [repeat constructor; apply path_tok; exact Hp|discriminate].
  - intros (-> & -> & _ & Hp). split; [exact tok_go|]. split; [repeat constructor; apply plain_tok; exact Hp|discriminate].
  - intros (-> & -> & _ & Hp). split; [exact tok_toolchain|]. split; [repeat constructor; apply plain_tok; exact Hp|discriminate].
  - intros (-> & -> & Hp & _). split; [exact tok_godebug|]. split; [repeat constructor; apply plain_tok; exact Hp|discriminate].
  - intros (-> & -> & Hp & Hv & _). split; [exact tok_require|].
    split; [constructor; [apply path_tok; exact Hp|constructor; [apply valid_tok; exact Hv|constructor]]|discriminate].
  - intros (-> & -> & Hp & Hv & _). split; [exact tok_exclude|].
    split; [constructor; [apply path_tok; exact Hp|constructor; [apply valid_tok; exact Hv|constructor]]|discriminate].
  - intros (-> & -> & Ha & Hc & (pm & _ & Hb) & Hd). split; [exact tok_replace|]. unfold replace_toks. split; [|discriminate].
    apply Forall_app. split; [constructor; [apply path_tok; exact Ha|constructor]|].
    apply Forall_app. split.
    { destruct Hb as [->|(Hb & _)]; [constructor|]. destruct (valid_first b Hb) as (r & ->). cbn [Parse.is_nil].
      constructor; [apply valid_tok; exact Hb|constructor]. }
    constructor; [exact tok_arrow|]. constructor; [apply path_tok; exact Hc|].
    destruct Hd as [(-> & _)|(Hd & _)]; [constructor|]. destruct (valid_first d Hd) as (r & ->). cbn [Parse.is_nil].
    constructor; [apply valid_tok; exact Hd|constructor].
  - intros (-> & Hlo & Hhi & [(_ & ->)| ->]); (split; [exact tok_retract|]); (split; [|discriminate]).
    + constructor; [apply valid_tok; exact Hlo|constructor].
    + constructor; [exact tok_lbrack|]. constructor; [apply valid_tok; exact Hlo|]. constructor; [exact tok_comma|].
      constructor; [apply valid_tok; exact Hhi|]. constructor; [exact tok_rbrack|constructor].
  - intros (-> & -> & Hp). split; [exact tok_tool|]. split; [repeat constructor; apply path_tok; exact Hp|discriminate].
  - intros (-> & -> & Hp). split; [exact tok_use|]. split; [repeat constructor; apply path_tok; exact Hp|discriminate].
Qed.

(* ---------------------------------------------------------------- scan on tokens without parentheses *)

Lemma scan_nolp : forall more acc, Forall (fun t => is_lp t = false) more -> scan acc more = RoundRows.SLine (rev acc ++ more).
Proof.
  induction more as [|t r IH]; intros acc H; cbn [scan]; [rewrite app_nil_r; reflexivity|].
  inversion H as [|? ? Ht Hr]; subst. rewrite Ht. rewrite IH by exact Hr. cbn [rev]. rewrite <- app_assoc. reflexivity.
Qed.

Lemma good_ltext l : Forall tok_good l -> Forall ltext l.
Proof. intros H. eapply Forall_impl; [|exact H]. intros t (A & _). exact A. Qed.

Lemma good_nolp l : Forall tok_good l -> Forall (fun t => is_lp t = false) l.
Proof. intros H. eapply Forall_impl; [|exact H]. intros t (_ & A & _). exact A. Qed.

Lemma hdr_one verb : hdr_ok [verb].
Proof. exists verb, [[40]]. split; [reflexivity|]. reflexivity. Qed.

Lemma known_verb_tok verb : known_mod_block verb = true \/ known_work_block verb = true -> tok_good verb.
Proof.
  unfold known_mod_block, known_work_block, is_verb. intros [H|H];
    repeat (apply orb_true_iff in H as [H|H]); apply str_eqb_eq in H; subst verb;
    first [exact tok_module|exact tok_godebug|exact tok_require|exact tok_exclude|exact tok_replace|exact tok_retract
          |exact tok_tool|exact tok_use].
Qed.
