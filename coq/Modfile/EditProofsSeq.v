(* C15 / C08: the invariant and the refinement over sequences, for the operations whose
   coherence is proved. *)
From Coq Require Import Permutation.
From Verif.Base Require Import Bytes.
From Verif.Modfile Require Import EditModel EditOps EditSpec EditProofsTyped EditProofsHeap EditProofsCoherent
  EditProofsCleanup EditProofsAddLine EditProofsAdd EditProofsUpsert.

(* the operations for which Coherent is proved to be preserved *)
Definition coh_op (o : op) : bool :=
  match o with
  | SortBlocks | WSortBlocks | AddTool _ | SetRequire _ | SetRequireSeparateIndirect _ | WSetUse _
  | WAddGoStmt _ | WAddToolchainStmt _ => false
  | _ => true
  end.

Lemma lift_some (r : option file) f' : lift r = ROk f' -> r = Some f'.
Proof. destruct r; cbn; congruence. Qed.
Lemma lift_not_err (r : option file) f' : lift r = RErr f' -> False.
Proof. destruct r; cbn; congruence. Qed.

Theorem coherent_invariant_partial o f f' :
  coh_op o = true -> valid_args o = true -> Coherent f ->
  apply o f = ROk f' \/ apply o f = RErr f' -> Coherent f'.
Proof.
  intros Hco Hv Hc H.
  destruct o; try discriminate Hco; cbn [apply] in H; cbn in Hv;
    try (destruct H as [H|H]; [apply lift_some in H | exfalso; exact (lift_not_err _ _ H)]).
  - eapply add_module_stmt_coherent; eauto.
  - destruct H as [H|H]; [eapply add_go_stmt_coherent; eauto|].
    unfold add_go_stmt in H. destruct (go_version_ok v); cbn in H.
    + destruct (f_go f) as [g|]; [destruct (go_syn g); discriminate | destruct (add_line _ _ _ _); discriminate].
    + injection H as <-. exact Hc.
  - destruct H as [H|H]; [eapply drop_go_stmt_coherent; eauto|].
    unfold drop_go_stmt in H. destruct (f_go f) as [g|]; [destruct (go_syn g)|]; discriminate.
  - destruct H as [H|H]; [eapply add_toolchain_stmt_coherent; eauto|].
    unfold add_toolchain_stmt in H. destruct (toolchain_ok name); cbn in H.
    + destruct (f_toolchain f) as [g|]; [destruct (go_syn g); discriminate | destruct (add_line _ _ _ _); discriminate].
    + injection H as <-. exact Hc.
  - destruct H as [H|H]; [eapply drop_toolchain_stmt_coherent; eauto|].
    unfold drop_toolchain_stmt in H. destruct (f_toolchain f) as [g|]; [destruct (go_syn g)|]; discriminate.
  - eapply add_godebug_coherent; eauto. apply nonempty_true. exact Hv.
  - eapply drop_godebug_coherent; eauto.
  - eapply add_require_coherent; eauto. apply nonempty_true. exact Hv.
  - destruct H as [H|H]; [|discriminate]. injection H as <-. apply add_new_require_coherent; [apply nonempty_true; exact Hv | exact Hc].
  - eapply drop_require_coherent; eauto.
  - destruct H as [H|H]; [eapply add_exclude_coherent; eauto; apply nonempty_true; exact Hv|].
    unfold add_exclude in H. destruct (check_canonical_version path vers); cbn in H.
    + destruct (exclude_scan _ _ _ _); [destruct (add_line _ _ _ _)|]; discriminate.
    + injection H as <-. exact Hc.
  - eapply drop_exclude_coherent; eauto.
  - eapply add_replace_coherent; eauto. apply nonempty_true. exact Hv.
  - eapply drop_replace_coherent; eauto.
  - destruct H as [H|H]; [eapply add_retract_coherent; eauto|].
    unfold add_retract in H.
    destruct (check_canonical_version _ hi); cbn in H; [|injection H as <-; exact Hc].
    destruct (check_canonical_version _ lo); cbn in H; [|injection H as <-; exact Hc].
    destruct (add_line _ _ _ _). discriminate.
  - eapply drop_retract_coherent; eauto.
  - eapply drop_tool_coherent; eauto.
  - destruct H as [H|H]; [|discriminate]. injection H as <-. apply add_comment_coherent. exact Hc.
  - destruct H as [H|H]; [|discriminate]. injection H as <-. apply cleanup_coherent. exact Hc.
  - destruct H as [H|H]; [eapply drop_go_stmt_coherent; eauto|].
    unfold drop_go_stmt in H. destruct (f_go f) as [g|]; [destruct (go_syn g)|]; discriminate.
  - destruct H as [H|H]; [eapply drop_toolchain_stmt_coherent; eauto|].
    unfold drop_toolchain_stmt in H. destruct (f_toolchain f) as [g|]; [destruct (go_syn g)|]; discriminate.
  - eapply add_godebug_coherent; eauto. apply nonempty_true. exact Hv.
  - eapply drop_godebug_coherent; eauto.
  - eapply add_use_coherent; eauto. apply nonempty_true. exact Hv.
  - destruct H as [H|H]; [|discriminate]. injection H as <-. apply add_new_use_coherent; [apply nonempty_true; exact Hv | exact Hc].
  - eapply drop_use_coherent; eauto.
  - eapply add_replace_coherent; eauto. apply nonempty_true. exact Hv.
  - eapply drop_replace_coherent; eauto.
  - destruct H as [H|H]; [|discriminate]. injection H as <-. apply w_cleanup_coherent. exact Hc.
Qed.

Lemma coh_simple o : coh_op o = true -> simple_op o = true.
Proof. destruct o; cbn; congruence. Qed.

(* C15 + C08 over sequences of the operations above: the file stays Coherent, the run never
   panics away from the keyed model: errors and final typed lists are those of [krun] *)
Theorem run_coherent_refines ops : forall f k er errs f',
  Coherent f ->
  Forall (fun o => coh_op o = true /\ valid_args o = true) ops ->
  run_from k er ops f = RunOk errs f' ->
  Coherent f' /\ krun ops (abs f) er = (abs f', errs).
Proof.
  induction ops as [|o r IH]; intros f k er errs f' Hc Hall H; cbn in H.
  - injection H as <- <-. split; [exact Hc | reflexivity].
  - inversion Hall as [|? ? [Hco Hv] Hr]; subst.
    pose proof (apply_refines_simple o f (coh_simple o Hco) Hv) as Href. unfold res_refines in Href.
    cbn [krun].
    destruct (apply o f) as [f1|f1|] eqn:Ha; [| |discriminate].
    + rewrite Href. apply (IH f1 (S k)); [|exact Hr | exact H].
      eapply coherent_invariant_partial; eauto.
    + destruct Href as [-> Hk]. destruct (kstep o (abs f)) as [k1 e1] eqn:Ek. cbn in Hk. subst e1.
      (* an erroring step leaves the keyed state unchanged as well *)
      assert (k1 = abs f).
      { destruct o; cbn in Ek; try discriminate Hco;
          repeat match type of Ek with
                 | (if ?c then _ else _) = _ => destruct c
                 | (let (_, _) := ?c in _) = _ => destruct c
                 end; try (injection Ek as <-; reflexivity); try discriminate. }
      subst k1. apply (IH f (S k)); [exact Hc | exact Hr | exact H].
Qed.

(* ---------------------------------------------------------------- coherence gives what removeDups needs *)
Lemma ids_view_somes {E} (g : E -> ent) l :
  Forall ent_ok (map g l) -> ids (flat_map ent_view (map g l)) = somes (map (fun e => en_syn (g e)) l).
Proof.
  induction l as [|e r IH]; cbn [map flat_map]; intros H; [reflexivity|].
  inversion H as [|? ? He Hr]; subst. unfold ids. rewrite map_app. fold (ids (flat_map ent_view (map g r))).
  rewrite (IH Hr). unfold ent_ok, ent_view in *. cbn [somes flat_map].
  destruct (en_syn (g e)) as [i|]; destruct (en_live (g e)); cbn; try reflexivity; congruence.
Qed.

Lemma NoDup_drop_mid {A} (a b c : list A) : NoDup (a ++ b ++ c) -> NoDup (a ++ c).
Proof.
  intros H. apply NoDup_app_intro.
  - exact (NoDup_app_l _ _ H).
  - exact (NoDup_app_r _ _ (NoDup_app_r _ _ H)).
  - intros x Ha Hc. eapply (NoDup_app_disj _ _ x H); [exact Ha | apply in_app_iff; right; exact Hc].
Qed.

Lemma coherent_dedupwf f : Coherent f -> DedupWf f.
Proof.
  intros Hc. pose proof (typed_ids_nodup f Hc) as Hnd. destruct Hc as [_ Hent _].
  unfold EntriesOk in Hent. unfold typed_view in Hnd.
  rewrite entries_exclude in Hent, Hnd.
  apply Forall_app in Hent. destruct Hent as [_ Hent]. apply Forall_app in Hent. destruct Hent as [Hex Hent].
  unfold post_exclude, post_replace, post_retract in Hent, Hnd.
  apply Forall_app in Hent. destruct Hent as [Hrp Hent]. apply Forall_app in Hent. destruct Hent as [_ Hent].
  apply Forall_app in Hent. destruct Hent as [Htl _].
  split.
  - intros x Hx Hl. rewrite Forall_forall in Hex. specialize (Hex (ent_exclude x) (in_map _ _ _ Hx)).
    unfold ent_ok in Hex. cbn in Hex. rewrite Hl in Hex. exact Hex.
  - intros x Hx Hl. rewrite Forall_forall in Hrp. specialize (Hrp (ent_replace x) (in_map _ _ _ Hx)).
    unfold ent_ok in Hrp. cbn in Hrp. rewrite Hl in Hrp. exact Hrp.
  - intros x Hx Hl. rewrite Forall_forall in Htl. specialize (Htl (ent_tool x) (in_map _ _ _ Hx)).
    unfold ent_ok in Htl. cbn in Htl. rewrite Hl in Htl. exact Htl.
  - rewrite !flat_map_app in Hnd. unfold ids in Hnd. rewrite !map_app in Hnd.
    apply NoDup_app_r in Hnd.
    fold (ids (flat_map ent_view (map ent_exclude (f_exclude f)))) in Hnd.
    fold (ids (flat_map ent_view (map ent_replace (f_replace f)))) in Hnd.
    fold (ids (flat_map ent_view (map ent_tool (f_tool f)))) in Hnd.
    rewrite (ids_view_somes ent_exclude _ Hex), (ids_view_somes ent_replace _ Hrp), (ids_view_somes ent_tool _ Htl) in Hnd.
    cbn [ent_exclude ent_replace ent_tool en_syn] in Hnd.
    (* drop the retract and use segments *)
    rewrite app_assoc in Hnd. apply NoDup_drop_mid in Hnd. rewrite <- app_assoc in Hnd.
    rewrite app_assoc in Hnd. rewrite app_assoc in Hnd. apply NoDup_app_l in Hnd. rewrite <- app_assoc in Hnd.
    exact Hnd.
Qed.

Theorem sort_blocks_refines_coherent f : Coherent f -> abs (sort_blocks f) = fst (kstep SortBlocks (abs f)).
Proof. intros Hc. apply sort_blocks_abs, coherent_dedupwf, Hc. Qed.

Theorem w_sort_blocks_refines_coherent f : Coherent f -> abs (w_sort_blocks f) = fst (kstep WSortBlocks (abs f)).
Proof. intros Hc. apply w_sort_blocks_abs, coherent_dedupwf, Hc. Qed.

Theorem run_ops_coherent_refines ops f errs f' :
  Coherent f ->
  Forall (fun o => coh_op o = true /\ valid_args o = true) ops ->
  run_ops ops f = RunOk errs f' ->
  Coherent f' /\ krun ops (abs f) [] = (abs f', errs).
Proof. exact (run_coherent_refines ops f O [] errs f'). Qed.
