(* Round trip, part 12f: the tree the directive layer rebuilds (tokens rewritten) is again
   a well-formed lean tree. *)
From Verif.Base Require Import Bytes Utf8 Strconv QuoteProofs.
From Verif.Semver Require Import Spec Model.
From Verif.Module Require Import Path.
From Verif.Modfile Require Import Syntax Lex Parse Print Directives ProofsLex ProofsDirectives RoundRows
  RoundLexPure4 RoundLexB1 RoundTree RoundTree2 RoundQuote RoundSemver RoundDir1 RoundDir2 RoundDir3 RoundDir4.

(* ---------------------------------------------------------------- scan sees parentheses only *)

Definition pp (t t' : str) : Prop := is_lp t = is_lp t' /\ is_rp t = is_rp t'.

Definition shape_kind (s : shape) : nat := match s with SLine _ => 0 | SOpen _ => 1 | SEmpty _ => 2 end.

Lemma scan_kind_pp : forall n more more' acc acc', (length more <= n)%nat -> Forall2 pp more more' ->
  shape_kind (scan acc more) = shape_kind (scan acc' more').
Proof.
  induction n as [|n IH]; intros more more' acc acc' Hn H.
  { destruct more; [|cbn in Hn; lia]. inversion H; subst. reflexivity. }
  destruct more as [|t r]; [inversion H; subst; reflexivity|].
  inversion H as [|? t' ? r' (L & R) Hr]; subst. cbn [scan]. rewrite <- L.
  destruct (is_lp t).
  2:{ apply IH; [cbn [length] in *; lia|exact Hr]. }
  destruct r as [|u r2]; [inversion Hr; subst; reflexivity|].
  inversion Hr as [|? u' ? r2' (L2 & R2) Hr2]; subst. rewrite <- R2.
  destruct (is_rp u).
  2:{ apply IH; [cbn [length] in *; lia|exact Hr]. }
  destruct r2 as [|v r3]; [inversion Hr2; subst; reflexivity|].
  inversion Hr2 as [|? v' ? r3' Hv Hr3]; subst.
  apply IH; [cbn [length] in *; lia|exact Hr2].
Qed.

Lemma tsub_pp t t' : tsub t t' -> pp t t'.
Proof.
  intros [->|((_ & A & B) & C & D)]; [split; reflexivity|]. split; congruence.
Qed.

Lemma tsub_ltext t t' : tsub t t' -> ltext t -> ltext t'.
Proof. intros [->|((A & _) & _)] H; [exact H|exact A]. Qed.

Lemma Forall2_tsub_ltext l l' : Forall2 tsub l l' -> Forall ltext l -> Forall ltext l'.
Proof.
  induction 1 as [|t t' r r' Ht Hr IH]; intros H; [constructor|]. inversion H; subst.
  constructor; [eapply tsub_ltext; eauto|auto].
Qed.

Lemma Forall2_imp {A B} (P Q : A -> B -> Prop) l l' : (forall a b, P a b -> Q a b) -> Forall2 P l l' -> Forall2 Q l l'.
Proof. intros H. induction 1; constructor; auto. Qed.

Lemma scan_line_subst t0 more t0' more' : tsub t0 t0' -> Forall2 tsub more more' ->
  scan [t0] more = SLine (t0 :: more) -> scan [t0'] more' = SLine (t0' :: more').
Proof.
  intros H0 Hm Hs.
  assert (Hpp : Forall2 pp more more') by (eapply Forall2_imp; [|exact Hm]; intros; apply tsub_pp; assumption).
  pose proof (scan_kind_pp (length more) more more' [t0] [t0'] (le_n _) Hpp) as Hk. rewrite Hs in Hk. cbn in Hk.
  pose proof (scan_content (length more') more' [t0'] (le_n _)) as Hc.
  destruct (scan [t0'] more'); cbn in Hk; try discriminate. rewrite Hc. reflexivity.
Qed.

(* ---------------------------------------------------------------- the rebuilt statements *)

Definition rbl (l l' : line) : Prop :=
  l' = line_set_token l (l_token l') /\ Forall2 tsub (l_token l) (l_token l').

Definition rb (x y : expr) : Prop :=
  match x with
  | ECommentBlock _ => y = x
  | ELine l => exists l', y = ELine l' /\ rbl l l'
  | EBlock b => exists ls', y = EBlock (mkBlock (b_comments b) (b_start b) (b_lparen b) (b_token b) ls' (b_rparen b)) /\
                            Forall2 rbl (b_line b) ls'
  end.

Section Rebuilt.
Variable fx : fixer.
Hypothesis Hfx : fixer_ok fx.

Lemma ctx_eq_refl blk l : ctx_eq blk l blk l.
Proof. split; reflexivity. Qed.

Lemma add_tsub f blk l ref verb args :
  st_err (add true fx f blk l ref verb args) = false -> wf_file (st_file (add true fx f blk l ref verb args)) ->
  Forall2 tsub args (st_args (add true fx f blk l ref verb args)).
Proof.
  intros E Hwf. destruct (add_sim fx Hfx f f blk blk l l ref ref verb args E eq_refl (ctx_eq_refl blk l) Hwf) as (_ & _ & _ & H). exact H.
Qed.

Lemma block_lines_rb blk verb i : forall ls j f,
  let r := block_lines (fun f l ref args => add true fx f blk l ref verb args) i j ls f [] [] in
  snd (fst r) = [] -> wf_file (fst (fst r)) -> Forall2 rbl ls (snd r).
Proof.
  induction ls as [|l ls IH]; intros j f; cbv zeta; cbn [block_lines]; intros He Hwf; [constructor|].
  destruct (st_err (add true fx f blk l (i, Some j) verb (l_token l))) eqn:E.
  { exfalso. revert He. apply block_lines_errs_mono. unfold add_err. rewrite E. discriminate. }
  unfold add_err in *. rewrite E in *. rewrite block_lines_acc in He, Hwf |- *. cbn [fst snd] in *.
  rewrite frev_rev. cbn [rev app]. constructor.
  - split; [reflexivity|]. cbn [line_set_token l_token]. apply add_tsub; [exact E|].
    eapply wf_ext; [|exact Hwf]. apply block_lines_ext.
  - apply IH; assumption.
Qed.

Lemma stmt_step_rb i x S1 :
  lp_errs_r (step2 fx i x S1) = [] -> lp_panic (step2 fx i x S1) = false -> wf_file (lp_file (step2 fx i x S1)) ->
  exists y, lp_stmts_r (step2 fx i x S1) = y :: lp_stmts_r S1 /\ rb x y.
Proof.
  unfold step2, step_of, stmt_step. intros He Hp Hwf.
  destruct x as [l|b|c].
  - destruct (l_token l) as [|verb args] eqn:Et; cbn [lp_panic lp_errs_r lp_file lp_stmts_r] in *; [discriminate|].
    eexists. split; [reflexivity|]. apply add_err_nil in He as (E & _).
    eexists. split; [reflexivity|]. split; [reflexivity|]. cbn [line_set_token l_token]. rewrite Et.
    constructor; [apply tsub_refl|]. apply add_tsub; assumption.
  - destruct (b_token b) as [|verb [|v2 r]] eqn:Et; cbn [lp_panic lp_errs_r lp_file lp_stmts_r] in *; try discriminate.
    destruct (known_mod_block verb) eqn:Ek; cbn [lp_panic lp_errs_r lp_file lp_stmts_r] in *; [|discriminate].
    assert (He1 : lp_errs_r S1 = []).
    { destruct (lp_errs_r S1) eqn:Ee; [reflexivity|]. exfalso.
      pose proof (block_lines_errs_mono (fun f l ref args => add true fx f (Some b) l ref verb args) i (b_line b) O (lp_file S1) (p :: l) []
                    ltac:(discriminate)) as Hm.
      destruct (block_lines _ i O (b_line b) (lp_file S1) (p :: l) []) as [[f' e'] ls']. cbn in *. congruence. }
    rewrite He1 in *.
    pose proof (block_lines_rb (Some b) verb i (b_line b) O (lp_file S1)) as Hrb. cbv zeta in Hrb.
    destruct (block_lines (fun f l ref args => add true fx f (Some b) l ref verb args) i O (b_line b) (lp_file S1) [] [])
      as [[f' e'] ls'] eqn:Ebl. cbn [lp_panic lp_errs_r lp_file lp_stmts_r fst snd] in *.
    eexists. split; [reflexivity|]. exists ls'. rewrite Et. split; [reflexivity|]. apply Hrb; assumption.
  - cbn [lp_stmts_r]. eexists. split; [reflexivity|]. reflexivity.
Qed.

Lemma stmts_loop_rb : forall xs i S1,
  let Sf := stmts_loop (step2 fx) i xs S1 in
  lp_errs_r Sf = [] -> lp_panic Sf = false -> wf_file (lp_file Sf) ->
  exists ys, lp_stmts_r Sf = rev ys ++ lp_stmts_r S1 /\ Forall2 rb xs ys.
Proof.
  induction xs as [|x xs IH]; intros i S1; cbv zeta; cbn [stmts_loop]; intros He Hp Hwf.
  - exists []. split; [reflexivity|constructor].
  - set (S1' := step2 fx i x S1) in *.
    assert (He1 : lp_errs_r S1' = []).
    { destruct (lp_errs_r S1') eqn:E; [reflexivity|]. exfalso. revert He. apply (stmts_loop_errs_mono true fx). rewrite E. discriminate. }
    assert (Hp1 : lp_panic S1' = false).
    { destruct (lp_panic S1') eqn:E; [|reflexivity]. pose proof (stmts_loop_panic fx xs (S i) S1' E) as Hx.
      change (step_of true fx) with (step2 fx) in Hx. rewrite Hx in Hp. discriminate. }
    assert (Hwf1 : wf_file (lp_file S1')) by (eapply wf_ext; [apply (stmts_loop_ext fx xs (S i) S1')|exact Hwf]).
    destruct (stmt_step_rb i x S1 He1 Hp1 Hwf1) as (y & Ey & Hy). fold S1' in Ey.
    destruct (IH (S i) S1' He Hp Hwf) as (ys & Eys & Hys).
    exists (y :: ys). split; [rewrite Eys, Ey; cbn [rev]; rewrite <- app_assoc; reflexivity|constructor; assumption].
Qed.
End Rebuilt.

(* ---------------------------------------------------------------- ... as lean statements *)

Definition retok_line (l : aline) (toks : list str) : aline := mkAL (al_before l) toks (al_suffix l).

Lemma rbl_lean inb l l' al : rbl l l' -> zline l = eline inb al ->
  zline l' = eline inb (retok_line al (l_token l')) /\ Forall2 tsub (al_toks al) (l_token l').
Proof.
  intros (E & Ht) Hz. unfold zline, eline, zcs in Hz. injection Hz as Hb Hsf Haf Htok Hin.
  split; [|rewrite <- Htok; exact Ht].
  unfold zline, eline, retok_line, zcs. rewrite E. cbn [line_set_token l_comments l_token l_inblock al_before al_toks al_suffix].
  rewrite Hb, Hsf, Haf, Hin. reflexivity.
Qed.

Lemma aline_ok_retok first al toks : aline_ok first al -> Forall2 tsub (al_toks al) toks -> aline_ok first (retok_line al toks).
Proof.
  intros (Hb & (t0 & more & Et & Hrp) & Hlt & Hs) Ht. unfold aline_ok, retok_line. cbn [al_before al_toks al_suffix].
  split; [exact Hb|]. split; [|split; [eapply Forall2_tsub_ltext; eauto|exact Hs]].
  rewrite Et in Ht. inversion Ht as [|? t0' ? more' H0 Hm]; subst. exists t0', more'. split; [reflexivity|].
  destruct (tsub_pp _ _ H0) as (_ & R). congruence.
Qed.

Lemma cons_eq_inv {A} (a b : A) l m : a :: l = b :: m -> a = b /\ l = m.
Proof. intros H. split; congruence. Qed.

Lemma lines_lean : forall ls ls' als first, Forall2 rbl ls ls' -> map zline ls = map (eline true) als -> alines_ok first als ->
  exists als', map zline ls' = map (eline true) als' /\ alines_ok first als' /\ length als' = length als.
Proof.
  induction ls as [|l ls IH]; intros ls' als first H Hz Hok.
  - inversion H; subst. destruct als; [|discriminate]. exists []. auto.
  - inversion H as [|? l' ? ls'' Hl Hr]; subst. destruct als as [|al als]; [discriminate|]. cbn [map] in Hz. apply cons_eq_inv in Hz as (Hz1 & Hz2).
    destruct Hok as (Hal & Hals).
    destruct (rbl_lean true l l' al Hl Hz1) as (E1 & Ht).
    destruct (IH ls'' als false Hr Hz2 Hals) as (als' & E2 & Hok' & Hlen).
    exists (retok_line al (l_token l') :: als'). cbn [map]. rewrite E1, E2. split; [reflexivity|].
    split; [split; [apply aline_ok_retok; assumption|exact Hok']|cbn; lia].
Qed.

(* blocks keep their Suffix only when they have no lines *)
Definition sfx_inv (x : astmt) : Prop :=
  match x with ABlock b => ab_sfx b = [] \/ ab_lines b = [] | _ => True end.

Lemma rb_lean x y a : rb x y -> zexpr x = estmt a -> astmt_ok a -> sfx_inv a ->
  exists a', zexpr y = estmt a' /\ astmt_ok a' /\ sfx_inv a'.
Proof.
  intros Hrb Hz Hok Hsi. destruct x as [l|b|c]; cbn [rb] in Hrb.
  - destruct Hrb as (l' & -> & Hl). destruct a as [al|ab|cs]; try discriminate. cbn [zexpr estmt] in Hz.
    assert (Hz' : zline l = eline false al) by congruence.
    destruct (rbl_lean false l l' al Hl Hz') as (E & Ht).
    exists (ALine (retok_line al (l_token l'))). cbn [zexpr estmt]. rewrite E. split; [reflexivity|]. split; [|exact I].
    destruct Hok as (Hb & (t0 & more & Et & Hsc) & Hlt & Hs). cbn [astmt_ok retok_line al_before al_toks al_suffix].
    split; [exact Hb|]. split; [|split; [eapply Forall2_tsub_ltext; eauto|exact Hs]].
    rewrite Et in Ht. inversion Ht as [|? t0' ? more' H0 Hm]; subst. exists t0', more'. split; [reflexivity|].
    rewrite Et in Hsc. apply (scan_line_subst t0 more t0' more' H0 Hm Hsc).
  - destruct Hrb as (ls' & -> & Hls). destruct a as [al|ab|cs]; try discriminate. cbn [zexpr estmt] in Hz.
    assert (Hz' : zblock b = eblock ab) by congruence. clear Hz.
    assert (Hc : zcs (b_comments b) = mkComments (map ec (ab_before ab)) (map ec (ab_sfx ab)) []) by (apply (f_equal b_comments) in Hz'; exact Hz').
    assert (Hlp : zparen (b_lparen b) = mkParen (mkComments [] (map ec (ab_lsfx ab)) []) zero_pos) by (apply (f_equal b_lparen) in Hz'; exact Hz').
    assert (Htok : b_token b = ab_toks ab) by (apply (f_equal b_token) in Hz'; exact Hz').
    assert (Hlines : map zline (b_line b) = map (eline true) (ab_lines ab)) by (apply (f_equal b_line) in Hz'; exact Hz').
    assert (Hrp : zparen (b_rparen b) = mkParen (mkComments (map ec (ab_rbefore ab)) (map ec (ab_rsfx ab)) []) zero_pos) by (apply (f_equal b_rparen) in Hz'; exact Hz').
    destruct Hok as (Hb & Hlt & Hh & Hlsx & Hl & Hrb' & Hs).
    destruct (lines_lean (b_line b) ls' (ab_lines ab) true Hls Hlines Hl) as (als' & E & Hok' & Hlen).
    exists (ABlock (mkAB (ab_before ab) (ab_toks ab) (ab_lsfx ab) als' (ab_rbefore ab) (ab_rsfx ab) (ab_sfx ab))).
    cbn [zexpr estmt]. unfold zblock, eblock. cbn [b_comments b_start b_lparen b_token b_line b_rparen ab_before ab_toks ab_lsfx ab_lines ab_rbefore ab_rsfx ab_sfx].
    rewrite Hc, Hlp, Htok, E, Hrp. split; [reflexivity|]. split.
    + unfold astmt_ok, ablock_ok. cbn [ab_before ab_toks ab_lsfx ab_lines ab_rbefore ab_rsfx ab_sfx].
      repeat (split; [assumption|]). split; [|exact Hs].
      assert (Hnil : is_nil als' = is_nil (ab_lines ab)) by (destruct als', (ab_lines ab); cbn in Hlen; try lia; reflexivity).
      rewrite Hnil. exact Hrb'.
    + cbn [sfx_inv ab_sfx ab_lines] in *. destruct Hsi as [Hsi|Hsi]; [left; exact Hsi|right].
      rewrite Hsi in Hlen. destruct als'; [reflexivity|cbn in Hlen; lia].
  - subst y. exists a. auto.
Qed.

Lemma rb_lean_all : forall xs ys al, Forall2 rb xs ys -> map zexpr xs = map estmt al ->
  Forall astmt_ok al -> Forall sfx_inv al ->
  exists al', map zexpr ys = map estmt al' /\ Forall astmt_ok al' /\ Forall sfx_inv al'.
Proof.
  induction xs as [|x xs IH]; intros ys al H Hz Hok Hsi.
  - inversion H; subst. destruct al; [|discriminate]. exists []. auto.
  - inversion H as [|? y ? ys' Hx Hr]; subst. destruct al as [|a al]; [discriminate|]. cbn [map] in Hz. apply cons_eq_inv in Hz as (Hz1 & Hz2).
    inversion Hok; subst. inversion Hsi; subst.
    destruct (rb_lean x y a Hx Hz1) as (a' & E1 & O1 & S1); auto.
    destruct (IH ys' al Hr Hz2) as (al' & E2 & O2 & S2); auto.
    exists (a' :: al'). cbn [map]. rewrite E1, E2. auto.
Qed.
