(* Reparse, part 10: typed_equals_reparse for go.work, at the level of one state of the edit
   model (the go.work analogue of Reparse9.v).  Use.ModulePath is never written to the file
   (TODO(#45713) in work.go), so the use list is compared by path. *)
From Coq Require Import Permutation.
From Verif.Base Require Import Bytes.
From Verif.Modfile Require Import Syntax Lex Parse Print Directives RoundRows RoundTree RoundDir1 RoundDir2 RoundDir3 RoundDir5
  RoundWork Reparse1 Reparse2 Reparse3 Reparse4 Reparse5 Reparse6 Reparse7 Reparse8 Reparse9 EditModel EditOps EditSpec.

Lemma expr_itemsW_toks h st its : expr_itemsW (to_expr h st) its -> stmt_toks_ok h st.
Proof.
  destruct st as [i|b|c]; cbn [to_expr stmt_toks_ok]; [| |auto].
  - intros H. inversion H as [l verb args it Ht (Hr & _)| |]; subst. cbn [to_line l_token] in Ht.
    destruct (renders_toks verb args it Hr) as (Tv & Ta & _). rewrite Ht. split.
    + exists verb, args. split; [reflexivity|]. apply (scan_nolp args [verb]). apply good_nolp. exact Ta.
    + apply good_ltext. constructor; assumption.
  - fold (to_block h b). intros H. inversion H as [|b' verb its' Ht Hk H2|]; subst. cbn [to_block b_token b_line] in *.
    rewrite Ht. split; [|split].
    + apply good_ltext. constructor; [apply known_verb_tok; right; exact Hk|constructor].
    + apply hdr_one.
    + clear H. revert its H2. induction (hb_lines b) as [|i ls IH]; intros its H2; cbn [map] in *; [constructor|].
      inversion H2 as [|? it ? its' (Hr & _) Hrest]; subst. constructor; [|eapply IH; exact Hrest].
      cbn [to_line l_token] in Hr. destruct (renders_toks verb _ it Hr) as (_ & Ta & Hn).
      split; [|apply good_ltext; exact Ta].
      destruct (hl_tok (hget h i)) as [|t0 more]; [congruence|]. exists t0, more. split; [reflexivity|].
      exact (proj2 (proj2 (Forall_inv Ta))).
Qed.

Lemma Forall2_toksW h : forall sts itss, Forall2 expr_itemsW (map (to_expr h) sts) itss -> Forall (stmt_toks_ok h) sts.
Proof.
  induction sts as [|st sts IH]; intros itss H; [constructor|]. cbn [map] in H.
  inversion H; subst. constructor; [eapply expr_itemsW_toks; eassumption|eapply IH; eassumption].
Qed.

Record PrintableW (s : syntax) : Prop := {
  pw_coms : ComsOk s;
  pw_ready : Forall (stmt_readyW s) (stmts s)
}.

Theorem typed_equals_reparse_work name f :
  Coherent f -> PrintableW (fsyn f) -> tis_okW (typed_items f) ->
  exists f', parse_work None (format (to_syntax name (fsyn f))) = DOk f' /\
    option_map go_version (wf_go f') = k_go (abs f) /\
    option_map tc_name (wf_toolchain f') = k_toolchain (abs f) /\
    Permutation (map (fun g => (Directives.gd_key g, gd_value g)) (wf_godebug f')) (k_godebug (abs f)) /\
    Permutation (map Directives.us_path (wf_use f')) (map fst (k_use (abs f))) /\
    Permutation (map rep_vals (wf_replace f')) (k_replace (abs f)).
Proof.
  intros [Hsyn Hent Hviews] [Hcoms Hready] Hok. set (s := fsyn f) in *.
  rewrite typed_view_items in Hviews. apply Permutation_map_inv in Hviews as (tis & Etv & Hperm).
  assert (Hok' : tis_okW tis) by (unfold tis_okW; rewrite <- Hperm; exact Hok).
  rewrite tree_view_stmt in Etv.
  destruct (walkW s (stmts s) tis Hready Etv Hok') as (itss & A & B).
  pose proof (entries_live f Hent) as Hl.
  assert (Hpm : Permutation (map snd tis) (map snd (typed_items f))) by (apply Permutation_map; symmetry; exact Hperm).
  assert (Hsing : singles (concat itss)).
  { apply (singles_of f _ Hl). rewrite B. apply Permutation_map. exact Hpm. }
  pose proof (Forall2_toksW (heap s) (stmts s) itss A) as Htoks.
  pose proof (placed_inb s (so_placed s Hsyn)) as Hinb.
  destruct (lean_ok s Hcoms Htoks) as (Hlok & Hlsi).
  pose proof (zfile_to_syntax name s Hcoms Hinb) as Hz.
  destruct (items_reparse_work (to_syntax name s) (lean s) itss) as (f' & Hp & Hv); auto.
  - apply (f_equal f_stmt) in Hz. exact Hz.
  - apply (f_equal f_comments) in Hz. exact Hz.
  - exists f'. split; [exact Hp|]. rewrite B in Hv. unfold valsW, vals_ofW in Hv. injection Hv as V1 V2 V3 V4 V5.
    assert (P : forall {B} (g : item -> list B), Permutation (flat_map g (map snd tis)) (flat_map g (map snd (typed_items f)))).
    { intros T g. apply Permutation_flat_map. exact Hpm. }
    split; [|split; [|split; [|split]]].
    + pose proof (P _ it_go) as H. rewrite (typed_go f Hl) in H. apply perm_opt in H. rewrite V1, H. apply hd_opt_list.
    + pose proof (P _ it_tc) as H. rewrite (typed_tc f Hl) in H. apply perm_opt in H. rewrite V2, H. apply hd_opt_list.
    + rewrite V3, <- (typed_godebug f Hl). apply P.
    + rewrite <- (typed_use f Hl).
      replace (map Directives.us_path (wf_use f')) with (flat_map it_use (map snd tis)); [apply P|].
      apply (f_equal (map fst)) in V4. rewrite !map_map in V4. cbn [fst] in V4. rewrite map_id in V4. symmetry. exact V4.
    + rewrite V5, <- (typed_replace f Hl). apply P.
Qed.
