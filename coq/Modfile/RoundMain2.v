(* Round trip, part 10a: the printer and the event stream do not look at positions
   (format (zfile s) = format s, events (zfile s) = events s); the printed lines of a
   well-formed tree are well formed; the event stream of the normal form. *)
From Verif.Base Require Import Bytes Utf8.
From Verif.Modfile Require Import Syntax Lex Parse Print ProofsLex ProofsRound RoundRows RoundParse
  RoundLexPure RoundLexPure3 RoundLexPure4 RoundLexB1 RoundLexB2 RoundLexB4
  RoundTrim RoundTree RoundTree2 RoundTree3 RoundPrint.

(* ---------------------------------------------------------------- the printer ignores positions *)

Definition zp (p : pstate) : pstate := mkP (ps_out p) (map zc (ps_comment p)) (ps_margin p).

Lemma zp_emit s p : emit s (zp p) = zp (emit s p).
Proof. reflexivity. Qed.
Lemma zp_emit_tabs p : emit_tabs (zp p) = zp (emit_tabs p).
Proof. reflexivity. Qed.
Lemma zp_trim p : trim (zp p) = zp (trim p).
Proof. reflexivity. Qed.
Lemma zp_indent p : indent_pos (zp p) = indent_pos p.
Proof. reflexivity. Qed.
Lemma zp_set_margin m p : set_margin m (zp p) = zp (set_margin m p).
Proof. reflexivity. Qed.

Lemma zp_flush : forall cs first p, flush_comments first (map zc cs) (zp p) = zp (flush_comments first cs p).
Proof.
  induction cs as [|c cs IH]; intros first p; [reflexivity|]. cbn [map flush_comments zc c_token].
  destruct first; [rewrite zp_emit|rewrite zp_trim, zp_emit, zp_emit_tabs, zp_emit]; apply IH.
Qed.

Ltac case_out o :=
  destruct o as [|?a [|?b ?o']]; try reflexivity;
  match goal with a : Z |- _ => destruct a as [|?pa|?na]; try reflexivity;
    repeat (match goal with pa : positive |- _ => destruct pa as [pa|pa|]; try reflexivity end) end;
  match goal with b : Z |- _ => destruct b as [|?pb|?nb]; try reflexivity;
    repeat (match goal with pb : positive |- _ => destruct pb as [pb|pb|]; try reflexivity end) end.

Lemma newline_nil o m : newline (mkP o [] m) =
  emit_tabs (match drop_blanks o with
             | [] => mkP (drop_blanks o) [] m
             | 10 :: 10 :: _ => mkP (drop_blanks o) [] m
             | _ => emit [10] (mkP (drop_blanks o) [] m)
             end).
Proof. reflexivity. Qed.

Lemma zp_nl_tail o m : zp (emit_tabs (match drop_blanks o with
             | [] => mkP (drop_blanks o) [] m
             | 10 :: 10 :: _ => mkP (drop_blanks o) [] m
             | _ => emit [10] (mkP (drop_blanks o) [] m)
             end)) = emit_tabs (match drop_blanks o with
             | [] => mkP (drop_blanks o) [] m
             | 10 :: 10 :: _ => mkP (drop_blanks o) [] m
             | _ => emit [10] (mkP (drop_blanks o) [] m)
             end).
Proof.
  generalize (drop_blanks o) as d. intros d. destruct d as [|a [|b d']]; try reflexivity.
  - destruct a as [|pa|na]; try reflexivity. repeat (destruct pa as [pa|pa|]; try reflexivity).
  - destruct a as [|pa|na]; try reflexivity. repeat (destruct pa as [pa|pa|]; try reflexivity);
    destruct b as [|pb|nb]; try reflexivity; repeat (destruct pb as [pb|pb|]; try reflexivity).
Qed.

Lemma zp_newline p : newline (zp p) = zp (newline p).
Proof.
  destruct p as [o cs m]. unfold zp at 1. cbn [ps_out ps_comment ps_margin].
  destruct cs as [|c cs].
  - cbn [map]. rewrite newline_nil, zp_nl_tail. reflexivity.
  - unfold newline. cbn [ps_comment map].
    pose proof (zp_flush (c :: cs) true (emit [32] (mkP o (c :: cs) m))) as Hf. cbn [map] in Hf.
    change (emit [32] (mkP o (zc c :: map zc cs) m)) with (emit [32] (zp (mkP o (c :: cs) m))).
    rewrite zp_emit, Hf. set (q := flush_comments true (c :: cs) (emit [32] (mkP o (c :: cs) m))).
    cbn [zp ps_out ps_margin]. unfold trim. cbn [ps_out ps_comment ps_margin].
    symmetry. apply zp_nl_tail.
Qed.

Lemma zp_before_loop : forall cs p, before_loop (map zc cs) (zp p) = zp (before_loop cs p).
Proof.
  induction cs as [|c cs IH]; intros p; [reflexivity|]. cbn [map before_loop zc c_token].
  rewrite zp_emit, zp_newline. apply IH.
Qed.

Lemma zp_print_before cs p : print_before (map zc cs) (zp p) = zp (print_before cs p).
Proof.
  destruct cs as [|c cs]; [reflexivity|]. unfold print_before. cbn [map].
  rewrite zp_trim, zp_indent. destruct (indent_pos (trim p)); rewrite ?zp_emit, zp_emit_tabs;
    apply (zp_before_loop (c :: cs)).
Qed.

Lemma zp_queue cs p : queue_suffix (map zc cs) (zp p) = zp (queue_suffix cs p).
Proof. unfold queue_suffix, zp. cbn [ps_out ps_comment ps_margin]. rewrite map_app. reflexivity. Qed.

Lemma zp_tokens : forall ts sep p, tokens_loop sep ts (zp p) = zp (tokens_loop sep ts p).
Proof.
  induction ts as [|t r IH]; intros sep p; [reflexivity|]. cbn [tokens_loop].
  destruct (if is_close t then false else sep); rewrite ?zp_emit; apply IH.
Qed.

Lemma zp_print_line l p : print_line (zline l) (zp p) = zp (print_line l p).
Proof.
  unfold print_line, zline, print_tokens. cbn [l_comments l_token zcs cm_before cm_suffix].
  rewrite zp_print_before, zp_tokens, zp_queue. reflexivity.
Qed.

Lemma zp_print_paren c x p : print_paren c (zparen x) (zp p) = zp (print_paren c x p).
Proof.
  unfold print_paren, zparen. cbn [pr_comments zcs cm_before cm_suffix].
  rewrite zp_print_before, zp_emit, zp_queue. reflexivity.
Qed.

Lemma zp_block_lines : forall ls p, print_block_lines (map zline ls) (zp p) = zp (print_block_lines ls p).
Proof.
  induction ls as [|l ls IH]; intros p; [reflexivity|]. cbn [map print_block_lines].
  rewrite zp_newline, zp_print_line. apply IH.
Qed.

Lemma zp_print_block b p : print_block (zblock b) (zp p) = zp (print_block b p).
Proof.
  unfold print_block, zblock, print_tokens. cbn [b_comments b_token b_lparen b_line b_rparen zcs cm_before cm_suffix].
  rewrite zp_print_before, zp_tokens, zp_emit, zp_print_paren.
  change (ps_margin (zp ?q)) with (ps_margin q).
  rewrite zp_set_margin, zp_block_lines. cbn [zp ps_margin].
  match goal with |- context [set_margin ?k (zp ?q)] => rewrite (zp_set_margin k q) end.
  rewrite zp_newline, zp_print_paren, zp_queue. reflexivity.
Qed.

Lemma zp_print_expr x p : print_expr (zexpr x) (zp p) = zp (print_expr x p).
Proof.
  destruct x as [l|b|c]; cbn [zexpr print_expr].
  - apply zp_print_line.
  - apply zp_print_block.
  - unfold print_comment_block. cbn [cb_comments zcs cm_before cm_suffix]. rewrite zp_print_before, zp_queue. reflexivity.
Qed.

Lemma expr_after_z x : expr_after (zexpr x) = map zc (expr_after x).
Proof. destruct x; reflexivity. Qed.

Lemma zp_print_stmts : forall ss p, print_stmts (map zexpr ss) (zp p) = zp (print_stmts ss p).
Proof.
  induction ss as [|x r IH]; intros p; [reflexivity|]. cbn [map print_stmts]. rewrite expr_after_z.
  assert (E1 : match zexpr x with
               | ECommentBlock _ => print_expr (zexpr x) (zp p)
               | _ => newline (print_expr (zexpr x) (zp p))
               end = zp match x with ECommentBlock _ => print_expr x p | _ => newline (print_expr x p) end).
  { destruct x; cbn [zexpr]; rewrite ?zp_print_expr.
    - change (ELine (zline l)) with (zexpr (ELine l)). rewrite zp_print_expr, zp_newline. reflexivity.
    - change (EBlock (zblock b)) with (zexpr (EBlock b)). rewrite zp_print_expr, zp_newline. reflexivity.
    - change (ECommentBlock {| cb_comments := zcs (cb_comments c); cb_start := zero_pos |}) with (zexpr (ECommentBlock c)).
      rewrite zp_print_expr. reflexivity. }
  rewrite E1, zp_before_loop. destruct r as [|y r']; [reflexivity|]. cbn [map]. rewrite zp_newline.
  apply (IH _).
Qed.

Theorem format_zfile f : format (zfile f) = format f.
Proof.
  unfold format, print_file, zfile. cbn [f_stmt f_comments zcs cm_before].
  change (mkP [] [] 0) with (zp (mkP [] [] 0)) at 1. rewrite zp_before_loop, zp_print_stmts. reflexivity.
Qed.

(* ---------------------------------------------------------------- the event stream ignores positions *)

Lemma ev_comments_z cs : ev_comments (map zc cs) = ev_comments cs.
Proof. unfold ev_comments. rewrite map_map. reflexivity. Qed.

Lemma ev_line_z l : ev_line (zline l) = ev_line l.
Proof. unfold ev_line, zline. cbn [l_comments l_token zcs cm_before cm_suffix]. rewrite !ev_comments_z. reflexivity. Qed.

Lemma ev_expr_z x : ev_expr (zexpr x) = ev_expr x.
Proof.
  destruct x as [l|b|c]; cbn [zexpr ev_expr].
  - rewrite ev_line_z. cbn [zline l_comments zcs cm_after]. rewrite ev_comments_z. reflexivity.
  - cbn [zblock b_comments b_token b_lparen b_line b_rparen zparen pr_comments zcs cm_before cm_suffix cm_after].
    rewrite !ev_comments_z. rewrite flat_map_concat_map, map_map, <- flat_map_concat_map.
    rewrite (flat_map_ext _ _ ev_line_z). reflexivity.
  - cbn [cb_comments zcs cm_before cm_suffix cm_after]. rewrite !ev_comments_z. reflexivity.
Qed.

Theorem events_zfile f : events (zfile f) = events f.
Proof.
  unfold events, zfile. cbn [f_comments f_stmt zcs cm_before]. rewrite ev_comments_z.
  rewrite flat_map_concat_map, map_map, <- flat_map_concat_map. rewrite (flat_map_ext _ _ ev_expr_z). reflexivity.
Qed.
