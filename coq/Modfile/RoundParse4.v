(* Round trip, part 3d: parseStmt and parseFile in lockstep with [group]; the theorem
   [parse_tokens_group]: on a stream as the lexer delivers it, the parser followed by the
   position-based comment assignment is [group] on the rows of the stream. *)
From Verif.Base Require Import Bytes.
From Verif.Modfile Require Import Syntax Lex Parse ProofsLex RoundRows RoundAssign RoundParse RoundParse2 RoundParse3.

(* ---------------------------------------------------------------- parseStmt *)

Definition stmt_ok (ts : list token) (res : pres expr) : Prop :=
  match res with
  | ROk x rest =>
      exists cx a,
        expr_set_comments x (set_before (expr_comments x) []) = x /\
        (forall bef befA, map zc bef = map ec befA ->
           owned (expr_set_comments x (set_before (expr_comments x) bef)) cx (aset_before a befA) (nb ts) (nb rest)) /\
        rs false rest /\ ordered rest /\ (length rest < length ts)%nat /\ nb ts <= nb rest /\
        (forall acc, comsr acc ts = comsr (rev cx ++ acc) rest) /\
        (forall acb stmts_r,
           group (GTop acb stmts_r) (arows [] ts) =
           group (GTop None (aset_before a (cb_list acb) :: stmts_r)) (arows [] rest))
  | RErr _ _ => forall acb stmts_r, group (GTop acb stmts_r) (arows [] ts) = None
  | RPanic | RFuel => False
  end.

Lemma Forall_app_inv {A} (P : A -> Prop) a b : Forall P (a ++ b) -> Forall P a /\ Forall P b.
Proof. apply Forall_app. Qed.

Lemma parse_stmt_spec f t r :
  is_ltok (t_kind t) = true -> rs false (t :: r) -> ordered (t :: r) -> (length (t :: r) <= f)%nat ->
  stmt_ok (t :: r) (parse_stmt f LEnd (t :: r)).
Proof.
  intros Hlt Hrs Ho Hf.
  assert (Hxt : tok_lex t) by (cbn in Hrs; apply Hrs).
  assert (Hrt : rs true r).
  { cbn in Hrs. destruct Hrs as (_ & Hrs). destruct (t_kind t) as [| | | | |c]; cbn in Hlt; try discriminate; auto.
    apply negb_true_iff in Hlt. rewrite Hlt in Hrs. exact Hrs. }
  destruct (rs_row_split r Hrt) as (lt & e & rest0 & -> & Hlts & He).
  assert (Hlts' : Forall ltokP (t :: lt)) by (constructor; assumption).
  destruct (rs_tail_ok false (t :: lt) e rest0 Hlts' He Hrs) as (Hta & Hlx & Hxe & Hrest).
  inversion Hlx as [|? ? _ Hlx']; subst.
  unfold parse_stmt. rewrite advance_app. cbn [bind].
  assert (Hlen : (length (t :: lt ++ e :: rest0) = length lt + 2 + length rest0)%nat)
    by (cbn [length]; rewrite app_length; cbn [length]; lia).
  pose proof (stmt_loop_row (length lt) lt (le_n _) f (t_pos t) (t_end t) [t_text t] e rest0 Hlts Hlx' He Hta ltac:(lia)) as Hres.
  destruct (ordered_row (t :: lt) e rest0 Hlts' Ho) as (Hrow & Hle & Hbe & Hoe).
  destruct (after_facts e rest0 Hoe Hta) as (A1 & A2 & A3 & A4 & A5 & A6).
  cbn [app nl nb] in Hrow, Hle, Hbe.
  assert (Hrows : forall (acb : option (list str)) (stmts_r : list astmt), arows [] (t :: lt ++ e :: rest0) =
                    RToks (t_text t :: map t_text lt) (sfx_of e) :: arows [] (after e rest0)).
  { intros _ _. change (t :: lt ++ e :: rest0) with ((t :: lt) ++ e :: rest0).
    rewrite (arows_ltoks (t :: lt) Hlts'), app_nil_r.
    rewrite arows_row; auto; [|cbn; destruct (rev (map t_text lt)); discriminate].
    rewrite rev_involutive. reflexivity. }
  assert (Hcom : forall acc, comsr acc (t :: lt ++ e :: rest0) = comsr (csfx_of e ++ acc) (after e rest0)).
  { intros acc. change (t :: lt ++ e :: rest0) with ((t :: lt) ++ e :: rest0). apply comsr_row; auto. }
  unfold stmt_res in Hres. cbn [nb].
  destruct (scan [t_text t] (map t_text lt)) as [tk|bt|bt] eqn:Esc.
  - (* a line *)
    destruct Hres as (endp' & Hin & ->). cbn [stmt_ok nb].
    assert (Hend : p_line endp' = lpos t /\ bpos t <= p_byte endp' /\ p_byte endp' <= bpos e).
    { apply (in_row_end _ _ _ (t :: lt) _ Hrow). cbn [map]. destruct Hin as [->|Hin]; [left; reflexivity|right; exact Hin]. }
    destruct Hend as (E1 & E2 & E3).
    exists (csfx_of e), (ALine (mkAL [] tk (sfx_of e))).
    split; [reflexivity|]. split.
    { intros bef befA Hb. cbn [expr_set_comments expr_comments l_comments l_start l_token l_inblock l_end aset_before al_toks al_suffix].
      apply owned_line. exists bef. cbn [l_start l_end al_toks al_before al_suffix].
      split; [reflexivity|]. split; [exact Hb|]. split; [apply csfx_zc|]. split; [unfold lpos in E1; symmetry; exact E1|].
      split; [exact E2|]. split; [lia|]. split; [apply csfx_after; exact E3|apply csfx_before; assumption]. }
    split; [apply rs_after; auto|]. split; [exact A4|]. split; [rewrite Hlen; cbn [length] in A6; lia|]. split; [lia|].
    split; [intros acc; rewrite Hcom, rev_csfx; reflexivity|].
    intros acb stmts_r. rewrite (Hrows acb stmts_r). cbn [group]. rewrite Esc. reflexivity.
  - (* a block opens *)
    destruct Hres as (pre & tl & f' & Elt & Hf' & ->).
    assert (Htl : in_row (lpos t) (bpos t) e tl).
    { rewrite Forall_forall in Hrow. apply Hrow. right. rewrite Elt. apply in_or_app. right. left. reflexivity. }
    destruct Htl as (T1 & T2 & T3 & T4 & T5).
    assert (Hgo : forall acb stmts_r, group (GTop acb stmts_r) (arows [] (t :: lt ++ e :: rest0)) =
                    group (GBlk (cb_list acb) bt (sfx_of e) [] [] stmts_r) (arows [] (after e rest0))).
    { intros acb stmts_r. rewrite (Hrows acb stmts_r). cbn [group]. rewrite Esc. reflexivity. }
    destruct (is_eof (t_kind e)) eqn:Eeof.
    { (* the file ends in the line that opens the block *)
      unfold tail_ok in Hta. rewrite Eeof in Hta. subst rest0.
      destruct f' as [|f']; [rewrite Hlen in Hf; cbn [length] in Hf; lia|].
      cbn [block_loop peek]. destruct (t_kind e) eqn:Ek; cbn in Eeof; try discriminate. cbn [bind stmt_ok nb].
      intros acb stmts_r. rewrite Hgo. unfold after. rewrite Ek. cbn [is_eof arows]. rewrite Ek. reflexivity. }
    unfold tail_ok in Hta. rewrite Eeof in Hta. unfold after in *. rewrite Eeof in *.
    specialize (Hrest eq_refl). specialize (A2 eq_refl).
    destruct f' as [|f']; [rewrite Hlen in Hf; cbn [length] in Hf; lia|].
    destruct f' as [|f']; [rewrite Hlen in Hf; cbn [length] in Hf; destruct rest0; [congruence|cbn [length] in Hf; lia]|].
    assert (Hstep : block_loop (S (S f')) LEnd (t_pos t) bt tl [] [] (e :: rest0) =
                    block_loop (S f') LEnd (t_pos t) bt tl [] [] rest0).
    { destruct rest0 as [|u rest0]; [congruence|].
      cbn [block_loop peek]. destruct (t_kind e) as [| | | | |c] eqn:Ek; cbn in He, Eeof; try discriminate.
      - rewrite advance_more. reflexivity.
      - rewrite He. rewrite advance_more. reflexivity. }
    rewrite Hstep. clear Hstep.
    destruct (is_eof (peek rest0)) eqn:Epk.
    { (* ... or right after it *)
      destruct rest0 as [|u rest0]; [congruence|]. cbn [block_loop peek] in *.
      destruct (t_kind u) eqn:Eu; cbn in Epk; try discriminate. cbn [bind stmt_ok nb].
      intros acb stmts_r. rewrite Hgo. cbn [arows]. rewrite Eu. reflexivity. }
    pose proof (after_line e rest0 Hoe He Eeof Hta Epk) as Hnl.
    pose proof (block_loop_spec (t_pos t) bt tl (S f') rest0 [] [] [] [] [] (nb rest0) Hrest A4
                  ltac:(rewrite Hlen in Hf; cbn [length] in Hf; lia) eq_refl (pls_nil _ _ (Z.le_refl _))) as Hb.
    destruct (block_loop (S f') LEnd (t_pos t) bt tl [] [] rest0) as [b rest|p er| |]; cbn [block_res] in Hb; try contradiction.
    2:{ cbn [bind stmt_ok nb]. intros acb stmts_r. rewrite Hgo. apply Hb. }
    destruct Hb as (rp & rbef & lines_r' & srl' & alines_r' & rbefA & crp & rsfxA & hi1 & -> & H2 & H3 & H4 & H5 &
                    H6 & H7 & H8 & H9 & H10 & H11 & H12 & H13 & H14).
    cbn [bind stmt_ok nb].
    exists (csfx_of e ++ rev srl' ++ crp), (ABlock (mkAB [] bt (sfx_of e) (rev alines_r') rbefA rsfxA [])).
    split; [reflexivity|]. split.
    { intros bef befA Hb. cbn [expr_set_comments expr_comments b_comments b_start b_lparen b_token b_line b_rparen aset_before
                               ab_toks ab_lsfx ab_lines ab_rbefore ab_rsfx ab_sfx].
      apply (owned_block (t_pos t) (t_pos tl) rp bef rbef bt lines_r' (csfx_of e) srl' crp befA (sfx_of e) alines_r' rbefA rsfxA
                         (bpos t) (nb rest0) hi1 (nb rest)); auto.
      - apply csfx_zc.
      - unfold lpos in *. lia.
      - unfold bpos in *. lia.
      - apply csfx_after. unfold bpos, bend in *. lia.
      - pose proof (csfx_before e rest0 Hoe) as Hcb. unfold tail_ok, after in Hcb. rewrite Eeof in Hcb. apply Hcb. exact Hta.
      - lia. }
    split; [exact H10|]. split; [exact H11|]. split; [rewrite Hlen; lia|].
    split; [pose proof (placed_lines_le _ _ _ _ _ H4); lia|]. split.
    { intros acc. rewrite Hcom. pose proof (H13 (csfx_of e ++ acc)) as Hx. cbn [app] in Hx. rewrite Hx.
      rewrite !rev_app_distr, rev_involutive, rev_csfx, <- !app_assoc. reflexivity. }
    intros acb stmts_r. rewrite Hgo. apply H14.
  - (* an empty block on one line *)
    destruct Hres as (pre & tl & tr & Elt & ->). cbn [stmt_ok nb].
    assert (Htl : in_row (lpos t) (bpos t) e tl).
    { rewrite Forall_forall in Hrow. apply Hrow. right. rewrite Elt. apply in_or_app. right. left. reflexivity. }
    assert (Htr : in_row (lpos t) (bpos t) e tr).
    { rewrite Forall_forall in Hrow. apply Hrow. right. rewrite Elt. apply in_or_app. right. right. left. reflexivity. }
    destruct Htl as (T1 & T2 & T3 & T4 & T5). destruct Htr as (R1 & R2 & R3 & R4 & R5).
    exists (csfx_of e), (ABlock (mkAB [] bt [] [] [] [] (sfx_of e))).
    split; [reflexivity|]. split.
    { intros bef befA Hb. cbn [expr_set_comments expr_comments b_comments b_start b_lparen b_token b_line b_rparen aset_before
                               ab_toks ab_lsfx ab_lines ab_rbefore ab_rsfx ab_sfx].
      apply owned_empty_block; auto;
        try apply csfx_zc; try (apply csfx_before; assumption); try apply csfx_after;
        unfold lpos, lnend, bpos, bend in *; lia. }
    split; [apply rs_after; auto|]. split; [exact A4|]. split; [rewrite Hlen; cbn [length] in A6; lia|]. split; [lia|].
    split; [intros acc; rewrite Hcom, rev_csfx; reflexivity|].
    intros acb stmts_r. rewrite (Hrows acb stmts_r). cbn [group]. rewrite Esc. reflexivity.
Qed.
