(* C16, need_order_irrelevant, part 1: a functional specification of FileSyntax.addLine with a
   nil hint: the new line goes to the LAST statement whose first token is the verb (appended to
   it if it is a block, converting it into a block if it is a line), or to the end of the file. *)
From Coq Require Import Permutation.
From Verif.Base Require Import Bytes.
From Verif.Modfile Require Import EditModel EditOps EditSpec EditProofsTyped EditProofsHeap EditProofsCoherent
  EditProofsCleanup EditProofsAddLine EditProofsAdd EditProofsUpsert EditProofs2Blocks.

Arguments hget : simpl never.
Arguments hset : simpl never.

(* is the statement headed by the verb? *)
Definition verb_stmt (s : syntax) (verb : str) (st : stmt) : bool :=
  match st with
  | SLine i => hd_is (hl_tok (sget s i)) verb
  | SBlock b => hd_is (hb_tok b) verb
  | SComment _ => false
  end.

Definition hint_of (st : stmt) : option hint :=
  match st with SLine i => Some (HLine i) | SBlock b => Some (HBlock (hb_id b)) | SComment _ => None end.

(* find_hint on the reversed list finds the last verb statement *)
Lemma find_hint_none s verb L : existsb (verb_stmt s verb) L = false -> find_hint s verb L = None.
Proof.
  induction L as [|st r IH]; cbn; [reflexivity|]. intros H. apply Bool.orb_false_iff in H. destruct H as [H1 H2].
  destruct st as [i|b|c]; cbn in H1; rewrite ?H1; auto.
Qed.

Lemma find_hint_first s verb st post L :
  verb_stmt s verb st = true -> existsb (verb_stmt s verb) post = false ->
  find_hint s verb (post ++ st :: L) = hint_of st.
Proof.
  intros Hst. induction post as [|x r IH]; cbn [app]; intros H.
  - destruct st as [i|b|c]; cbn in Hst |- *; [rewrite Hst | rewrite Hst | discriminate]; reflexivity.
  - cbn in H. apply Bool.orb_false_iff in H. destruct H as [H1 H2]. cbn [find_hint].
    destruct x as [i|b|c]; cbn in H1; rewrite ?H1; apply IH; exact H2.
Qed.

Lemma existsb_rev {A} (p : A -> bool) l : existsb p (rev l) = existsb p l.
Proof.
  induction l as [|x r IH]; [reflexivity|]. cbn. rewrite existsb_app, IH. cbn. rewrite Bool.orb_false_r. apply Bool.orb_comm.
Qed.

(* the last verb statement of a list *)
Lemma last_verb_split s verb L :
  existsb (verb_stmt s verb) L = true ->
  exists pre st post, L = pre ++ st :: post /\ verb_stmt s verb st = true /\ existsb (verb_stmt s verb) post = false.
Proof.
  induction L as [|x r IH]; cbn; [discriminate|]. intros H.
  destruct (existsb (verb_stmt s verb) r) eqn:Er.
  - destruct (IH eq_refl) as [pre [st [post [-> [H1 H2]]]]]. exists (x :: pre), st, post. auto.
  - rewrite Bool.orb_false_r in H. exists [], x, r. auto.
Qed.

Lemma pos_of_none i l : ~ In i l -> pos_of i l = None.
Proof.
  induction l as [|j r IH]; cbn; [reflexivity|]. intros H.
  destruct (Nat.eqb_spec i j) as [->|_]; [tauto|]. rewrite IH by tauto. reflexivity.
Qed.

(* skipping the statements before the hinted one *)
Lemma add_line_loop_skip_line s verb args j : forall pre done rest,
  ~ In j (map fst (stmts_lines pre)) ->
  add_line_loop s (HLine j) verb args done (pre ++ rest) = add_line_loop s (HLine j) verb args (rev pre ++ done) rest.
Proof.
  induction pre as [|st r IH]; intros done rest Hni; [reflexivity|].
  rewrite stmts_lines_cons, map_app in Hni. cbn [app add_line_loop].
  assert (Hat : add_line_at s (HLine j) verb st = None).
  { destruct st as [i|b|c]; cbn [add_line_at]; [| |reflexivity].
    - destruct (Nat.eqb_spec j i) as [->|_]; [|reflexivity]. exfalso. apply Hni. apply in_app_iff. left. left. reflexivity.
    - rewrite pos_of_none; [reflexivity|]. intros Hin. apply Hni. apply in_app_iff. left.
      cbn [stmt_lines]. rewrite map_map. cbn [fst]. rewrite map_id. exact Hin. }
  rewrite Hat. rewrite IH by (intros Hin; apply Hni; apply in_app_iff; right; exact Hin).
  cbn [rev]. rewrite <- app_assoc. reflexivity.
Qed.

Lemma add_line_loop_skip_block s verb args bid : forall pre done rest,
  ~ In bid (block_ids pre) ->
  add_line_loop s (HBlock bid) verb args done (pre ++ rest) = add_line_loop s (HBlock bid) verb args (rev pre ++ done) rest.
Proof.
  induction pre as [|st r IH]; intros done rest Hni; [reflexivity|].
  rewrite block_ids_cons in Hni. cbn [app add_line_loop].
  assert (Hat : add_line_at s (HBlock bid) verb st = None).
  { destruct st as [i|b|c]; cbn [add_line_at]; try reflexivity.
    destruct (Nat.eqb_spec bid (hb_id b)) as [->|_]; [|reflexivity]. exfalso. apply Hni. left. reflexivity. }
  rewrite Hat. rewrite IH by (intros Hin; apply Hni; apply in_app_iff; right; exact Hin).
  cbn [rev]. rewrite <- app_assoc. reflexivity.
Qed.

(* ---------------------------------------------------------------- the specification *)
Inductive add_place (s : syntax) (verb : str) (args : list str) : syntax -> Prop :=
| AP_end :
    existsb (verb_stmt s verb) (stmts s) = false ->
    add_place s verb args
      (mkSyn (heap s ++ [mkHL no_coms (verb :: args) false]) (nbid s) (fcom s) (stmts s ++ [SLine (length (heap s))]))
| AP_line pre j post :
    stmts s = pre ++ SLine j :: post -> hd_is (hl_tok (sget s j)) verb = true ->
    existsb (verb_stmt s verb) post = false ->
    add_place s verb args
      (mkSyn (hset (heap s) j (mkHL (hl_com (sget s j)) (tl (hl_tok (sget s j))) true) ++ [mkHL no_coms args true])
             (S (nbid s)) (fcom s)
             (pre ++ SBlock (mkHB (nbid s) no_coms no_coms (firstn 1 (hl_tok (sget s j))) [j; length (heap s)] no_coms) :: post))
| AP_block pre b post :
    stmts s = pre ++ SBlock b :: post -> hd_is (hb_tok b) verb = true ->
    existsb (verb_stmt s verb) post = false ->
    add_place s verb args
      (mkSyn (heap s ++ [mkHL no_coms args true]) (nbid s) (fcom s)
             (pre ++ SBlock (block_with_lines b (hb_lines b ++ [length (heap s)])) :: post)).

Theorem add_line_none_spec s verb args :
  NoDup (map fst (stmts_lines (stmts s))) -> NoDup (block_ids (stmts s)) ->
  add_place s verb args (fst (add_line s None verb args)) /\ snd (add_line s None verb args) = length (heap s).
Proof.
  intros Hnd Hbi. unfold add_line.
  destruct (existsb (verb_stmt s verb) (stmts s)) eqn:Ex.
  - destruct (last_verb_split s verb (stmts s) Ex) as [pre [st [post [EL [Hst Hpost]]]]].
    assert (Hfh : find_hint s verb (rev (stmts s)) = hint_of st).
    { rewrite EL, rev_app_distr. cbn [rev]. rewrite <- app_assoc. cbn [app].
      apply find_hint_first; [exact Hst | rewrite existsb_rev; exact Hpost]. }
    rewrite Hfh. destruct st as [j|b|c]; cbn [hint_of verb_stmt] in *; [| |discriminate].
    + rewrite EL. rewrite add_line_loop_skip_line.
      * cbn [add_line_loop add_line_at]. rewrite Nat.eqb_refl, Hst. cbn.
        rewrite app_nil_r, rev_involutive. unfold sget at 1 2. rewrite !hset_length.
        split; [|reflexivity]. exact (AP_line s verb args pre j post EL Hst Hpost).
      * rewrite EL, stmts_lines_app, stmts_lines_cons, map_app in Hnd. cbn [stmt_lines map fst app] in Hnd.
        intros Hin. eapply (NoDup_app_disj _ _ j Hnd); [exact Hin | left; reflexivity].
    + rewrite EL. rewrite add_line_loop_skip_block.
      * cbn [add_line_loop add_line_at]. rewrite Nat.eqb_refl, Hst. cbn.
        rewrite app_nil_r, rev_involutive. split; [|reflexivity]. exact (AP_block s verb args pre b post EL Hst Hpost).
      * rewrite EL, block_ids_app, block_ids_cons in Hbi. cbn [stmt_bids app] in Hbi.
        intros Hin. eapply (NoDup_app_disj _ _ (hb_id b) Hbi); [exact Hin | left; reflexivity].
  - rewrite find_hint_none by (rewrite existsb_rev; exact Ex). cbn. split; [|reflexivity]. exact (AP_end s verb args Ex).
Qed.
