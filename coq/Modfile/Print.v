(* The printer of modfile/print.go: Format, printer.newline, trim, indent, file, expr,
   tokens.  Definitions only.

   The output buffer is kept reversed ([ps_out], last byte first): trim, indent and the
   blank-line test of newline all look at the end of the buffer.  [format] returns the
   bytes in the right order and is the model of modfile.Format. *)
From Verif.Base Require Import Bytes Utf8.
From Verif.Gen Require Import GenUnicode.
From Verif.Modfile Require Import Syntax Lex.

(* ---------------------------------------------------------------- strings.TrimSpace *)

(* leading white space, rune by rune *)
Fixpoint trim_left (f : nat) (s : str) : str :=
  match f with
  | O => s
  | S f' =>
      match s with
      | [] => []
      | _ => let (r, w) := Utf8.decode s in
             if unicode_IsSpace r then trim_left f' (skipn w s) else s
      end
  end.

(* utf8.DecodeLastRune sees a white-space rune at the end of the string exactly when the
   string ends with the encoding of one; [rs] is the string reversed, the result is the
   number of bytes of that encoding or 0 *)
Definition last_space_width (rs : str) : nat :=
  let try := fun k : nat =>
    let enc := rev (firstn k rs) in
    let (r, w) := Utf8.decode enc in
    Nat.eqb (length enc) k && Nat.eqb w k && unicode_IsSpace r
      && negb ((r =? Utf8.rune_error) && Nat.eqb w 1) in
  if try 1%nat then 1%nat else if try 2%nat then 2%nat else if try 3%nat then 3%nat
  else if try 4%nat then 4%nat else O.

Fixpoint trim_right_rev (f : nat) (rs : str) : str :=
  match f with
  | O => rs
  | S f' =>
      match last_space_width rs with
      | O => rs
      | w => trim_right_rev f' (skipn w rs)
      end
  end.

(* strings.TrimSpace *)
Definition trim_space (s : str) : str :=
  let l := trim_left (length s) s in
  frev (trim_right_rev (length l) (frev l)).

(* ---------------------------------------------------------------- printer *)

Record pstate := mkP {
  ps_out     : str;            (* the buffer, reversed *)
  ps_comment : list comment;   (* pending end-of-line comments *)
  ps_margin  : nat             (* left margin, a number of tabs *)
}.

Definition emit (s : str) (p : pstate) : pstate :=
  mkP (rev_append s (ps_out p)) (ps_comment p) (ps_margin p).

Definition emit_tabs (p : pstate) : pstate :=
  mkP (repeat 9 (ps_margin p) ++ ps_out p) (ps_comment p) (ps_margin p).

(* printer.trim *)
Fixpoint drop_blanks (o : str) : str :=
  match o with
  | c :: r => if (c =? 9) || (c =? 32) then drop_blanks r else o
  | [] => []
  end.

Definition trim (p : pstate) : pstate :=
  mkP (drop_blanks (ps_out p)) (ps_comment p) (ps_margin p).

(* printer.indent() > 0 *)
Definition indent_pos (p : pstate) : bool :=
  match ps_out p with
  | [] => false
  | c :: _ => negb (c =? 10)
  end.

(* the flush of pending end-of-line comments in newline *)
Fixpoint flush_comments (first : bool) (cs : list comment) (p : pstate) : pstate :=
  match cs with
  | [] => p
  | c :: r =>
      let p1 := if first then p else emit_tabs (emit [10] (trim p)) in
      flush_comments false r (emit (trim_space (c_token c)) p1)
  end.

(* printer.newline *)
Definition newline (p : pstate) : pstate :=
  let p1 := match ps_comment p with
            | [] => p
            | cs => let q := flush_comments true cs (emit [32] p) in
                    mkP (ps_out q) [] (ps_margin q)
            end in
  let p2 := trim p1 in
  let p3 := match ps_out p2 with
            | [] => p2
            | 10 :: 10 :: _ => p2
            | _ => emit [10] p2
            end in
  emit_tabs p3.

(* printer.tokens *)
Definition is_close (t : str) : bool :=
  str_eqb t [44] || str_eqb t [41] || str_eqb t [93] || str_eqb t [125].
Definition is_open (t : str) : bool :=
  str_eqb t [40] || str_eqb t [91] || str_eqb t [123].

Fixpoint tokens_loop (sep : bool) (ts : list str) (p : pstate) : pstate :=
  match ts with
  | [] => p
  | t :: r =>
      let sep1 := if is_close t then false else sep in
      let p1 := emit t (if sep1 then emit [32] p else p) in
      tokens_loop (negb (is_open t)) r p1
  end.

Definition print_tokens (ts : list str) (p : pstate) : pstate := tokens_loop false ts p.

(* the "before" part of printer.expr *)
Fixpoint before_loop (cs : list comment) (p : pstate) : pstate :=
  match cs with
  | [] => p
  | c :: r => before_loop r (newline (emit (trim_space (c_token c)) p))
  end.

Definition print_before (cs : list comment) (p : pstate) : pstate :=
  match cs with
  | [] => p
  | _ =>
      let p1 := trim p in
      let p2 := if indent_pos p1 then emit [10] p1 else p1 in
      before_loop cs (emit_tabs p2)
  end.

Definition queue_suffix (cs : list comment) (p : pstate) : pstate :=
  mkP (ps_out p) (ps_comment p ++ cs) (ps_margin p).

Definition set_margin (m : nat) (p : pstate) : pstate := mkP (ps_out p) (ps_comment p) m.

(* printer.expr on *Line *)
Definition print_line (l : line) (p : pstate) : pstate :=
  queue_suffix (cm_suffix (l_comments l))
    (print_tokens (l_token l) (print_before (cm_before (l_comments l)) p)).

(* printer.expr on *LParen / *RParen; [c] is the character printed *)
Definition print_paren (c : Z) (x : paren) (p : pstate) : pstate :=
  queue_suffix (cm_suffix (pr_comments x))
    (emit [c] (print_before (cm_before (pr_comments x)) p)).

Fixpoint print_block_lines (ls : list line) (p : pstate) : pstate :=
  match ls with
  | [] => p
  | l :: r => print_block_lines r (print_line l (newline p))
  end.

(* printer.expr on *LineBlock *)
Definition print_block (b : line_block) (p : pstate) : pstate :=
  let p1 := print_before (cm_before (b_comments b)) p in
  let p2 := emit [32] (print_tokens (b_token b) p1) in
  let p3 := print_paren 40 (b_lparen b) p2 in
  let p4 := print_block_lines (b_line b) (set_margin (S (ps_margin p3)) p3) in
  let p5 := newline (set_margin (Nat.pred (ps_margin p4)) p4) in
  let p6 := print_paren 41 (b_rparen b) p5 in
  queue_suffix (cm_suffix (b_comments b)) p6.

(* printer.expr on *CommentBlock *)
Definition print_comment_block (c : comment_block) (p : pstate) : pstate :=
  queue_suffix (cm_suffix (cb_comments c)) (print_before (cm_before (cb_comments c)) p).

Definition print_expr (x : expr) (p : pstate) : pstate :=
  match x with
  | ELine l => print_line l p
  | EBlock b => print_block b p
  | ECommentBlock c => print_comment_block c p
  end.

Definition expr_after (x : expr) : list comment :=
  match x with
  | ELine l => cm_after (l_comments l)
  | EBlock b => cm_after (b_comments b)
  | ECommentBlock c => cm_after (cb_comments c)
  end.

(* the statement loop of printer.file *)
Fixpoint print_stmts (ss : list expr) (p : pstate) : pstate :=
  match ss with
  | [] => p
  | x :: r =>
      let p1 := match x with
                | ECommentBlock _ => print_expr x p
                | _ => newline (print_expr x p)
                end in
      let p2 := before_loop (expr_after x) p1 in
      let p3 := match r with [] => p2 | _ => newline p2 end in
      print_stmts r p3
  end.

(* printer.file *)
Definition print_file (f : file_syntax) : pstate :=
  print_stmts (f_stmt f) (before_loop (cm_before (f_comments f)) (mkP [] [] O)).

(* the loop of Format that removes trailing blank lines, on the reversed buffer *)
Fixpoint strip_trailing (o : str) : str :=
  match o with
  | [10] => []
  | 10 :: ((10 :: _) as r) => strip_trailing r
  | _ => o
  end.

(* modfile.Format *)
Definition format (f : file_syntax) : str := frev (strip_trailing (ps_out (print_file f))).
