(* Reparse, part 16: [SynGood] (Reparse15.v) is preserved by every edit operation of File and
   WorkFile and by every sequence of them; the only condition on the arguments is that the
   text of AddComment is a "//" comment without line feed. *)
From Coq Require Import Permutation.
From Verif.Base Require Import Bytes.
From Verif.Modfile Require Import Syntax Lex Parse Print ProofsLex RoundLexPure3 RoundTree Reparse1 Reparse2 Reparse15.
From Verif.Modfile Require Import EditModel EditOps EditSpec EditProofsTyped EditProofsHeap EditProofsCoherent
  EditProofsCleanup EditProofsAddLine EditProofsSeq EditProofsBlocks EditProofsComments EditProofs2Settable EditProofs2Inv.

Arguments hget : simpl never.
Arguments hset : simpl never.

(* ---------------------------------------------------------------- setIndirect, setVersion, AddRetract *)

Lemma ctext_nolf x : ctext x -> nolf x.
Proof. intros H. apply ctext_iff in H. tauto. Qed.

Lemma ctext_indirect : ctext (B "// indirect").
Proof. split; reflexivity. Qed.

Lemma ascii_indirect : ascii (B "// indirect").
Proof. repeat constructor. Qed.

Lemma lcoms_set_indirect l b : lcoms_ok (hl_com l) -> lcoms_ok (hl_com (set_indirect_line l b)).
Proof.
  intros H. unfold set_indirect_line. destruct (Bool.eqb (is_indirect l) b); [exact H|].
  destruct H as (Hb & (Hs & Hlen) & Ha & Haf).
  destruct b.
  - destruct (c_suffix (hl_com l)) as [|c rest] eqn:E.
    + cbn [set_com hl_com]. split; [exact Hb|]. split; [split; [repeat constructor; apply ctext_indirect|cbn; lia]|].
      split; [repeat constructor; apply ascii_indirect|exact Haf].
    + assert (rest = []) by (destruct rest; [reflexivity|cbn in Hlen; lia]). subst rest.
      pose proof (Forall_inv Hs) as Hc. pose proof (Forall_inv Ha) as Hac.
      destruct (EditModel.comment_text c) as [|t0 t] eqn:Et; cbn [set_com hl_com].
      * split; [exact Hb|]. split; [split; [repeat constructor; apply ctext_indirect|cbn; lia]|].
        split; [repeat constructor; apply ascii_indirect|exact Haf].
      * assert (Hn : nolf (t0 :: t)) by (rewrite <- Et; eapply nolf_incl; [apply incl_comment_text|apply ctext_nolf; exact Hc]).
        assert (Has : ascii (t0 :: t)) by (rewrite <- Et; eapply ascii_incl; [apply incl_comment_text|exact Hac]).
        split; [exact Hb|]. split; [split; [|cbn; lia]|].
        -- constructor; [|constructor]. apply ctext_iff. split; [reflexivity|].
           apply (nolf_app (B "// indirect; ")); [|exact Hn]. intros Hin. cbn in Hin. repeat (destruct Hin as [Hin|Hin]; [discriminate|]). exact Hin.
        -- split; [|exact Haf]. constructor; [|constructor]. apply ascii_app; [repeat constructor|exact Has].
  - destruct (c_suffix (hl_com l)) as [|c rest] eqn:E.
    + split; [exact Hb|]. rewrite E. split; [split; assumption|]. split; assumption.
    + assert (rest = []) by (destruct rest; [reflexivity|cbn in Hlen; lia]). subst rest.
      pose proof (Forall_inv Hs) as Hc. pose proof (Forall_inv Ha) as Hac.
      destruct (str_eqb (EditModel.comment_text c) (B "indirect")); cbn [set_com hl_com].
      * split; [exact Hb|]. split; [apply sfx_nil|]. split; [constructor|exact Haf].
      * set (cut := match index_sub c (B "indirect;") with Some i => skipn (i + 9) c | None => skipn 8 c end).
        assert (Hi : incl cut c) by (unfold cut; destruct (index_sub c (B "indirect;")); apply incl_skipn).
        split; [exact Hb|]. split; [split; [|cbn; lia]|].
        -- constructor; [|constructor]. apply ctext_slashes. eapply nolf_incl; [exact Hi|apply ctext_nolf; exact Hc].
        -- split; [|exact Haf]. constructor; [|constructor]. apply ascii_app; [repeat constructor|eapply ascii_incl; [exact Hi|exact Hac]].
Qed.

Lemma lcoms_set_version l v : lcoms_ok (hl_com l) -> lcoms_ok (hl_com (set_version_line l v)).
Proof.
  intros H. unfold set_version_line. destruct (hl_tok l); [exact H|]. destruct (hl_inb l); [|exact H].
  cbn [hl_com]. destruct (c_before (hl_com l)) as [|[|? ?] [|? ?]]; try exact H.
  destruct H as (_ & B & C & D). split; [constructor|]. auto.
Qed.

Lemma rationale_comments rat : Forall ctext (map (fun t => B "// " ++ t) (split_lines rat)).
Proof.
  rewrite Forall_map. apply Forall_forall. intros t Ht. apply ctext_iff. split; [reflexivity|].
  apply (nolf_app (B "// ")); [intros Hin; cbn in Hin; repeat (destruct Hin as [Hin|Hin]; [discriminate|]); exact Hin|].
  exact (split_on_nolf 10 rat t Ht).
Qed.

Section Good.
Variable known : str -> bool.
Notation SG := (SynGood known).

(* ---------------------------------------------------------------- loops *)

Lemma drop_loop_good {E} (m : E -> bool) syn zero s l s' l' :
  drop_loop m syn zero s l = Some (s', l') -> SG s -> SG s'.
Proof. intros H Hi. apply drop_loop_spec in H. destruct H as [_ ->]. apply sg_fold_mark_removed. exact Hi. Qed.

Lemma upsert_loop_good {E} (m : E -> bool) syn zero upd verb args : forall l need s s' l' n',
  upsert_loop m syn zero upd verb args need s l = Some (s', l', n') -> SG s -> SG s'.
Proof.
  induction l as [|e r IH]; intros need s s' l' n' H Hi; cbn in H.
  - injection H as <- _ _. exact Hi.
  - destruct (m e).
    + destruct (syn e) as [i|]; [|discriminate]. destruct need.
      * destruct (upsert_loop m syn zero upd verb args false (update_line s i verb args) r) as [[[s1 r1] n1]|] eqn:Hr; [|discriminate].
        injection H as <- _ _. eapply IH; [exact Hr|apply sg_update_line; exact Hi].
      * destruct (upsert_loop m syn zero upd verb args false (mark_removed s i) r) as [[[s1 r1] n1]|] eqn:Hr; [|discriminate].
        injection H as <- _ _. eapply IH; [exact Hr|apply sg_mark_removed; exact Hi].
    + destruct (upsert_loop m syn zero upd verb args need s r) as [[[s1 r1] n1]|] eqn:Hr; [|discriminate].
      injection H as <- _ _. eapply IH; eauto.
Qed.

Lemma add_replace_loop_good (op ov np nv : str) : forall l need h s s' l' n' h',
  add_replace_loop op ov np nv need h s l = Some (s', l', n', h') -> SG s -> SG s'.
Proof.
  induction l as [|e r IH]; intros need h s s' l' n' h' H Hi; cbn in H.
  - injection H as <- _ _ _. exact Hi.
  - destruct (str_eqb (rp_op e) op && (nilb ov || str_eqb (rp_ov e) ov))%bool.
    + destruct (rp_syn e) as [i|]; [|discriminate]. destruct need.
      * destruct (add_replace_loop op ov np nv false h _ r) as [[[[s1 r1] n1] h1]|] eqn:Hr; [|discriminate].
        injection H as <- _ _ _. eapply IH; [exact Hr|apply sg_update_line; exact Hi].
      * destruct (add_replace_loop op ov np nv false _ _ r) as [[[[s1 r1] n1] h1]|] eqn:Hr; [|discriminate].
        injection H as <- _ _ _. eapply IH; [exact Hr|apply sg_mark_removed; exact Hi].
    + destruct (add_replace_loop op ov np nv need _ s r) as [[[[s1 r1] n1] h1]|] eqn:Hr; [|discriminate].
      injection H as <- _ _ _. eapply IH; eauto.
Qed.

Lemma lcoms_set_both s i v b : HeapGood s -> lcoms_ok (hl_com (set_indirect_line (set_version_line (sget s i) v) b)).
Proof. intros H. apply lcoms_set_indirect, lcoms_set_version, H. Qed.

Lemma set_require_loop_good : forall l s need s' l' need',
  set_require_loop s need l = Some (s', l', need') -> SG s -> SG s'.
Proof.
  induction l as [|r rest IH]; intros s need s' l' need' H Hi; cbn in H.
  - injection H as <- _ _. exact Hi.
  - destruct (rq_syn r) as [i|]; [|discriminate].
    destruct (amap_get (rq_path r) need) as [[v ind]|].
    + destruct (set_require_loop _ _ rest) as [[[s1 l1] n1]|] eqn:Hr; [|discriminate].
      injection H as <- _ _. eapply IH; [exact Hr|]. apply sg_sset; [exact Hi|]. apply lcoms_set_both. apply Hi.
    + destruct (set_require_loop _ _ rest) as [[[s1 l1] n1]|] eqn:Hr; [|discriminate].
      injection H as <- _ _. eapply IH; [exact Hr|apply sg_mark_removed; exact Hi].
Qed.

Lemma set_use_loop_good : forall l s need s' l' need',
  set_use_loop s need l = Some (s', l', need') -> SG s -> SG s'.
Proof.
  induction l as [|u rest IH]; intros s need s' l' need' H Hi; cbn in H.
  - injection H as <- _ _. exact Hi.
  - destruct (amap_get (us_path u) need) as [mp|].
    + destruct (set_use_loop _ _ rest) as [[[s1 l1] n1]|] eqn:Hr; [|discriminate].
      injection H as <- _ _. eapply IH; eauto.
    + destruct (us_syn u) as [i|]; [|discriminate].
      destruct (set_use_loop _ _ rest) as [[[s1 l1] n1]|] eqn:Hr; [|discriminate].
      injection H as <- _ _. eapply IH; [exact Hr|apply sg_mark_removed; exact Hi].
Qed.

Lemma sg_add_new_require f p v ind : SG (fsyn f) -> SG (fsyn (add_new_require f p v ind)).
Proof.
  intros H. unfold add_new_require.
  pose proof (sg_add_line known (fsyn f) None v_require [auto_quote p; v] H) as H1.
  destruct (add_line (fsyn f) None v_require [auto_quote p; v]) as [s1 n]. cbn [fst] in H1.
  cbn [fsyn with_require with_syn]. apply sg_sset; [exact H1|]. apply lcoms_set_indirect. apply H1.
Qed.

Lemma sg_add_new_use f p m : SG (fsyn f) -> SG (fsyn (add_new_use f p m)).
Proof.
  intros H. unfold add_new_use.
  pose proof (sg_add_line known (fsyn f) None v_use [auto_quote p] H) as H1.
  destruct (add_line (fsyn f) None v_use [auto_quote p]) as [s1 n]. exact H1.
Qed.

Lemma fold_add_new_require_good (N : list (str * (str * bool))) : forall f,
  SG (fsyn f) -> SG (fsyn (fold_left (fun g kv => add_new_require g (fst kv) (fst (snd kv)) (snd (snd kv))) N f)).
Proof. induction N as [|kv r IH]; intros f H; cbn [fold_left]; [exact H|apply IH, sg_add_new_require, H]. Qed.

Lemma fold_add_new_use_good (N : list (str * str)) : forall f,
  SG (fsyn f) -> SG (fsyn (fold_left (fun g kv => add_new_use g (fst kv) (snd kv)) N f)).
Proof. induction N as [|kv r IH]; intros f H; cbn [fold_left]; [exact H|apply IH, sg_add_new_use, H]. Qed.

Lemma sg_insert_stmt_line s i n : SG s -> SG (insert_stmt_at s i (SLine n)).
Proof.
  intros H. apply sg_stmts_only; [exact H|]. pose proof (sg_stmts known s H) as C.
  rewrite <- (firstn_skipn i (stmts s)) in C. apply Forall_app in C as (C1 & C2).
  apply Forall_app. split; [exact C1|constructor; [exact I|exact C2]].
Qed.

(* ---------------------------------------------------------------- every operation but SetRequireSeparateIndirect *)

Definition comment_arg_ok (o : op) : Prop := match o with AddComment t => ctext t | _ => True end.

Definition res_good (r : res) : Prop :=
  match r with ROk f' | RErr f' => SG (fsyn f') | RPanic => True end.

Theorem apply_good o f : not_sri o = true -> comment_arg_ok o -> SG (fsyn f) -> res_good (apply o f).
Proof.
  intros Hn Hca Hi. destruct o; try discriminate Hn; cbn [apply]; unfold res_good, lift.
  - unfold add_module_stmt. destruct (f_module f) as [m|].
    + destruct (mo_syn m) as [i|]; [|exact I]. cbn. apply sg_update_line. exact Hi.
    + pose proof (sg_add_line known (fsyn f) None v_module [auto_quote path] Hi) as K.
      destruct (add_line _ _ _ _) as [s n]. exact K.
  - unfold add_go_stmt. destruct (go_version_ok v); cbn; [|exact Hi].
    destruct (f_go f) as [g|].
    + destruct (go_syn g) as [i|]; [|exact I]. cbn. apply sg_update_line. exact Hi.
    + pose proof (sg_add_line known (fsyn f) (module_hint f) v_go [v] Hi) as K.
      destruct (add_line _ _ _ _) as [s n]. exact K.
  - unfold drop_go_stmt. destruct (f_go f) as [g|]; [|exact Hi].
    destruct (go_syn g) as [i|]; [|exact I]. cbn. apply sg_mark_removed. exact Hi.
  - unfold add_toolchain_stmt. destruct (toolchain_ok name); cbn; [|exact Hi].
    destruct (f_toolchain f) as [g|].
    + destruct (go_syn g) as [i|]; [|exact I]. cbn. apply sg_update_line. exact Hi.
    + match goal with |- context [add_line ?s ?h ?v ?a] =>
        pose proof (sg_add_line known s h v a Hi) as K; destruct (add_line s h v a) as [s1 n] end. exact K.
  - unfold drop_toolchain_stmt. destruct (f_toolchain f) as [g|]; [|exact Hi].
    destruct (go_syn g) as [i|]; [|exact I]. cbn. apply sg_mark_removed. exact Hi.
  - unfold add_godebug.
    destruct (upsert_loop _ _ _ _ _ _ _ _ _) as [[[s l] need]|] eqn:Hu; [|exact I].
    apply upsert_loop_good in Hu; [|exact Hi]. destruct need; cbn; [|exact Hu].
    match goal with |- context [add_line ?s ?h ?v ?a] =>
      pose proof (sg_add_line known s h v a Hu) as K; destruct (add_line s h v a) as [s1 n] end. exact K.
  - unfold drop_godebug. destruct (drop_loop _ _ _ _ _) as [[s l]|] eqn:Hd; [|exact I].
    cbn. eapply drop_loop_good; eauto.
  - unfold add_require.
    destruct (upsert_loop _ _ _ _ _ _ _ _ _) as [[[s l] need]|] eqn:Hu; [|exact I].
    apply upsert_loop_good in Hu; [|exact Hi]. destruct need; cbn; [|exact Hu].
    apply (sg_add_new_require (with_require (with_syn f s) l)). exact Hu.
  - apply sg_add_new_require. exact Hi.
  - unfold set_require. destruct (set_require_need l []) as [need|]; [|exact I].
    destruct (set_require_loop _ _ _) as [[[s rs] need']|] eqn:Hl; [|exact I]. cbn.
    apply set_require_loop_good in Hl; [|exact Hi].
    apply sg_sort_blocks. apply fold_add_new_require_good. exact Hl.
  - unfold drop_require. destruct (drop_loop _ _ _ _ _) as [[s l]|] eqn:Hd; [|exact I].
    cbn. eapply drop_loop_good; eauto.
  - unfold add_exclude. destruct (check_canonical_version path vers); cbn; [|exact Hi].
    destruct (exclude_scan _ _ _ _) as [h|]; [|exact Hi].
    match goal with |- context [add_line ?s ?h ?v ?a] =>
      pose proof (sg_add_line known s h v a Hi) as K; destruct (add_line s h v a) as [s1 n] end. exact K.
  - unfold drop_exclude. destruct (drop_loop _ _ _ _ _) as [[s l]|] eqn:Hd; [|exact I].
    cbn. eapply drop_loop_good; eauto.
  - unfold add_replace.
    destruct (add_replace_loop _ _ _ _ _ _ _ _) as [[[[s l] need] h]|] eqn:Hu; [|exact I].
    apply add_replace_loop_good in Hu; [|exact Hi]. destruct need; cbn; [|exact Hu].
    match goal with |- context [add_line ?s ?h ?v ?a] =>
      pose proof (sg_add_line known s h v a Hu) as K; destruct (add_line s h v a) as [s1 n] end. exact K.
  - unfold drop_replace. destruct (drop_loop _ _ _ _ _) as [[s l]|] eqn:Hd; [|exact I].
    cbn. eapply drop_loop_good; eauto.
  - unfold add_retract.
    destruct (check_canonical_version _ hi); cbn; [|exact Hi].
    destruct (check_canonical_version _ lo); cbn; [|exact Hi].
    match goal with |- context [add_line ?s ?h ?v ?a] =>
      pose proof (sg_add_line known s h v a Hi) as K; destruct (add_line s h v a) as [s1 n] end. cbn [fst] in K.
    destruct rationale as [|r0 rat]; cbn; [exact K|]. apply sg_sset; [exact K|].
    cbn [set_com hl_com set_before]. destruct (sg_heap known s1 K n) as (A & B & C & D).
    split; [|auto]. cbn [c_before]. apply Forall_app. split; [exact A|exact (rationale_comments (r0 :: rat))].
  - unfold drop_retract. destruct (drop_loop _ _ _ _ _) as [[s l]|] eqn:Hd; [|exact I].
    cbn. eapply drop_loop_good; eauto.
  - unfold add_tool. destruct (existsb _ _); [exact Hi|].
    match goal with |- context [add_line ?s ?h ?v ?a] =>
      pose proof (sg_add_line known s h v a Hi) as K; destruct (add_line s h v a) as [s1 n] end. cbn [fst] in K.
    apply (sg_sort_blocks known (with_tool (with_syn f s1) (f_tool f ++ [mkTool path (Some n)]))). exact K.
  - unfold drop_tool. destruct (drop_loop _ _ _ _ _) as [[s l]|] eqn:Hd; [|exact I].
    cbn. eapply drop_loop_good; eauto.
  - (* AddComment *)
    cbn [comment_arg_ok] in Hca. unfold add_comment. cbn [fsyn with_syn]. apply sg_stmts_only; [exact Hi|].
    apply Forall_app. split; [apply Hi|]. constructor; [|constructor]. cbn.
    split; [discriminate|]. split; [constructor; [exact Hca|constructor]|]. auto.
  - cbn [fsyn cleanup]. apply sg_syn_cleanup. exact Hi.
  - apply sg_sort_blocks. exact Hi.
  - unfold w_add_go_stmt. destruct (go_version_ok v); cbn; [|exact Hi].
    destruct (f_go f) as [g|].
    + destruct (go_syn g) as [i|]; [|exact I]. cbn. apply sg_update_line. exact Hi.
    + cbn. apply sg_insert_stmt_line. apply (sg_salloc known (fsyn f)); [exact Hi|apply lcoms_no].
  - unfold drop_go_stmt. destruct (f_go f) as [g|]; [|exact Hi].
    destruct (go_syn g) as [i|]; [|exact I]. cbn. apply sg_mark_removed. exact Hi.
  - unfold w_add_toolchain_stmt. destruct (toolchain_ok name); cbn; [|exact Hi].
    destruct (f_toolchain f) as [g|].
    + destruct (go_syn g) as [i|]; [|exact I]. cbn. apply sg_update_line. exact Hi.
    + cbn. apply sg_insert_stmt_line. apply (sg_salloc known (fsyn f)); [exact Hi|apply lcoms_no].
  - unfold drop_toolchain_stmt. destruct (f_toolchain f) as [g|]; [|exact Hi].
    destruct (go_syn g) as [i|]; [|exact I]. cbn. apply sg_mark_removed. exact Hi.
  - unfold add_godebug.
    destruct (upsert_loop _ _ _ _ _ _ _ _ _) as [[[s l] need]|] eqn:Hu; [|exact I].
    apply upsert_loop_good in Hu; [|exact Hi]. destruct need; cbn; [|exact Hu].
    match goal with |- context [add_line ?s ?h ?v ?a] =>
      pose proof (sg_add_line known s h v a Hu) as K; destruct (add_line s h v a) as [s1 n] end. exact K.
  - unfold drop_godebug. destruct (drop_loop _ _ _ _ _) as [[s l]|] eqn:Hd; [|exact I].
    cbn. eapply drop_loop_good; eauto.
  - unfold add_use.
    destruct (upsert_loop _ _ _ _ _ _ _ _ _) as [[[s l] need]|] eqn:Hu; [|exact I].
    apply upsert_loop_good in Hu; [|exact Hi]. destruct need; cbn; [|exact Hu].
    apply (sg_add_new_use (with_use (with_syn f s) l)). exact Hu.
  - apply sg_add_new_use. exact Hi.
  - unfold set_use. destruct (set_use_loop _ _ _) as [[[s us] need']|] eqn:Hl; [|exact I]. cbn.
    apply set_use_loop_good in Hl; [|exact Hi].
    apply sg_w_sort_blocks. apply fold_add_new_use_good. exact Hl.
  - unfold drop_use. destruct (drop_loop _ _ _ _ _) as [[s l]|] eqn:Hd; [|exact I].
    cbn. eapply drop_loop_good; eauto.
  - unfold add_replace.
    destruct (add_replace_loop _ _ _ _ _ _ _ _) as [[[[s l] need] h]|] eqn:Hu; [|exact I].
    apply add_replace_loop_good in Hu; [|exact Hi]. destruct need; cbn; [|exact Hu].
    match goal with |- context [add_line ?s ?h ?v ?a] =>
      pose proof (sg_add_line known s h v a Hu) as K; destruct (add_line s h v a) as [s1 n] end. exact K.
  - unfold drop_replace. destruct (drop_loop _ _ _ _ _) as [[s l]|] eqn:Hd; [|exact I].
    cbn. eapply drop_loop_good; eauto.
  - cbn [fsyn w_cleanup]. apply sg_syn_cleanup. exact Hi.
  - apply sg_w_sort_blocks. exact Hi.
Qed.

(* ---------------------------------------------------------------- SetRequireSeparateIndirect *)

Lemma sg_fresh_bid s : SG s -> SG (fst (fresh_bid s)).
Proof. intros [A B C]. split; [exact A|exact B|exact C]. Qed.

Lemma sg_insert_block s i : SG s -> SG (fst (insert_block s i)).
Proof.
  intros H. unfold insert_block. cbn [fresh_bid fst]. apply sg_stmts_only; [apply (sg_fresh_bid s H)|].
  cbn [stmts]. pose proof (sg_stmts known s H) as C.
  rewrite <- (firstn_skipn (Z.to_nat i) (stmts s)) in C. apply Forall_app in C as (C1 & C2).
  apply Forall_app. split; [exact C1|constructor; [apply new_block_good|exact C2]].
Qed.

Lemma set_nth_good k st : forall L, stmt_good known st -> Forall (stmt_good known) L -> Forall (stmt_good known) (set_nth k st L).
Proof.
  induction k as [|k IH]; intros [|x L] Hst H; cbn [set_nth]; try constructor; inversion H; subst; auto.
Qed.

Lemma sg_ensure_block s i s' bid : ensure_block s i = Some (s', bid) -> SG s -> SG s'.
Proof.
  unfold ensure_block. destruct (nth_error (stmts s) (Z.to_nat i)) as [[j|b|c]|]; try discriminate.
  - intros [= <- _] H. set (l' := mkHL (hl_com (sget s j)) (tl (hl_tok (sget s j))) true).
    assert (H1 : SG (sset s j l')) by (apply sg_sset; [exact H|apply H]).
    apply sg_stmts_only; [apply (sg_fresh_bid _ H1)|]. cbn [fresh_bid fst stmts sset].
    apply set_nth_good; [apply new_block_good|apply H].
  - intros [= <- _] H. exact H.
Qed.

Lemma sg_append_to_block s bid n : SG s -> SG (append_to_block s bid n).
Proof.
  intros H. apply sg_stmts_only; [exact H|]. pose proof (sg_stmts known s H) as C.
  induction C as [|st r Hst Hr IH]; cbn [map]; constructor; [|exact IH].
  destruct st as [i|b|c]; try exact Hst. destruct (Nat.eqb (hb_id b) bid); exact Hst.
Qed.

Lemma sg_move_req s i bid : SG s -> SG (fst (move_req s i bid)).
Proof.
  intros H. unfold move_req. cbn [salloc fst]. set (l := sget s i).
  assert (H1 : SG (sset s i (set_tok l []))) by (apply sg_sset; [exact H|apply H]).
  match goal with |- SynGood known (append_to_block ?s2 _ _) => apply (sg_append_to_block s2) end.
  apply (sg_salloc known _ (mkHL (hl_com l) _ true) H1). apply H.
Qed.

Lemma sri_loop_good need one_flat l2b dbid ibid : forall l s have s' l' have',
  sri_loop s need have one_flat l2b dbid ibid l = Some (s', l', have') -> SG s -> SG s'.
Proof.
  induction l as [|r rest IH]; intros s have s' l' have' H Hi; cbn [sri_loop] in H.
  - injection H as <- _ _. exact Hi.
  - destruct (rq_syn r) as [i|]; [|discriminate].
    destruct (match amap_get (rq_path r) need with
              | Some e => if existsb (str_eqb (rq_path r)) have then None else Some e
              | None => None end) as [[v ind]|].
    + set (s1 := sset s i _) in H.
      assert (H1 : SG s1) by (unfold s1; apply sg_sset; [exact Hi|apply lcoms_set_both; apply Hi]).
      destruct (if ind then if one_flat || opt_nat_eqb (l2b_get i l2b) dbid then Some ibid else None
                else if one_flat || opt_nat_eqb (l2b_get i l2b) ibid then Some dbid else None) as [bid|].
      * pose proof (sg_move_req s1 i bid H1) as H2. destruct (move_req s1 i bid) as [s2 n]. cbn [fst] in H2.
        destruct (sri_loop s2 _ _ _ _ _ _ rest) as [[[s3 l3] h3]|] eqn:Hr; [|discriminate].
        injection H as <- _ _. eapply IH; eauto.
      * destruct (sri_loop s1 _ _ _ _ _ _ rest) as [[[s3 l3] h3]|] eqn:Hr; [|discriminate].
        injection H as <- _ _. eapply IH; eauto.
    + destruct (sri_loop _ _ _ _ _ _ _ rest) as [[[s3 l3] h3]|] eqn:Hr; [|discriminate].
      injection H as <- _ _. eapply IH; [exact Hr|apply sg_mark_removed; exact Hi].
Qed.

Lemma sri_add_new_good dbid ibid have : forall need s rs,
  SG s -> SG (fst (fold_left (sri_add_new dbid ibid have) need (s, rs))).
Proof.
  induction need as [|[path [v ind]] rest IH]; intros s rs H; cbn [fold_left]; [exact H|].
  unfold sri_add_new at 2. destruct (existsb (str_eqb path) have); [apply IH; exact H|].
  cbn [salloc]. apply IH.
  match goal with |- SynGood known (append_to_block ?s2 _ _) => apply (sg_append_to_block s2) end.
  match goal with |- SynGood known (mkSyn (heap s ++ [?l]) _ _ _) => apply (sg_salloc known s l H) end.
  destruct ind; [|apply lcoms_no].
  change (hl_com (set_inb (set_indirect_line (mkHL no_coms [auto_quote path; v] false) true) true))
    with (hl_com (set_indirect_line (mkHL no_coms [auto_quote path; v] false) true)).
  apply lcoms_set_indirect. apply lcoms_no.
Qed.

Theorem sri_good f l f' : set_require_separate_indirect f l = Some f' -> SG (fsyn f) -> SG (fsyn f').
Proof.
  intros H Hi. unfold set_require_separate_indirect in H.
  set (s0 := fsyn f) in *. set (sc := sri_scan_loop _ _ _ _) in H.
  match type of H with context [if sc_direct sc <? 0 then ?A else ?B] =>
    destruct (if sc_direct sc <? 0 then A else B) as [[[[s1 dbid] di] ii]|] eqn:H1 end; [|discriminate].
  assert (K1 : SG s1).
  { destruct (sc_direct sc <? 0).
    - destruct (if 0 <=? sc_indirect sc then _ else _) as [di' ii'].
      pose proof (sg_insert_block s0 di' Hi) as K. destruct (insert_block s0 di') as [sx bx]. injection H1 as <- _ _ _. exact K.
    - destruct (ensure_block s0 (sc_direct sc)) as [[sx bx]|] eqn:He; [|discriminate].
      injection H1 as <- _ _ _. eapply sg_ensure_block; eauto. }
  destruct (if ii <? 0 then Some (insert_block s1 (di + 1)) else ensure_block s1 ii) as [[s2 ibid]|] eqn:H2; [|discriminate].
  assert (K2 : SG s2).
  { destruct (ii <? 0).
    - pose proof (sg_insert_block s1 (di + 1) K1) as K. destruct (insert_block s1 (di + 1)) as [sx bx]. injection H2 as <- _. exact K.
    - eapply sg_ensure_block; eauto. }
  destruct (sri_loop _ _ _ _ _ _ _ _) as [[[s3 rs] have]|] eqn:H3; [|discriminate].
  apply sri_loop_good in H3; [|exact K2].
  match type of H with context [fold_left ?F ?N (s3, rs)] =>
    pose proof (sri_add_new_good dbid ibid have N s3 rs H3) as K4;
    destruct (fold_left F N (s3, rs)) as [s4 rs'] end. cbn [fst] in K4.
  injection H as <-. apply (sg_sort_blocks known (with_require (with_syn f s4) rs')). exact K4.
Qed.

(* ---------------------------------------------------------------- all operations, sequences *)

Theorem syn_good_step o f f' : comment_arg_ok o -> SG (fsyn f) -> apply o f = ROk f' \/ apply o f = RErr f' -> SG (fsyn f').
Proof.
  intros Hca Hi H. destruct (not_sri o) eqn:Ens.
  - pose proof (apply_good o f Ens Hca Hi) as Hg. unfold res_good in Hg. destruct H as [H|H]; rewrite H in Hg; exact Hg.
  - destruct o; try discriminate Ens. cbn [apply] in H.
    destruct H as [H|H]; [apply lift_some in H|exfalso; exact (lift_not_err _ _ H)].
    eapply sri_good; eauto.
Qed.

Theorem syn_good_run ops : forall f k er errs f',
  Forall comment_arg_ok ops -> SG (fsyn f) -> run_from k er ops f = RunOk errs f' -> SG (fsyn f').
Proof.
  induction ops as [|o r IH]; intros f k er errs f' Hall Hi H; cbn in H.
  - injection H as _ <-. exact Hi.
  - inversion Hall as [|? ? Hv Hr]; subst.
    destruct (apply o f) as [f1|f1|] eqn:Ha; [| |discriminate];
      (eapply (IH f1); [exact Hr|eapply syn_good_step; eauto|exact H]).
Qed.

End Good.
