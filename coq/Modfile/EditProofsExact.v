(* C16: the bulk setters produce exactly the requested set (typed lists). *)
From Coq Require Import Permutation.
From Verif.Base Require Import Bytes.
From Verif.Modfile Require Import EditModel EditOps EditSpec EditProofsTyped.

(* ---------------------------------------------------------------- maps with sorted keys *)
Definition keys {V} (m : list (str * V)) : list str := map fst m.

Lemma str_cmp_eq_eqb a b : str_cmp a b = Eq <-> str_eqb a b = true.
Proof. rewrite str_cmp_eq, str_eqb_eq. tauto. Qed.

Lemma amap_get_set_same {V} k (v : V) m : amap_get k (amap_set k v m) = Some v.
Proof.
  induction m as [|[k' v'] r IH]; cbn; [rewrite str_eqb_refl; reflexivity|].
  destruct (str_cmp k k') eqn:E; cbn.
  - rewrite str_eqb_refl. reflexivity.
  - rewrite str_eqb_refl. reflexivity.
  - assert (str_eqb k k' = false) as ->.
    { destruct (str_eqb k k') eqn:E'; [|reflexivity]. apply str_cmp_eq_eqb in E'. congruence. }
    exact IH.
Qed.

Lemma amap_get_set_other {V} k k' (v : V) m : str_eqb k' k = false -> amap_get k' (amap_set k v m) = amap_get k' m.
Proof.
  intros Hn. induction m as [|[k2 v2] r IH]; cbn; [rewrite Hn; reflexivity|].
  destruct (str_cmp k k2) eqn:E; cbn.
  - apply str_cmp_eq in E. subst k2. rewrite Hn. reflexivity.
  - rewrite Hn. reflexivity.
  - rewrite IH. reflexivity.
Qed.

Lemma in_keys_get {V} k (m : list (str * V)) : In k (keys m) <-> exists v, amap_get k m = Some v.
Proof.
  induction m as [|[k' v'] r IH]; cbn.
  - split; [tauto | intros [v H]; discriminate].
  - destruct (str_eqb k k') eqn:E.
    + apply str_eqb_eq in E. subst. split; [eauto | auto].
    + rewrite IH. split; [intros [H|H]; [subst; rewrite str_eqb_refl in E; discriminate | exact H] | tauto].
Qed.

Lemma not_in_keys_get {V} k (m : list (str * V)) : ~ In k (keys m) -> amap_get k m = None.
Proof.
  intros H. destruct (amap_get k m) eqn:E; [|reflexivity]. exfalso. apply H. apply in_keys_get. eauto.
Qed.

Lemma amap_set_fresh_perm {V} k (v : V) m : ~ In k (keys m) -> Permutation (amap_set k v m) ((k, v) :: m).
Proof.
  induction m as [|[k' v'] r IH]; cbn; intros Hn; [reflexivity|].
  destruct (str_cmp k k') eqn:E.
  - apply str_cmp_eq in E. subst. tauto.
  - reflexivity.
  - etransitivity; [apply perm_skip, IH; tauto | apply perm_swap].
Qed.

Lemma amap_del_notin {V} k (m : list (str * V)) : ~ In k (keys m) -> amap_del k m = m.
Proof.
  unfold amap_del. induction m as [|[k' v'] r IH]; cbn; intros Hn; [reflexivity|].
  destruct (str_eqb k' k) eqn:E; cbn.
  - apply str_eqb_eq in E. subst. tauto.
  - f_equal. apply IH. tauto.
Qed.

Lemma amap_del_keys_incl {V} k (m : list (str * V)) x : In x (keys (amap_del k m)) -> In x (keys m) /\ x <> k.
Proof.
  unfold amap_del, keys. rewrite in_map_iff. intros [[k' v'] [<- Hin]]. apply filter_In in Hin.
  destruct Hin as [Hin Hne]. cbn in *. split; [apply in_map_iff; exists (k', v'); auto|].
  intros ->. rewrite str_eqb_refl in Hne. discriminate.
Qed.

Lemma amap_del_nodup {V} k (m : list (str * V)) : NoDup (keys m) -> NoDup (keys (amap_del k m)).
Proof.
  unfold amap_del, keys. induction m as [|[k' v'] r IH]; cbn; intros Hnd; [constructor|].
  inversion Hnd as [|? ? Hni Hr]; subst. destruct (negb (str_eqb k' k)); cbn; [|auto].
  constructor; [|auto]. intros Hin. apply Hni. apply in_map_iff in Hin. destruct Hin as [[a b] [<- Hin]].
  apply filter_In in Hin. apply in_map_iff. exists (a, b). tauto.
Qed.

Lemma amap_get_del_perm {V} k (x : V) m :
  NoDup (keys m) -> amap_get k m = Some x -> Permutation m ((k, x) :: amap_del k m).
Proof.
  induction m as [|[k' v'] r IH]; cbn; intros Hnd Hg; [discriminate|].
  inversion Hnd as [|? ? Hni Hr]; subst.
  destruct (str_eqb k k') eqn:E.
  - apply str_eqb_eq in E. subst k'. injection Hg as ->. unfold amap_del; cbn. rewrite str_eqb_refl. cbn.
    fold (amap_del k r). rewrite amap_del_notin by exact Hni. reflexivity.
  - unfold amap_del; cbn. rewrite (str_eqb_sym k' k), E. cbn. fold (amap_del k r).
    etransitivity; [apply perm_skip, IH; assumption | apply perm_swap].
Qed.

(* ---------------------------------------------------------------- SetRequire *)
Definition toKV (q : req) : str * (str * bool) := (fst (fst q), (snd (fst q), snd q)).
Definition toReq (kv : str * (str * bool)) : req := (fst kv, fst (snd kv), snd (snd kv)).
Definition projR (r : e_require) : req := (rq_path r, rq_vers r, rq_ind r).
Definition liveR (r : e_require) : bool := nonempty (rq_path r).

Lemma toReq_toKV q : toReq (toKV q) = q.
Proof. destruct q as [[p v] i]. reflexivity. Qed.

Lemma keys_perm {V} (a b : list (str * V)) : Permutation a b -> Permutation (keys a) (keys b).
Proof. apply Permutation_map. Qed.

Lemma set_require_need_perm l : forall acc,
  NoDup (map req_path l ++ keys acc) ->
  exists N, set_require_need l acc = Some N /\ Permutation N (map toKV l ++ acc).
Proof.
  induction l as [|[[p v] ind] r IH]; intros acc Hnd; cbn.
  - exists acc. split; reflexivity.
  - cbn in Hnd. inversion Hnd as [|? ? Hni Hr]; subst.
    assert (Hfresh : ~ In p (keys acc)) by (intros H; apply Hni; apply in_app_iff; tauto).
    rewrite (not_in_keys_get p acc Hfresh).
    pose proof (amap_set_fresh_perm p (v, ind) acc Hfresh) as Hp.
    destruct (IH (amap_set p (v, ind) acc)) as [N [HN HP]].
    + eapply Permutation_NoDup; [|exact Hnd]. cbn.
      etransitivity; [apply Permutation_middle|]. apply Permutation_app_head.
      symmetry. apply (keys_perm _ _ Hp).
    + exists N. split; [exact HN|]. rewrite HP. unfold toKV at 2; cbn.
      etransitivity; [apply Permutation_app_head; exact Hp|]. symmetry. apply Permutation_middle.
Qed.

Lemma set_require_loop_perm l : forall s N s' l' N',
  set_require_loop s N l = Some (s', l', N') ->
  NoDup (keys N) -> (forall k, In k (keys N) -> k <> []) ->
  Permutation (map projR (filter liveR l') ++ map toReq N') (map toReq N)
  /\ NoDup (keys N') /\ (forall k, In k (keys N') -> k <> []).
Proof.
  induction l as [|r rest IH]; intros s N s' l' N' H Hnd Hne; cbn in H.
  - injection H as _ <- <-. cbn. auto.
  - destruct (rq_syn r) as [i|]; [|discriminate].
    destruct (amap_get (rq_path r) N) as [[v ind]|] eqn:Hg.
    + destruct (set_require_loop _ _ rest) as [[[s1 l1] N1]|] eqn:Hr; [|discriminate].
      injection H as _ <- <-.
      assert (Hp : rq_path r <> []) by (apply Hne; apply in_keys_get; eauto).
      destruct (IH _ _ _ _ _ Hr) as [IH1 [IH2 IH3]].
      * apply amap_del_nodup; exact Hnd.
      * intros k Hk. apply amap_del_keys_incl in Hk. apply Hne. tauto.
      * split; [|auto]. cbn [filter]. unfold liveR at 1; cbn [rq_path].
        assert (nonempty (rq_path r) = true) as -> by (apply nonempty_true; exact Hp).
        cbn [map app]. unfold projR at 1; cbn.
        rewrite (Permutation_map toReq (amap_get_del_perm _ _ _ Hnd Hg)). cbn [map].
        unfold toReq at 3; cbn. apply perm_skip. exact IH1.
    + destruct (set_require_loop _ _ rest) as [[[s1 l1] N1]|] eqn:Hr; [|discriminate].
      injection H as _ <- <-.
      assert (Hd : amap_del [] N = N).
      { apply amap_del_notin. intros Hin. exact (Hne [] Hin eq_refl). }
      rewrite Hd in Hr. destruct (IH _ _ _ _ _ Hr Hnd Hne) as [IH1 [IH2 IH3]].
      split; [|auto]. cbn [filter]. unfold liveR at 1; cbn. exact IH1.
Qed.

Lemma fold_add_new_require_abs (N : list (str * (str * bool))) : forall f,
  (forall k, In k (keys N) -> k <> []) ->
  k_require (abs (fold_left (fun g kv => add_new_require g (fst kv) (fst (snd kv)) (snd (snd kv))) N f))
  = k_require (abs f) ++ map toReq N.
Proof.
  induction N as [|[p [v ind]] r IH]; intros f Hne; cbn [fold_left map].
  - rewrite app_nil_r. reflexivity.
  - rewrite IH by (intros k Hk; apply Hne; right; exact Hk).
    rewrite add_new_require_abs by (apply Hne; left; reflexivity).
    cbn. rewrite <- app_assoc. reflexivity.
Qed.

Lemma distinct_paths_spec l : distinct_paths l = true -> NoDup l /\ Forall (fun p => p <> []) l.
Proof.
  unfold distinct_paths. intros H. apply Bool.andb_true_iff in H. destruct H as [H1 H2]. split.
  - induction l as [|x r IH]; [constructor|]. cbn in H1, H2.
    apply Bool.andb_true_iff in H1. apply Bool.andb_true_iff in H2. destruct H1, H2 as [Hx Hr].
    constructor; [|auto]. intros Hin. apply negb_true_false in Hx.
    assert (existsb (str_eqb x) r = true) by (apply existsb_exists; exists x; split; [exact Hin | apply str_eqb_refl]).
    congruence.
  - apply Forall_forall. intros x Hx. rewrite forallb_forall in H1. apply nonempty_true. auto.
Qed.

Theorem set_require_exact f l f' :
  distinct_paths (map req_path l) = true ->
  set_require f l = Some f' ->
  Permutation (k_require (abs f')) l /\ Permutation (k_require (abs (cleanup f'))) l.
Proof.
  intros Hd H. apply distinct_paths_spec in Hd. destruct Hd as [Hnd Hne].
  unfold set_require in H.
  destruct (set_require_need_perm l []) as [N [HN HP]]; [cbn; rewrite app_nil_r; exact Hnd|].
  rewrite HN in H. rewrite app_nil_r in HP.
  assert (HkN : Permutation (keys N) (map req_path l)).
  { rewrite (keys_perm _ _ HP). unfold keys. rewrite map_map. reflexivity. }
  destruct (set_require_loop (fsyn f) N (f_require f)) as [[[s rs] N']|] eqn:Hl; [|discriminate].
  injection H as <-.
  destruct (set_require_loop_perm _ _ _ _ _ _ Hl) as [P1 [P2 P3]].
  - eapply Permutation_NoDup; [symmetry; exact HkN | exact Hnd].
  - intros k Hk. rewrite Forall_forall in Hne. apply Hne. eapply Permutation_in; eauto.
  - assert (Hres : Permutation (k_require (abs (sort_blocks
        (fold_left (fun g kv => add_new_require g (fst kv) (fst (snd kv)) (snd (snd kv))) N'
           (with_require (with_syn f s) rs))))) l).
    { change (k_require (abs (sort_blocks ?g))) with (k_require (abs g)).
      rewrite fold_add_new_require_abs by exact P3.
      unfold abs at 1; cbn [k_require f_require with_require with_syn].
      fold liveR. change (fun r => (rq_path r, rq_vers r, rq_ind r)) with projR.
      rewrite P1. rewrite (Permutation_map toReq HP), map_map.
      erewrite map_ext; [rewrite map_id; reflexivity | apply toReq_toKV]. }
    split; [exact Hres | rewrite cleanup_abs; exact Hres].
Qed.

(* ---------------------------------------------------------------- SetUse *)
Lemma fold_amap_set_perm {V} (l : list (str * V)) : forall acc,
  NoDup (map fst l ++ keys acc) ->
  Permutation (fold_left (fun m (q : str * V) => amap_set (fst q) (snd q) m) l acc) (l ++ acc).
Proof.
  induction l as [|[p v] r IH]; intros acc Hnd; cbn [fold_left]; [reflexivity|].
  cbn in Hnd. inversion Hnd as [|? ? Hni Hr]; subst.
  assert (Hfresh : ~ In p (keys acc)) by (intros H; apply Hni; apply in_app_iff; tauto).
  pose proof (amap_set_fresh_perm p v acc Hfresh) as Hp.
  rewrite IH.
  - cbn. etransitivity; [apply Permutation_app_head; exact Hp|]. symmetry. apply Permutation_middle.
  - eapply Permutation_NoDup; [|exact Hnd]. cbn.
    etransitivity; [apply Permutation_middle|]. apply Permutation_app_head.
    symmetry. apply (keys_perm _ _ Hp).
Qed.

Definition projU (u : e_use) : str * str := (us_path u, us_mod u).
Definition liveU (u : e_use) : bool := nonempty (us_path u).

Lemma set_use_loop_perm l : forall s (N : list (str * str)) s' l' N',
  set_use_loop s N l = Some (s', l', N') ->
  NoDup (keys N) -> (forall k, In k (keys N) -> k <> []) ->
  Permutation (map projU (filter liveU l') ++ N') N
  /\ NoDup (keys N') /\ (forall k, In k (keys N') -> k <> []).
Proof.
  induction l as [|u rest IH]; intros s N s' l' N' H Hnd Hne; cbn in H.
  - injection H as _ <- <-. cbn. auto.
  - destruct (amap_get (us_path u) N) as [mp|] eqn:Hg.
    + destruct (set_use_loop _ _ rest) as [[[s1 l1] N1]|] eqn:Hr; [|discriminate].
      injection H as _ <- <-.
      assert (Hp : us_path u <> []) by (apply Hne; apply in_keys_get; eauto).
      destruct (IH _ _ _ _ _ Hr) as [IH1 [IH2 IH3]].
      * apply amap_del_nodup; exact Hnd.
      * intros k Hk. apply amap_del_keys_incl in Hk. apply Hne. tauto.
      * split; [|auto]. cbn [filter]. unfold liveU at 1; cbn [us_path].
        assert (nonempty (us_path u) = true) as -> by (apply nonempty_true; exact Hp).
        cbn [map app]. unfold projU at 1; cbn.
        rewrite (amap_get_del_perm _ _ _ Hnd Hg). apply perm_skip. exact IH1.
    + destruct (us_syn u) as [i|]; [|discriminate].
      destruct (set_use_loop _ _ rest) as [[[s1 l1] N1]|] eqn:Hr; [|discriminate].
      injection H as _ <- <-.
      destruct (IH _ _ _ _ _ Hr Hnd Hne) as [IH1 [IH2 IH3]].
      split; [|auto]. cbn [filter]. unfold liveU at 1; cbn. exact IH1.
Qed.

Lemma fold_add_new_use_abs (N : list (str * str)) : forall f,
  (forall k, In k (keys N) -> k <> []) ->
  k_use (abs (fold_left (fun g kv => add_new_use g (fst kv) (snd kv)) N f)) = k_use (abs f) ++ N.
Proof.
  induction N as [|[p m] r IH]; intros f Hne; cbn [fold_left].
  - rewrite app_nil_r. reflexivity.
  - rewrite IH by (intros k Hk; apply Hne; right; exact Hk).
    rewrite add_new_use_abs by (apply Hne; left; reflexivity).
    cbn. rewrite <- app_assoc. reflexivity.
Qed.

Theorem set_use_exact f (l : list (str * str)) f' :
  distinct_paths (map fst l) = true ->
  set_use f l = Some f' ->
  Permutation (k_use (abs f')) l /\ Permutation (k_use (abs (w_cleanup f'))) l.
Proof.
  intros Hd H. apply distinct_paths_spec in Hd. destruct Hd as [Hnd Hne].
  unfold set_use in H.
  set (N := fold_left _ l []) in H.
  assert (HP : Permutation N l).
  { unfold N. rewrite fold_amap_set_perm; [rewrite app_nil_r; reflexivity | cbn; rewrite app_nil_r; exact Hnd]. }
  destruct (set_use_loop (fsyn f) N (f_use f)) as [[[s us] N']|] eqn:Hl; [|discriminate].
  injection H as <-.
  destruct (set_use_loop_perm _ _ _ _ _ _ Hl) as [P1 [P2 P3]].
  - eapply Permutation_NoDup; [symmetry; apply (keys_perm _ _ HP) | exact Hnd].
  - intros k Hk. rewrite Forall_forall in Hne. apply Hne. eapply Permutation_in; [apply (keys_perm _ _ HP) | exact Hk].
  - assert (Hres : Permutation (k_use (abs (w_sort_blocks
        (fold_left (fun g kv => add_new_use g (fst kv) (snd kv)) N' (with_use (with_syn f s) us))))) l).
    { change (k_use (abs (w_sort_blocks ?g))) with (k_use (abs g)).
      rewrite fold_add_new_use_abs by exact P3.
      unfold abs at 1; cbn [k_use f_use with_use with_syn].
      fold liveU. change (fun u => (us_path u, us_mod u)) with projU.
      rewrite P1. exact HP. }
    split; [exact Hres | rewrite w_cleanup_abs; exact Hres].
Qed.

(* ---------------------------------------------------------------- SetRequireSeparateIndirect *)
Definition notin (have : list str) (kv : str * (str * bool)) : bool := negb (existsb (str_eqb (fst kv)) have).

Lemma notin_cons_same p have x : notin (p :: have) (p, x) = false.
Proof. unfold notin; cbn. rewrite str_eqb_refl. reflexivity. Qed.
Lemma notin_cons_other p have k x : str_eqb k p = false -> notin (p :: have) (k, x) = notin have (k, x).
Proof. unfold notin; cbn. intros ->. reflexivity. Qed.

Lemma filter_notin_cons p have (need : list (str * (str * bool))) x :
  NoDup (keys need) -> amap_get p need = Some x -> existsb (str_eqb p) have = false ->
  Permutation (filter (notin have) need) ((p, x) :: filter (notin (p :: have)) need).
Proof.
  induction need as [|[k v] r IH]; cbn [filter amap_get keys map]; intros Hnd Hg Hh; [discriminate|].
  inversion Hnd as [|? ? Hni Hr]; subst.
  destruct (str_eqb p k) eqn:E.
  - apply str_eqb_eq in E. subst k. injection Hg as ->.
    rewrite notin_cons_same.
    assert (notin have (p, x) = true) as -> by (unfold notin; cbn; rewrite Hh; reflexivity).
    apply perm_skip.
    assert (Heq : filter (notin have) r = filter (notin (p :: have)) r).
    { apply filter_ext_in. intros [k v] Hin. symmetry. apply notin_cons_other.
      destruct (str_eqb k p) eqn:E; [|reflexivity]. apply str_eqb_eq in E. subst.
      exfalso. apply Hni. apply in_map_iff. exists (p, v). auto. }
    rewrite Heq. reflexivity.
  - rewrite notin_cons_other by (rewrite str_eqb_sym; exact E).
    destruct (notin have (k, v)).
    + etransitivity; [apply perm_skip, IH; assumption | apply perm_swap].
    + apply IH; assumption.
Qed.

Lemma sri_loop_perm need one_flat l2b dbid ibid l : forall s have s' l' have',
  sri_loop s need have one_flat l2b dbid ibid l = Some (s', l', have') ->
  NoDup (keys need) -> (forall k, In k (keys need) -> k <> []) ->
  Permutation (map projR (filter liveR l') ++ map toReq (filter (notin have') need))
              (map toReq (filter (notin have) need)).
Proof.
  induction l as [|r rest IH]; intros s have s' l' have' H Hnd Hne; cbn [sri_loop] in H.
  - injection H as _ <- <-. reflexivity.
  - destruct (rq_syn r) as [i|]; [|discriminate].
    destruct (amap_get (rq_path r) need) as [[v ind]|] eqn:Hg.
    + destruct (existsb (str_eqb (rq_path r)) have) eqn:Hh.
      * destruct (sri_loop _ _ _ _ _ _ _ rest) as [[[s3 l3] h3]|] eqn:Hr; [|discriminate].
        injection H as _ <- <-. cbn [filter]. unfold liveR at 1; cbn. eapply IH; eauto.
      * set (s1 := sset s i _) in H.
        destruct (if ind then if one_flat || opt_nat_eqb (l2b_get i l2b) dbid then Some ibid else None
                  else if one_flat || opt_nat_eqb (l2b_get i l2b) ibid then Some dbid else None) as [bid|].
        -- destruct (move_req s1 i bid) as [s2 n].
           destruct (sri_loop s2 _ _ _ _ _ _ rest) as [[[s3 l3] h3]|] eqn:Hr; [|discriminate].
           injection H as _ <- <-.
           assert (Hp : rq_path r <> []) by (apply Hne; apply in_keys_get; eauto).
           cbn [filter]. unfold liveR at 1; cbn [rq_path].
           assert (nonempty (rq_path r) = true) as -> by (apply nonempty_true; exact Hp).
           cbn [map app]. unfold projR at 1; cbn.
           rewrite (Permutation_map toReq (filter_notin_cons _ _ _ _ Hnd Hg Hh)). cbn [map].
           unfold toReq at 3; cbn. apply perm_skip. eapply IH; eauto.
        -- destruct (sri_loop s1 _ _ _ _ _ _ rest) as [[[s3 l3] h3]|] eqn:Hr; [|discriminate].
           injection H as _ <- <-.
           assert (Hp : rq_path r <> []) by (apply Hne; apply in_keys_get; eauto).
           cbn [filter]. unfold liveR at 1; cbn [rq_path].
           assert (nonempty (rq_path r) = true) as -> by (apply nonempty_true; exact Hp).
           cbn [map app]. unfold projR at 1; cbn.
           rewrite (Permutation_map toReq (filter_notin_cons _ _ _ _ Hnd Hg Hh)). cbn [map].
           unfold toReq at 3; cbn. apply perm_skip. eapply IH; eauto.
    + destruct (sri_loop _ _ _ _ _ _ _ rest) as [[[s3 l3] h3]|] eqn:Hr; [|discriminate].
      injection H as _ <- <-. cbn [filter]. unfold liveR at 1; cbn. eapply IH; eauto.
Qed.

Lemma sri_add_new_abs dbid ibid have (need : list (str * (str * bool))) : forall s rs,
  (forall k, In k (keys need) -> k <> []) ->
  map projR (filter liveR (snd (fold_left (sri_add_new dbid ibid have) need (s, rs))))
  = map projR (filter liveR rs) ++ map toReq (filter (notin have) need).
Proof.
  induction need as [|[p [v ind]] r IH]; intros s rs Hne; cbn [fold_left filter map].
  - rewrite app_nil_r. reflexivity.
  - unfold sri_add_new at 2. unfold notin at 1; cbn [fst].
    destruct (existsb (str_eqb p) have); cbn [negb].
    + apply IH. intros k Hk. apply Hne. right. exact Hk.
    + cbn. rewrite IH by (intros k Hk; apply Hne; right; exact Hk).
      rewrite filter_app, map_app. cbn [filter]. unfold liveR at 2; cbn [rq_path].
      assert (nonempty p = true) as -> by (apply nonempty_true; apply Hne; left; reflexivity).
      cbn. rewrite <- app_assoc. reflexivity.
Qed.

Theorem set_require_separate_exact f l f' :
  distinct_paths (map req_path l) = true ->
  set_require_separate_indirect f l = Some f' ->
  Permutation (k_require (abs f')) l /\ Permutation (k_require (abs (cleanup f'))) l.
Proof.
  intros Hd H. apply distinct_paths_spec in Hd. destruct Hd as [Hnd Hne].
  unfold set_require_separate_indirect in H.
  set (need := fold_left (fun m (q : req) => let '(p, v, ind) := q in amap_set p (v, ind) m) l []) in H.
  assert (HP : Permutation need (map toKV l)).
  { unfold need.
    assert (E : forall acc, fold_left (fun m (q : req) => let '(p, v, ind) := q in amap_set p (v, ind) m) l acc
                = fold_left (fun m (q : str * (str * bool)) => amap_set (fst q) (snd q) m) (map toKV l) acc).
    { clear. induction l as [|[[p v] ind] r IH]; intros acc; cbn; [reflexivity|]. apply IH. }
    rewrite E, fold_amap_set_perm; [rewrite app_nil_r; reflexivity|].
    cbn. rewrite app_nil_r, map_map. exact Hnd. }
  assert (HkN : Permutation (keys need) (map req_path l)).
  { rewrite (keys_perm _ _ HP). unfold keys. rewrite map_map. reflexivity. }
  assert (Hnd' : NoDup (keys need)) by (eapply Permutation_NoDup; [symmetry; exact HkN | exact Hnd]).
  assert (Hne' : forall k, In k (keys need) -> k <> []).
  { intros k Hk. rewrite Forall_forall in Hne. apply Hne. eapply Permutation_in; eauto. }
  match type of H with context [if sc_direct ?sc <? 0 then ?A else ?B] =>
    destruct (if sc_direct sc <? 0 then A else B) as [[[[s1 dbid] di] ii]|] end; [|discriminate].
  destruct (if ii <? 0 then _ else _) as [[s2 ibid]|]; [|discriminate].
  destruct (sri_loop _ _ _ _ _ _ _ _) as [[[s3 rs] have]|] eqn:H3; [|discriminate].
  apply sri_loop_perm in H3; [|exact Hnd' | exact Hne'].
  pose proof (sri_add_new_abs dbid ibid have need s3 rs Hne') as H4.
  destruct (fold_left _ need (s3, rs)) as [s4 rs']. cbn [snd] in H4.
  injection H as <-.
  assert (Hres : Permutation (k_require (abs (sort_blocks (with_require (with_syn f s4) rs')))) l).
  { change (k_require (abs (sort_blocks ?g))) with (k_require (abs g)).
    unfold abs; cbn [k_require f_require with_require with_syn].
    change (map (fun r => (rq_path r, rq_vers r, rq_ind r)) (filter (fun r => nonempty (rq_path r)) rs'))
      with (map projR (filter liveR rs')).
    rewrite H4, H3.
    assert (Hall : filter (notin []) need = need).
    { clear. induction need as [|x r IH]; cbn; [reflexivity | rewrite IH; reflexivity]. }
    rewrite Hall, (Permutation_map toReq HP), map_map.
    erewrite map_ext; [rewrite map_id; reflexivity | apply toReq_toKV]. }
  split; [exact Hres | rewrite cleanup_abs; exact Hres].
Qed.

(* non-vacuity: a file with a duplicated requirement, one request *)
Definition example_dup_file : file :=
  let line (t : list str) := mkHL no_coms t false in
  mkEFile (mkSyn [line [B "require"; B "a.b/c"; B "v1.0.0"]; line [B "require"; B "a.b/c"; B "v1.1.0"]] 0 no_coms
                 [SLine 0%nat; SLine 1%nat])
          None None None []
          [mkRequire (B "a.b/c") (B "v1.0.0") false (Some 0%nat); mkRequire (B "a.b/c") (B "v1.1.0") false (Some 1%nat)]
          [] [] [] [] [].

Lemma set_require_exact_nonvacuous :
  distinct_paths (map req_path [(B "a.b/c", B "v1.2.0", true)]) = true /\
  exists f', set_require example_dup_file [(B "a.b/c", B "v1.2.0", true)] = Some f'
             /\ k_require (abs (cleanup f')) = [(B "a.b/c", B "v1.2.0", true)].
Proof. split; [reflexivity|]. vm_compute. eexists. split; reflexivity. Qed.
