(* Round trip, part 12i: the statement loop once more, for any directive interpreter that
   satisfies what add_sim and add_ext say of File.add (Section Generic), and its instance
   for go.work (WorkFile.add): format_preserves_directives for ParseWork, with any sane
   version fixer. *)
From Verif.Base Require Import Bytes Utf8 Strconv QuoteProofs.
From Verif.Semver Require Import Spec Model.
From Verif.Module Require Import Path.
From Verif.Modfile Require Import Syntax Lex Parse Print Directives ProofsLex ProofsDirectives ProofsRound RoundRows
  RoundParse RoundParse5 RoundLexPure4 RoundLexB1 RoundMain1 RoundTrim RoundTrim2 RoundTree RoundTree2 RoundTree3
  RoundPrint RoundPrint3 RoundMain2 RoundMain3 RoundQuote RoundSemver RoundDir1 RoundDir2 RoundDir3 RoundDir4 RoundDir5 RoundDir6.

Section Generic.
Variables (F V : Type).
Variable addl : F -> option line_block -> line -> line_ref -> str -> list str -> step F.
Variable known : str -> bool.
Variable valsF : F -> V.
Variable wfF : F -> Prop.
Variable extF : F -> F -> Prop.
Hypothesis extF_refl : forall f, extF f f.
Hypothesis extF_trans : forall a b c, extF a b -> extF b c -> extF a c.
Hypothesis wfF_ext : forall f f', extF f f' -> wfF f' -> wfF f.
Hypothesis addl_ext : forall f blk l ref verb args, extF f (st_file (addl f blk l ref verb args)).
Hypothesis addl_sim : forall f1 f2 blk1 blk2 l1 l2 ref1 ref2 verb args,
  st_err (addl f1 blk1 l1 ref1 verb args) = false -> valsF f1 = valsF f2 -> ctx_eq blk1 l1 blk2 l2 ->
  wfF (st_file (addl f1 blk1 l1 ref1 verb args)) ->
  let args' := st_args (addl f1 blk1 l1 ref1 verb args) in
  st_err (addl f2 blk2 l2 ref2 verb args') = false /\
  st_args (addl f2 blk2 l2 ref2 verb args') = args' /\
  valsF (st_file (addl f2 blk2 l2 ref2 verb args')) = valsF (st_file (addl f1 blk1 l1 ref1 verb args)) /\
  Forall2 tsub args args'.

Definition gstep := stmt_step addl known true.

Lemma g_block_lines_ext blk verb i : forall ls j f errs acc,
  extF f (fst (fst (block_lines (fun f l ref args => addl f blk l ref verb args) i j ls f errs acc))).
Proof.
  induction ls as [|l ls IH]; intros j f errs acc; cbn [block_lines]; [apply extF_refl|].
  eapply extF_trans; [apply addl_ext|apply IH].
Qed.

Lemma g_step_ext i x st : extF (lp_file st) (lp_file (gstep i x st)).
Proof.
  unfold gstep, stmt_step. destruct x as [l|b|c]; cbn [lp_file]; try apply extF_refl.
  - destruct (l_token l); cbn [lp_file]; [apply extF_refl|apply addl_ext].
  - destruct (b_token b) as [|verb [|v2 r]]; cbn [lp_file]; try apply extF_refl.
    destruct (known verb); cbn [lp_file]; [|apply extF_refl].
    pose proof (g_block_lines_ext (Some b) verb i (b_line b) O (lp_file st) (lp_errs_r st) []) as H.
    destruct (block_lines _ i O (b_line b) (lp_file st) (lp_errs_r st) []) as [[f' e'] ls']. exact H.
Qed.

Lemma g_loop_ext : forall xs i st, extF (lp_file st) (lp_file (stmts_loop gstep i xs st)).
Proof.
  induction xs as [|x xs IH]; intros i st; cbn [stmts_loop]; [apply extF_refl|].
  eapply extF_trans; [apply g_step_ext|apply IH].
Qed.

Lemma g_step_panic i x st : lp_panic st = true -> lp_panic (gstep i x st) = true.
Proof.
  intros H. unfold gstep, stmt_step. destruct x as [l|b|c]; cbn [lp_panic]; auto.
  - destruct (l_token l); cbn [lp_panic]; auto.
  - destruct (b_token b) as [|verb [|v2 r]]; cbn [lp_panic]; auto.
    destruct (known verb); cbn [lp_panic]; auto.
    destruct (block_lines _ i O (b_line b) (lp_file st) (lp_errs_r st) []) as [[f' e'] ls']. exact H.
Qed.

Lemma g_loop_panic : forall xs i st, lp_panic st = true -> lp_panic (stmts_loop gstep i xs st) = true.
Proof. induction xs as [|x xs IH]; intros i st H; cbn [stmts_loop]; [exact H|]. apply IH. apply g_step_panic. exact H. Qed.

Lemma g_step_errs i x st : lp_errs_r st <> [] -> lp_errs_r (gstep i x st) <> [].
Proof.
  intros H. unfold gstep, stmt_step. destruct x as [l|b|c]; cbn [lp_errs_r]; auto.
  - destruct (l_token l); cbn [lp_errs_r]; auto. apply add_err_nonnil. exact H.
  - destruct (b_token b) as [|verb [|v2 r]]; cbn [lp_errs_r]; auto; try discriminate.
    destruct (known verb); cbn [lp_errs_r]; [|discriminate].
    pose proof (block_lines_errs_mono (fun f l ref args => addl f (Some b) l ref verb args) i
                  (b_line b) O (lp_file st) (lp_errs_r st) [] H) as Hm.
    destruct (block_lines _ i O (b_line b) (lp_file st) (lp_errs_r st) []) as [[f' errs'] ls']. exact Hm.
Qed.

Lemma g_loop_errs : forall xs i st, lp_errs_r st <> [] -> lp_errs_r (stmts_loop gstep i xs st) <> [].
Proof. induction xs as [|x xs IH]; intros i st H; cbn [stmts_loop]; [exact H|]. apply IH. apply g_step_errs. exact H. Qed.

Definition gsim (S1 S2 : loop_state F) : Prop :=
  valsF (lp_file S1) = valsF (lp_file S2) /\ lp_errs_r S2 = [] /\ lp_panic S2 = false.

Lemma g_block_lines_sim b1 b1' b2 verb i i2 : b_comments b1' = b_comments b1 ->
  forall ls1 j f1 ls2 j2 f2 acc2,
  let r1 := block_lines (fun f l ref args => addl f (Some b1) l ref verb args) i j ls1 f1 [] [] in
  snd (fst r1) = [] -> wfF (fst (fst r1)) -> valsF f1 = valsF f2 ->
  Forall2 (lrel (Some b1') (Some b2)) (snd r1) ls2 ->
  let r2 := block_lines (fun f l ref args => addl f (Some b2) l ref verb args) i2 j2 ls2 f2 [] acc2 in
  snd (fst r2) = [] /\ valsF (fst (fst r1)) = valsF (fst (fst r2)).
Proof.
  intros Hbc. induction ls1 as [|l ls1 IH]; intros j f1 ls2 j2 f2 acc2; cbv zeta; cbn [block_lines].
  - intros _ _ Hv H2. cbn [fst snd] in *. inversion H2; subst. cbn. auto.
  - intros He Hwf Hv H2.
    destruct (st_err (addl f1 (Some b1) l (i, Some j) verb (l_token l))) eqn:E.
    { exfalso. revert He. apply block_lines_errs_mono. unfold add_err. rewrite E. discriminate. }
    unfold add_err in *. rewrite E in *.
    set (s1 := addl f1 (Some b1) l (i, Some j) verb (l_token l)) in *.
    rewrite block_lines_acc in He, Hwf, H2. cbn [fst snd] in He, Hwf, H2.
    rewrite frev_rev in H2. cbn [rev app] in H2.
    assert (Hwf1 : wfF (st_file s1)) by (eapply wfF_ext; [|exact Hwf]; apply g_block_lines_ext).
    inversion H2 as [|y1 l2 ys1 ls2' (Htok & Hctx) Hrest]; subst. cbn [block_lines].
    cbn [line_set_token l_token] in Htok.
    pose proof (ctx_set_token (Some b1) (Some b1') l (st_args s1) l2 (Some b2) Hbc Hctx) as Hctx'.
    destruct (addl_sim f1 f2 (Some b1) (Some b2) l l2 (i, Some j) (i2, Some j2) verb (l_token l) E Hv Hctx' Hwf1)
      as (E2 & A2 & V2 & _). fold s1 in E2, A2, V2.
    unfold add_err. rewrite Htok, E2.
    rewrite (block_lines_acc _ i ls1 (S j) (st_file s1) [] [_]). cbn [fst snd].
    apply (IH (S j) (st_file s1) ls2' (S j2) _ _ He Hwf); [symmetry; exact V2|exact Hrest].
Qed.

Lemma g_step_sim i i2 x1 x2 S1 S2 :
  lp_errs_r (gstep i x1 S1) = [] -> lp_panic (gstep i x1 S1) = false -> wfF (lp_file (gstep i x1 S1)) ->
  gsim S1 S2 ->
  exists y1, lp_stmts_r (gstep i x1 S1) = y1 :: lp_stmts_r S1 /\
    (yrel y1 x2 -> gsim (gstep i x1 S1) (gstep i2 x2 S2)).
Proof.
  unfold gstep, stmt_step. intros He Hp Hwf (Hv & He2 & Hp2).
  destruct x1 as [l|b|c].
  - destruct (l_token l) as [|verb args] eqn:Et; cbn [lp_panic lp_errs_r lp_file lp_stmts_r] in *; [discriminate|].
    eexists. split; [reflexivity|]. intros Hy. destruct x2 as [l2|b2|c2]; try contradiction.
    destruct Hy as (Htok & Hctx). cbn [line_set_token l_token] in Htok. rewrite Htok.
    apply add_err_nil in He as (E & He1).
    pose proof (ctx_set_token None None l _ l2 None I Hctx) as Hctx'.
    destruct (addl_sim (lp_file S1) (lp_file S2) None None l l2 (i, None) (i2, None) verb args E Hv Hctx' Hwf) as (E2 & A2 & V2 & _).
    unfold gsim. cbn [lp_file lp_errs_r lp_panic]. unfold add_err. rewrite E2. split; [symmetry; exact V2|auto].
  - destruct (b_token b) as [|verb [|v2 r]] eqn:Et; cbn [lp_panic lp_errs_r lp_file lp_stmts_r] in *; try discriminate.
    destruct (known verb) eqn:Ek; cbn [lp_panic lp_errs_r lp_file lp_stmts_r] in *; [|discriminate].
    assert (He1 : lp_errs_r S1 = []).
    { destruct (lp_errs_r S1) eqn:Ee; [reflexivity|]. exfalso.
      pose proof (block_lines_errs_mono (fun f l ref args => addl f (Some b) l ref verb args) i (b_line b) O (lp_file S1) (p :: l) []
                    ltac:(discriminate)) as Hm.
      destruct (block_lines _ i O (b_line b) (lp_file S1) (p :: l) []) as [[f' e'] ls']. cbn in *. congruence. }
    rewrite He1 in *.
    destruct (block_lines (fun f l ref args => addl f (Some b) l ref verb args) i O (b_line b) (lp_file S1) [] [])
      as [[f' e'] ls'] eqn:Ebl. cbn [lp_panic lp_errs_r lp_file lp_stmts_r] in *.
    eexists. split; [reflexivity|]. intros Hy. destruct x2 as [l2|b2|c2]; try contradiction.
    destruct Hy as (Htok & Hls). cbn [b_token b_line] in Htok, Hls. rewrite Htok, Ek, He2.
    pose proof (g_block_lines_sim b _ b2 verb i i2 eq_refl (b_line b) O (lp_file S1) (b_line b2) O (lp_file S2) []) as Hs.
    cbv zeta in Hs. rewrite Ebl in Hs. cbn [fst snd] in Hs. specialize (Hs He Hwf Hv Hls).
    destruct (block_lines _ i2 O (b_line b2) (lp_file S2) [] []) as [[f2' e2'] ls2']. cbn [fst snd] in Hs.
    unfold gsim. cbn [lp_file lp_errs_r lp_panic]. destruct Hs as (A & B). auto.
  - cbn [lp_panic lp_errs_r lp_file lp_stmts_r] in *. eexists. split; [reflexivity|]. intros Hy.
    destruct x2 as [l2|b2|c2]; try contradiction. unfold gsim. cbn [lp_file lp_errs_r lp_panic]. auto.
Qed.

Lemma g_loop_stmts : forall xs i st, exists ys,
  lp_stmts_r (stmts_loop gstep i xs st) = rev ys ++ lp_stmts_r st /\ length ys = length xs.
Proof.
  induction xs as [|x xs IH]; intros i st; cbn [stmts_loop]; [exists []; auto|].
  destruct (IH (S i) (gstep i x st)) as (ys & E & L).
  assert (Hx : exists y, lp_stmts_r (gstep i x st) = y :: lp_stmts_r st).
  { unfold gstep, stmt_step. destruct x as [l|b|c]; cbn [lp_stmts_r]; eauto.
    - destruct (l_token l); cbn [lp_stmts_r]; eauto.
    - destruct (b_token b) as [|verb [|v2 r]]; cbn [lp_stmts_r]; eauto.
      destruct (known verb); cbn [lp_stmts_r]; eauto.
      destruct (block_lines _ i O (b_line b) (lp_file st) (lp_errs_r st) []) as [[f' e'] ls']. cbn [lp_stmts_r]. eauto. }
  destruct Hx as (y & Ey). exists (y :: ys). rewrite E, Ey. cbn [rev length]. rewrite <- app_assoc. split; [reflexivity|lia].
Qed.

Lemma g_loop_sim : forall xs1 i S1 ys xs2 i2 S2,
  let Sf := stmts_loop gstep i xs1 S1 in
  lp_errs_r Sf = [] -> lp_panic Sf = false -> wfF (lp_file Sf) ->
  lp_stmts_r Sf = rev ys ++ lp_stmts_r S1 -> Forall2 yrel ys xs2 -> gsim S1 S2 ->
  gsim Sf (stmts_loop gstep i2 xs2 S2).
Proof.
  induction xs1 as [|x xs1 IH]; intros i S1 ys xs2 i2 S2; cbv zeta; cbn [stmts_loop]; intros He Hp Hwf Hst Hy Hs.
  - assert (ys = []).
    { apply (f_equal (@length expr)) in Hst. rewrite app_length, rev_length in Hst. destruct ys; [reflexivity|cbn in Hst; lia]. }
    subst ys. inversion Hy; subst. exact Hs.
  - set (S1' := gstep i x S1) in *.
    assert (He1 : lp_errs_r S1' = []).
    { destruct (lp_errs_r S1') eqn:E; [reflexivity|]. exfalso. revert He. apply g_loop_errs. rewrite E. discriminate. }
    assert (Hp1 : lp_panic S1' = false).
    { destruct (lp_panic S1') eqn:E; [|reflexivity]. rewrite (g_loop_panic xs1 (S i) S1' E) in Hp. discriminate. }
    assert (Hwf1 : wfF (lp_file S1')) by (eapply wfF_ext; [apply (g_loop_ext xs1 (S i) S1')|exact Hwf]).
    destruct (g_loop_stmts xs1 (S i) S1') as (ys' & E' & L').
    destruct ys as [|y ys0].
    { exfalso. rewrite Hst in E'. cbn [rev app] in E'.
      destruct (g_step_sim i i2 x (ECommentBlock (mkCommentBlock no_comments zero_pos)) S1 S2 He1 Hp1 Hwf1 Hs) as (y1 & Ey1 & _).
      fold S1' in Ey1. rewrite Ey1 in E'. apply (f_equal (@length expr)) in E'. rewrite app_length, rev_length in E'. cbn [length] in E'. lia. }
    destruct xs2 as [|x2 xs2']; [inversion Hy|]. inversion Hy as [|? ? ? ? Hy1 Hyr]; subst.
    destruct (g_step_sim i i2 x x2 S1 S2 He1 Hp1 Hwf1 Hs) as (y1 & Ey1 & Hsim). fold S1' in Ey1, Hsim.
    assert (Eyy : y1 = y /\ ys' = ys0).
    { rewrite Hst in E'. rewrite Ey1 in E'. cbn [rev] in E'. rewrite <- app_assoc in E'. cbn [app] in E'.
      assert (Hl : length (rev ys0) = length (rev ys')).
      { apply (f_equal (@length expr)) in E'. rewrite !app_length in E'. cbn [length] in E'. lia. }
      destruct (app_same_len _ _ _ _ E' ltac:(cbn [length]; reflexivity)) as (A & B).
      injection B as ->. split; [reflexivity|]. apply (f_equal (@rev expr)) in A. rewrite !rev_involutive in A. congruence. }
    destruct Eyy as (-> & ->). cbn [stmts_loop].
    apply (IH (S i) S1' ys0 xs2' (S i2) (gstep i2 x2 S2)); auto.
Qed.

(* the rebuilt statements *)
Lemma g_add_tsub f blk l ref verb args :
  st_err (addl f blk l ref verb args) = false -> wfF (st_file (addl f blk l ref verb args)) ->
  Forall2 tsub args (st_args (addl f blk l ref verb args)).
Proof.
  intros E Hwf. destruct (addl_sim f f blk blk l l ref ref verb args E eq_refl (ctx_eq_refl blk l) Hwf) as (_ & _ & _ & H). exact H.
Qed.

Lemma g_block_lines_rb blk verb i : forall ls j f,
  let r := block_lines (fun f l ref args => addl f blk l ref verb args) i j ls f [] [] in
  snd (fst r) = [] -> wfF (fst (fst r)) -> Forall2 rbl ls (snd r).
Proof.
  induction ls as [|l ls IH]; intros j f; cbv zeta; cbn [block_lines]; intros He Hwf; [constructor|].
  destruct (st_err (addl f blk l (i, Some j) verb (l_token l))) eqn:E.
  { exfalso. revert He. apply block_lines_errs_mono. unfold add_err. rewrite E. discriminate. }
  unfold add_err in *. rewrite E in *. rewrite block_lines_acc in He, Hwf |- *. cbn [fst snd] in *.
  rewrite frev_rev. cbn [rev app]. constructor.
  - split; [reflexivity|]. cbn [line_set_token l_token]. apply g_add_tsub; [exact E|].
    eapply wfF_ext; [|exact Hwf]. apply g_block_lines_ext.
  - apply IH; assumption.
Qed.

Lemma g_step_rb i x S1 :
  lp_errs_r (gstep i x S1) = [] -> lp_panic (gstep i x S1) = false -> wfF (lp_file (gstep i x S1)) ->
  exists y, lp_stmts_r (gstep i x S1) = y :: lp_stmts_r S1 /\ rb x y.
Proof.
  unfold gstep, stmt_step. intros He Hp Hwf.
  destruct x as [l|b|c].
  - destruct (l_token l) as [|verb args] eqn:Et; cbn [lp_panic lp_errs_r lp_file lp_stmts_r] in *; [discriminate|].
    eexists. split; [reflexivity|]. apply add_err_nil in He as (E & _).
    eexists. split; [reflexivity|]. split; [reflexivity|]. cbn [line_set_token l_token]. rewrite Et.
    constructor; [apply tsub_refl|]. apply g_add_tsub; assumption.
  - destruct (b_token b) as [|verb [|v2 r]] eqn:Et; cbn [lp_panic lp_errs_r lp_file lp_stmts_r] in *; try discriminate.
    destruct (known verb) eqn:Ek; cbn [lp_panic lp_errs_r lp_file lp_stmts_r] in *; [|discriminate].
    assert (He1 : lp_errs_r S1 = []).
    { destruct (lp_errs_r S1) eqn:Ee; [reflexivity|]. exfalso.
      pose proof (block_lines_errs_mono (fun f l ref args => addl f (Some b) l ref verb args) i (b_line b) O (lp_file S1) (p :: l) []
                    ltac:(discriminate)) as Hm.
      destruct (block_lines _ i O (b_line b) (lp_file S1) (p :: l) []) as [[f' e'] ls']. cbn in *. congruence. }
    rewrite He1 in *.
    pose proof (g_block_lines_rb (Some b) verb i (b_line b) O (lp_file S1)) as Hrb. cbv zeta in Hrb.
    destruct (block_lines (fun f l ref args => addl f (Some b) l ref verb args) i O (b_line b) (lp_file S1) [] [])
      as [[f' e'] ls'] eqn:Ebl. cbn [lp_panic lp_errs_r lp_file lp_stmts_r fst snd] in *.
    eexists. split; [reflexivity|]. exists ls'. rewrite Et. split; [reflexivity|]. apply Hrb; assumption.
  - cbn [lp_stmts_r]. eexists. split; [reflexivity|]. reflexivity.
Qed.

Lemma g_loop_rb : forall xs i S1,
  let Sf := stmts_loop gstep i xs S1 in
  lp_errs_r Sf = [] -> lp_panic Sf = false -> wfF (lp_file Sf) ->
  exists ys, lp_stmts_r Sf = rev ys ++ lp_stmts_r S1 /\ Forall2 rb xs ys.
Proof.
  induction xs as [|x xs IH]; intros i S1; cbv zeta; cbn [stmts_loop]; intros He Hp Hwf.
  - exists []. split; [reflexivity|constructor].
  - set (S1' := gstep i x S1) in *.
    assert (He1 : lp_errs_r S1' = []).
    { destruct (lp_errs_r S1') eqn:E; [reflexivity|]. exfalso. revert He. apply g_loop_errs. rewrite E. discriminate. }
    assert (Hp1 : lp_panic S1' = false).
    { destruct (lp_panic S1') eqn:E; [|reflexivity]. rewrite (g_loop_panic xs (S i) S1' E) in Hp. discriminate. }
    assert (Hwf1 : wfF (lp_file S1')) by (eapply wfF_ext; [apply (g_loop_ext xs (S i) S1')|exact Hwf]).
    destruct (g_step_rb i x S1 He1 Hp1 Hwf1) as (y & Ey & Hy). fold S1' in Ey.
    destruct (IH (S i) S1' He Hp Hwf) as (ys & Eys & Hys).
    exists (y :: ys). split; [rewrite Eys, Ey; cbn [rev]; rewrite <- app_assoc; reflexivity|constructor; assumption].
Qed.
End Generic.

(* ---------------------------------------------------------------- go.work *)

Definition valsW (f : work_file) :=
  (option_map go_version (wf_go f), option_map tc_name (wf_toolchain f),
   map (fun g => (gd_key g, gd_value g)) (wf_godebug f),
   map (fun u => (us_path u, us_module_path u)) (wf_use f),
   map rep_vals (wf_replace f)).

Definition wf_work (f : work_file) : Prop :=
  Forall (fun u => path_ok (us_path u)) (wf_use f) /\ Forall wf_rep (wf_replace f).

Definition extW (f f' : work_file) : Prop :=
  (exists x, wf_use f' = wf_use f ++ x) /\ (exists x, wf_replace f' = wf_replace f ++ x).

Lemma extW_refl f : extW f f.
Proof. split; exists []; symmetry; apply app_nil_r. Qed.

Lemma extW_trans a b c : extW a b -> extW b c -> extW a c.
Proof.
  intros ((u1 & U1) & (r1 & R1)) ((u2 & U2) & (r2 & R2)). split; eexists; [rewrite U2, U1|rewrite R2, R1]; rewrite <- app_assoc; reflexivity.
Qed.

Lemma wfW_ext f f' : extW f f' -> wf_work f' -> wf_work f.
Proof.
  intros ((u & U) & (r & R)) (W1 & W2). rewrite U in W1. rewrite R in W2. apply Forall_app in W1, W2. split; tauto.
Qed.

Section Work.
Variable fx : fixer.
Hypothesis Hfx : fixer_ok fx.

Definition addw (f : work_file) (_ : option line_block) (l : line) (ref : line_ref) (verb : str) (args : list str) :=
  add_work fx f l ref verb args.

Ltac extw_solve := split; first [exists []; symmetry; apply app_nil_r | eexists; reflexivity].

Lemma addw_ext f blk l ref verb args : extW f (st_file (addw f blk l ref verb args)).
Proof.
  unfold addw, add_work.
  destruct (is_verb verb "go").
  { unfold add_go. destruct (wf_go f); [apply extW_refl|]. destruct args as [|a [|a' r]]; try apply extW_refl.
    destruct (go_version_re a); [|apply extW_refl]. cbn. extw_solve. }
  destruct (is_verb verb "toolchain").
  { unfold add_toolchain. destruct (wf_toolchain f); [apply extW_refl|]. destruct args as [|a [|a' r]]; try apply extW_refl.
    destruct (toolchain_re a); [|apply extW_refl]. cbn. extw_solve. }
  destruct (is_verb verb "godebug").
  { unfold add_godebug. destruct args as [|a [|a' r]]; try apply extW_refl.
    destruct (contains_any a [34; 96; 39; 44]); [apply extW_refl|]. destruct (cut_eq a) as [[k v]|]; [|apply extW_refl]. cbn. extw_solve. }
  destruct (is_verb verb "use").
  { destruct args as [|a [|a' r]]; try apply extW_refl. destruct (parse_string a) as [[s tok]|]; [|apply extW_refl]. cbn. extw_solve. }
  destruct (is_verb verb "replace").
  { destruct (parse_replace fx verb ref args) as [a' [r|]]; [|apply extW_refl]. cbn. extw_solve. }
  apply extW_refl.
Qed.

Lemma addw_sim f1 f2 (blk1 blk2 : option line_block) l1 l2 ref1 ref2 verb args :
  st_err (addw f1 blk1 l1 ref1 verb args) = false -> valsW f1 = valsW f2 -> ctx_eq blk1 l1 blk2 l2 ->
  wf_work (st_file (addw f1 blk1 l1 ref1 verb args)) ->
  let args' := st_args (addw f1 blk1 l1 ref1 verb args) in
  st_err (addw f2 blk2 l2 ref2 verb args') = false /\
  st_args (addw f2 blk2 l2 ref2 verb args') = args' /\
  valsW (st_file (addw f2 blk2 l2 ref2 verb args')) = valsW (st_file (addw f1 blk1 l1 ref1 verb args)) /\
  Forall2 tsub args args'.
Proof.
  destruct Hfx as (Hi & Hnp). intros He Hv _ Hwf. cbv zeta. unfold addw in *.
  pose proof Hv as Hv'. unfold valsW in Hv'. injection Hv' as Vgo Vtc Vgd Vus Vrp.
  unfold add_work in *.
  destruct (is_verb verb "go") eqn:Vg.
  { unfold add_go in *. pose proof (opt_none_iff _ _ _ Vgo) as Hpres.
    destruct (wf_go f1) as [g1|] eqn:Eg1; [discriminate|]. destruct (wf_go f2) as [g2|] eqn:Eg2; [destruct Hpres as (Hp & _); discriminate (Hp eq_refl)|].
    destruct args as [|a [|a' r]]; try discriminate.
    destruct (go_version_re a) eqn:Er; [|discriminate].
    cbn [ok_step st_err st_args st_file]. rewrite Er. cbn [ok_step st_err st_args st_file].
    split; [reflexivity|]. split; [reflexivity|]. split; [|apply tsub_all_refl].
    unfold valsW. cbn. rewrite Vtc, Vgd, Vus, Vrp. reflexivity. }
  destruct (is_verb verb "toolchain") eqn:Vt.
  { unfold add_toolchain in *. pose proof (opt_none_iff _ _ _ Vtc) as Hpres.
    destruct (wf_toolchain f1) as [g1|] eqn:Eg1; [discriminate|]. destruct (wf_toolchain f2) as [g2|] eqn:Eg2; [destruct Hpres as (Hp & _); discriminate (Hp eq_refl)|].
    destruct args as [|a [|a' r]]; try discriminate.
    destruct (toolchain_re a) eqn:Er; [|discriminate].
    cbn [ok_step st_err st_args st_file]. rewrite Er. cbn [ok_step st_err st_args st_file].
    split; [reflexivity|]. split; [reflexivity|]. split; [|apply tsub_all_refl].
    unfold valsW. cbn. rewrite Vgo, Vgd, Vus, Vrp. reflexivity. }
  destruct (is_verb verb "godebug") eqn:Vd.
  { unfold add_godebug in *.
    destruct args as [|a [|a' r]]; try discriminate.
    destruct (contains_any a [34; 96; 39; 44]) eqn:Ec; [discriminate|].
    destruct (cut_eq a) as [[k v]|] eqn:Eq; [|discriminate].
    cbn [ok_step st_err st_args st_file]. rewrite Ec, Eq. cbn [ok_step st_err st_args st_file].
    split; [reflexivity|]. split; [reflexivity|]. split; [|apply tsub_all_refl].
    unfold valsW. cbn. rewrite !map_app. cbn. rewrite Vgo, Vtc, Vgd, Vus, Vrp. reflexivity. }
  destruct (is_verb verb "use") eqn:Vu.
  { destruct args as [|a [|a' r]]; try discriminate.
    destruct (parse_string a) as [[s tok]|] eqn:Ep; [|discriminate].
    cbn [ok_step st_err st_args st_file] in *.
    assert (Hs : path_ok s).
    { destruct Hwf as (Hu & _). cbn [wf_with_use wf_use] in Hu. apply Forall_last in Hu. exact Hu. }
    destruct (parse_string_fix _ _ _ Ep Hs) as (R & _). rewrite R. cbn [ok_step st_err st_args st_file].
    split; [reflexivity|]. split; [reflexivity|]. split; [|constructor; [eapply tsub_string; eauto|constructor]].
    unfold valsW. cbn. rewrite !map_app. cbn. rewrite Vgo, Vtc, Vgd, Vus, Vrp. reflexivity. }
  destruct (is_verb verb "replace") eqn:Vp.
  { destruct (parse_replace fx verb ref1 args) as [args1 r1] eqn:Epr. destruct r1 as [r1|]; [|discriminate].
    cbn [ok_step st_err st_args st_file] in *.
    assert (Hw : wf_rep r1).
    { destruct Hwf as (_ & Hrp). cbn [wf_with_replace wf_replace] in Hrp. apply Forall_last in Hrp. exact Hrp. }
    destruct (pr_fix fx verb ref1 ref2 args args1 r1 Epr Hw (conj Hi Hnp)) as (r2 & E2 & Er & Hts).
    rewrite E2. cbn [ok_step st_err st_args st_file].
    split; [reflexivity|]. split; [reflexivity|]. split; [|exact Hts].
    unfold valsW. cbn. rewrite !map_app. cbn. rewrite Er, Vgo, Vtc, Vgd, Vus, Vrp. reflexivity. }
  discriminate.
Qed.

Notation wstep := (gstep work_file addw known_work_block).

Lemma work_of_syntax_eq syn : work_of_syntax fx syn =
  let st := stmts_loop wstep O (f_stmt syn) (mkLS (empty_work syn) [] [] false) in
  let f1 := Directives.wf_with_syntax (lp_file st) (mkFile (f_name syn) (f_comments syn) (frev (lp_stmts_r st))) in
  if lp_panic st then DPanic else match lp_errs_r st with [] => DOk f1 | errs_r => DErrs (frev errs_r) end.
Proof. reflexivity. Qed.

Theorem format_preserves_directives_work data f :
  parse_work fx data = DOk f -> wf_work f ->
  exists f', parse_work fx (format (wf_syntax f)) = DOk f' /\ valsW f' = valsW f.
Proof.
  unfold parse_work. intros H Hwf. destruct (parse data) as [s| | |] eqn:Hp; try discriminate. cbn [lift_parse] in H.
  destruct (parse_wf2 data s Hp) as (a & Hz & Hok & Hsi).
  rewrite work_of_syntax_eq in H. cbv zeta in H.
  set (st := stmts_loop wstep O (f_stmt s) (mkLS (empty_work s) [] [] false)) in *.
  destruct (lp_panic st) eqn:Hpn; [discriminate|]. destruct (lp_errs_r st) eqn:He; [|discriminate]. injection H as Ef.
  assert (Hwf' : wf_work (lp_file st)) by (rewrite <- Ef in Hwf; exact Hwf).
  destruct (g_loop_rb work_file _ addw known_work_block valsW wf_work extW extW_refl extW_trans wfW_ext addw_ext addw_sim
              (f_stmt s) O (mkLS (empty_work s) [] [] false) He Hpn Hwf') as (ys & Eys & Hrb).
  fold st in Eys. cbn [lp_stmts_r] in Eys. rewrite app_nil_r in Eys.
  assert (Hzs : map zexpr (f_stmt s) = map estmt a) by (apply (f_equal f_stmt) in Hz; exact Hz).
  destruct (rb_lean_all (f_stmt s) ys a Hrb Hzs Hok Hsi) as (a' & Ea' & Hok' & Hsi').
  assert (HzF : zfile (wf_syntax f) = efile a').
  { rewrite <- Ef. cbn [Directives.wf_with_syntax wf_syntax]. unfold zfile, efile. cbn [f_name f_comments f_stmt].
    rewrite frev_rev, Eys, rev_involutive, Ea'.
    assert (En : f_name s = []) by (apply (f_equal f_name) in Hz; exact Hz).
    assert (Ec : zcs (f_comments s) = no_comments) by (apply (f_equal f_comments) in Hz; exact Hz).
    rewrite En, Ec. reflexivity. }
  assert (Hfmt : format (wf_syntax f) = RoundPrint.render (file_pls a')) by (rewrite <- format_zfile, HzF; apply format_efile; exact Hok').
  destruct (reparse a' Hok') as (s2 & Hp2 & Hz2 & _).
  rewrite Hfmt, Hp2. cbn [lift_parse].
  assert (Hy : Forall2 yrel ys (f_stmt s2)).
  { apply (yrel_lean_all ys (f_stmt s2) a'); auto. apply (f_equal f_stmt) in Hz2. exact Hz2. }
  pose proof (g_loop_sim work_file _ addw known_work_block valsW wf_work extW extW_refl extW_trans wfW_ext addw_ext addw_sim
                (f_stmt s) O (mkLS (empty_work s) [] [] false) ys (f_stmt s2) O (mkLS (empty_work s2) [] [] false)) as Hs.
  cbv zeta in Hs. fold st in Hs.
  specialize (Hs He Hpn Hwf' ltac:(cbn [lp_stmts_r]; rewrite app_nil_r; exact Eys) Hy ltac:(split; [reflexivity|split; reflexivity])).
  destruct Hs as (Hv & He2 & Hp2').
  rewrite work_of_syntax_eq. cbv zeta. rewrite Hp2', He2. eexists. split; [reflexivity|].
  rewrite <- Ef. unfold valsW in *. cbn [Directives.wf_with_syntax wf_go wf_toolchain wf_godebug wf_use wf_replace]. symmetry. exact Hv.
Qed.
End Work.
