(* Round trip, part 4b: the whole-line/end-of-line decision for comments.  The lexer looks
   back to the last line feed and asks whether anything but white space stands there
   (has_non_space (line_so_far st)); [dinv st d] ties that to one bit [d] that the pure
   lexer carries along: "a token has been delivered since the last line feed".
   Result: [read_token_pure], read_token computes ptoken. *)
From Verif.Base Require Import Bytes Utf8.
From Verif.Gen Require Import GenChars GenUnicode.
From Verif.Modfile Require Import Syntax Lex ProofsLex ProofsLexNoLF RoundLexPure.

(* ---------------------------------------------------------------- decode and its context *)

Definition ascii_head (s : str) : Prop := match s with [] => True | b :: _ => b < 128 end.

Lemma ascii_not_cont c : c < 128 -> cont c = false.
Proof. intros H. unfold cont. destruct (Z.leb_spec 128 c); [lia|reflexivity]. Qed.

Lemma ascii_not_ge c lo : c < 128 -> 128 <= lo -> (lo <=? c) = false.
Proof. intros. apply Z.leb_gt. lia. Qed.

Ltac hyp_norm H Hw :=
  repeat match type of H with
  | (if ?c then _ else _) = _ =>
      let E := fresh "E" in destruct c eqn:E; [injection H as <- <-; cbn [length] in Hw; lia|]
  end.

Ltac goal_new H b0 r2 Ha :=
  let c2 := fresh "c2" in let d2 := fresh "d2" in let e2 := fresh "e2" in
  destruct r2 as [|c2 [|d2 [|e2 r2]]]; cbn [app]; try exact H;
  cbn in Ha;
  rewrite ?(ascii_not_cont c2 Ha), ?andb_false_r; cbn [andb]; try exact H;
  (rewrite (ascii_not_ge c2) by (try destruct (b0 =? 224); try destruct (b0 =? 240); lia)); cbn [andb]; exact H.

(* a rune that was decoded inside x is decoded the same way whatever follows x, as long as
   no continuation byte follows *)
Lemma decode_transport x r1 r2 r w :
  x <> [] -> Utf8.decode (x ++ r1) = (r, w) -> (w <= length x)%nat -> ascii_head r2 ->
  Utf8.decode (x ++ r2) = (r, w).
Proof.
  destruct x as [|b0 x]; [congruence|]. intros _. cbn [app]. unfold Utf8.decode.
  destruct (b0 <? 128); [auto|].
  destruct ((194 <=? b0) && (b0 <=? 223)).
  { destruct x as [|b1 x]; cbn [app length]; [|auto]. intros H Hw Ha.
    destruct r1 as [|c1 r1]; cbn [app] in H; hyp_norm H Hw; goal_new H b0 r2 Ha. }
  destruct ((224 <=? b0) && (b0 <=? 239)).
  { destruct x as [|b1 [|b2 x]]; cbn [app length]; [| |auto]; intros H Hw Ha.
    - destruct r1 as [|c1 [|d1 r1]]; cbn [app] in H; hyp_norm H Hw; goal_new H b0 r2 Ha.
    - destruct r1 as [|c1 r1]; cbn [app] in H; hyp_norm H Hw; goal_new H b0 r2 Ha. }
  destruct ((240 <=? b0) && (b0 <=? 244)); [|auto].
  destruct x as [|b1 [|b2 [|b3 x]]]; cbn [app length]; [| | |auto]; intros H Hw Ha.
  - destruct r1 as [|c1 [|d1 [|e1 r1]]]; cbn [app] in H; hyp_norm H Hw; goal_new H b0 r2 Ha.
  - destruct r1 as [|c1 [|d1 r1]]; cbn [app] in H; hyp_norm H Hw; goal_new H b0 r2 Ha.
  - destruct r1 as [|c1 r1]; cbn [app] in H; hyp_norm H Hw; goal_new H b0 r2 Ha.
Qed.

Lemma decode_truncate x r1 r w :
  x <> [] -> Utf8.decode (x ++ r1) = (r, w) -> (w <= length x)%nat -> Utf8.decode x = (r, w).
Proof.
  intros Hx H Hw. pose proof (decode_transport x r1 [] r w Hx H Hw I) as H'. rewrite app_nil_r in H'. exact H'.
Qed.

(* ---------------------------------------------------------------- runes of a piece of the input *)

(* x, read rune by rune with [tail] behind it, consists of the runes rs *)
Inductive rsplit : str -> str -> list Z -> Prop :=
| rsp_nil tail : rsplit [] tail []
| rsp_cons x tail r w rs :
    x <> [] -> Utf8.decode (x ++ tail) = (r, w) -> (w <= length x)%nat ->
    rsplit (skipn w x) tail rs -> rsplit x tail (r :: rs).

Lemma runes_w_rsplit : forall x tail rs, rsplit x tail rs -> forall n, (length x <= n)%nat ->
  map fst (runes_w n x) = rs.
Proof.
  induction 1 as [tail|x tail r w rs Hx Hd Hw Hs IH]; intros n Hn.
  - destruct n; reflexivity.
  - destruct n as [|n]; [destruct x; [congruence|cbn in Hn; lia]|].
    cbn [runes_w]. destruct x as [|b x']; [congruence|].
    rewrite (decode_truncate _ _ _ _ Hx Hd Hw). cbn [map fst]. f_equal.
    assert (Hne : (b :: x') ++ tail <> []) by discriminate.
    pose proof (decode_width _ _ _ Hne Hd) as Hw1.
    apply IH. rewrite skipn_length. cbn [length] in *. lia.
Qed.

Lemma runes_rsplit x tail rs : rsplit x tail rs -> Utf8.runes x = rs.
Proof. intros H. unfold Utf8.runes. eapply runes_w_rsplit; eauto. Qed.

Lemma rsplit_snoc : forall x tail0 rs, rsplit x tail0 rs -> forall bs tail r,
  tail0 = bs ++ tail -> bs <> [] -> Utf8.decode (bs ++ tail) = (r, length bs) ->
  rsplit (x ++ bs) tail (rs ++ [r]).
Proof.
  induction 1 as [tail0|x tail0 r0 w rs Hx Hd Hw Hs IH]; intros bs tail r -> Hbs Hdb.
  - cbn [app]. eapply rsp_cons; [exact Hbs|exact Hdb|lia|]. rewrite skipn_all. constructor.
  - cbn [app]. eapply rsp_cons.
    + destruct x; [congruence|discriminate].
    + rewrite <- app_assoc. exact Hd.
    + rewrite app_length. lia.
    + rewrite skipn_app. replace (w - length x)%nat with O by lia. cbn [skipn].
      apply (IH bs tail r eq_refl Hbs Hdb).
Qed.

(* ---------------------------------------------------------------- the look-back of the lexer *)

Definition nonsp (r : Z) : bool := negb (unicode_IsSpace r).

Definition dstate (st : lstate) (rs : list Z) : Prop := rsplit (line_so_far st) (ls_rem st) rs.

Lemma has_non_space_dstate st rs : dstate st rs -> has_non_space (line_so_far st) = existsb nonsp rs.
Proof. intros H. unfold has_non_space. rewrite (runes_rsplit _ _ _ H). reflexivity. Qed.

Lemma span_all_app (p : Z -> bool) a b : Forall (fun c => p c = true) a ->
  span p (a ++ b) = (a ++ fst (span p b), snd (span p b)).
Proof.
  induction 1 as [|c a Hc Ha IH]; cbn [app span]; [destruct (span p b); reflexivity|].
  rewrite Hc, IH. reflexivity.
Qed.

Lemma count_lf_0 s : count_lf s = 0 -> Forall (fun c => negb (c =? 10) = true) s.
Proof.
  induction s as [|c s IH]; intros H; [constructor|]. unfold count_lf in *. cbn [filter] in H.
  destruct (c =? 10) eqn:E; [cbn [length] in H; lia|]. constructor; [rewrite E; reflexivity|apply IH; exact H].
Qed.

Lemma read_rune_line data st r st' : linv data st -> read_rune st = Some (r, st') ->
  exists bs, bs <> [] /\ ls_rem st = bs ++ ls_rem st' /\ Utf8.decode (ls_rem st) = (r, length bs) /\
    (r <> 10 -> line_so_far st' = line_so_far st ++ bs /\ count_lf bs = 0) /\
    (r = 10 -> line_so_far st' = [] /\ bs = [10]).
Proof.
  intros Hi Hr. unfold read_rune in Hr. destruct (ls_rem st) as [|c t] eqn:E; [discriminate|]. rewrite <- E in *.
  assert (Hne : ls_rem st <> []) by (rewrite E; discriminate).
  destruct (Utf8.decode (ls_rem st)) as [r0 w] eqn:Hd. injection Hr as <- <-.
  pose proof (decode_width _ _ _ Hne Hd) as Hw. pose proof (decode_lf _ _ _ Hne Hd) as Hlf.
  exists (firstn w (ls_rem st)). cbn [ls_rem ls_done].
  split; [destruct (ls_rem st); [congruence|]; destruct w; [lia|discriminate]|].
  split; [symmetry; apply firstn_skipn|]. split; [rewrite firstn_length; replace (Nat.min w _) with w by lia; reflexivity|].
  unfold line_so_far. cbn [ls_done]. rewrite rev_append_rev. split.
  - intros Hr. destruct (Z.eqb_spec r0 10); [contradiction|]. split; [|exact Hlf].
    rewrite span_all_app by (apply Forall_rev; apply count_lf_0; exact Hlf). cbn [fst].
    rewrite !frev_rev, rev_app_distr, rev_involutive. reflexivity.
  - intros ->. destruct (decode_small _ _ _ Hne Hd ltac:(lia)) as (-> & t' & Et). rewrite Et. cbn. split; reflexivity.
Qed.

Lemma read_rune_dstate data st r st' rs : linv data st -> dstate st rs -> read_rune st = Some (r, st') ->
  (r <> 10 -> dstate st' (rs ++ [r])) /\ (r = 10 -> dstate st' []).
Proof.
  intros Hi Hd Hr. destruct (read_rune_line _ _ _ _ Hi Hr) as (bs & Hbs & Erem & Hdec & H1 & H2).
  unfold dstate in *. split.
  - intros Hne. destruct (H1 Hne) as (-> & _). eapply rsplit_snoc; eauto. rewrite <- Erem. exact Hdec.
  - intros He. destruct (H2 He) as (-> & _). constructor.
Qed.

(* [dinv st d]: the look-back at st answers d (irrelevant once the input is exhausted) *)
Definition dinv (st : lstate) (d : bool) : Prop :=
  ls_rem st = [] \/ exists rs, dstate st rs /\ existsb nonsp rs = d.

(* "dirty": some rune since the last line feed is not white space *)
Definition dirty (st : lstate) : Prop := exists rs, dstate st rs /\ existsb nonsp rs = true.

Lemma dirty_dinv st : dirty st -> dinv st true.
Proof. intros H. right. exact H. Qed.

Lemma dinv_init data : dinv (init_state data) false.
Proof. right. exists []. split; [constructor|reflexivity]. Qed.

Lemma dinv_has st d : dinv st d -> ls_rem st <> [] -> has_non_space (line_so_far st) = d.
Proof. intros [H|(rs & H & E)] Hne; [congruence|]. rewrite (has_non_space_dstate _ _ H). exact E. Qed.

Lemma existsb_snoc {A} (p : A -> bool) l x : existsb p (l ++ [x]) = existsb p l || p x.
Proof. rewrite existsb_app. cbn. rewrite orb_false_r. reflexivity. Qed.

Lemma read_rune_dirty data st r st' : linv data st -> dirty st -> read_rune st = Some (r, st') -> r <> 10 -> dirty st'.
Proof.
  intros Hi (rs & Hd & E) Hr Hne. destruct (read_rune_dstate _ _ _ _ _ Hi Hd Hr) as (H1 & _).
  exists (rs ++ [r]). split; [apply H1; exact Hne|]. rewrite existsb_snoc, E. reflexivity.
Qed.

(* the first rune of a token *)
Lemma read_rune_first data st d r st' : linv data st -> dinv st d -> read_rune st = Some (r, st') ->
  r <> 10 -> nonsp r = true -> dirty st'.
Proof.
  intros Hi [He|(rs & Hd & E)] Hr Hne Hns.
  - unfold read_rune in Hr. rewrite He in Hr. discriminate.
  - destruct (read_rune_dstate _ _ _ _ _ Hi Hd Hr) as (H1 & _).
    exists (rs ++ [r]). split; [apply H1; exact Hne|]. rewrite existsb_snoc, Hns. apply orb_true_r.
Qed.

Lemma read_rune_space data st d r st' : linv data st -> dinv st d -> read_rune st = Some (r, st') ->
  r <> 10 -> nonsp r = false -> dinv st' d.
Proof.
  intros Hi [He|(rs & Hd & E)] Hr Hne Hns.
  - unfold read_rune in Hr. rewrite He in Hr. discriminate.
  - destruct (read_rune_dstate _ _ _ _ _ Hi Hd Hr) as (H1 & _).
    right. exists (rs ++ [r]). split; [apply H1; exact Hne|]. rewrite existsb_snoc, Hns, E. apply orb_false_r.
Qed.

Lemma read_rune_lf data st d st' : linv data st -> dinv st d -> read_rune st = Some (10, st') -> dinv st' false.
Proof.
  intros Hi [He|(rs & Hd & E)] Hr.
  - unfold read_rune in Hr. rewrite He in Hr. discriminate.
  - destruct (read_rune_dstate _ _ _ _ _ Hi Hd Hr) as (_ & H2).
    right. exists []. split; [apply H2; reflexivity|reflexivity].
Qed.

(* ---------------------------------------------------------------- the loops keep "dirty" *)

Definition res_dirty (res : tok_result) : Prop :=
  match res with TTok _ st' => dirty st' | _ => True end.

Lemma string_body_dirty data q st0 : forall f st, linv data st -> dirty st -> res_dirty (string_body f q st0 st).
Proof.
  induction f as [|f IH]; intros st Hi Hd; cbn [string_body]; [exact I|].
  destruct (eof st); [exact I|].
  destruct (peek_rune st =? 10) eqn:E10; [exact I|].
  destruct (read_rune st) as [[r st1]|] eqn:Hr; [|exact I].
  assert (Hr10 : r <> 10) by (rewrite (peek_read _ _ _ Hr) in E10; apply Z.eqb_neq; exact E10).
  destruct (read_rune_spec _ _ _ _ Hi Hr) as (Hi1 & _).
  pose proof (read_rune_dirty _ _ _ _ Hi Hd Hr Hr10) as Hd1.
  destruct (r =? q); [exact Hd1|].
  destruct ((r =? 92) && negb (q =? 96)); [|apply IH; assumption].
  destruct (eof st1); [exact I|].
  destruct (peek_rune st1 =? 10) eqn:E10'; [exact I|].
  destruct (read_rune st1) as [[r2 st2]|] eqn:Hr2; [|exact I].
  assert (Hr10' : r2 <> 10) by (rewrite (peek_read _ _ _ Hr2) in E10'; apply Z.eqb_neq; exact E10').
  destruct (read_rune_spec _ _ _ _ Hi1 Hr2) as (Hi2 & _).
  apply IH; [exact Hi2|]. exact (read_rune_dirty data st1 r2 st2 Hi1 Hd1 Hr2 Hr10').
Qed.

Lemma ident_body_dirty data st0 : forall f st, linv data st -> dirty st -> res_dirty (ident_body f st0 st).
Proof.
  induction f as [|f IH]; intros st Hi Hd; cbn [ident_body]; [exact I|].
  destruct (is_ident (peek_rune st)) eqn:Eid; [|exact Hd].
  destruct (peek_prefix st [47; 47]); [exact Hd|].
  destruct (peek_prefix st [47; 42]); [exact I|].
  destruct (read_rune st) as [[r st1]|] eqn:Hr; [|exact I].
  assert (Hr10 : r <> 10).
  { rewrite (peek_read _ _ _ Hr) in Eid. intros ->. rewrite is_ident_10 in Eid. discriminate. }
  destruct (read_rune_spec _ _ _ _ Hi Hr) as (Hi1 & _).
  apply IH; [exact Hi1|]. exact (read_rune_dirty data st r st1 Hi Hd Hr Hr10).
Qed.

Lemma is_ident_nonsp c : is_ident c = true -> nonsp c = true /\ c <> 10.
Proof.
  unfold is_ident, modfile_isIdent, nonsp. destruct (_ || _); [discriminate|]. intros H.
  apply andb_true_iff in H as [H _]. split; [exact H|]. intros ->. vm_compute in H. discriminate.
Qed.

Lemma is_punct_nonsp c : is_punct c = true -> c <> 10 -> nonsp c = true.
Proof.
  unfold is_punct. intros H Hc.
  repeat (apply orb_true_iff in H as [H|H]); apply Z.eqb_eq in H; subst c; try congruence; reflexivity.
Qed.

Definition next_dirty (k : tkind) (d : bool) : bool :=
  match k with
  | KEOF => d
  | KComment | KEOLComment => false
  | KPunct c => negb (c =? 10)
  | _ => true
  end.

Definition res_dinv (d : bool) (res : tok_result) : Prop :=
  match res with TTok t st' => dinv st' (next_dirty (t_kind t) d) | _ => True end.

Lemma read_main_dinv data f st d : linv data st -> dinv st d -> peek_prefix st [47; 47] = false ->
  res_dinv d (read_main f st).
Proof.
  intros Hi Hd Hss. unfold read_main.
  destruct (eof st) eqn:Ee; [cbn; exact Hd|].
  apply eof_false in Ee. destruct (read_rune_some st Ee) as (c0 & st1 & Hr).
  destruct (read_rune_spec _ _ _ _ Hi Hr) as (Hi1 & _).
  rewrite (peek_read _ _ _ Hr), Hr.
  destruct (is_punct c0) eqn:Ep.
  { cbn [res_dinv end_token t_kind next_dirty]. destruct (Z.eqb_spec c0 10) as [->|Hne]; cbn [negb].
    - exact (read_rune_lf data st d st1 Hi Hd Hr).
    - apply dirty_dinv. exact (read_rune_first data st d c0 st1 Hi Hd Hr Hne (is_punct_nonsp _ Ep Hne)). }
  destruct ((c0 =? 34) || (c0 =? 96)) eqn:Eq.
  { assert (Hd1 : dirty st1).
    { apply (read_rune_first data st d c0 st1 Hi Hd Hr); [lia|]. apply orb_true_iff in Eq as [E|E]; apply Z.eqb_eq in E; subst c0; reflexivity. }
    pose proof (string_body_dirty data c0 st f st1 Hi1 Hd1) as H.
    pose proof (string_body_pure data c0 st Hi f st1 Hi1) as Hp.
    destruct (string_body f c0 st st1) as [t st'| | |]; cbn in *; auto.
    destruct Hp as (Hp & _). destruct f; [discriminate|]. apply dirty_dinv in H.
    assert (Hk : t_kind t = KString).
    { clear - Hp. revert Hp. generalize (ls_rem st) (ls_rem st1). generalize (S f). clear.
      induction n as [|n IH]; intros s0 s; cbn [pstring]; [discriminate|].
      destruct (snil s); [discriminate|]. destruct (ppeek s =? 10); [discriminate|].
      destruct (prune s) as [[c s1]|]; [|discriminate].
      destruct (c =? c0); [intros [= <- _ _]; reflexivity|].
      destruct (_ && _); [|apply IH].
      destruct (snil s1); [discriminate|]. destruct (ppeek s1 =? 10); [discriminate|].
      destruct (prune s1) as [[c2 s2]|]; [|discriminate]. apply IH. }
    rewrite Hk. exact H. }
  destruct (is_ident c0) eqn:Eid; cbn [negb]; [|exact I].
  destruct f as [|f]; [exact I|]. cbn [ident_body]. rewrite (peek_read _ _ _ Hr), Eid, Hss.
  destruct (peek_prefix st [47; 42]); [exact I|]. rewrite Hr.
  destruct (is_ident_nonsp _ Eid) as (Hns & Hne).
  assert (Hd1 : dirty st1) by (exact (read_rune_first data st d c0 st1 Hi Hd Hr Hne Hns)).
  pose proof (ident_body_dirty data st f st1 Hi1 Hd1) as H.
  pose proof (ident_body_pure data st Hi f st1 Hi1) as Hp.
  destruct (ident_body f st st1) as [t st'| | |]; cbn in *; auto.
  destruct Hp as (Hp & _). apply dirty_dinv in H.
  assert (Hk : t_kind t = KIdent).
  { clear - Hp. revert Hp. generalize (ls_rem st) (ls_rem st1). clear.
    induction f as [|n IH]; intros s0 s; cbn [pident]; [discriminate|].
    destruct (is_ident (ppeek s)); [|intros [= <- _ _]; reflexivity].
    destruct (has_prefix s [47; 47]); [intros [= <- _ _]; reflexivity|].
    destruct (has_prefix s [47; 42]); [discriminate|].
    destruct (prune s) as [[c s1]|]; [|discriminate]. apply IH. }
  rewrite Hk. exact H.
Qed.

Lemma comment_body_dinv data : forall f st d, linv data st -> dinv st d ->
  match comment_body f st with
  | Some (Some st') => dinv st' false
  | _ => True
  end.
Proof.
  induction f as [|f IH]; intros st d Hi Hd; cbn [comment_body]; [exact I|].
  destruct (ls_rem st) as [|c t] eqn:E; [left; exact E|].
  destruct (read_rune st) as [[r st1]|] eqn:Hr; [|exact I].
  destruct (read_rune_spec _ _ _ _ Hi Hr) as (Hi1 & _).
  destruct (Z.eqb_spec r 10) as [->|Hne]; [exact (read_rune_lf data st d st1 Hi Hd Hr)|].
  destruct Hd as [He|(rs & Hd & Ed)]; [congruence|].
  destruct (read_rune_dstate _ _ _ _ _ Hi Hd Hr) as (H1 & _).
  apply (IH st1 (existsb nonsp (rs ++ [r])) Hi1). right. exists (rs ++ [r]). split; [apply H1; exact Hne|reflexivity].
Qed.

Lemma read_comment_dinv data f st d : linv data st -> dinv st d -> peek_prefix st [47; 47] = true ->
  res_dinv d (read_comment f st).
Proof.
  intros Hi Hd Hss. unfold read_comment.
  unfold peek_prefix in Hss. apply has_prefix_true in Hss as (t0 & E0). cbn [app] in E0.
  destruct (read_rune st) as [[r1 st1]|] eqn:Hr1; [|exact I].
  destruct (read_rune_spec _ _ _ _ Hi Hr1) as (Hi1 & _ & w & Hdec & Hrem & _).
  rewrite E0 in Hdec. rewrite decode_ascii_head in Hdec by lia. injection Hdec as <- <-.
  assert (Hd1 : dirty st1) by (apply (read_rune_first data st d 47 st1 Hi Hd Hr1); [lia|reflexivity]).
  destruct (read_rune st1) as [[r2 st2]|] eqn:Hr2; [|exact I].
  destruct (read_rune_spec _ _ _ _ Hi1 Hr2) as (Hi2 & _ & w2 & Hdec2 & _).
  rewrite Hrem, E0 in Hdec2. cbn [skipn] in Hdec2. rewrite decode_ascii_head in Hdec2 by lia. injection Hdec2 as <- <-.
  assert (Hd2 : dirty st2) by (apply (read_rune_dirty data st1 47 st2 Hi1 Hd1 Hr2); lia).
  pose proof (comment_body_dinv data f st2 true Hi2 (dirty_dinv _ Hd2)) as H.
  destruct (comment_body f st2) as [[st3|]|]; auto.
  cbn [res_dinv end_token t_kind]. destruct (has_non_space (line_so_far st)); exact H.
Qed.

(* ---------------------------------------------------------------- read_token computes ptoken *)

Definition tr_ok' (data : str) (d : bool) (res : tok_result) (p : ptr) : Prop :=
  match res with
  | TTok t st' => p = PTok (t_kind t) (t_text t) (ls_rem st') /\ linv data st' /\
                  dinv st' (next_dirty (t_kind t) d) /\ t_end t = ls_pos st'
  | TErr _ _ => p = PErr
  | TPanic | TFuel => p = PBad
  end.

Lemma tr_ok_weaken data d st0 res p : tr_ok data st0 res p -> res_dinv d res -> tr_ok' data d res p.
Proof. destruct res; cbn; intuition. Qed.

Lemma is_sp_rune c : ((c =? 32) || (c =? 9) || (c =? 13)) = true -> c <> 10 /\ nonsp c = false.
Proof.
  intros H. repeat (apply orb_true_iff in H as [H|H]); apply Z.eqb_eq in H; subst c; split; try lia; reflexivity.
Qed.

Theorem read_token_pure data : forall f st d, linv data st -> dinv st d ->
  tr_ok' data d (read_token f st) (ptoken f d (ls_rem st)).
Proof.
  induction f as [|f IH]; intros st d Hi Hd; cbn [read_token ptoken]; [reflexivity|].
  rewrite eof_snil, peek_ppeek. unfold peek_prefix.
  destruct (snil (ls_rem st)) eqn:Es.
  { eapply tr_ok_weaken; [apply read_main_pure; exact Hi|]. apply (read_main_dinv data); auto.
    unfold peek_prefix. destruct (ls_rem st); [reflexivity|discriminate]. }
  destruct ((ppeek (ls_rem st) =? 32) || (ppeek (ls_rem st) =? 9) || (ppeek (ls_rem st) =? 13)) eqn:Esp.
  { destruct (read_rune st) as [[r st1]|] eqn:Hr.
    2:{ rewrite (read_rune_prune_none _ Hr). reflexivity. }
    rewrite (read_rune_prune_some _ _ _ Hr). destruct (read_rune_spec _ _ _ _ Hi Hr) as (Hi1 & _).
    rewrite <- peek_ppeek, (peek_read _ _ _ Hr) in Esp. destruct (is_sp_rune _ Esp) as (Hne & Hns).
    apply IH; [exact Hi1|]. exact (read_rune_space data st d r st1 Hi Hd Hr Hne Hns). }
  destruct (has_prefix (ls_rem st) [47; 47]) eqn:Ess.
  { assert (Hne : ls_rem st <> []) by (destruct (ls_rem st); [discriminate|discriminate]).
    rewrite <- (dinv_has _ _ Hd Hne).
    eapply tr_ok_weaken; [apply read_comment_pure; exact Hi|].
    rewrite (dinv_has _ _ Hd Hne). apply (read_comment_dinv data); auto. }
  destruct (has_prefix (ls_rem st) [47; 42]); [reflexivity|].
  eapply tr_ok_weaken; [apply read_main_pure; exact Hi|]. apply (read_main_dinv data); auto.
Qed.
