(* C15: coherence for the "set the first, remove the others" operations. *)
From Coq Require Import Permutation.
From Verif.Base Require Import Bytes.
From Verif.Modfile Require Import EditModel EditOps EditSpec EditProofsTyped EditProofsHeap EditProofsCoherent EditProofsCleanup EditProofsAddLine EditProofsAdd.

Lemma upsert_false_drop {E} (m : E -> bool) syn zero upd verb args : forall l s s' l' n',
  upsert_loop m syn zero upd verb args false s l = Some (s', l', n') ->
  drop_loop m syn zero s l = Some (s', l') /\ n' = false.
Proof.
  induction l as [|e r IH]; intros s s' l' n' H; cbn in H |- *.
  - injection H as <- <- <-. auto.
  - destruct (m e).
    + destruct (syn e) as [i|]; [|discriminate].
      destruct (upsert_loop m syn zero upd verb args false (mark_removed s i) r) as [[[s1 r1] n1]|] eqn:Hr; [|discriminate].
      injection H as <- <- <-. destruct (IH _ _ _ _ Hr) as [-> ->]. auto.
    + destruct (upsert_loop m syn zero upd verb args false s r) as [[[s1 r1] n1]|] eqn:Hr; [|discriminate].
      injection H as <- <- <-. destruct (IH _ _ _ _ Hr) as [-> ->]. auto.
Qed.

Lemma upsert_true_spec {E} (m : E -> bool) syn zero upd verb args : forall l s s' l' n',
  upsert_loop m syn zero upd verb args true s l = Some (s', l', n') ->
  (n' = true /\ l' = l /\ s' = s /\ Forall (fun x => m x = false) l) \/
  (exists pre e tail i tail',
     l = pre ++ e :: tail /\ Forall (fun x => m x = false) pre /\ m e = true /\ syn e = Some i /\ n' = false /\
     drop_loop m syn zero (update_line s i verb args) tail = Some (s', tail') /\
     l' = pre ++ upd e :: tail').
Proof.
  induction l as [|e r IH]; intros s s' l' n' H; cbn in H.
  - injection H as <- <- <-. left. auto.
  - destruct (m e) eqn:Hm.
    + destruct (syn e) as [i|] eqn:Hs; [|discriminate].
      destruct (upsert_loop m syn zero upd verb args false (update_line s i verb args) r) as [[[s1 r1] n1]|] eqn:Hr; [|discriminate].
      injection H as <- <- <-. apply upsert_false_drop in Hr. destruct Hr as [Hd ->].
      right. exists [], e, r, i, r1. repeat split; auto.
    + destruct (upsert_loop m syn zero upd verb args true s r) as [[[s1 r1] n1]|] eqn:Hr; [|discriminate].
      injection H as <- <- <-. destruct (IH _ _ _ _ Hr) as [[-> [-> [-> Hall]]] | [pre [e0 [tail [i [tail' [-> [Hpre [Hm0 [Hs0 [-> [Hd ->]]]]]]]]]]]].
      * left. repeat split; auto.
      * right. exists (e :: pre), e0, tail, i, tail'. repeat split; auto.
Qed.

(* ---------------------------------------------------------------- coherence of (syntax, entries) pairs *)
Definition CoherentS (s : syntax) (es : list ent) : Prop :=
  SyntaxOk s /\ Forall ent_ok es /\ Permutation (tree_view s) (flat_map ent_view es).

Lemma coherent_S f : Coherent f <-> CoherentS (fsyn f) (entries f).
Proof.
  split.
  - intros [A B C]. split; [exact A | split; [exact B | exact C]].
  - intros [A [B C]]. split; [exact A | exact B | exact C].
Qed.

Lemma typedS_ids_nodup s es : CoherentS s es -> NoDup (ids (flat_map ent_view es)).
Proof.
  intros [Hs [_ Hp]]. eapply Permutation_NoDup; [apply Permutation_map; exact Hp|].
  apply tree_view_ids_nodup. apply Hs.
Qed.

Lemma coherentS_kill_gen s A B es es' T :
  CoherentS s (A ++ es ++ B) ->
  Forall ent_ok es' ->
  flat_map ent_view es' = rm T (flat_map ent_view es) ->
  (forall j, In j T -> In j (ids (flat_map ent_view es))) ->
  CoherentS (fold_left mark_removed T s) (A ++ es' ++ B).
Proof.
  intros Hc Hok' Hview HT.
  pose proof (typedS_ids_nodup _ _ Hc) as Hnd. destruct Hc as [Hsyn [Hent Hperm]].
  rewrite !flat_map_app in Hnd, Hperm. unfold ids in Hnd. rewrite !map_app in Hnd.
  apply Forall_app in Hent. destruct Hent as [HA Hent]. apply Forall_app in Hent. destruct Hent as [HM HB].
  pose proof (NoDup_app_r _ _ Hnd) as Hnd_MB.
  split; [|split].
  - apply syntax_ok_mark_removed_all. exact Hsyn.
  - apply Forall_app. split; [exact HA|]. apply Forall_app. split; [exact Hok' | exact HB].
  - rewrite tree_view_mark_removed_all, !flat_map_app, Hview.
    rewrite <- (rm_disjoint T (flat_map ent_view A)).
    + rewrite <- (rm_disjoint T (flat_map ent_view B)).
      * rewrite <- !rm_app. apply rm_perm. exact Hperm.
      * intros x Hx Hin. apply HT in Hin.
        eapply (NoDup_app_disj _ _ (vid x) Hnd_MB); [exact Hin | apply in_map; exact Hx].
    + intros x Hx Hin. apply HT in Hin.
      eapply (NoDup_app_disj _ _ (vid x) Hnd); [apply in_map; exact Hx | apply in_app_iff; left; exact Hin].
Qed.

Lemma coherentS_drop {E} (g : E -> ent) (m : E -> bool) (zero : E) s A B l s' l' :
  ent_view (g zero) = [] -> ent_ok (g zero) ->
  CoherentS s (A ++ map g l ++ B) ->
  drop_loop m (fun e => en_syn (g e)) zero s l = Some (s', l') ->
  CoherentS s' (A ++ map g l' ++ B).
Proof.
  intros Hzv Hzo Hc Hd. apply drop_loop_spec in Hd. destruct Hd as [-> ->].
  assert (HM : Forall ent_ok (map g l)).
  { destruct Hc as [_ [Hent _]]. apply Forall_app in Hent. destruct Hent as [_ Hent]. apply Forall_app in Hent. tauto. }
  assert (Hnd_M : NoDup (ids (flat_map ent_view (map g l)))).
  { pose proof (typedS_ids_nodup _ _ Hc) as Hnd. rewrite !flat_map_app in Hnd.
    unfold ids in Hnd. rewrite !map_app in Hnd. exact (NoDup_app_l _ _ (NoDup_app_r _ _ Hnd)). }
  change (flat_map (fun e => if m e then opt_list (en_syn (g e)) else []) l) with (killT g m l).
  change (map (fun e => if m e then zero else e) l) with (kill_list m zero l).
  apply (coherentS_kill_gen s A B (map g l)).
  - exact Hc.
  - unfold kill_list. rewrite map_map. apply Forall_forall. intros x Hx. apply in_map_iff in Hx.
    destruct Hx as [e [<- Hin]]. destruct (m e); [exact Hzo|].
    rewrite Forall_forall in HM. apply HM. apply in_map. exact Hin.
  - apply kill_view; assumption.
  - intros j. apply killT_in. exact HM.
Qed.

Lemma coherentS_update s A B (e e' : ent) i verb args :
  CoherentS s (A ++ e :: B) ->
  en_syn e = Some i -> en_live e = true -> en_verb e = verb ->
  en_syn e' = Some i -> en_live e' = true -> en_verb e' = verb ->
  args <> [] ->
  en_args e' = norm_args verb args (sget s i) ->
  CoherentS (update_line s i verb args) (A ++ e' :: B).
Proof.
  intros Hc Hs Hl Hv Hs' Hl' Hv' Ha Hargs.
  pose proof (typedS_ids_nodup _ _ Hc) as Hnd. destruct Hc as [Hsy [Hent Hperm]].
  assert (Hview_e : ent_view e = [(i, verb, en_args e)]) by (unfold ent_view; rewrite Hs, Hl, Hv; reflexivity).
  assert (Hview_e' : ent_view e' = [(i, verb, en_args e')]) by (unfold ent_view; rewrite Hs', Hl', Hv'; reflexivity).
  assert (Hin : In (i, verb, en_args e) (tree_view s)).
  { eapply Permutation_in; [symmetry; exact Hperm|]. rewrite flat_map_app. apply in_app_iff. right.
    cbn [flat_map]. rewrite Hview_e. left. reflexivity. }
  destruct (in_tree_view_inv _ _ _ _ Hin) as [w [Hw [Hlive Hwv]]].
  destruct (tree_view_update_line s i w verb args Hsy Hw Hlive Ha) as [Hsy' Htv].
  assert (Hvw : match w with None => verb | Some bv => bv end = verb) by (destruct w; [exact Hwv | reflexivity]).
  rewrite Hvw in Htv.
  rewrite flat_map_app in Hnd. cbn [flat_map] in Hnd. rewrite Hview_e in Hnd. unfold ids in Hnd. rewrite !map_app in Hnd. cbn [map vid fst] in Hnd.
  split; [|split].
  - exact Hsy'.
  - apply Forall_app in Hent. destruct Hent as [HA HB]. inversion HB; subst.
    apply Forall_app. split; [exact HA|]. constructor; [|assumption]. unfold ent_ok. rewrite Hl', Hs'. discriminate.
  - rewrite Htv.
    etransitivity; [apply Permutation_map; exact Hperm|].
    rewrite !flat_map_app, map_app. cbn [flat_map]. rewrite Hview_e, Hview_e', map_app. cbn [map app].
    unfold repl at 2. cbn [vid fst]. rewrite Nat.eqb_refl, <- Hargs.
    rewrite (map_repl_other i _ _ (flat_map ent_view A)), (map_repl_other i _ _ (flat_map ent_view B)); [reflexivity| |].
    + intros x Hx Heq. apply NoDup_remove_2 in Hnd. apply Hnd. apply in_app_iff. right.
      rewrite <- Heq. apply in_map. exact Hx.
    + intros x Hx Heq. apply NoDup_remove_2 in Hnd. apply Hnd. apply in_app_iff. left.
      rewrite <- Heq. apply in_map. exact Hx.
Qed.

Lemma coherentS_add s A B es (e : ent) hint verb args :
  CoherentS s (A ++ es ++ B) ->
  args <> [] ->
  ent_view e = [(heap_len s, verb, norm_args verb args dead_line)] ->
  ent_ok e ->
  CoherentS (fst (add_line s hint verb args)) (A ++ (es ++ [e]) ++ B).
Proof.
  intros [Hs [He Hp]] Ha Hv Hok.
  destruct (add_line_syntax s hint verb args Hs Ha) as [Hs' Hp'].
  split; [|split].
  - exact Hs'.
  - apply Forall_app in He. destruct He as [HA He]. apply Forall_app in He. destruct He as [HM HB].
    repeat (apply Forall_app; split); try assumption. constructor; [exact Hok | constructor].
  - etransitivity; [exact Hp'|].
    rewrite !flat_map_app in *. cbn [flat_map]. rewrite Hv, app_nil_r.
    etransitivity; [apply perm_skip; exact Hp|].
    rewrite <- !app_assoc. etransitivity; [apply Permutation_middle|]. apply Permutation_app_head.
    cbn [app]. apply Permutation_middle.
Qed.

Lemma coherentS_upsert {E} (g : E -> ent) (m : E -> bool) (zero : E) (upd : E -> E) verb args s A B l s' l' need' :
  ent_view (g zero) = [] -> ent_ok (g zero) -> args <> [] ->
  (forall e i, In e l -> m e = true -> en_syn (g e) = Some i ->
     en_live (g e) = true /\ en_verb (g e) = verb /\
     en_syn (g (upd e)) = Some i /\ en_live (g (upd e)) = true /\ en_verb (g (upd e)) = verb /\
     en_args (g (upd e)) = norm_args verb args (sget s i)) ->
  CoherentS s (A ++ map g l ++ B) ->
  upsert_loop m (fun e => en_syn (g e)) zero upd verb args true s l = Some (s', l', need') ->
  CoherentS s' (A ++ map g l' ++ B) /\ (need' = true -> s' = s /\ l' = l).
Proof.
  intros Hzv Hzo Ha Hupd Hc H.
  destruct (upsert_true_spec _ _ _ _ _ _ _ _ _ _ _ H) as [[-> [-> [-> _]]] | [pre [e [tail [i [tail' [-> [Hpre [Hm [Hs [-> [Hd ->]]]]]]]]]]]].
  - split; [exact Hc | auto].
  - split; [|discriminate].
    destruct (Hupd e i) as [H1 [H2 [H3 [H4 [H5 H6]]]]]; [apply in_app_iff; right; left; reflexivity | exact Hm | exact Hs |].
    rewrite map_app in Hc. cbn [map] in Hc. rewrite <- app_assoc in Hc. cbn [app] in Hc. rewrite app_assoc in Hc.
    pose proof (coherentS_update s (A ++ map g pre) (map g tail ++ B) (g e) (g (upd e)) i verb args Hc Hs H1 H2 H3 H4 H5 Ha H6) as Hc1.
    assert (E1 : (A ++ map g pre) ++ g (upd e) :: map g tail ++ B = (A ++ map g pre ++ [g (upd e)]) ++ map g tail ++ B).
    { rewrite <- !app_assoc. reflexivity. }
    rewrite E1 in Hc1.
    pose proof (coherentS_drop g m zero _ _ _ _ _ _ Hzv Hzo Hc1 Hd) as Hc2.
    assert (E2 : (A ++ map g pre ++ [g (upd e)]) ++ map g tail' ++ B = A ++ map g (pre ++ upd e :: tail') ++ B).
    { rewrite map_app. cbn [map]. rewrite <- !app_assoc. reflexivity. }
    rewrite <- E2. exact Hc2.
Qed.

(* what coherence says about the line of a live require entry *)
Lemma norm_require_flag (a b : list str) (x y : bool) : a ++ [flag x] = b ++ [flag y] -> x = y.
Proof.
  intros H. apply (f_equal (@rev str)) in H. rewrite !rev_app_distr in H. cbn in H. injection H as H _.
  destruct x, y; cbn in H; congruence.
Qed.

Lemma coherentS_require_indirect s es r i :
  CoherentS s es -> In (ent_require r) es -> rq_syn r = Some i -> nonempty (rq_path r) = true ->
  is_indirect (sget s i) = rq_ind r.
Proof.
  intros [Hs [_ Hp]] Hin Hsyn Hlive.
  assert (Hv : In (i, v_require, [auto_quote (rq_path r); rq_vers r; flag (rq_ind r)]) (tree_view s)).
  { eapply Permutation_in; [symmetry; exact Hp|]. apply in_flat_map. exists (ent_require r). split; [exact Hin|].
    unfold ent_view; cbn. rewrite Hsyn, Hlive. left. reflexivity. }
  unfold tree_view in Hv. apply in_flat_map in Hv. destruct Hv as [[j w] [_ Hv]].
  unfold line_view in Hv. cbn [fst snd] in Hv.
  destruct (hl_tok (sget s j)) as [|t ts]; [destruct Hv|].
  destruct w as [bv|]; destruct Hv as [Hv|[]]; injection Hv as -> -> Hn.
  - unfold norm_args in Hn. cbn in Hn.
    change ((t :: ts) ++ [flag (is_indirect (sget s i))] = [auto_quote (rq_path r); rq_vers r] ++ [flag (rq_ind r)]) in Hn.
    eapply norm_require_flag; eauto.
  - unfold norm_args in Hn. cbn in Hn.
    change (ts ++ [flag (is_indirect (sget s i))] = [auto_quote (rq_path r); rq_vers r] ++ [flag (rq_ind r)]) in Hn.
    eapply norm_require_flag; eauto.
Qed.

(* ---------------------------------------------------------------- AddGodebug *)
Lemma add_godebug_coherent f (key v : str) f' :
  key <> [] -> Coherent f -> add_godebug f key v = Some f' -> Coherent f'.
Proof.
  intros Hk Hc H. unfold add_godebug in H.
  assert (Hkl : nonempty key = true) by (apply nonempty_true; exact Hk).
  destruct (upsert_loop _ _ _ _ _ _ _ _ _) as [[[s l] need]|] eqn:Hu; [|discriminate].
  apply coherent_S in Hc. rewrite entries_godebug in Hc.
  destruct (coherentS_upsert ent_godebug (fun g => str_eqb (gd_key g) key) zero_godebug
              (fun g => mkGodebug (gd_key g) v (gd_syn g)) v_godebug [key ++ [61] ++ v]
              (fsyn f) (pre_godebug f) (post_godebug f) (f_godebug f) s l need eq_refl eq_refl (nonempty_args1 _)) as [Hc1 Hneed]; [| exact Hc | exact Hu |].
  - intros e i _ Hm Hs. apply str_eqb_eq in Hm. cbn. rewrite Hm, Hkl. repeat split; try assumption; reflexivity.
  - destruct need.
    + destruct (Hneed eq_refl) as [-> ->].
      destruct (add_line (fsyn f) None v_godebug [key ++ [61] ++ v]) as [s2 n] eqn:Ea. injection H as <-.
      pose proof (add_line_heap (fsyn f) None v_godebug [key ++ [61] ++ v]) as [Hn _]. rewrite Ea in Hn. cbn in Hn.
      apply coherent_S. rewrite entries_godebug. cbn [fsyn with_godebug with_syn f_godebug]. rewrite map_app.
      pose proof (coherentS_add (fsyn f) _ _ (map ent_godebug (f_godebug f)) (ent_godebug (mkGodebug key v (Some n)))
                    None v_godebug [key ++ [61] ++ v] Hc1 (nonempty_args1 _)) as Hadd.
      rewrite Ea in Hadd. apply Hadd.
      * unfold ent_view; cbn. rewrite Hkl, Hn. reflexivity.
      * unfold ent_ok; cbn. rewrite Hkl. discriminate.
    + injection H as <-. apply coherent_S. rewrite entries_godebug. exact Hc1.
Qed.

(* ---------------------------------------------------------------- rewriting a line in place *)
Lemma tree_view_rewrite_line s i w verb args l' :
  SyntaxOk s -> In (i, w) (tree_lines s) -> hl_tok (sget s i) <> [] -> args <> [] ->
  hl_inb l' = hl_inb (sget s i) ->
  hl_tok l' = (if hl_inb (sget s i) then args else verb :: args) ->
  let v := match w with None => verb | Some bv => bv end in
  SyntaxOk (sset s i l') /\
  tree_view (sset s i l') = map (repl i v (norm_args v args l')) (tree_view s).
Proof.
  intros [H1 H2 H3] Hin Hlive Ha Hinb' Htok' v.
  pose proof H2 as H2'. rewrite Forall_forall in H2'. destruct (H2' _ Hin) as [Hlen [Hinb Htok]]. cbn [fst snd] in *.
  set (l := sget s i) in *.
  assert (Hnew : sget (sset s i l') i = l') by (apply sget_sset_same; exact Hlen).
  split.
  - split; [exact H1 | | exact H3].
    change (tree_lines (sset s i l')) with (tree_lines s).
    apply Forall_forall. intros [j u] Hx. destruct (H2' _ Hx) as [A [Bq C]]. cbn [fst snd] in *.
    destruct (Nat.eq_dec j i) as [->|Hn].
    + assert (u = w) by (eapply in_tree_lines_unique; eauto). subst u.
      split; [|split]; cbn [fst snd].
      * change (length (heap (sset s i l'))) with (heap_len (sset s i l')). rewrite sset_len. exact A.
      * rewrite Hnew, Hinb'. exact Bq.
      * destruct w; [exact I|]. rewrite Hnew, Htok'. fold l in Bq. rewrite Bq.
        destruct args; [congruence | cbn; lia].
    + split; [|split]; cbn [fst snd].
      * change (length (heap (sset s i l'))) with (heap_len (sset s i l')). rewrite sset_len. exact A.
      * rewrite sget_sset_other by congruence. exact Bq.
      * rewrite sget_sset_other by congruence. exact C.
  - unfold tree_view. change (tree_lines (sset s i l')) with (tree_lines s).
    apply flat_map_map_in. intros [j u] Hx. destruct (Nat.eq_dec j i) as [->|Hn].
    + assert (u = w) by (eapply in_tree_lines_unique; eauto). subst u.
      unfold line_view; cbn [fst snd]. rewrite Hnew, Htok'. fold l.
      destruct (hl_tok l) as [|t ts] eqn:Et; [congruence|].
      fold l in Hinb. rewrite Hinb.
      destruct w as [bv|]; cbn [map]; unfold repl; cbn [vid fst]; rewrite Nat.eqb_refl.
      * destruct args as [|a ar]; [congruence|]. unfold v. reflexivity.
      * unfold v. reflexivity.
    + unfold line_view; cbn [fst snd]. rewrite sget_sset_other by congruence.
      destruct (hl_tok (sget s j)) as [|t ts]; [reflexivity|].
      destruct u; cbn [map]; unfold repl; cbn [vid fst]; (destruct (Nat.eqb_spec j i); [congruence | reflexivity]).
Qed.

Lemma coherentS_rewrite s A B (e e' : ent) i verb args l' :
  CoherentS s (A ++ e :: B) ->
  en_syn e = Some i -> en_live e = true -> en_verb e = verb ->
  en_syn e' = Some i -> en_live e' = true -> en_verb e' = verb ->
  args <> [] ->
  hl_inb l' = hl_inb (sget s i) ->
  hl_tok l' = (if hl_inb (sget s i) then args else verb :: args) ->
  en_args e' = norm_args verb args l' ->
  CoherentS (sset s i l') (A ++ e' :: B).
Proof.
  intros Hc Hs Hl Hv Hs' Hl' Hv' Ha Hinb Htok Hargs.
  pose proof (typedS_ids_nodup _ _ Hc) as Hnd. destruct Hc as [Hsy [Hent Hperm]].
  assert (Hview_e : ent_view e = [(i, verb, en_args e)]) by (unfold ent_view; rewrite Hs, Hl, Hv; reflexivity).
  assert (Hview_e' : ent_view e' = [(i, verb, en_args e')]) by (unfold ent_view; rewrite Hs', Hl', Hv'; reflexivity).
  assert (Hin : In (i, verb, en_args e) (tree_view s)).
  { eapply Permutation_in; [symmetry; exact Hperm|]. rewrite flat_map_app. apply in_app_iff. right.
    cbn [flat_map]. rewrite Hview_e. left. reflexivity. }
  destruct (in_tree_view_inv _ _ _ _ Hin) as [w [Hw [Hlive Hwv]]].
  destruct (tree_view_rewrite_line s i w verb args l' Hsy Hw Hlive Ha Hinb Htok) as [Hsy' Htv].
  assert (Hvw : match w with None => verb | Some bv => bv end = verb) by (destruct w; [exact Hwv | reflexivity]).
  rewrite Hvw in Htv.
  rewrite flat_map_app in Hnd. cbn [flat_map] in Hnd. rewrite Hview_e in Hnd. unfold ids in Hnd. rewrite !map_app in Hnd. cbn [map vid fst] in Hnd.
  split; [|split].
  - exact Hsy'.
  - apply Forall_app in Hent. destruct Hent as [HA HB]. inversion HB; subst.
    apply Forall_app. split; [exact HA|]. constructor; [|assumption]. unfold ent_ok. rewrite Hl', Hs'. discriminate.
  - rewrite Htv.
    etransitivity; [apply Permutation_map; exact Hperm|].
    rewrite !flat_map_app, map_app. cbn [flat_map]. rewrite Hview_e, Hview_e', map_app. cbn [map app].
    unfold repl at 2. cbn [vid fst]. rewrite Nat.eqb_refl, <- Hargs.
    rewrite (map_repl_other i _ _ (flat_map ent_view A)), (map_repl_other i _ _ (flat_map ent_view B)); [reflexivity| |].
    + intros x Hx Heq. apply NoDup_remove_2 in Hnd. apply Hnd. apply in_app_iff. right.
      rewrite <- Heq. apply in_map. exact Hx.
    + intros x Hx Heq. apply NoDup_remove_2 in Hnd. apply Hnd. apply in_app_iff. left.
      rewrite <- Heq. apply in_map. exact Hx.
Qed.

(* setIndirect keeps tokens and position; on a line without end-of-line comment it
   yields the requested marking *)
Lemma set_indirect_line_tok l b : hl_tok (set_indirect_line l b) = hl_tok l /\ hl_inb (set_indirect_line l b) = hl_inb l.
Proof.
  unfold set_indirect_line. destruct (Bool.eqb (is_indirect l) b); [auto|].
  destruct b.
  - destruct (c_suffix (hl_com l)) as [|c rest]; [auto|]. destruct (comment_text c); auto.
  - destruct (c_suffix (hl_com l)) as [|c rest]; [auto|]. destruct (str_eqb (comment_text c) (B "indirect")); auto.
Qed.

Lemma set_indirect_line_fresh l b : c_suffix (hl_com l) = [] -> is_indirect (set_indirect_line l b) = b.
Proof.
  intros Hs. unfold set_indirect_line.
  assert (Hi : is_indirect l = false) by (unfold is_indirect; rewrite Hs; reflexivity).
  rewrite Hi. destruct b; cbn [Bool.eqb]; [|exact Hi].
  rewrite Hs. reflexivity.
Qed.

(* ---------------------------------------------------------------- AddNewRequire / AddRequire *)
Lemma add_new_require_S s A B rs (p v : str) ind :
  p <> [] ->
  CoherentS s (A ++ map ent_require rs ++ B) ->
  let s1 := fst (add_line s None v_require [auto_quote p; v]) in
  let n := snd (add_line s None v_require [auto_quote p; v]) in
  CoherentS (sset s1 n (set_indirect_line (sget s1 n) ind))
            (A ++ map ent_require (rs ++ [mkRequire p v ind (Some n)]) ++ B).
Proof.
  intros Hp Hc s1 n.
  assert (Hpl : nonempty p = true) by (apply nonempty_true; exact Hp).
  destruct (add_line_heap s None v_require [auto_quote p; v]) as [Hn [Hlen [_ [inb Hnew]]]].
  fold s1 in Hlen, Hnew. fold n in Hn.
  pose proof (coherentS_add s A B (map ent_require rs) (ent_require (mkRequire p v false (Some n)))
                None v_require [auto_quote p; v] Hc) as Hadd.
  fold s1 in Hadd.
  assert (Hc1 : CoherentS s1 (A ++ (map ent_require rs ++ [ent_require (mkRequire p v false (Some n))]) ++ B)).
  { apply Hadd; [discriminate | | ].
    - unfold ent_view; cbn. rewrite Hpl, Hn. reflexivity.
    - unfold ent_ok; cbn. rewrite Hpl. discriminate. }
  rewrite <- Hn in Hnew.
  assert (E1 : A ++ (map ent_require rs ++ [ent_require (mkRequire p v false (Some n))]) ++ B
               = (A ++ map ent_require rs) ++ ent_require (mkRequire p v false (Some n)) :: B).
  { rewrite <- !app_assoc. reflexivity. }
  rewrite E1 in Hc1.
  assert (E2 : A ++ map ent_require (rs ++ [mkRequire p v ind (Some n)]) ++ B
               = (A ++ map ent_require rs) ++ ent_require (mkRequire p v ind (Some n)) :: B).
  { rewrite map_app. cbn [map]. rewrite <- !app_assoc. reflexivity. }
  rewrite E2.
  destruct (set_indirect_line_tok (sget s1 n) ind) as [Ht Hb].
  eapply (coherentS_rewrite s1 _ _ _ _ n v_require [auto_quote p; v] _ Hc1); try reflexivity.
  - cbn. exact Hpl.
  - cbn. exact Hpl.
  - discriminate.
  - exact Hb.
  - rewrite Ht, Hnew. cbn. destruct inb; reflexivity.
  - cbn [en_args ent_require rq_path rq_vers rq_ind]. unfold norm_args. cbn.
    rewrite set_indirect_line_fresh by (rewrite Hnew; reflexivity). reflexivity.
Qed.

Lemma add_new_require_coherent f (p v : str) ind : p <> [] -> Coherent f -> Coherent (add_new_require f p v ind).
Proof.
  intros Hp Hc. apply coherent_S in Hc. rewrite entries_require in Hc.
  pose proof (add_new_require_S (fsyn f) _ _ (f_require f) p v ind Hp Hc) as H.
  unfold add_new_require. destruct (add_line (fsyn f) None v_require [auto_quote p; v]) as [s1 n].
  cbn [fst snd] in H. apply coherent_S. rewrite entries_require. exact H.
Qed.

Lemma add_require_coherent f (p v : str) f' :
  p <> [] -> Coherent f -> add_require f p v = Some f' -> Coherent f'.
Proof.
  intros Hp Hc H. unfold add_require in H.
  assert (Hpl : nonempty p = true) by (apply nonempty_true; exact Hp).
  destruct (upsert_loop _ _ _ _ _ _ _ _ _) as [[[s l] need]|] eqn:Hu; [|discriminate].
  apply coherent_S in Hc. rewrite entries_require in Hc.
  destruct (coherentS_upsert ent_require (fun r => str_eqb (rq_path r) p) zero_require
              (fun r => mkRequire (rq_path r) v (rq_ind r) (rq_syn r)) v_require [auto_quote p; v]
              (fsyn f) (pre_require f) (post_require f) (f_require f) s l need eq_refl eq_refl) as [Hc1 Hneed];
    [discriminate | | exact Hc | exact Hu |].
  - intros e i Hin Hm Hs. apply str_eqb_eq in Hm.
    assert (Hi : is_indirect (sget (fsyn f) i) = rq_ind e).
    { eapply (coherentS_require_indirect _ _ e i Hc); [| exact Hs | rewrite Hm; exact Hpl].
      apply in_app_iff. right. apply in_app_iff. left. apply in_map. exact Hin. }
    cbn. rewrite Hm, Hpl. repeat split; try assumption; try reflexivity.
    unfold norm_args. cbn. rewrite Hi. reflexivity.
  - destruct need.
    + destruct (Hneed eq_refl) as [-> ->]. injection H as <-.
      apply (add_new_require_coherent (with_require (with_syn f (fsyn f)) (f_require f)) p v false Hp).
      apply coherent_S. rewrite entries_require. exact Hc1.
    + injection H as <-. apply coherent_S. rewrite entries_require. exact Hc1.
Qed.

(* ---------------------------------------------------------------- AddUse *)
Lemma add_use_coherent f (p m : str) f' :
  p <> [] -> Coherent f -> add_use f p m = Some f' -> Coherent f'.
Proof.
  intros Hp Hc H. unfold add_use in H.
  assert (Hpl : nonempty p = true) by (apply nonempty_true; exact Hp).
  destruct (upsert_loop _ _ _ _ _ _ _ _ _) as [[[s l] need]|] eqn:Hu; [|discriminate].
  apply coherent_S in Hc. rewrite entries_use in Hc.
  destruct (coherentS_upsert ent_use (fun u => str_eqb (us_path u) p) zero_use
              (fun u => mkUse (us_path u) m (us_syn u)) v_use [auto_quote p]
              (fsyn f) (pre_use f) [] (f_use f) s l need eq_refl eq_refl (nonempty_args1 _)) as [Hc1 Hneed];
    [ | exact Hc | exact Hu |].
  - intros e i _ Hm Hs. apply str_eqb_eq in Hm. cbn. rewrite Hm, Hpl. repeat split; try assumption; reflexivity.
  - destruct need.
    + destruct (Hneed eq_refl) as [-> ->]. injection H as <-.
      apply (add_new_use_coherent (with_use (with_syn f (fsyn f)) (f_use f)) p m Hp).
      apply coherent_S. rewrite entries_use. exact Hc1.
    + injection H as <-. apply coherent_S. rewrite entries_use. exact Hc1.
Qed.

(* ---------------------------------------------------------------- AddReplace *)
Definition rep_m (op ov : str) (r : e_replace) : bool := str_eqb (rp_op r) op && (nilb ov || str_eqb (rp_ov r) ov).

Lemma add_replace_false_drop (op ov np nv : str) : forall l h s s' l' n' h',
  add_replace_loop op ov np nv false h s l = Some (s', l', n', h') ->
  drop_loop (rep_m op ov) rp_syn zero_replace s l = Some (s', l') /\ n' = false.
Proof.
  induction l as [|e r IH]; intros h s s' l' n' h' H; cbn in H |- *.
  - injection H as <- <- <- _. auto.
  - unfold rep_m at 1. destruct (str_eqb (rp_op e) op && (nilb ov || str_eqb (rp_ov e) ov))%bool.
    + destruct (rp_syn e) as [i|]; [|discriminate].
      destruct (add_replace_loop op ov np nv false _ (mark_removed s i) r) as [[[[s1 r1] n1] h1]|] eqn:Hr; [|discriminate].
      injection H as <- <- <- _. destruct (IH _ _ _ _ _ _ Hr) as [-> ->]. auto.
    + destruct (add_replace_loop op ov np nv false _ s r) as [[[[s1 r1] n1] h1]|] eqn:Hr; [|discriminate].
      injection H as <- <- <- _. destruct (IH _ _ _ _ _ _ Hr) as [-> ->]. auto.
Qed.

Lemma add_replace_true_spec (op ov np nv : str) : forall l h s s' l' n' h',
  add_replace_loop op ov np nv true h s l = Some (s', l', n', h') ->
  (n' = true /\ l' = l /\ s' = s) \/
  (exists pre e tail i tail',
     l = pre ++ e :: tail /\ rep_m op ov e = true /\ rp_syn e = Some i /\ n' = false /\
     drop_loop (rep_m op ov) rp_syn zero_replace (update_line s i v_replace (replace_tokens op ov np nv)) tail = Some (s', tail') /\
     l' = pre ++ mkReplace op ov np nv (rp_syn e) :: tail').
Proof.
  induction l as [|e r IH]; intros h s s' l' n' h' H; cbn in H.
  - injection H as <- <- <- _. left. auto.
  - destruct (str_eqb (rp_op e) op && (nilb ov || str_eqb (rp_ov e) ov))%bool eqn:Hm.
    + destruct (rp_syn e) as [i|] eqn:Hs; [|discriminate].
      destruct (add_replace_loop op ov np nv false h _ r) as [[[[s1 r1] n1] h1]|] eqn:Hr; [|discriminate].
      injection H as <- <- <- _. apply add_replace_false_drop in Hr. destruct Hr as [Hd ->].
      right. exists [], e, r, i, r1. rewrite Hs. repeat split; auto.
    + destruct (add_replace_loop op ov np nv true _ s r) as [[[[s1 r1] n1] h1]|] eqn:Hr; [|discriminate].
      injection H as <- <- <- _.
      destruct (IH _ _ _ _ _ _ Hr) as [[-> [-> ->]] | [pre [e0 [tail [i [tail' [-> [Hm0 [Hs0 [-> [Hd ->]]]]]]]]]]].
      * left. auto.
      * right. exists (e :: pre), e0, tail, i, tail'. repeat split; auto.
Qed.

Lemma replace_tokens_ne (op ov np nv : str) : replace_tokens op ov np nv <> [].
Proof. unfold replace_tokens. discriminate. Qed.

Lemma norm_args_plain (verb : str) args l :
  str_eqb verb v_retract = false -> str_eqb verb v_require = false -> norm_args verb args l = args.
Proof. intros H1 H2. unfold norm_args. rewrite H1, H2. reflexivity. Qed.

Lemma add_replace_coherent f (op ov np nv : str) f' :
  op <> [] -> Coherent f -> add_replace f op ov np nv = Some f' -> Coherent f'.
Proof.
  intros Hp Hc H. unfold add_replace in H.
  assert (Hpl : nonempty op = true) by (apply nonempty_true; exact Hp).
  destruct (add_replace_loop _ _ _ _ _ _ _ _) as [[[[s l] need] h]|] eqn:Hu; [|discriminate].
  apply coherent_S in Hc. rewrite entries_replace in Hc.
  destruct (add_replace_true_spec _ _ _ _ _ _ _ _ _ _ _ Hu) as [[-> [-> ->]] | [pre [e [tail [i [tail' [El [Hm [Hs [-> [Hd ->]]]]]]]]]]].
  - (* no replacement for old: a new line *)
    destruct (add_line (fsyn f) (typed_hint h) v_replace (replace_tokens op ov np nv)) as [s2 n] eqn:Ea. injection H as <-.
    pose proof (add_line_heap (fsyn f) (typed_hint h) v_replace (replace_tokens op ov np nv)) as [Hn _]. rewrite Ea in Hn. cbn in Hn.
    apply coherent_S. rewrite entries_replace. cbn [fsyn with_replace with_syn f_replace]. rewrite map_app.
    pose proof (coherentS_add (fsyn f) _ _ (map ent_replace (f_replace f)) (ent_replace (mkReplace op ov np nv (Some n)))
                  (typed_hint h) v_replace (replace_tokens op ov np nv) Hc (replace_tokens_ne _ _ _ _)) as Hadd.
    rewrite Ea in Hadd. apply Hadd.
    + unfold ent_view; cbn [ent_replace en_syn en_live en_verb en_args rp_op rp_ov rp_np rp_nv rp_syn].
      rewrite Hpl, Hn, norm_args_plain by reflexivity. reflexivity.
    + unfold ent_ok; cbn. rewrite Hpl. discriminate.
  - injection H as <-.
    assert (Hlive_e : nonempty (rp_op e) = true).
    { unfold rep_m in Hm. apply Bool.andb_true_iff in Hm. destruct Hm as [Hm _]. apply str_eqb_eq in Hm. rewrite Hm. exact Hpl. }
    rewrite El, map_app in Hc. cbn [map] in Hc. rewrite <- app_assoc in Hc. cbn [app] in Hc. rewrite app_assoc in Hc.
    assert (Hargs : en_args (ent_replace (mkReplace op ov np nv (rp_syn e)))
                    = norm_args v_replace (replace_tokens op ov np nv) (sget (fsyn f) i)).
    { cbn [ent_replace en_args rp_op rp_ov rp_np rp_nv]. rewrite norm_args_plain by reflexivity. reflexivity. }
    pose proof (coherentS_update (fsyn f) (pre_replace f ++ map ent_replace pre) (map ent_replace tail ++ post_replace f)
                  (ent_replace e) (ent_replace (mkReplace op ov np nv (rp_syn e))) i v_replace (replace_tokens op ov np nv)
                  Hc Hs Hlive_e eq_refl Hs Hpl eq_refl (replace_tokens_ne _ _ _ _) Hargs) as Hc1.
    assert (E1 : (pre_replace f ++ map ent_replace pre) ++ ent_replace (mkReplace op ov np nv (rp_syn e)) :: map ent_replace tail ++ post_replace f
                 = (pre_replace f ++ map ent_replace pre ++ [ent_replace (mkReplace op ov np nv (rp_syn e))]) ++ map ent_replace tail ++ post_replace f).
    { rewrite <- !app_assoc. reflexivity. }
    rewrite E1 in Hc1.
    pose proof (coherentS_drop ent_replace (rep_m op ov) zero_replace _ _ _ _ _ _ eq_refl eq_refl Hc1 Hd) as Hc2.
    apply coherent_S. rewrite entries_replace. cbn [fsyn with_replace with_syn f_replace].
    rewrite map_app. cbn [map]. rewrite <- !app_assoc in Hc2. rewrite <- !app_assoc. exact Hc2.
Qed.
