(* Round trip, part 11a: AutoQuote.  For a byte string u that is not empty and not a lone
   punctuation character, AutoQuote(u) is the text of one token of the lexer ([ltext]) and
   parseString reads u back from it and leaves the token unchanged. *)
From Verif.Base Require Import Bytes Utf8 Strconv QuoteProofs.
From Verif.Gen Require Import GenChars GenUnicode.
From Verif.Modfile Require Import Syntax Lex Parse Print Directives ProofsLex RoundRows
  RoundLexPure RoundLexPure2 RoundLexPure3 RoundLexPure4 RoundLexB1 RoundLexB2 RoundTrim RoundTree.

Lemma cne {A} (b : A) t : b :: t <> [].
Proof. discriminate. Qed.

(* ---------------------------------------------------------------- the runes of a string *)

Lemma runes_w_enough : forall n s, (length s <= n)%nat -> map fst (runes_w n s) = Utf8.runes s.
Proof.
  induction n as [n IH] using lt_wf_ind. intros s Hn. unfold Utf8.runes.
  destruct s as [|b t]; [destruct n; reflexivity|].
  destruct n as [|n]; [cbn in Hn; lia|]. cbn [length runes_w].
  destruct (Utf8.decode (b :: t)) as [r w] eqn:Hd. cbn [map fst]. f_equal.
  pose proof (decode_width _ _ _ (cne _ _) Hd) as Hw.
  assert (Hl : (length (skipn w (b :: t)) <= length t)%nat) by (rewrite skipn_length; cbn [length]; lia).
  cbn [length] in Hn.
  rewrite (IH n ltac:(lia) (skipn w (b :: t)) ltac:(lia)).
  rewrite (IH (length t) ltac:(lia) (skipn w (b :: t)) Hl). reflexivity.
Qed.

Lemma runes_step s r w : s <> [] -> Utf8.decode s = (r, w) -> Utf8.runes s = r :: Utf8.runes (skipn w s).
Proof.
  intros Hne Hd. unfold Utf8.runes at 1. destruct s as [|b t]; [congruence|]. cbn [length runes_w]. rewrite Hd.
  cbn [map fst]. f_equal. apply runes_w_enough. pose proof (decode_width _ _ _ Hne Hd). rewrite skipn_length. cbn [length]. lia.
Qed.

Lemma runes_nil : Utf8.runes [] = [].
Proof. reflexivity. Qed.

(* an ASCII byte of a string is one of its runes *)
Lemma ascii_byte_rune : forall n s b, (length s <= n)%nat -> In b s -> b < 128 -> In b (Utf8.runes s).
Proof.
  induction n as [|n IH]; intros s b Hn Hin Hb; [destruct s; [destruct Hin|cbn in Hn; lia]|].
  destruct s as [|b0 t]; [destruct Hin|].
  destruct (Utf8.decode (b0 :: t)) as [r w] eqn:Hd.
  pose proof (decode_width _ _ _ (cne _ _) Hd) as Hw.
  rewrite (runes_step _ _ _ (cne _ _) Hd).
  rewrite <- (firstn_skipn w (b0 :: t)) in Hin. apply in_app_or in Hin as [Hin|Hin].
  - destruct (decode_bytes _ _ _ (cne _ _) Hd) as [(Hlt & E)|Hh].
    + rewrite E in Hin. destruct Hin as [<-|[]]. left. reflexivity.
    + rewrite Forall_forall in Hh. specialize (Hh b Hin). lia.
  - right. apply (IH _ b); [rewrite skipn_length; cbn [length] in *; lia|exact Hin|exact Hb].
Qed.

(* ---------------------------------------------------------------- printable and white space *)

Lemma isspace_cases r : unicode_IsSpace r = true ->
  (9 <= r <= 13) \/ r = 32 \/ r = 133 \/ r = 160 \/ r = 5760 \/ (8192 <= r <= 8202) \/ (8232 <= r <= 8233) \/
  r = 8239 \/ r = 8287 \/ r = 12288.
Proof.
  unfold unicode_IsSpace, in_ranges, IsSpace_ranges. cbn [existsb fst snd]. intros H.
  repeat (apply orb_true_iff in H as [H|H]); try discriminate; apply andb_true_iff in H as (A & B);
    apply Z.leb_le in A; apply Z.leb_le in B; lia.
Qed.

Lemma print_not_space r : unicode_IsPrint r = true -> r <> 32 -> unicode_IsSpace r = false.
Proof.
  intros Hp Hne. destruct (unicode_IsSpace r) eqn:Es; [|reflexivity]. exfalso.
  destruct (isspace_cases r Es) as [H|[H|[H|[H|[H|[H|[H|[H|[H|H]]]]]]]]].
  - assert (r = 9 \/ r = 10 \/ r = 11 \/ r = 12 \/ r = 13) as [->|[->|[->|[->| ->]]]] by lia; vm_compute in Hp; discriminate.
  - contradiction.
  - subst r; vm_compute in Hp; discriminate.
  - subst r; vm_compute in Hp; discriminate.
  - subst r; vm_compute in Hp; discriminate.
  - assert (r = 8192 \/ r = 8193 \/ r = 8194 \/ r = 8195 \/ r = 8196 \/ r = 8197 \/ r = 8198 \/ r = 8199 \/ r = 8200 \/ r = 8201 \/ r = 8202)
      as [->|[->|[->|[->|[->|[->|[->|[->|[->|[->| ->]]]]]]]]]] by lia; vm_compute in Hp; discriminate.
  - assert (r = 8232 \/ r = 8233) as [->| ->] by lia; vm_compute in Hp; discriminate.
  - subst r; vm_compute in Hp; discriminate.
  - subst r; vm_compute in Hp; discriminate.
  - subst r; vm_compute in Hp; discriminate.
Qed.

(* ---------------------------------------------------------------- MustQuote(u) = false *)

(* u is not a lone punctuation character *)
Definition not_lone (u : str) : Prop := forall c, u = [c] -> is_punct c = false.

Definition mq_rune (n : nat) (r : Z) : bool :=
  (r =? 32) || (r =? 34) || (r =? 39) || (r =? 96)
  || (is_punct r && negb (r =? 10) && Nat.ltb 1 n)
  || (negb (is_punct r && negb (r =? 10)) && negb (unicode_IsPrint r)).

Lemma must_quote_false u : must_quote u = false ->
  Forall (fun r => mq_rune (length u) r = false) (Utf8.runes u) /\ u <> [] /\
  contains_sub u [47; 47] = false /\ contains_sub u [47; 42] = false.
Proof.
  unfold must_quote. intros H. apply orb_false_iff in H as (H & H4). apply orb_false_iff in H as (H & H3).
  apply orb_false_iff in H as (H1 & H2). split; [|split; [destruct u; [discriminate|discriminate]|auto]].
  apply Forall_forall. intros r Hr. destruct (mq_rune (length u) r) eqn:E; [|reflexivity].
  assert (existsb (mq_rune (length u)) (Utf8.runes u) = true) by (apply existsb_exists; eauto). unfold mq_rune in H. congruence.
Qed.

Lemma single_rune_punct b r : In r (Utf8.runes [b]) -> is_punct r = true -> r = b.
Proof.
  unfold Utf8.runes. cbn [length runes_w]. destruct (Utf8.decode [b]) as [r0 w] eqn:Hd. cbn [map fst].
  intros [<-|[]] Hp. destruct (decode_small _ _ _ (cne _ _) Hd (is_punct_small _ Hp)) as (_ & t & E). congruence.
Qed.

Lemma mq_rune_ident u r : not_lone u -> In r (Utf8.runes u) -> mq_rune (length u) r = false ->
  is_ident r = true /\ r <> 34 /\ r <> 39 /\ r <> 96 /\ is_punct r = false.
Proof.
  intros Hl Hin H. unfold mq_rune in H.
  apply orb_false_iff in H as (H & H4). apply orb_false_iff in H as (H & H0).
  apply orb_false_iff in H as (H & H96). apply orb_false_iff in H as (H & H39). apply orb_false_iff in H as (H32 & H34).
  apply Z.eqb_neq in H32, H34, H39, H96.
  assert (Hnp : (is_punct r && negb (r =? 10)) = false).
  { destruct (is_punct r && negb (r =? 10)) eqn:E; [|reflexivity]. rewrite andb_true_l in H0.
    apply Nat.ltb_ge in H0. apply andb_true_iff in E as (Ep & _).
    destruct u as [|b [|b' u']]; [destruct Hin| |cbn in H0; lia].
    pose proof (single_rune_punct b r Hin Ep). subst r. rewrite (Hl b eq_refl) in Ep. discriminate. }
  rewrite Hnp in H4. cbn [negb andb] in H4. apply negb_false_iff in H4.
  assert (H10 : r <> 10) by (intros ->; vm_compute in H4; discriminate).
  assert (Hp : is_punct r = false).
  { destruct (is_punct r); [|reflexivity]. cbn [andb] in Hnp. apply negb_false_iff, Z.eqb_eq in Hnp. contradiction. }
  split; [|auto]. unfold is_ident, modfile_isIdent.
  assert (Hx : ((r =? 32) || (r =? 40) || (r =? 41) || (r =? 91) || (r =? 93) || (r =? 123) || (r =? 125) || (r =? 44)) = false).
  { unfold is_punct in Hp.
    apply orb_false_iff in Hp as (Hp & E44). apply orb_false_iff in Hp as (Hp & E125). apply orb_false_iff in Hp as (Hp & E123).
    apply orb_false_iff in Hp as (Hp & E93). apply orb_false_iff in Hp as (Hp & E91). apply orb_false_iff in Hp as (Hp & E41).
    apply orb_false_iff in Hp as (_ & E40).
    apply Z.eqb_neq in H32. rewrite H32, E40, E41, E91, E93, E123, E125, E44. reflexivity. }
  rewrite Hx. rewrite (print_not_space r H4 H32), H4. reflexivity.
Qed.

Lemma contains_sub_skipn sub : forall k s, contains_sub s sub = false -> contains_sub (skipn k s) sub = false.
Proof.
  induction k as [|k IH]; intros s H; [exact H|]. destruct s as [|b t]; [exact H|]. cbn [skipn]. apply IH.
  cbn [contains_sub] in H. apply orb_false_iff in H. apply H.
Qed.

Lemma contains_sub_head s sub : contains_sub s sub = false -> has_prefix s sub = false.
Proof. destruct s; cbn [contains_sub]; intros H; apply orb_false_iff in H; apply H. Qed.

(* the identifier loop runs to the end of such a string *)
Lemma pident_all : forall n s c, (length s <= n)%nat ->
  Forall (fun r => is_ident r = true) (Utf8.runes s) ->
  contains_sub s [47; 47] = false -> contains_sub s [47; 42] = false ->
  pident (S n) (c ++ s) s = PTok KIdent (c ++ s) [].
Proof.
  induction n as [|n IH]; intros s c Hn Hr H1 H2.
  - destruct s; [|cbn in Hn; lia]. cbn [pident ppeek]. change (is_ident 0) with false. cbn iota.
    rewrite <- (app_nil_r (c ++ [])) at 1. rewrite ptext_app. reflexivity.
  - destruct s as [|b t].
    { cbn [pident ppeek]. change (is_ident 0) with false. cbn iota.
      rewrite <- (app_nil_r (c ++ [])) at 1. rewrite ptext_app. reflexivity. }
    cbn [pident]. destruct (Utf8.decode (b :: t)) as [r w] eqn:Hd.
    pose proof (decode_width _ _ _ (cne _ _) Hd) as Hw.
    rewrite (runes_step _ _ _ (cne _ _) Hd) in Hr. inversion Hr as [|? ? Hr0 Hr']; subst.
    assert (Hpk : ppeek (b :: t) = r) by (unfold ppeek; rewrite Hd; reflexivity).
    rewrite Hpk, Hr0, (contains_sub_head _ _ H1), (contains_sub_head _ _ H2).
    unfold prune. rewrite Hd.
    replace (c ++ b :: t) with ((c ++ firstn w (b :: t)) ++ skipn w (b :: t)) by (rewrite <- app_assoc, firstn_skipn; reflexivity).
    apply IH; [rewrite skipn_length; cbn [length] in *; lia|exact Hr'| |]; apply contains_sub_skipn; assumption.
Qed.

Lemma existsb_false_forall {A} (p : A -> bool) l : existsb p l = false -> forall x, In x l -> p x = false.
Proof.
  intros H x Hx. destruct (p x) eqn:E; [|reflexivity]. assert (existsb p l = true) by (apply existsb_exists; eauto). congruence.
Qed.

(* ---------------------------------------------------------------- a quoted string *)

Lemma dq_safe_skip_high : forall k r, dq_safe r -> Forall (fun b => 128 <= b) (firstn k r) -> dq_safe (skipn k r).
Proof.
  induction k as [|k IH]; intros r Hs Hh; [exact Hs|]. destruct r as [|c r']; [exact Hs|]. cbn [firstn skipn] in *.
  inversion Hh as [|? ? Hc Hh']; subst. inversion Hs as [|? ? _ _ _ Hs'|? ? _ Hs']; subst; [apply IH; assumption|lia].
Qed.

Lemma firstn_app_high (body : str) q rest w : q < 128 -> Forall (fun b => 128 <= b) (firstn w (body ++ q :: rest)) ->
  (w <= length body)%nat.
Proof.
  intros Hq Hh. destruct (Nat.le_gt_cases w (length body)) as [H|H]; [exact H|exfalso].
  rewrite firstn_app in Hh. apply Forall_app in Hh as (_ & Hh).
  destruct (w - length body)%nat as [|m] eqn:Em; [lia|]. cbn [firstn] in Hh. inversion Hh; subst. lia.
Qed.

Lemma dq_safe_plain_inv c r : dq_safe (c :: r) -> c <> 92 -> c <> 34 /\ c <> 10 /\ dq_safe r.
Proof. intros H Hc. inversion H; subst; [auto|congruence]. Qed.

Lemma dq_safe_esc_inv e r : dq_safe (92 :: e :: r) -> e <> 10 /\ dq_safe r.
Proof. intros H. inversion H; subst; [congruence|auto]. Qed.

(* one rune of a dq_safe body in front of the closing quote *)
Lemma dq_rune body rest r w : body <> [] -> dq_safe body -> hd 0 body <> 92 ->
  Utf8.decode (body ++ 34 :: rest) = (r, w) ->
  r <> 34 /\ r <> 92 /\ r <> 10 /\ (w <= length body)%nat /\ dq_safe (skipn w body).
Proof.
  intros Hne Hs Hh Hd. destruct body as [|c b']; [congruence|]. cbn [hd] in Hh.
  destruct (dq_safe_plain_inv c b' Hs Hh) as (H34 & H10 & Hs').
  assert (Hne2 : (c :: b') ++ 34 :: rest <> []) by discriminate.
  pose proof (decode_width _ _ _ Hne2 Hd) as Hw.
  destruct (decode_bytes _ _ _ Hne2 Hd) as [(Hlt & E)|Hhigh].
  - destruct (decode_small _ _ _ Hne2 Hd Hlt) as (-> & t & Et). cbn [app] in Et. injection Et as <- _.
    repeat split; auto. cbn; lia.
  - assert (Hr : 128 <= r \/ r < 128) by lia. destruct Hr as [Hr|Hr].
    2:{ destruct (decode_small _ _ _ Hne2 Hd Hr) as (-> & t & Et). cbn [app] in Et. injection Et as <- _.
        cbn [app firstn] in Hhigh. inversion Hhigh; subst. lia. }
    pose proof (firstn_app_high (c :: b') 34 rest w ltac:(lia) Hhigh) as Hwb.
    repeat split; try lia. apply dq_safe_skip_high; [exact Hs|].
    rewrite firstn_app in Hhigh. apply Forall_app in Hhigh. apply Hhigh.
Qed.

Lemma split_fs (c pre x : str) w tail : (c ++ pre ++ firstn w x) ++ skipn w x ++ tail = c ++ pre ++ x ++ tail.
Proof. rewrite <- !app_assoc. f_equal. f_equal. rewrite app_assoc, firstn_skipn. reflexivity. Qed.

Lemma pstring_dq : forall n body c rest, (length body <= n)%nat -> dq_safe body ->
  pstring (S n) 34 (c ++ body ++ 34 :: rest) (body ++ 34 :: rest) = PTok KString (c ++ body ++ [34]) rest.
Proof.
  induction n as [n IH] using lt_wf_ind. intros body c rest Hn Hs. cbn [pstring].
  destruct body as [|b0 b'].
  - cbn [app snil]. unfold ppeek, prune. rewrite decode_ascii_head by lia. cbn [fst skipn].
    change (34 =? 10) with false. change (34 =? 34) with true. cbn iota.
    replace (c ++ 34 :: rest) with ((c ++ [34]) ++ rest) by (rewrite <- app_assoc; reflexivity). rewrite ptext_app. reflexivity.
  - assert (Hsn : snil ((b0 :: b') ++ 34 :: rest) = false) by reflexivity. rewrite Hsn.
    destruct n as [|n]; [cbn in Hn; lia|].
    destruct (Z.eq_dec b0 92) as [->|H92].
    + (* an escape *)
      destruct b' as [|e r']; [inversion Hs; congruence|].
      destruct (dq_safe_esc_inv e r' Hs) as (He & Hs').
      cbn [app]. unfold ppeek at 1. unfold prune at 1. rewrite decode_ascii_head by lia. cbn [fst skipn].
      change (92 =? 10) with false. change (92 =? 34) with false. change ((92 =? 92) && negb (34 =? 96)) with true. cbn iota.
      assert (Hsn2 : snil (e :: r' ++ 34 :: rest) = false) by reflexivity. rewrite Hsn2.
      destruct (Utf8.decode (e :: r' ++ 34 :: rest)) as [r2 w2] eqn:Hd2.
      pose proof (decode_width _ _ _ (cne _ _) Hd2) as Hw2.
      assert (Hpk : ppeek (e :: r' ++ 34 :: rest) = r2) by (unfold ppeek; rewrite Hd2; reflexivity).
      assert (Hr2 : r2 <> 10).
      { intros ->. destruct (decode_small _ _ _ (cne _ _) Hd2 ltac:(lia)) as (_ & t & Et). injection Et as -> _. congruence. }
      rewrite Hpk. apply Z.eqb_neq in Hr2. rewrite Hr2. unfold prune. rewrite Hd2.
      (* the escaped rune lies inside the body *)
      assert (Hin : (w2 <= length (e :: r'))%nat /\ dq_safe (skipn w2 (e :: r'))).
      { destruct (decode_bytes _ _ _ (cne _ _) Hd2) as [(Hlt & E)|Hhigh].
        - destruct (decode_small _ _ _ (cne _ _) Hd2 Hlt) as (-> & _). split; [cbn; lia|exact Hs'].
        - change (e :: r' ++ 34 :: rest) with ((e :: r') ++ 34 :: rest) in Hhigh.
          pose proof (firstn_app_high (e :: r') 34 rest w2 ltac:(lia) Hhigh) as Hwb. split; [exact Hwb|].
          destruct w2 as [|w2']; [lia|]. cbn [skipn]. apply dq_safe_skip_high; [exact Hs'|].
          rewrite firstn_app in Hhigh. apply Forall_app in Hhigh as (Hh & _). cbn [firstn] in Hh. inversion Hh; assumption. }
      destruct Hin as (Hwb & Hs2).
      change (e :: r' ++ 34 :: rest) with ((e :: r') ++ 34 :: rest). rewrite skipn_app.
      replace (w2 - length (e :: r'))%nat with O by lia. cbn [skipn].
      change (c ++ 92 :: (e :: r') ++ 34 :: rest) with (c ++ [92] ++ (e :: r') ++ 34 :: rest).
      rewrite <- (split_fs c [92] (e :: r') w2 (34 :: rest)).
      rewrite (IH n ltac:(lia) (skipn w2 (e :: r')) _ rest); [|rewrite skipn_length; cbn [length] in *; lia|exact Hs2].
      f_equal. rewrite (split_fs c [92] (e :: r') w2 [34]). reflexivity.
    + destruct (Utf8.decode ((b0 :: b') ++ 34 :: rest)) as [r w] eqn:Hd.
      pose proof (decode_width _ _ _ (cne _ _) Hd) as Hw.
      destruct (dq_rune (b0 :: b') rest r w (cne _ _) Hs H92 Hd) as (R34 & R92 & R10 & Hwb & Hs2).
      assert (Hpk : ppeek ((b0 :: b') ++ 34 :: rest) = r) by (unfold ppeek; cbn [app] in *; rewrite Hd; reflexivity).
      rewrite Hpk. apply Z.eqb_neq in R10, R34, R92. rewrite R10. unfold prune. cbn [app] in Hd |- *. rewrite Hd.
      rewrite R34, R92. cbn [andb].
      change (b0 :: b' ++ 34 :: rest) with ((b0 :: b') ++ 34 :: rest). rewrite skipn_app.
      replace (w - length (b0 :: b'))%nat with O by lia. cbn [skipn].
      change (c ++ (b0 :: b') ++ 34 :: rest) with (c ++ [] ++ (b0 :: b') ++ 34 :: rest).
      rewrite <- (split_fs c [] (b0 :: b') w (34 :: rest)).
      rewrite (IH n ltac:(lia) (skipn w (b0 :: b')) _ rest); [|rewrite skipn_length; cbn [length] in *; lia|exact Hs2].
      f_equal. rewrite (split_fs c [] (b0 :: b') w [34]). reflexivity.
Qed.

(* ---------------------------------------------------------------- AutoQuote *)

Theorem auto_quote_token u : Forall byte u -> u <> [] -> not_lone u ->
  ltext (auto_quote u) /\ parse_string (auto_quote u) = Some (u, auto_quote u) /\
  is_lp (auto_quote u) = false /\ is_rp (auto_quote u) = false.
Proof.
  intros Hb Hne Hl. unfold auto_quote. destruct (must_quote u) eqn:Emq.
  - (* quoted *)
    destruct (quote_shape u Hb) as (body & Eq & Hs).
    assert (Hlx : lexed KString (quote u)).
    { exists (S (length body)), false, []. rewrite app_nil_r, Eq. unfold ptok0.
      rewrite !has_prefix_head_ne by lia. unfold pmain. cbn [snil]. unfold ppeek, prune. rewrite decode_ascii_head by lia.
      cbn [fst skipn]. change (is_punct 34) with false. change ((34 =? 34) || (34 =? 96)) with true. cbn iota.
      pose proof (pstring_dq (length body) body [34] [] (le_n _) Hs) as H. cbn [app] in H. exact H. }
    split; [exists KString; split; [reflexivity|exact Hlx]|]. split.
    + unfold parse_string. rewrite Eq. cbn [has_prefix]. change (34 =? 34) with true. cbn [andb].
      assert (Hp : has_prefix (body ++ [34]) [] = true) by (destruct (body ++ [34]); reflexivity). rewrite Hp.
      rewrite <- Eq, (unquote_quote u Hb). unfold auto_quote. rewrite Emq. reflexivity.
    + rewrite Eq. split; [apply is_lp_cons|apply is_rp_cons]; lia.
  - (* as it stands *)
    destruct (must_quote_false u Emq) as (Hr & _ & H1 & H2).
    assert (Hid : Forall (fun r => is_ident r = true /\ r <> 34 /\ r <> 39 /\ r <> 96 /\ is_punct r = false) (Utf8.runes u)).
    { apply Forall_forall. intros r Hin. rewrite Forall_forall in Hr. apply (mq_rune_ident u r Hl Hin (Hr r Hin)). }
    destruct u as [|b0 t]; [congruence|].
    destruct (Utf8.decode (b0 :: t)) as [r0 w0] eqn:Hd.
    pose proof (runes_step _ _ _ (cne _ _) Hd) as Er. rewrite Er in Hid. inversion Hid as [|? ? (I0 & Q1 & Q2 & Q3 & P0) _]; subst.
    assert (Hpk : ppeek (b0 :: t) = r0) by (unfold ppeek; rewrite Hd; reflexivity).
    assert (Hlx : lexed KIdent (b0 :: t)).
    { exists (S (length (b0 :: t))), false, []. rewrite app_nil_r. unfold ptok0.
      rewrite (contains_sub_head _ _ H1), (contains_sub_head _ _ H2). unfold pmain. cbn [snil]. rewrite Hpk, P0.
      assert (Eq : ((r0 =? 34) || (r0 =? 96)) = false) by (apply Z.eqb_neq in Q1, Q3; rewrite Q1, Q3; reflexivity).
      rewrite Eq, I0. cbn [negb].
      apply (pident_all (length (b0 :: t)) (b0 :: t) [] (le_n _)); auto.
      rewrite <- Er in Hid. eapply Forall_impl; [|exact Hid]. intros r H. apply H. }
    split; [exists KIdent; split; [reflexivity|exact Hlx]|].
    assert (Hby : forall b, In b (b0 :: t) -> b <> 34 /\ b <> 39 /\ b <> 96).
    { intros b Hin. assert (Hc : b < 128 \/ 128 <= b) by lia. destruct Hc as [Hc|Hc]; [|lia].
      pose proof (ascii_byte_rune _ _ b (le_n _) Hin Hc) as Hrn. rewrite <- Er in Hid. rewrite Forall_forall in Hid.
      destruct (Hid b Hrn) as (_ & A & B & C & _). auto. }
    split.
    + unfold parse_string. destruct (Hby b0 ltac:(left; reflexivity)) as (A & _).
      cbn [has_prefix]. apply Z.eqb_neq in A. rewrite Z.eqb_sym in A. rewrite A. cbn [andb].
      assert (Hca : contains_any (b0 :: t) [34; 39; 96] = false).
      { unfold contains_any. destruct (existsb _ (b0 :: t)) eqn:E; [|reflexivity]. apply existsb_exists in E as (b & Hin & E).
        destruct (Hby b Hin) as (B1 & B2 & B3). cbn [existsb] in E. apply Z.eqb_neq in B1, B2, B3. rewrite B1, B2, B3 in E. discriminate. }
      rewrite Hca. unfold auto_quote. rewrite Emq. reflexivity.
    + (* not a parenthesis *)
      split.
      * destruct (is_lp (b0 :: t)) eqn:E; [|reflexivity]. apply is_lp_eq in E. injection E as -> ->.
        rewrite decode_ascii_head in Hd by lia. injection Hd as <- _. discriminate.
      * destruct (is_rp (b0 :: t)) eqn:E; [|reflexivity]. apply is_rp_eq in E. injection E as -> ->.
        rewrite decode_ascii_head in Hd by lia. injection Hd as <- _. discriminate.
Qed.
