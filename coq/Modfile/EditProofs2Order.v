(* C16: the three line comparators of SortBlocks are strict weak orders (lineLess and
   lineRetractLess on all lines, lineExcludeLess on the lines an exclude block can hold); hence
   blocks stay sorted through Cleanup, and the result of a stable sort is determined: whatever
   algorithm sort.SliceStable uses, it returns the list the model computes. *)
From Coq Require Import Sorted Permutation.
From Verif.Base Require Import Bytes.
From Verif.Semver Require Import Spec ProofsOrder ProofsStr ProofsCompare.
From Verif.Modfile Require Import EditModel EditOps EditSpec EditProofsTyped EditProofsHeap EditProofsCoherent
  EditProofsCleanup EditProofsSort.

Arguments hget : simpl never.
Arguments hset : simpl never.

(* ---------------------------------------------------------------- strict weak orders *)
Record StrictWeakOn {A} (D : A -> Prop) (less : A -> A -> bool) : Prop := {
  sw_asym : forall a b, D a -> D b -> less a b = true -> less b a = false;
  sw_trans : forall a b c, D a -> D b -> D c -> less a b = true -> less b c = true -> less a c = true;
  (* "a is not after b" is transitive; with asymmetry this is transitivity of incomparability *)
  sw_le_trans : forall a b c, D a -> D b -> D c -> less b a = false -> less c b = false -> less c a = false
}.

Lemma sw_incomparable_trans {A} (D : A -> Prop) less : StrictWeakOn D less ->
  forall a b c, D a -> D b -> D c ->
  less a b = false /\ less b a = false -> less b c = false /\ less c b = false ->
  less a c = false /\ less c a = false.
Proof.
  intros S a b c Da Db Dc [H1 H2] [H3 H4]. split.
  - exact (sw_le_trans D less S c b a Dc Db Da H3 H1).
  - exact (sw_le_trans D less S a b c Da Db Dc H2 H4).
Qed.

Definition lt_of {K} (c : K -> K -> comparison) (x y : K) : bool := match c x y with Lt => true | _ => false end.

Lemma swo_of_cmp {A K} (D : A -> Prop) (less : A -> A -> bool) (key : A -> K) (c : K -> K -> comparison) :
  POrd c -> (forall a b, D a -> D b -> less a b = lt_of c (key a) (key b)) -> StrictWeakOn D less.
Proof.
  intros P H. split.
  - intros a b Da Db. rewrite (H a b Da Db), (H b a Db Da). unfold lt_of.
    rewrite (po_antisym c P (key a) (key b)). destruct (c (key a) (key b)); cbn; congruence.
  - intros a b d Da Db Dd. rewrite (H a b Da Db), (H b d Db Dd), (H a d Da Dd). unfold lt_of.
    destruct (c (key a) (key b)) eqn:E1; try discriminate. destruct (c (key b) (key d)) eqn:E2; try discriminate.
    rewrite (po_lt_trans c P _ _ _ E1 E2). reflexivity.
  - intros a b d Da Db Dd. rewrite (H b a Db Da), (H d b Dd Db), (H d a Dd Da). unfold lt_of. intros H1 H2.
    assert (G1 : c (key a) (key b) <> Gt).
    { rewrite (po_antisym c P (key b) (key a)). destruct (c (key b) (key a)); cbn; congruence. }
    assert (G2 : c (key b) (key d) <> Gt).
    { rewrite (po_antisym c P (key d) (key b)). destruct (c (key d) (key b)); cbn; congruence. }
    pose proof (po_le_trans c P _ _ _ G1 G2) as G3.
    rewrite (po_antisym c P (key a) (key d)). destruct (c (key a) (key d)); cbn; congruence.
Qed.

Definition flipc {K} (c : K -> K -> comparison) : K -> K -> comparison := fun x y => c y x.

Lemma flipc_POrd {K} (c : K -> K -> comparison) : POrd c -> POrd (flipc c).
Proof.
  intros P. unfold flipc. split.
  - intros x y. apply (po_antisym c P).
  - intros x y z H. apply (po_eq_cong_r c P). apply (po_eq_sym c P). exact H.
  - intros x y z H1 H2. exact (po_lt_trans c P z y x H2 H1).
Qed.

(* ---------------------------------------------------------------- lineLess *)
Definition any {A} (_ : A) : Prop := True.

Lemma str_eqb_cmp x y : str_eqb x y = true <-> str_cmp x y = Eq.
Proof. rewrite str_eqb_eq, str_cmp_eq. tauto. Qed.

Lemma toks_less_cmp a b : toks_less a b = lt_of (list_lex str_cmp) a b.
Proof.
  unfold lt_of. revert b. induction a as [|x a IH]; intros [|y b]; cbn; try reflexivity.
  destruct (str_eqb x y) eqn:E.
  - apply str_eqb_cmp in E. rewrite E. apply IH.
  - unfold str_ltb. destruct (str_cmp x y) eqn:Ec; try reflexivity.
    apply str_eqb_cmp in Ec. congruence.
Qed.

Theorem toks_less_swo : StrictWeakOn any toks_less.
Proof.
  apply (swo_of_cmp any toks_less (fun t => t) (list_lex str_cmp)).
  - apply list_lex_POrd. apply str_cmp_POrd.
  - intros a b _ _. apply toks_less_cmp.
Qed.

(* ---------------------------------------------------------------- lineRetractLess *)
Definition interval_cmp : str * str -> str * str -> comparison :=
  lexc (pull fst (flipc cmp_version)) (pull snd (flipc cmp_version)).

Lemma interval_cmp_POrd : POrd interval_cmp.
Proof. apply lexc_POrd; apply pull_POrd; apply flipc_POrd; apply cmp_version_POrd. Qed.

Lemma semver_gt_cmp a b : (0 <? semver_compare a b) = lt_of (flipc cmp_version) a b.
Proof.
  unfold semver_compare, lt_of, flipc. rewrite compare_cmp, (po_antisym _ cmp_version_POrd a b).
  destruct (cmp_version a b); reflexivity.
Qed.

Lemma semver_eq0_cmp a b : (semver_compare a b =? 0) = match flipc cmp_version a b with Eq => true | _ => false end.
Proof.
  unfold semver_compare, flipc. rewrite compare_cmp, (po_antisym _ cmp_version_POrd a b).
  destruct (cmp_version a b); reflexivity.
Qed.

Lemma retract_less_cmp a b : retract_less a b = lt_of interval_cmp (retract_interval a) (retract_interval b).
Proof.
  unfold retract_less, lt_of, interval_cmp, lexc, pull.
  destruct (retract_interval a) as [la ha], (retract_interval b) as [lb hb]. cbn [fst snd].
  rewrite semver_eq0_cmp, !semver_gt_cmp. unfold lt_of.
  destruct (flipc cmp_version la lb); reflexivity.
Qed.

Theorem retract_less_swo : StrictWeakOn any retract_less.
Proof.
  apply (swo_of_cmp any retract_less retract_interval interval_cmp interval_cmp_POrd).
  intros a b _ _. apply retract_less_cmp.
Qed.

(* ---------------------------------------------------------------- lineExcludeLess *)
(* the lines of an exclude block: removed lines (no token) and "path version" *)
Definition exclude_line (t : list str) : Prop := t = [] \/ length t = 2%nat.

Definition exclude_key (t : list str) : option (str * str) :=
  match t with [p; v] => Some (p, v) | _ => None end.

Definition exclude_cmp : option (str * str) -> option (str * str) -> comparison :=
  opt_bot (lexc (pull fst str_cmp) (pull snd cmp_version)).

Lemma exclude_cmp_POrd : POrd exclude_cmp.
Proof.
  apply opt_bot_POrd. apply lexc_POrd; apply pull_POrd; [apply str_cmp_POrd | apply cmp_version_POrd].
Qed.

Lemma semver_lt_cmp a b : (semver_compare a b <? 0) = lt_of cmp_version a b.
Proof. unfold semver_compare, lt_of. rewrite compare_cmp. destruct (cmp_version a b); reflexivity. Qed.

Lemma exclude_less_cmp a b :
  exclude_line a -> exclude_line b -> exclude_less a b = lt_of exclude_cmp (exclude_key a) (exclude_key b).
Proof.
  intros [->|Ha] [->|Hb].
  - reflexivity.
  - destruct b as [|pb [|vb [|? ?]]]; try discriminate Hb. reflexivity.
  - destruct a as [|pa [|va [|? ?]]]; try discriminate Ha. reflexivity.
  - destruct a as [|pa [|va [|? ?]]]; try discriminate Ha. destruct b as [|pb [|vb [|? ?]]]; try discriminate Hb.
    cbn [exclude_less exclude_key]. unfold lt_of, exclude_cmp, opt_bot, lexc, pull. cbn [fst snd].
    destruct (str_eqb pa pb) eqn:E.
    + apply str_eqb_cmp in E. rewrite E. apply semver_lt_cmp.
    + unfold str_ltb. destruct (str_cmp pa pb) eqn:Ec; try reflexivity.
      apply str_eqb_cmp in Ec. congruence.
Qed.

Theorem exclude_less_swo : StrictWeakOn exclude_line exclude_less.
Proof.
  apply (swo_of_cmp exclude_line exclude_less exclude_key exclude_cmp exclude_cmp_POrd).
  intros a b. apply exclude_less_cmp.
Qed.

(* the mixture is NOT an order on arbitrary token lists: with one-token and three-token lines
   lineExcludeLess falls back to lineLess, and the two orders disagree *)
Lemma exclude_less_not_transitive_in_general :
  exists a b c, exclude_less a b = true /\ exclude_less b c = true /\ exclude_less a c = false.
Proof.
  exists [B "m"; B "v1.10.0"], [B "m"; B "v1.10.0"; B "x"], [B "m"; B "v1.9.0"]. vm_compute. auto.
Qed.

(* ---------------------------------------------------------------- sorted lists and sublists *)
Section SortedOn.
  Context {A} (D : A -> Prop) (less : A -> A -> bool) (S : StrictWeakOn D less).

  Lemma sorted_strongly l : Forall D l -> Sorted (le_of less) l -> StronglySorted (le_of less) l.
  Proof.
    induction l as [|a r IH]; intros HD Hs; [constructor|].
    inversion HD as [|? ? Da Dr]; subst. inversion Hs as [|? ? Hr Hh]; subst.
    specialize (IH Dr Hr). constructor; [exact IH|].
    destruct r as [|b r']; [constructor|].
    inversion Hh as [|? ? Hab]; subst. inversion IH as [|? ? _ Hall]; subst. inversion Dr as [|? ? Db Dr']; subst.
    constructor; [exact Hab|]. rewrite Forall_forall in *. intros x Hx. unfold le_of in *.
    apply (sw_le_trans D less S a b x Da Db (Dr' x Hx) Hab (Hall x Hx)).
  Qed.

  Lemma strongly_filter (p : A -> bool) l : StronglySorted (le_of less) l -> StronglySorted (le_of less) (filter p l).
  Proof.
    induction 1 as [|a r Hr IH Hall]; cbn; [constructor|].
    destruct (p a); [|exact IH]. constructor; [exact IH|].
    rewrite Forall_forall in *. intros x Hx. apply filter_In in Hx. apply Hall. tauto.
  Qed.

  Lemma sorted_filter (p : A -> bool) l : Forall D l -> Sorted (le_of less) l -> Sorted (le_of less) (filter p l).
  Proof. intros HD Hs. apply StronglySorted_Sorted, strongly_filter, sorted_strongly; assumption. Qed.
End SortedOn.

(* ---------------------------------------------------------------- the stable sort is determined *)
Fixpoint before {A} (l : list A) (x y : A) : Prop :=
  match l with
  | [] => False
  | a :: r => (a = x /\ In y r) \/ before r x y
  end.

Lemma before_in {A} (l : list A) x y : before l x y -> In x l /\ In y l.
Proof.
  induction l as [|a r IH]; cbn; [tauto|]. intros [[-> Hy]|H]; [auto|]. destruct (IH H). auto.
Qed.

Lemma before_asym {A} (l : list A) x y : NoDup l -> before l x y -> before l y x -> False.
Proof.
  induction l as [|a r IH]; cbn; [tauto|]. intros Hnd H1 H2. inversion Hnd as [|? ? Hni Hr]; subst.
  destruct H1 as [[-> Hy]|H1], H2 as [[-> Hx]|H2].
  - exact (Hni Hy).
  - apply before_in in H2. tauto.
  - apply before_in in H1. tauto.
  - exact (IH Hr H1 H2).
Qed.

Lemma before_total {A} (l : list A) x y : In x l -> In y l -> x <> y -> before l x y \/ before l y x.
Proof.
  induction l as [|a r IH]; cbn; [tauto|]. intros [->|Hx] [->|Hy] Hne.
  - congruence.
  - left. left. auto.
  - right. left. auto.
  - destruct (IH Hx Hy Hne); auto.
Qed.

Lemma before_tail {A} (a : A) r x y : before (a :: r) x y -> x <> a -> before r x y.
Proof. cbn. intros [[-> _]|H] Hne; [congruence | exact H]. Qed.

Section Stable.
  Context {A} (less : A -> A -> bool).

  (* elements that the comparator does not separate keep the order they have in l *)
  Definition stable_wrt (l l' : list A) : Prop :=
    forall x y, before l x y -> less x y = false -> less y x = false -> before l' x y.

  Lemma insert_before_mono x L u v : before L u v -> before (insert_by less x L) u v.
  Proof.
    induction L as [|y r IH]; cbn; [tauto|]. intros H.
    destruct (less y x); cbn; [|right; exact H].
    destruct H as [[-> Hv]|H]; [left; split; [reflexivity|] | right; apply IH; exact H].
    apply (Permutation_in _ (insert_by_perm less x r)). right. exact Hv.
  Qed.

  Lemma insert_before_new x L v : In v L -> less v x = false -> before (insert_by less x L) x v.
  Proof.
    induction L as [|y r IH]; cbn; [tauto|]. intros Hv Hl.
    destruct (less y x) eqn:E; cbn.
    - right. destruct Hv as [->|Hv]; [congruence | apply IH; assumption].
    - left. auto.
  Qed.

  (* the model's sort (stable insertion) is a stable sort *)
  Theorem stable_sort_stable l : stable_wrt l (stable_sort less l).
  Proof.
    induction l as [|a r IH]; intros x y H Hxy Hyx; cbn in *; [destruct H|].
    destruct H as [[-> Hy]|H].
    - apply insert_before_new; [|exact Hyx]. apply (Permutation_in _ (stable_sort_perm less r)). exact Hy.
    - apply insert_before_mono. apply IH; assumption.
  Qed.

  Context (D : A -> Prop) (S : StrictWeakOn D less).

  Lemma sorted_stable_unique l : forall l1 l2,
    NoDup l1 -> Forall D l1 -> Permutation l1 l2 ->
    Sorted (le_of less) l1 -> Sorted (le_of less) l2 ->
    (forall x y, In x l1 -> In y l1 -> x <> y -> before l x y \/ before l y x) ->
    (forall x y, In x l1 -> In y l1 -> before l x y -> before l y x -> False) ->
    (forall x y, In x l1 -> In y l1 -> before l x y -> less x y = false -> less y x = false -> before l1 x y) ->
    (forall x y, In x l1 -> In y l1 -> before l x y -> less x y = false -> less y x = false -> before l2 x y) ->
    l1 = l2.
  Proof.
    induction l1 as [|x r1 IH]; intros l2 Hnd HD Hp Hs1 Hs2 Htot Hasym Hst1 Hst2.
    - apply Permutation_nil in Hp. congruence.
    - assert (Hnd2 : NoDup l2) by (eapply Permutation_NoDup; eauto).
      assert (HD2 : Forall D l2) by (eapply Permutation_Forall; eauto).
      pose proof (sorted_strongly D less S _ HD Hs1) as SS1.
      pose proof (sorted_strongly D less S _ HD2 Hs2) as SS2.
      destruct l2 as [|y r2]; [apply Permutation_sym, Permutation_nil in Hp; discriminate|].
      assert (Hxy : x = y).
      { destruct (Permutation_in y (Permutation_sym Hp) (or_introl eq_refl)) as [E|Hy1]; [exact E|].
        destruct (Permutation_in x Hp (or_introl eq_refl)) as [E|Hx2]; [congruence|].
        exfalso.
        assert (Hne : x <> y) by (intros ->; inversion Hnd; contradiction).
        (* x precedes y in l1, y precedes x in l2: neither is less than the other *)
        inversion SS1 as [|? ? _ Hall1]; subst. inversion SS2 as [|? ? _ Hall2]; subst.
        rewrite Forall_forall in Hall1, Hall2.
        pose proof (Hall1 y Hy1) as L1. pose proof (Hall2 x Hx2) as L2. unfold le_of in L1, L2.
        destruct (Htot x y (or_introl eq_refl) (or_intror Hy1) Hne) as [Hb|Hb].
        - pose proof (Hst2 x y (or_introl eq_refl) (or_intror Hy1) Hb L2 L1) as Hb2.
          cbn in Hb2. destruct Hb2 as [[E _]|Hb2]; [congruence|]. apply before_in in Hb2.
          inversion Hnd2; tauto.
        - pose proof (Hst1 y x (or_intror Hy1) (or_introl eq_refl) Hb L1 L2) as Hb1.
          cbn in Hb1. destruct Hb1 as [[E _]|Hb1]; [congruence|]. apply before_in in Hb1.
          inversion Hnd; tauto. }
      subst y. f_equal.
      inversion Hnd as [|? ? Hx1 Hnd1]; subst. inversion HD as [|? ? _ HD1]; subst.
      inversion Hs1; subst. inversion Hs2; subst.
      apply IH; try assumption.
      + eapply Permutation_cons_inv; eauto.
      + intros u v Hu Hv. apply Htot; right; assumption.
      + intros u v Hu Hv. apply Hasym; right; assumption.
      + intros u v Hu Hv Hb L1 L2. apply (before_tail x r1 u v); [apply Hst1; auto; right; assumption|].
        intros ->. contradiction.
      + intros u v Hu Hv Hb L1 L2. apply (before_tail x r2 u v); [apply Hst2; auto; right; assumption|].
        intros ->. contradiction.
  Qed.

  (* sortedness of the model's sort, with asymmetry known on D only *)
  Lemma insert_by_sorted_on x L : D x -> Forall D L -> Sorted (le_of less) L -> Sorted (le_of less) (insert_by less x L).
  Proof.
    intros Dx. induction L as [|y r IH]; intros HD Hs; cbn.
    - repeat constructor.
    - inversion HD as [|? ? Dy Dr]; subst. inversion Hs as [|? ? Hr Hh]; subst. destruct (less y x) eqn:E.
      + constructor; [apply IH; assumption|].
        apply insert_by_hdrel; [|exact Hh]. unfold le_of. apply (sw_asym D less S y x Dy Dx E).
      + constructor; [exact Hs|]. constructor. exact E.
  Qed.

  Lemma stable_sort_sorted_on l : Forall D l -> Sorted (le_of less) (stable_sort less l).
  Proof.
    induction l as [|x r IH]; intros HD; cbn; [constructor|]. inversion HD as [|? ? Dx Dr]; subst.
    apply insert_by_sorted_on; [exact Dx | | apply IH; exact Dr].
    eapply Permutation_Forall; [apply stable_sort_perm | exact Dr].
  Qed.

  (* any sorted, stable rearrangement of l is the list the model's sort returns *)
  Theorem stable_sort_unique l l' :
    NoDup l -> Forall D l -> Permutation l l' -> Sorted (le_of less) l' -> stable_wrt l l' ->
    l' = stable_sort less l.
  Proof.
    intros Hnd HD Hp Hs Hst.
    assert (Hnd' : NoDup l') by (eapply Permutation_NoDup; eauto).
    apply (sorted_stable_unique l l' (stable_sort less l)).
    - exact Hnd'.
    - eapply Permutation_Forall; eauto.
    - etransitivity; [symmetry; exact Hp | apply stable_sort_perm].
    - exact Hs.
    - apply stable_sort_sorted_on. exact HD.
    - intros x y Hx Hy Hne. apply before_total; [| | exact Hne]; eapply Permutation_in; try (symmetry; exact Hp); assumption.
    - intros x y _ _. apply before_asym. exact Hnd.
    - intros x y _ _. apply Hst.
    - intros x y _ _. apply stable_sort_stable.
  Qed.
End Stable.
