(* Round trip, part 12e: the statement loop of parseToFile on a tree that carries the
   rewritten tokens of a first run: the same values, no error ([file_of_syntax_sim]). *)
From Verif.Base Require Import Bytes Utf8 Strconv QuoteProofs.
From Verif.Semver Require Import Spec Model.
From Verif.Module Require Import Path.
From Verif.Modfile Require Import Syntax Lex Parse Print Directives ProofsLex ProofsDirectives RoundRows
  RoundLexPure4 RoundLexB1 RoundTree RoundQuote RoundSemver RoundDir1 RoundDir2 RoundDir3.

(* ---------------------------------------------------------------- the structure only grows *)

Definition ext (f f' : file) : Prop :=
  (fd_module f = None \/ fd_module f' = fd_module f) /\
  (exists x, fd_require f' = fd_require f ++ x) /\ (exists x, fd_exclude f' = fd_exclude f ++ x) /\
  (exists x, fd_replace f' = fd_replace f ++ x) /\ (exists x, fd_retract f' = fd_retract f ++ x) /\
  (exists x, fd_tool f' = fd_tool f ++ x).

Lemma ext_refl f : ext f f.
Proof. split; [right; reflexivity|]. repeat split; exists []; symmetry; apply app_nil_r. Qed.

Lemma ext_trans a b c : ext a b -> ext b c -> ext a c.
Proof.
  intros (M1 & (r1 & R1) & (e1 & E1) & (p1 & P1) & (t1 & T1) & (l1 & L1))
         (M2 & (r2 & R2) & (e2 & E2) & (p2 & P2) & (t2 & T2) & (l2 & L2)).
  split.
  - destruct M1 as [M1|M1]; [left; exact M1|]. destruct M2 as [M2|M2]; [left; congruence|right; congruence].
  - repeat split; eexists; [rewrite R2, R1|rewrite E2, E1|rewrite P2, P1|rewrite T2, T1|rewrite L2, L1]; rewrite <- app_assoc; reflexivity.
Qed.

Lemma wf_ext f f' : ext f f' -> wf_file f' -> wf_file f.
Proof.
  intros (M & (r & R) & (e & E) & (p & P) & (t & T) & (l & L)) (W1 & W2 & W3 & W4 & W5 & W6).
  rewrite R in W2. rewrite E in W3. rewrite P in W4. rewrite T in W5. rewrite L in W6.
  apply Forall_app in W2, W3, W4, W5, W6.
  split; [destruct M as [M|M]; [rewrite M; exact I|rewrite <- M; exact W1]|]. tauto.
Qed.

Ltac ext_solve :=
  split; [first [right; reflexivity | left; assumption]|];
  repeat split; first [exists []; symmetry; apply app_nil_r | eexists; reflexivity].

Lemma add_ext fx f blk l ref verb args : ext f (st_file (add true fx f blk l ref verb args)).
Proof.
  unfold add. cbn [negb andb].
  destruct (is_verb verb "go").
  { unfold add_go. destruct (fd_go f); [apply ext_refl|]. destruct args as [|a [|a' r]]; try apply ext_refl.
    destruct (go_version_re a); cbn [negb]; [|apply ext_refl]. cbn. ext_solve. }
  destruct (is_verb verb "toolchain").
  { unfold add_toolchain. destruct (fd_toolchain f); [apply ext_refl|]. destruct args as [|a [|a' r]]; try apply ext_refl.
    destruct (toolchain_re a); [|apply ext_refl]. cbn. ext_solve. }
  destruct (is_verb verb "module").
  { destruct (fd_module f) eqn:Em; [apply ext_refl|]. destruct args as [|a [|a' r]]; try (cbn; ext_solve).
    destruct (parse_string a) as [[s tok]|]; cbn; ext_solve. }
  destruct (is_verb verb "godebug").
  { unfold add_godebug. destruct args as [|a [|a' r]]; try apply ext_refl.
    destruct (contains_any a [34; 96; 39; 44]); [apply ext_refl|]. destruct (cut_eq a) as [[k v]|]; [|apply ext_refl]. cbn. ext_solve. }
  destruct (is_verb verb "require" || is_verb verb "exclude").
  { destruct args as [|a0 [|a1 [|a2 r]]]; try apply ext_refl.
    destruct (parse_string a0) as [[s tok0]|]; [|apply ext_refl].
    destruct (parse_version fx s a1) as [tok1 v]. destruct v as [v|]; [|apply ext_refl].
    destruct (module_path_major s); [|apply ext_refl]. destruct (negb (check_path_major v s0)); [apply ext_refl|].
    destruct (is_verb verb "require"); cbn; ext_solve. }
  destruct (is_verb verb "replace").
  { destruct (parse_replace fx verb ref args) as [a' [r|]]; [|apply ext_refl]. cbn. ext_solve. }
  destruct (is_verb verb "retract").
  { destruct (parse_version_interval dont_fix [] args) as [a' [[[lo hi] rest]|]]; [|apply ext_refl].
    destruct (negb (Parse.is_nil rest) && true); [apply ext_refl|]. cbn. ext_solve. }
  destruct (is_verb verb "tool").
  { destruct args as [|a [|a' r]]; try apply ext_refl. destruct (parse_string a) as [[s tok]|]; [|apply ext_refl]. cbn. ext_solve. }
  apply ext_refl.
Qed.

Section Loop.
Variable fx : fixer.
Hypothesis Hfx : fixer_ok fx.

Notation addl := (fun f blk l ref verb args => add true fx f blk l ref verb args).

Lemma block_lines_ext blk verb i : forall ls j f errs acc,
  ext f (fst (fst (block_lines (fun f l ref args => add true fx f blk l ref verb args) i j ls f errs acc))).
Proof.
  induction ls as [|l ls IH]; intros j f errs acc; cbn [block_lines]; [apply ext_refl|].
  eapply ext_trans; [apply add_ext|apply IH].
Qed.

Lemma stmt_step_ext i x st : ext (lp_file st) (lp_file (step_of true fx i x st)).
Proof.
  unfold step_of, stmt_step. destruct x as [l|b|c]; cbn [lp_file]; try apply ext_refl.
  - destruct (l_token l); cbn [lp_file]; [apply ext_refl|apply add_ext].
  - destruct (b_token b) as [|verb [|v2 r]]; cbn [lp_file]; try apply ext_refl.
    destruct (known_mod_block verb); cbn [lp_file]; [|apply ext_refl].
    pose proof (block_lines_ext (Some b) verb i (b_line b) O (lp_file st) (lp_errs_r st) []) as H.
    destruct (block_lines _ i O (b_line b) (lp_file st) (lp_errs_r st) []) as [[f' e'] ls']. exact H.
Qed.

Lemma stmts_loop_ext : forall xs i st, ext (lp_file st) (lp_file (stmts_loop (step_of true fx) i xs st)).
Proof.
  induction xs as [|x xs IH]; intros i st; cbn [stmts_loop]; [apply ext_refl|].
  eapply ext_trans; [apply stmt_step_ext|apply IH].
Qed.

(* ---------------------------------------------------------------- panics stay *)

Lemma stmt_step_panic i x st : lp_panic st = true -> lp_panic (step_of true fx i x st) = true.
Proof.
  intros H. unfold step_of, stmt_step. destruct x as [l|b|c]; cbn [lp_panic]; auto.
  - destruct (l_token l); cbn [lp_panic]; auto.
  - destruct (b_token b) as [|verb [|v2 r]]; cbn [lp_panic]; auto.
    destruct (known_mod_block verb); cbn [lp_panic]; auto.
    destruct (block_lines _ i O (b_line b) (lp_file st) (lp_errs_r st) []) as [[f' e'] ls']. exact H.
Qed.

Lemma stmts_loop_panic : forall xs i st, lp_panic st = true -> lp_panic (stmts_loop (step_of true fx) i xs st) = true.
Proof. induction xs as [|x xs IH]; intros i st H; cbn [stmts_loop]; [exact H|]. apply IH. apply stmt_step_panic. exact H. Qed.

(* ---------------------------------------------------------------- the second tree *)

Definition lrel (b1 b2 : option line_block) (l1 l2 : line) : Prop :=
  l_token l2 = l_token l1 /\ ctx_eq b1 l1 b2 l2.

(* a statement rebuilt by the first run, and the statement of the second tree *)
Definition yrel (y1 x2 : expr) : Prop :=
  match y1, x2 with
  | ECommentBlock _, ECommentBlock _ => True
  | ELine l1, ELine l2 => lrel None None l1 l2
  | EBlock b1, EBlock b2 => b_token b2 = b_token b1 /\ Forall2 (lrel (Some b1) (Some b2)) (b_line b1) (b_line b2)
  | _, _ => False
  end.

Lemma ctx_set_token blk blk' l args l2 b2 :
  (match blk, blk' with Some b, Some b' => b_comments b' = b_comments b | None, None => True | _, _ => False end) ->
  ctx_eq blk' (line_set_token l args) b2 l2 -> ctx_eq blk l b2 l2.
Proof.
  intros Hb (A & B). split; [exact A|]. rewrite <- B. unfold directive_comment. cbn [line_set_token l_comments].
  destruct blk as [b|], blk' as [b'|]; try contradiction; [rewrite Hb|]; reflexivity.
Qed.

Definition sim (S1 S2 : loop_state file) : Prop :=
  vals (lp_file S1) = vals (lp_file S2) /\ lp_errs_r S2 = [] /\ lp_panic S2 = false.

(* the accumulator of block_lines only collects the rebuilt lines *)
Lemma block_lines_acc {F} (addf : F -> line -> line_ref -> list str -> step F) i : forall ls j f errs acc,
  block_lines addf i j ls f errs acc =
  (fst (block_lines addf i j ls f errs []), frev acc ++ snd (block_lines addf i j ls f errs [])).
Proof.
  induction ls as [|l ls IH]; intros j f errs acc; cbn [block_lines].
  - cbn [fst snd]. rewrite app_nil_r. reflexivity.
  - rewrite (IH _ _ _ (_ :: acc)), (IH _ _ _ [_]). cbn [fst snd]. f_equal.
    rewrite !frev_rev. cbn [rev app]. rewrite <- app_assoc. reflexivity.
Qed.

(* the lines of a block *)
Lemma block_lines_sim b1 b1' b2 verb i i2 : b_comments b1' = b_comments b1 ->
  forall ls1 j f1 ls2 j2 f2 acc2,
  let r1 := block_lines (fun f l ref args => add true fx f (Some b1) l ref verb args) i j ls1 f1 [] [] in
  snd (fst r1) = [] -> wf_file (fst (fst r1)) -> vals f1 = vals f2 ->
  Forall2 (lrel (Some b1') (Some b2)) (snd r1) ls2 ->
  let r2 := block_lines (fun f l ref args => add true fx f (Some b2) l ref verb args) i2 j2 ls2 f2 [] acc2 in
  snd (fst r2) = [] /\ vals (fst (fst r1)) = vals (fst (fst r2)).
Proof.
  intros Hbc. induction ls1 as [|l ls1 IH]; intros j f1 ls2 j2 f2 acc2; cbv zeta; cbn [block_lines].
  - intros _ _ Hv H2. cbn [fst snd] in *. inversion H2; subst. cbn. auto.
  - intros He Hwf Hv H2.
    destruct (st_err (add true fx f1 (Some b1) l (i, Some j) verb (l_token l))) eqn:E.
    { exfalso. revert He. apply block_lines_errs_mono. unfold add_err. rewrite E. discriminate. }
    unfold add_err in *. rewrite E in *.
    set (s1 := add true fx f1 (Some b1) l (i, Some j) verb (l_token l)) in *.
    rewrite block_lines_acc in He, Hwf, H2. cbn [fst snd] in He, Hwf, H2.
    rewrite frev_rev in H2. cbn [rev app] in H2.
    assert (Hwf1 : wf_file (st_file s1)) by (eapply wf_ext; [|exact Hwf]; apply block_lines_ext).
    inversion H2 as [|y1 l2 ys1 ls2' (Htok & Hctx) Hrest]; subst. cbn [block_lines].
    cbn [line_set_token l_token] in Htok.
    pose proof (ctx_set_token (Some b1) (Some b1') l (st_args s1) l2 (Some b2) Hbc Hctx) as Hctx'.
    destruct (add_sim fx Hfx f1 f2 (Some b1) (Some b2) l l2 (i, Some j) (i2, Some j2) verb (l_token l) E Hv Hctx' Hwf1)
      as (E2 & A2 & V2 & _). fold s1 in E2, A2, V2.
    unfold add_err. rewrite Htok, E2.
    rewrite (block_lines_acc _ i ls1 (S j) (st_file s1) [] [_]). cbn [fst snd].
    apply (IH (S j) (st_file s1) ls2' (S j2) _ _ He Hwf); [symmetry; exact V2|exact Hrest].
Qed.

Definition step2 := step_of true fx.

Lemma stmt_step_sim i i2 x1 x2 S1 S2 :
  lp_errs_r (step2 i x1 S1) = [] -> lp_panic (step2 i x1 S1) = false -> wf_file (lp_file (step2 i x1 S1)) ->
  sim S1 S2 ->
  exists y1, lp_stmts_r (step2 i x1 S1) = y1 :: lp_stmts_r S1 /\
    (yrel y1 x2 -> sim (step2 i x1 S1) (step2 i2 x2 S2)).
Proof.
  unfold step2, step_of, stmt_step. intros He Hp Hwf (Hv & He2 & Hp2).
  destruct x1 as [l|b|c].
  - destruct (l_token l) as [|verb args] eqn:Et; cbn [lp_panic lp_errs_r lp_file lp_stmts_r] in *; [discriminate|].
    eexists. split; [reflexivity|]. intros Hy. destruct x2 as [l2|b2|c2]; try contradiction.
    destruct Hy as (Htok & Hctx). cbn [line_set_token l_token] in Htok. rewrite Htok.
    apply add_err_nil in He as (E & He1).
    pose proof (ctx_set_token None None l _ l2 None I Hctx) as Hctx'.
    destruct (add_sim fx Hfx (lp_file S1) (lp_file S2) None None l l2 (i, None) (i2, None) verb args E Hv Hctx' Hwf) as (E2 & A2 & V2 & _).
    unfold sim. cbn [lp_file lp_errs_r lp_panic]. unfold add_err. rewrite E2. split; [symmetry; exact V2|auto].
  - destruct (b_token b) as [|verb [|v2 r]] eqn:Et; cbn [lp_panic lp_errs_r lp_file lp_stmts_r] in *; try discriminate.
    destruct (known_mod_block verb) eqn:Ek; cbn [lp_panic lp_errs_r lp_file lp_stmts_r] in *; [|discriminate].
    assert (He1 : lp_errs_r S1 = []).
    { destruct (lp_errs_r S1) eqn:Ee; [reflexivity|]. exfalso.
      pose proof (block_lines_errs_mono (fun f l ref args => add true fx f (Some b) l ref verb args) i (b_line b) O (lp_file S1) (p :: l) []
                    ltac:(discriminate)) as Hm.
      destruct (block_lines _ i O (b_line b) (lp_file S1) (p :: l) []) as [[f' e'] ls']. cbn in *. congruence. }
    rewrite He1 in *.
    destruct (block_lines (fun f l ref args => add true fx f (Some b) l ref verb args) i O (b_line b) (lp_file S1) [] [])
      as [[f' e'] ls'] eqn:Ebl. cbn [lp_panic lp_errs_r lp_file lp_stmts_r] in *.
    eexists. split; [reflexivity|]. intros Hy. destruct x2 as [l2|b2|c2]; try contradiction.
    destruct Hy as (Htok & Hls). cbn [b_token b_line] in Htok, Hls. rewrite Htok, Ek, He2.
    pose proof (block_lines_sim b _ b2 verb i i2 eq_refl (b_line b) O (lp_file S1) (b_line b2) O (lp_file S2) []) as Hs.
    cbv zeta in Hs. rewrite Ebl in Hs. cbn [fst snd] in Hs. specialize (Hs He Hwf Hv Hls).
    destruct (block_lines _ i2 O (b_line b2) (lp_file S2) [] []) as [[f2' e2'] ls2']. cbn [fst snd] in Hs.
    unfold sim. cbn [lp_file lp_errs_r lp_panic]. destruct Hs as (A & B). auto.
  - cbn [lp_panic lp_errs_r lp_file lp_stmts_r] in *. eexists. split; [reflexivity|]. intros Hy.
    destruct x2 as [l2|b2|c2]; try contradiction. unfold sim. cbn [lp_file lp_errs_r lp_panic]. auto.
Qed.

Lemma stmts_loop_stmts : forall xs i st, exists ys,
  lp_stmts_r (stmts_loop step2 i xs st) = rev ys ++ lp_stmts_r st /\ length ys = length xs.
Proof.
  induction xs as [|x xs IH]; intros i st; cbn [stmts_loop]; [exists []; auto|].
  destruct (IH (S i) (step2 i x st)) as (ys & E & L).
  assert (Hx : exists y, lp_stmts_r (step2 i x st) = y :: lp_stmts_r st).
  { unfold step2, step_of, stmt_step. destruct x as [l|b|c]; cbn [lp_stmts_r]; eauto.
    - destruct (l_token l); cbn [lp_stmts_r]; eauto.
    - destruct (b_token b) as [|verb [|v2 r]]; cbn [lp_stmts_r]; eauto.
      destruct (known_mod_block verb); cbn [lp_stmts_r]; eauto.
      destruct (block_lines _ i O (b_line b) (lp_file st) (lp_errs_r st) []) as [[f' e'] ls']. cbn [lp_stmts_r]. eauto. }
  destruct Hx as (y & Ey). exists (y :: ys). rewrite E, Ey. cbn [rev length]. rewrite <- app_assoc. split; [reflexivity|lia].
Qed.

Lemma stmts_loop_sim : forall xs1 i S1 ys xs2 i2 S2,
  let Sf := stmts_loop step2 i xs1 S1 in
  lp_errs_r Sf = [] -> lp_panic Sf = false -> wf_file (lp_file Sf) ->
  lp_stmts_r Sf = rev ys ++ lp_stmts_r S1 -> Forall2 yrel ys xs2 -> sim S1 S2 ->
  sim Sf (stmts_loop step2 i2 xs2 S2).
Proof.
  induction xs1 as [|x xs1 IH]; intros i S1 ys xs2 i2 S2; cbv zeta; cbn [stmts_loop]; intros He Hp Hwf Hst Hy Hs.
  - assert (ys = []).
    { apply (f_equal (@length expr)) in Hst. rewrite app_length, rev_length in Hst. destruct ys; [reflexivity|cbn in Hst; lia]. }
    subst ys. inversion Hy; subst. exact Hs.
  - set (S1' := step2 i x S1) in *.
    assert (He1 : lp_errs_r S1' = []).
    { destruct (lp_errs_r S1') eqn:E; [reflexivity|]. exfalso. revert He. apply (stmts_loop_errs_mono true fx). rewrite E. discriminate. }
    assert (Hp1 : lp_panic S1' = false).
    { destruct (lp_panic S1') eqn:E; [|reflexivity]. pose proof (stmts_loop_panic xs1 (S i) S1' E) as Hx.
      change (step_of true fx) with step2 in Hx. rewrite Hx in Hp. discriminate. }
    assert (Hwf1 : wf_file (lp_file S1')) by (eapply wf_ext; [apply (stmts_loop_ext xs1 (S i) S1')|exact Hwf]).
    destruct (stmts_loop_stmts xs1 (S i) S1') as (ys' & E' & L').
    destruct ys as [|y ys0].
    { exfalso. rewrite Hst in E'. cbn [rev app] in E'.
      destruct (stmt_step_sim i i2 x (ECommentBlock (mkCommentBlock no_comments zero_pos)) S1 S2 He1 Hp1 Hwf1 Hs) as (y1 & Ey1 & _).
      fold S1' in Ey1. rewrite Ey1 in E'. apply (f_equal (@length expr)) in E'. rewrite app_length, rev_length in E'. cbn [length] in E'. lia. }
    destruct xs2 as [|x2 xs2']; [inversion Hy|]. inversion Hy as [|? ? ? ? Hy1 Hyr]; subst.
    destruct (stmt_step_sim i i2 x x2 S1 S2 He1 Hp1 Hwf1 Hs) as (y1 & Ey1 & Hsim). fold S1' in Ey1, Hsim.
    assert (Eyy : y1 = y /\ ys' = ys0).
    { rewrite Hst in E'. rewrite Ey1 in E'. cbn [rev] in E'. rewrite <- app_assoc in E'. cbn [app] in E'.
      assert (Hl : length (rev ys0) = length (rev ys')).
      { apply (f_equal (@length expr)) in E'. rewrite !app_length in E'. cbn [length] in E'. lia. }
      destruct (app_same_len _ _ _ _ E' ltac:(cbn [length]; reflexivity)) as (A & B).
      injection B as ->. split; [reflexivity|]. apply (f_equal (@rev expr)) in A. rewrite !rev_involutive in A. congruence. }
    destruct Eyy as (-> & ->). cbn [stmts_loop].
    apply (IH (S i) S1' ys0 xs2' (S i2) (step2 i2 x2 S2)); auto.
Qed.
End Loop.

(* ---------------------------------------------------------------- parseToFile without a fixer *)

Lemma vals_with_syntax f x : vals (with_syntax f x) = vals f.
Proof. reflexivity. Qed.

Lemma wf_with_syntax f x : wf_file (with_syntax f x) <-> wf_file f.
Proof. reflexivity. Qed.

Lemma fixer_ok_none : fixer_ok None.
Proof. split; exact I. Qed.

(* the outcome of parseToFile (strict, no fixer) in terms of the statement loop *)
Lemma file_of_syntax_ok s f1 : file_of_syntax true None s = DOk f1 ->
  let st := stmts_loop (step_of true None) O (f_stmt s) (mkLS (empty_file s) [] [] false) in
  lp_errs_r st = [] /\ lp_panic st = false /\
  f1 = with_syntax (lp_file st) (mkFile (f_name s) (f_comments s) (frev (lp_stmts_r st))).
Proof.
  unfold file_of_syntax, fix_retract. fold (step_of true None). cbv zeta.
  set (st := stmts_loop (step_of true None) O (f_stmt s) (mkLS (empty_file s) [] [] false)).
  destruct (lp_panic st); [discriminate|]. destruct (lp_errs_r st); [|discriminate]. intros [= <-]. auto.
Qed.

Theorem file_of_syntax_sim s s2 f1 :
  file_of_syntax true None s = DOk f1 -> wf_file f1 ->
  Forall2 yrel (f_stmt (fd_syntax f1)) (f_stmt s2) ->
  exists f2, file_of_syntax true None s2 = DOk f2 /\ vals f2 = vals f1.
Proof.
  intros H Hwf Hy. destruct (file_of_syntax_ok s f1 H) as (He & Hp & Ef). cbv zeta in *.
  set (st := stmts_loop (step_of true None) O (f_stmt s) (mkLS (empty_file s) [] [] false)) in *.
  destruct (stmts_loop_stmts None (f_stmt s) O (mkLS (empty_file s) [] [] false)) as (ys & Eys & _).
  fold (step2 None) in st. fold st in Eys. cbn [lp_stmts_r] in Eys.
  assert (Hys : f_stmt (fd_syntax f1) = ys).
  { rewrite Ef. cbn [with_syntax fd_syntax f_stmt]. rewrite Eys, app_nil_r, frev_rev, rev_involutive. reflexivity. }
  rewrite Hys in Hy. rewrite Ef in Hwf. apply wf_with_syntax in Hwf.
  pose proof (stmts_loop_sim None fixer_ok_none (f_stmt s) O (mkLS (empty_file s) [] [] false) ys (f_stmt s2) O
                (mkLS (empty_file s2) [] [] false) He Hp Hwf Eys Hy) as Hs.
  specialize (Hs ltac:(split; [reflexivity|split; reflexivity])).
  destruct Hs as (Hv & He2 & Hp2).
  unfold file_of_syntax, fix_retract. fold (step_of true None). fold (step2 None). cbv zeta.
  rewrite Hp2, He2. eexists. split; [reflexivity|]. rewrite vals_with_syntax, <- Hv, Ef. reflexivity.
Qed.
