(* Round trip, part 2: the comment assignment by byte position (Parse.v, post_expr and
   friends) re-attaches every end-of-line comment to the node of its row, provided the
   positions of the nodes and comments are ordered the way the positions of a token stream
   are.  This file is about positions only: [placed_*] states where a node and the comments
   of its row lie, [owned] is what the assignment then does. *)
From Verif.Base Require Import Bytes.
From Verif.Modfile Require Import Syntax Lex Parse ProofsLex RoundRows.

Definition cstart (c : comment) : Z := p_byte (c_start c).
Definition cbefore (b : Z) (cs : list comment) : Prop := Forall (fun c => cstart c < b) cs.
Definition cafter (b : Z) (cs : list comment) : Prop := Forall (fun c => b <= cstart c) cs.

Lemma cbefore_le b b' cs : b <= b' -> cbefore b cs -> cbefore b' cs.
Proof. intros H. apply Forall_impl. intros c Hc. lia. Qed.

Lemma cbefore_app b a c : cbefore b a -> cbefore b c -> cbefore b (a ++ c).
Proof. intros. apply Forall_app. split; assumption. Qed.

Lemma cbefore_rev b a : cbefore b a -> cbefore b (rev a).
Proof. apply Forall_rev. Qed.

Lemma span_by_split {A} (p : A -> bool) a b :
  Forall (fun x => p x = true) a -> Forall (fun x => p x = false) b -> span_by p (a ++ b) = (a, b).
Proof.
  induction 1 as [|x a Hx Ha IH]; intros Hb; cbn [app span_by].
  - destruct b as [|y b]; [reflexivity|]. inversion Hb as [|? ? Hy _]; subst. cbn. rewrite Hy. reflexivity.
  - rewrite Hx, (IH Hb). reflexivity.
Qed.

(* a node that starts and ends on one line takes the comments behind it *)
Lemma take_suffix_own sp bef aft cx sr :
  p_line (fst sp) = p_line (snd sp) -> cafter (p_byte (snd sp)) cx -> cbefore (p_byte (snd sp)) sr ->
  take_suffix sp (mkComments bef [] aft) (rev cx ++ sr) = (mkComments bef cx aft, sr).
Proof.
  intros Hl Ha Hb. unfold take_suffix. rewrite Hl, Z.eqb_refl.
  rewrite (span_by_split _ (rev cx) sr).
  - cbn [cm_suffix app set_suffix cm_before cm_after]. rewrite frev_rev, rev_involutive. reflexivity.
  - apply Forall_rev. eapply Forall_impl; [|exact Ha]. intros c Hc. apply Z.leb_le. exact Hc.
  - eapply Forall_impl; [|exact Hb]. intros c Hc. apply Z.leb_gt. exact Hc.
Qed.

Lemma take_suffix_skip sp bef aft sr :
  p_line (fst sp) <> p_line (snd sp) -> take_suffix sp (mkComments bef [] aft) sr = (mkComments bef [] aft, sr).
Proof. intros Hl. unfold take_suffix. apply Z.eqb_neq in Hl. rewrite Hl. reflexivity. Qed.

Lemma take_suffix_none sp bef aft sr :
  cbefore (p_byte (snd sp)) sr -> take_suffix sp (mkComments bef [] aft) sr = (mkComments bef [] aft, sr).
Proof.
  intros Hb. destruct (Z.eq_dec (p_line (fst sp)) (p_line (snd sp))) as [E|E].
  - apply (take_suffix_own sp bef aft [] sr E); [constructor|exact Hb].
  - apply take_suffix_skip. exact E.
Qed.

(* ---------------------------------------------------------------- lines *)

(* the line [l] (as the parser built it: Before set, no Suffix), the end-of-line comments
   [cx] of its row, the lean line [al]; earlier comments lie before [lo], [cx] before [hi] *)
Definition placed_line (inb : bool) (l : line) (cx : list comment) (al : aline) (lo hi : Z) : Prop :=
  exists bef,
    l = mkLine (mkComments bef [] []) (l_start l) (al_toks al) inb (l_end l) /\
    map zc bef = map ec (al_before al) /\ map zc cx = map ec (al_suffix al) /\
    p_line (l_start l) = p_line (l_end l) /\ lo <= p_byte (l_end l) /\ lo <= hi /\
    cafter (p_byte (l_end l)) cx /\ cbefore hi cx.

Lemma post_line_placed inb l cx al lo hi sr :
  placed_line inb l cx al lo hi -> cbefore lo sr ->
  exists l', post_line l (rev cx ++ sr) = (l', sr) /\ zline l' = eline inb al.
Proof.
  intros (bef & El & Hb & Hs & Hl & Hlo & _ & Ha & _) Hsr. rewrite El. unfold post_line.
  cbn [l_start l_end l_comments].
  rewrite (take_suffix_own (l_start l, l_end l) bef [] cx sr Hl Ha); [|eapply cbefore_le; eauto].
  eexists. split; [reflexivity|]. unfold zline, line_set_comments, eline, zcs. cbn. rewrite Hb, Hs. reflexivity.
Qed.

(* lines and their comments, the latest first *)
Inductive placed_lines : list line -> list comment -> list aline -> Z -> Z -> Prop :=
| pls_nil lo hi : lo <= hi -> placed_lines [] [] [] lo hi
| pls_cons l ls cx sr al als lo mid hi :
    placed_lines ls sr als lo mid -> placed_line true l cx al mid hi ->
    placed_lines (l :: ls) (rev cx ++ sr) (al :: als) lo hi.

Lemma placed_lines_le ls sr als lo hi : placed_lines ls sr als lo hi -> lo <= hi.
Proof. induction 1 as [|l ls cx sr al als lo mid hi H IH (bef & _ & _ & _ & _ & _ & Hle & _)]; lia. Qed.

Lemma placed_lines_before ls sr als lo hi : placed_lines ls sr als lo hi -> cbefore hi sr.
Proof.
  induction 1 as [|l ls cx sr al als lo mid hi H IH Hp]; [constructor|].
  destruct Hp as (bef & _ & _ & _ & _ & _ & Hle & _ & Hc).
  apply cbefore_app; [apply cbefore_rev; exact Hc|eapply cbefore_le; eauto].
Qed.

Lemma post_lines_placed ls srl als lo hi : placed_lines ls srl als lo hi ->
  forall sr acc, cbefore lo sr ->
  exists ls', post_lines ls (srl ++ sr) acc = (rev ls' ++ acc, sr) /\ map zline ls' = map (eline true) als.
Proof.
  induction 1 as [|l ls cx srl al als lo mid hi H IH Hp]; intros sr acc Hsr.
  - exists []. split; reflexivity.
  - cbn [post_lines]. rewrite <- app_assoc.
    destruct (post_line_placed true l cx al mid hi (srl ++ sr) Hp) as (l' & E & Hz).
    { apply cbefore_app; [eapply placed_lines_before; eauto|].
      eapply cbefore_le; [|exact Hsr]. eapply placed_lines_le; eauto. }
    rewrite E. destruct (IH sr (l' :: acc) Hsr) as (ls' & E' & Hz').
    exists (l' :: ls'). split.
    + rewrite E'. cbn [rev]. rewrite <- app_assoc. reflexivity.
    + cbn [map]. rewrite Hz, Hz'. reflexivity.
Qed.

(* ---------------------------------------------------------------- statements *)

(* what the assignment does to a statement [x] whose rows carry the end-of-line comments
   [cx] (in order): whatever earlier comments [sr] are pending, [x] takes exactly [cx] *)
Definition owned (x : expr) (cx : list comment) (a : astmt) (lo hi : Z) : Prop :=
  (forall sr, cbefore lo sr -> exists x', post_expr x (rev cx ++ sr) = (x', sr) /\ zexpr x' = estmt a) /\
  cbefore hi cx /\ lo <= hi.

Lemma owned_line l cx al lo hi : placed_line false l cx al lo hi -> owned (ELine l) cx (ALine al) lo hi.
Proof.
  intros Hp. split; [|destruct Hp as (bef & _ & _ & _ & _ & _ & Hle & _ & Hc); auto].
  intros sr Hsr. destruct (post_line_placed false l cx al lo hi sr Hp Hsr) as (l' & E & Hz).
  exists (ELine l'). cbn [post_expr]. rewrite E. split; [reflexivity|]. cbn. rewrite Hz. reflexivity.
Qed.

Lemma owned_cb start bef cs lo hi :
  map zc bef = map ec cs -> lo <= p_byte start -> lo <= hi ->
  owned (ECommentBlock (mkCommentBlock (mkComments bef [] []) start)) [] (ACB cs) lo hi.
Proof.
  intros Hb Hlo Hle. split; [|split; [constructor|exact Hle]].
  intros sr Hsr. cbn [post_expr rev app cb_start cb_comments].
  rewrite (take_suffix_none (start, start) bef [] sr); [|eapply cbefore_le; eauto].
  eexists. split; [reflexivity|]. cbn. unfold zcs. cbn. rewrite Hb. reflexivity.
Qed.

(* the empty one-line block "x ( ) // c": the comment goes to the block *)
Lemma owned_empty_block start lp rp bef bt cx befA sfxA lo hi :
  map zc bef = map ec befA -> map zc cx = map ec sfxA ->
  p_line start = p_line rp -> lo <= p_byte lp + 1 -> lo <= p_byte rp + 1 -> lo <= hi ->
  cafter (p_byte rp + 1) cx -> cbefore hi cx ->
  owned (EBlock (mkBlock (mkComments bef [] []) start (mkParen no_comments lp) bt [] (mkParen no_comments rp)))
        cx (ABlock (mkAB befA bt [] [] [] [] sfxA)) lo hi.
Proof.
  intros Hb Hs Hl Hlp Hrp Hle Ha Hc. split; [|auto].
  intros sr Hsr. cbn [post_expr b_comments expr_span b_start b_rparen pr_pos b_lparen b_line].
  rewrite (take_suffix_own (start, pos_add_paren rp) bef [] cx sr); cbn [fst snd pos_add_paren p_line p_byte]; auto;
    [|eapply cbefore_le; eauto].
  unfold post_paren, paren_span. cbn [pr_pos pr_comments]. unfold no_comments.
  rewrite (take_suffix_none (rp, pos_add_paren rp) [] [] sr); [|cbn; eapply cbefore_le; eauto].
  cbn [frev rev_append post_lines].
  rewrite (take_suffix_none (lp, pos_add_paren lp) [] [] sr); [|cbn; eapply cbefore_le; eauto].
  eexists. split; [reflexivity|]. cbn. unfold zblock, eblock, zcs, zparen. cbn. rewrite Hb, Hs. reflexivity.
Qed.

(* a block that spans several lines *)
Lemma owned_block start lp rp bef rbef bt lines_r clp srl crp befA lsfxA alines_r rbefA rsfxA lo lo1 hi1 hi :
  map zc bef = map ec befA -> map zc rbef = map ec rbefA ->
  map zc clp = map ec lsfxA -> map zc crp = map ec rsfxA ->
  p_line start <> p_line rp ->
  lo <= p_byte lp + 1 -> cafter (p_byte lp + 1) clp -> cbefore lo1 clp -> lo <= lo1 ->
  placed_lines lines_r srl alines_r lo1 hi1 ->
  hi1 <= p_byte rp + 1 -> cafter (p_byte rp + 1) crp -> cbefore hi crp -> p_byte rp + 1 <= hi ->
  owned (EBlock (mkBlock (mkComments bef [] []) start (mkParen no_comments lp) bt (frev lines_r)
                         (mkParen (mkComments rbef [] []) rp)))
        (clp ++ rev srl ++ crp)
        (ABlock (mkAB befA bt lsfxA (rev alines_r) rbefA rsfxA [])) lo hi.
Proof.
  intros Hb Hrb Hls Hrs Hl Hlp Halp Hclp Hlo1 Hpl Hhi1 Hacrp Hccrp Hhi.
  pose proof (placed_lines_le _ _ _ _ _ Hpl) as Hle1.
  pose proof (placed_lines_before _ _ _ _ _ Hpl) as Hsrl.
  split.
  2:{ split; [|lia]. apply cbefore_app; [eapply cbefore_le; [|exact Hclp]; lia|].
      apply cbefore_app; [apply cbefore_rev; eapply cbefore_le; [|exact Hsrl]; lia|exact Hccrp]. }
  intros sr Hsr. cbn [post_expr b_comments expr_span b_start b_rparen pr_pos b_lparen b_line].
  rewrite take_suffix_skip by (cbn; exact Hl).
  rewrite !rev_app_distr, rev_involutive, <- !app_assoc.
  unfold post_paren, paren_span. cbn [pr_pos pr_comments].
  rewrite (take_suffix_own (rp, pos_add_paren rp) rbef [] crp (srl ++ rev clp ++ sr)); cbn [fst snd pos_add_paren p_line p_byte]; auto.
  2:{ apply cbefore_app; [eapply cbefore_le; [|exact Hsrl]; lia|].
      apply cbefore_app; [apply cbefore_rev; eapply cbefore_le; [|exact Hclp]; lia|eapply cbefore_le; [|exact Hsr]; lia]. }
  rewrite frev_rev, frev_rev, rev_involutive.
  destruct (post_lines_placed _ _ _ _ _ Hpl (rev clp ++ sr) []) as (ls' & E & Hz).
  { apply cbefore_app; [apply cbefore_rev; exact Hclp|eapply cbefore_le; [|exact Hsr]; lia]. }
  rewrite E. unfold no_comments.
  rewrite (take_suffix_own (lp, pos_add_paren lp) [] [] clp sr); cbn [fst snd pos_add_paren p_line p_byte]; auto;
    [|eapply cbefore_le; [|exact Hsr]; lia].
  eexists. split; [reflexivity|]. cbn. unfold zblock, eblock, zcs, zparen. cbn.
  unfold zcs. cbn. rewrite Hb, Hrb, Hls, Hrs, app_nil_r, map_rev, Hz, map_rev. reflexivity.
Qed.

(* setting Before (parseFile hands the pending comment block to the statement) *)
Definition aset_before (a : astmt) (b : list str) : astmt :=
  match a with
  | ALine l => ALine (mkAL b (al_toks l) (al_suffix l))
  | ABlock x => ABlock (mkAB b (ab_toks x) (ab_lsfx x) (ab_lines x) (ab_rbefore x) (ab_rsfx x) (ab_sfx x))
  | ACB _ => ACB b
  end.

(* ---------------------------------------------------------------- the statement list *)

(* statements, pending comments and lean statements, the latest first *)
Inductive placed_stmts : list expr -> list comment -> list astmt -> Z -> Prop :=
| pst_nil hi : placed_stmts [] [] [] hi
| pst_cons x xs cx sr a als mid lo hi :
    placed_stmts xs sr als mid -> mid <= lo -> owned x cx a lo hi ->
    placed_stmts (x :: xs) (rev cx ++ sr) (a :: als) hi.

Lemma placed_stmts_before xs sr als hi : placed_stmts xs sr als hi -> cbefore hi sr.
Proof.
  induction 1 as [|x xs cx sr a als mid lo hi H IH Hm (Ho & Hc & Hle)]; [constructor|].
  apply cbefore_app; [apply cbefore_rev; exact Hc|eapply cbefore_le; [|exact IH]; lia].
Qed.

Lemma placed_stmts_le xs sr als hi hi' : hi <= hi' -> placed_stmts xs sr als hi -> placed_stmts xs sr als hi'.
Proof.
  intros Hle H. destruct H as [|x xs cx sr a als mid lo hi H Hm (Ho & Hc & Hl)]; [constructor|].
  eapply pst_cons; eauto. split; [exact Ho|]. split; [eapply cbefore_le; eauto|lia].
Qed.

Lemma post_stmts_placed xs sr als hi : placed_stmts xs sr als hi ->
  forall acc, exists xs', post_stmts xs sr acc = (rev xs' ++ acc, []) /\ map zexpr xs' = map estmt als.
Proof.
  induction 1 as [|x xs cx sr a als mid lo hi H IH Hm (Ho & Hc & Hle)]; intros acc.
  - exists []. split; reflexivity.
  - cbn [post_stmts]. destruct (Ho sr) as (x' & E & Hz).
    { eapply cbefore_le; [|eapply placed_stmts_before; eauto]. exact Hm. }
    rewrite E. destruct (IH (x' :: acc)) as (xs' & E' & Hz').
    exists (x' :: xs'). split.
    + rewrite E'. cbn [rev]. rewrite <- app_assoc. reflexivity.
    + cbn [map]. rewrite Hz, Hz'. reflexivity.
Qed.
