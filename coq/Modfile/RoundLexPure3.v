(* Round trip, part 4c: the shape of the tokens of the pure lexer, the positions of the
   tokens of the real one, and the theorem [lex_stream]: every token stream the lexer
   delivers has the row structure [rs] and ordered positions [ordered] (RoundParse.v). *)
From Verif.Base Require Import Bytes Utf8.
From Verif.Gen Require Import GenChars GenUnicode.
From Verif.Modfile Require Import Syntax Lex ProofsLex ProofsLexNoLF RoundRows RoundAssign RoundParse
  RoundLexPure RoundLexPure2.

(* ---------------------------------------------------------------- pure shapes *)

Lemma prune_split s r s' : prune s = Some (r, s') ->
  exists bs, bs <> [] /\ s = bs ++ s' /\ Utf8.decode s = (r, length bs) /\
             count_lf bs = (if r =? 10 then 1 else 0).
Proof.
  unfold prune. destruct s as [|c t] eqn:E; [discriminate|]. rewrite <- E.
  assert (Hne : s <> []) by (rewrite E; discriminate).
  destruct (Utf8.decode s) as [r0 w] eqn:Hd. intros [= <- <-].
  pose proof (decode_width _ _ _ Hne Hd) as Hw.
  exists (firstn w s). split; [destruct s; [congruence|]; destruct w; [lia|discriminate]|].
  split; [symmetry; apply firstn_skipn|]. split; [rewrite firstn_length; replace (Nat.min w _) with w by lia; reflexivity|].
  apply decode_lf; assumption.
Qed.

Lemma ptext_app c s : ptext (c ++ s) s = c.
Proof.
  unfold ptext. rewrite app_length. replace (length c + length s - length s)%nat with (length c) by lia.
  rewrite firstn_app, firstn_all, Nat.sub_diag. cbn. apply app_nil_r.
Qed.

Lemma pstring_shape q : forall f s0 s c k x rest, s0 = c ++ s ->
  pstring f q s0 s = PTok k x rest -> k = KString /\ s0 = x ++ rest /\ exists c', x = c ++ c'.
Proof.
  induction f as [|f IH]; intros s0 s c k x rest E; cbn [pstring]; [discriminate|].
  destruct (snil s); [discriminate|]. destruct (ppeek s =? 10); [discriminate|].
  destruct (prune s) as [[r s1]|] eqn:Hp; [|discriminate].
  destruct (prune_split _ _ _ Hp) as (bs & _ & Es & _).
  assert (E1 : s0 = (c ++ bs) ++ s1) by (rewrite E, Es, app_assoc; reflexivity).
  destruct (r =? q).
  { intros [= <- <- <-]. rewrite E1, ptext_app. split; [reflexivity|]. split; [reflexivity|]. eauto. }
  destruct (_ && _).
  2:{ intros H. destruct (IH _ _ _ _ _ _ E1 H) as (A & B & c' & C). split; [exact A|]. split; [exact B|].
      exists (bs ++ c'). rewrite C, app_assoc. reflexivity. }
  destruct (snil s1); [discriminate|]. destruct (ppeek s1 =? 10); [discriminate|].
  destruct (prune s1) as [[r2 s2]|] eqn:Hp2; [|discriminate].
  destruct (prune_split _ _ _ Hp2) as (bs2 & _ & Es2 & _).
  assert (E2 : s0 = (c ++ bs ++ bs2) ++ s2) by (rewrite E1, Es2, <- !app_assoc; reflexivity).
  intros H. destruct (IH _ _ _ _ _ _ E2 H) as (A & B & c' & C). split; [exact A|]. split; [exact B|].
  exists ((bs ++ bs2) ++ c'). rewrite C, <- !app_assoc. reflexivity.
Qed.

Lemma pident_shape : forall f s0 s c k x rest, s0 = c ++ s ->
  pident f s0 s = PTok k x rest -> k = KIdent /\ s0 = x ++ rest /\ exists c', x = c ++ c'.
Proof.
  induction f as [|f IH]; intros s0 s c k x rest E; cbn [pident]; [discriminate|].
  assert (Hdone : PTok KIdent (ptext s0 s) s = PTok k x rest -> k = KIdent /\ s0 = x ++ rest /\ exists c', x = c ++ c').
  { intros [= <- <- <-]. rewrite E, ptext_app. split; [reflexivity|]. split; [reflexivity|].
    exists []. symmetry. apply app_nil_r. }
  destruct (is_ident (ppeek s)); [|exact Hdone].
  destruct (has_prefix s [47; 47]); [exact Hdone|].
  destruct (has_prefix s [47; 42]); [discriminate|].
  destruct (prune s) as [[r s1]|] eqn:Hp; [|discriminate].
  destruct (prune_split _ _ _ Hp) as (bs & _ & Es & _).
  assert (E1 : s0 = (c ++ bs) ++ s1) by (rewrite E, Es, app_assoc; reflexivity).
  intros H. destruct (IH _ _ _ _ _ _ E1 H) as (A & B & c' & C). split; [exact A|]. split; [exact B|].
  exists (bs ++ c'). rewrite C, app_assoc. reflexivity.
Qed.

Definition main_shape (s : str) (k : tkind) (x rest : str) : Prop :=
  s = x ++ rest /\
  match k with
  | KEOF => x = [] /\ rest = []
  | KPunct c => x = [c] /\ is_punct c = true
  | KString => exists q x', x = q :: x' /\ (q = 34 \/ q = 96)
  | KIdent => (x = [] /\ has_prefix s [47; 47] = true) \/ (x <> [] /\ is_ident (ppeek s) = true)
  | _ => False
  end.

Lemma pmain_shape f s k x rest : pmain f s = PTok k x rest -> main_shape s k x rest.
Proof.
  unfold pmain, main_shape. destruct (snil s) eqn:Es.
  { intros [= <- <- <-]. destruct s; [|discriminate]. auto. }
  destruct (is_punct (ppeek s)) eqn:Ep.
  { destruct (prune s) as [[r s1]|] eqn:Hp; [|discriminate]. intros [= <- <- <-].
    destruct (prune_split _ _ _ Hp) as (bs & Hbs & E & Hd & _).
    assert (Hr : ppeek s = r) by (unfold ppeek; destruct s; [discriminate|]; rewrite Hd; reflexivity).
    rewrite Hr in *. destruct (decode_small s r _ ltac:(destruct s; discriminate) Hd (is_punct_small _ Ep)) as (Hl & t & Et).
    destruct bs as [|b [|b' bs]]; cbn in Hl; try discriminate; try congruence.
    rewrite Et in E. cbn in E. injection E as <- Et'. rewrite Et. cbn [app]. rewrite Et'.
    change (r :: s1) with ([r] ++ s1). rewrite ptext_app. auto. }
  destruct ((ppeek s =? 34) || (ppeek s =? 96)) eqn:Eq.
  { destruct (prune s) as [[r s1]|] eqn:Hp; [|discriminate].
    destruct (prune_split _ _ _ Hp) as (bs & Hbs & E & Hd & _).
    assert (Hr : ppeek s = r) by (unfold ppeek; destruct s; [discriminate|]; rewrite Hd; reflexivity).
    rewrite Hr in *.
    destruct (decode_small s r _ ltac:(destruct s; discriminate) Hd ltac:(lia)) as (Hl & t & Et).
    destruct bs as [|b [|b' bs]]; cbn in Hl; try discriminate; try congruence.
    intros H. destruct (pstring_shape r f s s1 [b] k x rest E H) as (-> & B & c' & C).
    split; [exact B|]. rewrite Et in E. cbn in E. injection E as <- _. exists r, c'. split; [exact C|lia]. }
  destruct (is_ident (ppeek s)) eqn:Eid; cbn [negb]; [|discriminate].
  intros H. destruct (pident_shape f s s [] k x rest eq_refl H) as (-> & B & _).
  split; [exact B|]. destruct x as [|x0 x]; [left; split; [reflexivity|]|right; split; [discriminate|reflexivity]].
  destruct f as [|f]; [discriminate|]. cbn [pident] in H. rewrite Eid in H.
  destruct (has_prefix s [47; 47]); [reflexivity|]. destruct (has_prefix s [47; 42]); [discriminate|].
  destruct (prune s) as [[r s1]|] eqn:Hp; [|discriminate].
  destruct (prune_split _ _ _ Hp) as (bs & Hbs & E & _).
  destruct (pident_shape f s s1 bs KIdent [] rest E H) as (_ & _ & c' & C).
  destruct bs; [congruence|discriminate].
Qed.

Lemma pcomment_body_shape : forall f s s3, pcomment_body f s = Some (Some s3) ->
  exists c, s = c ++ s3 /\
    ((exists body, c = body ++ [10] /\ count_lf body = 0) \/ (count_lf c = 0 /\ s3 = [])).
Proof.
  induction f as [|f IH]; intros s s3; cbn [pcomment_body]; [discriminate|].
  destruct s as [|b t] eqn:E; [intros [= <-]; exists []; split; [reflexivity|right; split; reflexivity]|].
  rewrite <- E. destruct (prune s) as [[r s1]|] eqn:Hp; [|discriminate].
  destruct (prune_split _ _ _ Hp) as (bs & Hbs & Es & Hd & Hlf).
  destruct (Z.eqb_spec r 10) as [->|Hne].
  - intros [= <-]. exists bs. split; [exact Es|]. left. exists [].
    destruct (decode_small s 10 _ ltac:(rewrite E; discriminate) Hd ltac:(lia)) as (Hl & t' & Et).
    destruct bs as [|b0 [|b1 bs]]; cbn in Hl; try discriminate; try congruence.
    rewrite Et in Es. cbn in Es. injection Es as <- _. split; reflexivity.
  - intros H. destruct (IH _ _ H) as (c & Ec & Hc). exists (bs ++ c).
    split; [rewrite Es, Ec, app_assoc; reflexivity|].
    destruct Hc as [(body & -> & Hb)|(Hc & ->)].
    + left. exists (bs ++ body). split; [rewrite app_assoc; reflexivity|]. rewrite count_lf_app. lia.
    + right. split; [rewrite count_lf_app; lia|reflexivity].
Qed.

(* the text of a comment token *)
Definition comment_text (x : str) : Prop := has_prefix x [47; 47] = true /\ count_lf x = 0.

Lemma strip_eol_body body : count_lf body = 0 ->
  exists x, strip_eol (body ++ [10]) = x /\ count_lf x = 0 /\ exists tl, body = x ++ tl /\ (tl = [] \/ tl = [13]).
Proof.
  intros Hb. unfold strip_eol. rewrite frev_rev, rev_app_distr. cbn [rev app]. cbn [Z.eqb].
  change (10 =? 10) with true. cbn iota.
  destruct (rev body) as [|b r'] eqn:Er.
  - assert (body = []) by (rewrite <- (rev_involutive body), Er; reflexivity). subst body.
    exists []. rewrite frev_rev. cbn. split; [reflexivity|]. split; [reflexivity|]. exists []. auto.
  - assert (Eb : body = rev r' ++ [b]) by (rewrite <- (rev_involutive body), Er; reflexivity).
    destruct (Z.eqb_spec b 13) as [->|Hb13]; rewrite frev_rev.
    + exists (rev r'). split; [reflexivity|]. rewrite Eb, count_lf_app in Hb. split; [unfold count_lf in *; cbn in *; lia|].
      exists [13]. auto.
    + exists (rev (b :: r')). split; [reflexivity|]. rewrite <- Er, rev_involutive. split; [exact Hb|]. exists [].
      split; [symmetry; apply app_nil_r|auto].
Qed.

Lemma strip_eol_nolf c : count_lf c = 0 -> strip_eol c = c.
Proof.
  intros H. unfold strip_eol. rewrite frev_rev. destruct (rev c) as [|a r] eqn:Er; [reflexivity|].
  destruct (Z.eqb_spec a 10) as [->|]; [|reflexivity].
  assert (Ec : c = rev r ++ [10]) by (rewrite <- (rev_involutive c), Er; reflexivity).
  rewrite Ec, count_lf_app in H. unfold count_lf in H. cbn in H. lia.
Qed.

Lemma hp_ss t : has_prefix (47 :: 47 :: t) [47; 47] = true.
Proof. cbn [has_prefix]. rewrite !Z.eqb_refl. destruct t; reflexivity. Qed.

(* what a comment token consumed: [raw], of which the text is a prefix *)
Lemma pcomment_shape f d s k x rest : has_prefix s [47; 47] = true -> pcomment f d s = PTok k x rest ->
  k = (if d then KEOLComment else KComment) /\ comment_text x /\
  exists raw, s = raw ++ rest /\ raw <> [] /\
    (count_lf raw = 1 \/ (count_lf raw = 0 /\ rest = [])).
Proof.
  intros Hss. apply has_prefix_true in Hss as (t0 & E0). cbn [app] in E0. subst s.
  unfold pcomment, prune. rewrite decode_ascii_head by lia. cbn [skipn]. rewrite decode_ascii_head by lia. cbn [skipn].
  destruct (pcomment_body f t0) as [[s3|]|] eqn:Hb; try discriminate.
  intros [= <- <- <-]. destruct (pcomment_body_shape _ _ _ Hb) as (c & Ec & Hc).
  split; [reflexivity|]. subst t0.
  change (47 :: 47 :: c ++ s3) with ((47 :: 47 :: c) ++ s3). rewrite ptext_app.
  destruct Hc as [(body & -> & Hbody)|(Hc & ->)].
  - change (47 :: 47 :: body ++ [10]) with ((47 :: 47 :: body) ++ [10]).
    destruct (strip_eol_body (47 :: 47 :: body)) as (x & Ex & Hx & tl & Etl & Htl).
    { unfold count_lf in *. cbn. exact Hbody. }
    rewrite Ex. split.
    + split; [|exact Hx]. destruct Htl as [->| ->].
      * rewrite app_nil_r in Etl. rewrite <- Etl. apply hp_ss.
      * destruct x as [|a [|b x]]; cbn in Etl; try discriminate.
        injection Etl as <- <- _. apply hp_ss.
    + exists ((47 :: 47 :: body) ++ [10]). split; [reflexivity|]. split; [discriminate|].
      left. rewrite count_lf_app. unfold count_lf in *. cbn in *. lia.
  - rewrite strip_eol_nolf by (unfold count_lf in *; cbn; exact Hc).
    split; [split; [apply hp_ss|unfold count_lf in *; cbn; exact Hc]|].
    exists (47 :: 47 :: c). split; [reflexivity|]. split; [discriminate|]. right. split; [unfold count_lf in *; cbn; exact Hc|reflexivity].
Qed.
