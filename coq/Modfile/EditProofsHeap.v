(* Heap-level facts about the read.go helpers of the edit model. *)
From Verif.Base Require Import Bytes.
From Verif.Modfile Require Import EditModel EditOps EditSpec.

Lemma hset_length h i l : length (hset h i l) = length h.
Proof. revert i. induction h as [|x r IH]; intros [|i]; cbn; auto. Qed.

Lemma hget_hset_same h i l : (i < length h)%nat -> hget (hset h i l) i = l.
Proof.
  unfold hget. revert i. induction h as [|x r IH]; intros [|i] H; cbn in *; try lia; auto.
  apply IH. lia.
Qed.

Lemma hget_hset_other h i j l : i <> j -> hget (hset h i l) j = hget h j.
Proof.
  unfold hget. revert i j. induction h as [|x r IH]; intros [|i] [|j] H; cbn; auto; try congruence.
Qed.

Lemma hget_app_old h l j : (j < length h)%nat -> hget (h ++ [l]) j = hget h j.
Proof. intros H. unfold hget. apply app_nth1. exact H. Qed.

Lemma hget_app_new h l : hget (h ++ [l]) (length h) = l.
Proof. unfold hget. rewrite app_nth2 by lia. rewrite Nat.sub_diag. reflexivity. Qed.

Definition heap_len (s : syntax) : nat := length (heap s).

Lemma sset_len s i l : heap_len (sset s i l) = heap_len s.
Proof. unfold heap_len, sset; cbn. apply hset_length. Qed.
Lemma sget_sset_same s i l : (i < heap_len s)%nat -> sget (sset s i l) i = l.
Proof. apply hget_hset_same. Qed.
Lemma sget_sset_other s i j l : i <> j -> sget (sset s i l) j = sget s j.
Proof. apply hget_hset_other. Qed.

Lemma update_line_len s i v a : heap_len (update_line s i v a) = heap_len s.
Proof. unfold update_line. apply sset_len. Qed.
Lemma mark_removed_len s i : heap_len (mark_removed s i) = heap_len s.
Proof. unfold mark_removed. apply sset_len. Qed.
Lemma update_line_other s i j v a : i <> j -> sget (update_line s i v a) j = sget s j.
Proof. unfold update_line. apply sget_sset_other. Qed.
Lemma mark_removed_other s i j : i <> j -> sget (mark_removed s i) j = sget s j.
Proof. unfold mark_removed. apply sget_sset_other. Qed.
Lemma hget_hset_proj {B} (g : hline -> B) h i l j :
  g l = g (hget h i) -> g (hget (hset h i l) j) = g (hget h j).
Proof.
  unfold hget. revert i j. induction h as [|x r IH]; intros [|i] [|j] H; cbn in *; auto.
Qed.

Lemma update_line_com s i j v a : hl_com (sget (update_line s i v a) j) = hl_com (sget s j).
Proof. unfold update_line, sget, sset; cbn. apply hget_hset_proj. reflexivity. Qed.

Arguments hget : simpl never.
Arguments hset : simpl never.

(* what addLine does to the heap: one new line at the end; of the old lines only a hint
   line that is converted into a block changes (it loses its verb and gets InBlock) *)
Definition old_line_ok (verb : str) (l l' : hline) : Prop :=
  l' = l \/ (hd_is (hl_tok l) verb = true /\ l' = mkHL (hl_com l) (tl (hl_tok l)) true).

Lemma add_line_at_convert s h verb st j :
  add_line_at s h verb st = Some (PConvert j) ->
  st = SLine j /\ h = HLine j /\ hd_is (hl_tok (sget s j)) verb = true.
Proof.
  destruct st as [j0|b|c]; cbn; try discriminate.
  - destruct h as [i0| |]; try discriminate. destruct (Nat.eqb i0 j0) eqn:E; [|discriminate].
    destruct (hd_is _ verb) eqn:Eh; [|discriminate]. intros [= <-]. apply Nat.eqb_eq in E. subst. auto.
  - destruct h as [i0|bid|]; try discriminate.
    + destruct (pos_of i0 (hb_lines b)); [|discriminate]. destruct (hd_is _ _); discriminate.
    + destruct (Nat.eqb _ _); [|discriminate]. destruct (hd_is _ _); discriminate.
Qed.

Lemma add_line_loop_heap s h verb args done todo :
  let r := add_line_loop s h verb args done todo in
  snd r = heap_len s /\ heap_len (fst r) = S (heap_len s)
  /\ (forall j, (j < heap_len s)%nat -> old_line_ok verb (sget s j) (sget (fst r) j))
  /\ (exists inb : bool, sget (fst r) (heap_len s) = mkHL no_coms (if inb then args else verb :: args) inb).
Proof.
  revert done. induction todo as [|st rest IH]; intros done; cbn.
  - unfold heap_len, sget; cbn. rewrite app_length; cbn. repeat split; try lia.
    + intros j Hj. left. apply hget_app_old. exact Hj.
    + exists false. apply hget_app_new.
  - destruct (add_line_at s h verb st) as [[| j | b | b k]|] eqn:Hat.
    + unfold heap_len, sget; cbn. rewrite app_length; cbn. repeat split; try lia.
      * intros j Hj. left. apply hget_app_old. exact Hj.
      * exists false. apply hget_app_new.
    + unfold heap_len, sget; cbn. rewrite app_length, hset_length; cbn. repeat split; try lia.
      * intros i Hi. rewrite hget_app_old by (rewrite hset_length; exact Hi).
        destruct (Nat.eq_dec j i) as [->|Hn].
        -- rewrite hget_hset_same by exact Hi. right.
           apply add_line_at_convert in Hat. destruct Hat as [_ [_ Hh]]. split; [exact Hh | reflexivity].
        -- left. apply hget_hset_other. exact Hn.
      * exists true. pose proof (hget_app_new (hset (heap s) j (mkHL (hl_com (hget (heap s) j)) (tl (hl_tok (hget (heap s) j))) true)) (mkHL no_coms args true)) as Hn.
        rewrite hset_length in Hn. exact Hn.
    + unfold heap_len, sget; cbn. rewrite app_length; cbn. repeat split; try lia.
      * intros j Hj. left. apply hget_app_old. exact Hj.
      * exists true. apply hget_app_new.
    + unfold heap_len, sget; cbn. rewrite app_length; cbn. repeat split; try lia.
      * intros j Hj. left. apply hget_app_old. exact Hj.
      * exists true. apply hget_app_new.
    + apply IH.
Qed.

Lemma add_line_heap s h verb args :
  let r := add_line s h verb args in
  snd r = heap_len s /\ heap_len (fst r) = S (heap_len s)
  /\ (forall j, (j < heap_len s)%nat -> old_line_ok verb (sget s j) (sget (fst r) j))
  /\ (exists inb : bool, sget (fst r) (heap_len s) = mkHL no_coms (if inb then args else verb :: args) inb).
Proof.
  unfold add_line.
  destruct (match h with Some x => Some x | None => find_hint s verb (rev (stmts s)) end).
  - apply add_line_loop_heap.
  - cbn. unfold heap_len, sget; cbn. rewrite app_length; cbn. repeat split; try lia.
    + intros j Hj. left. apply hget_app_old. exact Hj.
    + exists false. apply hget_app_new.
Qed.
