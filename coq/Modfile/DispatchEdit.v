(* Wire dispatcher of the edit model.  A case argument is
     L[ L[syntax, typed], L[op...] ]
   where syntax and typed are the serialisation of a parsed modfile.File / WorkFile
   produced by the Go harness (harness/props/c15.go: wSyntax, wTyped):
     syntax  := L[ comments, L[stmt...] ]
     comments:= L[ L[S..] before, L[S..] suffix, L[S..] after ]
     stmt    := L[I0, comments, L[S tok..], I inblock]                         (Line)
              | L[I1, comments, comments(lparen), L[S tok..], L[line..], comments(rparen)]   (LineBlock)
              | L[I2, comments]                                                (CommentBlock)
     typed   := L[module, go, toolchain, godebug, require, exclude, replace, retract, tool, use]
   every typed entry ends with the index of its line in traversal order (-1 = nil pointer,
   -2 = a line that is not in the tree).  Lines are loaded into the heap in traversal
   order, so the starting id of a line is its index.
   Functions: EditTyped (error flags + typed lists), EditSyntax (error flags + tree),
   EditAll (both).  When the sequence contains a bulk setter the typed lists are reported
   sorted by line index (Go appends new entries in map iteration order). *)
From Verif.Base Require Import Bytes Wire.
From Verif.Modfile Require Import EditModel EditOps EditSpec.

Notation "'do' x <- a ; b" := (match a with Some x => b | None => None end)
  (at level 200, x pattern, a at level 100, b at level 200).

(* ---------------------------------------------------------------- decoding *)

Fixpoint dec_strs (l : list val) : option (list str) :=
  match l with
  | [] => Some []
  | VS s :: r => do t <- dec_strs r; Some (s :: t)
  | _ => None
  end.

Definition dec_coms (v : val) : option coms :=
  match v with
  | VL [VL b; VL s; VL a] =>
      do b' <- dec_strs b; do s' <- dec_strs s; do a' <- dec_strs a; Some (mkComs b' s' a')
  | _ => None
  end.

Definition dec_line (v : val) : option hline :=
  match v with
  | VL [VI 0; c; VL t; VI inb] =>
      do c' <- dec_coms c; do t' <- dec_strs t; Some (mkHL c' t' (negb (inb =? 0)))
  | _ => None
  end.

Fixpoint dec_lines (l : list val) : option (list hline) :=
  match l with
  | [] => Some []
  | v :: r => do x <- dec_line v; do t <- dec_lines r; Some (x :: t)
  end.

Fixpoint dec_stmts (vs : list val) (h : list hline) (nb : nat) : option (list hline * nat * list stmt) :=
  match vs with
  | [] => Some (h, nb, [])
  | VL [VI 0; c; VL t; VI inb] :: r =>
      do l <- dec_line (VL [VI 0; c; VL t; VI inb]);
      do (h', nb', st) <- dec_stmts r (h ++ [l]) nb;
      Some (h', nb', SLine (length h) :: st)
  | VL [VI 1; c; lp; VL t; VL ls; rp] :: r =>
      do c' <- dec_coms c; do lp' <- dec_coms lp; do rp' <- dec_coms rp;
      do t' <- dec_strs t; do ls' <- dec_lines ls;
      let ids := seq (length h) (length ls') in
      do (h', nb', st) <- dec_stmts r (h ++ ls') (S nb);
      Some (h', nb', SBlock (mkHB nb c' lp' t' ids rp') :: st)
  | VL [VI 2; c] :: r =>
      do c' <- dec_coms c;
      do (h', nb', st) <- dec_stmts r h nb;
      Some (h', nb', SComment c' :: st)
  | _ => None
  end.

Definition dec_syntax (v : val) : option syntax :=
  match v with
  | VL [c; VL st] =>
      do c' <- dec_coms c;
      do (h, nb, st') <- dec_stmts st [] O;
      Some (mkSyn h nb c' st')
  | _ => None
  end.

Definition dec_ref (z : Z) : option lid := if z <? 0 then None else Some (Z.to_nat z).

Fixpoint dec_list {A} (d : val -> option A) (l : list val) : option (list A) :=
  match l with
  | [] => Some []
  | v :: r => do x <- d v; do t <- dec_list d r; Some (x :: t)
  end.

Definition dec_godebug (v : val) : option e_godebug :=
  match v with VL [VS k; VS x; VI r] => Some (mkGodebug k x (dec_ref r)) | _ => None end.
Definition dec_require (v : val) : option e_require :=
  match v with VL [VS p; VS x; VI i; VI r] => Some (mkRequire p x (negb (i =? 0)) (dec_ref r)) | _ => None end.
Definition dec_exclude (v : val) : option e_exclude :=
  match v with VL [VS p; VS x; VI r] => Some (mkExclude p x (dec_ref r)) | _ => None end.
Definition dec_replace (v : val) : option e_replace :=
  match v with VL [VS a; VS b; VS c; VS d; VI r] => Some (mkReplace a b c d (dec_ref r)) | _ => None end.
Definition dec_retract (v : val) : option e_retract :=
  match v with VL [VS a; VS b; VS c; VI r] => Some (mkRetract a b c (dec_ref r)) | _ => None end.
Definition dec_tool (v : val) : option e_tool :=
  match v with VL [VS p; VI r] => Some (mkTool p (dec_ref r)) | _ => None end.
Definition dec_use (v : val) : option e_use :=
  match v with VL [VS p; VS m; VI r] => Some (mkUse p m (dec_ref r)) | _ => None end.

Definition dec_file (v : val) : option file :=
  match v with
  | VL [sy; VL [mo; go; tc; VL gd; VL rq; VL ex; VL rp; VL rt; VL tl; VL us]] =>
      do s <- dec_syntax sy;
      do mo' <- match mo with
                | VL [] => Some None
                | VL [VS p; VS x; VS d; VI r] => Some (Some (mkModule p x d (dec_ref r)))
                | _ => None
                end;
      do go' <- match go with
                | VL [] => Some None
                | VL [VS x; VI r] => Some (Some (mkGo x (dec_ref r)))
                | _ => None
                end;
      do tc' <- match tc with
                | VL [] => Some None
                | VL [VS x; VI r] => Some (Some (mkGo x (dec_ref r)))
                | _ => None
                end;
      do gd' <- dec_list dec_godebug gd; do rq' <- dec_list dec_require rq;
      do ex' <- dec_list dec_exclude ex; do rp' <- dec_list dec_replace rp;
      do rt' <- dec_list dec_retract rt; do tl' <- dec_list dec_tool tl;
      do us' <- dec_list dec_use us;
      Some (mkEFile s mo' go' tc' gd' rq' ex' rp' rt' tl' us')
  | _ => None
  end.

Definition dec_req (v : val) : option req :=
  match v with VL [VS p; VS x; VI i] => Some (p, x, negb (i =? 0)) | _ => None end.
Definition dec_usearg (v : val) : option (str * str) :=
  match v with VL [VS p; VS x; VI _] => Some (p, x) | _ => None end.

Definition name_is (n : str) (s : String.string) : bool := str_eqb n (B s).
Arguments name_is n s%string_scope.

Definition dec_op (v : val) : option op :=
  match v with
  | VL (VS n :: args) =>
      match args with
      | [] =>
          if name_is n "DropGoStmt" then Some DropGoStmt
          else if name_is n "DropToolchainStmt" then Some DropToolchainStmt
          else if name_is n "Cleanup" then Some Cleanup
          else if name_is n "SortBlocks" then Some SortBlocks
          else if name_is n "WDropGoStmt" then Some WDropGoStmt
          else if name_is n "WDropToolchainStmt" then Some WDropToolchainStmt
          else if name_is n "WCleanup" then Some WCleanup
          else if name_is n "WSortBlocks" then Some WSortBlocks
          else None
      | [VL l] =>
          if name_is n "SetRequire" then option_map SetRequire (dec_list dec_req l)
          else if name_is n "SetRequireSeparateIndirect" then option_map SetRequireSeparateIndirect (dec_list dec_req l)
          else if name_is n "WSetUse" then option_map WSetUse (dec_list dec_usearg l)
          else None
      | [VS a] =>
          if name_is n "AddModuleStmt" then Some (AddModuleStmt a)
          else if name_is n "AddGoStmt" then Some (AddGoStmt a)
          else if name_is n "AddToolchainStmt" then Some (AddToolchainStmt a)
          else if name_is n "DropGodebug" then Some (DropGodebug a)
          else if name_is n "DropRequire" then Some (DropRequire a)
          else if name_is n "AddTool" then Some (AddTool a)
          else if name_is n "DropTool" then Some (DropTool a)
          else if name_is n "AddComment" then Some (AddComment a)
          else if name_is n "WAddGoStmt" then Some (WAddGoStmt a)
          else if name_is n "WAddToolchainStmt" then Some (WAddToolchainStmt a)
          else if name_is n "WDropGodebug" then Some (WDropGodebug a)
          else if name_is n "WDropUse" then Some (WDropUse a)
          else None
      | [VS a; VS b] =>
          if name_is n "AddGodebug" then Some (AddGodebug a b)
          else if name_is n "AddRequire" then Some (AddRequire a b)
          else if name_is n "AddExclude" then Some (AddExclude a b)
          else if name_is n "DropExclude" then Some (DropExclude a b)
          else if name_is n "DropReplace" then Some (DropReplace a b)
          else if name_is n "DropRetract" then Some (DropRetract a b)
          else if name_is n "WAddGodebug" then Some (WAddGodebug a b)
          else if name_is n "WAddUse" then Some (WAddUse a b)
          else if name_is n "WAddNewUse" then Some (WAddNewUse a b)
          else if name_is n "WDropReplace" then Some (WDropReplace a b)
          else None
      | [VS a; VS b; VS c] =>
          if name_is n "AddNewRequire" then Some (AddNewRequire a b (str_eqb c (B "1")))
          else if name_is n "AddRetract" then Some (AddRetract a b c)
          else None
      | [VS a; VS b; VS c; VS d] =>
          if name_is n "AddReplace" then Some (AddReplace a b c d)
          else if name_is n "WAddReplace" then Some (WAddReplace a b c d)
          else None
      | _ => None
      end
  | _ => None
  end.

(* ---------------------------------------------------------------- encoding *)

Definition enc_strs (l : list str) : val := VL (map VS l).
Definition enc_coms (c : coms) : val :=
  VL [enc_strs (c_before c); enc_strs (c_suffix c); enc_strs (c_after c)].
Definition enc_line (l : hline) : val :=
  VL [VI 0; enc_coms (hl_com l); enc_strs (hl_tok l); VB (hl_inb l)].
Definition enc_stmt (h : list hline) (st : stmt) : val :=
  match st with
  | SLine i => enc_line (hget h i)
  | SBlock b => VL [VI 1; enc_coms (hb_com b); enc_coms (hb_lp b); enc_strs (hb_tok b);
                    VL (map (fun i => enc_line (hget h i)) (hb_lines b)); enc_coms (hb_rp b)]
  | SComment c => VL [VI 2; enc_coms c]
  end.
Definition enc_syntax (s : syntax) : val :=
  VL [enc_coms (fcom s); VL (map (enc_stmt (heap s)) (stmts s))].

(* the lines of the tree in traversal order *)
Definition line_order (s : syntax) : list lid :=
  flat_map (fun st => match st with SLine i => [i] | SBlock b => hb_lines b | SComment _ => [] end) (stmts s).

Definition ref_of (order : list lid) (o : option lid) : Z :=
  match o with
  | None => -1
  | Some i => match pos_of i order with Some k => Z.of_nat k | None => -2 end
  end.

(* entries are (ref, encoded entry); canon sorts by ref *)
Definition by_ref (canon : bool) (l : list (Z * val)) : val :=
  VL (map snd (if canon then stable_sort (fun a b => fst a <? fst b) l else l)).

Definition enc_typed (canon : bool) (f : file) : val :=
  let ord := line_order (fsyn f) in
  let r := ref_of ord in
  VL [ match f_module f with
       | None => VL []
       | Some m => VL [VS (mo_path m); VS (mo_vers m); VS (mo_depr m); VI (r (mo_syn m))]
       end;
       match f_go f with None => VL [] | Some g => VL [VS (go_vers g); VI (r (go_syn g))] end;
       match f_toolchain f with None => VL [] | Some g => VL [VS (go_vers g); VI (r (go_syn g))] end;
       by_ref canon (map (fun g => (r (gd_syn g), VL [VS (gd_key g); VS (gd_val g); VI (r (gd_syn g))])) (f_godebug f));
       by_ref canon (map (fun x => (r (rq_syn x), VL [VS (rq_path x); VS (rq_vers x); VB (rq_ind x); VI (r (rq_syn x))])) (f_require f));
       by_ref canon (map (fun x => (r (ex_syn x), VL [VS (ex_path x); VS (ex_vers x); VI (r (ex_syn x))])) (f_exclude f));
       by_ref canon (map (fun x => (r (rp_syn x), VL [VS (rp_op x); VS (rp_ov x); VS (rp_np x); VS (rp_nv x); VI (r (rp_syn x))])) (f_replace f));
       by_ref canon (map (fun x => (r (rt_syn x), VL [VS (rt_lo x); VS (rt_hi x); VS (rt_rat x); VI (r (rt_syn x))])) (f_retract f));
       by_ref canon (map (fun x => (r (tl_syn x), VL [VS (tl_path x); VI (r (tl_syn x))])) (f_tool f));
       by_ref canon (map (fun x => (r (us_syn x), VL [VS (us_path x); VS (us_mod x); VI (r (us_syn x))])) (f_use f)) ].

Definition is_bulk (o : op) : bool :=
  match o with SetRequire _ | SetRequireSeparateIndirect _ | WSetUse _ => true | _ => false end.

Definition enc_run (proj : nat) (ops : list op) (r : run_res) : val :=
  match r with
  | RunPanic k => VL [VS (B "panic"); VI (Z.of_nat k)]
  | RunOk errs f =>
      let canon := existsb is_bulk ops in
      let e := VL (map VB errs) in
      match proj with
      | 0%nat => VOk (VL [e; enc_typed canon f])
      | 1%nat => VOk (VL [e; enc_syntax (fsyn f)])
      | _ => VOk (VL [e; enc_syntax (fsyn f); enc_typed canon f])
      end
  end.

Definition run_case (proj : nat) (a : val) : val :=
  match a with
  | VL [st; VL ops] =>
      match dec_file st, dec_list dec_op ops with
      | Some f, Some os => enc_run proj os (run_ops os f)
      | _, _ => VBadCase
      end
  | _ => VBadCase
  end.

(* ---------------------------------------------------------------- invariants, executably

   EditInv evaluates the statements of the C15/C08 theorems on the case inside the model:
   the starting file is Coherent, the file is Coherent after every operation, the per-operation error
   flags are those of the keyed model, and the abstraction of the final typed lists is
   the keyed model's final state.  The expected answer is four times true whenever every
   operation has valid arguments and the run does not panic (the harness only emits the
   case then). *)
Definition opt_str_eqb (a b : option str) : bool :=
  match a, b with
  | Some x, Some y => str_eqb x y
  | None, None => true
  | _, _ => false
  end.
Fixpoint list_eqb {A} (e : A -> A -> bool) (a b : list A) : bool :=
  match a, b with
  | [], [] => true
  | x :: a', y :: b' => e x y && list_eqb e a' b'
  | _, _ => false
  end.
Definition kstate_eqb (a b : kstate) : bool :=
  opt_str_eqb (k_module a) (k_module b) && opt_str_eqb (k_go a) (k_go b)
  && opt_str_eqb (k_toolchain a) (k_toolchain b)
  && list_eqb pair_eqb (k_godebug a) (k_godebug b)
  && list_eqb (fun x y => match x, y with (p, v, i), (q, w, j) => str_eqb p q && str_eqb v w && Bool.eqb i j end)
              (k_require a) (k_require b)
  && list_eqb pair_eqb (k_exclude a) (k_exclude b)
  && list_eqb (fun x y => match x, y with (p, v, n, m), (q, w, n', m') =>
                 str_eqb p q && str_eqb v w && str_eqb n n' && str_eqb m m' end) (k_replace a) (k_replace b)
  && list_eqb (fun x y => match x, y with (p, v, r), (q, w, r') => str_eqb p q && str_eqb v w && str_eqb r r' end)
              (k_retract a) (k_retract b)
  && list_eqb str_eqb (k_tool a) (k_tool b)
  && list_eqb pair_eqb (k_use a) (k_use b).

(* coherence after every operation of the sequence, not only at its end *)
Fixpoint coherent_along (ops : list op) (f : file) : bool :=
  coherentb f &&
  match ops with
  | [] => true
  | o :: r => match apply o f with
              | ROk f' | RErr f' => coherent_along r f'
              | RPanic => true
              end
  end.

Definition inv_case (a : val) : val :=
  match a with
  | VL [st; VL ops] =>
      match dec_file st, dec_list dec_op ops with
      | Some f, Some os =>
          match run_ops os f with
          | RunPanic k => VL [VS (B "panic"); VI (Z.of_nat k)]
          | RunOk errs f' =>
              let (k', kerrs) := krun os (abs f) [] in
              VL [VB (coherentb f); VB (coherent_along os f); VB (list_eqb Bool.eqb errs kerrs);
                  VB (kstate_eqb (abs f') k'); VB (forallb valid_args os)]
          end
      | _, _ => VBadCase
      end
  | _ => VBadCase
  end.

Definition dispatch (f : str) (a : val) : val :=
  if str_eqb f (B "EditTyped") then run_case 0 a
  else if str_eqb f (B "EditSyntax") then run_case 1 a
  else if str_eqb f (B "EditAll") then run_case 2 a
  else if str_eqb f (B "EditInv") then inv_case a
  else VBadCase.
