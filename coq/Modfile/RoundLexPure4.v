(* Round trip, part 4d: positions of the tokens of the real lexer, and the theorem
   [lex_stream]: every token stream the lexer delivers has the row structure [rs],
   ordered positions [ordered], and tokens that lex again [tok_wf]. *)
From Verif.Base Require Import Bytes Utf8.
From Verif.Gen Require Import GenChars GenUnicode.
From Verif.Modfile Require Import Syntax Lex Parse ProofsLex ProofsLexNoLF RoundRows RoundAssign RoundParse
  RoundLexPure RoundLexPure2 RoundLexPure3.

(* the lexer at the start of a token (white space skipped) *)
Definition ptok0 (f : nat) (d : bool) (s : str) : ptr :=
  if has_prefix s [47; 47] then pcomment f d s
  else if has_prefix s [47; 42] then PErr
  else pmain f s.

Definition is_sp (c : Z) : bool := (c =? 32) || (c =? 9) || (c =? 13).

(* x is the text of a token of kind k in some context *)
Definition lexed (k : tkind) (x : str) : Prop :=
  exists f d r1, ptok0 f d (x ++ r1) = PTok k x r1.

Definition tok_wf (t : token) : Prop :=
  match t_kind t with
  | KEOF => True
  | KComment | KEOLComment => comment_text (t_text t)
  | _ => lexed (t_kind t) (t_text t)
  end.

Lemma linv_between data st st' c : linv data st -> linv data st' -> ls_rem st = c ++ ls_rem st' ->
  p_byte (ls_pos st') = p_byte (ls_pos st) + Z.of_nat (length c) /\
  p_line (ls_pos st') = p_line (ls_pos st) + count_lf c.
Proof.
  intros [Hp Hd] [Hp' Hd'] E.
  destruct (at_pos_split _ _ _ Hp) as (pre & E1 & Hb). destruct (at_pos_split _ _ _ Hp') as (pre' & E1' & Hb').
  assert (Epre : pre' = pre ++ c).
  { rewrite E in E1. rewrite E1' in E1 at 1. rewrite app_assoc in E1. apply app_inv_tail in E1. exact E1. }
  pose proof (at_pos_line _ _ _ Hp) as L. pose proof (at_pos_line _ _ _ Hp') as L'.
  rewrite Hb, Nat2Z.id in L. rewrite Hb', Nat2Z.id in L'.
  assert (F1 : firstn (length pre) data = pre).
  { rewrite E1. rewrite firstn_app, firstn_all, Nat.sub_diag. cbn [firstn]. apply app_nil_r. }
  assert (F2 : firstn (length pre') data = pre').
  { rewrite E1'. rewrite firstn_app, firstn_all, Nat.sub_diag. cbn [firstn]. apply app_nil_r. }
  rewrite F1 in L. rewrite F2 in L'.
  rewrite Epre, count_lf_app in L'. rewrite Epre, app_length in Hb'. split; lia.
Qed.

Lemma read_token_start data : forall f st d, linv data st -> dinv st d ->
  match read_token f st with
  | TTok t st' =>
      exists f0 st0 sp, linv data st0 /\ ls_rem st = sp ++ ls_rem st0 /\ Forall (fun c => is_sp c = true) sp /\
        t_pos t = ls_pos st0 /\ ptok0 f0 d (ls_rem st0) = PTok (t_kind t) (t_text t) (ls_rem st')
  | _ => True
  end.
Proof.
  induction f as [|f IH]; intros st d Hi Hd; cbn [read_token]; [exact I|].
  assert (Hmain : peek_prefix st [47; 47] = false -> peek_prefix st [47; 42] = false ->
    match read_main f st with
    | TTok t st' =>
        exists f0 st0 sp, linv data st0 /\ ls_rem st = sp ++ ls_rem st0 /\ Forall (fun c => is_sp c = true) sp /\
          t_pos t = ls_pos st0 /\ ptok0 f0 d (ls_rem st0) = PTok (t_kind t) (t_text t) (ls_rem st')
    | _ => True
    end).
  { intros H1 H2. pose proof (read_main_pure data f st Hi) as Hp.
    destruct (read_main f st) as [t st'| | |]; auto. destruct Hp as (Hp & _ & Hpos & _).
    exists f, st, []. split; [exact Hi|]. split; [reflexivity|]. split; [constructor|]. split; [exact Hpos|].
    unfold ptok0. unfold peek_prefix in H1, H2. rewrite H1, H2. exact Hp. }
  destruct (eof st) eqn:Ee.
  { apply eof_true in Ee. apply Hmain; unfold peek_prefix; rewrite Ee; reflexivity. }
  destruct ((peek_rune st =? 32) || (peek_rune st =? 9) || (peek_rune st =? 13)) eqn:Esp.
  { destruct (read_rune st) as [[r st1]|] eqn:Hr; [|exact I].
    destruct (read_rune_spec _ _ _ _ Hi Hr) as (Hi1 & _ & w & Hdec & Hrem & Hne & _).
    rewrite (peek_read _ _ _ Hr) in Esp. destruct (is_sp_rune _ Esp) as (Hn10 & Hns).
    assert (Hsm : r < 128) by (repeat (apply orb_true_iff in Esp as [Esp|Esp]); apply Z.eqb_eq in Esp; lia).
    destruct (decode_small _ _ _ Hne Hdec Hsm) as (-> & t0 & Et).
    pose proof (IH st1 d Hi1 (read_rune_space data st d r st1 Hi Hd Hr Hn10 Hns)) as H.
    destruct (read_token f st1) as [t st'| | |]; auto.
    destruct H as (f0 & st0 & sp & A & B & C & D & E).
    exists f0, st0, (r :: sp). split; [exact A|]. split; [rewrite Et; cbn [app]; f_equal; rewrite <- B, Hrem, Et; reflexivity|].
    split; [constructor; [exact Esp|exact C]|]. split; [exact D|exact E]. }
  destruct (peek_prefix st [47; 47]) eqn:Ess.
  { pose proof (read_comment_pure data f st Hi) as Hp.
    destruct (read_comment f st) as [t st'| | |]; auto. destruct Hp as (Hp & _ & Hpos & _).
    exists f, st, []. split; [exact Hi|]. split; [reflexivity|]. split; [constructor|]. split; [exact Hpos|].
    unfold ptok0. unfold peek_prefix in Ess. rewrite Ess. rewrite (dinv_has _ _ Hd) in Hp; [exact Hp|].
    apply eof_false. exact Ee. }
  destruct (peek_prefix st [47; 42]) eqn:Esb; [exact I|]. apply Hmain; reflexivity.
Qed.

(* what is known of a token and the states around it *)
Record tokfacts (st st' : lstate) (d : bool) (t : token) : Prop := mkTF {
  tf_pb : p_byte (ls_pos st) <= bpos t;
  tf_pl : lpos t = p_line (ls_pos st);
  tf_end : t_end t = ls_pos st';
  tf_b : bpos t <= bend t;
  tf_bs : is_eof (t_kind t) = false -> bpos t < bend t;
  tf_l1 : lpos t <= lnend t;
  tf_l2 : is_ltok (t_kind t) = true -> lnend t = lpos t;
  tf_l3 : is_kpunct (t_kind t) 10 = true -> lnend t = lpos t + 1;
  tf_l4 : is_comment_kind (t_kind t) = true -> lnend t = lpos t + 1 \/ ls_rem st' = [];
  tf_lex : tok_lex t;
  tf_cls : match t_kind t with KEOLComment => d = true | KComment => d = false | _ => True end;
  tf_wf : tok_wf t
}.

Lemma sp_nolf sp : Forall (fun c => is_sp c = true) sp -> count_lf sp = 0.
Proof.
  induction 1 as [|c sp Hc Hsp IH]; [reflexivity|]. unfold count_lf in *. cbn [filter].
  unfold is_sp in Hc. destruct (Z.eqb_spec c 10) as [->|]; [discriminate|exact IH].
Qed.

Lemma is_lp_cons q x : q <> 40 -> is_lp (q :: x) = false.
Proof. intros H. unfold is_lp. cbn. apply Z.eqb_neq in H. rewrite H. reflexivity. Qed.
Lemma is_rp_cons q x : q <> 41 -> is_rp (q :: x) = false.
Proof. intros H. unfold is_rp. cbn. apply Z.eqb_neq in H. rewrite H. reflexivity. Qed.

Lemma is_ident_40 : is_ident 40 = false. Proof. reflexivity. Qed.
Lemma is_ident_41 : is_ident 41 = false. Proof. reflexivity. Qed.

Lemma ident_not_paren s x rest c : s = x ++ rest -> is_ident (ppeek s) = true -> str_eqb x [c] = true ->
  c < 128 -> is_ident c = true.
Proof.
  intros E Hid Hx Hc. apply str_eqb_eq in Hx. subst x. cbn in E. subst s.
  unfold ppeek in Hid. rewrite decode_ascii_head in Hid by exact Hc. exact Hid.
Qed.

Lemma read_token_facts data f st d : linv data st -> dinv st d ->
  match read_token f st with
  | TTok t st' => tokfacts st st' d t /\ linv data st' /\ dinv st' (next_dirty (t_kind t) d)
  | _ => True
  end.
Proof.
  intros Hi Hd. pose proof (read_token_pure data f st d Hi Hd) as Hp.
  pose proof (read_token_start data f st d Hi Hd) as Hs.
  pose proof (read_token_nolf data f st Hi) as Hn.
  destruct (read_token f st) as [t st'| | |]; auto.
  destruct Hp as (_ & Hi' & Hd' & Hend). destruct Hs as (f0 & st0 & sp & Hi0 & Esp & Hsp & Hpos & Hp0).
  split; [|split; assumption].
  destruct (linv_between _ _ _ _ Hi Hi0 Esp) as (B0 & L0). rewrite (sp_nolf _ Hsp) in L0.
  unfold ptok0 in Hp0.
  assert (Hgen : forall raw, ls_rem st0 = raw ++ ls_rem st' ->
            bend t = bpos t + Z.of_nat (length raw) /\ lnend t = lpos t + count_lf raw).
  { intros raw Er. destruct (linv_between _ _ _ _ Hi0 Hi' Er) as (B1 & L1).
    unfold bend, bpos, lnend, lpos. rewrite Hend, Hpos. split; lia. }
  assert (Hpb : p_byte (ls_pos st) <= bpos t) by (unfold bpos; rewrite Hpos; lia).
  assert (Hpl : lpos t = p_line (ls_pos st)) by (unfold lpos; rewrite Hpos; lia).
  destruct (has_prefix (ls_rem st0) [47; 47]) eqn:Ess.
  { (* a comment *)
    destruct (pcomment_shape _ _ _ _ _ _ Ess Hp0) as (Hk & Hct & raw & Er & Hne & Hlf).
    destruct (Hgen raw Er) as (G1 & G2).
    assert (Hlen : (0 < length raw)%nat) by (destruct raw; [congruence|cbn; lia]).
    assert (Hcnt : 0 <= count_lf raw) by (unfold count_lf; lia).
    apply mkTF; [exact Hpb|exact Hpl|exact Hend|lia|intros _; lia|lia| | | | | |].
    - intros Hl. rewrite Hk in Hl. destruct d; discriminate.
    - intros Hl. rewrite Hk in Hl. destruct d; discriminate.
    - intros _. destruct Hlf as [H|(H & H')]; [left; lia|right; exact H'].
    - unfold tok_lex. rewrite Hk. destruct d; exact I.
    - rewrite Hk. destruct d; reflexivity.
    - unfold tok_wf. rewrite Hk. destruct d; exact Hct. }
  destruct (has_prefix (ls_rem st0) [47; 42]) eqn:Esb; [discriminate|].
  destruct (pmain_shape _ _ _ _ _ Hp0) as (Er & Hsh).
  destruct (Hgen _ Er) as (G1 & G2).
  assert (Hwf : lexed (t_kind t) (t_text t)).
  { exists f0, d, (ls_rem st'). unfold ptok0. rewrite <- Er, Ess, Esb. exact Hp0. }
  assert (Hcnt : 0 <= count_lf (t_text t)) by (unfold count_lf; lia).
  assert (Hwf' : is_comment_kind (t_kind t) = false -> is_eof (t_kind t) = false -> tok_wf t).
  { unfold tok_wf. destruct (t_kind t); cbn; try discriminate; auto. }
  destruct (t_kind t) as [| | | | |c] eqn:Ek; try contradiction.
  - (* EOF *) destruct Hsh as (Hx & Hr). rewrite Hx in *. cbn in G1, G2.
    apply mkTF; rewrite ?Ek; [exact Hpb|exact Hpl|exact Hend|lia|discriminate|lia|discriminate|discriminate|discriminate| |exact I|].
    + unfold tok_lex. rewrite Ek. exact I.
    + unfold tok_wf. rewrite Ek. exact I.
  - (* identifier *)
    destruct Hsh as [(Hx & Hss)|(Hx & Hid)]; [rewrite Hss in Ess; discriminate|].
    specialize (Hn eq_refl). unfold nolf in Hn. rewrite Hn in G2.
    assert (Hlen : (0 < length (t_text t))%nat) by (destruct (t_text t); [congruence|cbn; lia]).
    apply mkTF; rewrite ?Ek; [exact Hpb|exact Hpl|exact Hend|lia|intros _; lia|lia|intros _; lia|discriminate|discriminate| |exact I|].
    + unfold tok_lex. rewrite Ek. split.
      * destruct (is_lp (t_text t)) eqn:E; [|reflexivity].
        pose proof (ident_not_paren _ _ _ 40 Er Hid E ltac:(lia)). discriminate.
      * destruct (is_rp (t_text t)) eqn:E; [|reflexivity].
        pose proof (ident_not_paren _ _ _ 41 Er Hid E ltac:(lia)). discriminate.
    + apply Hwf'; reflexivity.
  - (* string *)
    destruct Hsh as (q & x' & Hx & Hq).
    specialize (Hn eq_refl). unfold nolf in Hn. rewrite Hn in G2.
    assert (Hlen : (0 < length (t_text t))%nat) by (rewrite Hx; cbn; lia).
    apply mkTF; rewrite ?Ek; [exact Hpb|exact Hpl|exact Hend|lia|intros _; lia|lia|intros _; lia|discriminate|discriminate| |exact I|].
    + unfold tok_lex. rewrite Ek, Hx. split; [apply is_lp_cons|apply is_rp_cons]; lia.
    + apply Hwf'; reflexivity.
  - (* punctuation *)
    destruct Hsh as (Hx & Hpu). rewrite Hx in G1, G2. cbn [length] in G1.
    assert (Hlx : tok_lex t) by (unfold tok_lex; rewrite Ek; exact Hx).
    destruct (Z.eqb_spec c 10) as [->|Hc].
    + unfold count_lf in G2. cbn in G2.
      apply mkTF; rewrite ?Ek; [exact Hpb|exact Hpl|exact Hend|lia|intros _; lia|lia|discriminate|intros _; lia|discriminate|exact Hlx|exact I|].
      apply Hwf'; reflexivity.
    + assert (G2' : lnend t = lpos t).
      { rewrite G2. unfold count_lf. cbn. apply Z.eqb_neq in Hc. rewrite Hc. cbn. lia. }
      apply mkTF; rewrite ?Ek; [exact Hpb|exact Hpl|exact Hend|lia|intros _; lia|lia|intros _; lia| |discriminate|exact Hlx|exact I|].
      * cbn. intros H. apply Z.eqb_eq in H. contradiction.
      * apply Hwf'; reflexivity.
Qed.

(* ---------------------------------------------------------------- the whole stream *)

Lemma lex_all_acc : forall f st acc,
  lex_all f st acc = (rev acc ++ fst (lex_all f st []), snd (lex_all f st [])).
Proof.
  induction f as [|f IH]; intros st acc; cbn [lex_all]; [rewrite !frev_rev; cbn; rewrite app_nil_r; reflexivity|].
  destruct (read_token f st) as [t st'|p e| |]; try (rewrite !frev_rev; cbn; rewrite app_nil_r; reflexivity).
  destruct (is_eof (t_kind t)).
  - rewrite !frev_rev. reflexivity.
  - rewrite (IH st' (t :: acc)), (IH st' [t]). cbn [rev fst snd app]. rewrite <- app_assoc. reflexivity.
Qed.

Lemma lex_all_stream data : forall f st d ts,
  linv data st -> dinv st d -> (rem_len st + 3 <= f)%nat -> lex_all f st [] = (ts, LEnd) ->
  rs d ts /\ ordered ts /\ Forall tok_wf ts /\
  Forall (fun t => p_byte (ls_pos st) <= bpos t /\ p_line (ls_pos st) <= lpos t) ts /\
  nl ts = p_line (ls_pos st) /\
  (ls_rem st = [] -> Forall (fun t => is_eof (t_kind t) = true) ts).
Proof.
  induction f as [|f IH]; intros st d ts Hi Hd Hf Hl; [lia|]. cbn [lex_all] in Hl.
  pose proof (read_token_facts data f st d Hi Hd) as Hfacts.
  pose proof (read_token_good data f st Hi ltac:(lia)) as Hg.
  assert (Heof : ls_rem st = [] -> match read_token f st with TTok t _ => is_eof (t_kind t) = true | _ => True end).
  { intros He. destruct f as [|f']; [lia|]. cbn [read_token]. apply eof_true in He. rewrite He.
    unfold read_main. rewrite He. reflexivity. }
  destruct (read_token f st) as [t st'|p e| |]; cbn in Hg; try contradiction.
  2:{ injection Hl as _ Hl. discriminate. }
  destruct Hfacts as (F & Hi' & Hd'). destruct Hg as (_ & _ & _ & _ & Hlt).
  destruct (is_eof (t_kind t)) eqn:Ek.
  - (* the end *)
    injection Hl as <-. cbn [frev rev_append].
    assert (Hk : t_kind t = KEOF) by (destruct (t_kind t); cbn in Ek; try discriminate; reflexivity).
    split; [cbn; split; [apply (tf_lex _ _ _ _ F)|rewrite Hk; reflexivity]|].
    split.
    { cbn [ordered]. split; [apply (tf_b _ _ _ _ F)|]. split; [apply (tf_bs _ _ _ _ F)|].
      split; [apply (tf_l1 _ _ _ _ F)|]. split; [apply (tf_l2 _ _ _ _ F)|]. split; [apply (tf_l3 _ _ _ _ F)|].
      split; [intros Hc; rewrite Hk in Hc; discriminate|]. split; [constructor|]. split; exact I. }
    split; [constructor; [apply (tf_wf _ _ _ _ F)|constructor]|].
    split; [constructor; [split; [apply (tf_pb _ _ _ _ F)|rewrite (tf_pl _ _ _ _ F); lia]|constructor]|].
    split; [cbn; apply (tf_pl _ _ _ _ F)|]. intros _. constructor; [exact Ek|constructor].
  - rewrite lex_all_acc in Hl. injection Hl as Hts Hend. cbn [rev app] in Hts.
    destruct (lex_all f st' []) as [ts' e'] eqn:El. cbn [fst snd] in *. subst e' ts.
    specialize (Hlt eq_refl).
    destruct (IH st' _ ts' Hi' Hd' ltac:(lia) El) as (R & O & W & P & N & Z).
    pose proof (tf_end _ _ _ _ F) as Hend.
    split.
    { cbn [rs]. split; [apply (tf_lex _ _ _ _ F)|]. pose proof (tf_cls _ _ _ _ F) as Hc.
      destruct (t_kind t) as [| | | | |c]; cbn in Ek, R, Hc |- *; try discriminate; auto.
      destruct (c =? 10); exact R. }
    split.
    { cbn [ordered]. split; [apply (tf_b _ _ _ _ F)|]. split; [apply (tf_bs _ _ _ _ F)|].
      split; [apply (tf_l1 _ _ _ _ F)|]. split; [apply (tf_l2 _ _ _ _ F)|]. split; [apply (tf_l3 _ _ _ _ F)|].
      split.
      { intros Hc. destruct (tf_l4 _ _ _ _ F Hc) as [H|H]; [left; exact H|right; apply Z; exact H]. }
      split.
      { eapply Forall_impl; [|exact P]. intros u (U1 & U2). unfold bend, lnend. rewrite Hend. split; assumption. }
      split; [|exact O].
      destruct ts' as [|u ts']; [exact I|]. cbn [nl] in N. unfold lnend. rewrite Hend. exact N. }
    split; [constructor; [apply (tf_wf _ _ _ _ F)|exact W]|].
    split.
    { constructor; [split; [apply (tf_pb _ _ _ _ F)|rewrite (tf_pl _ _ _ _ F); lia]|].
      eapply Forall_impl; [|exact P]. intros u (U1 & U2).
      pose proof (tf_pb _ _ _ _ F). pose proof (tf_b _ _ _ _ F). pose proof (tf_l1 _ _ _ _ F). pose proof (tf_pl _ _ _ _ F).
      unfold bend, lnend in *. rewrite Hend in *. split; lia. }
    split; [cbn; apply (tf_pl _ _ _ _ F)|].
    intros He. specialize (Heof He). cbn in Heof. congruence.
Qed.

Theorem lex_stream data ts : lex data = (ts, LEnd) -> rs false ts /\ ordered ts /\ Forall tok_wf ts.
Proof.
  intros H. unfold lex in H.
  destruct (lex_all_stream data (lex_fuel data) (init_state data) false ts (linv_init data) (dinv_init data)
              ltac:(unfold rem_len, lex_fuel, init_state; cbn; lia) H) as (A & B & C & _).
  auto.
Qed.
