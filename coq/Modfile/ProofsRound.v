(* Round trip parse -> format -> parse: the event stream of a tree (what the round trip
   must preserve) and a kernel-checked exhaustive verification on all short inputs over a
   syntax-relevant alphabet.  The general theorems (all inputs) are not proved; see
   Props/C02.v. *)
From Verif.Base Require Import Bytes.
From Verif.Modfile Require Import Syntax Lex Parse Print.

(* The event stream: the statements in order, each with its tokens, interleaved with the
   comment texts (after TrimSpace, which is what the printer emits) in the order the
   printer visits them.  It does not record which node a comment hangs on. *)
Inductive event :=
| EvComment (text : str)
| EvLine (tokens : list str)
| EvBlock (tokens : list str)
| EvLParen | EvRParen
| EvCommentBlock.

Definition ev_comments (cs : list comment) : list event :=
  map (fun c => EvComment (trim_space (c_token c))) cs.

Definition ev_line (l : line) : list event :=
  ev_comments (cm_before (l_comments l)) ++ [EvLine (l_token l)] ++ ev_comments (cm_suffix (l_comments l)).

Definition ev_expr (x : expr) : list event :=
  match x with
  | ELine l => ev_line l ++ ev_comments (cm_after (l_comments l))
  | EBlock b =>
      ev_comments (cm_before (b_comments b)) ++ [EvBlock (b_token b)]
      ++ ev_comments (cm_before (pr_comments (b_lparen b))) ++ [EvLParen]
      ++ ev_comments (cm_suffix (pr_comments (b_lparen b)))
      ++ flat_map ev_line (b_line b)
      ++ ev_comments (cm_before (pr_comments (b_rparen b))) ++ [EvRParen]
      ++ ev_comments (cm_suffix (pr_comments (b_rparen b)))
      ++ ev_comments (cm_suffix (b_comments b))
      ++ ev_comments (cm_after (b_comments b))
  | ECommentBlock c =>
      ev_comments (cm_before (cb_comments c)) ++ [EvCommentBlock]
      ++ ev_comments (cm_suffix (cb_comments c)) ++ ev_comments (cm_after (cb_comments c))
  end.

Definition events (s : file_syntax) : list event :=
  ev_comments (cm_before (f_comments s)) ++ flat_map ev_expr (f_stmt s).

(* decidable equality of event streams *)
Fixpoint strs_eqb (a b : list str) : bool :=
  match a, b with
  | [], [] => true
  | x :: a', y :: b' => str_eqb x y && strs_eqb a' b'
  | _, _ => false
  end.

Definition event_eqb (a b : event) : bool :=
  match a, b with
  | EvComment x, EvComment y => str_eqb x y
  | EvLine x, EvLine y => strs_eqb x y
  | EvBlock x, EvBlock y => strs_eqb x y
  | EvLParen, EvLParen | EvRParen, EvRParen | EvCommentBlock, EvCommentBlock => true
  | _, _ => false
  end.

Fixpoint events_eqb (a b : list event) : bool :=
  match a, b with
  | [], [] => true
  | x :: a', y :: b' => event_eqb x y && events_eqb a' b'
  | _, _ => false
  end.

Lemma strs_eqb_eq a b : strs_eqb a b = true -> a = b.
Proof.
  revert b; induction a as [|x a IH]; intros [|y b]; cbn; try discriminate; auto.
  intros H. apply andb_true_iff in H as [H1 H2]. apply str_eqb_eq in H1. f_equal; auto.
Qed.

Lemma event_eqb_eq a b : event_eqb a b = true -> a = b.
Proof.
  destruct a, b; cbn; try discriminate; auto; intros H;
    try (apply str_eqb_eq in H; congruence); apply strs_eqb_eq in H; congruence.
Qed.

Lemma events_eqb_eq a b : events_eqb a b = true -> a = b.
Proof.
  revert b; induction a as [|x a IH]; intros [|y b]; cbn; try discriminate; auto.
  intros H. apply andb_true_iff in H as [H1 H2]. apply event_eqb_eq in H1. f_equal; auto.
Qed.

(* the round-trip property of one input, as a boolean *)
Definition round_ok (data : str) : bool :=
  match parse data with
  | POk s =>
      match parse (format s) with
      | POk s' => events_eqb (events s') (events s) && str_eqb (format s') (format s)
      | _ => false
      end
  | _ => true
  end.

Lemma round_ok_spec data s : round_ok data = true -> parse data = POk s ->
  exists s', parse (format s) = POk s' /\ events s' = events s /\ format s' = format s.
Proof.
  unfold round_ok. intros H E. rewrite E in H.
  destruct (parse (format s)) as [s'| | |]; try discriminate.
  apply andb_true_iff in H as [H1 H2]. exists s'. split; [reflexivity|].
  split; [apply events_eqb_eq; exact H1|apply str_eqb_eq; exact H2].
Qed.

(* all words of length <= n over an alphabet *)
Fixpoint words (alphabet : list Z) (n : nat) : list str :=
  match n with
  | O => [[]]
  | S k => [] :: flat_map (fun w => map (fun c => c :: w) alphabet) (words alphabet k)
  end.

Lemma in_words alphabet : forall n w, (length w <= n)%nat -> Forall (fun c => In c alphabet) w ->
  In w (words alphabet n).
Proof.
  induction n as [|n IH]; intros w Hl Hw.
  - destruct w; [left; reflexivity|cbn in Hl; lia].
  - destruct w as [|c w]; [left; reflexivity|]. right. inversion Hw; subst.
    apply in_flat_map. exists w. split; [apply IH; [cbn in Hl; lia|assumption]|].
    apply (in_map (fun c0 => c0 :: w)). assumption.
Qed.

(* the letter a, space, LF, both parentheses, slash, double quote, comma *)
Definition small_alphabet : list Z := [97; 32; 10; 40; 41; 47; 34; 44].

Lemma round_small_computed : forallb round_ok (words small_alphabet 5) = true.
Proof. vm_compute. reflexivity. Qed.

(* format_reparse_same and format_idempotent for every input of at most five bytes over
   [small_alphabet] (37449 inputs, checked by the kernel) *)
Theorem format_round_trip_small data s :
  (length data <= 5)%nat -> Forall (fun c => In c small_alphabet) data ->
  parse data = POk s ->
  exists s', parse (format s) = POk s' /\ events s' = events s /\ format s' = format s.
Proof.
  intros Hl Ha E. apply (round_ok_spec data s); [|exact E].
  pose proof round_small_computed as H. rewrite forallb_forall in H. apply H.
  apply in_words; assumption.
Qed.
