(* C16, need_order_irrelevant for SetRequire and SetUse: the entries that remain in the [need]
   map are added by ranging over a Go map, i.e. in an arbitrary order.  Whatever the order, the
   syntax tree after the final SortBlocks is the same, and so are the typed lists as multisets. *)
From Coq Require Import Sorted Permutation.
From Verif.Base Require Import Bytes.
From Verif.Semver Require Import ProofsOrder ProofsStr.
From Verif.Modfile Require Import Syntax EditModel EditOps EditSpec EditProofsTyped EditProofsHeap EditProofsCoherent
  EditProofsCleanup EditProofsAddLine EditProofsAdd EditProofsUpsert EditProofsSort EditProofsSeq EditProofsExact
  EditProofsBlocks EditProofsSetRequire EditProofsComments
  EditProofs2Blocks EditProofs2Settable EditProofs2Sri EditProofs2Inv EditProofs2Order EditProofs2Place EditProofs2Fold EditProofs2Render.

Arguments hget : simpl never.
Arguments hset : simpl never.

(* ---------------------------------------------------------------- small facts *)
Lemma hset_same h i : hset h i (hget h i) = h.
Proof.
  revert i. induction h as [|a h IH]; intros [|i]; try reflexivity.
  change (hset (a :: h) (S i) (hget (a :: h) (S i))) with (a :: hset h i (hget h i)). rewrite IH. reflexivity.
Qed.

Definition ind_coms (ind : bool) : coms := if ind then set_suffix no_coms [B "// indirect"] else no_coms.

Lemma set_indirect_line_new t b ind : set_indirect_line (mkHL no_coms t b) ind = mkHL (ind_coms ind) t b.
Proof. destruct ind; reflexivity. Qed.

(* the new-line steps of the two setters are [astep]s *)
Definition req_item (kv : str * (str * bool)) : item := ([auto_quote (fst kv); fst (snd kv)], ind_coms (snd (snd kv))).
Definition use_item (kv : str * str) : item := ([auto_quote (fst kv)], no_coms).

Lemma add_new_require_syn f p v ind :
  fsyn (add_new_require f p v ind) = astep v_require (fsyn f) ([auto_quote p; v], ind_coms ind).
Proof.
  unfold add_new_require, astep. cbn [fst snd].
  destruct (add_line_heap (fsyn f) None v_require [auto_quote p; v]) as [_ [_ [_ [inb Hnew]]]].
  destruct (add_line_heap (fsyn f) None v_require [auto_quote p; v]) as [Hn _].
  destruct (add_line (fsyn f) None v_require [auto_quote p; v]) as [s1 n]. cbn [fst snd] in *. subst n.
  cbn [fsyn with_require with_syn]. rewrite Hnew, set_indirect_line_new. reflexivity.
Qed.

Lemma add_new_use_syn f p m : fsyn (add_new_use f p m) = astep v_use (fsyn f) ([auto_quote p], no_coms).
Proof.
  unfold add_new_use, astep. cbn [fst snd].
  destruct (add_line_heap (fsyn f) None v_use [auto_quote p]) as [_ [_ [_ [inb Hnew]]]].
  destruct (add_line_heap (fsyn f) None v_use [auto_quote p]) as [Hn _].
  destruct (add_line (fsyn f) None v_use [auto_quote p]) as [s1 n]. cbn [fst snd] in *. subst n.
  cbn [fsyn with_use with_syn].
  assert (E : set_com (sget s1 (heap_len (fsyn f))) no_coms = sget s1 (heap_len (fsyn f))) by (rewrite Hnew; reflexivity).
  rewrite E. unfold sset, sget. rewrite hset_same. apply syn_eta.
Qed.

Definition add_reqs (N : list (str * (str * bool))) (f : file) : file :=
  fold_left (fun g kv => add_new_require g (fst kv) (fst (snd kv)) (snd (snd kv))) N f.
Definition add_uses (N : list (str * str)) (f : file) : file :=
  fold_left (fun g kv => add_new_use g (fst kv) (snd kv)) N f.

Lemma add_reqs_syn N : forall f, fsyn (add_reqs N f) = fold_left (astep v_require) (map req_item N) (fsyn f).
Proof.
  induction N as [|kv r IH]; intros f; [reflexivity|]. cbn [add_reqs fold_left map].
  fold (add_reqs r (add_new_require f (fst kv) (fst (snd kv)) (snd (snd kv)))).
  rewrite IH, add_new_require_syn. reflexivity.
Qed.

Lemma add_uses_syn N : forall f, fsyn (add_uses N f) = fold_left (astep v_use) (map use_item N) (fsyn f).
Proof.
  induction N as [|kv r IH]; intros f; [reflexivity|]. cbn [add_uses fold_left map].
  fold (add_uses r (add_new_use f (fst kv) (snd kv))).
  rewrite IH, add_new_use_syn. reflexivity.
Qed.

(* everything but the syntax tree and the Require (Use) list *)
Definition fields_but_require (f : file) :=
  (f_module f, f_go f, f_toolchain f, f_godebug f, f_exclude f, f_replace f, f_retract f, f_tool f, f_use f).
Definition fields_but_use (f : file) :=
  (f_module f, f_go f, f_toolchain f, f_godebug f, f_require f, f_exclude f, f_replace f, f_retract f, f_tool f).

Lemma add_reqs_fields N : forall f, fields_but_require (add_reqs N f) = fields_but_require f.
Proof.
  induction N as [|kv r IH]; intros f; [reflexivity|]. cbn [add_reqs fold_left].
  fold (add_reqs r (add_new_require f (fst kv) (fst (snd kv)) (snd (snd kv)))). rewrite IH.
  unfold add_new_require. destruct (add_line _ _ _ _) as [s1 n]. reflexivity.
Qed.

Lemma add_uses_fields N : forall f, fields_but_use (add_uses N f) = fields_but_use f.
Proof.
  induction N as [|kv r IH]; intros f; [reflexivity|]. cbn [add_uses fold_left].
  fold (add_uses r (add_new_use f (fst kv) (snd kv))). rewrite IH.
  unfold add_new_use. destruct (add_line _ _ _ _) as [s1 n]. reflexivity.
Qed.

(* ---------------------------------------------------------------- removeDups only kills old lines *)
Definition kill_set (f : file) (mod_ : bool) : list (option lid) :=
  let k1 := if mod_ then dups same_exclude ex_syn [] (f_exclude f) [] else [] in
  let k2 := dups same_replace_old rp_syn [] (rev (f_replace f)) k1 in
  if mod_ then dups same_tool tl_syn [] (f_tool f) k2 else k2.

Lemma remove_dups_syn f mod_ : fsyn (remove_dups f mod_) = remove_killed (fsyn f) (kill_set f mod_).
Proof. reflexivity. Qed.

Lemma entry_line_lt f e i : Coherent f -> In e (entries f) -> en_syn e = Some i -> (i < heap_len (fsyn f))%nat.
Proof.
  intros Hc He Hs. pose proof Hc as [_ Hok _]. unfold EntriesOk in Hok. rewrite Forall_forall in Hok.
  specialize (Hok e He). unfold ent_ok in Hok. destruct (en_live e) eqn:Hl; [|congruence].
  apply coherent_S in Hc. destruct (live_line_lt _ _ e i Hc He Hs Hl) as [Hlt _]. exact Hlt.
Qed.

Lemma kill_set_old f mod_ i : Coherent f -> In (Some i) (kill_set f mod_) -> (i < heap_len (fsyn f))%nat.
Proof.
  intros Hc Hin. unfold kill_set in Hin.
  assert (Hex : In (Some i) (map ex_syn (f_exclude f)) -> (i < heap_len (fsyn f))%nat).
  { intros H. apply in_map_iff in H. destruct H as [x [Hs Hx]].
    apply (entry_line_lt f (ent_exclude x) i Hc); [|exact Hs]. rewrite entries_exclude.
    apply in_app_iff. right. apply in_app_iff. left. apply in_map. exact Hx. }
  assert (Hrp : In (Some i) (map rp_syn (f_replace f)) -> (i < heap_len (fsyn f))%nat).
  { intros H. apply in_map_iff in H. destruct H as [x [Hs Hx]].
    apply (entry_line_lt f (ent_replace x) i Hc); [|exact Hs]. rewrite entries_replace.
    apply in_app_iff. right. apply in_app_iff. left. apply in_map. exact Hx. }
  assert (Htl : In (Some i) (map tl_syn (f_tool f)) -> (i < heap_len (fsyn f))%nat).
  { intros H. apply in_map_iff in H. destruct H as [x [Hs Hx]].
    apply (entry_line_lt f (ent_tool x) i Hc); [|exact Hs]. rewrite entries_tool.
    apply in_app_iff. right. apply in_app_iff. left. apply in_map. exact Hx. }
  assert (H1 : In (Some i) (if mod_ then dups same_exclude ex_syn [] (f_exclude f) [] else []) -> (i < heap_len (fsyn f))%nat).
  { destruct mod_; [|intros []]. intros H. apply dups_in in H. destruct H as [[]|H]. exact (Hex H). }
  assert (H2 : In (Some i) (dups same_replace_old rp_syn [] (rev (f_replace f))
                              (if mod_ then dups same_exclude ex_syn [] (f_exclude f) [] else [])) -> (i < heap_len (fsyn f))%nat).
  { intros H. apply dups_in in H. destruct H as [H|H]; [exact (H1 H)|]. apply Hrp. rewrite map_rev in H. apply in_rev in H. exact H. }
  destruct mod_; [|exact (H2 Hin)]. apply dups_in in Hin. destruct Hin as [H|H]; [exact (H2 H) | exact (Htl H)].
Qed.

(* ---------------------------------------------------------------- the comparator of a block for the verb *)
Lemma require_block_less f b : hd_is (hb_tok b) v_require = true -> block_less f b = toks_less.
Proof.
  intros H. destruct (hd_is_eq _ _ H) as [ts Hts]. unfold block_less. rewrite Hts. reflexivity.
Qed.

(* ---------------------------------------------------------------- the core: order of the additions *)
Lemma NoDup_map_finer {A B C} (f : A -> B) (g : A -> C) l :
  (forall x y, f x = f y -> g x = g y) -> NoDup (map g l) -> NoDup (map f l).
Proof.
  intros H. induction l as [|x r IH]; cbn; intros Hnd; [constructor|]. inversion Hnd as [|? ? Hni Hr]; subst.
  constructor; [|apply IH; exact Hr]. intros Hin. apply Hni. apply in_map_iff in Hin. destruct Hin as [y [E Hy]].
  apply in_map_iff. exists y. split; [apply H; exact E | exact Hy].
Qed.

Lemma fold_sort_render verb (s : syntax) (XsA XsB : list item) lo K name :
  W s -> Permutation XsA XsB -> Forall (fun x : item => fst x <> []) XsA -> NoDup (map fst XsA) ->
  (forall b ls, lo (block_with_lines b ls) = lo b) ->
  (forall b, hd_is (hb_tok b) verb = true -> lo b = toks_less) ->
  (forall i, In (Some i) K -> (i < length (heap s))%nat) ->
  to_syntax name (sortS lo (remove_killed (fold_left (astep verb) XsA s) K))
  = to_syntax name (sortS lo (remove_killed (fold_left (astep verb) XsB s) K)).
Proof.
  intros Hw HP Hok Hnd Hlo1 Hlo2 HK.
  destruct XsA as [|x [|y r]].
  - apply Permutation_nil in HP. subst. reflexivity.
  - apply Permutation_length_1_inv in HP. subst. reflexivity.
  - set (XsA := x :: y :: r) in *. set (k := length XsA).
    assert (Hk : (2 <= k)%nat) by (unfold k, XsA; cbn; lia).
    destruct (fold_astep_closed verb s k Hw Hk) as [C [nb [pre [b [O [post [HC [Hb [HO [Hpp Hcl]]]]]]]]]].
    rewrite (Hcl XsA eq_refl Hok).
    rewrite (Hcl XsB (eq_sym (Permutation_length HP)) (Permutation_Forall HP Hok)).
    assert (Hkk : k = length (map LB XsA)) by (rewrite map_length; reflexivity).
    apply (render_eq C (map LB XsA) (map LB XsB) lo Hlo1 (Permutation_map LB HP) K) with (D := any).
    + intros i Hi. rewrite HC. apply HK. exact Hi.
    + exact Hkk.
    + lia.
    + exact HO.
    + intros st Hst i Hi. apply Hpp. apply in_map_iff in Hi. destruct Hi as [z [<- Hz]].
      apply in_map. unfold stmts_lines. apply in_flat_map. exists st. split; assumption.
    + rewrite (Hlo2 b Hb). apply toks_less_swo.
    + apply Forall_forall. intros z _. exact I.
    + rewrite (Hlo2 b Hb). apply pairwise_tokens. rewrite map_map. exact Hnd.
Qed.

Lemma block_less_go f g : f_go f = f_go g -> block_less f = block_less g.
Proof. intros H. unfold block_less. rewrite H. reflexivity. Qed.

Lemma sort_blocks_syn g : fsyn (sort_blocks g) = sortS (block_less g) (remove_killed (fsyn g) (kill_set g true)).
Proof. reflexivity. Qed.

Lemma w_sort_blocks_syn g : fsyn (w_sort_blocks g) = sortS (fun _ => toks_less) (remove_killed (fsyn g) (kill_set g false)).
Proof. reflexivity. Qed.

Lemma coherent_W f : Coherent f -> BlockIdsOk (fsyn f) -> W (fsyn f).
Proof. intros [Hs _ _] Hb. split; assumption. Qed.

(* SetRequire: the tail of the operation with the remaining entries N of the need map *)
Theorem add_reqs_order_irrelevant f1 N N' name :
  Coherent f1 -> BlockIdsOk (fsyn f1) -> Permutation N N' ->
  NoDup (map (fun kv => auto_quote (fst kv)) N) -> (forall k, In k (keys N) -> k <> []) ->
  to_syntax name (fsyn (sort_blocks (add_reqs N f1))) = to_syntax name (fsyn (sort_blocks (add_reqs N' f1))) /\
  Permutation (k_require (abs (sort_blocks (add_reqs N f1)))) (k_require (abs (sort_blocks (add_reqs N' f1)))) /\
  kset_require (abs (sort_blocks (add_reqs N f1))) [] = kset_require (abs (sort_blocks (add_reqs N' f1))) [].
Proof.
  intros Hc Hb HP Hnd Hne.
  pose proof (add_reqs_fields N f1) as FA. pose proof (add_reqs_fields N' f1) as FB.
  unfold fields_but_require in FA, FB.
  injection FA as A1 A2 A3 A4 A5 A6 A7 A8 A9. injection FB as B1 B2 B3 B4 B5 B6 B7 B8 B9.
  assert (Hne' : forall k, In k (keys N') -> k <> []).
  { intros k Hk. apply Hne. eapply Permutation_in; [symmetry; apply (keys_perm _ _ HP) | exact Hk]. }
  split; [|split].
  - rewrite !sort_blocks_syn, !add_reqs_syn.
    assert (EK : kill_set (add_reqs N f1) true = kill_set f1 true) by (unfold kill_set; rewrite A5, A6, A8; reflexivity).
    assert (EK' : kill_set (add_reqs N' f1) true = kill_set f1 true) by (unfold kill_set; rewrite B5, B6, B8; reflexivity).
    rewrite EK, EK', (block_less_go (add_reqs N f1) f1 A2), (block_less_go (add_reqs N' f1) f1 B2).
    apply (fold_sort_render v_require).
    + apply coherent_W; assumption.
    + apply Permutation_map. exact HP.
    + apply Forall_forall. intros z Hz. apply in_map_iff in Hz. destruct Hz as [kv [<- _]]. discriminate.
    + rewrite map_map. eapply NoDup_map_finer; [|exact Hnd]. intros a c E. cbn in E. congruence.
    + reflexivity.
    + intros b Hbh. apply require_block_less. exact Hbh.
    + intros i Hi. apply (kill_set_old f1 true i Hc Hi).
  - change (k_require (abs (sort_blocks ?g))) with (k_require (abs g)).
    unfold add_reqs. rewrite !fold_add_new_require_abs by assumption.
    apply Permutation_app_head. apply Permutation_map. exact HP.
  - unfold kset_require, abs, sort_blocks, remove_dups.
    cbn [k_module k_go k_toolchain k_godebug k_exclude k_replace k_retract k_tool k_use
         f_module f_go f_toolchain f_godebug f_require f_exclude f_replace f_retract f_tool f_use
         with_syn with_tool with_replace with_exclude].
    rewrite A1, A2, A3, A4, A5, A6, A7, A8, A9, B1, B2, B3, B4, B5, B6, B7, B8, B9. reflexivity.
Qed.

(* SetUse *)
Theorem add_uses_order_irrelevant f1 (N N' : list (str * str)) name :
  Coherent f1 -> BlockIdsOk (fsyn f1) -> Permutation N N' ->
  NoDup (map (fun kv => auto_quote (fst kv)) N) -> (forall k, In k (keys N) -> k <> []) ->
  to_syntax name (fsyn (w_sort_blocks (add_uses N f1))) = to_syntax name (fsyn (w_sort_blocks (add_uses N' f1))) /\
  Permutation (k_use (abs (w_sort_blocks (add_uses N f1)))) (k_use (abs (w_sort_blocks (add_uses N' f1)))) /\
  kset_use (abs (w_sort_blocks (add_uses N f1))) [] = kset_use (abs (w_sort_blocks (add_uses N' f1))) [].
Proof.
  intros Hc Hb HP Hnd Hne.
  pose proof (add_uses_fields N f1) as FA. pose proof (add_uses_fields N' f1) as FB.
  unfold fields_but_use in FA, FB.
  injection FA as A1 A2 A3 A4 A5 A6 A7 A8 A9. injection FB as B1 B2 B3 B4 B5 B6 B7 B8 B9.
  assert (Hne' : forall k, In k (keys N') -> k <> []).
  { intros k Hk. apply Hne. eapply Permutation_in; [symmetry; apply (keys_perm _ _ HP) | exact Hk]. }
  split; [|split].
  - rewrite !w_sort_blocks_syn, !add_uses_syn.
    assert (EK : kill_set (add_uses N f1) false = kill_set f1 false) by (unfold kill_set; rewrite A7; reflexivity).
    assert (EK' : kill_set (add_uses N' f1) false = kill_set f1 false) by (unfold kill_set; rewrite B7; reflexivity).
    rewrite EK, EK'.
    apply (fold_sort_render v_use).
    + apply coherent_W; assumption.
    + apply Permutation_map. exact HP.
    + apply Forall_forall. intros z Hz. apply in_map_iff in Hz. destruct Hz as [kv [<- _]]. discriminate.
    + rewrite map_map. eapply NoDup_map_finer; [|exact Hnd]. intros a c E. cbn in E. congruence.
    + reflexivity.
    + reflexivity.
    + intros i Hi. apply (kill_set_old f1 false i Hc Hi).
  - change (k_use (abs (w_sort_blocks ?g))) with (k_use (abs g)).
    unfold add_uses. rewrite !fold_add_new_use_abs by assumption.
    apply Permutation_app_head. exact HP.
  - unfold kset_use, abs, w_sort_blocks, remove_dups.
    cbn [k_module k_go k_toolchain k_godebug k_require k_exclude k_replace k_retract k_tool
         f_module f_go f_toolchain f_godebug f_require f_exclude f_replace f_retract f_tool f_use
         with_syn with_tool with_replace with_exclude].
    rewrite A1, A2, A3, A4, A5, A6, A7, A8, A9, B1, B2, B3, B4, B5, B6, B7, B8, B9. reflexivity.
Qed.

(* ---------------------------------------------------------------- the operations with an arbitrary enumeration of the map *)
Definition set_require_enum (enum : list (str * (str * bool)) -> list (str * (str * bool))) (f : file) (l : list req) : option file :=
  do need <- set_require_need l [];
  do (s, rs, need') <- set_require_loop (fsyn f) need (f_require f);
  Some (sort_blocks (add_reqs (enum need') (with_require (with_syn f s) rs))).

Lemma set_require_enum_id f l : set_require_enum (fun m => m) f l = set_require f l.
Proof. reflexivity. Qed.

Definition set_use_enum (enum : list (str * str) -> list (str * str)) (f : file) (l : list (str * str)) : option file :=
  let need := fold_left (fun m (q : str * str) => amap_set (fst q) (snd q) m) l [] in
  do (s, us, need') <- set_use_loop (fsyn f) need (f_use f);
  Some (w_sort_blocks (add_uses (enum need') (with_use (with_syn f s) us))).

Lemma set_use_enum_id f l : set_use_enum (fun m => m) f l = set_use f l.
Proof. reflexivity. Qed.

Theorem set_require_need_order_irrelevant enum f l f' name :
  (forall m, Permutation m (enum m)) ->
  distinct_paths (map req_path l) = true -> NoDup (map (fun q => auto_quote (req_path q)) l) ->
  Coherent f -> BlockIdsOk (fsyn f) -> HeapSettable (fsyn f) ->
  set_require f l = Some f' ->
  exists f'', set_require_enum enum f l = Some f'' /\
    to_syntax name (fsyn f'') = to_syntax name (fsyn f') /\
    Permutation (k_require (abs f'')) (k_require (abs f')) /\
    kset_require (abs f'') [] = kset_require (abs f') [].
Proof.
  intros Henum Hd Haq Hc Hb Hs H. unfold set_require in H. unfold set_require_enum.
  apply distinct_paths_spec in Hd. destruct Hd as [Hnd Hne].
  destruct (set_require_need_perm l []) as [N [HN HP]]; [cbn; rewrite app_nil_r; exact Hnd|].
  rewrite HN in H |- *. rewrite app_nil_r in HP.
  destruct (set_require_loop (fsyn f) N (f_require f)) as [[[s rs] N']|] eqn:Hl; [|discriminate]. injection H as <-.
  set (f1 := with_require (with_syn f s) rs).
  assert (HkN : Permutation (keys N) (map req_path l)).
  { rewrite (keys_perm _ _ HP). unfold keys. rewrite map_map. reflexivity. }
  destruct (set_require_loop_perm _ _ _ _ _ _ Hl) as [P1 [P2 P3]].
  { eapply Permutation_NoDup; [symmetry; exact HkN | exact Hnd]. }
  { intros k Hk. rewrite Forall_forall in Hne. apply Hne. eapply Permutation_in; eauto. }
  assert (Hc1 : Coherent f1).
  { apply coherent_S. unfold f1. rewrite entries_require. cbn [fsyn with_require with_syn f_require].
    apply coherent_S in Hc. rewrite entries_require in Hc.
    eapply set_require_loop_S; [exact Hc | | exact Hl]. apply heap_settable_require. exact Hs. }
  assert (Hb1 : BlockIdsOk (fsyn f1)) by (apply (set_require_loop_inv _ _ _ _ _ _ Hl (conj Hb Hs))).
  assert (Haq' : NoDup (map (fun kv : str * (str * bool) => auto_quote (fst kv)) N')).
  { assert (E : Permutation (map (fun q => auto_quote (req_path q)) (map projR (filter liveR rs) ++ map toReq N'))
                            (map (fun q => auto_quote (req_path q)) l)).
    { rewrite (Permutation_map _ P1), (Permutation_map toReq HP), !map_map.
      apply Permutation_refl'. apply map_ext. intros x. rewrite toReq_toKV. reflexivity. }
    apply Permutation_sym in E. pose proof (Permutation_NoDup E Haq) as Hn. rewrite map_app in Hn.
    apply NoDup_app_r in Hn. rewrite map_map in Hn. exact Hn. }
  eexists. split; [reflexivity|].
  destruct (add_reqs_order_irrelevant f1 N' (enum N') name Hc1 Hb1 (Henum N') Haq' P3) as [R1 [R2 R3]].
  split; [symmetry; exact R1 | split; [symmetry; exact R2 | symmetry; exact R3]].
Qed.

Theorem set_use_need_order_irrelevant enum f (l : list (str * str)) f' name :
  (forall m, Permutation m (enum m)) ->
  distinct_paths (map fst l) = true -> NoDup (map (fun q => auto_quote (fst q)) l) ->
  Coherent f -> BlockIdsOk (fsyn f) -> HeapSettable (fsyn f) ->
  set_use f l = Some f' ->
  exists f'', set_use_enum enum f l = Some f'' /\
    to_syntax name (fsyn f'') = to_syntax name (fsyn f') /\
    Permutation (k_use (abs f'')) (k_use (abs f')) /\
    kset_use (abs f'') [] = kset_use (abs f') [].
Proof.
  intros Henum Hd Haq Hc Hb Hs H. unfold set_use in H. unfold set_use_enum.
  apply distinct_paths_spec in Hd. destruct Hd as [Hnd Hne].
  set (N := fold_left (fun m (q : str * str) => amap_set (fst q) (snd q) m) l []) in *.
  assert (HP : Permutation N l).
  { unfold N. rewrite fold_amap_set_perm; [rewrite app_nil_r; reflexivity | cbn; rewrite app_nil_r; exact Hnd]. }
  destruct (set_use_loop (fsyn f) N (f_use f)) as [[[s us] N']|] eqn:Hl; [|discriminate]. injection H as <-.
  set (f1 := with_use (with_syn f s) us).
  destruct (set_use_loop_perm _ _ _ _ _ _ Hl) as [P1 [P2 P3]].
  { eapply Permutation_NoDup; [symmetry; apply (keys_perm _ _ HP) | exact Hnd]. }
  { intros k Hk. rewrite Forall_forall in Hne. apply Hne. eapply Permutation_in; [apply (keys_perm _ _ HP) | exact Hk]. }
  assert (Hc1 : Coherent f1).
  { apply coherent_S. unfold f1. rewrite entries_use. cbn [fsyn with_use with_syn f_use].
    apply coherent_S in Hc. rewrite entries_use in Hc. eapply set_use_loop_S; eauto. }
  assert (Hb1 : BlockIdsOk (fsyn f1)) by (apply (set_use_loop_inv _ _ _ _ _ _ Hl (conj Hb Hs))).
  assert (Haq' : NoDup (map (fun kv : str * str => auto_quote (fst kv)) N')).
  { assert (E : Permutation (map (fun q : str * str => auto_quote (fst q)) (map projU (filter liveU us) ++ N'))
                            (map (fun q : str * str => auto_quote (fst q)) l)).
    { rewrite (Permutation_map _ P1), (Permutation_map _ HP). reflexivity. }
    apply Permutation_sym in E. pose proof (Permutation_NoDup E Haq) as Hn. rewrite map_app in Hn.
    apply NoDup_app_r in Hn. exact Hn. }
  eexists. split; [reflexivity|].
  destruct (add_uses_order_irrelevant f1 N' (enum N') name Hc1 Hb1 (Henum N') Haq' P3) as [R1 [R2 R3]].
  split; [symmetry; exact R1 | split; [symmetry; exact R2 | symmetry; exact R3]].
Qed.
